import N2k.Model.Send
/-!
# NMEA group function PGN 126208 (`src/N2kGroupFunction.cpp`, `src/N2kGroupFunctionDefaultHandlers.cpp`,
`HandleGroupFunction` / `RespondGroupFunction` and the setters the commands call in `src/NMEA2000.cpp`)

Message-level model: a reassembled `tN2kMsg` with PGN 126208 arrives, the node decides what to do
(`Act`, a pure decision) and performs it (`perform`, which hands messages to `Send.sendMsg`).

Transcription map
* `tN2kMsg::GetByte/Get2ByteUInt/Get3ByteUInt/Get4ByteUInt`      → `getByte/get2/get3/get4` (index threaded, default when short)
* `tN2kMsg::GetStr(size,buf,len,nul,Index)` / `GetVarStr` / `N2kUCS2ToUTF8` → `getStrN` / `getVarStr` / `ucs2ToUtf8`
  (the result is the C string the caller sees: bytes before the first NUL)
* `tN2kMsg::AddStr` / `AddVarStr` / `N2kRequireUnicode` / `N2kUTF8ToUCS2` → `padStr` / `addVarStr` / `requireUnicode` / `utf8ToUcs2`
* `tN2kGroupFunctionHandler::Parse`, `ParseRequestParams`, `ParseCommandParams`, `ParseReadOrWriteParams` → `parseFc/parsePgn`, `reqParams`, `cmdParams`, `rwPairs`
* `GetRequestGroupFunctionTransmissionOrPriorityErrorCode` → `tpErr`
* `SetStartAcknowledge` / `AddAcknowledgeParameter` / `SendAcknowledge` → `startAck` / `addAckParam` / `sendAckData`
* base `HandleRequest/HandleCommand/HandleReadFields/HandleWriteFields` → `baseRequest/baseCommand/baseReadWrite`
* `tN2kGroupFunctionHandlerForPGN60928/126464/126993/126996/126998::HandleRequest/HandleCommand` →
  `req60928/cmd60928/req126464/req126993/cmd126993/req126996/req126998/cmd126998` with the per-field steps
  `step60928/step126464/step126996/step126998` run by the common loop `reqLoop`
* `tN2kGroupFunctionHandler::Handle` → `handle`; `RespondGroupFunction` → `respondChain`; `HandleGroupFunction` → `handleGroupFunction`
* `SetDeviceInformationInstances` → `setInstances`; `SetInstallationDescription1/2` → `setDesc`;
  `SetHeartbeatIntervalAndOffset(interval,offset,iDev)` → `setHeartbeat`; `SendIsoAddressClaim(0xff,iDev,2)` → `setPendingClaim`;
  `SendPendingInformation` (address-claim part) → `pendingStep`
* `SendTxPGNList/SendRxPGNList/SendProductInformation/SendConfigurationInformation/SendHeartbeat(iDev)` →
  `txListMsg/rxListMsg/prodMsg/confMsg/hbMsg`

Not modelled: ISO-TP carriage of the answers (`tp` is carried through to `sendMsg`), the retry of product /
configuration information after a failed send (pending flags, C08), the heartbeat scheduler's next-time
(C12; only period and offset are state here), null configuration strings, PROGMEM information.
-/
namespace N2k.GF
open N2k.Send N2k.Time

/-! ## reading a message -/

def getByte (m : Msg) (i : Nat) : Nat × Nat :=
  if i < m.len then (m.data.getD i 0, i + 1) else (0xff, i)

def get2 (m : Msg) (i : Nat) : Nat × Nat :=
  if i + 2 ≤ m.len then (m.data.getD i 0 + 256 * m.data.getD (i + 1) 0, i + 2) else (0xffff, i)

def get3 (m : Msg) (i : Nat) : Nat × Nat :=
  if i + 3 ≤ m.len then (m.data.getD i 0 + 256 * m.data.getD (i + 1) 0 + 65536 * m.data.getD (i + 2) 0, i + 3)
  else (0xffffffff, i)

def get4 (m : Msg) (i : Nat) : Nat × Nat :=
  if i + 4 ≤ m.len then
    (m.data.getD i 0 + 256 * m.data.getD (i + 1) 0 + 65536 * m.data.getD (i + 2) 0 + 16777216 * m.data.getD (i + 3) 0, i + 4)
  else (0xffffffff, i)

/-- bytes `Data[i .. i+n)` -/
def bytesAt (m : Msg) (i n : Nat) : List Nat := (List.range n).map fun j => m.data.getD (i + j) 0

/-- the C string in a buffer: bytes before the first NUL -/
def cstr (l : List Nat) : List Nat := l.takeWhile (· ≠ 0)

/-- `GetStr(StrBufSize,StrBuf,Length,nulChar,Index)`: (string seen by the caller, new index, success) -/
def getStrN (m : Msg) (bufSize length nul idx : Nat) : List Nat × Nat × Bool :=
  if idx + length ≤ m.len then
    (((bytesAt m idx length).take (bufSize - 1)).takeWhile (fun b => b ≠ 0 ∧ b ≠ nul), idx + length, true)
  else ([], idx, false)

/-- `N2kUCS2ToUTF8` main loop over the little-endian input bytes; `cap = bufLen-1` -/
def ucs2Loop (cap : Nat) : List Nat → List Nat → List Nat
  | a :: b :: rest, acc =>
    if acc.length < cap then
      let c := a + 256 * b
      if c < 0x80 then ucs2Loop cap rest (acc ++ [c])       -- a `char` below 0x80 never equals nulChar 0xff
      else if c < 0x800 then
        if acc.length + 1 < cap then ucs2Loop cap rest (acc ++ [0xC0 ||| (c >>> 6), 0x80 ||| (c &&& 0x3F)])
        else acc
      else
        if acc.length + 2 < cap then
          ucs2Loop cap rest (acc ++ [0xE0 ||| (c >>> 12), 0x80 ||| ((c >>> 6) &&& 0x3F), 0x80 ||| (c &&& 0x3F)])
        else acc
    else acc
  | _, acc => acc

def ucs2ToUtf8 (src : List Nat) (bufLen : Nat) : List Nat := cstr (ucs2Loop (bufLen - 1) src [])

/-- `GetVarStr(StrBufSize=71,StrBuf,Index)` (nulChar 0xff): (C string in the buffer, new index) -/
def getVarStr (m : Msg) (idx : Nat) : List Nat × Nat :=
  let l := getByte m idx
  let t := getByte m l.2
  let i := t.2
  if l.1 ≤ 2 ∨ l.1 = 0xff ∨ t.1 > 1 ∨ i ≥ m.len then
    if l.1 = 2 ∧ t.1 ≤ 1 then ([], i) else ([], 223)
  else
    let n0 := l.1 - 2
    let n := if n0 + i > m.len then m.len - i else n0
    if t.1 = 1 then ((getStrN m 71 n 0xff i).1, i + n)
    else (ucs2ToUtf8 (bytesAt m i n) 71, i + n)

/-! ## writing strings -/

/-- `AddStr(str,len)`: copy up to `len` characters, fill with 0xff -/
def padStr (s : List Nat) (len : Nat) : List Nat :=
  let c := (cstr s).take len
  c ++ List.replicate (len - c.length) 0xff

def utf8SeqLen (b : Nat) : Option Nat :=
  if b &&& 0x80 = 0 then some 1
  else if b &&& 0xE0 = 0xC0 then some 2
  else if b &&& 0xF0 = 0xE0 then some 3
  else if b &&& 0xF8 = 0xF0 then some 4
  else if b &&& 0xFC = 0xF8 then some 5
  else if b &&& 0xFE = 0xFC then some 6
  else none

/-- `N2kRequireUnicode` (the list end is the terminating NUL) -/
def requireUnicode : List Nat → Bool
  | [] => false
  | b :: rest =>
    match utf8SeqLen b with
    | none => false
    | some n =>
      if n = 1 then requireUnicode rest
      else decide ((rest.take (n - 1)).length = n - 1) && (rest.take (n - 1)).all (fun c => c &&& 0xC0 = 0x80)

/-- `N2kUTF8ToUCS2` (reads beyond the terminator are zeros here; they do not occur for valid UTF-8);
`fuel` bounds the loop, `len` is the running output length -/
def utf8ToUcs2Loop (bufLen : Nat) : Nat → List Nat → List Nat → List Nat
  | 0, _, acc => acc
  | fuel + 1, s, acc =>
    match s with
    | [] => acc
    | b :: rest =>
      if ¬ (acc.length + 2 < bufLen) then acc else
      match utf8SeqLen b with
      | some 1 => utf8ToUcs2Loop bufLen fuel rest (acc ++ [b, 0])
      | some 2 =>
        let u := (((b &&& 0x1F) <<< 6) ||| (rest.getD 0 0 &&& 0x3F)) % 65536
        utf8ToUcs2Loop bufLen fuel (rest.drop 1) (acc ++ [u % 256, u / 256])
      | some 3 =>
        let u := (((b &&& 0x0F) <<< 12) ||| ((rest.getD 0 0 &&& 0x3F) <<< 6) ||| (rest.getD 1 0 &&& 0x3F)) % 65536
        utf8ToUcs2Loop bufLen fuel (rest.drop 2) (acc ++ [u % 256, u / 256])
      | some n => utf8ToUcs2Loop bufLen fuel (rest.drop (n - 1)) (acc ++ [0x3F, 0])
      | none => utf8ToUcs2Loop bufLen fuel rest (acc ++ [0, 0])   -- invalid lead byte: two unwritten bytes (outside the assumptions)

def utf8ToUcs2 (s : List Nat) (bufLen : Nat) : List Nat := utf8ToUcs2Loop bufLen s.length s []

/-- `AddVarStr(str,maxLen,vss_SupportUnicode,vsl_UseBytes)` appended to `data` -/
def addVarStr (data s : List Nat) (maxLen : Nat) : List Nat :=
  let bufFree := if data.length < 223 then 223 - data.length else 0
  if bufFree ≤ 2 ∨ cstr s = [] then
    if bufFree ≥ 2 then data ++ [2, 1] else if bufFree = 1 then data ++ [1] else data
  else
    let bf := bufFree - 2
    if requireUnicode (cstr s) then
      let u := utf8ToUcs2 (cstr s) (min bf maxLen)
      data ++ [(u.length + 2) % 256, 0] ++ u
    else
      let len := min (min (cstr s).length maxLen) bf
      data ++ [(len + 2) % 256, 1] ++ (cstr s).take len

/-! ## node state seen by the group function handlers -/

/-- `tProductInformation` -/
structure Prod where
  n2kVersion : Nat
  productCode : Nat
  modelId : List Nat
  swCode : List Nat
  modelVersion : List Nat
  serialCode : List Nat
  certLevel : Nat
  loadEquiv : Nat
  deriving Repr

/-- per device: `tDeviceInformation` fields, product information, receive list, heartbeat period/offset,
pending delayed address claim -/
structure Attr where
  uniqueNumber : Nat        -- 21 bit
  manufacturerCode : Nat    -- 11 bit
  deviceInstance : Nat      -- byte: lower 3 bits / upper 5 bits
  deviceFunction : Nat
  deviceClass : Nat         -- 7 bit
  systemInstance : Nat      -- 4 bit
  industryGroup : Nat       -- 3 bit
  prod : Option Prod := none
  rxList : List Nat := []
  hbPeriod : Nat := 60000
  hbOffset : Nat := 10000
  pendingClaim : Sched
  deriving Repr

/-- `tDeviceInformation::GetName()` -/
def Attr.name (a : Attr) : Nat :=
  a.uniqueNumber + a.manufacturerCode * 2097152 + a.deviceInstance * 4294967296 + a.deviceFunction * 1099511627776
    + (a.deviceClass * 2) * 281474976710656 + (0x80 + a.industryGroup * 16 + a.systemInstance) * 72057594037927936

def Attr.lower (a : Attr) : Nat := a.deviceInstance &&& 0x07
def Attr.upper (a : Attr) : Nat := (a.deviceInstance >>> 3) &&& 0x1f

/-- `tConfigurationInformation` (all three strings present) -/
structure Conf where
  man : List Nat
  d1 : List Nat
  d2 : List Nat
  deriving Repr

inductive Handler where
  | h60928 | h126464 | h126993 | h126996 | h126998
  | base (pgn : Nat)      -- `tN2kGroupFunctionHandler(this,pgn)`; `base 0` is the default handler
  deriving Repr, DecidableEq

def Handler.pgn : Handler → Nat
  | .h60928 => 60928 | .h126464 => 126464 | .h126993 => 126993 | .h126996 => 126996 | .h126998 => 126998
  | .base p => p

/-- the chain `Open()` builds -/
def stdChain : List Handler := [.h60928, .h126464, .h126993, .h126996, .h126998, .base 0]

/-- `AddGroupFunctionHandler`: at the end, but before a default handler -/
def addHandler (chain : List Handler) (h : Handler) : List Handler :=
  match chain with
  | [] => [h]
  | c :: rest =>
    let pre := rest.takeWhile (fun x => x.pgn ≠ 0)
    let post := rest.dropWhile (fun x => x.pgn ≠ 0)
    c :: pre ++ [h] ++ post

structure GSt where
  s : St
  attrs : List Attr
  conf : Conf
  chain : List Handler := stdChain
  devInfoChanged : Bool := false
  instDescChanged : Bool := false

/-- `DefProductInformation`: what the first device has when the application set nothing -/
def Prod.dflt : Prod :=
  ⟨2101, 666, "Arduino N2k->PC".toUTF8.toList.map (·.toNat), "1.0.0.0".toUTF8.toList.map (·.toNat),
   "1.0.0".toUTF8.toList.map (·.toNat), "00000001".toUTF8.toList.map (·.toNat), 0, 1⟩

/-- `GetProductInformation(iDev)`: the device's own, else the first device's (which is the library default if never set) -/
def prodOf (g : GSt) (i : Nat) : Option Prod :=
  match g.attrs[i]? with
  | none => none
  | some a => match a.prod with
    | some p => some p
    | none => match g.attrs[0]? with
      | some a0 => some (a0.prod.getD Prod.dflt)
      | none => none

def Prod.zero : Prod := ⟨0, 0, [], [], [], [], 0, 0⟩

/-! ## decisions -/

/-- what a handler decided to do for one device -/
inductive Act where
  | nothing
  | ack (dest : Nat) (data : List Nat)                       -- one Acknowledge group function
  | serve60928                                               -- delayed ISO address claim
  | servePgnList (dest : Nat) (tx rx tp : Bool)
  | serveProduct (dest : Nat) (tp : Bool)
  | serveConfig (dest : Nat) (tp : Bool)
  | serveHeartbeat (interval offset : Nat)                   -- set interval/offset, then send a heartbeat
  | cmd60928 (dest : Nat) (data : List Nat) (lower upper si : Nat)        -- Acknowledge, then set instances
  | cmd126998 (dest : Nat) (data : List Nat) (writes : List (Nat × List Nat))  -- set descriptions, Acknowledge
  deriving Repr, DecidableEq

def isProprietary (pgn : Nat) : Bool :=
  Gen.isProprietaryFastPacketMessage pgn || pgn == 61184 || (65280 ≤ pgn && pgn ≤ 65535)

def parseFc (m : Msg) : Nat := m.data.getD 0 0           -- `N2kMsg.Data[0]`, no length test
def parsePgn (m : Msg) : Nat := (get3 m 1).1             -- `GetPGNForGroupFunction`

/-- `ParseRequestParams`: (TransmissionInterval, TransmissionIntervalOffset, NumberOfParameterPairs) -/
def reqParams (m : Msg) : Nat × Nat × Nat :=
  let a := get4 m 4
  let b := get2 m a.2
  let c := getByte m b.2
  (a.1, b.1, c.1)

/-- `ParseCommandParams`: (PrioritySetting, NumberOfParameterPairs) -/
def cmdParams (m : Msg) : Nat × Nat :=
  let a := getByte m 4
  let b := getByte m a.2
  (a.1 &&& 0x0f, b.1)

/-- `ParseReadOrWriteParams`: NumberOfParameterPairs (the other outputs are unused by the library) -/
def rwPairs (m : Msg) (propr : Bool) : Nat :=
  let i0 := if propr then (get2 m 4).2 else 4
  let u := getByte m i0
  let s := getByte m u.2
  (getByte m s.2).1

/-- `GetRequestGroupFunctionTransmissionOrPriorityErrorCode`: 0 Acknowledge, 1 not supported -/
def tpErr (interval offset : Nat) (useIv : Bool) (ivMax ivMin : Nat) (useOff : Bool) (offMax : Nat) : Nat :=
  if (interval = 0xFFFFFFFF ∨ interval = 0xFFFFFFFE ∨ interval = 0 ∨ (useIv = true ∧ interval ≥ ivMin ∧ interval ≤ ivMax))
     ∧ (offset = 0xffff ∨ offset = 0 ∨ (useOff = true ∧ offset ≤ offMax)) then 0 else 1

def tpErrDefault (interval offset : Nat) : Nat := tpErr interval offset false 0 0 false 0

def le3 (p : Nat) : List Nat := [p % 256, p / 256 % 256, p / 65536 % 256]

/-- `SetStartAcknowledge`: the payload so far -/
def startAck (pgn pgnec tor pairs : Nat) : List Nat :=
  [2] ++ le3 pgn ++ [(pgnec ||| (tor <<< 4)) % 256, pairs]

/-- `AddAcknowledgeParameter(N2kMsg, ParameterPairIndex, ErrorCode)` on the payload -/
def addAckParam (data : List Nat) (idx ec : Nat) : List Nat :=
  if idx % 2 = 0 ∧ data.length > 0 then data ++ [(ec ||| 0xf0) % 256]
  else data.dropLast ++ [((data.getLastD 0 &&& 0x0f) ||| (ec <<< 4)) % 256]

/-- the parameter loop of `SendAcknowledge` -/
def ackParams (ec : Nat) : Nat → Nat → List Nat → List Nat
  | 0, _, data => data
  | n + 1, i, data => ackParams ec n (i + 1) (addAckParam data i ec)

/-- payload of `SendAcknowledge(..., PGN, PGNErrorCode, TPErrorCode, NumberOfParameterPairs, ParameterErrorCodeForAll)` -/
def sendAckData (pgn pgnec tor pairs ec : Nat) : List Nat :=
  ackParams ec pairs 0 (startAck pgn pgnec tor pairs)

/-! ### base class (default) handlers -/

/-- `tN2kGroupFunctionHandler::HandleRequest` -/
def baseRequest (d : Dev) (m : Msg) : Act :=
  let rp := reqParams m
  let isTx := isTxPGN d (parsePgn m)
  let tor0 := tpErrDefault rp.1 rp.2.1
  let pgnec0 := if isTx then 2 else 1
  let tor1 := if pgnec0 = 1 then 0 else tor0
  let pgnec := if pgnec0 = 2 then (if tor1 = 1 then 0 else 2) else pgnec0
  let tor := if pgnec0 = 2 then (if tor1 = 1 then 1 else 0) else tor1
  if m.dst ≠ 255 then .ack m.src (sendAckData (parsePgn m) pgnec tor rp.2.2 0) else .nothing

def prioOk (p : Nat) : Bool := p == 0x08 || p == 0x0f || p == 0x09

/-- `tN2kGroupFunctionHandler::HandleCommand` (never called for a broadcast) -/
def baseCommand (d : Dev) (m : Msg) : Act :=
  let cp := cmdParams m
  let pgnec := if isTxPGN d (parsePgn m) then 0 else 1
  let tor := if prioOk cp.1 then 0 else 1
  .ack m.src (sendAckData (parsePgn m) pgnec tor cp.2 0)

/-- `HandleReadFields` / `HandleWriteFields` -/
def baseReadWrite (d : Dev) (m : Msg) (propr : Bool) : Act :=
  let pgnec := if isTxPGN d (parsePgn m) then 6 else 1
  .ack m.src (sendAckData (parsePgn m) pgnec 0 (rwPairs m propr) 0)

/-! ### the request loop shared by the dedicated handlers -/

/-- result of handling one parameter pair -/
structure FieldRes where
  idx : Nat          -- Index after the pair
  mf : Bool          -- MatchFilter
  ec : Nat           -- FieldErrorCode
  invalid : Bool     -- FoundInvalidField
  aux : Nat          -- RespondTxRx (126464 only)
  deriving Repr, DecidableEq

abbrev Step := Msg → Nat → Bool → Nat → FieldRes

/-- `for (i=0; i<NumberOfParameterPairs && (MatchFilter || !broadcast); i++) {…}`; `n` pairs remain, `i` is the
pair index. Result: (MatchFilter, RespondTxRx, acknowledge payload). -/
def reqLoop (step : Step) (m : Msg) (bc : Bool) : Nat → Nat → Nat → Bool → Bool → Nat → List Nat → Bool × Nat × List Nat
  | 0, _, _, mf, _, aux, ack => (mf, aux, ack)
  | n + 1, i, idx, mf, inv, aux, ack =>
    if ¬ (mf = true ∨ bc = false) then (mf, aux, ack)
    else if inv = false then
      let r := step m idx mf aux
      reqLoop step m bc n (i + 1) r.idx r.mf r.invalid r.aux (addAckParam ack i r.ec)
    else reqLoop step m bc n (i + 1) idx mf inv aux (addAckParam ack i 2)

/-- integer `MatchRequestField(FieldVal, MatchVal, Mask, Match, ErrorCode)` -/
def matchNum (v : Nat × Nat) (cur mask : Nat) (mf : Bool) (aux : Nat) : FieldRes :=
  if v.1 &&& mask ≠ cur then ⟨v.2, false, 3, false, aux⟩ else ⟨v.2, mf, 0, false, aux⟩

/-- string `MatchRequestField(FieldVal, MatchVal, Match, ErrorCode)`: `Match&=…; ErrorCode=Match?0:3` -/
def matchStr (q : List Nat) (idx : Nat) (cur : List Nat) (mf : Bool) (aux : Nat) : FieldRes :=
  let mf' := mf && decide (q = cur)
  ⟨idx, mf', if mf' then 0 else 3, false, aux⟩

def invalidField (idx aux : Nat) : FieldRes := ⟨idx, false, 1, true, aux⟩

/-- common skeleton of the dedicated `HandleRequest`s: returns (request OK, RespondTxRx, acknowledge payload) -/
def reqRun (step : Step) (pgnH : Nat) (m : Msg) : Bool × Nat × List Nat :=
  let rp := reqParams m
  let pec := tpErrDefault rp.1 rp.2.1
  let ack0 := startAck pgnH 0 pec rp.2.2
  let r := if rp.2.2 > 0 then reqLoop step m (m.dst == 255) rp.2.2 0 11 true false 0xff ack0 else (true, 0xff, ack0)
  (r.1 && pec == 0, r.2.1, r.2.2)

/-- destination of a positive answer -/
def answerDest (m : Msg) : Nat := if m.tp ∧ m.dst = 255 then m.dst else m.src

/-! ### PGN 60928 -/

def step60928 (a : Attr) : Step := fun m idx mf aux =>
  let f := getByte m idx
  match f.1 with
  | 1 => matchNum (get3 m f.2) a.uniqueNumber 0x1fffff mf aux
  | 2 => matchNum (get2 m f.2) a.manufacturerCode 0x07ff mf aux
  | 3 => matchNum (getByte m f.2) a.lower 0x07 mf aux
  | 4 => matchNum (getByte m f.2) a.upper 0x1f mf aux
  | 5 => matchNum (getByte m f.2) a.deviceFunction 0xff mf aux
  | 6 => ⟨(getByte m f.2).2, mf, 0, false, aux⟩
  | 7 => matchNum (getByte m f.2) a.deviceClass 0x7f mf aux
  | 8 => matchNum (getByte m f.2) a.systemInstance 0x0f mf aux
  | 9 => matchNum (getByte m f.2) a.industryGroup 0x07 mf aux
  | 10 => ⟨(getByte m f.2).2, mf, 0, false, aux⟩
  | _ => invalidField f.2 aux

def req60928 (a : Attr) (m : Msg) : Act :=
  let r := reqRun (step60928 a) 60928 m
  if r.1 then .serve60928 else if m.dst = 255 then .nothing else .ack m.src r.2.2

/-- the pair loop of the 60928 command: (DILower, DIUpper, SI, acknowledge payload) -/
def cmd60928Loop (m : Msg) : Nat → Nat → Nat → Nat → Nat → Nat → List Nat → Nat × Nat × Nat × List Nat
  | 0, _, _, lo, up, si, ack => (lo, up, si, ack)
  | n + 1, i, idx, lo, up, si, ack =>
    let f := getByte m idx
    match f.1 with
    | 3 => let v := getByte m f.2; cmd60928Loop m n (i + 1) v.2 (v.1 &&& 0x7) up si (addAckParam ack i 0)
    | 4 => let v := getByte m f.2; cmd60928Loop m n (i + 1) v.2 lo (v.1 &&& 0x1f) si (addAckParam ack i 0)
    | 8 => let v := getByte m f.2; cmd60928Loop m n (i + 1) v.2 lo up (v.1 &&& 0x0f) (addAckParam ack i 0)
    | _ => cmd60928Loop m n (i + 1) f.2 lo up si (addAckParam ack i 1)

/-- `tN2kGroupFunctionHandlerForPGN60928::HandleCommand` (the priority error code is computed after the
Acknowledge header has been written and is never reported) -/
def cmd60928 (m : Msg) : Act :=
  let cp := cmdParams m
  let r := cmd60928Loop m cp.2 0 6 0xff 0xff 0xff (startAck 60928 0 0 cp.2)
  .cmd60928 m.src r.2.2.2 r.1 r.2.1 r.2.2.1

/-! ### PGN 126464 -/

def step126464 : Step := fun m idx mf aux =>
  let f := getByte m idx
  match f.1 with
  | 1 =>
    let v := getByte m f.2
    if v.1 = 0 ∨ v.1 = 1 then ⟨v.2, mf, 0, false, v.1⟩ else ⟨v.2, false, 3, false, v.1⟩
  | _ => invalidField f.2 aux

def req126464 (m : Msg) : Act :=
  let r := reqRun step126464 126464 m
  if r.1 then .servePgnList (answerDest m) (r.2.1 == 0 || r.2.1 == 0xff) (r.2.1 == 1 || r.2.1 == 0xff) m.tp
  else if m.dst = 255 then .nothing else .ack m.src r.2.2

/-! ### PGN 126996 -/

def step126996 (p : Prod) : Step := fun m idx mf aux =>
  let f := getByte m idx
  match f.1 with
  | 1 => matchNum (get2 m f.2) (p.n2kVersion % 65536) 0xffff mf aux
  | 2 => matchNum (get2 m f.2) (p.productCode % 65536) 0xffff mf aux
  | 3 => let q := getStrN m 33 32 0xff f.2; matchStr q.1 q.2.1 ((cstr p.modelId).take 32) mf aux
  | 4 => let q := getStrN m 33 32 0xff f.2; matchStr q.1 q.2.1 ((cstr p.swCode).take 32) mf aux
  | 5 => let q := getStrN m 33 32 0xff f.2; matchStr q.1 q.2.1 ((cstr p.modelVersion).take 32) mf aux
  | 6 => let q := getStrN m 33 32 0xff f.2; matchStr q.1 q.2.1 ((cstr p.serialCode).take 32) mf aux
  | 7 => matchNum (getByte m f.2) (p.certLevel % 256) 0xff mf aux
  | 8 => matchNum (getByte m f.2) (p.loadEquiv % 256) 0xff mf aux
  | _ => invalidField f.2 aux

def req126996 (p : Prod) (m : Msg) : Act :=
  let r := reqRun (step126996 p) 126996 m
  if r.1 then .serveProduct (answerDest m) m.tp else if m.dst = 255 then .nothing else .ack m.src r.2.2

/-! ### PGN 126998 -/

def step126998 (c : Conf) : Step := fun m idx mf aux =>
  let f := getByte m idx
  match f.1 with
  | 1 => let q := getVarStr m f.2; matchStr q.1 q.2 ((cstr c.d1).take 70) mf aux
  | 2 => let q := getVarStr m f.2; matchStr q.1 q.2 ((cstr c.d2).take 70) mf aux
  | 3 => let q := getVarStr m f.2; matchStr q.1 q.2 ((cstr c.man).take 70) mf aux
  | _ => invalidField f.2 aux

def req126998 (c : Conf) (m : Msg) : Act :=
  let r := reqRun (step126998 c) 126998 m
  if r.1 then .serveConfig (answerDest m) m.tp else if m.dst = 255 then .nothing else .ack m.src r.2.2

/-- pair loop of the 126998 command: (descriptions to store, in order; acknowledge payload) -/
def cmd126998Loop (m : Msg) : Nat → Nat → Nat → List (Nat × List Nat) → List Nat → List (Nat × List Nat) × List Nat
  | 0, _, _, ws, ack => (ws, ack)
  | n + 1, i, idx, ws, ack =>
    let f := getByte m idx
    match f.1 with
    | 1 => let q := getVarStr m f.2; cmd126998Loop m n (i + 1) q.2 (ws ++ [(1, q.1)]) (addAckParam ack i 0)
    | 2 => let q := getVarStr m f.2; cmd126998Loop m n (i + 1) q.2 (ws ++ [(2, q.1)]) (addAckParam ack i 0)
    | _ => cmd126998Loop m n (i + 1) f.2 ws (addAckParam ack i 1)

def cmd126998 (m : Msg) : Act :=
  let cp := cmdParams m
  let pec := if prioOk cp.1 then 0 else 1
  let r := cmd126998Loop m cp.2 0 6 [] (startAck 126998 0 pec cp.2)
  .cmd126998 m.src r.2 r.1

/-! ### PGN 126993 -/

def req126993 (d : Dev) (m : Msg) : Act :=
  let rp := reqParams m
  let pec0 := tpErr rp.1 rp.2.1 true 60000 1000 true 6000
  let pec := if rp.1 = 0 then 1 else pec0
  if rp.2.2 = 0 then
    if rp.1 = 0xffffffff ∧ rp.2.1 = 0xffff then baseRequest d m
    else if pec = 0 then
      .serveHeartbeat rp.1 (if rp.2.1 = 0xffff ∨ rp.2.1 = 0 then 0xffffffff else rp.2.1 * 10)
    else if m.dst ≠ 255 then .ack m.src (sendAckData 126993 0 pec 0 0) else .nothing
  else if m.dst ≠ 255 then .ack m.src (sendAckData 126993 0 pec rp.2.2 5) else .nothing

def cmd126993 (m : Msg) : Act :=
  let cp := cmdParams m
  .ack m.src (sendAckData (parsePgn m) 1 (if prioOk cp.1 then 0 else 1) cp.2 0)

/-! ### `Handle`, the chain, `HandleGroupFunction` -/

/-- `HandleRequest` as overridden -/
def handleRequest (h : Handler) (d : Dev) (a : Attr) (p : Prod) (c : Conf) (m : Msg) : Act :=
  match h with
  | .h60928 => req60928 a m
  | .h126464 => req126464 m
  | .h126993 => req126993 d m
  | .h126996 => req126996 p m
  | .h126998 => req126998 c m
  | .base _ => baseRequest d m

/-- `HandleCommand` as overridden -/
def handleCommand (h : Handler) (d : Dev) (m : Msg) : Act :=
  match h with
  | .h60928 => cmd60928 m
  | .h126993 => cmd126993 m
  | .h126998 => cmd126998 m
  | _ => baseCommand d m

/-- `tN2kGroupFunctionHandler::Handle` for a handler that is responsible: (decision, handled) -/
def handle (h : Handler) (d : Dev) (a : Attr) (p : Prod) (c : Conf) (m : Msg) (fc pgn : Nat) : Act × Bool :=
  if h.pgn ≠ pgn ∧ h.pgn ≠ 0 then (.nothing, false) else
  let propr := if h.pgn ≠ 0 then isProprietary h.pgn else isProprietary pgn
  match fc with
  | 0 => (handleRequest h d a p c m, true)
  | 1 => if m.dst = 255 then (.nothing, true) else (handleCommand h d m, true)
  | 2 => (.nothing, true)
  | 3 => if m.dst = 255 then (.nothing, true) else (baseReadWrite d m propr, true)
  | 4 => (.nothing, true)
  | 5 => if m.dst = 255 then (.nothing, true) else (baseReadWrite d m propr, true)
  | 6 => (.nothing, true)
  | _ => (.nothing, false)

/-- the search of `RespondGroupFunction` -/
def respondChain (d : Dev) (a : Attr) (p : Prod) (c : Conf) (m : Msg) (fc pgn : Nat) : List Handler → Act
  | [] => .nothing
  | h :: t =>
    if h.pgn = pgn then (handle h d a p c m fc pgn).1
    else if h.pgn = 0 ∧ (handle h d a p c m fc pgn).2 = true then (handle h d a p c m fc pgn).1
    else respondChain d a p c m fc pgn t

/-! ## performing a decision -/

def ackMsg (dest : Nat) (data : List Nat) : Msg :=
  { prio := 3, pgn := 126208, src := 15, dst := dest, len := data.length, data := data }

def pgnListData (sel : Nat) (defs own : List Nat) : List Nat :=
  [sel] ++ ((defs.take 74) ++ own.take (74 - (defs.take 74).length)).flatMap le3

def txListMsg (d : Dev) (dest : Nat) (tp : Bool) : Msg :=
  let data := pgnListData 0 Gen.defTransmitMessages (d.txList.takeWhile (· ≠ 0))
  { prio := 6, pgn := 126464, src := d.source, dst := dest, len := data.length, data := data, tp := tp }

def rxListMsg (d : Dev) (a : Attr) (dest : Nat) (tp : Bool) : Msg :=
  let data := pgnListData 1 Gen.defReceiveMessages (a.rxList.takeWhile (· ≠ 0))
  { prio := 6, pgn := 126464, src := d.source, dst := dest, len := data.length, data := data, tp := tp }

def le2 (v : Nat) : List Nat := [v % 256, v / 256 % 256]

def prodData (p : Prod) : List Nat :=
  le2 p.n2kVersion ++ le2 p.productCode ++ padStr p.modelId 32 ++ padStr p.swCode 32 ++ padStr p.modelVersion 32
    ++ padStr p.serialCode 32 ++ [p.certLevel % 256, p.loadEquiv % 256]

def prodMsg (d : Dev) (p : Prod) (dest : Nat) (tp : Bool) : Msg :=
  { prio := 6, pgn := 126996, src := d.source, dst := dest, len := (prodData p).length, data := prodData p, tp := tp }

/-- `SetN2kConfigurationInformation`: InstallationDescription1, InstallationDescription2, ManufacturerInformation -/
def confData (c : Conf) : List Nat := addVarStr (addVarStr (addVarStr [] c.d1 71) c.d2 71) c.man 71

def confMsg (d : Dev) (c : Conf) (dest : Nat) (tp : Bool) : Msg :=
  { prio := 6, pgn := 126998, src := d.source, dst := dest, len := (confData c).length, data := confData c, tp := tp }

/-- `SetN2kPGN126993(N2kMsg, period, 0xff)`; the first two bytes (interval encoding) are C12's subject -/
def hbData (period seq : Nat) : List Nat :=
  (if period > 655320 then le2 0xfffe else le2 (period % 65536)) ++ [seq % 256, 0xff, 0xff, 0xff, 0xff, 0xff]

def hbMsg (d : Dev) (period : Nat) : Msg :=
  { prio := 7, pgn := 126993, src := d.source, dst := 255, len := 8, data := hbData period 0xff }

def setAttr (g : GSt) (i : Nat) (a : Attr) : GSt := { g with attrs := g.attrs.set i a }

def sendTo (g : GSt) (i : Nat) (m : Msg) : GSt := { g with s := (sendMsg g.s m (some i)).1 }

/-- `IsReadyToSend()` -/
def readyToSend (s : St) : Bool := s.openState == 3 && s.claimMode

/-- `SendIsoAddressClaim(0xff,iDev,FromNow)` with `FromNow>0` -/
def setPendingClaim (g : GSt) (i : Nat) (fromNow : Nat) : GSt :=
  match g.attrs[i]? with
  | none => g
  | some a => setAttr g i { a with pendingClaim := Sched.fromNow g.s.flavor g.s.now fromNow }

/-- keep the NAME of the send model's device entry equal to the attributes -/
def syncName (g : GSt) (i : Nat) : GSt :=
  match g.attrs[i]?, g.s.devs[i]? with
  | some a, some d => { g with s := { g.s with devs := updDev g.s.devs i { d with name := a.name } } }
  | _, _ => g

/-- `SetDeviceInformationInstances(lower, upper, si, iDev)` -/
def setInstances (g : GSt) (i : Nat) (lower upper si : Nat) : GSt :=
  match g.attrs[i]? with
  | none => g
  | some a =>
    let di := a.deviceInstance
    let di1 := if lower ≠ 0xff then ((di &&& 0xF8) ||| (lower &&& 0x07)) else di
    let di2 := if upper ≠ 0xff then ((di1 &&& 0x07) ||| (((upper &&& 0x1f) <<< 3) % 256)) else di1
    let ch1 := decide (di ≠ di2)
    let ch2 := decide (si ≠ 0xff ∧ a.systemInstance ≠ si)
    let a' := { a with deviceInstance := di2, systemInstance := if ch2 then si &&& 0x0f else a.systemInstance }
    let g1 := syncName { (setAttr g i a') with devInfoChanged := g.devInfoChanged || ch1 || ch2 } i
    if readyToSend g1.s then setPendingClaim g1 i 2 else g1

/-- `SetInstallationDescription1/2` (`SetCharBuf` keeps at most 70 characters) -/
def setDesc (g : GSt) (w : Nat × List Nat) : GSt :=
  let v := (cstr w.2).take 70
  if w.1 = 1 then { g with conf := { g.conf with d1 := v }, instDescChanged := true }
  else { g with conf := { g.conf with d2 := v }, instDescChanged := true }

/-- `SetHeartbeatIntervalAndOffset(interval, offset, iDev)` for one valid device -/
def setHeartbeat (g : GSt) (i : Nat) (interval offset : Nat) : GSt :=
  if interval = 0xffffffff ∧ offset = 0xffff then g else
  match g.attrs[i]? with
  | none => g
  | some a =>
    let iv := if interval = 0xffffffff then a.hbPeriod else if interval = 0xfffffffe then 60000 else interval
    let off := if offset = 0xffffffff then a.hbOffset else offset
    if iv = 0 then g          -- scheduler disabled (its period and offset stay)
    else
      let iv1 := if iv > 655320 then 655320 else iv
      let iv2 := if iv1 < 1000 then 1000 else iv1
      if a.hbPeriod ≠ iv2 ∨ a.hbOffset ≠ off then
        { (setAttr g i { a with hbPeriod := iv2, hbOffset := off }) with devInfoChanged := true }
      else g

/-- the messages a decision hands to `SendMsg`, in order, given the state in which they are built -/
def perform (g : GSt) (i : Nat) (act : Act) : GSt :=
  match g.s.devs[i]?, g.attrs[i]? with
  | some d, some a =>
    match act with
    | .nothing => g
    | .ack dest data => sendTo g i (ackMsg dest data)
    | .serve60928 => setPendingClaim g i 2
    | .servePgnList dest tx rx tp =>
      let g1 := if tx then sendTo g i (txListMsg d dest tp) else g
      if rx then sendTo g1 i (rxListMsg d a dest tp) else g1
    | .serveProduct dest tp =>
      match prodOf g i with
      | some p => sendTo g i (prodMsg d p dest tp)
      | none => g
    | .serveConfig dest tp => sendTo g i (confMsg d g.conf dest tp)
    | .serveHeartbeat interval offset =>
      let g1 := setHeartbeat g i interval offset
      match g1.attrs[i]? with
      | some a1 => sendTo g1 i (hbMsg d a1.hbPeriod)
      | none => g1
    | .cmd60928 dest data lower upper si => setInstances (sendTo g i (ackMsg dest data)) i lower upper si
    | .cmd126998 dest data writes => sendTo (writes.foldl setDesc g) i (ackMsg dest data)
  | _, _ => g

/-- the decision of `RespondGroupFunction(N2kMsg, GroupFunctionCode, PGNForGroupFunction, iDev)` -/
def decideAct (g : GSt) (m : Msg) (i : Nat) : Act :=
  match g.s.devs[i]?, g.attrs[i]? with
  | some d, some a => respondChain d a ((prodOf g i).getD Prod.zero) g.conf m (parseFc m) (parsePgn m) g.chain
  | _, _ => .nothing

def respond (g : GSt) (m : Msg) (i : Nat) : GSt := perform g i (decideAct g m i)

/-- `FindSourceDeviceIndex` -/
def findDev (devs : List Dev) (src : Nat) : Option Nat :=
  if src ≤ 253 then
    let i := devs.findIdx (fun d => d.source == src)
    if i < devs.length then some i else none
  else none

/-- `HandleReceivedSystemMessage` (126208 case) + `HandleGroupFunction` -/
def handleGroupFunction (g : GSt) (m : Msg) : GSt :=
  if ¬ g.s.claimMode then g else          -- ListenOnly / SendOnly / ListenAndSend do not answer
  if m.pgn ≠ 126208 then g else
  if m.dst = 255 then (List.range g.s.devs.length).foldl (fun g i => respond g m i) g
  else match findDev g.s.devs m.dst with
    | none => g
    | some i => respond g m i

/-! ## polling: the delayed address claim -/

/-- `SendPendingInformation` for one device (address-claim part) -/
def pendingStep (g : GSt) (i : Nat) : GSt :=
  match g.s.devs[i]?, g.attrs[i]? with
  | some _, some a =>
    if a.pendingClaim.isTime g.s.flavor g.s.now then
      let g0 := syncName g i
      match g0.s.devs[i]? with
      | some d0 =>
        let g1 := { g0 with s := (sendMsg g0.s (claimMsg d0) (some i)).1 }
        match g1.attrs[i]? with
        | some a1 => setAttr g1 i { a1 with pendingClaim := Sched.disabled g.s.flavor }
        | none => g1
      | none => g0
    else g
  | _, _ => g

/-- `ParseMessages()` with nothing to receive: `SendFrames`, `SendPendingInformation`, (periodic heartbeat: C12) -/
def pollG (g : GSt) : GSt :=
  (List.range g.s.devs.length).foldl pendingStep { g with s := Send.poll g.s }

end N2k.GF
