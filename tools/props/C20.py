"""C20 - ring buffers. SPEC drives tools/check.py; MANIFEST feeds tools/gen_manifest.py."""
SPEC = {
    'engine': 'ring', 'harness': 'ring.cpp', 'repo_srcs': [],
    'lean_modules': ['N2k.Props.C20'], 'props_files': ['N2k/Props/C20.lean'],
    'case_start': ['new', 'pnew'],
    'trusted_base': ["model N2k/Model/RingBuffer.lean transcribes RingBuffer.tpp by hand (T = uint32_t); "
                     "uint16_t index arithmetic modelled on Nat (sizes up to 65535, no overflow possible: "
                     "head+1 is computed in int)"],
    'assumptions': ["single-threaded use of the buffers", "element type is trivially copyable (memcpy)"],
}
MANIFEST = {
    'text': "Refinement theorems for EVERY operation sequence, size, priority count and initial memory content: the "
            "plain ring equals a bounded list, the priority ring equals the log specification (oldest alive value of a "
            "priority; lowest non-empty priority; refusal exactly at size-1 log entries); plus no-loss/no-duplication "
            "corollaries over the alive values. The model is tied to RingBuffer.tpp by a correspondence run (random "
            "long sequences, sizes 0..1000, 0..255 priorities, exhaustive small scopes) and an independent reference queue.",
    'design_ref': 'DESIGN.md section 4, C20',
    'note': "Trusted: Lean kernel; hand transcription of RingBuffer.tpp validated only by differential runs; uint16_t "
            "arithmetic modelled on Nat; T=uint32_t; single thread.",
}
