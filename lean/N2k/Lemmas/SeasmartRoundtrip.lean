import N2k.Lemmas.SeasmartImport
/-!
# C19 helper lemmas: hex digits round trip, the parser accepts every well-formed sentence
(`parse_explicit`, `parse_sentence`)
-/
namespace N2k.Seasmart

/-! ## hex digits round trip -/

theorem isxdigit_hexChar (n : Nat) (h : n < 16) : isxdigit (hexChar n) = true := by
  revert n; decide

theorem digitVal_hexChar (n : Nat) (h : n < 16) : digitVal (hexChar n) = n := by
  revert n; decide

theorem hexField2 (a b : Nat) (r : List Nat) (ha : a < 16) (hb : b < 16) :
    hexField (hexChar a :: hexChar b :: r) 2 = some (a * 16 + b) := by
  unfold hexField
  rw [if_pos]
  · simp only [List.take_succ_cons, List.take_zero, strtol16, List.foldl_cons, List.foldl_nil,
      digitVal_hexChar _ ha, digitVal_hexChar _ hb]
    congr 1; omega
  · simp [isxdigit_hexChar _ ha, isxdigit_hexChar _ hb]

theorem hexField4 (a b c d : Nat) (r : List Nat) (ha : a < 16) (hb : b < 16) (hc : c < 16) (hd : d < 16) :
    hexField (hexChar a :: hexChar b :: hexChar c :: hexChar d :: r) 4 = some (((a * 16 + b) * 16 + c) * 16 + d) := by
  unfold hexField
  rw [if_pos]
  · simp only [List.take_succ_cons, List.take_zero, strtol16, List.foldl_cons, List.foldl_nil,
      digitVal_hexChar _ ha, digitVal_hexChar _ hb, digitVal_hexChar _ hc, digitVal_hexChar _ hd]
    congr 1; omega
  · simp [isxdigit_hexChar _ ha, isxdigit_hexChar _ hb, isxdigit_hexChar _ hc, isxdigit_hexChar _ hd]

theorem hexField8 (a b c d e f g h : Nat) (r : List Nat) (ha : a < 16) (hb : b < 16) (hc : c < 16) (hd : d < 16)
    (he : e < 16) (hf : f < 16) (hg : g < 16) (hh : h < 16) :
    hexField (hexChar a :: hexChar b :: hexChar c :: hexChar d :: hexChar e :: hexChar f :: hexChar g :: hexChar h :: r) 8
      = some (((((((a * 16 + b) * 16 + c) * 16 + d) * 16 + e) * 16 + f) * 16 + g) * 16 + h) := by
  unfold hexField
  rw [if_pos]
  · simp only [List.take_succ_cons, List.take_zero, strtol16, List.foldl_cons, List.foldl_nil,
      digitVal_hexChar _ ha, digitVal_hexChar _ hb, digitVal_hexChar _ hc, digitVal_hexChar _ hd,
      digitVal_hexChar _ he, digitVal_hexChar _ hf, digitVal_hexChar _ hg, digitVal_hexChar _ hh]
    congr 1; omega
  · simp [isxdigit_hexChar _ ha, isxdigit_hexChar _ hb, isxdigit_hexChar _ hc, isxdigit_hexChar _ hd,
      isxdigit_hexChar _ he, isxdigit_hexChar _ hf, isxdigit_hexChar _ hg, isxdigit_hexChar _ hh]

theorem takeWhile_hexData (data r : List Nat) :
    (hexData data ++ 42 :: r).takeWhile (fun c => decide (¬c = 0 ∧ ¬c = 42)) = hexData data := by
  induction data with
  | nil => simp [hexData]
  | cons b t ih =>
    rw [hexData_cons]
    have h1 := hexChar_ne_0 (b % 256 / 16) (by omega)
    have h2 := hexChar_ne_0 (b % 256 % 16) (by omega)
    have h3 := hexChar_ne_42 (b % 256 / 16)
    have h4 := hexChar_ne_42 (b % 256 % 16)
    simp only [hexByte, List.cons_append, List.nil_append, List.takeWhile_cons, h1, h2, h3, h4,
      not_false_eq_true, and_self, decide_true, if_true, ih]

theorem dataSpec_hexData (data r : List Nat) (hb : ∀ b ∈ data, b < 256) :
    dataSpec data.length (hexData data ++ r) = some data := by
  induction data with
  | nil => rfl
  | cons b t ih =>
    have hb' : b < 256 := hb b (by simp)
    rw [hexData_cons]
    simp only [hexByte, List.cons_append, List.nil_append, List.length_cons, dataSpec]
    rw [hexField2 _ _ _ (by omega) (by omega)]
    simp only [List.drop_succ_cons, List.drop_zero]
    rw [ih (fun x hx => hb x (by simp [hx]))]
    simp only [Option.some.injEq, List.cons.injEq, and_true]
    omega


theorem takeWhile_ne42 (l r : List Nat) (h : ∀ c ∈ l, c ≠ 42) :
    (l ++ 42 :: r).takeWhile (fun x => decide ¬x = 42) = l := by
  induction l with
  | nil => simp
  | cons c t ih =>
    have hc : ¬ c = 42 := h c (by simp)
    simp only [List.cons_append, List.takeWhile_cons, hc, not_false_eq_true, decide_true, if_true,
      ih (fun x hx => h x (by simp [hx]))]

/-- the parser accepts every string of the `$PCDIN` shape whose checksum digits spell the XOR; anything may
follow the checksum -/
theorem parse_explicit (x1 x2 x3 x4 x5 x6 t1 t2 t3 t4 t5 t6 t7 t8 s1 s2 c1 c2 : Nat) (data rest : List Nat)
    (hx1 : x1 < 16) (hx2 : x2 < 16) (hx3 : x3 < 16) (hx4 : x4 < 16) (hx5 : x5 < 16) (hx6 : x6 < 16)
    (ht1 : t1 < 16) (ht2 : t2 < 16) (ht3 : t3 < 16) (ht4 : t4 < 16) (ht5 : t5 < 16) (ht6 : t6 < 16)
    (ht7 : t7 < 16) (ht8 : t8 < 16) (hs1 : s1 < 16) (hs2 : s2 < 16) (hc1 : c1 < 16) (hc2 : c2 < 16)
    (hn : data.length ≤ 223) (hb : ∀ b ∈ data, b < 256)
    (hck : c1 * 16 + c2 = xorAll (80 :: 67 :: 68 :: 73 :: 78 :: 44 :: hexChar x1 :: hexChar x2 :: hexChar x3 ::
      hexChar x4 :: hexChar x5 :: hexChar x6 :: 44 :: hexChar t1 :: hexChar t2 :: hexChar t3 :: hexChar t4 ::
      hexChar t5 :: hexChar t6 :: hexChar t7 :: hexChar t8 :: 44 :: hexChar s1 :: hexChar s2 :: 44 ::
      hexData data) % 256) :
    parse (36 :: 80 :: 67 :: 68 :: 73 :: 78 :: 44 :: hexChar x1 :: hexChar x2 :: hexChar x3 ::
      hexChar x4 :: hexChar x5 :: hexChar x6 :: 44 :: hexChar t1 :: hexChar t2 :: hexChar t3 :: hexChar t4 ::
      hexChar t5 :: hexChar t6 :: hexChar t7 :: hexChar t8 :: 44 :: hexChar s1 :: hexChar s2 :: 44 ::
      (hexData data ++ 42 :: hexChar c1 :: hexChar c2 :: rest))
    = some ⟨(x1 * 16 + x2) * 65536 + (((x3 * 16 + x4) * 16 + x5) * 16 + x6),
        ((((((t1 * 16 + t2) * 16 + t3) * 16 + t4) * 16 + t5) * 16 + t6) * 16 + t7) * 16 + t8,
        s1 * 16 + s2, data⟩ := by
  unfold parse
  simp only [List.take_succ_cons, List.take_zero, List.drop_succ_cons, List.drop_zero, pre7, ne_eq,
    not_true_eq_false, if_false,
    hexField2 _ _ _ hx1 hx2, hexField4 _ _ _ _ _ hx3 hx4 hx5 hx6,
    hexField8 _ _ _ _ _ _ _ _ _ ht1 ht2 ht3 ht4 ht5 ht6 ht7 ht8, hexField2 _ _ _ hs1 hs2,
    List.getD_cons_succ, List.getD_cons_zero, takeWhile_hexData, hexData_length]
  have hdrop : List.drop (2 * data.length) (hexData data ++ 42 :: hexChar c1 :: hexChar c2 :: rest)
      = 42 :: hexChar c1 :: hexChar c2 :: rest := List.drop_left' (hexData_length data)
  simp only [Nat.mul_mod_right, not_true_eq_false, if_false, Nat.mul_div_cancel_left _ (show 0 < 2 by decide),
    gt_iff_lt, show ¬ 223 < data.length by omega, dataSpec_hexData data _ hb, hdrop, List.getD_cons_zero,
    List.drop_succ_cons, List.drop_zero, hexField2 _ _ _ hc1 hc2]
  have h42 : ∀ n, ¬ hexChar n = 42 := hexChar_ne_42
  simp only [List.takeWhile_cons, h42, not_false_eq_true, decide_true, if_true,
    show ¬ (80 = 42) by decide, show ¬ (67 = 42) by decide, show ¬ (68 = 42) by decide,
    show ¬ (73 = 42) by decide, show ¬ (78 = 42) by decide, show ¬ (44 = 42) by decide,
    takeWhile_ne42 _ _ (hexData_ne_42 data), ← hck, not_true_eq_false,
    show (s1 * 16 + s2) % 256 = s1 * 16 + s2 by omega, if_false]


theorem parse_sentence (m : Msg) (ts : Nat) (rest : List Nat) (hp : m.pgn < 16777216) (hs : m.src < 256)
    (ht : ts < 4294967296) (hn : m.data.length ≤ 223) (hb : ∀ b ∈ m.data, b < 256) :
    parse (sentence m ts ++ rest) = some ⟨m.pgn, ts, m.src, m.data⟩ := by
  have hbody : (body m ts).drop 1 = 80 :: 67 :: 68 :: 73 :: 78 :: 44 ::
      hexChar (m.pgn / 65536 % 256 / 16) :: hexChar (m.pgn / 65536 % 256 % 16) ::
      hexChar (m.pgn % 65536 / 256 % 256 / 16) :: hexChar (m.pgn % 65536 / 256 % 256 % 16) ::
      hexChar (m.pgn % 65536 % 256 / 16) :: hexChar (m.pgn % 65536 % 256 % 16) :: 44 ::
      hexChar (ts % 4294967296 / 65536 % 65536 / 256 % 256 / 16) :: hexChar (ts % 4294967296 / 65536 % 65536 / 256 % 256 % 16) ::
      hexChar (ts % 4294967296 / 65536 % 65536 % 256 / 16) :: hexChar (ts % 4294967296 / 65536 % 65536 % 256 % 16) ::
      hexChar (ts % 4294967296 % 65536 / 256 % 256 / 16) :: hexChar (ts % 4294967296 % 65536 / 256 % 256 % 16) ::
      hexChar (ts % 4294967296 % 65536 % 256 / 16) :: hexChar (ts % 4294967296 % 65536 % 256 % 16) :: 44 ::
      hexChar (m.src % 256 / 16) :: hexChar (m.src % 256 % 16) :: 44 :: hexData m.data := by
    simp [body, pre7, hexByte]
  have key := parse_explicit
    (m.pgn / 65536 % 256 / 16) (m.pgn / 65536 % 256 % 16)
    (m.pgn % 65536 / 256 % 256 / 16) (m.pgn % 65536 / 256 % 256 % 16)
    (m.pgn % 65536 % 256 / 16) (m.pgn % 65536 % 256 % 16)
    (ts % 4294967296 / 65536 % 65536 / 256 % 256 / 16) (ts % 4294967296 / 65536 % 65536 / 256 % 256 % 16)
    (ts % 4294967296 / 65536 % 65536 % 256 / 16) (ts % 4294967296 / 65536 % 65536 % 256 % 16)
    (ts % 4294967296 % 65536 / 256 % 256 / 16) (ts % 4294967296 % 65536 / 256 % 256 % 16)
    (ts % 4294967296 % 65536 % 256 / 16) (ts % 4294967296 % 65536 % 256 % 16)
    (m.src % 256 / 16) (m.src % 256 % 16)
    (xorAll ((body m ts).drop 1) % 256 / 16) (xorAll ((body m ts).drop 1) % 256 % 16) m.data rest
    (by omega) (by omega) (by omega) (by omega) (by omega) (by omega) (by omega) (by omega) (by omega)
    (by omega) (by omega) (by omega) (by omega) (by omega) (by omega) (by omega) (by omega) (by omega)
    hn hb (by rw [← hbody]; omega)
  have hsent : sentence m ts ++ rest = 36 :: 80 :: 67 :: 68 :: 73 :: 78 :: 44 ::
      hexChar (m.pgn / 65536 % 256 / 16) :: hexChar (m.pgn / 65536 % 256 % 16) ::
      hexChar (m.pgn % 65536 / 256 % 256 / 16) :: hexChar (m.pgn % 65536 / 256 % 256 % 16) ::
      hexChar (m.pgn % 65536 % 256 / 16) :: hexChar (m.pgn % 65536 % 256 % 16) :: 44 ::
      hexChar (ts % 4294967296 / 65536 % 65536 / 256 % 256 / 16) :: hexChar (ts % 4294967296 / 65536 % 65536 / 256 % 256 % 16) ::
      hexChar (ts % 4294967296 / 65536 % 65536 % 256 / 16) :: hexChar (ts % 4294967296 / 65536 % 65536 % 256 % 16) ::
      hexChar (ts % 4294967296 % 65536 / 256 % 256 / 16) :: hexChar (ts % 4294967296 % 65536 / 256 % 256 % 16) ::
      hexChar (ts % 4294967296 % 65536 % 256 / 16) :: hexChar (ts % 4294967296 % 65536 % 256 % 16) :: 44 ::
      hexChar (m.src % 256 / 16) :: hexChar (m.src % 256 % 16) :: 44 :: (hexData m.data ++ 42 ::
      hexChar (xorAll ((body m ts).drop 1) % 256 / 16) :: hexChar (xorAll ((body m ts).drop 1) % 256 % 16) :: rest) := by
    simp only [sentence, hexByte]
    generalize xorAll ((body m ts).drop 1) % 256 = ck
    simp [body, pre7, hexByte]
  rw [hsent, key]
  simp only [Option.some.injEq, Res.mk.injEq, and_true]
  refine ⟨by omega, by omega, by omega⟩

end N2k.Seasmart
