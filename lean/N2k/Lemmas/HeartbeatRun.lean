import N2k.Lemmas.HeartbeatSet
import N2k.Lemmas.HeartbeatShiftSend
/-!
# The heartbeat machine step by step: what one `SendHeartbeat` does to one device; operations and runs (C12, C13)
-/
namespace N2k.Heartbeat
open N2k.Time N2k.Send

/-- messages of device `d` in a `(device, message)` log -/
def msgsOf (d : Nat) (l : List (Nat × Msg)) : List Msg := (l.filter (fun p => p.1 == d)).map (·.2)

theorem msgsOf_append (d : Nat) (a b : List (Nat × Msg)) : msgsOf d (a ++ b) = msgsOf d a ++ msgsOf d b := by
  simp [msgsOf]

/-- what `SendHeartbeat(force)` may do to the heartbeat entry `b` of one device at clock `now`: nothing, or
exactly one message carrying the stored period and the sequence value (0xff when forced), with the scheduler moved by
`UpdateNextTime` and the sequence advanced (not when forced); a scheduled heartbeat only after its deadline -/
def DevStep (force : Bool) (so now : Nat) (b b' : HbDev) (ms : List Msg) : Prop :=
  (ms = [] ∧ b' = b) ∨
  (ms = [setN2kPGN126993 b.sched.period (if force then 0xff else b.seq)] ∧
   b' = { sched := b.sched.updateNextTime so now, seq := if force then b.seq else nextSeq b.seq } ∧
   (force = true ∨ now > b.sched.next))

/-- frame facts of an operation on the composed state -/
def HSame (h h' : HSt) : Prop :=
  St.Same h.st h'.st ∧ h'.syncOffset = h.syncOffset ∧ h'.hb.length = h.hb.length

theorem HSame.rfl' (h : HSt) : HSame h h := ⟨St.Same.rfl' _, rfl, rfl⟩
theorem HSame.trans {a b c : HSt} (h1 : HSame a b) (h2 : HSame b c) : HSame a c :=
  ⟨h1.1.trans h2.1, h2.2.1.trans h1.2.1, h2.2.2.trans h1.2.2⟩

theorem updDev_same (s : St) (i : Nat) (d : Dev) : St.Same s { s with devs := updDev s.devs i d } :=
  ⟨rfl, rfl, by simp [updDev], rfl, rfl⟩

/-- the loop body of `SendHeartbeat(bool)` -/
theorem sendHeartbeatDev_spec (force : Bool) (h : HSt) (i : Nat) :
    HSame h (sendHeartbeatDev force h i).1 ∧
    (∀ j, j ≠ i → (sendHeartbeatDev force h i).1.hb[j]? = h.hb[j]?) ∧
    (∀ b, h.hb[i]? = some b → ∃ b', (sendHeartbeatDev force h i).1.hb[i]? = some b' ∧
        DevStep force h.syncOffset h.st.now b b' (sendHeartbeatDev force h i).2.toList) ∧
    (h.hb[i]? = none → (sendHeartbeatDev force h i).2 = none) := by
  unfold sendHeartbeatDev
  cases hd : h.st.devs[i]? with
  | none =>
    simp only
    refine ⟨HSame.rfl' h, fun _ _ => by triv, fun b hb => ⟨b, hb, Or.inl ⟨rfl, rfl⟩⟩, fun _ => by triv⟩
  | some d =>
    cases hb : h.hb[i]? with
    | none =>
      simp only
      refine ⟨HSame.rfl' h, fun _ _ => by triv, fun b hb' => by simp at hb', fun _ => by triv⟩
    | some b =>
      simp only
      by_cases h1 : (isAddressClaimStarted h.st.flavor h.st.now d).2 = true
      · simp only [if_pos h1]
        refine ⟨⟨updDev_same _ _ _, rfl, rfl⟩, fun _ _ => by triv, fun b' hb' => ?_, fun hn => by simp at hn⟩
        have : b' = b := by simpa using hb'.symm
        subst this
        exact ⟨b', hb, Or.inl ⟨rfl, rfl⟩⟩
      · simp only [if_neg h1]
        by_cases h2 : (force || b.sched.isTime h.st.now) = true
        · simp only [if_pos h2]
          refine ⟨⟨(updDev_same _ _ _).trans (sendMsg_same _ _ _), rfl, by simp⟩, ?_, fun b' hb' => ?_,
            fun hn => by simp at hn⟩
          · intro j hj; rw [List.getElem?_set_ne (Ne.symm hj)]
          · have : b' = b := by simpa using hb'.symm
            subst this
            have hi : i < h.hb.length := by
              apply Decidable.byContradiction; intro hn
              rw [List.getElem?_eq_none (by omega)] at hb; simp at hb
            refine ⟨_, by rw [List.getElem?_set_self hi], Or.inr ⟨?_, rfl, ?_⟩⟩
            · simp only [Option.toList, updateNextTime_period]
            · cases force
              · right; simpa [SyncSched.isTime] using h2
              · left; rfl
        · simp only [if_neg h2]
          refine ⟨⟨updDev_same _ _ _, rfl, rfl⟩, fun _ _ => by triv, fun b' hb' => ?_, fun hn => by simp at hn⟩
          have : b' = b := by simpa using hb'.symm
          subst this
          exact ⟨b', hb, Or.inl ⟨rfl, rfl⟩⟩

theorem DevStep.none (force : Bool) (so now : Nat) (b : HbDev) : DevStep force so now b b [] := Or.inl ⟨rfl, rfl⟩

/-- the log entry of one loop iteration -/
def entry (i : Nat) (om : Option Msg) : List (Nat × Msg) := match om with | some m => [(i, m)] | none => []

theorem msgsOf_entry_self (i : Nat) (om : Option Msg) : msgsOf i (entry i om) = om.toList := by
  cases om <;> simp [entry, msgsOf]

theorem msgsOf_entry_ne {d i : Nat} (h : i ≠ d) (om : Option Msg) : msgsOf d (entry i om) = [] := by
  cases om
  · rfl
  · simp [entry, msgsOf, h]

theorem sendHeartbeatLoop_succ (force : Bool) (n i : Nat) (h : HSt) :
    sendHeartbeatLoop force (n + 1) i h =
      ((sendHeartbeatLoop force n (i + 1) (sendHeartbeatDev force h i).1).1,
       entry i (sendHeartbeatDev force h i).2 ++ (sendHeartbeatLoop force n (i + 1) (sendHeartbeatDev force h i).1).2) := rfl

/-- the device loop: frame facts; devices below the start index are untouched and silent; device indices in the log
are strictly increasing from the start index (at most one heartbeat per device) -/
theorem sendHeartbeatLoop_frame (force : Bool) (n : Nat) :
    ∀ (i : Nat) (h : HSt),
      HSame h (sendHeartbeatLoop force n i h).1 ∧
      (∀ d, d < i → (sendHeartbeatLoop force n i h).1.hb[d]? = h.hb[d]? ∧ msgsOf d (sendHeartbeatLoop force n i h).2 = []) ∧
      ((sendHeartbeatLoop force n i h).2.map (·.1)).Pairwise (· < ·) ∧
      (∀ p ∈ (sendHeartbeatLoop force n i h).2, i ≤ p.1) ∧
      (∀ p ∈ (sendHeartbeatLoop force n i h).2, ∃ per x, p.2 = setN2kPGN126993 per (if force then 0xff else x)) := by
  induction n with
  | zero =>
    intro i h
    exact ⟨HSame.rfl' h, fun _ _ => ⟨rfl, rfl⟩, by simp [sendHeartbeatLoop], by simp [sendHeartbeatLoop],
      by simp [sendHeartbeatLoop]⟩
  | succ n ih =>
    intro i h
    obtain ⟨s1, s2, s3, s4⟩ := sendHeartbeatDev_spec force h i
    obtain ⟨i1, i2, i3, i4, i5⟩ := ih (i + 1) (sendHeartbeatDev force h i).1
    rw [sendHeartbeatLoop_succ]
    refine ⟨s1.trans i1, ?_, ?_, ?_, ?_⟩
    rotate_left 3
    · intro p hp
      rcases List.mem_append.mp hp with hp | hp
      · cases hm : (sendHeartbeatDev force h i).2 with
        | none => simp [entry, hm] at hp
        | some m =>
          simp [entry, hm] at hp
          cases hb : h.hb[i]? with
          | none => rw [s4 hb] at hm; simp at hm
          | some b =>
            obtain ⟨b', _, hstep⟩ := s3 b hb
            rw [hm] at hstep
            rcases hstep with ⟨h1, _⟩ | ⟨h1, _, _⟩
            · simp at h1
            · simp only [Option.toList, List.cons.injEq, and_true] at h1
              exact ⟨_, b.seq, by rw [hp]; exact h1⟩
      · exact i5 p hp
    · intro d hd
      obtain ⟨a1, a2⟩ := i2 d (by omega)
      refine ⟨by simp only; rw [a1, s2 d (by omega)], ?_⟩
      simp only [msgsOf_append, a2, List.append_nil]
      exact msgsOf_entry_ne (by omega) _
    · simp only [List.map_append, List.pairwise_append]
      refine ⟨by cases (sendHeartbeatDev force h i).2 <;> simp [entry], i3, ?_⟩
      intro a ha b hb
      obtain ⟨p, hp, rfl⟩ := List.mem_map.mp hb
      have := i4 p hp
      cases hm : (sendHeartbeatDev force h i).2 with
      | none => simp [entry, hm] at ha
      | some m => simp [entry, hm] at ha; omega
    · intro p hp
      rcases List.mem_append.mp hp with hp | hp
      · cases hm : (sendHeartbeatDev force h i).2 with
        | none => simp [entry, hm] at hp
        | some m => simp [entry, hm] at hp; simp [hp]
      · have := i4 p hp; omega

/-- the device loop, seen from one device -/
theorem sendHeartbeatLoop_dev (force : Bool) (n : Nat) :
    ∀ (i : Nat) (h : HSt) (d : Nat) (b : HbDev), h.hb[d]? = some b →
      ∃ b', (sendHeartbeatLoop force n i h).1.hb[d]? = some b' ∧
        DevStep force h.syncOffset h.st.now b b' (msgsOf d (sendHeartbeatLoop force n i h).2) := by
  induction n with
  | zero => intro i h d b hb; exact ⟨b, hb, DevStep.none _ _ _ _⟩
  | succ n ih =>
    intro i h d b hb
    obtain ⟨s1, s2, s3, _⟩ := sendHeartbeatDev_spec force h i
    obtain ⟨f1, f2, _, _, _⟩ := sendHeartbeatLoop_frame force n (i + 1) (sendHeartbeatDev force h i).1
    rw [sendHeartbeatLoop_succ]
    simp only [msgsOf_append]
    by_cases hdi : d = i
    · subst hdi
      obtain ⟨b', hb', hstep⟩ := s3 b hb
      obtain ⟨a1, a2⟩ := f2 d (by omega)
      exact ⟨b', by rw [a1]; exact hb', by rw [a2, List.append_nil, msgsOf_entry_self]; exact hstep⟩
    · have hb1 : (sendHeartbeatDev force h i).1.hb[d]? = some b := by rw [s2 d hdi]; exact hb
      obtain ⟨b', hb', hstep⟩ := ih (i + 1) (sendHeartbeatDev force h i).1 d b hb1
      rw [s1.2.1, s1.1.1] at hstep
      exact ⟨b', hb', by rw [msgsOf_entry_ne (Ne.symm hdi), List.nil_append]; exact hstep⟩

/-- `SendHeartbeat(bool)` -/
theorem sendHeartbeat_spec (force : Bool) (h : HSt) :
    HSame h (sendHeartbeat force h).1 ∧
    ((sendHeartbeat force h).2.map (·.1)).Pairwise (· < ·) ∧
    (∀ d b, h.hb[d]? = some b → ∃ b', (sendHeartbeat force h).1.hb[d]? = some b' ∧
        DevStep force h.syncOffset h.st.now b b' (msgsOf d (sendHeartbeat force h).2)) ∧
    (∀ p ∈ (sendHeartbeat force h).2, ∃ per x, p.2 = setN2kPGN126993 per (if force then 0xff else x)) := by
  unfold sendHeartbeat
  by_cases hm : ¬ h.st.claimMode = true
  · simp only [if_pos hm]
    exact ⟨HSame.rfl' h, by simp, fun d b hb => ⟨b, hb, DevStep.none _ _ _ _⟩, by simp⟩
  · simp only [if_neg hm]
    obtain ⟨f1, _, f3, _, f5⟩ := sendHeartbeatLoop_frame force h.st.devs.length 0 h
    exact ⟨f1, f3, sendHeartbeatLoop_dev force _ 0 h, f5⟩

/-- nodes that are not active bus devices: `SendHeartbeat` does nothing at all -/
theorem sendHeartbeat_inactive (force : Bool) (h : HSt) (hm : h.st.claimMode = false) :
    sendHeartbeat force h = (h, []) := by
  unfold sendHeartbeat; simp [hm]

/-- `SendHeartbeat(int iDev)`: heartbeat state untouched; the message (if any) is a forced one; silent on inactive nodes -/
theorem sendHeartbeatOne_spec (h : HSt) (i : Nat) :
    (sendHeartbeatOne h i).1.hb = h.hb ∧ (sendHeartbeatOne h i).1.syncOffset = h.syncOffset ∧
    St.Same h.st (sendHeartbeatOne h i).1.st ∧
    (∀ m, (sendHeartbeatOne h i).2 = some m → ∃ p, m = setN2kPGN126993 p 0xff) ∧
    (h.st.claimMode = false → sendHeartbeatOne h i = (h, none)) := by
  unfold sendHeartbeatOne
  by_cases hm : ¬ h.st.claimMode = true
  · simp only [if_pos hm]
    exact ⟨by triv, by triv, St.Same.rfl' _, fun m hmm => by simp at hmm, fun _ => by triv⟩
  · simp only [if_neg hm]
    have hm' : h.st.claimMode ≠ false := by simpa using hm
    cases hd : h.st.devs[i]? with
    | none => exact ⟨rfl, rfl, St.Same.rfl' _, fun m hmm => by simp at hmm, fun hf => absurd hf hm'⟩
    | some d =>
      cases hb : h.hb[i]? with
      | none => exact ⟨rfl, rfl, St.Same.rfl' _, fun m hmm => by simp at hmm, fun hf => absurd hf hm'⟩
      | some b =>
        refine ⟨rfl, rfl, sendMsg_same _ _ _, fun m hmm => ⟨b.sched.period, ?_⟩, fun hf => absurd hf hm'⟩
        simp only [Option.some.injEq] at hmm
        exact hmm.symm

/-! ## operations and runs -/

/-- a heartbeat handed to `SendMsg`: device, whether it was forced (`SendHeartbeat(true)` / `SendHeartbeat(iDev)`), message -/
structure Ev where
  dev : Nat
  forced : Bool
  msg : Msg

def evs (forced : Bool) (l : List (Nat × Msg)) : List Ev := l.map fun p => ⟨p.1, forced, p.2⟩

/-- what the application (or the passage of time) can do to the node; these are the operations of the `hb` engine -/
inductive Op where
  | tick (ms : Nat)                              -- the clock advances
  | poll                                         -- ParseMessages()
  | force                                        -- SendHeartbeat(true)
  | one (d : Nat)                                -- SendHeartbeat(iDev)
  | set (iv off : Nat) (dev : Option Nat)        -- SetHeartbeatIntervalAndOffset
  | claim (d : Nat)                              -- StartAddressClaim(iDev)
  | drv (script : List Bool) (dflt : Bool)       -- behaviour of the CAN driver from now on
  | canopen (ok : Bool)                          -- what CANOpen() answers from now on

def Op.apply (h : HSt) : Op → HSt × List Ev
  | .tick ms => (tickH h ms, [])
  | .poll => ((pollTopH h).1, evs false (pollTopH h).2)
  | .force => if h.st.openState = 3 then ((sendHeartbeat true h).1, evs true (sendHeartbeat true h).2) else (h, [])
  | .one d =>
    if h.st.openState = 3 then
      ((sendHeartbeatOne h d).1, match (sendHeartbeatOne h d).2 with | some m => [⟨d, true, m⟩] | none => [])
    else (h, [])
  | .set iv off dev => (setHeartbeatIntervalAndOffset h iv off dev, [])
  | .claim d => (claimH h d, [])
  | .drv sc df => ({ h with st := { h.st with drv := { h.st.drv with script := sc, dflt := df } } }, [])
  | .canopen ok => ({ h with st := { h.st with canOpenOk := ok } }, [])

def run : HSt → List Op → HSt × List Ev
  | h, [] => (h, [])
  | h, op :: ops => ((run (op.apply h).1 ops).1, (op.apply h).2 ++ (run (op.apply h).1 ops).2)

/-! ## sequence counter -/

def seqOf (h : HSt) (d : Nat) : Option Nat := (h.hb[d]?).map (·.seq)

/-- sequence bytes of the scheduled (not forced) heartbeats of device `d` -/
def seqsOf (d : Nat) (l : List Ev) : List Nat :=
  (l.filter fun e => e.dev == d && !e.forced).map fun e => seqByte e.msg

def countFrom (c k : Nat) : List Nat := (List.range k).map fun j => (c + j) % 253

theorem seqsOf_append (d : Nat) (a b : List Ev) : seqsOf d (a ++ b) = seqsOf d a ++ seqsOf d b := by
  simp [seqsOf]

theorem countFrom_append (c a b : Nat) : countFrom c (a + b) = countFrom c a ++ countFrom ((c + a) % 253) b := by
  unfold countFrom
  rw [List.range_add, List.map_append, List.map_map]
  congr 1
  apply List.map_congr_left
  intro j _
  simp only [Function.comp]
  omega

theorem seqsOf_evs_false (d : Nat) (l : List (Nat × Msg)) : seqsOf d (evs false l) = (msgsOf d l).map seqByte := by
  unfold seqsOf evs msgsOf
  induction l with
  | nil => rfl
  | cons p t ih =>
    simp only [List.map_cons, List.filter_cons]
    by_cases hp : p.1 = d
    · simp [hp]; simpa using ih
    · simp [hp]; simpa using ih

theorem seqsOf_evs_true (d : Nat) (l : List (Nat × Msg)) : seqsOf d (evs true l) = [] := by
  unfold seqsOf evs
  rw [List.map_eq_nil_iff, List.filter_eq_nil_iff]
  intro e he
  obtain ⟨p, _, rfl⟩ := List.mem_map.mp he
  simp

/-- the relation between the sequence before, the log, and the sequence after, for one operation -/
def SeqRel (d c : Nat) (l : List Ev) (c' : Nat) : Prop :=
  seqsOf d l = countFrom c (seqsOf d l).length ∧ c' = (c + (seqsOf d l).length) % 253 ∧
  ∀ e ∈ l, e.forced = true → seqByte e.msg = 0xff

theorem SeqRel.nil {d c : Nat} (hc : c < 253) : SeqRel d c [] c := by
  refine ⟨rfl, ?_, by simp⟩
  simp [seqsOf]; omega

theorem SeqRel.append {d c c1 c2 : Nat} {a b : List Ev} (h1 : SeqRel d c a c1) (h2 : SeqRel d c1 b c2) :
    SeqRel d c (a ++ b) c2 := by
  obtain ⟨a1, a2, a3⟩ := h1
  obtain ⟨b1, b2, b3⟩ := h2
  refine ⟨?_, ?_, ?_⟩
  · rw [seqsOf_append, List.length_append, countFrom_append, ← a1, ← a2, ← b1]
  · rw [seqsOf_append, List.length_append, b2, a2]; omega
  · intro e he; rcases List.mem_append.mp he with he | he
    · exact a3 e he
    · exact b3 e he

/-- a device step seen through its sequence byte -/
theorem DevStep.seqRel {force : Bool} {so now : Nat} {b b' : HbDev} {d : Nat} {l : List (Nat × Msg)}
    (hs : DevStep force so now b b' (msgsOf d l)) (hc : b.seq < 253)
    (hall : ∀ p ∈ l, ∃ per x, p.2 = setN2kPGN126993 per (if force then 0xff else x)) :
    SeqRel d b.seq (evs force l) b'.seq ∧ b'.seq < 253 := by
  cases force
  · -- scheduled
    have hf : ∀ e ∈ evs false l, e.forced = true → seqByte e.msg = 0xff := by
      intro e he hfe
      obtain ⟨p, _, rfl⟩ := List.mem_map.mp he
      simp at hfe
    rcases hs with ⟨h1, h2⟩ | ⟨h1, h2, _⟩
    · subst h2
      refine ⟨⟨?_, ?_, hf⟩, hc⟩
      · rw [seqsOf_evs_false, h1]; rfl
      · rw [seqsOf_evs_false, h1]; simp; omega
    · subst h2
      have hn := nextSeq_lt hc
      have hb : seqByte (setN2kPGN126993 b.sched.period b.seq) = b.seq := by
        rw [(setN2kPGN126993_layout _ _).2.2.2.2.1]; omega
      refine ⟨⟨?_, ?_, hf⟩, hn.2⟩
      · rw [seqsOf_evs_false, h1]
        simp only [Bool.false_eq_true, ↓reduceIte, List.map_cons, List.map_nil, List.length_singleton, hb]
        simp [countFrom]; omega
      · rw [seqsOf_evs_false, h1]
        simp only [Bool.false_eq_true, ↓reduceIte, List.map_cons, List.map_nil, List.length_singleton]
        exact hn.1
  · -- forced: not counted, sequence kept, byte 0xff
    have hb' : b'.seq = b.seq := by
      rcases hs with ⟨_, h2⟩ | ⟨_, h2, _⟩ <;> subst h2 <;> rfl
    refine ⟨⟨?_, ?_, ?_⟩, by omega⟩
    · rw [seqsOf_evs_true]; rfl
    · rw [seqsOf_evs_true, hb']; simp; omega
    · intro e he _
      obtain ⟨p, hp, rfl⟩ := List.mem_map.mp he
      obtain ⟨per, x, hx⟩ := hall p hp
      simp only [hx, ↓reduceIte]
      rw [(setN2kPGN126993_layout _ _).2.2.2.2.1]

/-! ## `ParseMessages()` in two stages: try to open, then poll -/

/-- the state after the `Open()` attempt at the start of `ParseMessages()` -/
def preOpen (h : HSt) : HSt := if h.st.openState = 3 then h else openStepH h

theorem pollTopH_eq (h : HSt) :
    pollTopH h = if (preOpen h).st.openState = 3 then pollH (preOpen h) else (preOpen h, []) := by
  unfold pollTopH preOpen
  by_cases h3 : h.st.openState = 3
  · simp only [if_pos h3]
  · simp only [if_neg h3]

/-- the heartbeat entries of `pollH` are those of `SendHeartbeat(false)` on the same heartbeat state -/
theorem pollH_spec (h : HSt) :
    HSame h (pollH h).1 ∧
    ((pollH h).2.map (·.1)).Pairwise (· < ·) ∧
    (∀ d b, h.hb[d]? = some b → ∃ b', (pollH h).1.hb[d]? = some b' ∧
        DevStep false h.syncOffset h.st.now b b' (msgsOf d (pollH h).2)) ∧
    (∀ p ∈ (pollH h).2, ∃ per x, p.2 = setN2kPGN126993 per x) := by
  unfold pollH
  obtain ⟨a1, a2, a3, a4⟩ := sendHeartbeat_spec false
    { h with st := { h.st with ring := (sendFrames h.st.ring h.st.drv).1, drv := (sendFrames h.st.ring h.st.drv).2.1 } }
  refine ⟨⟨⟨a1.1.1, a1.1.2.1, a1.1.2.2.1, a1.1.2.2.2.1, a1.1.2.2.2.2⟩, a1.2.1, a1.2.2⟩, a2, a3, ?_⟩
  intro p hp
  obtain ⟨per, x, hx⟩ := a4 p hp
  exact ⟨per, x, by simpa using hx⟩

theorem set_seqOf (h : HSt) (iv off : Nat) (dev : Option Nat) (d : Nat) :
    seqOf (setHeartbeatIntervalAndOffset h iv off dev) d = seqOf h d := by
  unfold seqOf
  rw [set_getElem?]
  cases h.hb[d]? with
  | none => rfl
  | some b =>
    simp only [Option.map_some]
    by_cases h0 : iv = 0xffffffff ∧ off = 0xffff
    · simp only [if_pos h0]
    · simp only [if_neg h0]
      by_cases hl : inLoop dev d = true
      · simp only [if_pos hl]; rw [(setOne_spec _ _ iv off b).1]
      · simp only [if_neg hl]

theorem openStepH_seqOf (h : HSt) (d : Nat) : seqOf (openStepH h) d = seqOf h d := by
  unfold openStepH
  by_cases ht : h.st.openState ≠ 3 ∧ (openStep h.st).openState = 3
  · simp only [if_pos ht]; rw [set_seqOf]; rfl
  · simp only [if_neg ht]; rfl

theorem preOpen_seqOf (h : HSt) (d : Nat) : seqOf (preOpen h) d = seqOf h d := by
  unfold preOpen
  by_cases h3 : h.st.openState = 3
  · simp only [if_pos h3]
  · simp only [if_neg h3]; exact openStepH_seqOf h d

theorem seqRel_of_spec {force : Bool} {h h' : HSt} {l : List (Nat × Msg)} {d c : Nat}
    (hdev : ∀ d b, h.hb[d]? = some b → ∃ b', h'.hb[d]? = some b' ∧ DevStep force h.syncOffset h.st.now b b' (msgsOf d l))
    (hall : ∀ p ∈ l, ∃ per x, p.2 = setN2kPGN126993 per (if force then 0xff else x))
    (hc : seqOf h d = some c) (hlt : c < 253) :
    ∃ c', seqOf h' d = some c' ∧ c' < 253 ∧ SeqRel d c (evs force l) c' := by
  unfold seqOf at hc
  cases hb : h.hb[d]? with
  | none => rw [hb] at hc; simp at hc
  | some b =>
    rw [hb] at hc
    have hbc : b.seq = c := by simpa using hc
    obtain ⟨b', hb', hstep⟩ := hdev d b hb
    obtain ⟨r1, r2⟩ := hstep.seqRel (by omega) hall
    exact ⟨b'.seq, by unfold seqOf; rw [hb']; rfl, r2, by rw [← hbc]; exact r1⟩

/-- one operation, seen through the sequence counter of device `d` -/
theorem Op.apply_seq (op : Op) (h : HSt) (d c : Nat) (hc : seqOf h d = some c) (hlt : c < 253) :
    ∃ c', seqOf (op.apply h).1 d = some c' ∧ c' < 253 ∧ SeqRel d c (op.apply h).2 c' := by
  cases op with
  | tick ms => exact ⟨c, hc, hlt, SeqRel.nil hlt⟩
  | poll =>
    simp only [Op.apply]
    rw [pollTopH_eq]
    have hc' : seqOf (preOpen h) d = some c := by rw [preOpen_seqOf]; exact hc
    by_cases h3 : (preOpen h).st.openState = 3
    · simp only [if_pos h3]
      obtain ⟨_, _, a3, a4⟩ := pollH_spec (preOpen h)
      exact seqRel_of_spec (force := false) a3 (by simpa using a4) hc' hlt
    · simp only [if_neg h3]; exact ⟨c, hc', hlt, SeqRel.nil hlt⟩
  | force =>
    simp only [Op.apply]
    by_cases h3 : h.st.openState = 3
    · simp only [if_pos h3]
      obtain ⟨_, _, a3, a4⟩ := sendHeartbeat_spec true h
      exact seqRel_of_spec (force := true) a3 a4 hc hlt
    · simp only [if_neg h3]; exact ⟨c, hc, hlt, SeqRel.nil hlt⟩
  | one i =>
    simp only [Op.apply]
    by_cases h3 : h.st.openState = 3
    · simp only [if_pos h3]
      obtain ⟨hhb, _, _, hmsg, _⟩ := sendHeartbeatOne_spec h i
      refine ⟨c, by unfold seqOf at *; rw [hhb]; exact hc, hlt, ?_, ?_, ?_⟩
      · cases (sendHeartbeatOne h i).2 <;> simp [seqsOf, countFrom]
      · cases (sendHeartbeatOne h i).2 <;> simp [seqsOf] <;> omega
      · intro e he _
        cases hm : (sendHeartbeatOne h i).2 with
        | none => simp [hm] at he
        | some m =>
          simp [hm] at he
          obtain ⟨p, hp⟩ := hmsg m hm
          rw [he]; simp only
          rw [hp, (setN2kPGN126993_layout _ _).2.2.2.2.1]
    · simp only [if_neg h3]; exact ⟨c, hc, hlt, SeqRel.nil hlt⟩
  | set iv off dev => exact ⟨c, by simp only [Op.apply]; rw [set_seqOf]; exact hc, hlt, SeqRel.nil hlt⟩
  | claim i => exact ⟨c, hc, hlt, SeqRel.nil hlt⟩
  | drv sc df => exact ⟨c, hc, hlt, SeqRel.nil hlt⟩
  | canopen ok => exact ⟨c, hc, hlt, SeqRel.nil hlt⟩

/-- any history of operations, seen through the sequence counter of device `d` -/
theorem run_seq (ops : List Op) : ∀ (h : HSt) (d c : Nat), seqOf h d = some c → c < 253 →
    ∃ c', seqOf (run h ops).1 d = some c' ∧ c' < 253 ∧ SeqRel d c (run h ops).2 c' := by
  induction ops with
  | nil => intro h d c hc hlt; exact ⟨c, hc, hlt, SeqRel.nil hlt⟩
  | cons op ops ih =>
    intro h d c hc hlt
    obtain ⟨c1, h1, l1, r1⟩ := op.apply_seq h d c hc hlt
    obtain ⟨c2, h2, l2, r2⟩ := ih (op.apply h).1 d c1 h1 l1
    exact ⟨c2, h2, l2, r1.append r2⟩

/-! ## the grid invariant of the node -/

/-- a heartbeat scheduler is either off (period 0, `NextTime` = disabled) or its `NextTime` is the least point of
its grid `syncOffset + offset + j·period` strictly after some past instant `u` (the time of its last update) -/
def GridInv (so now : Nat) (s : SyncSched) : Prop :=
  (s.period = 0 ∧ s.next = disabled64) ∨
  (s.period ≠ 0 ∧ ∃ u, u ≤ now ∧ s.next = gridNext (so + s.offset) s.period u)

/-- before the node is open every heartbeat scheduler is off; afterwards every one satisfies `GridInv` -/
def NodeInv (h : HSt) : Prop :=
  (h.st.openState = 3 → ∀ b ∈ h.hb, GridInv h.syncOffset h.st.now b.sched) ∧
  (h.st.openState ≠ 3 → ∀ b ∈ h.hb, b.sched.period = 0 ∧ b.sched.next = disabled64)

/-- the heartbeat is configured after the node has opened (`OnOpen` or later) -/
def Op.Allowed (h : HSt) : Op → Prop
  | .set _ _ _ => h.st.openState = 3
  | _ => True

def RunOk : HSt → List Op → Prop
  | _, [] => True
  | h, op :: ops => op.Allowed h ∧ RunOk (op.apply h).1 ops

theorem GridInv.mono {so now now' : Nat} {s : SyncSched} (h : GridInv so now s) (hle : now ≤ now') :
    GridInv so now' s := by
  rcases h with h | ⟨hp, u, hu, hn⟩
  · exact Or.inl h
  · exact Or.inr ⟨hp, u, by omega, hn⟩

theorem GridInv.update (so now : Nat) (s : SyncSched) : GridInv so now (s.updateNextTime so now) := by
  by_cases hp : s.period = 0
  · rw [updateNextTime_zero hp]; exact Or.inl ⟨hp, rfl⟩
  · rw [updateNextTime_enabled hp]; exact Or.inr ⟨hp, now, Nat.le_refl _, rfl⟩

theorem DevStep.gridInv {force : Bool} {so now : Nat} {b b' : HbDev} {ms : List Msg}
    (hs : DevStep force so now b b' ms) (hg : GridInv so now b.sched) : GridInv so now b'.sched := by
  rcases hs with ⟨_, h2⟩ | ⟨_, h2, _⟩
  · subst h2; exact hg
  · subst h2; exact GridInv.update so now b.sched

theorem setOne_gridInv (so now iv off : Nat) (b : HbDev) (hg : GridInv so now b.sched) :
    GridInv so now (setOne so now iv off b).1.sched := by
  obtain ⟨_, hp, ho, hn, _⟩ := setOne_spec so now iv off b
  by_cases h0 : clipInterval (resolveInterval b.sched.period iv) = 0
  · left; rw [hp, hn]; simp [h0]
  · by_cases hch : b.sched.period ≠ clipInterval (resolveInterval b.sched.period iv) ∨
        b.sched.offset ≠ resolveOffset b.sched.offset off
    · right; rw [hn, if_neg h0, if_pos hch, hp, ho]
      exact ⟨h0, now, Nat.le_refl _, rfl⟩
    · rw [if_neg h0, if_neg hch] at hn
      have h1 : b.sched.period = clipInterval (resolveInterval b.sched.period iv) := by
        apply Decidable.byContradiction; intro h; exact hch (Or.inl h)
      have h2 : b.sched.offset = resolveOffset b.sched.offset off := by
        apply Decidable.byContradiction; intro h; exact hch (Or.inr h)
      rcases hg with ⟨hz, _⟩ | ⟨hnz, u, hu, hnx⟩
      · rw [← h1] at h0; exact absurd hz h0
      · right; rw [hp, ho, hn, ← h1, ← h2]; exact ⟨hnz, u, hu, hnx⟩

/-- a scheduler that is off is rescheduled by the defaults that `Open()` applies -/
theorem setOne_fresh (so now : Nat) (b : HbDev) (hz : b.sched.period = 0) :
    GridInv so now (setOne so now defaultInterval 10000 b).1.sched := by
  obtain ⟨_, hp, ho, hn, _⟩ := setOne_spec so now defaultInterval 10000 b
  have e1 : resolveInterval b.sched.period defaultInterval = 60000 := by simp [resolveInterval, defaultInterval]
  have e2 : clipInterval 60000 = 60000 := clipInterval_id (by omega) (by omega)
  have e3 : resolveOffset b.sched.offset 10000 = 10000 := by simp [resolveOffset]
  simp only [e1, e2, e3] at hp ho hn
  rw [if_neg (by omega), if_pos (Or.inl (by omega))] at hn
  right; rw [hp, ho, hn]; exact ⟨by omega, now, Nat.le_refl _, rfl⟩

theorem mem_of_pointwise {Q : HbDev → Prop} {l l' : List HbDev} (hlen : l'.length = l.length)
    (hpt : ∀ (d : Nat) (b : HbDev), l[d]? = some b → ∃ b', l'[d]? = some b' ∧ Q b') : ∀ b' ∈ l', Q b' := by
  intro b' hb'
  obtain ⟨d, hd⟩ := List.mem_iff_getElem?.mp hb'
  have hlt : d < l.length := by
    rw [← hlen]; apply Decidable.byContradiction; intro hn
    rw [List.getElem?_eq_none (by omega)] at hd; simp at hd
  obtain ⟨b'', h1, h2⟩ := hpt d l[d] (List.getElem?_eq_getElem hlt)
  rw [hd] at h1
  have : b' = b'' := by simpa using h1
  rw [this]; exact h2

theorem preOpen_inv (h : HSt) (hi : NodeInv h) : NodeInv (preOpen h) ∧ (preOpen h).st.now = h.st.now := by
  unfold preOpen
  by_cases h3 : h.st.openState = 3
  · simp only [if_pos h3]; exact ⟨hi, trivial⟩
  · simp only [if_neg h3]
    obtain ⟨fn, _, _, _⟩ := openStep_frame h.st
    unfold openStepH
    by_cases ht : h.st.openState ≠ 3 ∧ (openStep h.st).openState = 3
    · simp only [if_pos ht]
      obtain ⟨es, eso⟩ := set_st { h with st := openStep h.st, syncOffset := (openStep h.st).now } defaultInterval 10000 none
      refine ⟨⟨?_, ?_⟩, by rw [es]; exact fn⟩
      · intro _
        rw [es, eso]
        apply mem_of_pointwise (l := h.hb) (Q := fun b => GridInv (openStep h.st).now (openStep h.st).now b.sched)
          (set_length { h with st := openStep h.st, syncOffset := (openStep h.st).now } defaultInterval 10000 none)
        intro d b hb
        refine ⟨_, by rw [set_getElem?]; simp only; rw [hb]; rfl, ?_⟩
        have hz := hi.2 h3 b (List.mem_of_getElem? hb)
        simp only [show ¬(defaultInterval = 0xffffffff ∧ (10000 : Nat) = 0xffff) by simp [defaultInterval], ↓reduceIte, inLoop]
        exact setOne_fresh _ _ b hz.1
      · intro hno; rw [es] at hno; exact absurd ht.2 hno
    · simp only [if_neg ht]
      refine ⟨⟨?_, ?_⟩, fn⟩
      · intro h'; exact absurd ⟨h3, h'⟩ ht
      · intro _; exact hi.2 h3

theorem inv_of_devStep {force : Bool} {h h' : HSt} {l : List (Nat × Msg)} (hs : HSame h h')
    (h3 : h.st.openState = 3)
    (hdev : ∀ d b, h.hb[d]? = some b → ∃ b', h'.hb[d]? = some b' ∧ DevStep force h.syncOffset h.st.now b b' (msgsOf d l))
    (hi : NodeInv h) : NodeInv h' := by
  have h3' : h'.st.openState = 3 := by rw [hs.1.2.2.2.1]; exact h3
  refine ⟨?_, fun hno => absurd h3' hno⟩
  intro _
  rw [hs.2.1, hs.1.1]
  apply mem_of_pointwise (Q := fun b => GridInv h.syncOffset h.st.now b.sched) hs.2.2
  intro d b hb
  obtain ⟨b', hb', hstep⟩ := hdev d b hb
  exact ⟨b', hb', hstep.gridInv (hi.1 h3 b (List.mem_of_getElem? hb))⟩

/-- every allowed operation preserves the node invariant -/
theorem Op.apply_inv (op : Op) (h : HSt) (hi : NodeInv h) (ha : op.Allowed h) : NodeInv (op.apply h).1 := by
  cases op with
  | tick ms =>
    refine ⟨fun h3 b hb => ?_, fun h3 b hb => hi.2 h3 b hb⟩
    exact (hi.1 h3 b hb).mono (Nat.le_add_right _ _)
  | poll =>
    simp only [Op.apply]
    rw [pollTopH_eq]
    obtain ⟨hp, _⟩ := preOpen_inv h hi
    by_cases h3 : (preOpen h).st.openState = 3
    · simp only [if_pos h3]
      obtain ⟨a1, _, a3, _⟩ := pollH_spec (preOpen h)
      exact inv_of_devStep a1 h3 a3 hp
    · simp only [if_neg h3]; exact hp
  | force =>
    simp only [Op.apply]
    by_cases h3 : h.st.openState = 3
    · simp only [if_pos h3]
      obtain ⟨a1, _, a3, _⟩ := sendHeartbeat_spec true h
      exact inv_of_devStep a1 h3 a3 hi
    · simp only [if_neg h3]; exact hi
  | one i =>
    simp only [Op.apply]
    by_cases h3 : h.st.openState = 3
    · simp only [if_pos h3]
      obtain ⟨hhb, hso, hsame, _, _⟩ := sendHeartbeatOne_spec h i
      refine ⟨fun _ b' hb' => ?_, fun hno => ?_⟩
      · rw [hhb] at hb'
        have := hi.1 h3 b' hb'
        rw [hso, hsame.1]; exact this
      · rw [hsame.2.2.2.1] at hno; exact absurd h3 hno
    · simp only [if_neg h3]; exact hi
  | set iv off dev =>
    have h3 : h.st.openState = 3 := ha
    simp only [Op.apply]
    obtain ⟨es, eso⟩ := set_st h iv off dev
    refine ⟨fun _ => ?_, fun hno => by rw [es] at hno; exact absurd h3 hno⟩
    rw [es, eso]
    apply mem_of_pointwise (l := h.hb) (Q := fun b => GridInv h.syncOffset h.st.now b.sched) (set_length _ _ _ _)
    intro d b hb
    refine ⟨_, by rw [set_getElem?, hb]; rfl, ?_⟩
    have hg := hi.1 h3 b (List.mem_of_getElem? hb)
    by_cases h0 : iv = 0xffffffff ∧ off = 0xffff
    · simp only [if_pos h0]; exact hg
    · simp only [if_neg h0]
      by_cases hl : inLoop dev d = true
      · simp only [if_pos hl]; exact setOne_gridInv _ _ _ _ b hg
      · simp only [if_neg hl]; exact hg
  | claim i =>
    have hsame := startAddressClaim_same h.st i
    refine ⟨fun h3 b hb => ?_, fun hno b hb => ?_⟩
    · have h3' : h.st.openState = 3 := by rw [← hsame.2.2.2.1]; exact h3
      have := hi.1 h3' b hb
      simp only [Op.apply, claimH, hsame.1]; exact this
    · have h3' : h.st.openState ≠ 3 := by rw [← hsame.2.2.2.1]; exact hno
      exact hi.2 h3' b hb
  | drv sc df => exact hi
  | canopen ok => exact hi

theorem run_inv (ops : List Op) : ∀ (h : HSt), NodeInv h → RunOk h ops → NodeInv (run h ops).1 := by
  induction ops with
  | nil => intro h hi _; exact hi
  | cons op ops ih => intro h hi hok; exact ih _ (op.apply_inv h hi hok.1) hok.2

/-- `Open()` never makes a node an active bus device -/
theorem openStep_inactive (s : St) (hm : s.claimMode = false) : (openStep s).claimMode = false := by
  have hsc : ∀ (s : St) (i : Nat), s.claimMode = false → startAddressClaim s i = s := by
    intro s i hm; unfold startAddressClaim St.canClaim; simp [hm]
  have hfold : ∀ (l : List Nat) (s : St), s.claimMode = false → l.foldl startAddressClaim s = s := by
    intro l; induction l with
    | nil => intro s _; rfl
    | cons i t ih => intro s hm; simp only [List.foldl_cons]; rw [hsc s i hm]; exact ih s hm
  rw [openStep_eq]
  unfold openPre openRest startAddressClaimAll
  by_cases h0 : s.openState = 0
  · simp only [if_pos h0, ↓reduceIte]
    split
    · exact hm
    · split <;> exact hm
  · simp only [if_neg h0]
    split
    · split
      · exact hm
      · split <;> exact hm
    · split
      · rw [hfold _ _ (by exact hm)]; exact hm
      · exact hm


end N2k.Heartbeat
