import N2k.Lemmas.IsoRequestRetry
/-! Histories of the ISO-request node model: events, runs, and the invariant that ties an armed product-information
retry timer to the answer that is still owed. -/
namespace N2k.IsoRequest
open N2k.Send N2k.Time

/-! ## events and runs -/

/-- what can happen to an open node (as far as ISO requests are concerned) -/
inductive Ev where
  | rq (m : Msg)                               -- a `ParseMessages()` that receives the ISO request `m`
  | poll                                       -- a `ParseMessages()` with nothing to receive
  | tick (ms : Nat)                            -- the clock advances
  | drv (script : List Bool) (dflt : Bool)     -- the CAN driver changes its mind (accept/refuse decisions to come)
  | claim (i : Nat)                            -- device `i` starts an address claim (250 ms window)

def step (h : Option Handler) (n : Node) : Ev → Node × List OutMsg
  | .rq m => pollRq n (some m) h
  | .poll => pollRq n none h
  | .tick ms => ({ n with st := { n.st with now := n.st.now + ms } }, [])
  | .drv sc d => ({ n with st := { n.st with drv := { n.st.drv with script := sc, dflt := d } } }, [])
  | .claim i => ({ n with st := startAddressClaim n.st i }, [])

/-- final state and everything handed to `SendMsg`, in order -/
def run (h : Option Handler) : Node → List Ev → Node × List OutMsg
  | n, [] => (n, [])
  | n, e :: t => ((run h (step h n e).1 t).1, (step h n e).2 ++ (run h (step h n e).1 t).2)

theorem run_append (h : Option Handler) : ∀ (a b : List Ev) (n : Node),
    run h n (a ++ b) = ((run h (run h n a).1 b).1, (run h n a).2 ++ (run h (run h n a).1 b).2)
  | [], b, n => by simp [run]
  | e :: t, b, n => by
    simp only [List.cons_append, run, run_append h t b, List.append_assoc]

/-- the state in which a received message is handled: after `SendFrames` and `SendPendingInformation` -/
def rqState (n : Node) : Node × List OutMsg :=
  sendPendingInformation { n with st := { n.st with ring := (sendFrames n.st.ring n.st.drv).1,
                                                    drv := (sendFrames n.st.ring n.st.drv).2.1 } }

theorem pollRq_out (n : Node) (m : Msg) (h : Option Handler) :
    (pollRq n (some m) h).2 = (rqState n).2 ++ (handleReceived (rqState n).1 m h).2 := rfl

/-! ## the owed product information -/

/-- device `i`'s product information is handed to `SendMsg` somewhere in `out` -/
def Sent (i : Nat) (out : List OutMsg) : Prop := ∃ o ∈ out, o.dev = i ∧ o.msg.pgn = 126996

/-- device `i`'s product-information retry timer holds `v` and the device is flagged for `SendPendingInformation` -/
def Inv (f : Flavor) (i : Nat) (v : Sched) (n : Node) : Prop :=
  n.st.flavor = f ∧ ∃ x, n.ext[i]? = some x ∧ x.pendProd = v ∧ x.hasPending = true

/-- either the owed answer has been handed over, or the timer is still armed -/
def Good (f : Flavor) (i : Nat) (v : Sched) (r : Node × List OutMsg) : Prop := Sent i r.2 ∨ Inv f i v r.1

theorem Sent.left {i : Nat} {a : List OutMsg} (b : List OutMsg) (h : Sent i a) : Sent i (a ++ b) := by
  obtain ⟨o, ho, h1⟩ := h; exact ⟨o, List.mem_append_left _ ho, h1⟩

theorem Sent.right {i : Nat} (a : List OutMsg) {b : List OutMsg} (h : Sent i b) : Sent i (a ++ b) := by
  obtain ⟨o, ho, h1⟩ := h; exact ⟨o, List.mem_append_right _ ho, h1⟩

theorem andThen_good {f : Flavor} {i : Nat} {v : Sched} (a : Node × List OutMsg) (g : Node → Node × List OutMsg)
    (ha : Good f i v a) (hg : ∀ n1, Inv f i v n1 → Good f i v (g n1)) : Good f i v (andThen a g) := by
  rcases ha with ha | ha
  · exact Or.inl (Sent.left _ ha)
  · rcases hg a.1 ha with h2 | h2
    · exact Or.inl (Sent.right _ h2)
    · exact Or.inr h2

/-- a change of the send-path state only -/
theorem inv_st {f : Flavor} {i : Nat} {v : Sched} (n : Node) (s : St) (hs : s.flavor = n.st.flavor)
    (h : Inv f i v n) : Inv f i v { n with st := s } := ⟨by rw [← h.1]; exact hs, h.2⟩

theorem inv_sendPlain {f : Flavor} {i : Nat} {v : Sched} (n : Node) (j : Nat) (m : Msg) (h : Inv f i v n) :
    Inv f i v (sendPlain n j m).1 := inv_st n _ (sendMsg_same _ _ _).1 h

theorem inv_sendAll {f : Flavor} {i : Nat} {v : Sched} (j : Nat) : ∀ (ms : List Msg) (n : Node), Inv f i v n →
    Inv f i v (sendAll n j ms).1
  | [], _, h => h
  | m :: t, n, h => inv_sendAll j t _ (inv_sendPlain n j m h)

theorem inv_updExt {f : Flavor} {i : Nat} {v : Sched} (n : Node) (j : Nat) (g : DevX → DevX)
    (hg : j = i → ∀ x, x.pendProd = v → x.hasPending = true → (g x).pendProd = v ∧ (g x).hasPending = true)
    (h : Inv f i v n) : Inv f i v (updExt n j g) := by
  obtain ⟨hf, x, hx, hv, hp⟩ := h
  unfold updExt
  cases hy : n.ext[j]? with
  | none => exact ⟨hf, x, hx, hv, hp⟩
  | some y =>
    refine ⟨hf, ?_⟩
    by_cases hji : j = i
    · subst hji
      rw [hx] at hy; cases hy
      exact ⟨g x, getElem?_set_self' _ _ _ _ hx, (hg rfl x hv hp).1, (hg rfl x hv hp).2⟩
    · refine ⟨x, ?_, hv, hp⟩
      show (n.ext.set j (g y))[i]? = some x
      rw [List.getElem?_set_ne hji]; exact hx

theorem inv_finishConf {f : Flavor} {i : Nat} {v : Sched} (hen : v.isEnabled f = true) (n : Node) (j src : Nat) (m : Msg)
    (h : Inv f i v n) : Inv f i v (finishConf n j src m) := by
  unfold finishConf
  apply inv_updExt _ _ _ _ (inv_st n _ (sendMsg_same _ _ _).1 h)
  intro _ x hv hp
  unfold afterConf
  cases (sendMsg n.st m (some j)).2 with
  | true => simp [updateHasPending, hv, h.1, hen]
  | false => simp [hv]

theorem inv_finishProd_ne {f : Flavor} {i : Nat} {v : Sched} (n : Node) (j src : Nat) (m : Msg) (hji : j ≠ i)
    (h : Inv f i v n) : Inv f i v (finishProd n j src m) := by
  unfold finishProd
  exact inv_updExt _ _ _ (fun e => absurd e hji) (inv_st n _ (sendMsg_same _ _ _).1 h)

theorem good_sendProductInformation {f : Flavor} {i : Nat} {v : Sched} (n : Node) (j : Nat) (h : Inv f i v n) :
    Good f i v (sendProductInformation n j) := by
  unfold sendProductInformation
  cases n.st.devs[j]? with
  | none => exact Or.inr h
  | some d =>
    cases resolveProd n.ext j with
    | none => exact Or.inr h
    | some p =>
      by_cases hji : j = i
      · subst hji
        exact Or.inl ⟨⟨j, productMsg d p⟩, List.mem_singleton.mpr rfl, rfl, rfl⟩
      · exact Or.inr (inv_finishProd_ne _ _ _ _ hji h)

theorem inv_sendConfigurationInformation {f : Flavor} {i : Nat} {v : Sched} (hen : v.isEnabled f = true) (n : Node) (j : Nat)
    (h : Inv f i v n) : Inv f i v (sendConfigurationInformation n j).1 := by
  unfold sendConfigurationInformation
  cases n.st.devs[j]? with
  | none => exact h
  | some d => exact inv_finishConf hen _ _ _ _ h

theorem inv_dflt {f : Flavor} {i : Nat} {v : Sched} (n : Node) (h : Option Handler) (r : Nat) (a : Bool) (p j : Nat)
    (hi : Inv f i v n) : Inv f i v (dflt n h r a p j).1 :=
  ⟨by rw [(dflt_same n h r a p j).1.1]; exact hi.1, by rw [dflt_ext]; exact hi.2⟩

theorem good_answer {f : Flavor} {i : Nat} {v : Sched} (hen : v.isEnabled f = true) (n : Node) (h : Option Handler)
    (r : Nat) (a : Bool) (p j : Nat) (d : Dev) (x : DevX) (hi : Inv f i v n) : Good f i v (answer n h r a p j d x) := by
  unfold answer
  by_cases h1 : p = 60928
  · rw [if_pos h1]; exact Or.inr (inv_sendPlain _ _ _ hi)
  · rw [if_neg h1]
    by_cases h2 : p = 126464
    · rw [if_pos h2]; exact Or.inr (inv_sendPlain _ _ _ (inv_sendPlain _ _ _ hi))
    · rw [if_neg h2]
      by_cases h3 : p = 126996
      · rw [if_pos h3]; exact good_sendProductInformation _ _ hi
      · rw [if_neg h3]
        by_cases h4 : p = 126998 ∧ n.conf.any = true
        · rw [if_pos h4]; exact Or.inr (inv_sendConfigurationInformation hen _ _ hi)
        · rw [if_neg h4]; exact Or.inr (inv_dflt _ _ _ _ _ _ hi)

theorem good_respond {f : Flavor} {i : Nat} {v : Sched} (hen : v.isEnabled f = true) (n : Node) (h : Option Handler)
    (r : Nat) (a : Bool) (p j : Nat) (hi : Inv f i v n) : Good f i v (respond n h r a p j) := by
  unfold respond
  cases n.st.devs[j]? with
  | none => exact Or.inr hi
  | some d0 =>
    cases n.ext[j]? with
    | none => exact Or.inr hi
    | some x =>
      simp only
      have h1 : Inv f i v { n with st := { n.st with devs := updDev n.st.devs j (isAddressClaimStarted n.st.flavor n.st.now d0).1 } } :=
        inv_st n _ rfl hi
      by_cases hc : (isAddressClaimStarted n.st.flavor n.st.now d0).2 = true
      · rw [if_pos hc]; exact Or.inr h1
      · rw [if_neg hc]; exact good_answer hen _ _ _ _ _ _ _ _ h1

theorem good_respondAll {f : Flavor} {i : Nat} {v : Sched} (hen : v.isEnabled f = true) (h : Option Handler) (r p : Nat) :
    ∀ (l : List Nat) (n : Node), Inv f i v n → Good f i v (respondAll h r p l n)
  | [], _, hi => Or.inr hi
  | j :: t, n, hi => andThen_good _ _ (good_respond hen n h r false p j hi) (fun n1 h1 => good_respondAll hen h r p t n1 h1)

theorem good_handleReceived {f : Flavor} {i : Nat} {v : Sched} (hen : v.isEnabled f = true) (n : Node) (m : Msg)
    (h : Option Handler) (hi : Inv f i v n) : Good f i v (handleReceived n m h) := by
  unfold handleReceived
  by_cases hc : n.st.claimMode = true
  · rw [if_pos hc]
    unfold handleISORequest
    by_cases hd : m.dst = 255
    · rw [if_pos hd]; exact good_respondAll hen _ _ _ _ _ hi
    · rw [if_neg hd]
      cases findSourceDeviceIndex n.st.devs m.dst with
      | none => exact Or.inr hi
      | some j => exact good_respond hen _ _ _ _ _ _ hi
  · rw [if_neg hc]; exact Or.inr hi

theorem good_pendingDev {f : Flavor} {i : Nat} {v : Sched} (hen : v.isEnabled f = true) (n : Node) (j : Nat)
    (hi : Inv f i v n) : Good f i v (pendingDev n j) := by
  unfold pendingDev
  cases n.ext[j]? with
  | none => exact Or.inr hi
  | some x =>
    simp only
    by_cases hf : x.hasPending = true
    · rw [if_pos hf]
      apply andThen_good
      · by_cases hp : x.pendProd.isTime n.st.flavor n.st.now = true
        · rw [if_pos hp]; exact good_sendProductInformation _ _ hi
        · rw [if_neg hp]; exact Or.inr hi
      · intro n1 h1
        cases n1.ext[j]? with
        | none => exact Or.inr h1
        | some x1 =>
          simp only
          by_cases hq : x1.pendConf.isTime n1.st.flavor n1.st.now = true
          · rw [if_pos hq]; exact Or.inr (inv_sendConfigurationInformation hen _ _ h1)
          · rw [if_neg hq]; exact Or.inr h1
    · rw [if_neg hf]; exact Or.inr hi

theorem good_pendingAll {f : Flavor} {i : Nat} {v : Sched} (hen : v.isEnabled f = true) :
    ∀ (l : List Nat) (n : Node), Inv f i v n → Good f i v (pendingAll l n)
  | [], _, hi => Or.inr hi
  | j :: t, n, hi => andThen_good _ _ (good_pendingDev hen n j hi) (fun n1 h1 => good_pendingAll hen t n1 h1)

theorem good_pollWith {f : Flavor} {i : Nat} {v : Sched} (hen : v.isEnabled f = true) (n : Node)
    (act : Node → Node × List OutMsg) (hact : ∀ n2, Inv f i v n2 → Good f i v (act n2)) (hi : Inv f i v n) :
    Good f i v (pollWith n act) := by
  have h1 : Inv f i v { n with st := { n.st with ring := (sendFrames n.st.ring n.st.drv).1,
                                                  drv := (sendFrames n.st.ring n.st.drv).2.1 } } := inv_st n _ rfl hi
  have h2 := andThen_good _ act (good_pendingAll hen (List.range n.st.devs.length) _ h1) hact
  unfold pollWith
  rcases h2 with h2 | h2
  · exact Or.inl h2
  · exact Or.inr (inv_st _ _ rfl h2)

theorem good_step {f : Flavor} {i : Nat} {v : Sched} (hen : v.isEnabled f = true) (h : Option Handler) (n : Node) (e : Ev)
    (hi : Inv f i v n) : Good f i v (step h n e) := by
  cases e with
  | rq m => exact good_pollWith hen n _ (fun n2 h2 => good_handleReceived hen n2 m h h2) hi
  | poll => exact good_pollWith hen n _ (fun n2 h2 => Or.inr h2) hi
  | tick ms => exact Or.inr (inv_st n _ rfl hi)
  | drv sc d => exact Or.inr (inv_st n _ rfl hi)
  | claim j =>
    refine Or.inr (inv_st n _ ?_ hi)
    unfold startAddressClaim
    by_cases hc : ¬ n.st.canClaim = true
    · rw [if_pos hc]
    · rw [if_neg hc]
      cases n.st.devs[j]? with
      | none => rfl
      | some d =>
        simp only
        have hs := (sendMsg_same { n.st with devs := updDev n.st.devs j { d with claimTimer := Sched.disabled n.st.flavor } }
          (claimMsg { d with claimTimer := Sched.disabled n.st.flavor }) (some j)).1
        split
        · exact hs
        · exact hs

/-- **over every history: the owed product information is handed over again, or its retry stays armed** -/
theorem good_run {f : Flavor} {i : Nat} {v : Sched} (hen : v.isEnabled f = true) (h : Option Handler) :
    ∀ (evs : List Ev) (n : Node), Inv f i v n → Good f i v (run h n evs)
  | [], _, hi => Or.inr hi
  | e :: t, n, hi => by
    rcases good_step hen h n e hi with h1 | h1
    · exact Or.inl (Sent.left _ h1)
    · rcases good_run hen h t _ h1 with h2 | h2
      · exact Or.inl (Sent.right _ h2)
      · exact Or.inr h2

/-! ## a poll at which the armed timer is due -/

theorem pendingDev_same (n : Node) (j : Nat) : Same n (pendingDev n j).1 := by
  unfold pendingDev
  cases n.ext[j]? with
  | none => exact Same.refl n
  | some x =>
    simp only
    by_cases hf : x.hasPending = true
    · rw [if_pos hf]
      apply andThen_same
      · by_cases hp : x.pendProd.isTime n.st.flavor n.st.now = true
        · rw [if_pos hp]; exact sendProductInformation_same _ _
        · rw [if_neg hp]; exact Same.refl n
      · intro n1
        cases n1.ext[j]? with
        | none => exact Same.refl n1
        | some x1 =>
          simp only
          by_cases hq : x1.pendConf.isTime n1.st.flavor n1.st.now = true
          · rw [if_pos hq]; exact sendConfigurationInformation_same _ _
          · rw [if_neg hq]; exact Same.refl n1
    · rw [if_neg hf]; exact Same.refl n

/-- the device's own turn in `SendPendingInformation`: flagged and due, it sends -/
theorem sent_pendingDev_self {f : Flavor} {i : Nat} {v : Sched} (n : Node) (d : Dev) (p : Product)
    (hi : Inv f i v n) (hdue : v.isTime f n.st.now = true) (hd : n.st.devs[i]? = some d)
    (hp : resolveProd n.ext i = some p) : Sent i (pendingDev n i).2 := by
  obtain ⟨hf, x, hx, hv, hpn⟩ := hi
  unfold pendingDev
  simp only [hx, hpn, ↓reduceIte, hv, hf, hdue, andThen]
  apply Sent.left
  unfold sendProductInformation
  rw [hd, hp]
  exact ⟨⟨i, productMsg d p⟩, List.mem_singleton.mpr rfl, rfl, rfl⟩

theorem sent_pendingAll {f : Flavor} {i : Nat} {v : Sched} (hen : v.isEnabled f = true) :
    ∀ (l : List Nat) (n : Node), i ∈ l → Inv f i v n → v.isTime f n.st.now = true →
      (∃ d, n.st.devs[i]? = some d) → (∃ p, resolveProd n.ext i = some p) → Sent i (pendingAll l n).2
  | [], _, hm, _, _, _, _ => by simp at hm
  | j :: t, n, hm, hi, hdue, ⟨d, hd⟩, ⟨p, hp⟩ => by
    show Sent i ((pendingDev n j).2 ++ (pendingAll t (pendingDev n j).1).2)
    by_cases hji : j = i
    · subst hji; exact Sent.left _ (sent_pendingDev_self n d p hi hdue hd hp)
    · rcases good_pendingDev hen n j hi with h1 | h1
      · exact Sent.left _ h1
      · have hs := pendingDev_same n j
        have hm' : i ∈ t := by
          rcases List.mem_cons.mp hm with h | h
          · exact absurd h.symm hji
          · exact h
        obtain ⟨d', hd', _⟩ := same_source n _ hs i d hd
        apply Sent.right
        apply sent_pendingAll hen t _ hm' h1 (by rw [hs.1.2.1]; exact hdue) ⟨d', hd'⟩
        exact ⟨p, by rw [resolveProd_same _ _ hs.2.2]; exact hp⟩

/-- a `ParseMessages()` (with or without a received request) at which the armed timer is due sends the product information -/
theorem sent_poll {f : Flavor} {i : Nat} {v : Sched} (hen : v.isEnabled f = true) (n : Node) (act : Node → Node × List OutMsg)
    (hi : Inv f i v n) (hdue : v.isTime f n.st.now = true) (hd : ∃ d, n.st.devs[i]? = some d)
    (hp : ∃ p, resolveProd n.ext i = some p) : Sent i (pollWith n act).2 := by
  have hlen : i < n.st.devs.length := by
    obtain ⟨d, hd⟩ := hd
    rcases Nat.lt_or_ge i n.st.devs.length with h1 | h1
    · exact h1
    · rw [List.getElem?_eq_none h1] at hd; cases hd
  have := sent_pendingAll hen (List.range n.st.devs.length)
    { n with st := { n.st with ring := (sendFrames n.st.ring n.st.drv).1, drv := (sendFrames n.st.ring n.st.drv).2.1 } }
    (List.mem_range.mpr hlen) (inv_st n _ rfl hi) hdue hd hp
  unfold pollWith
  exact Sent.left _ this

/-! ## the owed configuration information (the twin of the above) -/

/-- device `i`'s configuration information (or its "not available") is handed to `SendMsg` somewhere in `out` -/
def SentC (i : Nat) (out : List OutMsg) : Prop := ∃ o ∈ out, o.dev = i ∧ ∃ d c, o.msg = confOrNak d c

def InvC (f : Flavor) (i : Nat) (v : Sched) (n : Node) : Prop :=
  n.st.flavor = f ∧ ∃ x, n.ext[i]? = some x ∧ x.pendConf = v ∧ x.hasPending = true

def GoodC (f : Flavor) (i : Nat) (v : Sched) (r : Node × List OutMsg) : Prop := SentC i r.2 ∨ InvC f i v r.1

theorem SentC.left {i : Nat} {a : List OutMsg} (b : List OutMsg) (h : SentC i a) : SentC i (a ++ b) := by
  obtain ⟨o, ho, h1⟩ := h; exact ⟨o, List.mem_append_left _ ho, h1⟩

theorem SentC.right {i : Nat} (a : List OutMsg) {b : List OutMsg} (h : SentC i b) : SentC i (a ++ b) := by
  obtain ⟨o, ho, h1⟩ := h; exact ⟨o, List.mem_append_right _ ho, h1⟩

theorem andThen_goodC {f : Flavor} {i : Nat} {v : Sched} (a : Node × List OutMsg) (g : Node → Node × List OutMsg)
    (ha : GoodC f i v a) (hg : ∀ n1, InvC f i v n1 → GoodC f i v (g n1)) : GoodC f i v (andThen a g) := by
  rcases ha with ha | ha
  · exact Or.inl (SentC.left _ ha)
  · rcases hg a.1 ha with h2 | h2
    · exact Or.inl (SentC.right _ h2)
    · exact Or.inr h2

theorem invC_st {f : Flavor} {i : Nat} {v : Sched} (n : Node) (s : St) (hs : s.flavor = n.st.flavor)
    (h : InvC f i v n) : InvC f i v { n with st := s } := ⟨by rw [← h.1]; exact hs, h.2⟩

theorem invC_sendPlain {f : Flavor} {i : Nat} {v : Sched} (n : Node) (j : Nat) (m : Msg) (h : InvC f i v n) :
    InvC f i v (sendPlain n j m).1 := invC_st n _ (sendMsg_same _ _ _).1 h

theorem invC_updExt {f : Flavor} {i : Nat} {v : Sched} (n : Node) (j : Nat) (g : DevX → DevX)
    (hg : j = i → ∀ x, x.pendConf = v → x.hasPending = true → (g x).pendConf = v ∧ (g x).hasPending = true)
    (h : InvC f i v n) : InvC f i v (updExt n j g) := by
  obtain ⟨hf, x, hx, hv, hp⟩ := h
  unfold updExt
  cases hy : n.ext[j]? with
  | none => exact ⟨hf, x, hx, hv, hp⟩
  | some y =>
    refine ⟨hf, ?_⟩
    by_cases hji : j = i
    · subst hji
      rw [hx] at hy; cases hy
      exact ⟨g x, getElem?_set_self' _ _ _ _ hx, (hg rfl x hv hp).1, (hg rfl x hv hp).2⟩
    · refine ⟨x, ?_, hv, hp⟩
      show (n.ext.set j (g y))[i]? = some x
      rw [List.getElem?_set_ne hji]; exact hx

theorem invC_finishProd {f : Flavor} {i : Nat} {v : Sched} (hen : v.isEnabled f = true) (n : Node) (j src : Nat) (m : Msg)
    (h : InvC f i v n) : InvC f i v (finishProd n j src m) := by
  unfold finishProd
  apply invC_updExt _ _ _ _ (invC_st n _ (sendMsg_same _ _ _).1 h)
  intro _ x hv hp
  unfold afterProd
  cases (sendMsg n.st m (some j)).2 with
  | true => simp [updateHasPending, hv, h.1, hen]
  | false => simp [hv]

theorem invC_finishConf_ne {f : Flavor} {i : Nat} {v : Sched} (n : Node) (j src : Nat) (m : Msg) (hji : j ≠ i)
    (h : InvC f i v n) : InvC f i v (finishConf n j src m) := by
  unfold finishConf
  exact invC_updExt _ _ _ (fun e => absurd e hji) (invC_st n _ (sendMsg_same _ _ _).1 h)

theorem invC_sendProductInformation {f : Flavor} {i : Nat} {v : Sched} (hen : v.isEnabled f = true) (n : Node) (j : Nat)
    (h : InvC f i v n) : InvC f i v (sendProductInformation n j).1 := by
  unfold sendProductInformation
  cases n.st.devs[j]? with
  | none => exact h
  | some d =>
    cases resolveProd n.ext j with
    | none => exact h
    | some p => exact invC_finishProd hen _ _ _ _ h

theorem goodC_sendConfigurationInformation {f : Flavor} {i : Nat} {v : Sched} (n : Node) (j : Nat) (h : InvC f i v n) :
    GoodC f i v (sendConfigurationInformation n j) := by
  unfold sendConfigurationInformation
  cases n.st.devs[j]? with
  | none => exact Or.inr h
  | some d =>
    by_cases hji : j = i
    · subst hji
      exact Or.inl ⟨⟨j, confOrNak d n.conf⟩, List.mem_singleton.mpr rfl, rfl, d, n.conf, rfl⟩
    · exact Or.inr (invC_finishConf_ne _ _ _ _ hji h)

theorem invC_dflt {f : Flavor} {i : Nat} {v : Sched} (n : Node) (h : Option Handler) (r : Nat) (a : Bool) (p j : Nat)
    (hi : InvC f i v n) : InvC f i v (dflt n h r a p j).1 :=
  ⟨by rw [(dflt_same n h r a p j).1.1]; exact hi.1, by rw [dflt_ext]; exact hi.2⟩

theorem goodC_answer {f : Flavor} {i : Nat} {v : Sched} (hen : v.isEnabled f = true) (n : Node) (h : Option Handler)
    (r : Nat) (a : Bool) (p j : Nat) (d : Dev) (x : DevX) (hi : InvC f i v n) : GoodC f i v (answer n h r a p j d x) := by
  unfold answer
  by_cases h1 : p = 60928
  · rw [if_pos h1]; exact Or.inr (invC_sendPlain _ _ _ hi)
  · rw [if_neg h1]
    by_cases h2 : p = 126464
    · rw [if_pos h2]; exact Or.inr (invC_sendPlain _ _ _ (invC_sendPlain _ _ _ hi))
    · rw [if_neg h2]
      by_cases h3 : p = 126996
      · rw [if_pos h3]; exact Or.inr (invC_sendProductInformation hen _ _ hi)
      · rw [if_neg h3]
        by_cases h4 : p = 126998 ∧ n.conf.any = true
        · rw [if_pos h4]; exact goodC_sendConfigurationInformation _ _ hi
        · rw [if_neg h4]; exact Or.inr (invC_dflt _ _ _ _ _ _ hi)

theorem goodC_respond {f : Flavor} {i : Nat} {v : Sched} (hen : v.isEnabled f = true) (n : Node) (h : Option Handler)
    (r : Nat) (a : Bool) (p j : Nat) (hi : InvC f i v n) : GoodC f i v (respond n h r a p j) := by
  unfold respond
  cases n.st.devs[j]? with
  | none => exact Or.inr hi
  | some d0 =>
    cases n.ext[j]? with
    | none => exact Or.inr hi
    | some x =>
      simp only
      have h1 : InvC f i v { n with st := { n.st with devs := updDev n.st.devs j (isAddressClaimStarted n.st.flavor n.st.now d0).1 } } :=
        invC_st n _ rfl hi
      by_cases hc : (isAddressClaimStarted n.st.flavor n.st.now d0).2 = true
      · rw [if_pos hc]; exact Or.inr h1
      · rw [if_neg hc]; exact goodC_answer hen _ _ _ _ _ _ _ _ h1

theorem goodC_respondAll {f : Flavor} {i : Nat} {v : Sched} (hen : v.isEnabled f = true) (h : Option Handler) (r p : Nat) :
    ∀ (l : List Nat) (n : Node), InvC f i v n → GoodC f i v (respondAll h r p l n)
  | [], _, hi => Or.inr hi
  | j :: t, n, hi => andThen_goodC _ _ (goodC_respond hen n h r false p j hi) (fun n1 h1 => goodC_respondAll hen h r p t n1 h1)

theorem goodC_handleReceived {f : Flavor} {i : Nat} {v : Sched} (hen : v.isEnabled f = true) (n : Node) (m : Msg)
    (h : Option Handler) (hi : InvC f i v n) : GoodC f i v (handleReceived n m h) := by
  unfold handleReceived
  by_cases hc : n.st.claimMode = true
  · rw [if_pos hc]
    unfold handleISORequest
    by_cases hd : m.dst = 255
    · rw [if_pos hd]; exact goodC_respondAll hen _ _ _ _ _ hi
    · rw [if_neg hd]
      cases findSourceDeviceIndex n.st.devs m.dst with
      | none => exact Or.inr hi
      | some j => exact goodC_respond hen _ _ _ _ _ _ hi
  · rw [if_neg hc]; exact Or.inr hi

theorem goodC_pendingDev {f : Flavor} {i : Nat} {v : Sched} (hen : v.isEnabled f = true) (n : Node) (j : Nat)
    (hi : InvC f i v n) : GoodC f i v (pendingDev n j) := by
  unfold pendingDev
  cases n.ext[j]? with
  | none => exact Or.inr hi
  | some x =>
    simp only
    by_cases hf : x.hasPending = true
    · rw [if_pos hf]
      apply andThen_goodC
      · by_cases hp : x.pendProd.isTime n.st.flavor n.st.now = true
        · rw [if_pos hp]; exact Or.inr (invC_sendProductInformation hen _ _ hi)
        · rw [if_neg hp]; exact Or.inr hi
      · intro n1 h1
        cases n1.ext[j]? with
        | none => exact Or.inr h1
        | some x1 =>
          simp only
          by_cases hq : x1.pendConf.isTime n1.st.flavor n1.st.now = true
          · rw [if_pos hq]; exact goodC_sendConfigurationInformation _ _ h1
          · rw [if_neg hq]; exact Or.inr h1
    · rw [if_neg hf]; exact Or.inr hi

theorem goodC_pendingAll {f : Flavor} {i : Nat} {v : Sched} (hen : v.isEnabled f = true) :
    ∀ (l : List Nat) (n : Node), InvC f i v n → GoodC f i v (pendingAll l n)
  | [], _, hi => Or.inr hi
  | j :: t, n, hi => andThen_goodC _ _ (goodC_pendingDev hen n j hi) (fun n1 h1 => goodC_pendingAll hen t n1 h1)

theorem goodC_pollWith {f : Flavor} {i : Nat} {v : Sched} (hen : v.isEnabled f = true) (n : Node)
    (act : Node → Node × List OutMsg) (hact : ∀ n2, InvC f i v n2 → GoodC f i v (act n2)) (hi : InvC f i v n) :
    GoodC f i v (pollWith n act) := by
  have h1 : InvC f i v { n with st := { n.st with ring := (sendFrames n.st.ring n.st.drv).1,
                                                   drv := (sendFrames n.st.ring n.st.drv).2.1 } } := invC_st n _ rfl hi
  have h2 := andThen_goodC _ act (goodC_pendingAll hen (List.range n.st.devs.length) _ h1) hact
  unfold pollWith
  rcases h2 with h2 | h2
  · exact Or.inl h2
  · exact Or.inr (invC_st _ _ rfl h2)

theorem startAddressClaim_flavor (s : St) (j : Nat) : (startAddressClaim s j).flavor = s.flavor := by
  unfold startAddressClaim
  by_cases hc : ¬ s.canClaim = true
  · rw [if_pos hc]
  · rw [if_neg hc]
    cases s.devs[j]? with
    | none => rfl
    | some d =>
      simp only
      have hs := (sendMsg_same { s with devs := updDev s.devs j { d with claimTimer := Sched.disabled s.flavor } }
        (claimMsg { d with claimTimer := Sched.disabled s.flavor }) (some j)).1
      split
      · exact hs
      · exact hs

theorem goodC_step {f : Flavor} {i : Nat} {v : Sched} (hen : v.isEnabled f = true) (h : Option Handler) (n : Node) (e : Ev)
    (hi : InvC f i v n) : GoodC f i v (step h n e) := by
  cases e with
  | rq m => exact goodC_pollWith hen n _ (fun n2 h2 => goodC_handleReceived hen n2 m h h2) hi
  | poll => exact goodC_pollWith hen n _ (fun n2 h2 => Or.inr h2) hi
  | tick ms => exact Or.inr (invC_st n _ rfl hi)
  | drv sc d => exact Or.inr (invC_st n _ rfl hi)
  | claim j => exact Or.inr (invC_st n _ (startAddressClaim_flavor _ _) hi)

theorem goodC_run {f : Flavor} {i : Nat} {v : Sched} (hen : v.isEnabled f = true) (h : Option Handler) :
    ∀ (evs : List Ev) (n : Node), InvC f i v n → GoodC f i v (run h n evs)
  | [], _, hi => Or.inr hi
  | e :: t, n, hi => by
    rcases goodC_step hen h n e hi with h1 | h1
    · exact Or.inl (SentC.left _ h1)
    · rcases goodC_run hen h t _ h1 with h2 | h2
      · exact Or.inl (SentC.right _ h2)
      · exact Or.inr h2

/-- the device's own turn: flagged and the configuration timer due, it sends (after the product-information step) -/
theorem sentC_pendingDev_self {f : Flavor} {i : Nat} {v : Sched} (hen : v.isEnabled f = true) (n : Node) (d : Dev)
    (hi : InvC f i v n) (hdue : v.isTime f n.st.now = true) (hd : n.st.devs[i]? = some d) : SentC i (pendingDev n i).2 := by
  obtain ⟨hf, x, hx, hv, hpn⟩ := hi
  have key1 : ∀ (a : Node × List OutMsg), Same n a.1 → InvC f i v a.1 →
      SentC i (a.2 ++ (match a.1.ext[i]? with
        | some x1 => if x1.pendConf.isTime a.1.st.flavor a.1.st.now then sendConfigurationInformation a.1 i else (a.1, [])
        | none => (a.1, [])).2) := by
    intro a hs hinv
    obtain ⟨hf', x', hx', hv', _⟩ := hinv
    obtain ⟨d', hd', _⟩ := same_source n a.1 hs i d hd
    apply SentC.right
    rw [hx']
    simp only [hv', hf', hs.1.2.1, hdue, ↓reduceIte]
    unfold sendConfigurationInformation
    rw [hd']
    exact ⟨⟨i, confOrNak d' a.1.conf⟩, List.mem_singleton.mpr rfl, rfl, d', a.1.conf, rfl⟩
  unfold pendingDev
  simp only [hx, hpn, ↓reduceIte, andThen]
  by_cases hp : x.pendProd.isTime n.st.flavor n.st.now = true
  · simp only [hp, ↓reduceIte]
    exact key1 _ (sendProductInformation_same n i) (invC_sendProductInformation hen n i ⟨hf, x, hx, hv, hpn⟩)
  · simp only [hp]
    exact key1 (n, []) (Same.refl n) ⟨hf, x, hx, hv, hpn⟩

theorem sentC_pendingAll {f : Flavor} {i : Nat} {v : Sched} (hen : v.isEnabled f = true) :
    ∀ (l : List Nat) (n : Node), i ∈ l → InvC f i v n → v.isTime f n.st.now = true →
      (∃ d, n.st.devs[i]? = some d) → SentC i (pendingAll l n).2
  | [], _, hm, _, _, _ => by simp at hm
  | j :: t, n, hm, hi, hdue, ⟨d, hd⟩ => by
    show SentC i ((pendingDev n j).2 ++ (pendingAll t (pendingDev n j).1).2)
    by_cases hji : j = i
    · subst hji; exact SentC.left _ (sentC_pendingDev_self hen n d hi hdue hd)
    · rcases goodC_pendingDev hen n j hi with h1 | h1
      · exact SentC.left _ h1
      · have hs := pendingDev_same n j
        have hm' : i ∈ t := by
          rcases List.mem_cons.mp hm with h | h
          · exact absurd h.symm hji
          · exact h
        obtain ⟨d', hd', _⟩ := same_source n _ hs i d hd
        exact SentC.right _ (sentC_pendingAll hen t _ hm' h1 (by rw [hs.1.2.1]; exact hdue) ⟨d', hd'⟩)

theorem sentC_poll {f : Flavor} {i : Nat} {v : Sched} (hen : v.isEnabled f = true) (n : Node) (act : Node → Node × List OutMsg)
    (hi : InvC f i v n) (hdue : v.isTime f n.st.now = true) (hd : ∃ d, n.st.devs[i]? = some d) :
    SentC i (pollWith n act).2 := by
  have hlen : i < n.st.devs.length := by
    obtain ⟨d, hd⟩ := hd
    rcases Nat.lt_or_ge i n.st.devs.length with h1 | h1
    · exact h1
    · rw [List.getElem?_eq_none h1] at hd; cases hd
  have := sentC_pendingAll hen (List.range n.st.devs.length)
    { n with st := { n.st with ring := (sendFrames n.st.ring n.st.drv).1, drv := (sendFrames n.st.ring n.st.drv).2.1 } }
    (List.mem_range.mpr hlen) (invC_st n _ rfl hi) hdue hd
  unfold pollWith
  exact SentC.left _ this

end N2k.IsoRequest
