import N2k.Lemmas.IsoRequestRun
import N2k.Props.C01
/-! One level below the message level: with an accepting driver and an empty send queue a single-frame message handed
to `SendMsg` is the next frame at the driver, with the identifier and payload C01 prescribes. -/
namespace N2k.IsoRequest
open N2k.Send N2k.Time

/-- the driver takes everything and nothing is waiting in the send queue -/
def Accepting (s : St) : Prop := s.ring.read = s.ring.write ∧ s.drv.script = [] ∧ s.drv.dflt = true

theorem sendFrame_accepting (r : Ring) (d : Drv) (f : Frame) (he : r.read = r.write) (hs : d.script = [])
    (hd : d.dflt = true) : sendFrame r d f = (r, { d with sent := d.sent ++ [f] }, true) := by
  have hc : r.cnt = 0 := by
    unfold Ring.cnt; rw [he]
    have : r.write + r.n - r.write = r.n := by omega
    rw [this]; exact Nat.mod_self _
  unfold sendFrame sendFrames
  simp [hc, sendFramesAux, Drv.send, hs, hd]

/-- **a single-frame message on an accepting node is on the bus at once** -/
theorem sendMsg_single_accepting (s : St) (m : Msg) (i : Nat) (d : Dev) (hd : s.devs[i]? = some d)
    (hsrc : d.source ≤ 251) (hdst : m.dst < 256) (hl : s.listenOnly = false)
    (hnc : (isAddressClaimStarted s.flavor s.now d).2 = false) (hacc : Accepting s)
    (hlen : m.len ≤ 8) (hsf : isFastPacketPGN s.lists m.pgn = false)
    (hpgn : m.pgn < 2^18) (hp0 : m.pgn ≠ 0) (hv : Spec.isPDU1 m.pgn = true → m.pgn % 256 = 0) :
    (sendMsg s m (some i)).2 = true ∧
    (sendMsg s m (some i)).1.drv.sent = s.drv.sent ++
      [⟨Spec.canId (m.prio % 8) m.pgn d.source (if m.pgn &&& 0xff ≠ 0 then 0xff else m.dst), m.len, m.data.take m.len⟩] ∧
    Accepting (sendMsg s m (some i)).1 ∧ (sendMsg s m (some i)).1.flavor = s.flavor ∧
    (sendMsg s m (some i)).1.now = s.now ∧ (sendMsg s m (some i)).1.listenOnly = s.listenOnly ∧
    (sendMsg s m (some i)).1.lists = s.lists := by
  have hes : C01.effSrc s m (some i) = d.source := by simp [C01.effSrc, hd]
  have hlt : i < s.devs.length := by
    rcases Nat.lt_or_ge i s.devs.length with h1 | h1
    · exact h1
    · rw [List.getElem?_eq_none h1] at hd; cases hd
  have hd' : (if m.pgn &&& 0xff ≠ 0 then 0xff else m.dst) < 256 := by split <;> omega
  have hid := C01.C01_id_layout m.prio m.pgn d.source _ hpgn (by omega) hd' hv
  have acc : C01.Accepted s m (some i) d (isAddressClaimStarted s.flavor s.now d).1 := by
    refine ⟨by simp; omega, by simpa using hd, ?_, ?_, hl, hp0, Or.inl (Prod.ext rfl hnc)⟩
    · rw [hes]; simp [Gen.maxCanBusAddress]; omega
    · rw [hes, hid.1]; exact Send.canId_pos _ _ _ _ hp0
  rw [C01.sendMsg_accepted s m (some i) d _ acc, hes, hid.1]
  unfold produce
  have hcond : m.len ≤ 8 ∧ ¬ (m.prio < 0x80 ∧
      isFastPacketPGN (C01.afterGate s (some i) (isAddressClaimStarted s.flavor s.now d).1).lists m.pgn = true) := by
    refine ⟨hlen, ?_⟩
    show ¬ (m.prio < 0x80 ∧ isFastPacketPGN s.lists m.pgn = true)
    rw [hsf]; simp
  rw [if_pos hcond]
  have hfr := sendFrame_accepting (C01.afterGate s (some i) (isAddressClaimStarted s.flavor s.now d).1).ring
    (C01.afterGate s (some i) (isAddressClaimStarted s.flavor s.now d).1).drv
    ⟨Spec.canId (m.prio % 8) m.pgn d.source (if m.pgn &&& 0xff ≠ 0 then 0xff else m.dst), m.len, m.data.take m.len⟩
    hacc.1 hacc.2.1 hacc.2.2
  rw [hfr]
  exact ⟨rfl, rfl, ⟨hacc.1, hacc.2.1, hacc.2.2⟩, rfl, rfl, rfl, rfl⟩

end N2k.IsoRequest
