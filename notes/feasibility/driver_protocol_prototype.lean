import Proto
partial def loop (h : IO.FS.Stream) (acc : Nat) : IO Unit := do
  let line ← h.getLine
  if line.isEmpty then return ()
  match line.trimAscii.toString.splitOn " " with
  | ["add", n] => match n.toNat? with
      | some k => IO.println s!"{acc + k}"; loop h (acc + k)
      | none => IO.println "bad-op"; loop h acc
  | _ => IO.println "bad-op"; loop h acc
def main : IO Unit := do loop (← IO.getStdin) 0
