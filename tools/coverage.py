#!/usr/bin/env python3
"""coverage.py [Cxx ...] - which lines and functions of /repo/src do the correspondence harnesses execute?

Builds every claimed property's harness (and its `extra` harnesses) from /repo/src with gcov instrumentation in a
scratch directory (removed afterwards), runs the quick tier once, and merges the line counts over all harnesses.
Writes coverage/summary.md (per file, and per property) and coverage/unexecuted_functions.txt.  This is a measure of
what the tie between model and code can see at all - it is not part of any check's verdict."""
import os, sys, json, glob, gzip, subprocess, tempfile, shutil, collections
VERIF = os.path.dirname(os.path.dirname(os.path.abspath(__file__)))
sys.path.insert(0, os.path.join(VERIF, 'tools'))
import registry, gen_spec  # noqa
SRC = '/repo/src'
T32 = ['-U__linux__', '-U__linux', '-Ulinux', '-DN2K_VERIF_T32=1']


def sh(cmd, **kw):
    return subprocess.run(cmd, stdout=subprocess.PIPE, stderr=subprocess.STDOUT, text=True, **kw)


def one(pid, spec, variant, work, seed, tier):
    d = os.path.join(work, '%s_%s_%s_%s' % (pid, spec['engine'], os.path.splitext(spec['harness'])[0], variant or 'd'))
    os.makedirs(d)
    flags = ['-std=c++11', '-O0', '-g', '--coverage', '-w', '-DN2K_VERIF_HOOKS=1'] + (T32 if variant == 't32' else []) + spec.get('cxxflags', [])
    flags = [f for f in flags if 'sanitize' not in f]
    srcs = [os.path.join(VERIF, 'harness', spec['harness'])] + [os.path.join(SRC, s) for s in spec.get('repo_srcs', [])]
    objs = []
    procs = []
    for s in srcs:
        o = os.path.join(d, os.path.basename(s) + '.o')
        objs.append(o)
        procs.append((s, subprocess.Popen(['g++'] + flags + ['-I' + SRC, '-I' + os.path.join(VERIF, 'harness'), '-I' + os.path.join(VERIF, 'build', 'gen'),
                                                       '-c', s, '-o', o], stdout=subprocess.PIPE, stderr=subprocess.STDOUT, text=True)))
    for s, p in procs:
        out, _ = p.communicate()
        if p.returncode != 0:
            print('compile failed', s, out[-500:]); return {}
    binp = os.path.join(d, 'h')
    r = sh(['g++'] + flags + objs + ['-o', binp] + spec.get('ldflags', []))
    if r.returncode != 0:
        print('link failed', r.stdout[-500:]); return {}
    out = os.path.join(d, 'run'); os.makedirs(out)
    try:
        subprocess.run([binp, out, str(seed), tier], stdout=subprocess.DEVNULL, stderr=subprocess.DEVNULL, timeout=3000)
    except subprocess.TimeoutExpired:
        print('timeout', pid, variant)
    cov = {}
    for s in [spec['harness']] + spec.get('repo_srcs', []):
        gcda = os.path.join(d, s + '.gcda')
        if not os.path.exists(gcda):
            continue
        r = subprocess.run(['gcov', '--json-format', '--stdout', '-o', d, os.path.join(d, s + '.o')], cwd=d, stdout=subprocess.PIPE, stderr=subprocess.DEVNULL)
        try:
            j = json.loads(r.stdout.decode().split('\n')[0])
        except Exception as e:
            print('gcov parse failed', s, e); continue
        for f in j.get('files', []):
            fn = os.path.realpath(os.path.join(d, f['file'])) if not os.path.isabs(f['file']) else os.path.realpath(f['file'])
            if not fn.startswith(SRC + '/'):
                continue
            rel = os.path.basename(fn)
            c = cov.setdefault(rel, {'lines': {}, 'funcs': {}})
            for ln in f['lines']:
                c['lines'][ln['line_number']] = max(c['lines'].get(ln['line_number'], 0), ln['count'])
            for fu in f['functions']:
                k = (fu['demangled_name'], fu['start_line'])
                c['funcs'][k] = max(c['funcs'].get(k, 0), fu['execution_count'])
    shutil.rmtree(d, ignore_errors=True)
    return cov


def merge(a, b):
    for f, c in b.items():
        t = a.setdefault(f, {'lines': {}, 'funcs': {}})
        for k, v in c['lines'].items():
            t['lines'][k] = max(t['lines'].get(k, 0), v)
        for k, v in c['funcs'].items():
            t['funcs'][k] = max(t['funcs'].get(k, 0), v)


def main():
    want = sys.argv[1:] or [l.strip() for l in open(os.path.join(VERIF, "tools", "claimed.txt")) if l.strip()]
    tier = os.environ.get('VERIF_TIER', 'quick'); seed = int(os.environ.get('VERIF_SEED', '1'))
    gen_spec.run()
    work = tempfile.mkdtemp(prefix='n2kcov_')
    total, per_prop = {}, {}
    jobs = []
    for pid in want:
        spec = registry.PROPS[pid]
        for sp in [spec] + spec.get('extra', []):
            for v in sp.get('variants', ['']):
                jobs.append((pid, sp, v))
    from concurrent.futures import ThreadPoolExecutor
    with ThreadPoolExecutor(max_workers=6) as ex:
        res = list(ex.map(lambda j: (j[0], one(j[0], j[1], j[2], work, seed, tier)), jobs))
    for pid, cov in res:
        merge(total, cov); merge(per_prop.setdefault(pid, {}), cov)
    shutil.rmtree(work, ignore_errors=True)
    outd = os.path.join(VERIF, 'coverage'); os.makedirs(outd, exist_ok=True)
    lines = ['# Lines of /repo/src executed by the correspondence harnesses (tier %s, seed %d, all timer builds merged)' % (tier, seed), '',
             'Generated by `python3 tools/coverage.py`; gcov line counts, instrumented -O0 build without sanitizers.', '',
             '| file | executable lines | executed | % | functions | never entered |', '|---|---|---|---|---|---|']
    tl = te = 0
    unexec = []
    for f in sorted(total):
        L = total[f]['lines']; n = len(L); e = sum(1 for v in L.values() if v > 0)
        F = total[f]['funcs']; nf = len(F); uf = sorted(k for k, v in F.items() if v == 0)
        tl += n; te += e
        lines.append('| %s | %d | %d | %.1f | %d | %d |' % (f, n, e, 100.0 * e / max(n, 1), nf, len(uf)))
        unexec += ['%s:%d %s' % (f, k[1], k[0]) for k in sorted(uf, key=lambda k: k[1])]
    lines.append('| **total** | %d | %d | %.1f | | |' % (tl, te, 100.0 * te / max(tl, 1)))
    lines += ['', '## Per property (lines executed in the files its harness links)', '', '| property | ' + ' | '.join(sorted(total)) + ' |',
              '|---|' + '---|' * len(total)]
    for pid in sorted(per_prop):
        row = []
        for f in sorted(total):
            c = per_prop[pid].get(f)
            row.append('%d' % sum(1 for v in c['lines'].values() if v > 0) if c else '')
        lines.append('| %s | %s |' % (pid, ' | '.join(row)))
    open(os.path.join(outd, 'summary.md'), 'w').write('\n'.join(lines) + '\n')
    open(os.path.join(outd, 'unexecuted_functions.txt'), 'w').write('\n'.join(unexec) + '\n')
    # unexecuted line ranges per file (compact)
    with open(os.path.join(outd, 'unexecuted_lines.txt'), 'w') as fo:
        for f in sorted(total):
            miss = sorted(k for k, v in total[f]['lines'].items() if v == 0)
            rng = []
            for m in miss:
                if rng and m - rng[-1][1] <= 1:
                    rng[-1][1] = m
                else:
                    rng.append([m, m])
            fo.write('%s: %s\n' % (f, ' '.join('%d-%d' % (a, b) if a != b else str(a) for a, b in rng)))
    print('\n'.join(lines[:len(total) + 8]))


if __name__ == '__main__':
    main()
