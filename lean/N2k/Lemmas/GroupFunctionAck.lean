import N2k.Model.GroupFunction
/-! Shape of the Acknowledge group function payload built by `startAck` / `addAckParam` (C09). -/
namespace N2k.GF
open N2k.Send

/-- payload of an Acknowledge for `pgn` announcing `pairs` parameter pairs, after `k` parameter error codes
have been added: the 6 byte header and `⌈k/2⌉` parameter bytes -/
def AckShape (data : List Nat) (pgn pairs k : Nat) : Prop :=
  ∃ hb ps, data = [2, pgn % 256, pgn / 256 % 256, pgn / 65536 % 256, hb, pairs] ++ ps ∧ ps.length = (k + 1) / 2

/-- a complete Acknowledge: function code 2, bytes 1..3 echo the PGN, byte 5 the number of parameter pairs,
`⌈pairs/2⌉` parameter bytes -/
def IsAckFor (data : List Nat) (pgn pairs : Nat) : Prop :=
  data.length = 6 + (pairs + 1) / 2 ∧ data.getD 0 0 = 2 ∧ data.getD 1 0 = pgn % 256 ∧ data.getD 2 0 = pgn / 256 % 256
    ∧ data.getD 3 0 = pgn / 65536 % 256 ∧ data.getD 5 0 = pairs

theorem AckShape.isAckFor {data : List Nat} {pgn pairs : Nat} (h : AckShape data pgn pairs pairs) :
    IsAckFor data pgn pairs := by
  obtain ⟨hb, ps, rfl, hl⟩ := h
  refine ⟨by simp [hl]; omega, ?_, ?_, ?_, ?_, ?_⟩ <;> simp

theorem startAck_shape (pgn pgnec tor pairs : Nat) : AckShape (startAck pgn pgnec tor pairs) pgn pairs 0 :=
  ⟨(pgnec ||| (tor <<< 4)) % 256, [], by simp [startAck, le3], rfl⟩

theorem addAckParam_shape {data : List Nat} {pgn pairs k : Nat} (h : AckShape data pgn pairs k) (ec : Nat) :
    AckShape (addAckParam data k ec) pgn pairs (k + 1) := by
  obtain ⟨hb, ps, rfl, hl⟩ := h
  unfold addAckParam
  by_cases hk : k % 2 = 0
  · rw [if_pos ⟨hk, by simp⟩]
    exact ⟨hb, ps ++ [(ec ||| 0xf0) % 256], by simp, by simp [hl]; omega⟩
  · rw [if_neg (fun hc => hk hc.1)]
    have hne : ps ≠ [] := by
      intro he; rw [he] at hl; simp at hl; omega
    rw [List.dropLast_append_of_ne_nil hne]
    have key : ∀ y, AckShape ([2, pgn % 256, pgn / 256 % 256, pgn / 65536 % 256, hb, pairs] ++ ps.dropLast ++ [y]) pgn pairs (k + 1) := by
      intro y
      refine ⟨hb, ps.dropLast ++ [y], by simp, ?_⟩
      have : ps.length ≥ 1 := List.length_pos_iff.mpr hne
      simp [List.length_dropLast]
      omega
    exact key _

theorem ackParams_shape (ec pgn pairs : Nat) : ∀ (n i : Nat) (data : List Nat), AckShape data pgn pairs i →
    AckShape (ackParams ec n i data) pgn pairs (i + n)
  | 0, _, _, h => by simpa [ackParams] using h
  | n + 1, i, data, h => by
    have := ackParams_shape ec pgn pairs n (i + 1) _ (addAckParam_shape h ec)
    simpa [ackParams, Nat.add_assoc, Nat.add_comm 1 n] using this

theorem sendAckData_isAckFor (pgn pgnec tor pairs ec : Nat) : IsAckFor (sendAckData pgn pgnec tor pairs ec) pgn pairs := by
  have := ackParams_shape ec pgn pairs pairs 0 _ (startAck_shape pgn pgnec tor pairs)
  rw [Nat.zero_add] at this
  exact this.isAckFor

/-- addressed request: the loop adds one error code per announced pair -/
theorem reqLoop_shape (step : Step) (m : Msg) (pgn pairs : Nat) : ∀ (n i idx : Nat) (mf inv : Bool) (aux : Nat) (ack : List Nat),
    AckShape ack pgn pairs i → AckShape (reqLoop step m false n i idx mf inv aux ack).2.2 pgn pairs (i + n)
  | 0, _, _, _, _, _, _, h => by simpa [reqLoop] using h
  | n + 1, i, idx, mf, inv, aux, ack, h => by
    unfold reqLoop
    rw [if_neg (by simp)]
    by_cases hi : inv = false
    · rw [if_pos hi]
      have := reqLoop_shape step m pgn pairs n (i + 1) (step m idx mf aux).idx (step m idx mf aux).mf (step m idx mf aux).invalid
        (step m idx mf aux).aux _ (addAckParam_shape h (step m idx mf aux).ec)
      simpa [Nat.add_assoc, Nat.add_comm 1 n] using this
    · rw [if_neg hi]
      have := reqLoop_shape step m pgn pairs n (i + 1) idx mf inv aux _ (addAckParam_shape h 2)
      simpa [Nat.add_assoc, Nat.add_comm 1 n] using this

theorem cmd60928Loop_shape (m : Msg) (pgn pairs : Nat) : ∀ (n i idx lo up si : Nat) (ack : List Nat),
    AckShape ack pgn pairs i → AckShape (cmd60928Loop m n i idx lo up si ack).2.2.2 pgn pairs (i + n)
  | 0, _, _, _, _, _, _, h => by simpa [cmd60928Loop] using h
  | n + 1, i, idx, lo, up, si, ack, h => by
    unfold cmd60928Loop
    have key : ∀ idx' lo' up' si' ec, AckShape (cmd60928Loop m n (i + 1) idx' lo' up' si' (addAckParam ack i ec)).2.2.2 pgn pairs (i + (n + 1)) := by
      intro idx' lo' up' si' ec
      have := cmd60928Loop_shape m pgn pairs n (i + 1) idx' lo' up' si' _ (addAckParam_shape h ec)
      simpa [Nat.add_assoc, Nat.add_comm 1 n] using this
    simp only []
    split <;> exact key _ _ _ _ _

theorem cmd126998Loop_shape (m : Msg) (pgn pairs : Nat) : ∀ (n i idx : Nat) (ws : List (Nat × List Nat)) (ack : List Nat),
    AckShape ack pgn pairs i → AckShape (cmd126998Loop m n i idx ws ack).2 pgn pairs (i + n)
  | 0, _, _, _, _, h => by simpa [cmd126998Loop] using h
  | n + 1, i, idx, ws, ack, h => by
    unfold cmd126998Loop
    have key : ∀ idx' ws' ec, AckShape (cmd126998Loop m n (i + 1) idx' ws' (addAckParam ack i ec)).2 pgn pairs (i + (n + 1)) := by
      intro idx' ws' ec
      have := cmd126998Loop_shape m pgn pairs n (i + 1) idx' ws' _ (addAckParam_shape h ec)
      simpa [Nat.add_assoc, Nat.add_comm 1 n] using this
    simp only []
    split <;> exact key _ _ _

end N2k.GF
