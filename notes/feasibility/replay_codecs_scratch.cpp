#include "NMEA2000.h"
#include "N2kMessages.h"
#include "N2kMaretron.h"
#include "Seasmart.h"
#include "ActisenseReader.h"
#include "N2kDeviceList.h"
#include <stdio.h>
#include <string.h>
#include <vector>
#include <stdlib.h>
struct MemStream: public N2kStream { std::vector<uint8_t> in,out; size_t rp=0;
 int read() override { return rp<in.size()? in[rp++]:-1;} int peek() override {return rp<in.size()? in[rp]:-1;}
 size_t write(const uint8_t*d,size_t n) override { out.insert(out.end(),d,d+n); return n;} };
int main(int argc,char**argv){
  int t=atoi(argv[1]);
  if(t==1){ tN2kMsg m; SetN2kPGN126993(m,60000,5); printf("hb field=%u\n", m.Data[0]|m.Data[1]<<8); SetN2kPGN126993(m,100000,5); printf("hb 100000 field=%u\n", m.Data[0]|m.Data[1]<<8);}
  if(t==2){ tN2kMsg m; SetN2kPGN127751(m,1,12.0,-5.0,1); unsigned char i,s; double v,c; ParseN2kPGN127751(m,i,v,c,s); printf("current=%f\n",c);}
  if(t==3){ tN2kMsg m; m.SetPGN(130000); m.Priority=3; m.Source=1; m.Destination=255; for(int i=0;i<100;i++) m.AddByte(0x10); m.MsgTime=1; MemStream s; m.SendInActisenseFormat(&s); printf("act len=%zu first=%02x %02x\n", s.out.size(), s.out[0], s.out[1]);
     tActisenseReader r; MemStream s2; s2.in=s.out; r.SetReadStream(&s2); tN2kMsg o; bool ok=r.GetMessageFromStream(o); printf("read ok=%d len=%d\n",ok,o.DataLen);}
  if(t==4){ const char*src="$PCDIN"; char*b=(char*)malloc(7); memcpy(b,src,7); uint32_t ts; tN2kMsg m; bool ok=SeasmartToN2k(b,ts,m); printf("ok=%d\n",ok); free(b);}
  if(t==5){ const char*src="$PCDIN,01F119"; size_t n=strlen(src)+1; char*b=(char*)malloc(n); memcpy(b,src,n); uint32_t ts; tN2kMsg m; bool ok=SeasmartToN2k(b,ts,m); printf("ok=%d\n",ok); free(b);}
  if(t==6){ // actisense reader overflow
     std::vector<uint8_t> f={0x10,0x02,0x93,255}; uint8_t sum=0x93+255; 
     std::vector<uint8_t> body; body.push_back(3); body.push_back(0);body.push_back(0xf1);body.push_back(1); body.push_back(255); body.push_back(1); for(int i=0;i<4;i++)body.push_back(0); body.push_back(8); while(body.size()<255) body.push_back(0x41);
     for(auto b:body){ f.push_back(b); sum+=b;} f.push_back((uint8_t)(256-sum)); if(f.back()==0x10) f.push_back(0x10); f.push_back(0x10); f.push_back(0x03);
     tActisenseReader r; MemStream s2; s2.in=f; r.SetReadStream(&s2); tN2kMsg*o=new tN2kMsg; bool ok=r.GetMessageFromStream(*o); printf("read ok=%d len=%d\n",ok,o->DataLen); delete o;}
  if(t==7){ tN2kMsg m; SetN2kPGN127507(m,1,2,N2kCS_Bulk,N2kCM_Standalone,N2kOnOff_On,N2kOnOff_Off,100); unsigned char a,b; tN2kChargeState cs; tN2kChargerMode cm; tN2kOnOff e,ep; double tr; ParseN2kPGN127507(m,a,b,cs,cm,e,ep,tr); printf("tr=%f\n",tr);}
  if(t==8){ tN2kMsg m; m.SetPGN(130000); m.AddVarStr("\xC3\xA9\xE2"); printf("len=%d\n",m.DataLen);} 
  if(t==9){ char*s=(char*)malloc(4); s[0]=(char)0xC3; s[1]=(char)0xA9; s[2]=(char)0xE2; s[3]=0; tN2kMsg m; m.SetPGN(130000); m.AddVarStr(s); printf("len=%d\n",m.DataLen); free(s);} 
  return 0; }
