import N2k.Model.IsoRequest
import Driver.Engines.Send
-- engine: isorq
/-! Engine `isorq` (C08): runs `pollRq` / `handleISORequest` of `Model/IsoRequest.lean` composed with `Send.sendMsg`. -/
namespace Driver.IsoRequest
open N2k.Send N2k.Time N2k.IsoRequest Driver Driver.Send

def ascii (s : String) : List Nat := s.toList.map Char.toNat

/-- `DefProductInformation` (PROGMEM) -/
def defProduct : Product :=
  { version := 2101, code := 666, modelID := ascii "Arduino N2k->PC", swCode := ascii "1.0.0.0",
    modelVersion := ascii "1.0.0", serial := ascii "00000001", cert := 0, load := 1, progmem := true }

/-- the constructor's `SetProgmemConfigurationInformation(Def…)` -/
def defConfig : Config :=
  { manuf := some (ascii "NMEA2000 library, https://github.com/ttlappalainen/NMEA2000"), inst1 := some [], inst2 := some [] }

/-- configuration collected between `new` and `open` -/
structure Stage where
  flavor : Flavor
  mode : Nat
  ndev : Nat
  prods : List (Option Product)
  conf : Config
  tx : List (List Nat)
  rx : List (List Nat)

structure Eng where
  stage : Stage
  node : Option Node := none
  handler : Option Handler := none

def marker (p r i : Nat) : Msg :=
  { prio := 6, pgn := 65330, src := 15, dst := 255, len := 8,
    data := [p % 256, (p >>> 8) % 256, (p >>> 16) % 256, r % 256, i % 256, 0xA5, 0x5A, 0xC3] }

def mkHandler (acceptListed : Bool) (l : List Nat) : Handler :=
  let acc := fun (p : Nat) => if acceptListed then l.contains p else !l.contains p
  { accept := fun p _ _ => acc p, sends := fun p r i => if acc p then [marker p r i] else [] }

def optStr (s : String) : Option (Option (List Nat)) :=
  if s = "null" then some none else (hexBytes? s).map some

def out (e : Eng) (n : Node) (fr : List Frame) : Option Eng × String :=
  (some { e with node := some n }, s!"- {framesStr fr}")

def runPoll (e : Eng) (n : Node) (rq : Option Msg) : Option Eng × String :=
  let r := pollRq n rq e.handler
  let (s', fr) := takeSent r.1.st
  out e { r.1 with st := s' } fr

def step (st : Option Eng) (w : List String) : Option Eng × String :=
  match w with
  | ["new", fl, _q, mode, ndev, _origin] =>
    match nat? mode, nat? ndev with
    | some mode, some ndev =>
      let f := if fl = "t32" then Flavor.t32 else Flavor.t64
      (some { stage := { flavor := f, mode := mode, ndev := ndev,
                         prods := (List.range ndev).map (fun i => if i = 0 then some defProduct else none),
                         conf := defConfig, tx := List.replicate ndev [], rx := List.replicate ndev [] } }, "ok")
    | _, _ => (st, "bad-op")
  | _ =>
  match st with
  | none => (st, "bad-op")
  | some e =>
    let sg := e.stage
    match w with
    | "open" :: q :: now :: devs =>
      match nat? q, nat? now, devs.mapM (parseDev sg.flavor) with
      | some q, some now, some ds =>
        let ds := (ds.zip (List.range ds.length)).map fun di => { di.1 with txList := sg.tx.getD di.2 [] }
        let s : St := { flavor := sg.flavor, now := now, listenOnly := sg.mode == 0, claimMode := sg.mode == 1 || sg.mode == 2,
                        lists := {}, devs := ds,
                        ring := { n := q, buf := fun _ => emptyFrame, read := 0, write := 0 },
                        drv := { script := [], dflt := true, sent := [] } }
        let ext := (List.range ds.length).map fun i =>
          ({ rxList := sg.rx.getD i [], prod := sg.prods.getD i none,
             pendProd := Sched.disabled sg.flavor, pendConf := Sched.disabled sg.flavor } : DevX)
        (some { e with node := some { st := s, ext := ext, conf := sg.conf } }, "ok")
      | _, _, _ => (st, "bad-op")
    | ["prod", d, kind, ver, code, a, b, c, sn, cert, load] =>
      match e.node, nat? d, nat? ver, nat? code, hexBytes? a, hexBytes? b, hexBytes? c, hexBytes? sn, nat? cert, nat? load with
      | none, some d, some ver, some code, some a, some b, some c, some sn, some cert, some load =>
        if d ≥ sg.ndev then (st, "bad-op") else
        let p : Product :=
          if kind = "pgm" then
            { version := ver, code := code, modelID := a, swCode := b, modelVersion := c, serial := sn,
              cert := cert, load := load, progmem := true }
          else   -- tProductInformation::Set: defaults, SetCharBuf keeps 32 characters
            { version := if ver = 0xffff then 2101 else ver, code := code,
              modelID := (cstr a).take 32, swCode := (cstr b).take 32, modelVersion := (cstr c).take 32,
              serial := (cstr sn).take 32, cert := if cert = 0xff then 0 else cert,
              load := if load = 0xff then 1 else load, progmem := false }
        (some { e with stage := { sg with prods := sg.prods.set d (some p) } }, "ok")
      | _, _, _, _, _, _, _, _, _, _ => (st, "bad-op")
    | ["conf", kind, m, i1, i2] =>
      match e.node, optStr m, optStr i1, optStr i2 with
      | none, some m, some i1, some i2 =>
        -- SetConfigurationInformation copies at most 70 characters; the PROGMEM variant keeps the pointers
        let cut := fun (s : Option (List Nat)) => if kind = "pgm" then s else s.map fun x => (cstr x).take 70
        (some { e with stage := { sg with conf := { manuf := cut m, inst1 := cut i1, inst2 := cut i2 } } }, "ok")
      | _, _, _, _ => (st, "bad-op")
    | "txlist" :: d :: pgns =>
      match nat? d, natList? pgns with
      | some d, some ps =>
        if d ≥ sg.ndev then (st, "bad-op") else
        let e1 := { e with stage := { sg with tx := sg.tx.set d ps } }
        match e.node with
        | none => (some e1, "ok")
        | some n =>
          match n.st.devs[d]? with
          | some dv => (some { e1 with node := some { n with st := { n.st with devs := n.st.devs.set d { dv with txList := ps } } } }, "ok")
          | none => (some e1, "ok")
      | _, _ => (st, "bad-op")
    | "rxlist" :: d :: pgns =>
      match nat? d, natList? pgns with
      | some d, some ps =>
        if d ≥ sg.ndev then (st, "bad-op") else
        let e1 := { e with stage := { sg with rx := sg.rx.set d ps } }
        match e.node with
        | none => (some e1, "ok")
        | some n =>
          match n.ext[d]? with
          | some x => (some { e1 with node := some { n with ext := n.ext.set d { x with rxList := ps } } }, "ok")
          | none => (some e1, "ok")
      | _, _ => (st, "bad-op")
    | "handler" :: k :: pgns =>
      if k = "none" then (some { e with handler := none }, "ok") else
      match natList? pgns with
      | some ps => (some { e with handler := some (mkHandler (k == "accept") ps) }, "ok")
      | none => (st, "bad-op")
    | ["t", ms] =>
      match nat? ms, e.node with
      | some k, some n => (some { e with node := some { n with st := { n.st with now := n.st.now + k } } }, "ok")
      | some _, none => (st, "ok")
      | none, _ => (st, "bad-op")
    | ["sweep", _, _, _] => (st, if e.node.isSome then "ok" else "bad-op")
    | _ =>
    match e.node with
    | none => (st, "bad-op")
    | some n =>
      match w with
      | ["acc", bits] =>
        (some { e with node := some { n with st := { n.st with drv := { n.st.drv with script := n.st.drv.script ++ bits.toList.map (· == '1') } } } }, "ok")
      | ["accdef", b] => (some { e with node := some { n with st := { n.st with drv := { n.st.drv with dflt := b == "1" } } } }, "ok")
      | ["poll"] => runPoll e n none
      | ["claim", d] =>
        match nat? d with
        | some d =>
          if d ≥ n.st.devs.length then (st, "bad-op") else
          let (s', fr) := takeSent (startAddressClaim n.st d)
          out e { n with st := s' } fr
        | none => (st, "bad-op")
      | ["aclaim", src, nm] =>
        match nat? src, hexNat? nm with
        | some src, some nm =>
          let r := pollClaim n (src % 256) nm
          let (s', fr) := takeSent r.1.st
          out e { r.1 with st := s' } fr
        | _, _ => (st, "bad-op")
      | ["rq", r, dst, p] =>
        match nat? r, nat? dst, nat? p with
        | some r, some dst, some p =>
          let p := p % 16777216
          runPoll e n (some { prio := 6, pgn := 59904, src := r % 256, dst := dst % 256, len := 3, data := le3 p })
        | _, _, _ => (st, "bad-op")
      | ["rqraw", r, dst, len, hx] =>
        match nat? r, nat? dst, nat? len, hexBytes? hx with
        | some r, some dst, some len, some d =>
          let d := (d ++ List.replicate (8 - d.length) 0xAA).take 8
          runPoll e n (some { prio := 6, pgn := 59904, src := r % 256, dst := dst % 256, len := min len 8, data := d })
        | _, _, _, _ => (st, "bad-op")
      | _ => (st, "bad-op")

def main : IO Unit := loop step none

end Driver.IsoRequest
