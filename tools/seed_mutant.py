#!/usr/bin/env python3
"""seed_mutant.py <Cxx> <worktree> <n> [extra props...]
Confirm a seeded change produced by an independent sub-agent (worktree/_out/m<n>.diff, demo<n>.cpp, build<n>.sh):
 the demo fails with the change and passes without it, the change compiles and the repository's tests pass with it;
 then run the property's check against a scratch copy with the change and store everything under seeded/<Cxx>_<n>/."""
import os, sys, subprocess, json, shutil, re
VERIF = os.path.dirname(os.path.dirname(os.path.abspath(__file__)))
pid, wt, n = sys.argv[1], sys.argv[2], sys.argv[3]
extra = sys.argv[4:]
out = os.path.join(wt, '_out')
diff = os.path.join(out, 'm%s.diff' % n)


def sh(cmd, cwd=wt, timeout=1200):
    r = subprocess.run(cmd, shell=True, cwd=cwd, stdout=subprocess.PIPE, stderr=subprocess.STDOUT, text=True, timeout=timeout)
    return r.returncode, r.stdout


res = {'property': pid, 'mutant': n}
sh('git checkout -- src')
build = open(os.path.join(out, 'build%s.sh' % n)).read().strip().split('\n')[-1]
rc, o = sh(build); rc0, o0 = sh('./_out/demo%s' % n if os.path.exists(os.path.join(out, 'demo%s' % n)) else './demo%s' % n)
demo_bin = None
for cand in ('_out/demo%s' % n, 'demo%s' % n, '_out/demo', 'demo'):
    if os.path.exists(os.path.join(wt, cand)):
        demo_bin = cand; break
rc0, o0 = sh('./' + demo_bin) if demo_bin else (-1, 'no demo binary: ' + o[-300:])
res['demo_on_original_exit'] = rc0
rc, o = sh('git apply %s' % diff)
res['patch_applies'] = rc == 0
rc, o = sh(build); res['compiles_with_change'] = rc == 0
rc1, o1 = sh('./' + demo_bin) if demo_bin else (-1, '')
res['demo_with_change_exit'] = rc1; res['demo_with_change_output'] = o1[-600:]
rc, o = sh('cmake -S . -B _b -G Ninja >/dev/null && cmake --build _b >/dev/null 2>&1 && ctest --test-dir _b 2>&1 | tail -3')
res['repo_tests_with_change'] = o.strip()[-200:]; res['repo_tests_pass'] = '100% tests passed' in o
sh('git checkout -- src; rm -rf _b ' + (demo_bin or ''))
r = subprocess.run([sys.executable, os.path.join(VERIF, 'tools', 'mutant_eval.py'), diff, pid] + extra, stdout=subprocess.PIPE, stderr=subprocess.STDOUT, text=True)
res['checks'] = r.stdout.strip().split('\n')
res['caught_by'] = sorted(set(re.findall(r'VIOLATION property=(\w+)', r.stdout)))
res['caught_with_concrete_input'] = any('VIOLATION' in l and 'no-failing-input-found' not in l for l in r.stdout.split('\n'))
# keep the first replay of each catching check as an example
dst = os.path.join(VERIF, 'seeded', '%s_%s%s' % (pid, os.environ.get('SEED_TAG', ''), n))
os.makedirs(dst, exist_ok=True)
shutil.copy(diff, os.path.join(dst, 'patch.diff'))
shutil.copy(os.path.join(out, 'demo%s.cpp' % n), os.path.join(dst, 'demo.cpp'))
shutil.copy(os.path.join(out, 'build%s.sh' % n), os.path.join(dst, 'build.sh'))
notes = open(os.path.join(out, 'notes.md')).read() if os.path.exists(os.path.join(out, 'notes.md')) else ''
res['needs_to_manifest'] = notes[:3000]
m = re.search(r'VIOLATION property=\w+ replay=(\S+)', r.stdout)
if m and os.path.exists(os.path.join(VERIF, m.group(1))):
    shutil.copy(os.path.join(VERIF, m.group(1)), os.path.join(dst, 'example_replay.json'))
json.dump(res, open(os.path.join(dst, 'meta.json'), 'w'), indent=1)
ok = res['demo_on_original_exit'] == 0 and res['demo_with_change_exit'] not in (0, -1) and res['repo_tests_pass']
print('%s m%s: confirmed=%s caught_by=%s' % (pid, n, ok, res['caught_by']))
for l in res['checks']:
    print('   ', l[:180])
shutil.rmtree(os.path.join(VERIF, 'replays', pid), ignore_errors=True)
