import N2k.Model.ClaimRx
import N2k.Lemmas.HeartbeatShiftSend
import N2k.Lemmas.Time32Rx
/-!
# Clock-origin shift of the address-claim instance (C13)

`Model/Claim.lean` (C03) is the send-path state `St` plus two application latches; its only timers are those of the send
model (`OpenScheduler`: 200 / 1000 ms, `AddressClaimTimer`: 250 ms). `Inst.shift k` shifts the `St` (`St.shift`). Every
operation of the claim instance commutes with the shift under the hypotheses of the send model: `ClockOk` (no `FromNow`
of 200, 250 or 1000 ms lands on the all-ones value at this clock in either run; 64-bit: clock + k + 1000 < 2^64 - 1) and
`St.ShiftOk` (no stored deadline does). `ClaimRx.Node` adds the receive slots of `Model/Rx.lean`, which need no hypothesis.
-/
namespace N2k.Claim
open N2k.Send N2k.Time

def Inst.shift (k : Nat) (x : Inst) : Inst := { x with s := x.s.shift k }

/-- what the shift lemmas say about an operation `g` at instance `x` -/
def IComm (k : Nat) (g : Inst → Inst) (x : Inst) : Prop :=
  g (x.shift k) = (g x).shift k ∧ (g x).s.ShiftOk k ∧ (g x).s.now = x.s.now ∧ (g x).s.flavor = x.s.flavor

/-- hypotheses of one step -/
def Hyp (k : Nat) (x : Inst) : Prop := ClockOk x.s.flavor k x.s.now ∧ x.s.ShiftOk k

theorem IComm.hyp {k : Nat} {g : Inst → Inst} {x : Inst} (h : Hyp k x) (c : IComm k g x) : Hyp k (g x) :=
  ⟨by rw [c.2.2.1, c.2.2.2]; exact h.1, c.2.1⟩

theorem IComm.id' {k : Nat} {x : Inst} (h : Hyp k x) : IComm k (fun x => x) x := ⟨rfl, h.2, rfl, rfl⟩

theorem IComm.comp {k : Nat} {g1 g2 : Inst → Inst} {x : Inst} (h : Hyp k x) (c1 : IComm k g1 x)
    (c2 : Hyp k (g1 x) → IComm k g2 (g1 x)) : IComm k (fun x => g2 (g1 x)) x := by
  obtain ⟨e2, o2, n2, f2⟩ := c2 (c1.hyp h)
  obtain ⟨e1, o1, n1, f1⟩ := c1
  exact ⟨by show g2 (g1 (x.shift k)) = _; rw [e1, e2], o2, n2.trans n1, f2.trans f1⟩

theorem foldl_icomm {α : Type} {k : Nat} (f : Inst → α → Inst)
    (hf : ∀ a x, Hyp k x → IComm k (fun x => f x a) x) (l : List α) :
    ∀ x, Hyp k x → IComm k (fun x => l.foldl f x) x := by
  induction l with
  | nil => intro x h; exact IComm.id' h
  | cons a t ih =>
    intro x h
    have := IComm.comp h (hf a x h) (fun h' => ih _ h')
    exact this

theorem devs_get_shift (k : Nat) (x : Inst) (i : Nat) :
    (x.shift k).s.devs[i]? = (x.s.devs[i]?).map (Dev.shift x.s.flavor k) := by simp [Inst.shift, St.shift]

theorem siblings_shift (f : Flavor) (k : Nat) (devs : List Dev) (i : Nat) :
    siblings (devs.map (Dev.shift f k)) i = siblings devs i := by
  unfold siblings
  induction devs generalizing i with
  | nil => rfl
  | cons d t ih =>
    cases i with
    | zero => simp only [List.map_cons, List.eraseIdx_cons_zero, List.map_map]; rfl
    | succ j => simp only [List.map_cons, List.eraseIdx_cons_succ]; rw [ih j]; rfl

theorem findSourceDev_shift (f : Flavor) (k : Nat) (devs : List Dev) (src : Nat) :
    findSourceDev (devs.map (Dev.shift f k)) src = findSourceDev devs src := by
  unfold findSourceDev
  congr 1
  induction devs with
  | nil => rfl
  | cons d t ih => simp only [List.map_cons, List.findIdx?_cons]; rw [ih]; rfl

/-- an instance with device `i` replaced -/
def Inst.withDev (x : Inst) (i : Nat) (d : Dev) : Inst := { x with s := x.s.withDev i d }

theorem Inst.withDev_shift (k : Nat) (x : Inst) (i : Nat) (d : Dev) :
    (x.withDev i d).shift k = (x.shift k).withDev i (d.shift x.s.flavor k) := by
  unfold Inst.withDev Inst.shift
  simp only [St.withDev_shift]

theorem getNextAddress_eq (x : Inst) (i : Nat) (r : Bool) :
    getNextAddress x i r =
      match x.s.devs[i]? with
      | none => x
      | some d =>
        if (search r (siblings x.s.devs i) searchFuel d.source d.endSource).done then
          { x.withDev i { d with source := (search r (siblings x.s.devs i) searchFuel d.source d.endSource).source,
                                 endSource := (search r (siblings x.s.devs i) searchFuel d.source d.endSource).endSource } with
            addressChanged := x.addressChanged || (search r (siblings x.s.devs i) searchFuel d.source d.endSource).changed }
        else x := rfl

theorem getNextAddress_comm {k : Nat} {x : Inst} (i : Nat) (r : Bool) (h : Hyp k x) :
    IComm k (fun x => getNextAddress x i r) x := by
  unfold IComm
  dsimp only
  rw [getNextAddress_eq, getNextAddress_eq, devs_get_shift]
  cases hd : x.s.devs[i]? with
  | none => exact ⟨rfl, h.2, rfl, rfl⟩
  | some d =>
    simp only [Option.map_some]
    have e1 : (x.shift k).s.devs = x.s.devs.map (Dev.shift x.s.flavor k) := rfl
    have e2 : (d.shift x.s.flavor k).source = d.source := rfl
    have e3 : (d.shift x.s.flavor k).endSource = d.endSource := rfl
    rw [e1, siblings_shift, e2, e3]
    generalize search r (siblings x.s.devs i) searchFuel d.source d.endSource = sr
    have hdk : d.claimTimer.ShiftOk x.s.flavor k := h.2.2 d (List.mem_of_getElem? hd)
    by_cases hdone : sr.done = true
    · simp only [if_pos hdone]
      refine ⟨?_, St.withDev_ok h.2 hdk, rfl, rfl⟩
      have : ({ d.shift x.s.flavor k with source := sr.source, endSource := sr.endSource } : Dev) =
          Dev.shift x.s.flavor k { d with source := sr.source, endSource := sr.endSource } := rfl
      rw [this, ← Inst.withDev_shift]
      rfl
    · simp only [if_neg hdone]; exact ⟨by triv, h.2, by triv, by triv⟩

/-- lifting a commuting `St` transformer to the instance -/
theorem icomm_of_st {k : Nat} {x : Inst} (g : St → St)
    (c : g (x.s.shift k) = (g x.s).shift k ∧ (g x.s).ShiftOk k ∧ (g x.s).now = x.s.now ∧ (g x.s).flavor = x.s.flavor) :
    IComm k (fun x => { x with s := g x.s }) x := by
  obtain ⟨e, o, n, f⟩ := c
  refine ⟨?_, o, n, f⟩
  show ({ x.shift k with s := g (x.s.shift k) } : Inst) = _
  rw [e]; rfl

theorem sendClaim_comm {k : Nat} {x : Inst} (i : Nat) (h : Hyp k x) :
    IComm k (fun x => { x with s := sendClaim x.s i }) x := by
  apply icomm_of_st (fun s => sendClaim s i)
  unfold sendClaim
  have eg : (x.s.shift k).devs[i]? = (x.s.devs[i]?).map (Dev.shift x.s.flavor k) := by simp [St.shift]
  rw [eg]
  cases hd : x.s.devs[i]? with
  | none => exact ⟨rfl, h.2, rfl, rfl⟩
  | some d =>
    simp only [Option.map_some]
    have ec : claimMsg (d.shift x.s.flavor k) = claimMsg d := rfl
    rw [ec]
    obtain ⟨e, o, n, f, _⟩ := sendMsg_shift (claimMsg d) (some i) h.1 h.2
    exact ⟨by rw [e], o, n, f⟩

theorem startClaim_comm {k : Nat} {x : Inst} (i : Nat) (h : Hyp k x) :
    IComm k (fun x => { x with s := startAddressClaim x.s i }) x := by
  apply icomm_of_st (fun s => startAddressClaim s i)
  obtain ⟨e, o, n, f, _⟩ := startAddressClaim_shift i h.1 h.2
  exact ⟨e, o, n, f⟩

theorem loseAddress_eq (x : Inst) (i : Nat) (d : Dev) (cn : Nat) :
    loseAddress x i d cn =
      if d.name = cn then
        if (isAddressClaimStarted x.s.flavor x.s.now d).2 then
          { x.withDev i { (isAddressClaimStarted x.s.flavor x.s.now d).1 with name := bumpInstance d.name } with
            devInfoChanged := true }
        else getNextAddress (x.withDev i (isAddressClaimStarted x.s.flavor x.s.now d).1) i false
      else getNextAddress x i false := rfl

theorem withDev_hyp {k : Nat} {x : Inst} {i : Nat} {d : Dev} (h : Hyp k x) (hd : d.claimTimer.ShiftOk x.s.flavor k) :
    Hyp k (x.withDev i d) := ⟨h.1, St.withDev_ok h.2 hd⟩

/-- `loseAddress` for the device entry `d` of the original run and `d.shift` of the shifted run -/
theorem loseAddress_comm {k : Nat} {x : Inst} (i : Nat) (d : Dev) (cn : Nat) (h : Hyp k x)
    (hd : d.claimTimer.ShiftOk x.s.flavor k) :
    loseAddress (x.shift k) i (d.shift x.s.flavor k) cn = (loseAddress x i d cn).shift k ∧
    (loseAddress x i d cn).s.ShiftOk k ∧ (loseAddress x i d cn).s.now = x.s.now ∧
    (loseAddress x i d cn).s.flavor = x.s.flavor := by
  rw [loseAddress_eq, loseAddress_eq]
  have e1 : (d.shift x.s.flavor k).name = d.name := rfl
  have e2 : (x.shift k).s.flavor = x.s.flavor := rfl
  have e3 : (x.shift k).s.now = x.s.now + k := rfl
  obtain ⟨ea, eo⟩ := isAddressClaimStarted_shift (now := x.s.now) h.1 hd
  rw [e1, e2, e3, ea]
  by_cases hn : d.name = cn
  · simp only [if_pos hn]
    by_cases hc : (isAddressClaimStarted x.s.flavor x.s.now d).2 = true
    · simp only [if_pos hc]
      refine ⟨?_, St.withDev_ok h.2 eo, rfl, rfl⟩
      have : ({ (isAddressClaimStarted x.s.flavor x.s.now d).1.shift x.s.flavor k with name := bumpInstance d.name } : Dev) =
          Dev.shift x.s.flavor k { (isAddressClaimStarted x.s.flavor x.s.now d).1 with name := bumpInstance d.name } := rfl
      rw [this, ← Inst.withDev_shift]; rfl
    · simp only [if_neg hc]
      rw [← Inst.withDev_shift]
      exact getNextAddress_comm i false (withDev_hyp h eo)
  · simp only [if_neg hn]; exact getNextAddress_comm i false h

theorem handleClaim_comm {k : Nat} {x : Inst} (src cn : Nat) (h : Hyp k x) :
    IComm k (fun x => handleClaim x src cn) x := by
  unfold IComm handleClaim
  dsimp only
  by_cases h0 : src = Gen.nullCanBusAddress
  · simp only [if_pos h0]; exact ⟨by triv, h.2, by triv, by triv⟩
  · simp only [if_neg h0]
    have e1 : (x.shift k).s.devs = x.s.devs.map (Dev.shift x.s.flavor k) := rfl
    rw [e1, findSourceDev_shift]
    cases hf : findSourceDev x.s.devs src with
    | none => exact ⟨rfl, h.2, rfl, rfl⟩
    | some i =>
      simp only
      rw [List.getElem?_map]
      cases hd : x.s.devs[i]? with
      | none => exact ⟨rfl, h.2, rfl, rfl⟩
      | some d =>
        simp only [Option.map_some]
        have e2 : (d.shift x.s.flavor k).name = d.name := rfl
        rw [e2]
        by_cases hl : d.name < cn
        · simp only [if_pos hl]; exact sendClaim_comm i h
        · simp only [if_neg hl]
          have hdk : d.claimTimer.ShiftOk x.s.flavor k := h.2.2 d (List.mem_of_getElem? hd)
          obtain ⟨le, lo, ln, lf⟩ := loseAddress_comm i d cn h hdk
          rw [le]
          have hl' : Hyp k (loseAddress x i d cn) := ⟨by rw [ln, lf]; exact h.1, lo⟩
          obtain ⟨se, so, sn, sf⟩ := startClaim_comm i hl'
          exact ⟨se, so, sn.trans ln, sf.trans lf⟩

theorem cmdOne_eq (x : Inst) (name newAddr i : Nat) :
    cmdOne x name newAddr i =
      if newAddr = 255 then x else
      match x.s.devs[i]? with
      | none => x
      | some d =>
        if d.name = name ∧ d.source ≠ newAddr then
          if (siblings x.s.devs i).contains newAddr then x else
          { x with s := startAddressClaim (x.s.withDev i (Dev.setTimer { d with source := newAddr, endSource := updEnd newAddr } d.claimTimer)) i,
                   addressChanged := true }
        else x := rfl

theorem cmdOne_comm {k : Nat} {x : Inst} (name newAddr i : Nat) (h : Hyp k x) :
    IComm k (fun x => cmdOne x name newAddr i) x := by
  unfold IComm
  dsimp only
  rw [cmdOne_eq, cmdOne_eq]
  by_cases h0 : newAddr = 255
  · simp only [if_pos h0]; exact ⟨by triv, h.2, by triv, by triv⟩
  · simp only [if_neg h0]
    rw [devs_get_shift]
    cases hd : x.s.devs[i]? with
    | none => exact ⟨rfl, h.2, rfl, rfl⟩
    | some d =>
      simp only [Option.map_some]
      have e1 : (x.shift k).s.devs = x.s.devs.map (Dev.shift x.s.flavor k) := rfl
      have e2 : (d.shift x.s.flavor k).name = d.name := rfl
      have e3 : (d.shift x.s.flavor k).source = d.source := rfl
      rw [e1, siblings_shift, e2, e3]
      by_cases h1 : d.name = name ∧ d.source ≠ newAddr
      · simp only [if_pos h1]
        by_cases h2 : (siblings x.s.devs i).contains newAddr = true
        · simp only [if_pos h2]; exact ⟨by triv, h.2, by triv, by triv⟩
        · simp only [if_neg h2]
          have hdk : d.claimTimer.ShiftOk x.s.flavor k := h.2.2 d (List.mem_of_getElem? hd)
          obtain ⟨e, o, n, f, _⟩ := startAddressClaim_shift i
            (s := x.s.withDev i (Dev.setTimer { d with source := newAddr, endSource := updEnd newAddr } d.claimTimer)) h.1
            (St.withDev_ok h.2 hdk)
          refine ⟨?_, o, n, f⟩
          have e4 := (St.withDev_shift k x.s i (Dev.setTimer { d with source := newAddr, endSource := updEnd newAddr } d.claimTimer)).symm
          show ({ x.shift k with
                  s := startAddressClaim ((x.s.shift k).withDev i
                    (Dev.shift x.s.flavor k (Dev.setTimer { d with source := newAddr, endSource := updEnd newAddr } d.claimTimer))) i,
                  addressChanged := true } : Inst) = _
          rw [e4, e]; rfl
      · simp only [if_neg h1]; exact ⟨by triv, h.2, by triv, by triv⟩

theorem handleCommandedAddress_comm {k : Nat} {x : Inst} (dst name newAddr : Nat) (h : Hyp k x) :
    IComm k (fun x => handleCommandedAddress x dst name newAddr) x := by
  unfold IComm handleCommandedAddress
  dsimp only
  have e1 : (x.shift k).s.devs = x.s.devs.map (Dev.shift x.s.flavor k) := rfl
  rw [e1, findSourceDev_shift, List.length_map]
  by_cases h0 : dst ≠ 255 ∧ (findSourceDev x.s.devs dst).isNone = true
  · simp only [if_pos h0]; exact ⟨by triv, h.2, by triv, by triv⟩
  · simp only [if_neg h0]
    by_cases h1 : newAddr ≥ 252
    · simp only [if_pos h1]; exact ⟨by triv, h.2, by triv, by triv⟩
    · simp only [if_neg h1]
      cases hf : findSourceDev x.s.devs dst with
      | none => exact foldl_icomm (fun y i => cmdOne y name newAddr i) (fun a y hy => cmdOne_comm name newAddr a hy) _ x h
      | some i => exact cmdOne_comm name newAddr i h

theorem startOne_comm {k : Nat} {x : Inst} (i : Nat) (h : Hyp k x) : IComm k (fun x => startOne x i) x := by
  have c1 : IComm k (fun x => match x.s.devs[i]? with
      | some d => if d.source = Gen.nullCanBusAddress then getNextAddress x i true else x
      | none => x) x := by
    unfold IComm
    dsimp only
    rw [devs_get_shift]
    cases hd : x.s.devs[i]? with
    | none => exact ⟨rfl, h.2, rfl, rfl⟩
    | some d =>
      simp only [Option.map_some]
      have e3 : (d.shift x.s.flavor k).source = d.source := rfl
      rw [e3]
      by_cases hn : d.source = Gen.nullCanBusAddress
      · simp only [if_pos hn]; exact getNextAddress_comm i true h
      · simp only [if_neg hn]; exact ⟨by triv, h.2, by triv, by triv⟩
  exact IComm.comp h c1 (fun h' => startClaim_comm i h')

theorem startAddressClaimAll_comm {k : Nat} {x : Inst} (h : Hyp k x) : IComm k startAddressClaimAll x := by
  have := foldl_icomm startOne (fun a y hy => startOne_comm a hy) (List.range x.s.devs.length) x h
  unfold IComm startAddressClaimAll at *
  have el : (x.shift k).s.devs.length = x.s.devs.length := by simp [Inst.shift, St.shift]
  rw [el]; exact this

theorem restart_comm {k : Nat} {x : Inst} (h : Hyp k x) : IComm k restart x := startAddressClaimAll_comm h

/-- `Open()` of the claim instance -/
theorem openStep_comm {k : Nat} {x : Inst} (h : Hyp k x) : IComm k openStep x := by
  unfold IComm openStep
  dsimp only
  have e1 : (x.shift k).s.openState = x.s.openState := rfl
  have e2 : (x.shift k).s = x.s.shift k := rfl
  rw [e1, e2]
  -- the pre-state with os_None turned into os_OpenCAN commutes with the shift
  have e3 : (if x.s.openState = 0 then { x.s.shift k with openState := 1 } else x.s.shift k) =
      (if x.s.openState = 0 then { x.s with openState := 1 } else x.s).shift k := by
    by_cases h0 : x.s.openState = 0
    · simp only [if_pos h0]; rfl
    · simp only [if_neg h0]
  rw [e3]
  generalize hs0 : (if x.s.openState = 0 then { x.s with openState := 1 } else x.s) = s0
  have hs0f : s0.flavor = x.s.flavor ∧ s0.now = x.s.now ∧ s0.ShiftOk k := by
    rw [← hs0]; by_cases h0 : x.s.openState = 0
    · simp only [if_pos h0]; exact ⟨by triv, by triv, h.2⟩
    · simp only [if_neg h0]; exact ⟨by triv, by triv, h.2⟩
  have hc0 : ClockOk s0.flavor k s0.now := by rw [hs0f.1, hs0f.2.1]; exact h.1
  have e4 : (s0.shift k).openState = s0.openState := rfl
  have e5 : (s0.shift k).openSched = s0.openSched.shift s0.flavor k := rfl
  have e6 : (s0.shift k).flavor = s0.flavor := rfl
  have e7 : (s0.shift k).now = s0.now + k := rfl
  rw [e4, e5, e6, e7, Sched.isTime_shift hs0f.2.2.1 (clock64 hc0)]
  by_cases hb : s0.openState = 2 ∧ s0.openSched.isTime s0.flavor s0.now = true
  · simp only [if_pos hb]
    have hx1 : Hyp k { x with s := { s0 with openState := 3 } } := ⟨hc0, hs0f.2.2⟩
    obtain ⟨ea, oa, na, fa⟩ := startAddressClaimAll_comm hx1
    exact ⟨ea, oa, na.trans hs0f.2.1, fa.trans hs0f.1⟩
  · simp only [if_neg hb]
    obtain ⟨eo, oo, no, fo, _⟩ := Send.openStep_shift h.1 h.2
    refine ⟨?_, oo, no, fo⟩
    show ({ x.shift k with s := Send.openStep (x.s.shift k) } : Inst) = _
    rw [eo]; rfl

theorem rxFrame_comm {k : Nat} {x : Inst} (f : Frame) (h : Hyp k x) : IComm k (fun x => rxFrame x f) x := by
  unfold rxFrame
  dsimp only
  by_cases hp : (canIdToN2k f.id).2.1 = 60928
  · simp only [if_pos hp]; exact handleClaim_comm _ _ h
  · simp only [if_neg hp]; exact IComm.id' h

theorem rxOne_comm {k : Nat} {x : Inst} (r : Rx) (h : Hyp k x) : IComm k (fun x => rxOne x r) x := by
  cases r with
  | frame f => exact rxFrame_comm f h
  | cmd dst nm a => exact handleCommandedAddress_comm dst nm a h

/-- the devices after `IsAddressClaimStarted` has been evaluated for each of them -/
def claimedDevs (s : St) : List Dev := s.devs.map fun d => (isAddressClaimStarted s.flavor s.now d).1
def _root_.N2k.Send.St.withDevs (s : St) (l : List Dev) : St := { s with devs := l }
def Inst.withS (x : Inst) (s : St) : Inst := { x with s := s }

theorem heartbeatPass_eq (x : Inst) :
    heartbeatPass x = if x.s.claimMode then x.withS (x.s.withDevs (claimedDevs x.s)) else x := rfl

theorem heartbeatPass_comm {k : Nat} {x : Inst} (h : Hyp k x) : IComm k heartbeatPass x := by
  unfold IComm
  rw [heartbeatPass_eq, heartbeatPass_eq]
  have e1 : (x.shift k).s.claimMode = x.s.claimMode := rfl
  rw [e1]
  by_cases hm : x.s.claimMode = true
  · simp only [if_pos hm]
    have hmap : claimedDevs (x.s.shift k) = (claimedDevs x.s).map (Dev.shift x.s.flavor k) := by
      unfold claimedDevs
      show (x.s.devs.map (Dev.shift x.s.flavor k)).map (fun d => (isAddressClaimStarted x.s.flavor (x.s.now + k) d).1) = _
      rw [List.map_map, List.map_map]
      apply List.map_congr_left
      intro d hd
      simp only [Function.comp]
      rw [(isAddressClaimStarted_shift h.1 (h.2.2 d hd)).1]
    have hok : ∀ d ∈ claimedDevs x.s, d.claimTimer.ShiftOk x.s.flavor k := by
      intro d hd
      obtain ⟨d0, hd0, rfl⟩ := List.mem_map.mp hd
      exact (isAddressClaimStarted_shift h.1 (h.2.2 d0 hd0)).2
    refine ⟨?_, ⟨h.2.1, hok⟩, rfl, rfl⟩
    show (x.shift k).withS ((x.s.shift k).withDevs (claimedDevs (x.s.shift k))) = _
    rw [hmap]; rfl
  · simp only [if_neg hm]; exact ⟨by triv, h.2, by triv, by triv⟩

/-- `SendFrames()` at the start of `ParseMessages` -/
def flushI (x : Inst) : Inst := x.withS { x.s with ring := (sendFrames x.s.ring x.s.drv).1, drv := (sendFrames x.s.ring x.s.drv).2.1 }

theorem parse_eq (x : Inst) (rx : List Rx) :
    parse x rx =
      (fun x0 : Inst => if x0.s.openState ≠ 3 then x0 else
        heartbeatPass ((fun x1 : Inst => if x1.s.claimMode then rx.foldl rxOne x1 else x1) (flushI x0)))
      (if x.s.openState = 3 then x else openStep x) := rfl

/-- `ParseMessages()` with the received items `rx` -/
theorem parse_comm {k : Nat} {x : Inst} (rx : List Rx) (h : Hyp k x) : IComm k (fun x => parse x rx) x := by
  have c0 : IComm k (fun x => if x.s.openState = 3 then x else openStep x) x := by
    unfold IComm
    dsimp only
    have e1 : (x.shift k).s.openState = x.s.openState := rfl
    rw [e1]
    by_cases h3 : x.s.openState = 3
    · simp only [if_pos h3]; exact ⟨by triv, h.2, by triv, by triv⟩
    · simp only [if_neg h3]; exact openStep_comm h
  have cfold : ∀ x1 : Inst, Hyp k x1 → IComm k (fun x1 => if x1.s.claimMode then rx.foldl rxOne x1 else x1) x1 := by
    intro x1 h1
    unfold IComm
    dsimp only
    have e1 : (x1.shift k).s.claimMode = x1.s.claimMode := rfl
    rw [e1]
    by_cases hm : x1.s.claimMode = true
    · simp only [if_pos hm]; exact foldl_icomm rxOne (fun r y hy => rxOne_comm r hy) rx x1 h1
    · simp only [if_neg hm]; exact ⟨by triv, h1.2, by triv, by triv⟩
  have crest : ∀ x0 : Inst, Hyp k x0 →
      IComm k (fun x0 : Inst => if x0.s.openState ≠ 3 then x0 else
        heartbeatPass ((fun x1 : Inst => if x1.s.claimMode then rx.foldl rxOne x1 else x1) (flushI x0))) x0 := by
    intro x0 h0
    have cflush : IComm k flushI x0 := ⟨rfl, h0.2, rfl, rfl⟩
    have call := IComm.comp h0 (IComm.comp h0 cflush (fun h' => cfold _ h')) (fun h' => heartbeatPass_comm h')
    unfold IComm at call ⊢
    dsimp only at call ⊢
    have e1 : (x0.shift k).s.openState = x0.s.openState := rfl
    rw [e1]
    by_cases h3 : x0.s.openState ≠ 3
    · simp only [if_pos h3]; exact ⟨by triv, h0.2, by triv, by triv⟩
    · simp only [if_neg h3]; exact call
  have := IComm.comp h c0 (fun h' => crest _ h')
  unfold IComm at this ⊢
  dsimp only at this ⊢
  rw [parse_eq, parse_eq]
  exact this

theorem parse_shift {k : Nat} {x : Inst} (rx : List Rx) (h : Hyp k x) :
    parse (x.shift k) rx = (parse x rx).shift k ∧ (parse x rx).s.ShiftOk k ∧ (parse x rx).s.now = x.s.now ∧
    (parse x rx).s.flavor = x.s.flavor := parse_comm rx h

/-- the clock advances -/
def advance (x : Inst) (ms : Nat) : Inst := { x with s := { x.s with now := x.s.now + ms } }

theorem advance_shift (k ms : Nat) (x : Inst) : advance (x.shift k) ms = (advance x ms).shift k := by
  unfold advance Inst.shift St.shift
  simp only [Nat.add_right_comm]

/-- `ReadResetAddressChanged()` gives the same answer -/
theorem readResetAddressChanged_shift (k : Nat) (x : Inst) :
    readResetAddressChanged (x.shift k) = ((readResetAddressChanged x).1.shift k, (readResetAddressChanged x).2) := rfl

/-! ## event histories -/

inductive Ev where
  | parse (rx : List Rx)                   -- ParseMessages() with these frames / commanded-address messages received
  | restart                                -- Restart()
  | advance (ms : Nat)                     -- the clock advances
  | readChanged                            -- ReadResetAddressChanged()

def Ev.apply (x : Inst) : Ev → Inst × Option Bool
  | .parse rx => (Claim.parse x rx, none)
  | .restart => (Claim.restart x, none)
  | .advance ms => (Claim.advance x ms, none)
  | .readChanged => ((readResetAddressChanged x).1, some (readResetAddressChanged x).2)

/-- the run: final instance and the answers of `ReadResetAddressChanged` -/
def run : Inst → List Ev → Inst × List Bool
  | x, [] => (x, [])
  | x, e :: es => ((run (e.apply x).1 es).1, (match (e.apply x).2 with | some b => [b] | none => []) ++ (run (e.apply x).1 es).2)

/-- the clock condition at every step of the history (it depends on the clock values only) -/
def ClocksOk (k : Nat) : Inst → List Ev → Prop
  | _, [] => True
  | x, e :: es => ClockOk x.s.flavor k x.s.now ∧ ClocksOk k (e.apply x).1 es

theorem Ev.apply_shift {k : Nat} {x : Inst} (e : Ev) (hc : ClockOk x.s.flavor k x.s.now) (ho : x.s.ShiftOk k) :
    e.apply (x.shift k) = ((e.apply x).1.shift k, (e.apply x).2) ∧ (e.apply x).1.s.ShiftOk k := by
  cases e with
  | parse rx => obtain ⟨a, b, _, _⟩ := parse_comm rx ⟨hc, ho⟩; exact ⟨by simp only [Ev.apply]; exact congrArg (fun y => (y, none)) a, b⟩
  | restart => obtain ⟨a, b, _, _⟩ := restart_comm (x := x) ⟨hc, ho⟩; exact ⟨by simp only [Ev.apply]; exact congrArg (fun y => (y, none)) a, b⟩
  | advance ms => exact ⟨by simp only [Ev.apply]; rw [advance_shift], ho⟩
  | readChanged => exact ⟨rfl, ho⟩

theorem run_shift {k : Nat} (es : List Ev) : ∀ x : Inst, x.s.ShiftOk k → ClocksOk k x es →
    run (x.shift k) es = ((run x es).1.shift k, (run x es).2) ∧ (run x es).1.s.ShiftOk k := by
  induction es with
  | nil => intro x ho _; exact ⟨rfl, ho⟩
  | cons e t ih =>
    intro x ho hc
    obtain ⟨e1, o1⟩ := e.apply_shift hc.1 ho
    obtain ⟨e2, o2⟩ := ih (e.apply x).1 o1 hc.2
    simp only [run]
    rw [e1]; simp only; rw [e2]
    exact ⟨rfl, o2⟩

end N2k.Claim

/-! ## the instance behind its receive slots (`Model/ClaimRx.lean`) -/
namespace N2k.ClaimRx
open N2k.Send N2k.Time N2k.Claim

def Node.shift (k : Nat) (n : Node) : Node := ⟨n.inst.shift k, n.rx.shift k⟩

theorem readsBus_shift {k : Nat} {x : Inst} (h : Hyp k x) : readsBus (x.shift k) = readsBus x := by
  unfold readsBus
  have e1 : (x.shift k).s.openState = x.s.openState := rfl
  rw [e1]
  by_cases h3 : x.s.openState = 3
  · simp only [if_pos h3]; rfl
  · simp only [if_neg h3]; rw [(openStep_comm h).1]; rfl

/-- `ParseMessages` with one raw frame waiting -/
theorem parseFrame_shift {k : Nat} {n : Node} (f : Frame) (h : Hyp k n.inst) :
    parseFrame (n.shift k) f = (parseFrame n f).shift k ∧ (parseFrame n f).inst.s.ShiftOk k ∧
    (parseFrame n f).inst.s.now = n.inst.s.now ∧ (parseFrame n f).inst.s.flavor = n.inst.s.flavor := by
  unfold parseFrame
  have e1 : (n.shift k).inst = n.inst.shift k := rfl
  have e2 : (n.shift k).rx = n.rx.shift k := rfl
  have e3 : (n.inst.shift k).s.now = n.inst.s.now + k := rfl
  rw [e1, e2, readsBus_shift h, e3, Rx.rx_shift]
  obtain ⟨p0, o0, n0, f0⟩ := parse_shift [] h
  by_cases hr : readsBus n.inst = true
  · simp only [if_pos hr]
    cases hm : (Rx.rx cfg n.rx n.inst.s.now (rawOf f)).2 with
    | none => simp only; exact ⟨by rw [p0]; rfl, o0, n0, f0⟩
    | some m =>
      simp only
      obtain ⟨p1, o1, n1, f1⟩ := parse_shift [.frame f] h
      exact ⟨by rw [p1]; rfl, o1, n1, f1⟩
  · simp only [if_neg hr]; exact ⟨by rw [p0]; rfl, o0, n0, f0⟩

/-- `ParseMessages` with a complete commanded-address transfer waiting -/
theorem parseCmd_shift {k : Nat} {n : Node} (dst nm a : Nat) (h : Hyp k n.inst) :
    parseCmd (n.shift k) dst nm a = (parseCmd n dst nm a).shift k ∧ (parseCmd n dst nm a).inst.s.ShiftOk k ∧
    (parseCmd n dst nm a).inst.s.now = n.inst.s.now ∧ (parseCmd n dst nm a).inst.s.flavor = n.inst.s.flavor := by
  unfold parseCmd
  have e1 : (n.shift k).inst = n.inst.shift k := rfl
  have e2 : (n.shift k).rx = n.rx.shift k := rfl
  have e3 : (n.inst.shift k).s.now = n.inst.s.now + k := rfl
  rw [e1, e2, readsBus_shift h, e3, Rx.rx_shift]
  obtain ⟨p0, o0, n0, f0⟩ := parse_shift [] h
  by_cases hr : readsBus n.inst = true
  · simp only [if_pos hr]
    generalize (Rx.rx cfg n.rx n.inst.s.now (cmdOpenFrame dst)).1 = st1
    have e4 : (st1.shift k).N = st1.N := rfl
    rw [Rx.findFirst_shift (Rx.stampFree_tpMatchP _ _ _), e4]
    by_cases hi : Rx.findFirst st1 (Rx.tpMatchP 65240 toolAddr dst) st1.N 0 < st1.N
    · simp only [if_pos hi]
      obtain ⟨p1, o1, n1, f1⟩ := parse_shift [.cmd dst nm a] h
      refine ⟨?_, o1, n1, f1⟩
      have e5 : (st1.shift k).slot (Rx.findFirst st1 (Rx.tpMatchP 65240 toolAddr dst) st1.N 0) =
          (st1.slot (Rx.findFirst st1 (Rx.tpMatchP 65240 toolAddr dst) st1.N 0)).shift k := rfl
      rw [p1, e5, Rx.freeSlot_shift, Rx.setSlot_shift]; rfl
    · simp only [if_neg hi]; exact ⟨by rw [p0]; rfl, o0, n0, f0⟩
  · simp only [if_neg hr]; exact ⟨by rw [p0]; rfl, o0, n0, f0⟩

/-- the application's `SendMsg(msg, dev)` -/
theorem appSend_shift {k : Nat} {x : Inst} (m : Msg) (dev : Option Nat) (h : Hyp k x) :
    appSend (x.shift k) m dev = ((appSend x m dev).1.shift k, (appSend x m dev).2) ∧ (appSend x m dev).1.s.ShiftOk k := by
  unfold appSend
  dsimp only
  have c0 : IComm k (fun x => if x.s.openState = 3 then x else openStep x) x := by
    unfold IComm
    dsimp only
    have e1 : (x.shift k).s.openState = x.s.openState := rfl
    rw [e1]
    by_cases h3 : x.s.openState = 3
    · simp only [if_pos h3]; exact ⟨by triv, h.2, by triv, by triv⟩
    · simp only [if_neg h3]; exact openStep_comm h
  have h0 := c0.hyp h
  obtain ⟨e0, o0, _, _⟩ := c0
  dsimp only at e0 o0 h0
  rw [e0]
  generalize (if x.s.openState = 3 then x else openStep x) = x0 at *
  have e1 : (x0.shift k).s.openState = x0.s.openState := rfl
  rw [e1]
  by_cases h3 : x0.s.openState = 3
  · simp only [if_pos h3]
    obtain ⟨es, os, _⟩ := sendMsg_shift m dev h0.1 h0.2
    have e2 : (x0.shift k).s = x0.s.shift k := rfl
    rw [e2, es]
    exact ⟨rfl, os⟩
  · simp only [if_neg h3]; exact ⟨by triv, o0⟩

end N2k.ClaimRx
