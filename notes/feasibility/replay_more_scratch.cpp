#include "NMEA2000.h"
#include "N2kMessages.h"
#include "Seasmart.h"
#include "ActisenseReader.h"
#include <stdio.h>
#include <string.h>
#include <stdlib.h>
#include <vector>
struct MemStream: public N2kStream { std::vector<uint8_t> in,out; size_t rp=0;
 int read() override { return rp<in.size()? in[rp++]:-1;} int peek() override {return rp<in.size()? in[rp]:-1;}
 size_t write(const uint8_t*d,size_t n) override { out.insert(out.end(),d,d+n); return n;} };
int main(int argc,char**argv){ int t=atoi(argv[1]);
 if(t==1){ tN2kMsg m; SetN2kPGN127510(m,1,2,N2kOnOff_On,50,N2kCA_3State,N2kCM_Standalone,(tBattTempNoSensor)1,N2kOnOff_Off,N2kOnOff_Off,10);
   unsigned char a,b,c; tN2kOnOff e,eq,oc; tN2kChargingAlgorithm ca; tN2kChargerMode cm; tBattTempNoSensor bt; uint16_t tr; ParseN2kPGN127510(m,a,b,e,c,ca,cm,bt,eq,oc,tr); printf("127510 bt set=1 got=%d\n",(int)bt);} 
 if(t==2){ tN2kMsg m; SetN2kPGN127513(m,1,N2kDCbt_Flooded,N2kDCES_Yes,N2kDCbnv_12v,N2kDCbc_LeadAcid,N2kDoubleNA,1,1.1,90);
   unsigned char i; tN2kBatType bt; tN2kBatEqSupport es; tN2kBatNomVolt nv; tN2kBatChem ch; double cap; int8_t tc; double pe; int8_t ce; ParseN2kPGN127513(m,i,bt,es,nv,ch,cap,tc,pe,ce); printf("127513 cap NA -> %f (NA=%f)\n",cap,N2kDoubleNA);
   SetN2kPGN127513(m,1,N2kDCbt_Flooded,N2kDCES_Yes,N2kDCbnv_12v,N2kDCbc_LeadAcid,3600.0*40000,1,1.1,90); ParseN2kPGN127513(m,i,bt,es,nv,ch,cap,tc,pe,ce); printf("127513 cap 40000Ah -> %f\n",cap/3600);} 
 if(t==3){ tN2kMsg m; SetN2kPGN128275(m,1,2.0,0xffffffff,5); uint16_t d; double s; uint32_t l,tl; ParseN2kPGN128275(m,d,s,l,tl); printf("128275 log NA -> %u\n",l);} 
 if(t==4){ tN2kMsg m; SetN2kPGN129029(m,1,2,3.0,1,2,3,N2kGNSSt_GPS,N2kGNSSm_GNSSfix,5,1,1,1,1,N2kGNSSt_GPS,3000,1.0);
   unsigned char sid,ns,nr; uint16_t d,id; double s,la,lo,al,h,p,g,age; tN2kGNSStype ty,rt; tN2kGNSSmethod me; ParseN2kPGN129029(m,sid,d,s,la,lo,al,ty,me,ns,h,p,g,nr,rt,id,age); printf("129029 station id 3000 -> %u\n",id);} 
 if(t==5){ tN2kMsg m; int idx=0; (void)idx; m.SetPGN(129029); m.Add8ByteDouble(1e300,1e-16); printf("8byte done\n"); }
 if(t==6){ tN2kMsg m; m.SetPGN(130000); m.Priority=3; m.Source=1; m.Destination=255; for(int i=0;i<223;i++) m.AddByte(0x10); m.MsgTime=1; MemStream s; m.SendInActisenseFormat(&s); printf("act len=%zu (expected 478)\n", s.out.size());
     tActisenseReader r; MemStream s2; s2.in=s.out; r.SetReadStream(&s2); tN2kMsg o; bool ok=r.GetMessageFromStream(o); printf("read ok=%d len=%d\n",ok,o.DataLen);} 
 if(t==7){ const char*src="$PCDIN,01F119,00000000,0F,AABB"; size_t n=strlen(src)+1; char*b=(char*)malloc(n); memcpy(b,src,n); uint32_t ts; tN2kMsg m; bool ok=SeasmartToN2k(b,ts,m); printf("ok=%d\n",ok); free(b);} 
 return 0; }
