// C14 harness: drives the REAL tNMEA2000::tMsgHandler / AttachMsgHandler / DetachMsgHandler / RunMessageHandlers
// through ParseMessages() on two bus objects behind mock CAN drivers.
// ops:  reset [p0 p1 ...]          case start: destroy every live handler, clear both plain callbacks; then = new 0 p0, new 1 p1, ...
//       new h pgn [bus]            construct handler h (optionally through the attaching constructor)
//       attach h bus               bus.AttachMsgHandler(h)
//       detach h [via]             via.DetachMsgHandler(h)   (via = bus object the call is made on, default 0)
//       destroy h                  delete h
//       cb bus 0|1                 SetMsgHandler(0 / callback)
//       msg bus pgn                one single-frame CAN message of that PGN arrives, then ParseMessages()
//       tp bus pgn [len [dst]]     transport-protocol transfer carrying pgn: TP.CM BAM (dst 255) or RTS + all TP.DT packets of a
//                                  len byte payload (default 9) arrive, then ParseMessages() until the driver is empty
//       fp bus pgn src len b0,b1,..   fast-packet frames with first bytes b0,b1,... (sequence id * 32 + frame counter) from
//                                  source src, first frames announce len bytes; ParseMessages() after every frame
//       probe p1 p2 ...            = msg 0 p1, msg 1 p1, msg 0 p2, ... reported on one line
//       tp2 bus pgnA lenA dstA pgnB lenB dstB   two transfers of ONE source to two destinations, announced one after the other, data packets interleaved
//       clock ms                   the clock jumps forward to the absolute time ms (e.g. to the 32-bit millisecond rollover)
//       hold bus 0|1               1: frames of msg/tp/fp/probe only arrive in the driver (output "queued"), nothing is polled
//       poll bus                   one ParseMessages() (reads as many waiting frames as the library's batch size allows)
//       drain bus                  ParseMessages() until the driver is empty (a frame that is never read is a lost message)
//       batch ?                    written as "batch <n>": n = frames one ParseMessages() call takes from the driver, MEASURED on the
//                                  node at start-up (the property leaves it open); tells the model, no effect on the real code
//       mode bus bit 0|1           SetForwardSystemMessages (bit 1) / SetForwardOnlyKnownMessages (2) / SetForwardOwnMessages (3) /
//                                  SetHandleOnlyKnownMessages (4)
// output of msg/tp/fp/poll:  "cb=<times the plain callback ran> h=<ids in call order|->"
#include "node.h"
using namespace vh;
static Ctx C;

static const int MAXH = 8, NBUS = 2;
static const unsigned long TP_CM_PGN = 60416UL, TP_DT_PGN = 60160UL;

// ---- the call log (what the real code did) ------------------------------------------------------
struct Call { int h; unsigned long pgn; unsigned src; };
static std::vector<Call> calls;
static std::vector<Call> cbCalls[NBUS];
static void cb0(const tN2kMsg &m) { cbCalls[0].push_back({-1, m.PGN, m.Source}); }
static void cb1(const tN2kMsg &m) { cbCalls[1].push_back({-1, m.PGN, m.Source}); }

// several unrelated subclasses of the library's handler class
struct HA : public tNMEA2000::tMsgHandler {
  int id;
  HA(int i, unsigned long p, tNMEA2000 *n) : tNMEA2000::tMsgHandler(p, n), id(i) {}
  void HandleMsg(const tN2kMsg &m) override { calls.push_back({id, m.PGN, m.Source}); }
};
struct HB : public tNMEA2000::tMsgHandler {
  char pad[24]; int id;
  HB(int i, unsigned long p, tNMEA2000 *n) : tNMEA2000::tMsgHandler(p, n), id(i) { memset(pad, 0x5a, sizeof pad); }
  void HandleMsg(const tN2kMsg &m) override { calls.push_back({id, m.PGN, m.Source}); }
};
struct HC : public HA {
  std::vector<int> seen;
  HC(int i, unsigned long p, tNMEA2000 *n) : HA(i, p, n) {}
  void HandleMsg(const tN2kMsg &m) override { seen.push_back((int)m.PGN); if (seen.size() > 4) seen.clear(); HA::HandleMsg(m); }
};

struct Bus : public MockN2k {
  bool listEmpty() const { return MsgHandlers == 0; }
  void forceEmpty() { MsgHandlers = 0; }
  void mode(int bit, bool v) { if (bit == 1) SetForwardSystemMessages(v); else if (bit == 2) SetForwardOnlyKnownMessages(v); else if (bit == 3) SetForwardOwnMessages(v); else SetHandleOnlyKnownMessages(v); }
  void dropPartialMessages() { for (int i = 0; i < MaxN2kCANMsgs; i++) N2kCANMsgBuf[i].FreeMessage(); }   // cases are self-contained
};
static Bus *bus[NBUS];
static tNMEA2000::tMsgHandler *H[MAXH];

// ---- reference written from the property statement: which handler is attached where --------------
struct RefH { bool live = false; unsigned long pgn = 0; int bus = -1; };
static RefH ref[MAXH];
static bool refCb[NBUS];

static std::string caseDesc; static bool caseHit = false, caseMoved = false, caseDestroyedAttached = false;
static void endCase() {
  if (!caseDesc.empty()) {
    C.cases++;
    if (caseHit) C.nontrivial(caseDesc);
    if (caseMoved) C.count("cases_with_move_between_buses");
    if (caseDestroyedAttached) C.count("cases_with_destroy_while_attached");
  }
  caseDesc.clear(); caseHit = caseMoved = caseDestroyedAttached = false;
}

static unsigned long canId(unsigned prio, unsigned long pgn, unsigned src, unsigned dst) {
  unsigned long id = ((unsigned long)prio << 26) | (pgn << 8) | src;
  if (((pgn >> 8) & 0xff) < 240) id |= (unsigned long)dst << 8;
  return id;
}
static bool isFastPacketPgn(unsigned long pgn) {   // the PGNs used here that the library reassembles as fast packets
  return pgn == 129029UL || pgn == 126996UL || pgn == 126208UL || pgn == 129540UL || pgn == 126720UL || (pgn >= 130816UL && pgn <= 131071UL);
}

static const char *pgnClass(unsigned long h) { return h == 0 ? "all-pgn-handler" : "pgn-handler"; }

// ---- reference receiver, written from the property and the frame formats (independent of the library and of the model) ----
// the PGNs of this harness the library knows by default (its documented default lists); everything else is "unknown"
static bool knownRef(unsigned long p) {
  static const unsigned long k[] = {59392UL, 59904UL, 60928UL, 65240UL, 126208UL, 126464UL, 126992UL, 126993UL, 126996UL, 126998UL,
                                    127250UL, 127488UL, 129025UL, 129029UL, 129540UL, 130306UL};
  for (unsigned long x : k) if (x == p) return true;
  return false;
}
static bool refHandleKnown[NBUS], hold[NBUS];
static bool refHandled(int b, unsigned long p) { return knownRef(p) || !refHandleKnown[b]; }
// fast packet: a message is completely received when its first frame (counter 0, announcing the length) was followed, frame
// by frame, by the frames with the next first bytes until the announced number of bytes has arrived; any other continuation
// frame ends the reception without a message
struct FpRx { bool active = false; unsigned last = 0; unsigned got = 0, len = 0; };
static std::map<std::tuple<int, unsigned long, unsigned>, FpRx> fpState;
static bool fpRefFrame(FpRx &st, unsigned b0, unsigned len) {
  if ((b0 & 0x1f) == 0) { st.active = true; st.last = b0; st.len = len; st.got = 6; }
  else if (st.active && b0 == st.last + 1) { st.last = b0; st.got += 7; }
  else { st.active = false; return false; }
  if (st.got >= st.len) { st.active = false; return true; }
  return false;
}
// transport protocol: an announced transfer (at most 223 bytes, the library's message size) is complete with its last packet
struct TpRx { bool open = false; unsigned long pgn = 0; };
static std::map<std::tuple<int, unsigned, unsigned>, TpRx> tpState;
// every frame waiting in the driver, as the reference sees it
enum Kind { K_MSG, K_NOTHING, K_FP, K_TPCM, K_TPDT, K_TPLAST };
struct RefFrame { Kind kind; unsigned long pgn; unsigned src, dst, b0, len; const char *cls; };
static std::deque<RefFrame> refQ[NBUS];
static void arrive(int b, unsigned long id, unsigned char len, const unsigned char *d, const RefFrame &rf) { bus[b]->rx(id, len, d); refQ[b].push_back(rf); }

// one single-frame message (or a lone TP frame) of the given PGN arrives
static void inject(int b, unsigned long pgn) {
  unsigned char d[8]; unsigned char len = 8; unsigned src = 0x23;
  memset(d, 0xff, 8);
  RefFrame rf{K_MSG, pgn, src, 255, 0, 8, "single-frame"};
  if (pgn == 59904UL) { d[0] = 0x00; d[1] = 0xEE; d[2] = 0x00; len = 3; }                       // ISO request for 60928
  else if (pgn == 60928UL) { unsigned char nm[8] = {0x11, 0x22, 0x33, 0x44, 0x00, 0x82, 0x32, 0xC0}; memcpy(d, nm, 8); src = 0x42; }
  else if (pgn == TP_CM_PGN) { d[0] = 255; d[5] = 0x00; d[6] = 0xF2; d[7] = 0x01; rf.kind = K_NOTHING; rf.cls = "lone-tp-frame"; }   // connection abort, not for us
  else if (pgn == TP_DT_PGN) { d[0] = 1; rf.kind = K_NOTHING; rf.cls = "lone-tp-frame"; }                                          // data packet of no transfer
  else if (isFastPacketPgn(pgn)) { d[0] = 0x40; d[1] = 4; d[2] = 1; d[3] = 2; d[4] = 3; d[5] = 4; rf.kind = K_FP; rf.b0 = 0x40; rf.len = 4; rf.cls = "fp-first-frame"; } // whole fast packet in its first frame
  else { for (int i = 0; i < 8; i++) d[i] = (unsigned char)(i + 1); }
  rf.src = src;
  arrive(b, canId(6, pgn, src, 255), len, d, rf);
}
// a whole transport-protocol transfer (announce + every data packet) of a `len` byte payload
struct Pending { unsigned long id; unsigned char d[8]; RefFrame rf; };
static std::vector<Pending> tpFramesOf(unsigned long pgn, unsigned len, unsigned dst) {
  const unsigned src = 0x31; unsigned npk = (len + 6) / 7; std::vector<Pending> v;
  Pending cm{canId(7, TP_CM_PGN, src, dst), {(unsigned char)(dst == 255 ? 32 : 16), (unsigned char)(len & 0xff), (unsigned char)(len >> 8), (unsigned char)npk, 0xff,
                        (unsigned char)(pgn & 0xff), (unsigned char)((pgn >> 8) & 0xff), (unsigned char)((pgn >> 16) & 0xff)}, RefFrame{K_TPCM, pgn, src, dst, 0, len, "tp-transfer"}};
  v.push_back(cm);
  for (unsigned k = 1; k <= npk; k++) {
    Pending p{canId(7, TP_DT_PGN, src, dst), {0}, RefFrame{k == npk ? K_TPLAST : K_TPDT, pgn, src, dst, 0, len, "tp-transfer"}};
    p.d[0] = (unsigned char)k;
    for (unsigned j = 0; j < 7; j++) { unsigned i = (k - 1) * 7 + j; p.d[1 + j] = i < len ? (unsigned char)(i * 3 + 1) : 0xff; }
    v.push_back(p);
  }
  return v;
}
static void injectTp(int b, unsigned long pgn, unsigned len, unsigned dst) { for (auto &p : tpFramesOf(pgn, len, dst)) arrive(b, p.id, 8, p.d, p.rf); }
// two transfers of the same source to different destinations at the same time: both announces, then the data packets alternately
static void injectTp2(int b, unsigned long pa, unsigned la, unsigned da, unsigned long pb, unsigned lb, unsigned db) {
  std::vector<Pending> A = tpFramesOf(pa, la, da), B = tpFramesOf(pb, lb, db);
  for (size_t k = 0; k < A.size() || k < B.size(); k++) {
    if (k < A.size()) arrive(b, A[k].id, 8, A[k].d, A[k].rf);
    if (k < B.size()) arrive(b, B[k].id, 8, B[k].d, B[k].rf);
  }
}

struct Res { int cb = 0; std::vector<int> ids; };
static std::string fmt(const Res &r) {
  std::string out = "cb=" + std::to_string(r.cb) + " h=";
  if (r.ids.empty()) out += "-";
  for (size_t i = 0; i < r.ids.size(); i++) { if (i) out += ','; out += std::to_string(r.ids[i]); }
  return out;
}
static bool sameSeq(const std::vector<Call> &g, const std::vector<Call> &e) {
  if (g.size() != e.size()) return false;
  for (size_t i = 0; i < g.size(); i++) if (g[i].pgn != e[i].pgn || g[i].src != e[i].src) return false;
  return true;
}
static std::string seqStr(const std::vector<Call> &v) { std::string r; for (auto &c : v) { char t[40]; snprintf(t, sizeof t, "%s%lu/%u", r.empty() ? "" : ",", c.pgn, c.src); r += t; } return r.empty() ? "-" : r; }

// one ParseMessages() of bus b.  How many of the waiting frames a call takes from the driver is left open by the property (it is
// observed: driver queue length before - after); the reference handles exactly the frames taken, oldest first, and so knows the
// messages E this call must pass on, in order: a frame taken from the driver and not handled shows as a missed message.  Oracle (from the property): the callback (if set) and every handler attached to b and registered
// for PGN 0 or the message's PGN get exactly E restricted to their PGN, in order, each message with its PGN and source; nobody
// else is called.
static void pollBus(Res &res, int b) {
  calls.clear(); cbCalls[0].clear(); cbCalls[1].clear();
  g_now++;
  size_t before = bus[b]->rxq.size();
  bus[b]->ParseMessages();
  bus[b]->sent.clear();
  size_t taken = before - bus[b]->rxq.size();
  if (before != refQ[b].size()) C.fail("harness:queue-desync", "driver %zu reference %zu", before, refQ[b].size());
  std::vector<Call> E; std::string cls;
  for (size_t k = 0; k < taken && !refQ[b].empty(); k++) {
    RefFrame f = refQ[b].front(); refQ[b].pop_front();
    if (cls.empty()) cls = f.cls; else if (cls != f.cls) cls = "mixed";
    bool done = false;
    switch (f.kind) {
      case K_MSG: done = refHandled(b, f.pgn); break;
      case K_NOTHING: case K_TPDT: break;
      case K_FP: if (refHandled(b, f.pgn)) done = fpRefFrame(fpState[std::make_tuple(b, f.pgn, f.src)], f.b0, f.len); break;
      case K_TPCM: { TpRx &t = tpState[std::make_tuple(b, f.src, f.dst)]; t.open = refHandled(b, f.pgn) && f.len <= 223; t.pgn = f.pgn; break; }
      case K_TPLAST: { TpRx &t = tpState[std::make_tuple(b, f.src, f.dst)]; if (t.open && t.pgn == f.pgn) done = true; t.open = false; break; }
    }
    if (done) E.push_back({-1, f.pgn, f.src});
  }
  if (cls.empty()) cls = "empty-poll";
  res.cb += (int)(cbCalls[0].size() + cbCalls[1].size());
  for (auto &c : calls) res.ids.push_back(c.h);
  C.count("polls"); C.count("messages_completed", (long)E.size()); if (E.size() > 1) C.count("polls_completing_several_messages");
  // ---- oracle
  std::string none = "no-message-completed:" + cls;
  for (auto &c : calls) if (c.h < 0 || c.h >= MAXH) C.fail("harness:bad-id", "id %d", c.h);
  for (int h = 0; h < MAXH; h++) {
    std::vector<Call> Eh, Gh;
    bool here = ref[h].live && ref[h].bus == b;
    if (here) for (auto &e : E) if (ref[h].pgn == 0 || ref[h].pgn == e.pgn) Eh.push_back(e);
    for (auto &c : calls) if (c.h == h) Gh.push_back(c);
    if (!Eh.empty()) caseHit = true;
    if (Gh.size() < Eh.size())
      C.fail(std::string("C14:missed:") + pgnClass(ref[h].pgn) + ":" + cls, "handler %d (PGN %lu) on bus %d got %s, the completed messages for it were %s", h, ref[h].pgn, b, seqStr(Gh).c_str(), seqStr(Eh).c_str());
    else if (Gh.size() > Eh.size()) {
      std::string why = !ref[h].live ? "destroyed" : ref[h].bus < 0 ? "detached" : ref[h].bus != b ? "other-bus" : E.empty() ? none : Eh.empty() ? "other-pgn" : std::string("duplicate:") + pgnClass(ref[h].pgn);
      C.fail((Eh.empty() || !here ? "C14:extra:" : "C14:") + why, "handler %d (PGN %lu, bus %d) got %s on bus %d, the completed messages for it were %s", h, ref[h].pgn, ref[h].bus, seqStr(Gh).c_str(), b, seqStr(Eh).c_str());
    } else if (!sameSeq(Gh, Eh))
      C.fail("C14:wrong-message:" + cls, "handler %d got %s, the completed messages for it were %s", h, seqStr(Gh).c_str(), seqStr(Eh).c_str());
  }
  std::vector<Call> Ecb; if (refCb[b]) Ecb = E;
  if (cbCalls[b].size() < Ecb.size()) C.fail("C14:callback:missed:" + cls, "plain callback of bus %d got %s, completed: %s", b, seqStr(cbCalls[b]).c_str(), seqStr(Ecb).c_str());
  else if (cbCalls[b].size() > Ecb.size()) C.fail(E.empty() ? "C14:callback:" + none : std::string("C14:callback:extra"), "plain callback of bus %d got %s, completed: %s", b, seqStr(cbCalls[b]).c_str(), seqStr(Ecb).c_str());
  else if (!sameSeq(cbCalls[b], Ecb)) C.fail("C14:wrong-message:" + cls, "callback got %s, completed: %s", seqStr(cbCalls[b]).c_str(), seqStr(Ecb).c_str());
  if (!cbCalls[1 - b].empty()) C.fail("C14:callback:other-bus", "plain callback of bus %d ran for a message on bus %d", 1 - b, b);
}
// after frames arrived: poll once (or until the driver is empty), unless the bus is on hold
static std::string after(int b, bool drain) {
  if (hold[b]) return "queued";
  Res r; pollBus(r, b);
  while (drain && !refQ[b].empty()) pollBus(r, b);
  return fmt(r);
}

static tNMEA2000::tMsgHandler *mk(int h, unsigned long p, tNMEA2000 *n) {
  return h % 3 == 0 ? (tNMEA2000::tMsgHandler *)new HA(h, p, n) : h % 3 == 1 ? (tNMEA2000::tMsgHandler *)new HB(h, p, n) : (tNMEA2000::tMsgHandler *)new HC(h, p, n);
}

static unsigned long batchSize = 20;   // measured in main()
static void exec(const std::string &line0) {
  std::string line = line0;
  if (line.compare(0, 5, "batch") == 0) line = "batch " + std::to_string(batchSize);   // also in replays: the value of THIS build
  std::vector<std::string> w = split(line);
  C.op("%s", line.c_str());
  if (w.empty()) { C.out("bad-op"); return; }
  C.count("op_" + w[0]);
  if (w[0] == "reset") endCase();
  caseDesc += line; caseDesc += ';';
  auto num = [&](size_t i) { return (unsigned long)strtoul(w[i].c_str(), nullptr, 10); };
  auto isNum = [&](size_t i) { return i < w.size() && !w[i].empty() && w[i].find_first_not_of("0123456789") == std::string::npos; };
  auto hid = [&](size_t i) { return isNum(i) && num(i) < (unsigned long)MAXH ? (int)num(i) : -1; };
  auto bid = [&](size_t i) { return isNum(i) && num(i) < (unsigned long)NBUS ? (int)num(i) : -1; };
  if (w[0] == "reset" && w.size() <= 1 + (size_t)MAXH) {
    for (size_t i = 1; i < w.size(); i++) if (!isNum(i)) { C.out("bad-op"); return; }
    for (int h = 0; h < MAXH; h++) { if (H[h]) { delete H[h]; H[h] = nullptr; } ref[h] = RefH(); }
    fpState.clear(); tpState.clear();
    for (int b = 0; b < NBUS; b++) {
      bus[b]->SetMsgHandler(0); refCb[b] = false; bus[b]->dropPartialMessages();
      bus[b]->rxq.clear(); refQ[b].clear(); hold[b] = false; refHandleKnown[b] = false; for (int bit = 1; bit <= 4; bit++) bus[b]->mode(bit, false);
      if (!bus[b]->listEmpty()) { C.fail("C14:dangling-after-destroy-all", "bus %d still points to a handler after every handler was destroyed", b); bus[b]->forceEmpty(); }
    }
    for (size_t i = 1; i < w.size(); i++) { int h = (int)i - 1; H[h] = mk(h, num(i), nullptr); ref[h].live = true; ref[h].pgn = num(i); ref[h].bus = -1; }
    C.out("ok"); return;
  }
  if (w[0] == "new" && (w.size() == 3 || w.size() == 4)) {
    int h = hid(1); int b = w.size() == 4 ? bid(3) : -1;
    if (h < 0 || !isNum(2) || H[h] || (w.size() == 4 && b < 0)) { C.out("bad-op"); return; }
    unsigned long p = num(2); tNMEA2000 *n = b >= 0 ? bus[b] : nullptr;
    H[h] = mk(h, p, n);
    ref[h].live = true; ref[h].pgn = p; ref[h].bus = b;
    C.out("ok"); return;
  }
  if (w[0] == "attach" && w.size() == 3) {
    int h = hid(1), b = bid(2);
    if (h < 0 || b < 0 || !H[h]) { C.out("bad-op"); return; }
    if (ref[h].bus >= 0 && ref[h].bus != b) caseMoved = true;
    bus[b]->AttachMsgHandler(H[h]); ref[h].bus = b;
    C.out("ok"); return;
  }
  if (w[0] == "detach" && (w.size() == 2 || w.size() == 3)) {
    int h = hid(1), via = w.size() == 3 ? bid(2) : 0;
    if (h < 0 || via < 0 || !H[h]) { C.out("bad-op"); return; }
    bus[via]->DetachMsgHandler(H[h]); ref[h].bus = -1;
    C.out("ok"); return;
  }
  if (w[0] == "destroy" && w.size() == 2) {
    int h = hid(1);
    if (h < 0 || !H[h]) { C.out("bad-op"); return; }
    if (ref[h].bus >= 0) caseDestroyedAttached = true;
    delete H[h]; H[h] = nullptr; ref[h] = RefH();
    C.out("ok"); return;
  }
  if (w[0] == "cb" && w.size() == 3) {
    int b = bid(1);
    if (b < 0 || !isNum(2) || num(2) > 1) { C.out("bad-op"); return; }
    refCb[b] = num(2) == 1; bus[b]->SetMsgHandler(refCb[b] ? (b == 0 ? cb0 : cb1) : 0);
    C.out("ok"); return;
  }
  auto pgnOk = [&](size_t i) { return isNum(i) && num(i) < (1UL << 17) && !((((num(i) >> 8) & 0xff) < 240) && (num(i) & 0xff) != 0); };   // a PGN a CAN id can carry
  if (w[0] == "msg" && w.size() == 3) {
    int b = bid(1);
    if (b < 0 || !pgnOk(2)) { C.out("bad-op"); return; }
    unsigned long p = num(2);
    if (p == TP_CM_PGN || p == TP_DT_PGN) C.count("lone_tp_frames");
    else if (p == 59904UL || p == 60928UL || p == 59392UL || p == 126208UL) C.count("system_messages");
    inject(b, p);
    C.outs(after(b, false)); return;
  }
  if (w[0] == "tp" && w.size() >= 3 && w.size() <= 5) {
    int b = bid(1);
    if (b < 0 || !pgnOk(2) || num(2) == TP_CM_PGN || num(2) == TP_DT_PGN || (w.size() > 3 && (!isNum(3) || num(3) < 9 || num(3) > 223)) ||
        (w.size() > 4 && (!isNum(4) || num(4) > 255))) { C.out("bad-op"); return; }
    unsigned len = w.size() > 3 ? (unsigned)num(3) : 9, dst = w.size() > 4 ? (unsigned)num(4) : 255;
    injectTp(b, num(2), len, dst); C.count("tp_transfers"); if (len >= 222) C.count("tp_transfers_222_223"); if (dst != 255) C.count("tp_transfers_rts");
    C.outs(after(b, true)); return;
  }
  if (w[0] == "tp2" && w.size() == 8) {
    int b = bid(1);
    auto bad = [&](size_t i) { return !pgnOk(i) || num(i) == TP_CM_PGN || num(i) == TP_DT_PGN || !isNum(i + 1) || num(i + 1) < 9 || num(i + 1) > 223 || !isNum(i + 2) || num(i + 2) > 255; };
    if (b < 0 || bad(2) || bad(5) || num(4) == num(7)) { C.out("bad-op"); return; }
    injectTp2(b, num(2), (unsigned)num(3), (unsigned)num(4), num(5), (unsigned)num(6), (unsigned)num(7)); C.count("tp_concurrent_transfers_of_one_source");
    C.outs(after(b, true)); return;
  }
  if (w[0] == "clock" && w.size() == 2) {
    if (!isNum(1) || w[1].size() > 15 || strtoull(w[1].c_str(), nullptr, 10) < g_now) { C.out("bad-op"); return; }
    g_now = strtoull(w[1].c_str(), nullptr, 10); C.out("ok"); return;
  }
  if (w[0] == "fp" && w.size() == 6) {
    int b = bid(1);
    std::vector<unsigned> fr; bool okList = !w[5].empty();
    { size_t i = 0; while (okList && i <= w[5].size()) { size_t j = w[5].find(',', i); if (j == std::string::npos) j = w[5].size();
        std::string t = w[5].substr(i, j - i); if (t.empty() || t.size() > 3 || t.find_first_not_of("0123456789") != std::string::npos || atoi(t.c_str()) > 255) okList = false; else fr.push_back((unsigned)atoi(t.c_str())); i = j + 1; } }
    if (b < 0 || !isNum(2) || num(2) >= (1UL << 17) || !isFastPacketPgn(num(2)) || !isNum(3) || num(3) > 251 || !isNum(4) || num(4) > 223 ||
        !okList || fr.size() > 40) { C.out("bad-op"); return; }
    unsigned long p = num(2); unsigned src = (unsigned)num(3), len = (unsigned)num(4);
    Res res;
    for (size_t k = 0; k < fr.size(); k++) {
      unsigned char d[8]; d[0] = (unsigned char)fr[k];
      if ((fr[k] & 0x1f) == 0) { d[1] = (unsigned char)len; for (int j = 2; j < 8; j++) d[j] = (unsigned char)(j + k); }
      else for (int j = 1; j < 8; j++) d[j] = (unsigned char)(16 * k + j);
      arrive(b, canId(6, p, src, 255), 8, d, RefFrame{K_FP, p, src, 255, fr[k], len, (fr[k] & 0x1f) == 0 ? "fp-first-frame" : "fp-continuation"});
      if (!hold[b]) pollBus(res, b);
    }
    C.count("fp_frames", (long)fr.size());
    C.outs(hold[b] ? std::string("queued") : fmt(res)); return;
  }
  if (w[0] == "probe" && w.size() >= 2) {
    for (size_t i = 1; i < w.size(); i++) if (!pgnOk(i) || num(i) == TP_CM_PGN || num(i) == TP_DT_PGN) { C.out("bad-op"); return; }
    std::string out;
    for (size_t i = 1; i < w.size(); i++) for (int b = 0; b < NBUS; b++) {
      inject(b, num(i));
      if (!out.empty()) out += " | ";
      out += after(b, false);
    }
    C.outs(out); return;
  }
  if (w[0] == "hold" && w.size() == 3) {
    int b = bid(1);
    if (b < 0 || !isNum(2) || num(2) > 1) { C.out("bad-op"); return; }
    hold[b] = num(2) == 1; C.out("ok"); return;
  }
  if (w[0] == "poll" && w.size() == 2) {
    int b = bid(1);
    if (b < 0) { C.out("bad-op"); return; }
    if (refQ[b].size() > 20) C.count("polls_with_more_than_20_frames_waiting");
    Res r; pollBus(r, b); C.outs(fmt(r)); return;
  }
  if (w[0] == "drain" && w.size() == 2) {
    int b = bid(1);
    if (b < 0) { C.out("bad-op"); return; }
    Res r; int n = 0;
    do { pollBus(r, b); n++; } while (!refQ[b].empty() && n < 400);
    if (!refQ[b].empty()) { C.fail("C14:missed:frames-never-read", "%zu frames still wait in the driver of bus %d after %d ParseMessages() calls", refQ[b].size(), b, n); refQ[b].clear(); bus[b]->rxq.clear(); }
    C.outs(fmt(r)); return;
  }
  if (w[0] == "batch" && w.size() == 2) { C.out("ok"); return; }
  if (w[0] == "mode" && w.size() == 4) {
    int b = bid(1);
    if (b < 0 || !isNum(2) || num(2) < 1 || num(2) > 4 || !isNum(3) || num(3) > 1) { C.out("bad-op"); return; }
    bus[b]->mode((int)num(2), num(3) == 1); if (num(2) == 4) refHandleKnown[b] = num(3) == 1;
    C.out("ok"); return;
  }
  C.out("bad-op");
}

// ---- generators ------------------------------------------------------------------------------------
static std::string S(const char *fmt, ...) { char b[160]; va_list ap; va_start(ap, fmt); vsnprintf(b, sizeof b, fmt, ap); va_end(ap); return b; }

// every sequence of length exactly L over the alphabet (shorter ones occur as sequences with ineffective steps),
// each followed by a probe of all PGNs in play on both buses
static void exhaustive(const std::vector<unsigned long> &pgns, const std::vector<std::string> &alphabet, int L, const std::string &probe) {
  std::vector<int> idx(L, 0);
  while (true) {
    std::string r = "reset";
    for (size_t h = 0; h < pgns.size(); h++) r += S(" %lu", pgns[h]);
    exec(r);
    for (int i = 0; i < L; i++) exec(alphabet[idx[i]]);
    exec(probe);
    int k = L - 1; while (k >= 0 && ++idx[k] == (int)alphabet.size()) { idx[k] = 0; k--; }
    if (k < 0) break;
  }
  C.count("exhaustive_spaces");
}
static std::vector<std::string> alphabetFor(const std::vector<unsigned long> &pgns, bool withNew, bool withVia) {
  std::vector<std::string> a;
  for (size_t h = 0; h < pgns.size(); h++) {
    for (int b = 0; b < NBUS; b++) a.push_back(S("attach %zu %d", h, b));
    a.push_back(S("detach %zu", h));
    if (withVia) a.push_back(S("detach %zu 1", h));
    a.push_back(S("destroy %zu", h));
    if (withNew) a.push_back(S("new %zu %lu", h, pgns[h]));
  }
  return a;
}

// one fast-packet transfer of `len` bytes with sequence id `seq`, damaged in the way `dmg` says
static const char *DMG[] = {"intact", "missing-middle", "missing-last", "missing-first", "wrong-counter", "duplicate", "swapped", "wrong-seq", "restart", "truncated-then-intact"};
static const int NDMG = 10;
static int lastFpFrames = 0;
static std::string fpLine(Rng &R, int b, unsigned long pgn, unsigned src, unsigned len, unsigned seq, int dmg) {
  unsigned nfr = len <= 6 ? 1 : 1 + (len - 6 + 6) / 7;
  std::vector<unsigned> fr; for (unsigned k = 0; k < nfr; k++) fr.push_back((seq % 8) * 32 + k);
  size_t mid = nfr > 2 ? 1 + (size_t)R.below(nfr - 2) : (nfr > 1 ? 1 : 0);
  switch (dmg) {
    case 1: if (nfr > 2) fr.erase(fr.begin() + mid); break;
    case 2: if (nfr > 1) fr.pop_back(); break;
    case 3: if (nfr > 1) fr.erase(fr.begin()); break;
    case 4: if (nfr > 1) fr[mid] = (seq % 8) * 32 + ((fr[mid] & 31) + 1 + (unsigned)R.below(29)) % 32; break;
    case 5: if (nfr > 1) fr.insert(fr.begin() + mid, fr[mid]); break;
    case 6: if (nfr > 2) std::swap(fr[mid], fr[mid + 1 < nfr ? mid + 1 : mid - 1]); break;
    case 7: if (nfr > 1) fr[mid] = ((seq + 1 + (unsigned)R.below(7)) % 8) * 32 + (fr[mid] & 31); break;
    case 8: if (nfr > 1) { std::vector<unsigned> g(fr.begin(), fr.begin() + mid); for (unsigned k = 0; k < nfr; k++) g.push_back(((seq + 1) % 8) * 32 + k); fr = g; } break;
    case 9: if (nfr > 1) { std::vector<unsigned> g(fr.begin(), fr.begin() + mid); g.insert(g.end(), fr.begin(), fr.end()); fr = g; } break;
    default: break;
  }
  if (fr.size() > 40) fr.resize(40);
  std::string l; for (size_t i = 0; i < fr.size(); i++) { if (i) l += ','; l += std::to_string(fr[i]); }
  C.count(std::string("fp_") + DMG[dmg]);
  lastFpFrames = (int)fr.size();
  return S("fp %d %lu %u %u ", b, pgn, src, len) + l;
}

// damaged and intact fast packets observed by the callback, all-PGN handlers and PGN handlers on both buses
static void fpCase(Rng &R, int nops) {
  static const unsigned long fpp[] = {129029UL, 129540UL, 130816UL};
  exec(S("reset 0 %lu 0 %lu %lu", fpp[0], fpp[1], fpp[2])); exec("batch ?");
  for (int h = 0; h < 5; h++) exec(S("attach %d %d", h, h == 2 ? 1 : (int)R.below(NBUS)));
  exec("attach 0 0"); exec("cb 0 1"); exec("cb 1 1");
  unsigned seq = (unsigned)R.below(8);
  for (int i = 0; i < nops; i++) {
    int b = (int)R.below(NBUS); unsigned long p = fpp[R.below(3)];
    unsigned len = R.chance(1, 6) ? (unsigned)R.range(0, 13) : R.chance(1, 8) ? (unsigned)R.range(200, 223) : (unsigned)R.range(7, 60);
    int dmg = R.chance(2, 5) ? 0 : (int)R.range(1, NDMG - 1);
    // at most 4 (PGN, source) pairs per bus, so unfinished messages never exhaust the 5 receive slots (that is C02's subject)
    unsigned src = p == fpp[0] ? 0x51 + (unsigned)R.below(2) : p == fpp[1] ? 0x51 : 0x52;
    exec(fpLine(R, b, p, src, len, seq++, dmg));
    if (R.chance(1, 5)) exec(S("msg %d %lu", b, R.chance(1, 2) ? 127488UL : p == 129029UL ? 129029UL : 130306UL));
    if (R.chance(1, 12)) exec(S("tp %d %lu", b, p));
    if (R.chance(1, 15)) exec(S("%s %d %d", R.chance(1, 2) ? "attach" : "detach", (int)R.below(5), (int)R.below(NBUS)));
  }
}

static const unsigned TPLEN[] = {9, 13, 14, 15, 16, 21, 22, 100, 216, 217, 218, 222, 223};
static unsigned nodeAddr = 25;   // address of the active node on bus 1 (read after it has opened)
static unsigned tpDst(Rng &R) { unsigned k = (unsigned)R.below(4); return k < 2 ? 255 : k == 2 ? nodeAddr : 77; }

// bursts: more frames wait in the driver than one ParseMessages() reads (20); every message completed by any of them must still
// be passed on exactly once, by that or a later poll
static void burstCase(Rng &R) {
  const unsigned long pg[] = {127488UL, 130306UL, 129025UL, 65300UL, 127250UL};
  exec(S("reset 0 %lu %lu 0 %lu", pg[0], pg[1], 129029UL)); exec("batch ?");
  for (int h = 0; h < 5; h++) exec(S("attach %d %d", h, h == 3 ? 1 : (int)R.below(NBUS)));
  exec("attach 0 0"); exec("attach 3 1"); exec("cb 0 1"); if (R.chance(1, 2)) exec("cb 1 1");
  int b = (int)R.below(NBUS);
  exec(S("hold %d 1", b));
  int want = (int)R.range(21, 75), queued = 0; unsigned seq = (unsigned)R.below(8);
  while (queued < want) {
    unsigned r = (unsigned)R.below(100);
    if (r < 70) { exec(S("msg %d %lu", b, pg[R.below(5)])); queued += 1; }
    else if (r < 85) { exec(fpLine(R, b, 129029UL, 0x51, (unsigned)R.range(0, 45), seq++, R.chance(2, 3) ? 0 : (int)R.range(1, NDMG - 1))); queued += lastFpFrames; }
    else if (r < 92) { unsigned len = TPLEN[R.below(sizeof TPLEN / sizeof TPLEN[0])]; exec(S("tp %d %lu %u %u", b, R.chance(1, 2) ? 129029UL : 130820UL, len, tpDst(R))); queued += 1 + (int)((len + 6) / 7); }
    else if (r < 96) exec(S("msg %d %lu", 1 - b, pg[R.below(5)]));     // the other bus is polled as usual
    else if (queued > 20) exec(S("poll %d", b));
  }
  if (R.chance(1, 2)) exec(S("poll %d", b));
  exec(S("drain %d", b)); exec(S("poll %d", b));
  exec(S("hold %d 0", b)); exec(S("msg %d %lu", b, pg[0]));
  C.count("burst_cases");
}

// every announced payload length incl. the largest message the library holds (223 bytes), broadcast (BAM) and addressed (RTS) to
// the node itself and to somebody else
static void tpCase(Rng &R) {
  exec(S("reset 0 %lu %lu 0 %lu %lu", 129029UL, 130820UL, TP_CM_PGN, TP_DT_PGN)); exec("batch ?");
  for (int h = 0; h < 6; h++) exec(S("attach %d %d", h, h == 3 ? 1 : h == 0 ? 0 : (int)R.below(NBUS)));
  exec("cb 0 1"); exec("cb 1 1");
  for (unsigned len : TPLEN) for (unsigned dst : {255u, nodeAddr, 77u}) {
    int b = (int)R.below(NBUS);
    exec(S("tp %d %lu %u %u", b, R.chance(1, 2) ? 129029UL : 130820UL, len, dst));
    if (R.chance(1, 4)) exec(S("msg %d %lu", b, 127488UL));
  }
  for (int i = 0; i < 12; i++) {   // one source, two destinations at once (BAM + RTS to the node / to a third party)
    unsigned da = i % 3 == 0 ? 255 : i % 3 == 1 ? nodeAddr : 77, db = i % 3 == 0 ? nodeAddr : i % 3 == 1 ? 77 : 255;
    exec(S("tp2 %d %lu %u %u %lu %u %u", (int)R.below(NBUS), 129029UL, TPLEN[R.below(sizeof TPLEN / sizeof TPLEN[0])], da, 130820UL, TPLEN[R.below(sizeof TPLEN / sizeof TPLEN[0])], db));
  }
  C.count("tp_cases");
}

// configuration: "handle only known messages" and the message-forwarding options, set and cleared in any order, then known and
// unknown PGNs by every path (single frame, fast packet, transport protocol)
static void modeCase(Rng &R, int nops) {
  const unsigned long pg[] = {127488UL, 65300UL, 65301UL, 61184UL, 129029UL, 130816UL, 59904UL, 126720UL};
  exec(S("reset 0 0 %lu %lu %lu %lu", pg[0], pg[1], pg[4], pg[5])); exec("batch ?");
  for (int h = 0; h < 6; h++) exec(S("attach %d %d", h, h == 1 ? 1 : h == 0 ? 0 : (int)R.below(NBUS)));
  exec("cb 0 1"); exec("cb 1 1");
  unsigned seq = 0;
  for (int i = 0; i < nops; i++) {
    int b = (int)R.below(NBUS); unsigned r = (unsigned)R.below(100);
    if (r < 30) exec(S("mode %d %d %d", b, (int)R.range(1, 4), (int)R.below(2)));
    else if (r < 70) exec(S("msg %d %lu", b, pg[R.below(8)]));
    else if (r < 82) exec(S("tp %d %lu %u %u", b, pg[R.below(6)], TPLEN[R.below(sizeof TPLEN / sizeof TPLEN[0])], tpDst(R)));
    else exec(fpLine(R, b, R.chance(1, 2) ? 129029UL : 130816UL, R.chance(1, 2) ? 0x51 : 0x52, (unsigned)R.range(5, 30), seq++, R.chance(3, 4) ? 0 : (int)R.range(1, NDMG - 1)));
  }
  C.count("mode_cases");
}

// all receive slots held by unfinished fast packets stamped just before the 32-bit millisecond rollover; a message completed after
// the rollover (more than 100 ms later, so the oldest unfinished one may be given up) must still be passed on
static void wrapCase(Rng &R) {
  exec(S("reset 0 %lu %lu", 129029UL, 127488UL)); exec("batch ?");
  int b = (int)R.below(NBUS);
  for (int h = 0; h < 3; h++) exec(S("attach %d %d", h, b));
  exec(S("cb %d 1", b));
  uint64_t W = ((g_now >> 32) + 1) << 32;
  exec(S("clock %llu", (unsigned long long)(W - (uint64_t)R.range(20, 90))));
  for (unsigned i = 0; i < 5; i++) exec(S("fp %d %lu %u 20 %u", b, 129029UL, 0x60 + i, ((unsigned)R.below(8)) * 32));
  exec(S("clock %llu", (unsigned long long)(W + (uint64_t)R.range(120, 5000))));
  if (R.chance(1, 2)) exec(S("msg %d %lu", b, 127488UL)); else exec(S("fp %d %lu %u 9 64,65", b, 129029UL, 0x70));
  exec(S("msg %d %lu", b, 127488UL));
  C.count("clock_wrap_cases");
}

static void randomCase(Rng &R, int len) {
  static const unsigned long pool[] = {0, 0, 127488UL, 127488UL, 130306UL, 59904UL, 60928UL, TP_CM_PGN, TP_DT_PGN, 129029UL, 65280UL, 126992UL, 126208UL, 59392UL, 1UL << 16};
  static const unsigned long msgPool[] = {127488UL, 130306UL, 59904UL, 60928UL, TP_CM_PGN, TP_DT_PGN, 129029UL, 65280UL, 126992UL, 59392UL, 0UL, 126996UL, 61184UL, 130816UL, 1UL << 16};
  const size_t NP = sizeof pool / sizeof pool[0], NM = sizeof msgPool / sizeof msgPool[0];
  exec("reset"); exec("batch ?");
  int nh = (int)R.range(1, MAXH);
  size_t np = (size_t)R.range(2, (int64_t)NP);      // small pools give many equal PGNs
  for (int i = 0; i < len; i++) {
    int h = (int)R.below(nh), b = (int)R.below(NBUS);
    unsigned r = (unsigned)R.below(100);
    if (r < 14) { if (R.chance(1, 3)) exec(S("new %d %lu %d", h, pool[R.below(np)], b)); else exec(S("new %d %lu", h, pool[R.below(np)])); }
    else if (r < 42) exec(S("attach %d %d", h, b));
    else if (r < 54) { if (R.chance(1, 2)) exec(S("detach %d", h)); else exec(S("detach %d %d", h, b)); }
    else if (r < 62) exec(S("destroy %d", h));
    else if (r < 64) exec(S("cb %d %d", b, (int)R.below(2)));
    else if (r < 65) exec(S("mode %d %d %d", b, (int)R.range(1, 4), (int)R.below(2)));
    else if (r < 66) { if (R.chance(1, 2)) exec(S("hold %d %d", b, (int)R.below(2))); else exec(S("poll %d", b)); }
    else if (r < 70) { unsigned long p = pool[R.below(np)]; if (p == TP_CM_PGN || p == TP_DT_PGN) p = 129029UL; if (R.chance(1, 2)) exec(S("tp %d %lu", b, p)); else exec(S("tp %d %lu %u %u", b, p, TPLEN[R.below(sizeof TPLEN / sizeof TPLEN[0])], tpDst(R))); }
    else if (r < 73) exec(fpLine(R, b, R.chance(1, 2) ? 129029UL : 126996UL, 0x51, (unsigned)R.range(0, 40), (unsigned)i, R.chance(1, 2) ? 0 : (int)R.range(1, NDMG - 1)));
    else if (r < 85) exec(S("msg %d %lu", b, pool[R.below(np)]));
    else exec(S("msg %d %lu", b, msgPool[R.below(NM)]));
  }
}

int main(int argc, char **argv) {
  C.init(argc, argv);
  C.rule = "case = op sequence between two resets; non-trivial = at least one message reached a matching handler; distinct = hash of the whole op sequence";
  for (int b = 0; b < NBUS; b++) {
    bus[b] = new Bus();
    if (b == 1) {   // bus 1 is an active node, so requests / claims are really consumed by the library before dispatch
      bus[b]->SetDeviceInformation(4711, 130, 25, 2046);
      bus[b]->SetMode(tNMEA2000::N2km_ListenAndNode, 25);
    }               // bus 0 stays in the default listen-only mode
    openAndSettle(*bus[b], 700);
    bus[b]->sent.clear();
    if (!bus[b]->isOpen()) C.fail("harness:not-open", "bus %d", b);
  }
  nodeAddr = bus[1]->GetN2kSource();
  { // measure how many waiting frames one ParseMessages() call takes from the driver (lone TP.DT frames: they have no effect)
    unsigned char d[8] = {1, 0xff, 0xff, 0xff, 0xff, 0xff, 0xff, 0xff};
    for (int i = 0; i < 300; i++) bus[0]->rx(canId(7, TP_DT_PGN, 0x23, 255), 8, d);
    bus[0]->ParseMessages();
    batchSize = 300 - bus[0]->rxq.size(); if (batchSize == 300) batchSize = 1000000;
    bus[0]->rxq.clear(); bus[0]->sent.clear();
  }
  if (!C.replay.empty()) { for (auto &l : readLines(C.replay)) exec(l); endCase(); C.finish(); return 0; }
  Rng R(C.seed * 0x2545F4914F6CDD1DULL + 0x14);
  const unsigned long a = 127488UL, bb = 130306UL, other = 129025UL;
  // fixed scenarios named in the property
  for (const char *s : {"reset", "batch ?", "new 0 0", "new 1 127488", "attach 0 0", "attach 1 0", "attach 1 0", "msg 0 127488", "attach 1 1", "msg 0 127488", "msg 1 127488",
                        "destroy 1", "msg 1 127488", "new 1 127488 0", "cb 0 1", "msg 0 59904", "msg 0 60928", "msg 1 59904", "msg 1 60928", "msg 0 60416", "msg 0 60160",
                        "tp 0 127488", "tp 1 129029", "detach 0 1", "msg 0 127488", "msg 0 0", "attach 0 0",
                        "fp 0 129029 81 20 64,65,66", "fp 0 129029 81 20 96,98", "fp 0 129029 81 20 97,98", "fp 0 129029 81 20 128,129,129,130",
                        "fp 0 129029 81 5 160", "fp 1 129029 81 20 0,1,2", "tp 0 129029 223", "tp 0 129029 222 77", "tp 1 127488 223 255",
                        "mode 0 4 1", "msg 0 65300", "msg 0 127488", "mode 0 2 0", "msg 0 65300", "mode 0 2 1", "mode 0 4 0", "msg 0 65300", "tp 0 65301 20", "mode 0 2 0"}) exec(s);
  {
    std::string q = "hold 0 1"; exec(q);
    for (int i = 0; i < 45; i++) exec(S("msg 0 %lu", i % 3 == 0 ? 127488UL : i % 3 == 1 ? 130306UL : 129025UL));
    exec("poll 0"); exec("drain 0"); exec("poll 0");
    exec("hold 0 0");
  }
  for (int i = 0; i < (C.thorough ? 60 : 12); i++) burstCase(R);
  for (int i = 0; i < (C.thorough ? 10 : 2); i++) tpCase(R);
  for (int i = 0; i < (C.thorough ? 6 : 2); i++) wrapCase(R);
  for (int i = 0; i < (C.thorough ? 60 : 12); i++) modeCase(R, C.thorough ? 150 : 80);
  C.sample("bursts of 21..75 frames (messages, fast packets, TP transfers) waiting in the driver, polled 20 at a time; TP payloads of 9..223 bytes by BAM and RTS (to the node / to somebody else); handle-only-known and forwarding options set/cleared in any order with known/unknown PGNs by single frame, fast packet and TP");
  for (int i = 0; i < (C.thorough ? 40 : 8); i++) fpCase(R, C.thorough ? 120 : 60);
  C.sample("fast packets: intact, missing first/middle/last frame, wrong counter, duplicate, swapped, wrong sequence id, restart mid-way, truncated then intact; ParseMessages after every frame; callback + all-PGN + PGN handlers on both buses");
  // exhaustive small scopes
  {
    std::string probe = S("probe %lu %lu %lu", a, bb, other);
    int L4 = C.thorough ? 4 : 3;
    exhaustive({0, 0, a, bb}, alphabetFor({0, 0, a, bb}, true, false), L4, probe);
    exhaustive({0, a, a, bb}, alphabetFor({0, a, a, bb}, false, false), L4, probe);
    exhaustive({a, a, a, a}, alphabetFor({a, a, a, a}, false, false), L4, probe);
    if (C.thorough) exhaustive({0, 0, a, bb}, alphabetFor({0, 0, a, bb}, false, false), 5, probe);
    int L3 = C.thorough ? 5 : 4;
    exhaustive({0, a, a}, alphabetFor({0, a, a}, false, false), L3, probe);
    exhaustive({bb, a, 0}, alphabetFor({bb, a, 0}, false, true), L3 - 1, probe);
    int L2 = C.thorough ? 5 : 4;
    exhaustive({a, a}, alphabetFor({a, a}, true, false), L2, probe);
    exhaustive({0, a}, alphabetFor({0, a}, true, false), L2, probe);
    C.sample(S("exhaustive: every sequence of attach(h,bus)/detach/destroy/new of length %d (thorough: 5 without new) over 4 handlers {0,0,a,b},{0,a,a,b},{a,a,a,a}, length %d over 3, length %d over 2 handlers; 2 buses; then probe of 3 PGNs on both buses", L4, L3, L2));
  }
  // long random histories over up to 8 handlers with every PGN class of message
  int ncases = C.thorough ? 4000 : 400;
  for (int i = 0; i < ncases; i++) randomCase(R, (int)R.range(10, C.thorough ? 400 : 150));
  C.sample("random: new/attach/detach(via)/destroy/cb mixed with msg of data, ISO request, address claim, ISO ack, fast-packet, PGN 0, lone TP.CM / TP.DT frames and BAM transfers on a listen-only bus and an active node");
  endCase();
  C.finish();
  return 0;
}
