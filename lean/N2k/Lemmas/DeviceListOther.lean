import N2k.Lemmas.DeviceListInfo
/-!
# C18 helper lemmas, part 4: request sequencing, the reservation for unknown sources, the last-message stamp

`HandleOther` and the tail of `HandleMsg` only change request bookkeeping (`Device.core` of every entry is
unchanged); `AddDevice` adds an entry with NAME 0 under an empty slot. None of them faults under `Inv`.
-/
namespace N2k.DeviceList

/-- a device without its request bookkeeping and last-message stamp -/
def Device.core (d : Device) : Device :=
  { d with nNameRequested := 0, prodIRequested := 0, nProdIRequested := 0, confIRequested := 0,
           nConfIRequested := 0, pgnsRequested := 0, nPGNsRequested := 0, lastMessageTime := 0 }

theorem DevWF.of_core {d d' : Device} (h : d'.core = d.core) (hw : DevWF d) : DevWF d' := by
  have h1 : d'.tx = d.tx := (congrArg Device.tx h : d'.core.tx = d.core.tx)
  have h2 : d'.txSize = d.txSize := (congrArg Device.txSize h : d'.core.txSize = d.core.txSize)
  have h3 : d'.rx = d.rx := (congrArg Device.rx h : d'.core.rx = d.core.rx)
  have h4 : d'.rxSize = d.rxSize := (congrArg Device.rxSize h : d'.core.rxSize = d.core.rxSize)
  have h5 : d'.confI = d.confI := (congrArg Device.confI h : d'.core.confI = d.core.confI)
  have h6 : d'.confISize = d.confISize := (congrArg Device.confISize h : d'.core.confISize = d.core.confISize)
  exact ⟨by rw [h1, h2]; exact hw.tx, by rw [h3, h4]; exact hw.rx, by rw [h5, h6]; exact hw.conf⟩

theorem core_name {d d' : Device} (h : d'.core = d.core) : d'.name = d.name :=
  (congrArg Device.name h : d'.core.name = d.core.name)
theorem core_source {d d' : Device} (h : d'.core = d.core) : d'.source = d.source :=
  (congrArg Device.source h : d'.core.source = d.core.source)

theorem core_prodLoaded {d d' : Device} (h : d'.core = d.core) : d'.prodLoaded = d.prodLoaded :=
  (congrArg Device.prodLoaded h : d'.core.prodLoaded = d.core.prodLoaded)
theorem core_prod {d d' : Device} (h : d'.core = d.core) : d'.prod = d.prod :=
  (congrArg Device.prod h : d'.core.prod = d.core.prod)
theorem core_tx {d d' : Device} (h : d'.core = d.core) : d'.tx = d.tx :=
  (congrArg Device.tx h : d'.core.tx = d.core.tx)
theorem core_rx {d d' : Device} (h : d'.core = d.core) : d'.rx = d.rx :=
  (congrArg Device.rx h : d'.core.rx = d.core.rx)
theorem core_confI {d d' : Device} (h : d'.core = d.core) : d'.confI = d.confI :=
  (congrArg Device.confI h : d'.core.confI = d.core.confI)
theorem core_manI {d d' : Device} (h : d'.core = d.core) : d'.manI = d.manI :=
  (congrArg Device.manI h : d'.core.manI = d.core.manI)
theorem core_inst1 {d d' : Device} (h : d'.core = d.core) : d'.inst1 = d.inst1 :=
  (congrArg Device.inst1 h : d'.core.inst1 = d.core.inst1)
theorem core_inst2 {d d' : Device} (h : d'.core = d.core) : d'.inst2 = d.inst2 :=
  (congrArg Device.inst2 h : d'.core.inst2 = d.core.inst2)

/-- the two entry views agree up to bookkeeping -/
def SameCore (f g : Nat → Option Device) : Prop := ∀ j, (g j).map Device.core = (f j).map Device.core

theorem SameCore.refl (f : Nat → Option Device) : SameCore f f := fun _ => rfl
theorem SameCore.trans {f g h : Nat → Option Device} (a : SameCore f g) (b : SameCore g h) : SameCore f h :=
  fun j => (b j).trans (a j)

theorem SameCore.get {f g : Nat → Option Device} (h : SameCore f g) {j : Nat} {d : Device} (hd : f j = some d) :
    ∃ d', g j = some d' ∧ d'.core = d.core := by
  have := h j
  rw [hd] at this
  cases hg : g j with
  | none => rw [hg] at this; cases this
  | some d' => rw [hg] at this; exact ⟨d', rfl, by simpa using this⟩

theorem SameCore.get_none {f g : Nat → Option Device} (h : SameCore f g) {j : Nat} (hd : f j = none) : g j = none := by
  have := h j
  rw [hd] at this
  cases hg : g j with
  | none => rfl
  | some d' => rw [hg] at this; cases this

theorem SameCore.get_rev {f g : Nat → Option Device} (h : SameCore f g) {j : Nat} {d' : Device} (hd : g j = some d') :
    ∃ d, f j = some d ∧ d'.core = d.core := by
  have := h j
  rw [hd] at this
  cases hf : f j with
  | none => rw [hf] at this; cases this
  | some d => rw [hf] at this; exact ⟨d, rfl, by simpa using this⟩

theorem Good.sameCore {f g : Nat → Option Device} (hf : Good f) (h : SameCore f g) : Good g := by
  refine ⟨?_, ?_⟩
  · intro i j di dj hi hj hn h0
    obtain ⟨di0, hi0, hci⟩ := h.get_rev hi
    obtain ⟨dj0, hj0, hcj⟩ := h.get_rev hj
    refine hf.uniq i j di0 dj0 hi0 hj0 ?_ ?_
    · rw [← core_name hci, ← core_name hcj]; exact hn
    · rw [← core_name hci]; exact h0
  · intro i d hi
    obtain ⟨d0, hi0, hc⟩ := h.get_rev hi
    exact DevWF.of_core hc (hf.wf i d0 hi0)

/-- a state that differs only in the flags / outputs -/
theorem Inv.of_fields {s s' : State} (hi : Inv s) (hS : s'.sources = s.sources) (hH : s'.heap = s.heap)
    (hM : s'.maxDevices = s.maxDevices) (hN : s'.nextId = s.nextId) : Inv s' ∧ devAt s' = devAt s := by
  have hd : devAt s' = devAt s := by funext j; simp [devAt, hS, hH]
  refine ⟨⟨⟨?_, by rw [hM]; exact hi.st.max, ?_⟩, by rw [hd]; exact hi.good⟩, hd⟩
  · intro i id h
    rw [hS] at h
    obtain ⟨a, b, d, hd', c⟩ := hi.st.src i id h
    exact ⟨a, by rw [hM]; exact b, d, by rw [hH]; exact hd', c⟩
  · intro id h
    rw [hN] at h; rw [hH]; exact hi.st.fresh id h

/-- the entry under `a` is rewritten with a device that has the same core -/
theorem touchCore_spec {s s' : State} (hi : Inv s) {a : Nat} {id : Id} {d d' : Device}
    (hs : s.sources a = some id) (hd : s.heap id = some d) (hc : d'.core = d.core)
    (hS : ∀ j, s'.sources j = s.sources j)
    (hH : ∀ x, s'.heap x = if x = id then some d' else s.heap x)
    (hM : s'.maxDevices = s.maxDevices) (hN : s'.nextId = s.nextId) :
    Inv s' ∧ SameCore (devAt s) (devAt s') ∧ devAt s' a = some d' := by
  obtain ⟨d0, hd0, _, hda⟩ := devAt_some hi.st hs
  rw [hd] at hd0; cases hd0
  have hu := update_spec hi hs hd (DevWF.of_core hc (hi.good.wf a d hda)) (core_name hc) (core_source hc) hS hH hM hN
  refine ⟨hu.1, ?_, by rw [hu.2]; simp⟩
  intro j
  rw [hu.2]
  by_cases hj : j = a
  · subst hj; simp [hda, hc]
  · simp [hj]

/-! ## request loops -/

theorem markRequested_core (e : Env) (k : Kind) (d : Device) : (markRequested e k d).core = d.core := by
  cases k <;> rfl

theorem reqLoop_spec (e : Env) (k : Kind) : ∀ (n i : Nat) (s : State), Inv s →
    ∃ r, reqLoop e k n i s = .ok r ∧ Inv r.1 ∧ SameCore (devAt s) (devAt r.1) ∧
      r.1.listUpdated = s.listUpdated ∧ r.1.maxDevices = s.maxDevices := by
  intro n
  induction n with
  | zero => intro i s hi; exact ⟨(s, false), rfl, hi, SameCore.refl _, rfl, rfl⟩
  | succ n ih =>
    intro i s hi
    cases hs : s.sources i with
    | none =>
      obtain ⟨r, hr, h1, h2, h3, h4⟩ := ih (i + 1) s hi
      exact ⟨r, by simp [reqLoop, hs, hr], h1, h2, h3, h4⟩
    | some id =>
      obtain ⟨d, hd, _, hda⟩ := devAt_some hi.st hs
      by_cases hr : ready e k d = true
      · by_cases hc : e.canSend = true
        · have ht := touchCore_spec
            (s' := { ((s.emit d.source k.pgn).put id (markRequested e k d)) with hasPending := true })
            hi hs hd (markRequested_core e k d) (by intro j; rfl) (by intro x; rfl) rfl rfl
          refine ⟨({ ((s.emit d.source k.pgn).put id (markRequested e k d)) with hasPending := true }, true), ?_,
            ht.1, ht.2.1, rfl, rfl⟩
          simp [reqLoop, hs, State.deref, hd, hr, hc]
        · obtain ⟨r, hrr, h1, h2, h3, h4⟩ := ih (i + 1) s hi
          exact ⟨r, by simp [reqLoop, hs, State.deref, hd, hr, hc, hrr], h1, h2, h3, h4⟩
      · have hf := hi.of_fields (s' := { s with hasPending := s.hasPending || should k d }) rfl rfl rfl rfl
        obtain ⟨r, hrr, h1, h2, h3, h4⟩ := ih (i + 1) _ hf.1
        refine ⟨r, by simp [reqLoop, hs, State.deref, hd, hr, hrr], h1, ?_, h3, h4⟩
        rw [hf.2] at h2; exact h2

theorem reqName_spec (e : Env) {s : State} (hi : Inv s) {src : Nat} (hsome : s.sources src ≠ none) :
    ∃ s', reqName e s src = .ok s' ∧ Inv s' ∧ SameCore (devAt s) (devAt s') ∧
      s'.listUpdated = s.listUpdated ∧ s'.maxDevices = s.maxDevices := by
  cases hs : s.sources src with
  | none => exact absurd hs hsome
  | some id =>
    obtain ⟨d, hd, _, hda⟩ := devAt_some hi.st hs
    by_cases hc : d.name = 0 ∧ d.nNameRequested < 20
    · by_cases hsend : e.canSend = true
      · have ht := touchCore_spec
          (s' := { ((s.emit src pgnClaim).put id { d with nNameRequested := d.nNameRequested + 1 }) with hasPending := true })
          hi hs hd (d' := { d with nNameRequested := d.nNameRequested + 1 }) rfl (by intro j; rfl) (by intro x; rfl) rfl rfl
        refine ⟨{ ((s.emit src pgnClaim).put id { d with nNameRequested := d.nNameRequested + 1 }) with hasPending := true },
          ?_, ht.1, ht.2.1, rfl, rfl⟩
        simp [reqName, hs, State.deref, hd, hc, request, hsend]
      · exact ⟨s, by simp [reqName, hs, State.deref, hd, hc, request, hsend], hi, SameCore.refl _, rfl, rfl⟩
    · exact ⟨s, by simp [reqName, hs, State.deref, hd, hc], hi, SameCore.refl _, rfl, rfl⟩

theorem handleOther_spec (e : Env) {s : State} (hi : Inv s) (m : Msg) (hsome : s.sources m.source ≠ none) :
    ∃ s', handleOther e s m = .ok s' ∧ Inv s' ∧ SameCore (devAt s) (devAt s') ∧ s'.listUpdated = s.listUpdated := by
  unfold handleOther
  by_cases h254 : m.source ≥ MaxBusDevices
  · exact ⟨s, by simp [h254], hi, SameCore.refl _, rfl⟩
  · simp only [h254, if_false]
    by_cases hp : s.hasPending = true
    · simp only [hp, Bool.not_true, Bool.false_eq_true, if_false]
      have hf := hi.of_fields (s' := { s with hasPending := false }) rfl rfl rfl rfl
      obtain ⟨s1, h1, hi1, hc1, hl1, _⟩ := reqName_spec e hf.1 (src := m.source) hsome
      rw [hf.2] at hc1
      simp only [h1]
      obtain ⟨r1, hr1, hi2, hc2, hl2, _⟩ := reqLoop_spec e .prod s1.maxDevices 0 s1 hi1
      simp only [hr1]
      by_cases hb1 : (r1.2 || r1.1.hasPending) = true
      · simp only [hb1, if_true]
        exact ⟨_, rfl, hi2, hc1.trans hc2, by rw [hl2, hl1]⟩
      · simp only [hb1, if_false]
        obtain ⟨r2, hr2, hi3, hc3, hl3, _⟩ := reqLoop_spec e .conf r1.1.maxDevices 0 r1.1 hi2
        simp only [hr2]
        by_cases hb2 : (r2.2 || r2.1.hasPending) = true
        · simp only [hb2, if_true]
          exact ⟨_, rfl, hi3, (hc1.trans hc2).trans hc3, by rw [hl3, hl2, hl1]⟩
        · simp only [hb2, if_false]
          obtain ⟨r3, hr3, hi4, hc4, hl4, _⟩ := reqLoop_spec e .pgns r2.1.maxDevices 0 r2.1 hi3
          simp only [hr3]
          exact ⟨_, rfl, hi4, ((hc1.trans hc2).trans hc3).trans hc4, by rw [hl4, hl3, hl2, hl1]⟩
    · simp only [hp, Bool.not_false, if_true]
      exact ⟨s, rfl, hi, SameCore.refl _, rfl⟩

/-! ## the reservation made for an unknown source, the stamp -/

theorem addDevice_spec (e : Env) {s : State} (hi : Inv s) {src : Nat} (hsrc : src < MaxBusDevices)
    (hfree : s.sources src = none) :
    ∃ s', addDevice e s src = .ok s' ∧ Inv s' ∧ s'.listUpdated = s.listUpdated ∧
      ((devAt s' = devAt s ∧ s'.sources src = none) ∨
       (s'.sources src ≠ none ∧
        ∀ j, devAt s' j = if j = src then some ((Device.new e 0).setSource src) else devAt s j)) := by
  unfold addDevice request
  by_cases hc : e.canSend = true
  · simp only [hc, if_true]
    rw [saveDevice_eq hsrc (d := Device.new e 0) (by simp [State.alloc, State.emit])]
    have hsem := add_sem (s' := { ((s.emit src pgnClaim).alloc (Device.new e 0)).place (s.emit src pgnClaim).nextId (Device.new e 0) src with hasPending := true })
      (d := Device.new e 0) hi.st hfree hsrc (by intro j; rfl)
      (by intro x; simp only [State.place, State.alloc, State.emit]
          by_cases h : x = s.nextId <;> simp [h])
      rfl rfl
    refine ⟨_, rfl, ⟨hsem.1, (hi.good.set (a := src) ((DevWF.new e 0).setSource src) (Or.inl rfl)).congr hsem.2⟩, rfl, Or.inr ⟨?_, hsem.2⟩⟩
    simp [State.place]
  · simp only [hc]
    exact ⟨s, rfl, hi, rfl, Or.inl ⟨rfl, hfree⟩⟩

theorem postStep_spec (e : Env) {s : State} (hi : Inv s) (src : Nat) :
    ∃ s', postStep e s src = .ok s' ∧ Inv s' ∧ SameCore (devAt s) (devAt s') ∧ s'.listUpdated = s.listUpdated := by
  unfold postStep
  cases hs : s.sources src with
  | none => exact ⟨s, rfl, hi, SameCore.refl _, rfl⟩
  | some id =>
    obtain ⟨d, hd, _, hda⟩ := devAt_some hi.st hs
    simp only [State.deref, hd]
    by_cases hr : d.name = 0 ∧ d.nNameRequested > 0 ∧ N2k.Time.hasElapsed d.lastMessageTime 60000 (N2k.Time.millis32 e.now) = true
    · simp only [if_pos hr]
      have ht := touchCore_spec
        (s' := ({ s with hasPending := true } : State).put id { ({ d with nNameRequested := 0 } : Device) with lastMessageTime := N2k.Time.millis32 e.now })
        hi hs hd (d' := { ({ d with nNameRequested := 0 } : Device) with lastMessageTime := N2k.Time.millis32 e.now }) rfl
        (by intro j; rfl) (by intro x; rfl) rfl rfl
      exact ⟨_, rfl, ht.1, ht.2.1, rfl⟩
    · simp only [if_neg hr]
      have ht := touchCore_spec (s' := s.put id { d with lastMessageTime := N2k.Time.millis32 e.now })
        hi hs hd (d' := { d with lastMessageTime := N2k.Time.millis32 e.now }) rfl
        (by intro j; rfl) (by intro x; rfl) rfl rfl
      exact ⟨_, rfl, ht.1, ht.2.1, rfl⟩

end N2k.DeviceList
