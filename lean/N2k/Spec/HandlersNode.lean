import N2k.Spec.Handlers
import N2k.Model.HandlersNode
/-! Specification of the calls a history must cause, for any receive side (see `Model/HandlersNode.lean`): built from the
history specification of the handlers (`specStep`) and the receive side's completed messages (`track`) only. -/
namespace N2k.Handlers

structure ExpectG (μ : Type) where
  bus : BusId
  msg : μ
  s : SpecSt

def expectedG {σ ε μ : Type} (track : σ → ε → σ × List (BusId × μ)) : SpecSt → σ → List (EvG ε) → List (List (ExpectG μ))
  | _, _, [] => []
  | s, r, .op o :: evs => [] :: expectedG track (specStep s o) r evs
  | s, r, .rx e :: evs => ((track r e).2.map fun bm => ⟨bm.1, bm.2, s⟩) :: expectedG track s (track r e).1 evs

/-- the call made for a completed message is the right one -/
structure CallOkG {μ : Type} (pgn : μ → Nat) (k : CallG μ) (e : ExpectG μ) : Prop where
  bus : k.bus = e.bus
  /-- exactly that message -/
  msg : k.msg = e.msg
  /-- the plain callback once iff one is set -/
  cb : k.cb = if e.s.cb e.bus then 1 else 0
  /-- no handler twice -/
  nodup : k.hs.Nodup
  /-- exactly the handlers attached to that bus and registered for PGN 0 or the message's PGN -/
  mem : ∀ i, i ∈ k.hs ↔ e.s.matching e.bus (pgn e.msg) i
  /-- handlers for all PGNs before the handlers of the PGN -/
  order : k.hs.Pairwise fun i j => specPgn e.s i ≤ specPgn e.s j

/-- event by event: exactly one call per completed message, in order, and it is the right call; no other call -/
def CallsAgreeG {μ : Type} (pgn : μ → Nat) : List (List (CallG μ)) → List (List (ExpectG μ)) → Prop :=
  Agree (Agree (CallOkG pgn))

end N2k.Handlers
