import N2k.Lemmas.RingRefine
/-!
# C20 — Ring buffers behave as bounded FIFO / priority FIFO queues

Property theorems only. The models are `N2k.Ring.RB` / `N2k.Ring.PRB` (`Model/RingBuffer.lean`,
transcribing `RingBuffer.tpp`), the specifications `N2k.Spec.Fifo` / `N2k.Spec.PLog`
(`Spec/Queues.lean`). Every theorem quantifies over *all* operation sequences, all sizes (also < 3),
all priority counts (also 0 and 255), all out-of-range priorities and all (uninitialised) initial slot
contents.
-/
namespace N2k.C20
open N2k.Ring N2k.Spec

/-! ## refinement for every operation sequence -/

/-- **C20_fifo.** For every size, every initial memory content and every operation sequence, the
plain ring buffer produces exactly the outputs of a list bounded by `size-1`: values come out in the
order added, `add` is refused exactly at `size-1` stored values, `isEmpty`/`count`/`peek` agree. -/
theorem C20_fifo (size : Nat) (buf0 : Nat → Nat) (ops : List Op) :
    run stepRB (RB.new size buf0) ops = run stepFifo (Fifo.new size) ops := by
  refine run_refines stepRB stepFifo (fun r q => r.Inv ∧ r.abs = q) ?_ ops _ _ (RB.inv_new size buf0)
  rintro r q o ⟨hI, rfl⟩
  cases o with
  | add v p => obtain ⟨a, b, c⟩ := RB.add_refines r hI v; exact ⟨by simp [stepRB, stepFifo, a], b, c⟩
  | readP p => exact ⟨rfl, hI, rfl⟩
  | read => obtain ⟨a, b, c⟩ := RB.read_refines r hI; exact ⟨by simp [stepRB, stepFifo, a], b, c⟩
  | peek => exact ⟨by simp [stepRB, stepFifo, RB.peek_refines r hI], hI, rfl⟩
  | clear => obtain ⟨b, c⟩ := RB.clear_refines r hI; exact ⟨rfl, b, c⟩
  | count => exact ⟨by simp [stepRB, stepFifo, RB.count_refines r hI], hI, rfl⟩
  | empty p => exact ⟨by simp [stepRB, stepFifo, RB.isEmpty_refines r hI], hI, rfl⟩

/-- **C20_priority_refinement.** For every size, priority count, initial memory content and every
operation sequence, the priority ring produces exactly the outputs of the log specification: reading
priority `p` returns the oldest alive value of `p`, reading "any" the oldest alive value of the lowest
non-empty priority, an add is refused exactly when `size-1` entries (alive or released out of order)
are in the log. -/
theorem C20_priority_refinement (size prios : Nat) (slot0 : Nat → Slot) (ops : List Op) :
    run stepPRB (PRB.new size prios slot0) ops = run stepPLog (PLog.new size prios) ops := by
  refine run_refines stepPRB stepPLog (fun r q => Inv r ∧ r.abs = q) ?_ ops _ _
    (PRB.inv_new size prios slot0)
  rintro r q o ⟨hI, rfl⟩
  cases o with
  | add v p => obtain ⟨a, b, c⟩ := add_refines r hI v p; exact ⟨by simp [stepPRB, stepPLog, a], b, c⟩
  | readP p => obtain ⟨a, b, c⟩ := readP_refines r hI p; exact ⟨by simp [stepPRB, stepPLog, a], b, c⟩
  | read => obtain ⟨a, b, c⟩ := readAny_refines r hI; exact ⟨by simp [stepPRB, stepPLog, a], b, c⟩
  | peek => exact ⟨rfl, hI, rfl⟩
  | clear => obtain ⟨b, c⟩ := PRB.clear_refines r hI; exact ⟨rfl, b, c⟩
  | count => exact ⟨by simp [stepPRB, stepPLog, PRB.count_refines r hI], hI, rfl⟩
  | empty p => exact ⟨by simp [stepPRB, stepPLog, PRB.isEmpty_refines r hI p], hI, rfl⟩

/-! ## what the specification says (facts about `PLog`, so about every run of the ring) -/

/-- **C20_refusal_rule.** An add is refused iff `size-1` entries have been added since (and
including) the oldest value still stored; in particular an empty log accepts. -/
theorem C20_refusal_rule (q : PLog) (v p : Nat) :
    (q.add v p).2 = false ↔ q.log.length = q.cap := by
  unfold PLog.add; split <;> simp_all

theorem C20_empty_accepts (size prios v p : Nat) : ((PLog.new size prios).add v p).2 = true := by
  have : (0 : Nat) ≠ (if size < 3 then 3 else size) - 1 := by split <;> omega
  simp [PLog.add, PLog.new, this]

/-- the log never starts with a dead entry (released slots at the old end are dropped at once), so
"no alive entry" means "empty log": the ring compacts only from the tail. -/
def HeadAlive (l : List Entry) : Prop := ∀ e t, l = e :: t → e.2 ≠ none

theorem headAlive_dropWhile (l : List Entry) : HeadAlive (l.dropWhile isDead) := by
  induction l with
  | nil => intro e t h; cases h
  | cons a t ih =>
    rw [List.dropWhile_cons]
    split
    · exact ih
    · rename_i hd
      intro e t' h
      injection h with h1 h2
      subst h1
      intro hn
      apply hd
      simp [isDead, hn]

/-- **C20_param_clamp.** Out-of-range priorities act as the highest valid one; sizes below 3 as 3;
priority counts 0 and 255 as 1 and 254. -/
theorem C20_param_clamp (q : PLog) (v p : Nat) (hp : p ≥ q.P) :
    q.add v p = q.add v (q.P - 1) ∧ q.readP p = q.readP (q.P - 1) := by
  have h1 : q.clamp p = q.P - 1 := by simp [PLog.clamp, hp]
  have h2 : q.clamp (q.P - 1) = q.P - 1 := by
    unfold PLog.clamp; split <;> rfl
  simp [PLog.add, PLog.readP, h1, h2]

theorem C20_size_clamp (size prios : Nat) (h : size < 3) : PLog.new size prios = PLog.new 3 prios := by
  simp [PLog.new, h]

/-- reading priority `p` removes exactly the oldest alive `(v, p)` from the alive values: nothing is
lost, duplicated or returned under another priority. -/
theorem aliveOf_markFirst (p : Nat) : ∀ (l : List Entry),
    aliveOf (markFirst p l) =
      match firstOf p l with
      | none => aliveOf l
      | some v => (aliveOf l).erase (v, p)
  | [] => rfl
  | (v, q) :: t => by
    simp only [markFirst, firstOf]
    by_cases hq : q = some p
    · subst hq
      simp [aliveOf, List.filterMap_cons]
    · simp only [hq, ↓reduceIte]
      have ih := aliveOf_markFirst p t
      cases q with
      | none =>
        simp only [aliveOf, List.filterMap_cons, Option.map_none] at ih ⊢
        exact ih
      | some q' =>
        have hne : q' ≠ p := fun e => hq (by rw [e])
        simp only [aliveOf, List.filterMap_cons, Option.map_some] at ih ⊢
        rw [ih]
        cases firstOf p t with
        | none => rfl
        | some w =>
          simp only
          rw [List.erase_cons_tail]
          simp [hne]

theorem aliveOf_dropWhile (l : List Entry) : aliveOf (l.dropWhile isDead) = aliveOf l := by
  induction l with
  | nil => rfl
  | cons e t ih =>
    rw [List.dropWhile_cons]
    obtain ⟨v, q⟩ := e
    cases q with
    | none => simpa [isDead, aliveOf, List.filterMap_cons] using ih
    | some q' => simp [isDead]

/-- **C20_no_loss_no_dup.** Over the alive values (oldest first): add appends `(v, clamp p)`;
a successful read of priority `p` returns `v` and erases the first `(v, clamp p)`; a failed read
changes nothing. -/
theorem C20_alive_add (q : PLog) (v p : Nat) (h : (q.add v p).2 = true) :
    aliveOf (q.add v p).1.log = aliveOf q.log ++ [(v, q.clamp p)] := by
  unfold PLog.add at h ⊢
  split
  · simp_all
  · simp [aliveOf, List.filterMap_append]

theorem firstOf_none_not_mem (c : Nat) : ∀ (l : List Entry), firstOf c l = none →
    ∀ v, (v, c) ∉ aliveOf l
  | [], _, v => by simp [aliveOf]
  | (w, pr) :: t, hf, v => by
    simp only [firstOf] at hf
    split at hf
    · cases hf
    · rename_i hq
      have ih := firstOf_none_not_mem c t hf v
      cases pr with
      | none => simpa [aliveOf, List.filterMap_cons] using ih
      | some q' =>
        simp only [aliveOf, List.filterMap_cons, Option.map_some, List.mem_cons, not_or] at ih ⊢
        refine ⟨?_, ih⟩
        intro he; injection he with _ h2; exact hq (by rw [h2])

theorem firstOf_some_split (c v : Nat) : ∀ (l : List Entry), firstOf c l = some v →
    ∃ pre post, aliveOf l = pre ++ (v, c) :: post ∧ ∀ w, (w, c) ∉ pre
  | [], hf => by cases hf
  | (w, pr) :: t, hf => by
    simp only [firstOf] at hf
    split at hf
    · rename_i hq; subst hq; injection hf with hf; subst hf
      exact ⟨[], aliveOf t, by simp [aliveOf, List.filterMap_cons], by simp⟩
    · rename_i hq
      obtain ⟨pre, post, h1, h2⟩ := firstOf_some_split c v t hf
      cases pr with
      | none => exact ⟨pre, post, by simpa [aliveOf, List.filterMap_cons] using h1, h2⟩
      | some q' =>
        refine ⟨(w, q') :: pre, post, ?_, ?_⟩
        · simp only [aliveOf, List.filterMap_cons, Option.map_some, List.cons_append] at h1 ⊢
          rw [h1]
        · intro u hu
          simp only [List.mem_cons] at hu
          rcases hu with hu | hu
          · injection hu with _ h3; exact hq (by rw [h3])
          · exact h2 u hu

theorem C20_alive_readP_none (q : PLog) (p : Nat) (h : (q.readP p).2 = none) :
    (q.readP p).1 = q ∧ ∀ v, (v, q.clamp p) ∉ aliveOf q.log := by
  unfold PLog.readP at h ⊢
  cases hf : firstOf (q.clamp p) q.log with
  | none => exact ⟨rfl, firstOf_none_not_mem _ _ hf⟩
  | some v => rw [hf] at h; cases h

theorem C20_alive_readP_some (q : PLog) (p v : Nat) (h : (q.readP p).2 = some v) :
    aliveOf (q.readP p).1.log = (aliveOf q.log).erase (v, q.clamp p) ∧
    ∃ pre post, aliveOf q.log = pre ++ (v, q.clamp p) :: post ∧ ∀ w, (w, q.clamp p) ∉ pre := by
  unfold PLog.readP at h ⊢
  have hm := aliveOf_markFirst (q.clamp p) q.log
  cases hf : firstOf (q.clamp p) q.log with
  | none => rw [hf] at h; cases h
  | some v' =>
    rw [hf] at h hm
    injection h with h
    subst h
    exact ⟨by show aliveOf (List.dropWhile _ _) = _; rw [aliveOf_dropWhile, hm],
           firstOf_some_split _ _ _ hf⟩

/-- reading "any" serves the numerically lowest priority that has an alive value -/
theorem C20_lowest_is_least (l : List Entry) : ∀ (k p0 : Nat),
    match lowest l k p0 with
    | none => ∀ p, p0 ≤ p → p < p0 + k → hasPrio l p = false
    | some p => p0 ≤ p ∧ p < p0 + k ∧ hasPrio l p = true ∧ ∀ p', p0 ≤ p' → p' < p → hasPrio l p' = false
  | 0, p0 => by simp only [lowest]; intro p h1 h2; omega
  | k+1, p0 => by
    simp only [lowest]
    by_cases hp : hasPrio l p0 = true
    · simp only [hp, ↓reduceIte]
      exact ⟨Nat.le_refl _, by omega, trivial, fun p' h1 h2 => by omega⟩
    · simp only [hp]
      have ih := C20_lowest_is_least l k (p0 + 1)
      have hp' : hasPrio l p0 = false := by simpa using hp
      cases hl : lowest l k (p0 + 1) with
      | none =>
        rw [hl] at ih
        simp only [Bool.false_eq_true, ↓reduceIte]
        intro p h1 h2
        by_cases he : p = p0
        · rw [he]; exact hp'
        · exact ih p (by omega) (by omega)
      | some p =>
        rw [hl] at ih
        simp only [Bool.false_eq_true, ↓reduceIte]
        obtain ⟨a, b, c, d⟩ := ih
        refine ⟨by omega, by omega, c, ?_⟩
        intro p' h1 h2
        by_cases he : p' = p0
        · rw [he]; exact hp'
        · exact d p' (by omega) h2

/-! ## non-vacuity: a concrete run through both models (out-of-order release, refusal, wrap) -/

example :
    run stepPRB (PRB.new 2 0 fun _ => ⟨7, some 9, some 9⟩)
      [.add 10 1, .add 11 0, .add 12 5, .readP 0, .add 13 0, .read, .add 13 0, .read, .empty 0, .count]
    = [.bool true, .bool true, .bool false, .val (some 10), .bool true, .valp (some (11, 0)),
       .bool true, .valp (some (13, 0)), .bool false, .num 1] := by decide

end N2k.C20
