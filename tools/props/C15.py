"""C15 - setter output follows the published NMEA 2000 field layout (frozen table vs regenerated setter layouts)."""
SPEC = {
    'engine': 'layout', 'harness': 'published.cpp',
    'repo_srcs': ['N2kMsg.cpp', 'N2kStream.cpp', 'N2kMessages.cpp', 'N2kMaretron.cpp', 'N2kTimer.cpp', 'N2kGroupFunction.cpp',
                  'N2kGroupFunctionDefaultHandlers.cpp', 'NMEA2000.cpp'],
    'cxxflags': ['-fsanitize-recover=float-cast-overflow'],
    'lean_modules': ['N2k.Props.C15'], 'props_files': ['N2k/Props/C15.lean'],
    'translators': ['published'],   # runs the layout translator itself, then copies the frozen table for the harness
    'case_start': ['set', 'pgnlist', 'prodinfo'],
    'trusted_base': [
        "frozen specification lean/N2k/Spec/PublishedLayouts.lean: 31 hand-written tables (field name, bit offset, length, "
        "signedness, resolution, library parameter) written from the public PGN definitions (canboat-style field lists, as "
        "reproduced in the doc comments of N2kMessages.h / NMEA2000.h), NOT from the setter code; an error in the table is a "
        "false alarm or a missed defect. Its C++ copy for the harness is generated from the same text on every run "
        "(tools/translators/published.py)",
        "setter layouts: regenerated from the C++ source on every run by the C05 translator tools/translators/layouts.py "
        "(clang AST, per-bit symbolic evaluation) and validated on every run against the real setters' bytes (correspondence)",
        "setters that branch on an integer parameter (126993 interval limit, 129029 reference stations) are read once per path "
        "(pairs <pgn>_a / <pgn>_b (longest payload first)); `x / constant` of a whole unsigned parameter is read as the parameter's code with a side "
        "record of that resolution (truncating division, done by `Pair.intCode` in the driver). PGN 126464 (loop) is outside "
        "the layout language: harness' table-driven encoder only",
        "every public setter of a listed PGN - main function, overloads and the inline alias wrappers of the headers - has a "
        "setter layout (wrappers are read through the function they forward to) and is compared with the published table of "
        "its PGN or with its own frozen table (flag overloads: one published status bit per flag; wrappers that fix a field: "
        "constants); plain integer fields are as wide as PUBLISHED (cut to the C type), not as the setter happens to mask",
        "repeated records (129029 reference stations): frozen (count field, fixed bytes, bytes per record); the kernel checks on "
        "every fully translated setter path that payload length = fixed part + count records for every count value the path "
        "condition admits (C15_record_counts); the harness compares count field and payload length on every tuple",
        "PGN 126996 is also produced through a real node behind the mock driver (stored product information -> "
        "SendProductInformation, frames reassembled) and compared with the published table (oracle only)",
        "enumerated fields: a frozen table (enumerator name -> published numeric code, numeric literals) is compared by the "
        "kernel with the enumerations as read from the headers on this run (C15_enum_*), and the harness looks the passed value "
        "up BY NAME among the enumerators as compiled from the real headers and demands the published code on the wire",
        "scaled fields: the theorem pins offset, byte width, signedness and resolution of the Add<N>Byte[U]Double call; the "
        "double->code conversion itself is property C06",
        "signedness of integer fields is checked when the parameter fills its C type (int8_t/int16_t vs published signed); "
        "enumerations, flags and status unions are compared as bit patterns",
    ],
    'assumptions': ["parameter values within the documented ranges (below 2^W: enumerators/bit patterns of the field, integers "
                    "that fit the stored bits, scaled values between the minimum and the out-of-range code)",
                    "bits that belong to no published field, or to a published field for which the library has no parameter, are "
                    "not constrained", "x86-64 LP64 little endian, IEEE double"],
}
MANIFEST = {
    'text': "For 31 of the 32 listed PGNs a frozen hand-written table of the published layout is compared, by kernel-checked "
            "`decide`, with the setter layout that a translator regenerates from the C++ source on every run: every published "
            "field with a library parameter must be driven, bit by bit and little endian, by that parameter at the published "
            "offset and length, scaled fields with the published byte width, signedness and resolution, integer fields with the "
            "published signedness. A generic theorem (proved once) turns agreement into: for ALL parameter values the payload "
            "bits [offset, offset+length) hold the parameter's code. The correspondence run ties the generated layouts to the "
            "real setters' bytes; an independent table-driven encoder built from the published table checks the real bytes "
            "directly (all enumerators, NA, boundaries, negatives, single bits, random), including PGN 126464 and the fields "
            "written inside conditionals. A symmetric error (same wrong resolution or swapped fields in setter and parser) "
            "passes C05 and fails here (confirmed with seeded changes).",
    'design_ref': 'DESIGN.md section 4, C15',
    'note': "Trusted: Lean kernel; the hand-written published table (each disagreement with the pinned tree was reviewed: 126993 interval "
            "unit - fixed by 0fcb326 and now proved at full strength - and 129284 ETA date signedness, open); the layout translator (validated by "
            "the differential run). Not in the theorems: 126464 (repeated field) - oracle only."
            "",
}
