import N2k.Model.Seasmart
import Driver.Util
-- engine: seasmart
/-! Engine `seasmart` (C19): runs `exportM` / `importS` of the model.

ops: `exp <pgn> <src> <ts> <size> <datahex> [wrap|refuse]` → `<ret> <buffer hex>` (buffer of `size` bytes, initially 0xA5)
     `imp <string hex>`                       → `0` | `1 <pgn> <ts> <src> <datahex>` | `fault` -/
namespace Driver.Seasmart
open N2k.Seasmart Driver

def step (_ : Unit) (w : List String) : Unit × String :=
  match w with
  | ["exp", pgn, src, ts, size, data] =>
    match nat? pgn, nat? src, nat? ts, nat? size, hexBytes? data with
    | some pgn, some src, some ts, some size, some data =>
      match exportM ⟨pgn, src, data⟩ ts (List.replicate size 0xA5) with
      | .ok (r, buf) => ((), s!"{r} {hexOfBytes buf}")
      | .error _ => ((), "fault")
    | _, _, _, _, _ => ((), "bad-op")
  -- PGN beyond 24 bits is outside the property's domain; the harness reports which behaviour the library has
  | ["exp", pgn, src, ts, size, data, pol] =>
    match nat? pgn, nat? src, nat? ts, nat? size, hexBytes? data with
    | some pgn, some src, some ts, some size, some data =>
      if pol = "refuse" ∧ pgn ≥ 2 ^ 24 then ((), s!"0 {hexOfBytes (List.replicate size 0xA5)}") else
      match exportM ⟨pgn, src, data⟩ ts (List.replicate size 0xA5) with
      | .ok (r, buf) => ((), s!"{r} {hexOfBytes buf}")
      | .error _ => ((), "fault")
    | _, _, _, _, _ => ((), "bad-op")
  | ["probe", _] => ((), "ok")
  | ["imp", str] =>
    match hexBytes? str with
    | some s =>
      match importS s with
      | .ok none => ((), "0")
      | .ok (some r) => ((), s!"1 {r.pgn} {r.ts} {r.src} {hexOfBytes r.data}")
      | .error _ => ((), "fault")
    | none => ((), "bad-op")
  | _ => ((), "bad-op")

def main : IO Unit := loop step ()

end Driver.Seasmart
