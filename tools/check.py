#!/usr/bin/env python3
"""check.py <Cxx> [--tier quick|thorough] [--replay <path>]

One run = translate -> prove (lake build + axiom audit) -> build harness from /repo/src as it is now ->
correspondence (real code vs Lean model on the same op lines) -> model-independent oracle -> decide ->
write evidence/<Cxx>.json.   See DESIGN.md section 2.2.

Exit 0: property held on everything explored (KNOWN-FINDING lines may be printed).
Exit 1: a line  VIOLATION property=<id> replay=<path> [no-failing-input-found]  was printed.
"""
import sys, os, re, json, time, subprocess, hashlib, fcntl, shutil, glob

VERIF = os.path.dirname(os.path.dirname(os.path.abspath(__file__)))
sys.path.insert(0, os.path.join(VERIF, 'tools'))
import registry  # noqa: E402
import gen_driver_main  # noqa: E402
import gen_spec  # noqa: E402

REPO = os.environ.get('N2K_REPO', '/repo')
SRC = os.path.join(REPO, 'src')
LEAN = os.path.join(VERIF, 'lean')
BUILD = os.path.join(VERIF, 'build')
ALLOWED_AXIOMS = {'propext', 'Classical.choice', 'Quot.sound'}
FORBIDDEN = re.compile(r'\bsorry\b|\badmit\b|^\s*axiom\s|native_decide|bv_decide|implemented_by|\bunsafe\s|maxHeartbeats\s+0')
CXXFLAGS = ['-std=c++11', '-O1', '-g', '-fsanitize=address,undefined,float-cast-overflow,float-divide-by-zero',
            '-fno-sanitize-recover=all', '-fno-omit-frame-pointer', '-w']
T32 = ['-U__linux__', '-U__linux', '-Ulinux', '-DN2K_VERIF_T32=1']
GUARD = 'N2K_VERIF_HOOKS'


def log(*a):
    print(*a, flush=True)


def run(cmd, **kw):
    return subprocess.run(cmd, stdout=subprocess.PIPE, stderr=subprocess.STDOUT, text=True, **kw)


class Lock:
    def __init__(self, name):
        os.makedirs(BUILD, exist_ok=True)
        self.path = os.path.join(BUILD, name)

    def __enter__(self):
        self.f = open(self.path, 'w')
        fcntl.flock(self.f, fcntl.LOCK_EX)

    def __exit__(self, *a):
        fcntl.flock(self.f, fcntl.LOCK_UN)
        self.f.close()


# ------------------------------------------------------------------------------------------------ Lean

def strip_comments(text):
    text = re.sub(r'/-.*?-/', lambda m: '\n' * m.group(0).count('\n'), text, flags=re.S)
    return re.sub(r'--.*', '', text)


def lean_sources():
    out = []
    for root, _, files in os.walk(LEAN):
        if '.lake' in root:
            continue
        for f in files:
            if f.endswith('.lean'):
                out.append(os.path.join(root, f))
    return sorted(out)


def import_closure(modules):
    """files (relative to lean/) reachable from the given modules through `import N2k.* / Driver.*` lines"""
    seen, todo = set(), list(modules)
    while todo:
        m = todo.pop()
        rel = m.replace('.', '/') + '.lean'
        if rel in seen or not os.path.exists(os.path.join(LEAN, rel)):
            continue
        seen.add(rel)
        for imp in re.findall(r'^import\s+((?:N2k|Driver)[\w.]*)', open(os.path.join(LEAN, rel)).read(), re.M):
            todo.append(imp)
    return seen


def forbidden_scan(modules):
    """sorry/admit/axiom/native_decide/... in any file the property's theorems or the driver depend on"""
    hits = []
    for rel in sorted(import_closure(list(modules) + ['Driver.Main'])):
        p = os.path.join(LEAN, rel)
        for i, line in enumerate(strip_comments(open(p).read()).split('\n'), 1):
            if FORBIDDEN.search(line):
                hits.append('%s:%d: %s' % (os.path.relpath(p, VERIF), i, line.strip()))
    return hits


def theorems_in(props_file):
    """-> (namespace, [theorem names]) of a Props/Cxx.lean file (comments stripped)."""
    text = strip_comments(open(os.path.join(LEAN, props_file)).read())
    ns = re.search(r'^namespace\s+(\S+)', text, re.M)
    ns = ns.group(1) if ns else ''
    names = re.findall(r'^(?:private\s+|protected\s+)?theorem\s+([^\s:({\[]+)', text, re.M)
    return ns, names


def lake_build(targets, engines=(), pid=None):
    """build under the lock and, still under the lock, take a private copy of the driver (another check running
    concurrently may regenerate Driver/Main.lean with a different engine set and relink n2kdrv)"""
    with Lock('lake.lock'):
        gen_driver_main.run(engines)
        t0 = time.time()
        r = run(['lake', 'build'] + targets, cwd=LEAN)
        drv = os.path.join(LEAN, '.lake', 'build', 'bin', 'n2kdrv')
        if pid and os.path.exists(drv):
            os.makedirs(os.path.join(BUILD, pid), exist_ok=True)
            shutil.copy2(drv, os.path.join(BUILD, pid, 'n2kdrv'))
        return r.returncode == 0, r.stdout, time.time() - t0


def axiom_audit(pid, modules, ns, names):
    """-> dict name -> list of axioms, or None if the theorem is missing"""
    os.makedirs(os.path.join(BUILD, 'audit'), exist_ok=True)
    path = os.path.join(BUILD, 'audit', 'audit_%s.lean' % pid)
    with open(path, 'w') as f:
        for m in modules:
            f.write('import %s\n' % m)
        for n in names:
            f.write('#print axioms %s.%s\n' % (ns, n))
    with Lock('lake.lock'):
        r = run(['lake', 'env', 'lean', path], cwd=LEAN)
    res = {}
    txt = r.stdout.replace('\n  ', ' ').replace('\n ', ' ')
    for n in names:
        full = '%s.%s' % (ns, n)
        m = re.search(r"'%s' depends on axioms: \[([^\]]*)\]" % re.escape(full), txt)
        if m:
            res[n] = [a.strip() for a in m.group(1).split(',') if a.strip()]
        elif re.search(r"'%s' does not depend on any axioms" % re.escape(full), txt):
            res[n] = []
        else:
            res[n] = None
    return res, r.stdout


# --------------------------------------------------------------------------------------------- harness

def sha(*parts):
    h = hashlib.sha256()
    for p in parts:
        h.update(p if isinstance(p, bytes) else p.encode())
        h.update(b'\0')
    return h.hexdigest()[:24]


def headers_digest():
    h = hashlib.sha256()
    for p in sorted(glob.glob(os.path.join(SRC, '*.h')) + glob.glob(os.path.join(SRC, '*.tpp')) +
                    glob.glob(os.path.join(VERIF, 'harness', '*.h')) + glob.glob(os.path.join(BUILD, 'gen', '*.h'))):
        h.update(p.encode()); h.update(open(p, 'rb').read())
    return h.hexdigest()


def compile_obj(src, flags, hdig):
    """compile one translation unit into a content-addressed object file (safe to share between runs)"""
    objdir = os.path.join(BUILD, 'obj')
    os.makedirs(objdir, exist_ok=True)
    key = sha(open(src, 'rb').read(), ' '.join(flags), hdig, src)
    obj = os.path.join(objdir, key + '.o')
    if os.path.exists(obj):
        return obj, None
    tmp = obj + '.%d.tmp' % os.getpid()
    r = run(['g++'] + flags + ['-I' + SRC, '-I' + os.path.join(VERIF, 'harness'), '-I' + os.path.join(BUILD, 'gen'), '-c', src, '-o', tmp])
    if r.returncode != 0:
        return None, r.stdout
    os.replace(tmp, obj)
    return obj, None


def build_harness(pid, spec, variant):
    """variant: '' | 't32' | 't64' -> path of binary or (None, error text)"""
    base = [f for f in CXXFLAGS if 'sanitize' not in f and f != '-fno-omit-frame-pointer'] if variant.startswith('mc') else CXXFLAGS
    flags = base + ['-D%s=1' % GUARD] + (T32 if variant in ('t32', 'mc_t32') else []) + (['-DN2K_VERIF_MEMCHECK=1'] if variant.startswith('mc') else []) + spec.get('cxxflags', [])
    gen_spec.run()
    hdig = headers_digest()
    srcs = [os.path.join(VERIF, 'harness', spec['harness'])] + [os.path.join(SRC, s) for s in spec.get('repo_srcs', [])]
    from concurrent.futures import ThreadPoolExecutor
    with ThreadPoolExecutor(max_workers=8) as ex:
        res = list(ex.map(lambda s: compile_obj(s, flags, hdig), srcs))
    for (o, err), s in zip(res, srcs):
        if o is None:
            return None, 'compile failed: %s\n%s' % (s, err)
    outdir = os.path.join(BUILD, pid)
    os.makedirs(outdir, exist_ok=True)
    binp = os.path.join(outdir, 'harness_%s%s' % (spec['engine'], '_' + variant if variant else ''))
    r = run(['g++'] + flags + [o for o, _ in res] + ['-o', binp] + spec.get('ldflags', []))
    if r.returncode != 0:
        return None, 'link failed:\n' + r.stdout
    return binp, None


def run_harness(binp, outdir, seed, tier, replay=None, timeout=3600, asan_extra='', wrapper=(), extra_env=None):
    os.makedirs(outdir, exist_ok=True)
    for f in ('ops.txt', 'impl.out', 'oracle.txt', 'stats.json', 'model.out'):
        try:
            os.remove(os.path.join(outdir, f))
        except OSError:
            pass
    env = dict(os.environ, ASAN_OPTIONS='detect_leaks=0:abort_on_error=0:allocator_may_return_null=1' + asan_extra,
               UBSAN_OPTIONS='print_stacktrace=1:halt_on_error=1')
    env.update(extra_env or {})
    cmd = list(wrapper) + [binp, outdir, str(seed), tier] + ([replay] if replay else [])
    try:
        r = subprocess.run(cmd, stdout=subprocess.PIPE, stderr=subprocess.STDOUT, text=True, env=env,
                           timeout=timeout, errors='replace')
        return r.returncode, r.stdout
    except subprocess.TimeoutExpired as e:
        return -999, 'TIMEOUT after %ds\n%s' % (timeout, (e.stdout or b'')[-2000:] if e.stdout else '')


def run_driver(engine, outdir):
    drv = os.path.join(os.path.dirname(outdir), 'n2kdrv')
    if not os.path.exists(drv):
        drv = os.path.join(LEAN, '.lake', 'build', 'bin', 'n2kdrv')
    with open(os.path.join(outdir, 'ops.txt')) as fin, open(os.path.join(outdir, 'model.out'), 'w') as fout:
        r = subprocess.run([drv, engine], stdin=fin, stdout=fout, stderr=subprocess.PIPE, text=True)
    return r.returncode, r.stderr


def read_lines(path):
    try:
        with open(path, errors='replace') as f:
            return f.read().split('\n')[:-1] if os.path.getsize(path) else []
    except OSError:
        return []


def case_of(ops, idx, case_start):
    """op lines of the case enclosing 0-based op index idx (from the last case-start line up to idx)"""
    i = idx
    while i > 0 and ops[i].split(' ')[0] not in case_start:
        i -= 1
    return ops[i:idx + 1]


# --------------------------------------------------------------------------------------------- findings

def load_findings(pid):
    out = {}
    for p in [os.path.join(VERIF, 'known_findings.json')] + sorted(glob.glob(os.path.join(VERIF, 'known_findings.d', '*.json'))):
        if os.path.exists(p):
            for e in json.load(open(p)).get('findings', []):
                if e.get('property') == pid:
                    out[e['key']] = e
    return out


def write_replay(pid, kind, payload):
    d = os.path.join(VERIF, 'replays', pid)
    os.makedirs(d, exist_ok=True)
    n = len(glob.glob(os.path.join(d, '*.json')))
    path = os.path.join(d, '%s_%03d.json' % (kind, n))
    payload = dict(payload, property=pid, kind=kind,
                   how_to_rerun='python3 tools/check.py %s --replay %s' % (pid, os.path.relpath(path, VERIF)))
    with open(path, 'w') as f:
        json.dump(payload, f, indent=1)
    return os.path.relpath(path, VERIF)



VALGRIND = ['valgrind', '--error-exitcode=9', '--exit-on-first-error=yes', '-q']
VALGRIND_ALL = ['valgrind', '--error-exitcode=9', '--error-limit=no', '-q']   # all reports; only those raised inside /repo/src code count


def crash_info(pid, hout, rc):
    """-> (key, text) for a harness that did not exit 0: sanitizer report, valgrind memcheck report, signal or timeout"""
    m = re.search(r'(ERROR: AddressSanitizer: [\w-]+|runtime error: [^\n]*|SEGV[^\n]*|TIMEOUT[^\n]*)', hout)
    vg = re.search(r'==\d+== ((?:Conditional jump|Use of uninitialised|Invalid (?:read|write|free)|Syscall param|Mismatched free|Source and destination overlap)[^\n]*)', hout)
    if m:
        what = m.group(1)
        fn = re.search(r'#\d+ 0x[0-9a-f]+ in ([\w:~<>]+)[^\n]*?/src/', hout)
    elif vg:
        srcs = set(os.path.basename(f) for f in glob.glob(os.path.join(SRC, '*')))
        what, fn = None, None
        # report blocks; a block counts when the access itself (its `at` frame, inlined frames included) is in library code
        for blk in re.split(r'\n==\d+== \n', hout):
            hm = re.search(r'==\d+== ((?:Conditional jump|Use of uninitialised|Invalid (?:read|write|free)|Syscall param|Mismatched free|Source and destination overlap)[^\n]*)', blk)
            am = re.search(r'==\d+==\s+at 0x[0-9A-F]+: ([\w:~<>]+)[^\n]*\((\w+\.\w+):\d+\)', blk)
            if hm and am and am.group(2) in srcs:
                what, fn = 'valgrind memcheck: ' + hm.group(1), am
                break
        if what is None:
            return None, 'valgrind memcheck: reports outside the library only'
    else:
        what, fn = 'harness exit code %d' % rc, None
    return '%s:crash:%s' % (pid, fn.group(1) if fn else 'unknown'), what


# ---------------------------------------------------------------------------------------------- shrinking

def shrink_case(pid, ent, seed, tier, budget_s=45.0):
    """delta-debug the op lines of a failing case: the smallest sub-sequence (first line kept: it starts the case) on which the
    real code still produces an oracle failure / crash with the same key.  Returns (ops, info)."""
    binp, spec, key, ops = ent.get('_bin'), ent.get('_spec'), ent['key'], list(ent.get('case') or [])
    info = {'original_ops': len(ops), 'runs': 0}
    if not binp or not spec or len(ops) < 2:
        return ops, dict(info, reproduced=None)
    outdir = os.path.join(BUILD, pid, 'shrink')
    tmp = os.path.join(BUILD, pid, 'shrink_ops.txt')
    t_end = time.time() + budget_s

    def bad(cand):
        info['runs'] += 1
        open(tmp, 'w').write('\n'.join(cand) + '\n')
        rc, hout = run_harness(binp, outdir, seed, tier, tmp, timeout=120, asan_extra=spec.get('asan_options', ''),
                               wrapper=ent.get('_wrapper') or (), extra_env=ent.get('_env'))
        if ':crash:' in key:
            return rc != 0 and key == crash_info(pid, hout, rc)[0]
        for l in read_lines(os.path.join(outdir, 'oracle.txt')):
            parts = l.split(' ', 3)
            if len(parts) >= 3 and parts[0] == 'FAIL' and parts[1] == key:
                return True
        return False

    if not bad(ops):
        return ops, dict(info, reproduced=False)
    head, rest = ops[:1], ops[1:]
    n = 2
    while len(rest) >= 2 and time.time() < t_end:
        chunk = max(1, len(rest) // n)
        reduced = False
        for i in range(0, len(rest), chunk):
            cand = rest[:i] + rest[i + chunk:]
            if time.time() >= t_end:
                break
            if cand != rest and bad(head + cand):
                rest, n, reduced = cand, max(n - 1, 2), True
                break
        if not reduced:
            if chunk == 1:
                break
            n = min(len(rest), n * 2)
    return head + rest, dict(info, reproduced=True, shrunk_ops=len(head + rest), budget_exhausted=time.time() >= t_end)


# ------------------------------------------------------------------------------------------------- main

def one_pass(pid, spec, variant, binp, seed, tier, findings, res, replay=None, wrapper=(), extra_env=None, crash_only=False):
    """run harness+driver+oracle once; accumulate into res; return (corr_mismatch_info|None, new_oracle_fails)"""
    outdir = os.path.join(BUILD, pid, 'run_%s' % (variant or 'd'))
    rc, hout = run_harness(binp, outdir, seed, tier, replay, timeout=spec.get('timeout', 3600),
                           asan_extra=spec.get('asan_options', ''), wrapper=wrapper, extra_env=extra_env)
    ops = read_lines(os.path.join(outdir, 'ops.txt'))
    implo = read_lines(os.path.join(outdir, 'impl.out'))
    oracle = read_lines(os.path.join(outdir, 'oracle.txt'))
    cs = spec.get('case_start', ['reset'])
    new_fails = []
    if rc != 0:
        # sanitizer abort / crash / timeout / memcheck report: an oracle failure for the op being executed (last op line)
        key, what = crash_info(pid, hout, rc)
        if key is None:   # memcheck reports raised by the harness's own code only: not about the library
            res['counters']['memcheck_reports_outside_library'] = res['counters'].get('memcheck_reports_outside_library', 0) + 1
            rc = 0
    if rc != 0:
        res['crash'] = what
        ent = {'key': key, 'line': len(ops), 'text': what,
               'case': (ops if crash_only else case_of(ops, len(ops) - 1, cs)) if ops else [],   # memcheck replay: the report may stem from any op
               'log_tail': hout[-3000:], 'variant': variant, '_bin': binp, '_spec': spec, '_wrapper': wrapper, '_env': extra_env}
        if key in findings and findings[key].get('status') == 'open':
            res['known'].setdefault(key, ent)
        else:
            new_fails.append(ent)
    for l in ([] if crash_only else oracle):   # a memcheck replay of a prefix judges memory reports only (oracles ran in the full pass)
        parts = l.split(' ', 3)
        if len(parts) < 3 or parts[0] != 'FAIL':
            continue
        key, ln = parts[1], int(parts[2])
        if key.startswith('harness:'):
            res.setdefault('harness_errors', []).append(l)
            continue
        if not any(key.startswith(pre) for pre in spec.get('oracle_prefixes', [pid + ':'])):
            res['counters']['oracle_failures_of_other_properties'] = res['counters'].get('oracle_failures_of_other_properties', 0) + 1
            continue
        ent = {'key': key, 'line': ln, 'text': parts[3] if len(parts) > 3 else '',
               'case': case_of(ops, ln - 1, cs) if 0 < ln <= len(ops) else [], 'variant': variant, '_bin': binp, '_spec': spec}
        if key in findings and findings[key].get('status') == 'open':
            res['known'].setdefault(key, ent)
        else:
            new_fails.append(ent)
    # correspondence
    mismatch = None
    if not spec.get('no_model'):
        drc, derr = run_driver(spec['engine'], outdir)
        modelo = read_lines(os.path.join(outdir, 'model.out'))
        n = min(len(implo), len(modelo))
        first = next((i for i in range(n) if implo[i] != modelo[i]), None)
        if first is None and len(modelo) != len(ops) and rc == 0:
            first = n
        if first is None and rc == 0 and len(implo) != len(ops):
            first = n
        if drc != 0:
            mismatch = {'line': 0, 'text': 'driver failed: ' + derr[-500:], 'case': [], 'variant': variant}
        elif first is not None:
            ndiff = sum(1 for i in range(n) if implo[i] != modelo[i])
            mismatch = {'line': first + 1, 'op': ops[first] if first < len(ops) else '<eof>',
                        'impl': implo[first] if first < len(implo) else '<missing>',
                        'model': modelo[first] if first < len(modelo) else '<missing>',
                        'case': case_of(ops, min(first, len(ops) - 1), cs) if ops else [],
                        'differing_lines': ndiff, 'variant': variant}
        res['corr_lines'] += n
    try:
        st = json.load(open(os.path.join(outdir, 'stats.json')))
    except Exception:
        st = {}
    res['evaluations'] += st.get('evaluations', len(ops))
    res['distinct_nontrivial'] += st.get('distinct_nontrivial', 0)
    res['cases'] += st.get('cases', 0)
    if st.get('rule'):
        res['rule'] = st['rule']
    for k, v in st.get('counters', {}).items():
        res['counters'][k] = res['counters'].get(k, 0) + v
    for s in st.get('samples', []):
        if len(res['samples']) < 10:
            res['samples'].append(s)
    if ops and len(res['samples']) < 12:
        res['samples'].append({'first_case': case_of(ops, min(len(ops) - 1, 12), cs)[:14],
                               'impl_out': implo[:min(len(implo), 14)], 'variant': variant or 'default'})
    return mismatch, new_fails


def main():
    args = sys.argv[1:]
    if not args:
        print(__doc__); return 2
    pid = args[0]
    tier = os.environ.get('VERIF_TIER', 'quick')
    replay = None
    i = 1
    while i < len(args):
        if args[i] == '--tier':
            tier = args[i + 1]; i += 2
        elif args[i] == '--replay':
            replay = args[i + 1]; i += 2
        else:
            i += 1
    seed = int(os.environ.get('VERIF_SEED', '1') or 1)
    spec = registry.PROPS[pid]
    t0 = time.time()
    findings = load_findings(pid)
    problems = []        # proof-side problems (strings)
    res = {'known': {}, 'evaluations': 0, 'distinct_nontrivial': 0, 'cases': 0, 'corr_lines': 0,
           'counters': {}, 'samples': [], 'rule': ''}
    ev_extra = {}

    # ---- replay mode: re-execute a recorded case on the real code and on the model, print both
    if replay:
        rp = json.load(open(os.path.join(VERIF, replay) if not os.path.isabs(replay) else replay))
        tmp = os.path.join(BUILD, pid, 'replay_ops.txt')
        os.makedirs(os.path.dirname(tmp), exist_ok=True)
        open(tmp, 'w').write('\n'.join(rp.get('ops', [])) + '\n')
        ok, out, _ = lake_build(['n2kdrv'], [spec['engine']], pid)
        variant = rp.get('variant') or (spec.get('variants', [''])[0])
        rspec, rvar = spec, variant
        if variant.startswith('x_'):   # failure found by one of the additional harnesses of this property
            for ex in spec.get('extra', []):
                for v in ex.get('variants', ['']):
                    if variant == 'x_' + ex['engine'] + ('_' + v if v else ''):
                        rspec, rvar = dict(spec, **ex), v
        rwrap = ()
        mcm = re.search(r'_(mc(?:_t32)?)$', variant)
        if mcm:   # failure found under valgrind memcheck: rebuild without sanitizers and run under valgrind again
            rvar, rwrap = mcm.group(1), VALGRIND
            for ex in spec.get('extra', []):
                if variant.startswith('x_' + ex['engine'] + '_'):
                    rspec = dict(spec, **ex)
            rspec = dict(rspec, no_model=True)
        binp, err = build_harness(pid, rspec, rvar)
        if not binp:
            print(err); return 2
        mm, nf = one_pass(pid, rspec, variant, binp, seed, tier, findings, res, replay=tmp, wrapper=rwrap)
        outdir = os.path.join(BUILD, pid, 'run_%s' % (variant or 'd'))
        for a, b, c in zip(read_lines(outdir + '/ops.txt'), read_lines(outdir + '/impl.out'),
                           read_lines(outdir + '/model.out') or [''] * 10 ** 6):
            print('%-60s impl: %-40s model: %s' % (a[:60], b[:40], c[:40]))
        for f in nf:
            print('ORACLE FAIL', f['key'], f['text'])
        print('correspondence:', 'MISMATCH ' + json.dumps(mm) if mm else 'agrees')
        return 1 if (nf or mm) else 0

    # ---- 1. translate
    trans_stats = {}
    for tname in spec.get('translators', []):
        mod = __import__('translators.' + tname, fromlist=['run'])
        try:
            trans_stats[tname] = mod.run(SRC, os.path.join(LEAN, 'N2k', 'Gen'))
        except Exception as e:  # translator could not read the source: proof obligation cannot be stated
            problems.append('translator %s failed: %r' % (tname, e))
            trans_stats[tname] = {'error': repr(e)}
    if trans_stats:
        ev_extra['translator'] = trans_stats

    # ---- 2. prove
    modules = spec['lean_modules']
    ok, out, dt = lake_build(modules + ['n2kdrv'], [spec['engine']], pid)
    ev_extra['lake_build_s'] = round(dt, 1)
    if not ok:
        errs = [l for l in out.split('\n') if 'error' in l][:20]
        problems.append('lake build failed: ' + ' | '.join(errs))
    obligations = []
    axioms_seen = {}
    for pf in spec['props_files']:
        ns, names = theorems_in(pf)
        mods = [pf[:-5].replace('/', '.')]
        aud, araw = axiom_audit(pid + '_' + os.path.basename(pf)[:-5], mods, ns, names)   # per file: a module that failed to build yields 'not checked'
        for n in names:
            ax = aud.get(n)
            good = ax is not None and set(ax) <= ALLOWED_AXIOMS
            obligations.append({'theorem': '%s.%s' % (ns, n), 'axioms': ax, 'ok': good})
            if not good:
                problems.append('theorem %s.%s: %s' % (ns, n, 'not checked' if ax is None else 'axioms %s' % ax))
            else:
                for a in ax:
                    axioms_seen[a] = axioms_seen.get(a, 0) + 1
    gen_obl = 0
    for tname, st in trans_stats.items():
        gen_obl += st.get('obligations', 0) if isinstance(st, dict) else 0
    hits = forbidden_scan(modules)
    if hits:
        problems.append('forbidden tokens: ' + '; '.join(hits[:5]))
    if tier == 'thorough' and ok and not spec.get('skip_leanchecker'):
        for m in modules:
            with Lock('lake.lock'):
                r = run(['lake', 'env', 'leanchecker', m], cwd=LEAN)
            ev_extra.setdefault('leanchecker', {})[m] = 'ok' if r.returncode == 0 else r.stdout[-300:]
            if r.returncode != 0:
                problems.append('leanchecker rejected %s' % m)

    # ---- 3./4./5. harness, correspondence, oracle
    mismatches, fails = [], []
    variants = spec.get('variants', [''])
    bins = {}
    for v in variants:
        binp, err = build_harness(pid, spec, v)
        if not binp:
            problems.append('harness build failed (%s): %s' % (v or 'default', err[-1500:]))
            continue
        bins[v] = binp
        mm, nf = one_pass(pid, spec, v, binp, seed, tier, findings, res)
        if mm:
            mismatches.append(mm)
        fails += nf
    # additional harnesses that also carry oracles of this property (e.g. the whole-node fuzz harness carries the C04 monitor)
    for ex in spec.get('extra', []):
        sub = dict(spec, **ex)
        sub.setdefault('oracle_prefixes', spec.get('oracle_prefixes', [pid + ':']))
        for v in sub.get('variants', ['']):
            binp, err = build_harness(pid, sub, v)
            if not binp:
                problems.append('harness build failed (%s %s): %s' % (sub['harness'], v or 'default', err[-800:]))
                continue
            mm, nf = one_pass(pid, sub, 'x_' + sub['engine'] + ('_' + v if v else ''), binp, seed, tier, findings, res)
            if mm:
                mismatches.append(mm)
            fails += nf
    # valgrind memcheck runs (uninitialised reads, which ASan does not see) of the harnesses that ask for it, reduced case budget
    for sub in [spec] + [dict(spec, **ex) for ex in spec.get('extra', [])]:
        mc = sub.get('memcheck')
        if not mc:
            continue
        for v in mc.get('variants', ['mc']):
            binp, err = build_harness(pid, sub, v)
            if not binp:
                problems.append('harness build failed (%s %s): %s' % (sub['harness'], v, err[-800:]))
                continue
            sub_nm = dict(sub, no_model=True)
            mm, nf = one_pass(pid, sub_nm, 'x_%s_%s' % (sub['engine'], v), binp, seed, tier, findings, res, wrapper=VALGRIND,
                              extra_env={'N2K_FUZZ_CASES': str(mc.get('cases_thorough' if tier == 'thorough' else 'cases_quick', 40))})
            fails += nf
            ev_extra['memcheck_runs'] = ev_extra.get('memcheck_runs', 0) + 1
    # generic memcheck pass: replay a prefix (whole cases) of the ops just generated by each default-variant harness under valgrind
    nrep = spec.get('memcheck_replay', int(os.environ.get('N2K_MEMCHECK_REPLAY', '3000')))
    if nrep and '' in bins:
        outdir0 = os.path.join(BUILD, pid, 'run_d')
        ops0 = read_lines(os.path.join(outdir0, 'ops.txt'))
        cs0 = spec.get('case_start', ['reset'])
        if tier == 'thorough':
            nrep *= 4
        cut = min(nrep, len(ops0))
        while cut < len(ops0) and ops0[cut].split(' ')[0] not in cs0 and cut < nrep + 3000:
            cut += 1
        if cut:
            rpath = os.path.join(BUILD, pid, 'memcheck_ops.txt')
            open(rpath, 'w').write('\n'.join(ops0[:cut]) + '\n')
            binp, err = build_harness(pid, spec, 'mc')
            if not binp:
                problems.append('harness build failed (memcheck): %s' % err[-800:])
            else:
                mm, nf = one_pass(pid, dict(spec, no_model=True), 'x_%s_mc' % spec['engine'], binp, seed, tier, findings, res,
                                  replay=rpath, wrapper=VALGRIND_ALL, crash_only=True, extra_env={'N2K_LAYOUT_REEXEC': '1'})
                fails += nf
                ev_extra['memcheck_replayed_ops'] = cut
    # escalate the failing-input search when proof or correspondence broke and no concrete input is known yet
    if (mismatches or problems) and not fails and bins:
        n_extra = 6 if tier == 'quick' else 10
        for k in range(n_extra):
            for v, binp in bins.items():
                mm, nf = one_pass(pid, spec, v, binp, seed * 1000 + 17 * (k + 1), 'thorough' if k % 2 else tier, findings, res)
                fails += nf
            if fails:
                break
        ev_extra['escalated_search_passes'] = k + 1

    if res.get('harness_errors'):
        problems.append('harness self-check failed: ' + '; '.join(res['harness_errors'][:3]))
    # ---- 6. decide
    for key, ent in sorted(res['known'].items()):
        log('KNOWN-FINDING: property=%s %s -- %s' % (pid, key, findings[key].get('what', ent['text'])))
    stale = [k for k, e in findings.items() if e.get('status') == 'open' and k not in res['known']
             and e.get('expect_every_run')]
    for k in stale:
        log('NOTE: known finding %s did not reproduce in this run (stale entry?)' % k)
    violations = 0
    if fails:
        by_key = {}
        for f in fails:
            by_key.setdefault(f['key'], f)
        for key, f in sorted(by_key.items()):
            small, sinfo = (f['case'], {'skipped': 'more than 3 distinct failures'}) if violations >= 3 else shrink_case(pid, f, seed, tier)
            rp = write_replay(pid, 'oracle', {'key': key, 'seed': seed, 'tier': tier, 'variant': f.get('variant', ''),
                                              'ops': small, 'ops_before_shrinking': f['case'] if small != f['case'] else None,
                                              'shrink': sinfo, 'observed': f['text'], 'log_tail': f.get('log_tail', ''),
                                              'broken_obligations': problems, 'correspondence': mismatches[:1]})
            log('VIOLATION property=%s replay=%s' % (pid, rp))
            violations += 1
    elif mismatches or problems:
        mm = mismatches[0] if mismatches else {}
        rp = write_replay(pid, 'correspondence' if mismatches else 'proof',
                          {'seed': seed, 'tier': tier, 'variant': mm.get('variant', ''), 'ops': mm.get('case', []),
                           'first_disagreement': mm, 'broken_obligations': problems,
                           'note': 'the model/theorems no longer check against this source; the oracle search '
                                   'found no concrete input on which the property fails'})
        log('VIOLATION property=%s replay=%s no-failing-input-found' % (pid, rp))
        violations += 1

    # ---- 7. evidence
    n_obl = len(obligations) + gen_obl
    n_dis = sum(1 for o in obligations if o['ok']) + (gen_obl if ok else 0)   # generated obligations live in the modules built above
    cov = {
        'obligations': n_obl, 'discharged': n_dis,
        'checker_cmd': 'cd lean && lake build %s && lake env lean <#print axioms for each theorem>%s' % (
            ' '.join(modules), ' && lake env leanchecker <module>' if tier == 'thorough' else ''),
        'trusted_base': registry.TRUSTED_BASE + spec.get('trusted_base', []),
        'theorems': obligations, 'axioms_used': axioms_seen, 'proof_problems': problems,
        'evaluations': max(res['evaluations'], 1), 'distinct_nontrivial': res['distinct_nontrivial'],
        'rule': res['rule'] or 'see harness', 'samples': res['samples'] or ['(no harness output)'],
        'correspondence_lines_compared': res['corr_lines'], 'correspondence_disagreements': len(mismatches),
        'cases': res['cases'], 'op_histogram_and_branch_counters': res['counters'],
        'harness_variants': variants, 'known_findings_printed': sorted(res['known'].keys()),
        'oracle_failures_unlisted': len(fails),
    }
    cov.update(ev_extra)
    evidence = {'property_id': pid, 'tier': tier, 'seed': seed, 'level': 'proof', 'coverage': cov,
                'assumptions': spec.get('assumptions', []), 'wall_s': round(time.time() - t0, 2),
                'violations': violations}
    # evidence describes /repo itself; a run against a scratch copy (N2K_REPO, used to evaluate seeded changes) keeps its
    # evidence apart so that it can never be mistaken for a statement about /repo
    evdir = os.path.join(VERIF, 'evidence') if os.path.realpath(REPO) == '/repo' else os.path.join(VERIF, 'build', 'evidence_scratch')
    os.makedirs(evdir, exist_ok=True)
    with open(os.path.join(evdir, pid + '.json'), 'w') as f:
        json.dump(evidence, f, indent=1)
    log('%s %s: %d/%d obligations discharged, %d ops on the real code, %d lines compared with the model, '
        '%d disagreement(s), %d unlisted oracle failure(s), %d known finding(s), %.1fs' % (
            pid, tier, n_dis, n_obl, res['evaluations'], res['corr_lines'], len(mismatches), len(fails),
            len(res['known']), time.time() - t0))
    return 1 if violations else 0


if __name__ == '__main__':
    # two runs of the same property share build/<pid>/ (harness binary, driver copy, run directories): serialise them
    _pid = sys.argv[1] if len(sys.argv) > 1 else 'none'
    with Lock('check_%s.lock' % _pid):
        rc = main()
    sys.exit(rc)
