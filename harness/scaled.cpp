// C06 harness: drives the REAL tN2kMsg::Add{1,2,3,4,8}Byte(U)Double / Get…Double / AddFloat / GetFloat (src/N2kMsg.cpp).
// ops (kind = 1s 1u 2s 2u 3s 3u 4s 4u 8s, f = float field where noted):
//   put kind vd [undef]    vd/undef: integer | nan | +inf | -inf ; Add…(vd, 1.0, undef) on an empty message -> bytes | fault
//   get kind hex           payload = hex, Get…(1.0, Index=0, def)                                        -> integer | def
//   msg hex                sets the 223-byte Data array (case start)                                     -> ok
//   getat kind idx len     (kind may be f) getter at Index=idx with DataLen=len on the current array     -> value|def idx'
//   putf p [undef]         float bit patterns (decimal)                                                  -> bytes
//   getf hex                                                                                              -> pattern | def
//   qz kind mv ev mp ep    Add…(mv*2^ev, mp*2^ep): bytes where the property determines the code, else        -> bytes | stored
//   chk kind mv ev mp ep hex   judge of the bytes stored by that qz: within half a step (one step, 8-byte) of the exact
//                          quotient, or the out-of-range code where that is admissible                    -> ok | bad
//   chkx kind v hex        the same for an integer v at precision 1, no allowance (after `put 8s v` -> stored) -> ok | bad
// The property fixes a tolerance, not a rounding policy (8-byte: one step, so truncation and rounding are both fine;
// exact ties: either neighbour). Where it leaves the code open the op answers `stored` and a chk/chkx line carries the
// bytes the library produced to the model's judge; the oracle here judges them independently with 128-bit integers.
// No floating-point text crosses the protocol: integer-valued doubles are printed as exact integers.
// Oracle (independent of the Lean model, written from the property statement): see the check* functions.
#include "common.h"
#include "N2kMsg.h"
#include <cmath>
#include <unistd.h>
#include <sys/wait.h>
#include <signal.h>

using namespace vh;
static Ctx C;
typedef unsigned __int128 u128;
typedef __int128 i128;
static std::vector<unsigned char> LAST;   // bytes stored by the last put/qz
static std::string LASTKIND;
static bool LASTOPEN = false;             // the last put/qz answered `stored`

struct Kind { const char *name; int w; bool s; };
static const Kind KINDS[] = {{"1s", 1, true}, {"1u", 1, false}, {"2s", 2, true}, {"2u", 2, false}, {"3s", 3, true},
                             {"3u", 3, false}, {"4s", 4, true}, {"4u", 4, false}, {"8s", 8, true}};
static const Kind *kindOf(const std::string &n) { for (auto &k : KINDS) if (n == k.name) return &k; return nullptr; }
static std::string kkey(const Kind &k, const char *what) {
  return std::string("C06:") + std::to_string(k.w) + "byte-" + (k.s ? "signed" : "unsigned") + "-" + what;
}

// ---- the real library calls
static void addK(tN2kMsg &m, const Kind &k, double v, double p, double undef) {
  switch (k.w * 2 + (k.s ? 1 : 0)) {
    case 3: m.Add1ByteDouble(v, p, undef); break;   case 2: m.Add1ByteUDouble(v, p, undef); break;
    case 5: m.Add2ByteDouble(v, p, undef); break;   case 4: m.Add2ByteUDouble(v, p, undef); break;
    case 7: m.Add3ByteDouble(v, p, undef); break;   case 6: m.Add3ByteUDouble(v, p, undef); break;
    case 9: m.Add4ByteDouble(v, p, undef); break;   case 8: m.Add4ByteUDouble(v, p, undef); break;
    case 17: m.Add8ByteDouble(v, p, undef); break;
  }
}
static double getK(const tN2kMsg &m, const Kind &k, double p, int &idx, double def) {
  switch (k.w * 2 + (k.s ? 1 : 0)) {
    case 3: return m.Get1ByteDouble(p, idx, def);   case 2: return m.Get1ByteUDouble(p, idx, def);
    case 5: return m.Get2ByteDouble(p, idx, def);   case 4: return m.Get2ByteUDouble(p, idx, def);
    case 7: return m.Get3ByteDouble(p, idx, def);   case 6: return m.Get3ByteUDouble(p, idx, def);
    case 9: return m.Get4ByteDouble(p, idx, def);   case 8: return m.Get4ByteUDouble(p, idx, def);
    case 17: return m.Get8ByteDouble(p, idx, def);
  }
  return def;
}
static const double DEF = 0.5;   // never an integer multiple of 1.0: distinguishes "default returned" from a value

// ---- the field format, from the property statement (two's complement little endian; OR = max-1, NA = max)
static long double loOf(const Kind &k) { return k.s ? -ldexpl(1.0L, 8 * k.w - 1) : 0.0L; }
static long double orOf(const Kind &k) { return (k.s ? ldexpl(1.0L, 8 * k.w - 1) : ldexpl(1.0L, 8 * k.w)) - 2.0L; }
static uint64_t maskOf(int w) { return w == 8 ? ~0ULL : ((1ULL << (8 * w)) - 1); }
static uint64_t orBits(const Kind &k) { return (k.s ? (maskOf(k.w) >> 1) : maskOf(k.w)) - 1; }
static uint64_t leLoad(const unsigned char *b, int w) { uint64_t u = 0; for (int i = 0; i < w; i++) u |= (uint64_t)b[i] << (8 * i); return u; }
// decoded field value as a long double (exact: 64-bit mantissa); isNA set for the NA code
static long double decode(const Kind &k, uint64_t u, bool &isNA) {
  isNA = (u == orBits(k) + 1);
  if (k.s && ((u >> (8 * k.w - 1)) & 1)) return (long double)u - ldexpl(1.0L, 8 * k.w);
  return (long double)u;
}
static std::string intStr(double v) { char b[400]; snprintf(b, sizeof b, "%.0f", v); return b; }
static std::string vdStr(double v) { return std::isnan(v) ? "nan" : std::isinf(v) ? (v > 0 ? "+inf" : "-inf") : intStr(v); }
static bool parseVd(const std::string &s, double &v) {
  if (s == "nan") { v = NAN; return true; }
  if (s == "+inf") { v = INFINITY; return true; }
  if (s == "-inf") { v = -INFINITY; return true; }
  char *e; v = strtod(s.c_str(), &e); return *e == 0 && !s.empty();
}

// Add… is run in a worker process when the argument is one for which a missing range test would be undefined
// behaviour: the sanitizer then aborts the worker, the parent reports it under the property's key, starts a new
// worker and goes on. (One worker serves all such calls; it is forked again only after it died.)
struct Req { int kidx; double v, p, undef; };
static struct { pid_t pid; int to, from; } W = {-1, -1, -1};
static bool readAll(int fd, void *buf, size_t n) { size_t g = 0; while (g < n) { ssize_t r = read(fd, (char *)buf + g, n - g); if (r <= 0) return false; g += (size_t)r; } return true; }
static void workerStart() {
  int a[2], b[2]; if (pipe(a) || pipe(b)) { perror("pipe"); exit(2); }
  fflush(nullptr);
  W.pid = fork();
  if (W.pid == 0) {
    close(a[1]); close(b[0]);
    Req r;
    while (readAll(a[0], &r, sizeof r)) {
      tN2kMsg m; m.DataLen = 0; addK(m, KINDS[r.kidx], r.v, r.p, r.undef);
      unsigned char out[17]; out[0] = (unsigned char)m.DataLen; memcpy(out + 1, m.Data, 16);
      if (write(b[1], out, sizeof out) != (ssize_t)sizeof out) _exit(3);
    }
    _exit(0);
  }
  close(a[0]); close(b[1]); W.to = a[1]; W.from = b[0];
  C.count("worker_processes_started");
}
static void workerStop() { if (W.pid > 0) { close(W.to); close(W.from); int st; waitpid(W.pid, &st, 0); W.pid = -1; } }
static bool addGuarded(const Kind &k, double v, double p, double undef, std::vector<unsigned char> &out) {
  double q = v / p;
  bool risky = !(std::fabs(q) < 9.2e18);
  if (!risky) { tN2kMsg m; m.DataLen = 0; addK(m, k, v, p, undef); out.assign(m.Data, m.Data + m.DataLen); return true; }
  C.count("put_in_worker_process");
  if (W.pid <= 0) workerStart();
  Req r = {(int)(&k - KINDS), v, p, undef};
  unsigned char resp[17];
  if (write(W.to, &r, sizeof r) != (ssize_t)sizeof r || !readAll(W.from, resp, sizeof resp) || resp[0] > 16) { workerStop(); return false; }
  out.assign(resp + 1, resp + 1 + resp[0]); return true;
}

// ---------------------------------------------------------------------------------------------- put
static void doPut(const Kind &k, double v, double undef, bool explicitUndef) {
  std::vector<unsigned char> b;
  bool ok = addGuarded(k, v, 1.0, undef, b);
  const char *cls;
  if (!ok) {
    C.out("fault");
    C.fail(std::string("C06:") + std::to_string(k.w) + "byte-store-range",
           "Add%dByte%sDouble(%s,1.0) aborted (undefined float->integer conversion): no range/NaN test before the cast",
           k.w, k.s ? "" : "U", vdStr(v).c_str());
    C.count("put_fault"); return;
  }
  bool inputNA = (v == undef) || (k.w == 8 && v == N2kDoubleNA);   // the caller's "not available" marker
  bool oor = std::isnan(v) || std::isinf(v) || (long double)v < loOf(k) || (long double)v >= orOf(k);
  LAST = b; LASTKIND = k.name; LASTOPEN = (k.w == 8 && !inputNA && !oor);
  if (LASTOPEN) C.out("stored"); else C.outs(hex(b.data(), b.size()));
  if ((int)b.size() != k.w) { C.fail(kkey(k, "store-length"), "wrote %zu bytes", b.size()); return; }
  uint64_t u = leLoad(b.data(), k.w);
  bool isNA; long double dec = decode(k, u, isNA);
  // read back through the real getter: payload = exactly the bytes written
  tN2kMsg m; m.DataLen = k.w; memcpy(m.Data, b.data(), k.w);
  int idx = 0; double rb = getK(m, k, 1.0, idx, DEF);
  if (inputNA) {
    cls = "na";
    if (!isNA) C.fail(kkey(k, "na-store"), "NA input %s stored as %s", vdStr(v).c_str(), hex(b.data(), b.size()).c_str());
    if (rb != DEF || idx != k.w) C.fail(kkey(k, "na-load"), "NA bytes read back as %s idx %d", intStr(rb).c_str(), idx);
  } else if (oor) {
    cls = std::isnan(v) ? "nan" : std::isinf(v) ? "inf" : v < 0 ? "below" : "above";
    if (u != orBits(k)) C.fail(kkey(k, "saturate"), "out-of-range %s stored as %s, not the out-of-range code", vdStr(v).c_str(), hex(b.data(), b.size()).c_str());
    else if (rb == DEF || (long double)rb != (long double)(double)orOf(k) || idx != k.w)
      C.fail(kkey(k, "saturate-load"), "out-of-range code reads back as %s", rb == DEF ? "def" : intStr(rb).c_str());
  } else {
    cls = v < 0 ? "neg" : v == 0 ? "zero" : "pos";
    // property: within half a step — for an integer value at precision 1 that is the value itself — and within one
    // step for the 8-byte field; the getter must then return exactly the stored code (times 1.0)
    long double dd = dec - (long double)v; if (dd < 0) dd = -dd;
    if (isNA || dd > (k.w == 8 ? 1.0L : 0.0L)) C.fail(kkey(k, "store"), "%s stored as %s", vdStr(v).c_str(), hex(b.data(), b.size()).c_str());
    else if (rb == DEF || idx != k.w || (long double)rb != (long double)(double)dec)
      C.fail(kkey(k, "load"), "wrote %s (bytes %s), read back %s idx %d", vdStr(v).c_str(), hex(b.data(), b.size()).c_str(),
             rb == DEF ? "def" : intStr(rb).c_str(), idx);
  }
  C.count(std::string("put_") + cls);
  C.nontrivial(std::string("put ") + k.name + " " + cls + (explicitUndef ? " undef" : "") + " " +
               (std::isfinite(v) && std::fabs(v) < 1e18 ? std::to_string((long long)v & 0xff) + "/" + std::to_string(std::ilogb(std::fabs(v) + 1)) : vdStr(v)));
}

// ---------------------------------------------------------------------------------------------- get
static void doGet(const Kind &k, const std::vector<unsigned char> &b) {
  tN2kMsg m; m.DataLen = (int)b.size(); if (!b.empty()) memcpy(m.Data, b.data(), b.size());
  int idx = 0; double r = getK(m, k, 1.0, idx, DEF);
  if (r == DEF) C.out("def"); else C.outs(intStr(r));
  if ((int)b.size() < k.w) {
    if (r != DEF || idx != 0) C.fail(kkey(k, "get-bounds"), "payload %zu bytes: returned %s idx %d", b.size(), intStr(r).c_str(), idx);
    C.count("get_short"); return;
  }
  bool isNA; long double dec = decode(k, leLoad(b.data(), k.w), isNA);
  if (idx != k.w) C.fail(kkey(k, "get-index"), "index %d after a %d-byte field", idx, k.w);
  if (isNA) { if (r != DEF) C.fail(kkey(k, "na-load"), "NA code read as %s", intStr(r).c_str()); }
  else if (r == DEF || (long double)r != (long double)(double)dec)
    C.fail(kkey(k, "load"), "bytes %s (value %s) read as %s", hex(b.data(), k.w).c_str(), intStr((double)dec).c_str(), r == DEF ? "def" : intStr(r).c_str());
  C.count(isNA ? "get_na" : dec < 0 ? "get_neg" : "get_nonneg");
  C.nontrivial(std::string("get ") + k.name + (isNA ? " na " : dec < 0 ? " neg " : " pos ") + std::to_string(b[0]) + "/" + std::to_string(b[k.w - 1]));
}

// ---------------------------------------------------------------------------------------------- getat
static unsigned char DATA[tN2kMsg::MaxDataLen];
static uint32_t patOf(float f) { uint32_t u; memcpy(&u, &f, 4); return u; }
static float fltOf(uint32_t u) { float f; memcpy(&f, &u, 4); return f; }

static void doGetAt(const std::string &kn, int idx0, int len) {
  const int CAP = tN2kMsg::MaxDataLen;
  if (len < 0 || len > CAP || idx0 < 0) { C.out("bad-op"); return; }
  tN2kMsg A, B;
  memcpy(A.Data, DATA, CAP); memcpy(B.Data, DATA, CAP);
  for (int j = len; j < CAP; j++) B.Data[j] = (unsigned char)~DATA[j];   // same payload, different stale bytes behind it
  A.DataLen = B.DataLen = len;
  int w; bool isDef, isDefB; int ia = idx0, ib = idx0; std::string val, valB; std::string keyp;
  const Kind *k = kindOf(kn);
  if (kn == "f") {
    w = 4; keyp = "C06:float";
    int i1 = idx0, i2 = idx0;
    float r1 = A.GetFloat(i1, 0.5f), r2 = A.GetFloat(i2, 0.25f);
    isDef = (patOf(r1) == patOf(0.5f) && patOf(r2) == patOf(0.25f)); ia = i1; val = std::to_string(patOf(r1));
    int j1 = idx0, j2 = idx0;
    float s1 = B.GetFloat(j1, 0.5f), s2 = B.GetFloat(j2, 0.25f);
    isDefB = (patOf(s1) == patOf(0.5f) && patOf(s2) == patOf(0.25f)); ib = j1; valB = std::to_string(patOf(s1));
    if (i1 != i2) C.fail("C06:float-get-index", "index depends on the default");
  } else if (k) {
    w = k->w; keyp = kkey(*k, "");
    keyp.pop_back();
    double r = getK(A, *k, 1.0, ia, DEF); isDef = (r == DEF); val = intStr(r);
    double s = getK(B, *k, 1.0, ib, DEF); isDefB = (s == DEF); valB = intStr(s);
  } else { C.out("bad-op"); return; }
  C.out("%s %d", isDef ? "def" : val.c_str(), ia);
  bool fits = idx0 + w <= len;
  if (!fits) {
    if (!isDef || ia != idx0) C.fail(keyp + "-get-bounds", "idx %d len %d: field does not fit but got %s, idx' %d", idx0, len, isDef ? "def" : val.c_str(), ia);
  } else if (ia != idx0 + w) C.fail(keyp + "-get-index", "idx %d len %d: idx' %d", idx0, len, ia);
  if (isDef != isDefB || ia != ib || (!isDef && val != valB))
    C.fail(keyp + "-get-reads-past-length", "idx %d len %d: result depends on bytes at index >= DataLen (%s/%d vs %s/%d)", idx0, len,
           isDef ? "def" : val.c_str(), ia, isDefB ? "def" : valB.c_str(), ib);
  if (fits && k) {   // value against the format
    bool isNA; long double dec = decode(*k, leLoad(DATA + idx0, w), isNA);
    if (isNA ? !isDef : (isDef || val != intStr((double)dec)))
      C.fail(kkey(*k, "load"), "idx %d: bytes %s read as %s", idx0, hex(DATA + idx0, w).c_str(), isDef ? "def" : val.c_str());
  }
  if (fits && !k) {
    uint32_t p = (uint32_t)leLoad(DATA + idx0, 4); bool nan = std::isnan(fltOf(p));
    if (nan ? !isDef : (isDef || val != std::to_string(p))) C.fail("C06:float-load", "idx %d: pattern %08x read as %s", idx0, p, isDef ? "def" : val.c_str());
  }
  C.count(fits ? "getat_fits" : "getat_does_not_fit");
  C.nontrivial("getat " + kn + " " + std::to_string(idx0) + " " + std::to_string(len));
}

// ---------------------------------------------------------------------------------------------- float
static void doPutF(uint32_t p, uint32_t undef) {
  tN2kMsg m; m.DataLen = 0;
  float v = fltOf(p), u = fltOf(undef);
  m.AddFloat(v, u);
  C.outs(hex(m.Data, m.DataLen));
  if (m.DataLen != 4) { C.fail("C06:float-store-length", "wrote %d bytes", m.DataLen); return; }
  int i1 = 0, i2 = 0; float r1 = m.GetFloat(i1, 0.5f), r2 = m.GetFloat(i2, 0.25f);
  bool isDef = patOf(r1) == patOf(0.5f) && patOf(r2) == patOf(0.25f);
  const char *cls;
  if (std::isnan(v)) { cls = "nan"; if (!isDef) C.fail("C06:float-nan", "NaN pattern %08x read back as number %08x", p, patOf(r1)); }
  else if (v == u || v == N2kFloatNA) {
    cls = "na";
    if (leLoad(m.Data, 4) != 0x7fffffffu) C.fail("C06:float-na-store", "NA input stored as %s", hex(m.Data, 4).c_str());
    if (!isDef) C.fail("C06:float-na-load", "NA read back as %08x", patOf(r1));
  } else {
    cls = std::isinf(v) ? "inf" : v < 0 ? "neg" : "nonneg";
    if (isDef || patOf(r1) != p || i1 != 4) C.fail("C06:float-roundtrip", "pattern %08x read back as %s", p, isDef ? "def" : std::to_string(patOf(r1)).c_str());
  }
  C.count(std::string("putf_") + cls);
  C.nontrivial(std::string("putf ") + cls + " " + std::to_string(p >> 20));
}
static void doGetF(const std::vector<unsigned char> &b) {
  tN2kMsg m; m.DataLen = (int)b.size(); if (!b.empty()) memcpy(m.Data, b.data(), b.size());
  int i1 = 0, i2 = 0; float r1 = m.GetFloat(i1, 0.5f), r2 = m.GetFloat(i2, 0.25f);
  bool isDef = patOf(r1) == patOf(0.5f) && patOf(r2) == patOf(0.25f);
  if (isDef) C.out("def"); else C.out("%u", patOf(r1));
  if (b.size() < 4) { if (!isDef || i1 != 0) C.fail("C06:float-get-bounds", "short payload read"); return; }
  uint32_t p = (uint32_t)leLoad(b.data(), 4);
  if (std::isnan(fltOf(p)) ? !isDef : (isDef || patOf(r1) != p)) C.fail("C06:float-load", "pattern %08x read as %s", p, isDef ? "def" : std::to_string(patOf(r1)).c_str());
  C.count("getf"); C.nontrivial("getf " + std::to_string(p >> 20));
}

// ---------------------------------------------------------------------------------------------- front end
// exact decomposition of a finite double: v = m * 2^e with m odd (or 0)
static void decomp(double v, int64_t &m, int &e) {
  if (v == 0) { m = 0; e = 0; return; }
  int ex; double f = frexp(v, &ex); m = (int64_t)ldexp(f, 53); e = ex - 53;
  while ((m & 1) == 0) { m /= 2; e++; }
}
static int bitsOf(uint64_t x) { int n = 0; while (x) { n++; x >>= 1; } return n; }
// can qz be evaluated exactly in 128 bits, with |q| < 2^62 ?
static bool qzFeasible(int64_t mv, int ev, int64_t mp, int ep) {
  if (mp <= 0) return false;
  int s = ev - ep; uint64_t a = (uint64_t)(mv < 0 ? -mv : mv);
  if (bitsOf(a) + (s > 0 ? s : 0) > 120 || bitsOf((uint64_t)mp) + (s < 0 ? -s : 0) > 120) return false;
  u128 num = (u128)a << (s > 0 ? s : 0), den = (u128)(uint64_t)mp << (s < 0 ? -s : 0);
  return num / den < ((u128)1 << 62);
}
// ---- the property's demand on a stored field, evaluated exactly (128-bit integers), independent of the Lean model.
// q = (neg ? -1 : 1) * num/den is the exact quotient v/precision. The stored field is admissible iff it is not the NA code and
//   |code - q| <= T + slack            T = 1/2 step, 1 step for the 8-byte field (the tolerance the property states)
//   or code == OR and q is within T + slack of an integer outside [min, OR)   (an unrepresentable value saturates)
// slack = min(|q| * 2^-40, 1) when the quotient went through double arithmetic, 0 for the exact integer stream.
static i128 decodeI(const Kind &k, uint64_t u) {
  if (k.s && ((u >> (8 * k.w - 1)) & 1)) return (i128)u - ((i128)1 << (8 * k.w));
  return (i128)u;
}
static bool judgeFeasible(uint64_t a, int s, uint64_t mp) {
  if (mp == 0 || bitsOf(a) + (s > 0 ? s : 0) > 120 || bitsOf(mp) + (s < 0 ? -s : 0) > 120) return false;
  u128 num = (u128)a << (s > 0 ? s : 0), den = (u128)mp << (s < 0 ? -s : 0);
  return num / den < ((u128)1 << 64);
}
static bool judge(const Kind &k, bool neg, u128 num, u128 den, bool useSlack, uint64_t bits) {
  if (bits == orBits(k) + 1) return false;                       // "not available" is never the result of writing a value
  i128 c = decodeI(k, bits), orc = decodeI(k, orBits(k)), lom1 = (k.s ? -((i128)1 << (8 * k.w - 1)) : (i128)0) - 1;
  i128 m = (i128)(num / den), N = neg ? -(i128)num : (i128)num, D = (i128)den;
  i128 lim = (k.w == 8 ? 2 * D : D);                             // 2*T*den
  if (useSlack) { i128 sl = (i128)(num >> 39); lim += sl < 2 * D ? sl : 2 * D; }
  auto absI = [](i128 x) { return x < 0 ? -x : x; };
  auto small = [&](i128 x) { return absI(x) <= m + 3; };          // otherwise x is more than 2 steps from q (and x*den could overflow)
  if (small(c) && 2 * absI(c * D - N) <= lim) return true;
  if (c != orc) return false;
  if (small(orc) && 2 * (orc * D - N) <= lim) return true;       // OR - q <= T + slack
  if (small(lom1) && 2 * (N - lom1 * D) <= lim) return true;     // q - (min-1) <= T + slack
  return false;
}

static void doQz(const Kind &k, int64_t mv, int ev, int64_t mp, int ep) {
  if (!qzFeasible(mv, ev, mp, ep)) { C.out("bad-op"); return; }
  double v = ldexp((double)mv, ev), p = ldexp((double)mp, ep);
  int s = ev - ep; bool neg = mv < 0; uint64_t a = (uint64_t)(neg ? -mv : mv);
  u128 num = (u128)a << (s > 0 ? s : 0), den = (u128)(uint64_t)mp << (s < 0 ? -s : 0);
  u128 m = num / den, rem = num - m * den;
  // is the code left open by the property? 8-byte: always (one step). Others: at an exact tie, or so close to one
  // (2^-40 relative) that the double quotient may fall on either side. Otherwise exactly one code is within half a step.
  u128 d = 2 * rem > den ? 2 * rem - den : den - 2 * rem;
  bool tie = (2 * rem == den), open = k.w == 8 || d <= (num >> 39);
  std::vector<unsigned char> b;
  LAST.clear(); LASTOPEN = false;
  if (!addGuarded(k, v, p, N2kDoubleNA, b) || (int)b.size() != k.w) { C.out("fault"); C.fail(kkey(k, "front-fault"), "Add aborted"); return; }
  LAST = b; LASTKIND = k.name; LASTOPEN = open;
  if (open) C.out("stored"); else C.outs(hex(b.data(), b.size()));
  uint64_t bits = leLoad(b.data(), k.w);
  bool okCode = judge(k, neg, num, den, true, bits);
  if (!okCode)
    C.fail(std::string("C06:front:") + k.name, "v=%lld*2^%d p=%lld*2^%d (|v/p| = %s + %s/%s): stored %s is not within %s of it",
           (long long)mv, ev, (long long)mp, ep, intStr((double)(uint64_t)m).c_str(), intStr((double)rem).c_str(), intStr((double)den).c_str(),
           hex(b.data(), b.size()).c_str(), k.w == 8 ? "one step" : "half a step");
  // the getter must return (stored code)*precision
  bool isNA; long double dec = decode(k, bits, isNA);
  if (okCode) {
    tN2kMsg msg; msg.DataLen = k.w; memcpy(msg.Data, b.data(), k.w);
    int idx = 0; double rb = getK(msg, k, p, idx, NAN);
    double want = (double)dec * p;
    if (!(std::fabs(rb - want) <= std::fabs(want) * ldexp(1.0, -40)) || idx != k.w)
      C.fail(kkey(k, "load"), "bytes %s (code %s) read back with precision %lld*2^%d as a different value", hex(b.data(), b.size()).c_str(),
             intStr((double)dec).c_str(), (long long)mp, ep);
  }
  C.count(k.w == 8 ? "qz_8byte_judged" : tie ? "qz_exact_tie_judged" : open ? "qz_near_tie_judged" : bits == orBits(k) ? "qz_saturated" : "qz_plain");
  C.nontrivial(std::string("qz ") + k.name + " " + std::to_string(mp) + " " + std::to_string((long long)((uint64_t)m & 0x3ff)) + (neg ? "n" : "p"));
}

// chk / chkx: the bytes the library stored (carried in the op line for the model) judged against the exact quotient
static void doChk(const Kind &k, int64_t mv, int ev, int64_t mp, int ep, bool useSlack, const std::vector<unsigned char> &b, const char *failKey) {
  int s = ev - ep; bool neg = mv < 0; uint64_t a = neg ? (uint64_t)0 - (uint64_t)mv : (uint64_t)mv;
  if (mp <= 0 || (int)b.size() != k.w || !judgeFeasible(a, s, (uint64_t)mp)) { C.out("bad-op"); return; }
  u128 num = (u128)a << (s > 0 ? s : 0), den = (u128)(uint64_t)mp << (s < 0 ? -s : 0);
  bool ok = judge(k, neg, num, den, useSlack, leLoad(b.data(), k.w));
  C.out(ok ? "ok" : "bad");
  if (!ok) C.fail(failKey, "v=%lld*2^%d p=%lld*2^%d: stored %s is not within %s of v/p", (long long)mv, ev, (long long)mp, ep,
                  hex(b.data(), b.size()).c_str(), k.w == 8 ? "one step" : "half a step");
  C.count(ok ? "chk_ok" : "chk_bad");
}

// ---------------------------------------------------------------------------------------------- exec
static void exec(const std::string &line0) {
  std::string line = line0;
  std::vector<std::string> w = split(line);
  // replay: a recorded chk/chkx line carries the bytes of the run that recorded it; judge what THIS build stored
  if (!C.replay.empty() && !w.empty() && (w[0] == "chk" || w[0] == "chkx") && w.size() > 2 && !LAST.empty() && w[1] == LASTKIND) {
    w.back() = hex(LAST.data(), LAST.size()); line.clear();
    for (auto &t : w) line += (line.empty() ? "" : " ") + t;
  }
  C.op("%s", line.c_str());
  if (w.empty()) { C.out("bad-op"); return; }
  C.count("op_" + w[0]);
  const Kind *k = w.size() > 1 ? kindOf(w[1]) : nullptr;
  if (w[0] == "put" && k && (w.size() == 3 || w.size() == 4)) {
    double v, u = N2kDoubleNA;
    if (!parseVd(w[2], v) || (w.size() == 4 && !parseVd(w[3], u))) { C.out("bad-op"); return; }
    C.cases++; doPut(*k, v, u, w.size() == 4);
  } else if (w[0] == "get" && k && w.size() == 3) { C.cases++; doGet(*k, unhex(w[2])); }
  else if (w[0] == "msg" && w.size() == 2) {
    std::vector<unsigned char> b = unhex(w[1]);
    memset(DATA, 0, sizeof DATA); memcpy(DATA, b.data(), b.size() < sizeof DATA ? b.size() : sizeof DATA);
    C.cases++; C.out("ok");
  } else if (w[0] == "getat" && w.size() == 4) doGetAt(w[1], atoi(w[2].c_str()), atoi(w[3].c_str()));
  else if (w[0] == "putf" && (w.size() == 2 || w.size() == 3)) {
    C.cases++; doPutF((uint32_t)strtoul(w[1].c_str(), nullptr, 10), w.size() == 3 ? (uint32_t)strtoul(w[2].c_str(), nullptr, 10) : patOf(N2kFloatNA));
  } else if (w[0] == "getf" && w.size() == 2) { C.cases++; doGetF(unhex(w[1])); }
  else if (w[0] == "chk" && k && w.size() == 7)
    doChk(*k, strtoll(w[2].c_str(), nullptr, 10), atoi(w[3].c_str()), strtoll(w[4].c_str(), nullptr, 10), atoi(w[5].c_str()), true, unhex(w[6]),
          (std::string("C06:front:") + k->name).c_str());
  else if (w[0] == "chkx" && k && w.size() == 4) doChk(*k, strtoll(w[2].c_str(), nullptr, 10), 0, 1, 0, false, unhex(w[3]), kkey(*k, "store").c_str());
  else if (w[0] == "qz" && k && w.size() == 6) {
    C.cases++; doQz(*k, strtoll(w[2].c_str(), nullptr, 10), atoi(w[3].c_str()), strtoll(w[4].c_str(), nullptr, 10), atoi(w[5].c_str()));
  } else C.out("bad-op");
}

// ---------------------------------------------------------------------------------------------- generators
// after a put that answered `stored` (8-byte, value in range): hand the bytes the library stored to the judge
static void chkxLast(const Kind &k, double v) {
  if (LASTOPEN && !LAST.empty()) exec(std::string("chkx ") + k.name + " " + vdStr(v) + " " + hex(LAST.data(), LAST.size()));
  LASTOPEN = false;
}
static void put(const Kind &k, double v) { LASTOPEN = false; exec(std::string("put ") + k.name + " " + vdStr(v)); chkxLast(k, v); }
static void putU(const Kind &k, double v, double u) { LASTOPEN = false; exec(std::string("put ") + k.name + " " + vdStr(v) + " " + vdStr(u)); chkxLast(k, v); }
static void get(const Kind &k, uint64_t u, int n) {
  unsigned char b[8]; for (int i = 0; i < 8; i++) b[i] = (unsigned char)(u >> (8 * i));
  exec(std::string("get ") + k.name + " " + hex(b, (size_t)n));
}
static void qz(const Kind &k, double v, double p) {
  if (!std::isfinite(v) || v == N2kDoubleNA) return;
  int64_t mv, mp; int ev, ep; decomp(v, mv, ev); decomp(p, mp, ep);
  if (!qzFeasible(mv, ev, mp, ep)) { C.count("qz_skipped_infeasible"); return; }
  char b[200]; snprintf(b, sizeof b, "qz %s %lld %d %lld %d", k.name, (long long)mv, ev, (long long)mp, ep);
  LAST.clear(); exec(b);
  if (!LAST.empty()) {   // the stored bytes go to the judge (model: acceptsQ; here: judge())
    snprintf(b, sizeof b, "chk %s %lld %d %lld %d ", k.name, (long long)mv, ev, (long long)mp, ep); exec(std::string(b) + hex(LAST.data(), LAST.size()));
  }
}
// doubles around a centre: c-3 … c+3, and the neighbouring doubles where 1 is below the spacing
static void around(const Kind &k, long double c) {
  for (int d = -3; d <= 3; d++) put(k, (double)(c + d));
  double x = (double)c, lo = x, hi = x;
  for (int i = 0; i < 3; i++) { lo = nextafter(lo, -INFINITY); hi = nextafter(hi, INFINITY); put(k, lo); put(k, hi); }
}

static const double RESOLUTIONS[] = {1e-16, 1e-7, 1e-6, 1e-5, 3.125e-5, 1e-4, 0.001, 0.002, 0.004, 0.005, 0.01, 0.1, 0.2, 0.25,
                                     1, 3.125, 10, 60, 100, 1000, 3600};   // every literal passed to Add/Get…Double in src/

int main(int argc, char **argv) {
  C.init(argc, argv);
  signal(SIGPIPE, SIG_IGN);
  C.rule = "case = one field written and read back / one getter call; non-trivial = all but refused op lines; distinct = "
           "(kind, value class, low byte, magnitude) for put/get, (kind, offset, length) for getat, (kind, resolution, code bits, sign) for qz; chk/chkx lines re-judge the bytes of the preceding qz/put";
  if (patOf(N2kFloatNA) != 0xCE6E6B28u) C.fail("C06:harness:floatNA-pattern", "N2kFloatNA is %08x", patOf(N2kFloatNA));
  if (!C.replay.empty()) { for (auto &l : readLines(C.replay)) exec(l); workerStop(); C.finish(); return 0; }
  Rng R(C.seed);
  const int CAP = tN2kMsg::MaxDataLen;

  // ---- integer stream: exhaustive for 1- and 2-byte fields (every code, and beyond both ends)
  for (auto &k : KINDS) if (k.w <= 2) {
    long lo = (long)loOf(k), top = (1L << (8 * k.w));
    for (long v = lo - 3; v <= top + 3; v++) put(k, (double)v);
    for (long u = 0; u < top; u++) get(k, (uint64_t)u, k.w);
  }
  C.sample("exhaustive: put of every integer from min-3 to 2^(8w)+3 and get of every byte pattern, 1- and 2-byte fields, signed and unsigned");
  // ---- wider fields: boundaries and random codes
  long nrand = C.thorough ? 100000 : 8000;
  for (auto &k : KINDS) if (k.w > 2) {
    long double B = ldexpl(1.0L, 8 * k.w);
    for (long double c : {loOf(k), orOf(k), orOf(k) + 1, 0.0L, B / 2, B, -B / 2, -B, (long double)N2kDoubleNA}) around(k, c);
    for (long i = 0; i < nrand; i++) {
      uint64_t u = R.next() & maskOf(k.w);
      if (R.chance(1, 8)) u = R.chance(1, 2) ? (maskOf(k.w) - R.below(70000)) : R.below(70000);     // near 0 / -1
      if (R.chance(1, 8)) u = (maskOf(k.w) >> 1) + 1 - 35000 + R.below(70000);                      // near the sign boundary
      bool na; long double dec = decode(k, u & maskOf(k.w), na);
      put(k, (double)dec);                           // (8-byte: the nearest double)
      if (i % 2 == 0) get(k, u & maskOf(k.w), k.w);
    }
    get(k, orBits(k), k.w); get(k, orBits(k) + 1, k.w); get(k, 0, k.w); get(k, maskOf(k.w), k.w); get(k, (maskOf(k.w) >> 1) + 1, k.w);
  }
  C.sample("boundaries: min, OR, NA, 0, +-2^(8w-1), +-2^(8w), -1e9 each +-3 and +-3 neighbouring doubles; random codes for 3-, 4-, 8-byte fields");
  // ---- specials for every kind
  for (auto &k : KINDS) {
    for (double v : {(double)NAN, (double)INFINITY, -(double)INFINITY, 1e300, -1e300, -0.0, 0.0, 1e19, -1e19, 9223372036854775808.0,
                     -9223372036854775808.0, 18446744073709551616.0, 4e18, -4e18, 9223372036854774784.0, 4294967296.0, -2147483649.0, 1e9, -1e9})
      put(k, v);
    // explicit undefined markers: value equal to the marker -> NA; NaN marker never matches; inf marker matches inf
    putU(k, 5, 5); putU(k, -7, -7); putU(k, 0, -0.0); putU(k, NAN, NAN); putU(k, INFINITY, INFINITY); putU(k, -INFINITY, INFINITY);
    putU(k, -1e9, 0); putU(k, 1e300, 1e300); putU(k, 3, 4);
    for (int n = 0; n < k.w; n++) get(k, ~0ULL, n);   // short payloads
  }
  C.sample("specials: NaN, +-inf, +-1e300, -0.0, +-2^63, 2^64, -1e9 (N2kDoubleNA), explicit UndefVal equal/unequal/NaN/inf, short payloads");

  // ---- bounded getters: every (offset, DataLen) pair in 0..223 x 0..223 for each of the 10 getters
  {
    static const char *names[] = {"1s", "1u", "2s", "2u", "3s", "3u", "4s", "4u", "8s", "f"};
    for (const char *kn : names) for (int len = 0; len <= CAP; len++) {
      unsigned char d[tN2kMsg::MaxDataLen];
      int mode = (len + (int)R.below(4)) % 4;
      for (int j = 0; j < CAP; j++) d[j] = mode == 0 ? (unsigned char)R.next() : mode == 1 ? 0xff : mode == 2 ? (j % 4 == 3 ? 0x7f : 0xff) : (unsigned char)(R.chance(1, 3) ? 0xff : R.next());
      exec("msg " + hex(d, CAP));
      for (int idx = 0; idx <= CAP + 1; idx++) {
        exec(std::string("getat ") + kn + " " + std::to_string(idx) + " " + std::to_string(len));
      }
    }
    C.sample("getat: all (offset 0..224, DataLen 0..223) pairs for each of the 10 getters (both tiers), stale bytes behind the payload varied");
  }

  // ---- float fields
  {
    std::vector<uint32_t> pats = {0, 0x80000000u, 0x3f800000u, 0xbf800000u, 0xCE6E6B28u, 0x4E6E6B28u, 0x7fffffffu, 0xffffffffu, 0x7f800000u,
                                  0xff800000u, 0x7fc00000u, 0xffc00000u, 0x7f800001u, 0xff800001u, 0x7fbfffffu, 1, 0x807fffffu, 0x007fffffu,
                                  0x00800000u, 0x7f7fffffu, 0xff7fffffu, 0x3f000000u, 0x3e800000u, 0xC2F70000u};
    for (uint32_t p : pats) { exec("putf " + std::to_string(p)); unsigned char b[4] = {(unsigned char)p, (unsigned char)(p >> 8), (unsigned char)(p >> 16), (unsigned char)(p >> 24)}; exec("getf " + hex(b, 4)); }
    for (uint32_t p : pats) for (uint32_t u : {0u, 0x80000000u, 0x7fc00000u, 0x7f800000u, 0x3f800000u}) exec("putf " + std::to_string(p) + " " + std::to_string(u));
    long nf = C.thorough ? 100000 : 8000;
    for (long i = 0; i < nf; i++) {
      uint32_t p = (uint32_t)R.next();
      if (R.chance(1, 6)) p = (p & 0x807fffffu) | 0x7f800000u;   // inf / NaN exponent
      if (R.chance(1, 10)) p &= 0x807fffffu;                      // denormals
      exec("putf " + std::to_string(p));
      if (i % 2) { unsigned char b[4] = {(unsigned char)p, (unsigned char)(p >> 8), (unsigned char)(p >> 16), (unsigned char)(p >> 24)}; exec("getf " + hex(b, 4)); }
    }
    for (int n = 0; n < 4; n++) exec(std::string("getf ") + hex((const unsigned char *)"\x00\x00\x80\x3f", (size_t)n));
    C.sample("float: zeros, +-1, N2kFloatNA, NA pattern, infinities, quiet/signalling NaNs, denormals, extremes, explicit UndefVal, random patterns");
  }

  // ---- front end: round(v/precision) against exact rational rounding, every resolution literal of the library
  {
    long nq = C.thorough ? 1500 : 120;
    for (double p : RESOLUTIONS) for (auto &k : KINDS) {
      long double lo = loOf(k), orc = orOf(k);
      if (k.w == 8) { lo = -ldexpl(1.0L, 50); orc = ldexpl(1.0L, 50); }   // keep |v/p| where the double quotient is within 1/8 unit
      for (long i = 0; i < nq; i++) {
        long double span = orc - lo;
        long double code;
        switch (R.below(6)) {
          case 0: code = lo + (long double)R.below(40) - 3; break;                 // at the minimum
          case 1: code = orc - 36 + (long double)R.below(40); break;               // at the out-of-range code
          case 2: code = (long double)R.range(-300, 300); break;                   // around zero
          default: code = lo + floorl(span * ((long double)(R.next() >> 11) / 9007199254740992.0L)); break;
        }
        if (!k.s && code < -3) code = -code;
        static const double fr[] = {0, 0.5, -0.5, 0.25, -0.25, 0.4999999, 0.5000001, 0.49999999999, 0.75, 0.999999, 1e-9};
        double f = R.chance(1, 4) ? ((double)(R.next() >> 11) / 9007199254740992.0 - 0.5) : fr[R.below(sizeof fr / sizeof fr[0])];
        double v = (double)((code + (long double)f) * (long double)p);
        qz(k, v, p);
        if (R.chance(1, 3)) qz(k, -v, p);
        if (R.chance(1, 8)) { double t = ((double)code + 0.5) * p; qz(k, t, p); qz(k, nextafter(t, INFINITY), p); qz(k, nextafter(t, -INFINITY), p); }
      }
      qz(k, 0.0, p); qz(k, -0.0, p); qz(k, p / 2, p); qz(k, -p / 2, p); qz(k, p * 0.125, p); qz(k, 0.125, p);
    }
    C.sample("front end: 21 resolution literals (1e-16 … 3600) x 9 kinds x codes at min / OR / zero / random, fractions 0, +-0.5 (ties), "
             "near-ties, random; negated; stored bytes judged against the exact quotient (128-bit rationals) with the property's tolerance");
  }
  workerStop();
  C.finish();
  return 0;
}
