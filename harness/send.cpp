// C01 / C11 / C04(gate) harness: drives the REAL tNMEA2000 send path behind a scripted mock CAN driver.
// ops:  reset <t32|t64> <qsize> <mode> <now> <src:namehex>...   (state AFTER open+claim settle, reported by the harness)
//       txlist <dev> <pgn>... | fplist0 <pgn>... | fplist1 <pgn>... | acc <bits> | accdef <0|1> | t <ms>
//       send <dev|-1> <prio> <pgn> <src> <dst> <len> <hexdata> | poll | claim <dev> | q
#include "node.h"
#include <memory>
#include <list>
using namespace vh;
static Ctx C;

struct Node : public MockN2k {
  unsigned char src(int i) { return Devices[i].N2kSource; }
  uint64_t name(int i) { return Devices[i].DeviceInformation.GetName(); }
  void claim(int i) { StartAddressClaim(i); }
  uint16_t maxq() { return MaxCANSendFrames; }
  unsigned queued() { return MaxCANSendFrames ? (CANSendFrameBufferWrite + MaxCANSendFrames - CANSendFrameBufferRead) % MaxCANSendFrames : 0; }
  // first byte of the k-th queued frame (k=0 oldest); used only to learn the sequence id of a fully queued fast packet
  unsigned char queuedByte0(unsigned k) { return CANSendFrameBuf[(CANSendFrameBufferRead + 1 + k) % MaxCANSendFrames].buf[0]; }
};

static Node *N = nullptr;
static std::list<std::vector<unsigned long>> keep;   // storage for PGN lists handed to the library
static int nDev = 0, mode = 1;
static uint64_t claimUntil[16];   // oracle-side claim windows, from the `claim` ops it issued itself


// ---------------------------------------------------------------- frozen NMEA 2000 classification (oracle side)
#include "spec_tables.h"   // generated from /verif/spec/*.txt : SPEC_FAST_PACKET[], SPEC_SINGLE_FRAME[]
static bool fp0Replaced();
static bool specIsFastPacket(unsigned long pgn) {
  if (fp0Replaced()) {   // documented API: SetFastPacketMessages() replaces the library's default fast-packet list
    const unsigned long keep[] = {65240UL, 126208UL, 126464UL, 126996UL, 126998UL};
    for (unsigned long k : keep) if (k == pgn) return true;
    return pgn == 126720UL || (pgn >= 130816UL && pgn <= 131071UL);
  }
  for (size_t i = 0; i < sizeof(SPEC_FAST_PACKET) / sizeof(SPEC_FAST_PACKET[0]); i++) if (SPEC_FAST_PACKET[i] == pgn) return true;
  return pgn == 126720UL || (pgn >= 130816UL && pgn <= 131071UL);
}

static bool fp0ReplacedFlag = false;
static bool fp0Replaced() { return fp0ReplacedFlag; }
// ---------------------------------------------------------------- reference encoder (from the property statement)
struct RefMsg { std::vector<Frame> frames; bool refused; bool fast; };
static std::set<unsigned long> appFP;                      // application-declared fast-packet PGNs
static std::vector<std::set<unsigned long>> declaredTx;    // per device: declared transmit PGNs (incl. library defaults)
static std::map<std::pair<int, unsigned long>, int> lastSeq;   // (device, pgn) -> last sequence id seen
static const unsigned long DEF_TX[] = {59392UL, 59904UL, 60160UL, 60416UL, 60928UL, 126208UL, 126464UL, 126993UL, 126996UL, 126998UL};

static unsigned long refCanId(unsigned prio, unsigned long pgn, unsigned src, unsigned dst) {
  unsigned long pf = (pgn >> 8) & 0xff;
  unsigned long id = ((unsigned long)(prio % 8)) * (1UL << 26) + pgn * 256UL + src;
  if (pf < 240) id += (unsigned long)dst * 256UL;   // PDU1: low byte of PGN is 0, destination goes there
  return id;
}

// expected frames of an accepted message; seq = sequence id actually used (read from the first frame)
static std::vector<Frame> refFrames(unsigned long id, const std::vector<unsigned char> &pl, bool fast, int seq) {
  std::vector<Frame> r;
  if (!fast) { Frame f; f.id = id; f.len = (unsigned char)pl.size(); memset(f.buf, 0, 8); if (!pl.empty()) memcpy(f.buf, pl.data(), pl.size()); r.push_back(f); return r; }
  size_t L = pl.size(); size_t nfr = L <= 6 ? 1 : 1 + (L - 6 + 6) / 7;
  for (size_t k = 0; k < nfr; k++) {
    Frame f; f.id = id; f.len = 8; memset(f.buf, 0xff, 8);
    f.buf[0] = (unsigned char)(seq * 32 + k);
    if (k == 0) { f.buf[1] = (unsigned char)L; for (size_t j = 0; j < 6 && j < L; j++) f.buf[2 + j] = pl[j]; }
    else { size_t off = 6 + 7 * (k - 1); for (size_t j = 0; j < 7 && off + j < L; j++) f.buf[1 + j] = pl[off + j]; }
    r.push_back(f);
  }
  return r;
}

// C11 shadow FIFO: frames produced by successful SendFrame calls and not yet seen at the driver, in order
struct Owed { Frame f; long opline; };
static std::deque<Owed> owed;
static bool sameFrame(const Frame &a, const Frame &b) { return a.id == b.id && a.len == b.len && !memcmp(a.buf, b.buf, a.len > 8 ? 8 : a.len); }

// frames accepted by the driver must be exactly the front of the owed queue
static void settle(const std::vector<Frame> &got) {
  for (auto &g : got) {
    if (owed.empty()) { C.fail("C11:unexpected-frame", "driver got %s which no successful frame send produced", frameStr(g).c_str()); continue; }
    if (!sameFrame(owed.front().f, g)) {
      bool later = false; for (auto &o : owed) if (sameFrame(o.f, g)) later = true;
      C.fail(later ? "C11:order" : "C11:unexpected-frame", "driver got %s, next owed %s (from op %ld)", frameStr(g).c_str(), frameStr(owed.front().f).c_str(), owed.front().opline);
      if (later) { while (!owed.empty() && !sameFrame(owed.front().f, g)) owed.pop_front(); if (!owed.empty()) owed.pop_front(); }
      else if (owed.front().f.id == g.id) owed.pop_front();   // same message slot with corrupted content: resynchronise
      continue;
    }
    owed.pop_front();
  }
}

static std::string caseDesc; static bool caseRefusal = false, caseFast = false;

// C04: nothing may reach the driver before CANOpen() succeeded and 200 ms have passed
static void checkEarly(const std::vector<Frame> &got) {
  if (got.empty()) return;
  if (N->openedAt < 0 || (int64_t)g_now < N->openedAt + 200)
    C.fail("C04:early-frame", "%zu frame(s) at t=%llu, CAN opened at %lld", got.size(), (unsigned long long)g_now, (long long)N->openedAt);
}
// the node opened during this op: every device of a claimant node announces its address now
static long openedNow(bool wasOpen) {
  if (wasOpen || !N->isOpen()) return 0;
  C.count("opened_during_op");
  if (!(mode == 1 || mode == 2)) return 0;
  for (int d = 0; d < nDev; d++) {
    std::vector<unsigned char> nm(8); uint64_t name = N->name(d); for (int i = 0; i < 8; i++) nm[i] = (unsigned char)(name >> (8 * i));
    owed.push_back({refFrames(refCanId(6, 60928UL, N->src(d), 255), nm, false, 0)[0], C.opline});
    claimUntil[d] = g_now + 250;
  }
  return nDev;
}
static long openedNow(bool wasOpen);
static void endCase() {
  if (N) {
    // flush: the driver accepts everything now; every owed non-optional frame must arrive
    N->acceptScript.clear(); N->acceptDefault = true;
    for (int i = 0; i < 3; i++) { bool wasOpen = N->isOpen(); N->ParseMessages(); openedNow(wasOpen); }
    settle(N->sent); N->sent.clear();
    for (auto &o : owed) { C.fail("C11:lost-frame", "frame %s of a successful send (op %ld) never reached the driver", frameStr(o.f).c_str(), o.opline); break; }
    owed.clear();
    C.cases++;
    if (caseRefusal && caseFast) C.nontrivial(caseDesc);
  }
  caseDesc.clear(); caseRefusal = caseFast = false;
}

static void exec(const std::string &line) {
  std::vector<std::string> w = split(line);
  if (w[0] == "reset" || w[0] == "reset0") {
    bool settle0 = w[0] == "reset";
    // the harness itself fills in the settled state, so the op line is produced here
    endCase();
    bool t64 = w[1] == "t64"; (void)t64;
    unsigned qsize = strtoul(w[2].c_str(), 0, 10); mode = atoi(w[3].c_str()); nDev = atoi(w[4].c_str());
    uint64_t origin = strtoull(w[5].c_str(), 0, 10);
    g_now = origin;    // before construction: the constructor arms OpenScheduler from the clock
    delete N; N = new Node(); keep.clear(); fp0ReplacedFlag = false; appFP.clear(); lastSeq.clear(); owed.clear();
    declaredTx.assign(nDev, std::set<unsigned long>(DEF_TX, DEF_TX + 10));
    g_now = origin; memset(claimUntil, 0, sizeof claimUntil);
    N->SetDeviceCount(nDev);
    for (int i = 0; i < nDev; i++) N->SetDeviceInformation(1000 + 7 * i, 130 + i, 25, 2000 + i, 4, i);
    N->SetMode((tNMEA2000::tN2kMode)mode, w.size() > 6 ? (uint8_t)atoi(w[6].c_str()) : 20);
    N->EnableForward(false);
    N->SetN2kCANSendFrameBufSize(qsize);
    if (settle0) openAndSettle(*N, 700);
    N->sent.clear();
    std::string l = settle0 ? "reset " : "reset0 "; l += w[1]; char b[96];
    snprintf(b, sizeof b, " %u %d %llu", (unsigned)N->maxq(), mode, (unsigned long long)g_now); l += b;
    for (int i = 0; i < nDev; i++) { snprintf(b, sizeof b, " %u:%llx", N->src(i), (unsigned long long)N->name(i)); l += b; }
    C.op("%s", l.c_str()); caseDesc += l;
    if (settle0 && !N->isOpen()) C.fail("harness:not-open", "node did not open");
    C.out("ok"); return;
  }
  if (w[0] == "tpseq" && w.size() == 3) { endCase(); delete N; N = nullptr; }   // closes the running case first: opening the scratch node moves the process-wide scheduler sync offset
  C.op("%s", line.c_str()); C.count("op_" + w[0]); caseDesc += line; caseDesc += ';';
  if (w[0] == "tpseq" && w.size() == 3) {
    // C01, self-contained on a scratch node (the case's node and the clock are left as they are): fast-packet messages of one declared
    // transmit PGN keep consecutive sequence ids when transport-protocol sends of the same PGN (one started, one refused because a
    // transfer is pending) happen in between - "successive fast-packet messages of one declared transmit PGN"
    uint64_t keepNow = g_now; int nd = atoi(w[1].c_str()); unsigned long pgn = strtoul(w[2].c_str(), 0, 10);
    if (nd < 1) nd = 1; if (nd > 3) nd = 3;
    Node *S = new Node(); S->SetDeviceCount(nd);
    for (int i = 0; i < nd; i++) S->SetDeviceInformation(3000 + 7 * i, 130 + i, 25, 2000 + i, 4, i);
    S->SetMode(tNMEA2000::N2km_ListenAndNode, 40); S->EnableForward(false);
    static const unsigned long one[2][2] = {{0, 0}, {0, 0}}; (void)one;
    std::vector<unsigned long> *lst = new std::vector<unsigned long>{pgn, 0}; S->ExtendTransmitMessages(lst->data(), nd - 1);
    openAndSettle(*S, 700); S->sent.clear();
    int d = nd - 1; std::vector<int> ids;
    auto fp = [&]() { tN2kMsg m; m.SetPGN(pgn); m.Priority = 6; m.Destination = 255; for (int i = 0; i < 20; i++) m.AddByte((unsigned char)i);
      S->sent.clear(); bool r = S->SendMsg(m, d); int id = -1; for (auto &f : S->sent) if (((f.id >> 8) & 0x1ffff) == (pgn & 0x1ffff) || ((f.id >> 8) & 0x1ff00) == (pgn & 0x1ff00)) { id = f.buf[0] >> 5; break; }
      if (!r || id < 0) C.fail("harness:tpseq", "fast-packet send of %lu failed on the scratch node", pgn); ids.push_back(id); };
    auto tp = [&]() { tN2kMsg m; m.SetPGN(pgn); m.Priority = 6; m.Destination = 255; for (int i = 0; i < 20; i++) m.AddByte((unsigned char)(100 + i)); m.SetIsTPMessage(); S->SendMsg(m, d); };
    fp(); tp(); fp(); tp(); tp(); fp(); fp();
    for (size_t i = 1; i < ids.size(); i++) if (ids[i - 1] >= 0 && ids[i] >= 0 && ids[i] != (ids[i - 1] + 1) % 8) {
      C.fail("C01:sequence:tp-interleaved", "PGN %lu device %d: sequence id %d follows %d although only transport-protocol sends of the PGN happened in between", pgn, d, ids[i], ids[i - 1]); break; }
    g_now = keepNow; C.count("tpseq_checks"); C.out("ok"); return;   // the scratch node is leaked on purpose (tNMEA2000 has no destructor for its buffers)
  }
  if (!N) { C.out("bad-op"); return; }
  auto listOf = [&](size_t from) { keep.emplace_back(); for (size_t i = from; i < w.size(); i++) keep.back().push_back(strtoul(w[i].c_str(), 0, 10)); keep.back().push_back(0); return keep.back().data(); };
  if (w[0] == "txlist") { int d = atoi(w[1].c_str()); const unsigned long *p = listOf(2); N->ExtendTransmitMessages(p, d); if (d >= 0 && d < nDev) for (size_t i = 2; i < w.size(); i++) declaredTx[d].insert(strtoul(w[i].c_str(), 0, 10)); C.out("ok"); return; }
  if (w[0] == "fplist0") { fp0ReplacedFlag = true; N->SetFastPacketMessages(listOf(1)); for (size_t i = 1; i < w.size(); i++) appFP.insert(strtoul(w[i].c_str(), 0, 10)); C.out("ok"); return; }
  if (w[0] == "fplist1") { N->ExtendFastPacketMessages(listOf(1)); for (size_t i = 1; i < w.size(); i++) appFP.insert(strtoul(w[i].c_str(), 0, 10)); C.out("ok"); return; }
  if (w[0] == "acc") { for (char c : w[1]) N->acceptScript.push_back(c == '1'); C.out("ok"); return; }
  if (w[0] == "accdef") { N->acceptDefault = w[1] == "1"; C.out("ok"); return; }
  if (w[0] == "t") { g_now += strtoull(w[1].c_str(), 0, 10); C.out("ok"); return; }
  if (w[0] == "q") { C.out("%u %u", N->qRead(), N->qWrite()); return; }
  if (w[0] == "canopen") { N->openOk = w[1] == "1"; C.out("ok"); return; }
  if (w[0] == "poll") { long r0 = N->refused; bool wasOpen = N->isOpen(); unsigned nq0 = N->queued(); N->ParseMessages(); if (N->refused != r0) caseRefusal = true;
    long cl = openedNow(wasOpen); long produced = (long)N->sent.size() + (long)N->queued() - (long)nq0;
    if (produced != cl) C.fail("C04:poll-produces-frames", "poll produced %ld frames, %ld address claims expected", produced, cl);
    checkEarly(N->sent); settle(N->sent); C.outs(std::string("- ") + (N->sent.empty() ? "-" : N->takeSent())); N->sent.clear(); return; }
  if (w[0] == "claim") {
    int d = atoi(w[1].c_str()); if (d < 0 || d >= nDev) { C.out("bad-op"); return; }
    unsigned nq0 = N->queued(); long r0 = N->refused;
    N->claim(d);
    if (mode == 1 || mode == 2) claimUntil[d] = g_now + 250;
    if (N->refused != r0) caseRefusal = true;
    std::vector<Frame> got = N->sent; N->sent.clear();
    long produced = (long)got.size() + (long)N->queued() - (long)nq0;
    bool claimant = (mode == 1 || mode == 2);
    std::vector<unsigned char> nm(8); uint64_t name = N->name(d); for (int i = 0; i < 8; i++) nm[i] = (unsigned char)(name >> (8 * i));
    if (produced > (claimant ? 1 : 0)) C.fail("C04:claim-emits-other", "claim produced %ld frames", produced);
    if (produced == 1) owed.push_back({refFrames(refCanId(6, 60928UL, N->src(d), 255), nm, false, 0)[0], C.opline});
    settle(got);
    std::string s; for (auto &f : got) { if (!s.empty()) s += ' '; s += frameStr(f); }
    C.outs(std::string("- ") + (s.empty() ? "-" : s)); return;
  }
  if (w[0] == "send") {
    int d = atoi(w[1].c_str()); unsigned prio = strtoul(w[2].c_str(), 0, 10); unsigned long pgn = strtoul(w[3].c_str(), 0, 10);
    unsigned src = strtoul(w[4].c_str(), 0, 10), dst = strtoul(w[5].c_str(), 0, 10); int len = atoi(w[6].c_str());
    std::vector<unsigned char> data = unhex(w[7]);
    tN2kMsg m; memset(m.Data, 0x55, sizeof m.Data);
    m.Priority = (unsigned char)prio; m.PGN = pgn; m.Source = (unsigned char)src; m.Destination = (unsigned char)dst; m.DataLen = len;
    if (!data.empty()) memcpy(m.Data, data.data(), data.size() > 223 ? 223 : data.size());
    unsigned nq0 = N->queued(); long r0 = N->refused; bool wasOpen = N->isOpen();
    bool ret = N->SendMsg(m, d);
    if (N->refused != r0) caseRefusal = true;
    std::vector<Frame> got = N->sent; N->sent.clear();
    checkEarly(got);
    long cl = openedNow(wasOpen); nq0 += (unsigned)cl;                     // claims produced by an open inside this call come first in the stream
    long produced = (long)got.size() + (long)N->queued() - (long)nq0;     // frames this call produced for the message itself
    if (!N->isOpen() && (ret || produced)) C.fail("C04:send-before-open", "ret=%d frames=%ld", (int)ret, produced);
    // ---------------- oracle (C01 framing, C04 gate, C11 queue)
    int di = d < 0 ? 0 : d;
    bool devOk = d < nDev;
    unsigned esrc = (d >= 0 && devOk) ? N->src(di) : src;
    unsigned long pf = (pgn >> 8) & 0xff;
    bool pdu1 = pf < 240;
    bool unencodable = pgn == 0 || (pdu1 && (pgn & 0xff) != 0) || (esrc > 251 && pgn != 60928UL);
    bool claiming = devOk && g_now < claimUntil[di];             // the oracle's own view: 250 ms after a `claim` op
    bool claimEdge = devOk && g_now == claimUntil[di] && claimUntil[di] != 0;   // boundary instant: either timer build may differ by 1 ms
    if (devOk && !ret && produced == 0) lastSeq.erase({di, pgn});   // a send that produced nothing may or may not have consumed a sequence id: no expectation for the next one
    if (d >= 0 && devOk && esrc > 251 && pgn != 60928UL && (ret || produced)) C.fail("C04:null-address-sends", "device %d at address %u sent pgn %lu (ret=%d frames=%ld)", di, esrc, pgn, (int)ret, produced);
    if (unencodable && (ret || produced)) C.fail("C01:refusal", "unencodable message pgn=%lu src=%u accepted (ret=%d frames=%ld)", pgn, esrc, (int)ret, produced);
    else if (mode == 0 && (ret || produced)) C.fail("C04:listen-only-sends", "ret=%d frames=%ld", (int)ret, produced);
    else if (claiming && pgn != 60928UL && (ret || produced)) C.fail("C04:send-while-claiming", "dev %d pgn %lu ret=%d frames=%ld", di, pgn, (int)ret, produced);
    else if (!devOk && (ret || produced)) C.fail("C01:bad-device-index", "ret=%d frames=%ld", (int)ret, produced);
    else if (claimEdge && pgn != 60928UL && !ret && !produced) { C.count("send_at_claim_boundary_refused"); }
    else if (devOk && !unencodable && mode != 0 && !(claiming && pgn != 60928UL)) {
      std::vector<unsigned char> pl(data.begin(), data.begin() + (len < (int)data.size() ? len : (int)data.size()));
      bool fastClass = prio < 0x80 && (specIsFastPacket(pgn) || appFP.count(pgn));
      bool fast = !(len <= 8 && !fastClass);
      if (fast) caseFast = true;
      unsigned long id = refCanId(prio, pgn, esrc, pdu1 ? dst : 0);
      int seq = 0;
      if (fast && produced > 0) {
        // position of this message's first frame in the FIFO stream (got ++ queue) is nq0
        seq = (nq0 < got.size() ? got[nq0].buf[0] : N->queuedByte0(nq0 - (unsigned)got.size())) >> 5;
        bool declared = declaredTx[di].count(pgn) && (specIsFastPacket(pgn) || appFP.count(pgn));
        auto it = lastSeq.find({di, pgn});
        if (declared && it != lastSeq.end() && seq != (it->second + 1) % 8)
          C.fail("C01:sequence", "declared pgn %lu dev %d: sequence id %d follows %d", pgn, di, seq, it->second);
        lastSeq[{di, pgn}] = seq;
      }
      if (fast && produced == 0) lastSeq.erase({di, pgn});   // a send that produced nothing may have consumed an id: no expectation for the next one
      std::vector<Frame> exp = refFrames(id, pl, fast, seq);
      if (ret && produced != (long)exp.size()) C.fail(fast ? "C01:fast-packet-frame-count" : "C01:single-frame", "pgn %lu len %d: send succeeded with %ld frames, expected %zu", pgn, len, produced, exp.size());
      if (!ret && produced >= (long)exp.size()) C.fail("C11:failure-reported-but-all-sent", "pgn %lu len %d: %ld frames produced, send reported failure", pgn, len, produced);
      for (long i = 0; i < produced && i < (long)exp.size(); i++) owed.push_back({exp[i], C.opline});
      // frames that went out in this very call are checked against the expectation right away (precise key)
      if (got.size() > nq0) for (size_t i = nq0; i < got.size(); i++) {
        size_t k = i - nq0;
        if (k >= exp.size() || !sameFrame(exp[k], got[i])) { C.fail(fast ? "C01:fast-packet-frame" : "C01:single-frame", "frame %zu of pgn %lu len %d prio %u: got %s want %s", k, pgn, len, prio, frameStr(got[i]).c_str(), k < exp.size() ? frameStr(exp[k]).c_str() : "<none>"); break; }
      }
    }
    settle(got);
    std::string s; for (auto &f : got) { if (!s.empty()) s += ' '; s += frameStr(f); }
    C.outs(std::string(ret ? "1 " : "0 ") + (s.empty() ? "-" : s));
    return;
  }
  C.out("bad-op");
}

// ------------------------------------------------------------------------------------------------ generators
static const unsigned long SOME_FP[] = {65240, 126208, 126464, 126996, 126998, 126983, 127489, 128275, 129029, 129038, 129540, 130074, 130577, 126720, 130816, 130900, 131071, 127233, 129285};
static const unsigned long SOME_SF[] = {59392, 59904, 60928, 126992, 126993, 127245, 127250, 127488, 127508, 128259, 128267, 129025, 129026, 130306, 130310, 130312, 61184, 65280, 65300, 65535, 127501};
static unsigned long genPGN(Rng &R) {
  unsigned k = (unsigned)R.below(100);
  if (k < 35) return SOME_FP[R.below(sizeof SOME_FP / sizeof *SOME_FP)];
  if (k < 65) return SOME_SF[R.below(sizeof SOME_SF / sizeof *SOME_SF)];
  if (k < 70) return 0;
  if (k < 78) return (unsigned long)R.range(0, 0xEF) << 8 | (unsigned long)R.range(1, 255) | ((unsigned long)R.below(2) << 16);   // PDU1 with non-zero low byte
  if (k < 86) return ((unsigned long)R.range(0, 0xEF) << 8) | ((unsigned long)R.below(2) << 16);                                  // PDU1 valid
  if (k < 96) return (unsigned long)R.range(0xF000, 0x1FFFF);
  return (unsigned long)R.range(0, 0x3FFFF);
}

static void genSend(Rng &R, int forceDev = -2, long forcePgn = -1, int forceLen = -1);
static void genSend(Rng &R, int forceDev, long forcePgn, int forceLen) {
  int d = forceDev != -2 ? forceDev : (R.chance(1, 15) ? -1 : (R.chance(1, 25) ? nDev + (int)R.below(2) : (int)R.below(nDev)));
  unsigned prio = R.chance(1, 12) ? (unsigned)R.range(8, 255) : (unsigned)R.below(8);
  unsigned long pgn = forcePgn >= 0 ? (unsigned long)forcePgn : genPGN(R);
  unsigned src = R.chance(1, 6) ? (unsigned)R.range(250, 255) : (unsigned)R.below(252);
  unsigned dst = R.chance(1, 2) ? 255 : (unsigned)R.below(256);
  int len = forceLen >= 0 ? forceLen : (R.chance(1, 3) ? (int)R.range(0, 9) : (R.chance(1, 8) ? (int)R.range(215, 223) : (int)R.range(0, 223)));
  int have = len < 6 ? 6 + (int)R.below(3) : len + (int)R.below(3); if (have > 223) have = 223;
  std::vector<unsigned char> data(have); for (auto &b : data) b = (unsigned char)R.below(256);
  if (R.chance(1, 5)) for (auto &b : data) b = 0xff;
  char hd[64]; snprintf(hd, sizeof hd, "send %d %u %lu %u %u %d ", d, prio, pgn, src, dst, len);
  exec(std::string(hd) + hex(data.data(), data.size()));
}

static void openingCase(Rng &R, const char *flavor) {
  unsigned qsize = R.chance(1, 3) ? 40 : (unsigned)R.range(2, 7); int devs = R.chance(1, 2) ? 1 : (int)R.range(1, 4);
  int md = R.chance(1, 4) ? (int)R.below(5) : (R.chance(1, 2) ? 1 : 2);
  uint64_t origin = R.chance(1, 3) ? 0xFFFFFFFFULL - R.below(600) : (R.chance(1, 2) ? R.below(100000) : 0x7FFFFFFFULL - R.below(600));
  char b[160]; snprintf(b, sizeof b, "reset0 %s %u %d %d %llu", flavor, qsize, md, devs, (unsigned long long)origin); exec(b);
  if (R.chance(1, 4)) exec("canopen 0");
  int nops = (int)R.range(8, 40);
  for (int i = 0; i < nops; i++) {
    unsigned k = (unsigned)R.below(100);
    if (k < 30) exec("t " + std::to_string(R.chance(1, 3) ? R.range(0, 3) : (R.chance(1, 2) ? R.range(190, 210) : R.range(0, 400))));
    else if (k < 65) exec("poll");
    else if (k < 90) genSend(R, (int)R.below(devs), R.chance(1, 4) ? 60928 : -1, R.chance(1, 2) ? (int)R.range(0, 8) : -1);
    else if (k < 96) exec(std::string("canopen ") + (R.chance(2, 3) ? "1" : "0"));
    else exec("acc " + std::string(R.chance(1, 2) ? "01" : "10"));
  }
}

// directed: every fast-packet PGN of the transmit list (library defaults and declared) takes its counter slot, then a
// declared PGN alternates with an undeclared one: the declared one must keep consecutive ids (slot table sized exactly)
static void seqExhaustCase(Rng &R, const char *flavor) {
  char b[160]; int devs = (int)R.range(1, 3);
  snprintf(b, sizeof b, "reset %s 40 %d %d %llu", flavor, R.chance(1, 2) ? 1 : 2, devs, (unsigned long long)R.below(100000)); exec(b);
  int d = (int)R.below(devs);
  std::vector<unsigned long> decl; int nd = (int)R.range(1, 3);
  for (int i = 0; i < nd; i++) decl.push_back(SOME_FP[5 + R.below(10)]);
  std::string l = "txlist " + std::to_string(d); for (auto p : decl) l += " " + std::to_string(p); exec(l);
  unsigned long defFP[] = {126208UL, 126464UL, 126996UL, 126998UL};
  std::vector<unsigned long> order(defFP, defFP + 4); for (auto p : decl) order.push_back(p);
  for (size_t i = order.size(); i > 1; i--) std::swap(order[i - 1], order[R.below(i)]);
  for (auto p : order) genSend(R, d, (long)p, (int)R.range(9, 40));
  for (int i = 0; i < 12; i++) { genSend(R, d, (long)order.back(), (int)R.range(9, 40)); genSend(R, d, 130817 + (long)R.below(3), (int)R.range(9, 30)); if (R.chance(1, 3)) genSend(R, d, (long)order[R.below(order.size())], 12); }
}

// directed: a large send queue (more than 256 slots) filled by refusals and drained again: ring indices above 255
static void bigQueueCase(Rng &R, const char *flavor) {
  char b[160]; unsigned q = (unsigned)R.range(258, 340);
  snprintf(b, sizeof b, "reset %s %u 1 1 %llu", flavor, q, (unsigned long long)R.below(100000)); exec(b);
  exec("accdef 0");
  int n = (int)R.range(256, (int)q - 1 < 300 ? (int)q - 1 : 300);
  for (int i = 0; i < n; i++) genSend(R, 0, 127250, 8);
  exec("q"); exec("accdef 1"); exec("poll"); exec("q");
  exec("accdef 0"); for (int i = 0; i < 40; i++) genSend(R, 0, 127250, 8); exec("acc 1111111"); exec("poll"); exec("accdef 1"); exec("poll"); exec("q");
}

// directed: timers armed so that their deadline is exactly the 32-bit scheduler's "disabled" sentinel 0xFFFFFFFF
static void sentinelCase(Rng &R, const char *flavor, int k, bool opening) {
  char b[160];
  if (!opening) {
    // claim issued at now = 0xFFFFFFFF - 250 - k + j  (settle takes 700 ms)
    uint64_t origin = 0xFFFFFFFFULL - 250 - 700 - (uint64_t)k;
    snprintf(b, sizeof b, "reset %s 40 1 1 %llu", flavor, (unsigned long long)origin); exec(b);
    if (k) exec("t " + std::to_string(k));
    exec("claim 0");
    for (int i = 0; i < 6; i++) { genSend(R, 0, 127250, 8); exec("t 49"); exec("poll"); }
    genSend(R, 0, 129029, 20);
  } else {
    // construction at 0xFFFFFFFF - k (FromNow(0)), CANOpen at the first poll that is due, settle deadline near the sentinel
    uint64_t origin = 0xFFFFFFFFULL - (uint64_t)k;
    snprintf(b, sizeof b, "reset0 %s 40 1 1 %llu", flavor, (unsigned long long)origin); exec(b);
    for (int i = 0; i < 8; i++) { exec("poll"); genSend(R, 0, 127250, 8); exec("t " + std::to_string(i < 2 ? 1 : 50)); }
    uint64_t origin2 = 0xFFFFFFFFULL - 200 - (uint64_t)k;
    snprintf(b, sizeof b, "reset0 %s 40 2 1 %llu", flavor, (unsigned long long)origin2); exec(b);
    exec("t 1"); exec("poll");
    for (int i = 0; i < 8; i++) { exec("t 40"); exec("poll"); genSend(R, 0, 127250, 8); }
  }
}

static void randomCase(Rng &R, const char *flavor) {
  unsigned qsize = R.chance(1, 8) ? 40 : (unsigned)R.range(0, 7); int devs = R.chance(1, 2) ? 1 : (int)R.range(1, 9);
  int md = R.chance(1, 6) ? (int)R.below(5) : (R.chance(1, 2) ? 1 : 2);
  uint64_t origin = R.chance(1, 3) ? 0xFFFFFFFFULL - R.below(3000) : (R.chance(1, 2) ? R.below(100000) : 0x7FFFFFFFULL - R.below(2000));
  char b[160]; snprintf(b, sizeof b, "reset %s %u %d %d %llu", flavor, qsize, md, devs, (unsigned long long)origin);
  if (R.chance(1, 6)) snprintf(b, sizeof b, "reset %s %u %d %d %llu %d", flavor, qsize, md, devs, (unsigned long long)origin, 254 - (int)R.range(1, devs + 1));   // some devices above 251 / at the null address
  exec(b);
  if (R.chance(1, 2)) { std::string l = "fplist1"; int n = (int)R.range(1, 4); for (int i = 0; i < n; i++) l += " " + std::to_string(R.chance(1, 2) ? 65300 + R.below(5) : genPGN(R) | 0xF000); exec(l); }
  if (R.chance(1, 10)) { std::string l = "fplist0"; int n = (int)R.range(1, 3); for (int i = 0; i < n; i++) l += " " + std::to_string(SOME_FP[R.below(10)]); exec(l); }
  std::vector<unsigned long> favourite;
  for (int d = 0; d < devs; d++) if (R.chance(2, 3)) { std::string l = "txlist " + std::to_string(d); int n = (int)R.range(1, 4); for (int i = 0; i < n; i++) { unsigned long p = R.chance(3, 4) ? SOME_FP[R.below(sizeof SOME_FP / sizeof *SOME_FP)] : SOME_SF[R.below(10)]; l += " " + std::to_string(p); favourite.push_back(p); } exec(l); }
  int nops = (int)R.range(10, 80);
  for (int i = 0; i < nops; i++) {
    unsigned k = (unsigned)R.below(100);
    if (k < 55) { if (!favourite.empty() && R.chance(1, 2)) genSend(R, (int)R.below(devs), (long)favourite[R.below(favourite.size())]); else genSend(R); }
    else if (k < 70) { std::string bits; int n = (int)R.range(1, 12); for (int j = 0; j < n; j++) bits += R.chance(1, 2) ? '1' : '0'; exec("acc " + bits); }
    else if (k < 76) exec(std::string("accdef ") + (R.chance(2, 3) ? "1" : "0"));
    else if (k < 88) exec("poll");
    else if (k < 92) exec("claim " + std::to_string(R.below(devs)));
    else if (k < 97) exec("t " + std::to_string(R.chance(1, 2) ? R.range(0, 260) : R.range(240, 260)));
    else exec("q");
  }
}

int main(int argc, char **argv) {
  C.init(argc, argv);
  C.rule = "case = one node (reset) with its op sequence; non-trivial = contains a driver refusal and a fast-packet message; distinct = hash of the op sequence";
#ifdef N2K_VERIF_T32
  const char *flavor = "t32";
#else
  const char *flavor = "t64";
#endif
  if (!C.replay.empty()) {
    for (auto &l : readLines(C.replay)) {
      std::vector<std::string> w = split(l);
      if (w[0] == "reset0" && w.size() >= 6) {
        int devs = (int)w.size() - 5; char b[160]; snprintf(b, sizeof b, "reset0 %s %s %s %d %s %d", flavor, w[2].c_str(), w[3].c_str(), devs, w[4].c_str(), atoi(w[5].c_str())); exec(b);
      } else if (w[0] == "reset" && w.size() >= 6 && w[5].find(':') != std::string::npos) {
        // recorded form "reset fl qsize mode now src:name..." -> regenerate: devices = number of src:name fields; origin = now-700
        int devs = (int)w.size() - 5; unsigned long long now = strtoull(w[4].c_str(), 0, 10);
        char b[160]; snprintf(b, sizeof b, "reset %s %s %s %d %llu %d", flavor, w[2].c_str(), w[3].c_str(), devs, now >= 700 ? now - 700 : 0, atoi(w[5].c_str())); exec(b);
      } else exec(l);
    }
    endCase(); C.finish(); return 0;
  }
  Rng R(C.seed);
  // (1) identifier mapping: all 2^17 PGNs x 8 priorities, sampled addresses, through the real send path (single device, big queue)
  {
    char b[160]; snprintf(b, sizeof b, "reset %s 40 1 1 1000", flavor); exec(b);
    unsigned step = C.thorough ? 1 : 37;
    for (unsigned long pgn = R.below(step); pgn < (1UL << 17); pgn += step) {
      char hd[96]; unsigned prio = (unsigned)(pgn % 8); if (C.thorough) prio = (unsigned)R.below(8);
      snprintf(hd, sizeof hd, "send %d %u %lu %u %u %d ", R.chance(1, 4) ? -1 : 0, prio, pgn, (unsigned)R.below(252), (unsigned)R.below(256), (int)R.range(0, 8));
      unsigned char d[8]; for (auto &x : d) x = (unsigned char)R.below(256);
      exec(std::string(hd) + hex(d, 8));
    }
    C.sample("id sweep: send 0 <prio> <pgn> ... for PGNs 0..131071 step " + std::to_string(step));
  }
  // (2) every payload length 0..223 for each PGN class, with dirty bytes beyond the length
  {
    char b[160]; snprintf(b, sizeof b, "reset %s 40 2 2 5000", flavor); exec(b);
    exec("txlist 0 129029 130074"); exec("fplist1 65300");
    unsigned long cls[] = {129029, 126996, 126208, 130900, 65300, 127250, 59904};
    for (unsigned long p : cls) for (int len = 0; len <= 223; len += (C.thorough ? 1 : 3)) genSend(R, 0, (long)p, len);
    C.sample("length sweep: every payload length 0..223 for system/mandatory/default/proprietary/declared fast-packet and single-frame PGNs");
  }
  // (3) random cases with back-pressure
  int ncases = C.thorough ? 1500 : 150;
  for (int nd = 1; nd <= 3; nd++) for (unsigned long p : {129029UL, 126996UL, 130816UL, 129540UL}) { char tb[64]; snprintf(tb, sizeof tb, "tpseq %d %lu", nd, p); exec(tb); }
  for (int i = 0; i < ncases; i++) { randomCase(R, flavor); if (i % 3 == 0) openingCase(R, flavor); if (i % 15 == 0) seqExhaustCase(R, flavor); }
  for (int i = 0; i < (C.thorough ? 6 : 1); i++) bigQueueCase(R, flavor);
  for (int k = 0; k < 3; k++) { sentinelCase(R, flavor, k, false); sentinelCase(R, flavor, k, true); }
  C.sample("directed: slot-table exhaustion for sequence counters; send queue > 256 slots filled and drained; deadlines equal to the 32-bit scheduler sentinel");
  // (4) exhaustive accept/refuse patterns over short op sequences, small queues
  {
    int L = C.thorough ? 10 : 7;
    for (unsigned qs = 2; qs <= (C.thorough ? 4u : 3u); qs++)
      for (unsigned pat = 0; pat < (1u << L); pat++) {
        char b[160]; snprintf(b, sizeof b, "reset %s %u 1 1 2000", flavor, qs); exec(b);
        std::string bits; for (int j = 0; j < L; j++) bits += (pat >> j & 1) ? '1' : '0';
        exec("acc " + bits); exec("accdef 0");
        genSend(R, 0, 127250, 8); genSend(R, 0, 129029, 20); exec("poll"); genSend(R, 0, 59904, 3); exec("poll"); exec("q");
      }
    C.count("exhaustive_accept_patterns", (C.thorough ? 3 : 2) * (1 << L));
    C.sample("exhaustive: every accept/refuse pattern of length " + std::to_string(L) + " over [single, 4-frame fast packet, poll, single, poll] for queue sizes 2.." + std::to_string(C.thorough ? 4 : 3));
  }
  endCase();
  C.finish();
  return 0;
}
