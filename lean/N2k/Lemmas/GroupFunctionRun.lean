import N2k.Lemmas.GroupFunctionPending
import N2k.Lemmas.SendGate
/-! Histories of the group-function node model: events, the decision log, the invariant, and the lifting of the
per-step theorems to runs (C09). -/
namespace N2k.GF
open N2k.Send N2k.Time

/-! ## what the send path leaves alone -/

/-- the parts of the send state the group-function dispatch depends on: mode, timer build, open state and the device addresses -/
def SameNode (s s' : St) : Prop :=
  s'.claimMode = s.claimMode ∧ s'.flavor = s.flavor ∧ s'.openState = s.openState
    ∧ s'.devs.map (·.source) = s.devs.map (·.source)

theorem SameNode.refl (s : St) : SameNode s s := ⟨rfl, rfl, rfl, rfl⟩
theorem SameNode.trans {a b c : St} (h1 : SameNode a b) (h2 : SameNode b c) : SameNode a c := by
  obtain ⟨a1, a2, a3, a4⟩ := h1; obtain ⟨b1, b2, b3, b4⟩ := h2
  exact ⟨b1.trans a1, b2.trans a2, b3.trans a3, b4.trans a4⟩

theorem map_source_set (devs : List Dev) (i : Nat) (d d' : Dev) (hd : devs[i]? = some d) (hs : d'.source = d.source) :
    (updDev devs i d').map (·.source) = devs.map (·.source) := by
  unfold updDev
  rw [List.map_set]
  apply List.ext_getElem?
  intro j
  by_cases hj : i = j
  · subst hj
    have hlt : i < devs.length := by
      rcases Nat.lt_or_ge i devs.length with h | h
      · exact h
      · rw [List.getElem?_eq_none h] at hd; cases hd
    rw [List.getElem?_set_self (by simpa using hlt), List.getElem?_map, hd]; simp [hs]
  · rw [List.getElem?_set_ne hj]

theorem claimStarted_source (f : Flavor) (now : Nat) (d : Dev) : (isAddressClaimStarted f now d).1.source = d.source := by
  unfold isAddressClaimStarted; split <;> (try split) <;> rfl

theorem seqCounter_source (ls : Lists) (d : Dev) (pgn : Nat) : (getSequenceCounter ls d pgn).1.source = d.source := rfl

theorem gate_refuse_same (s : St) (m : Msg) (dev : Option Nat) (s' : St) (h : gate s m dev = .refuse s') : SameNode s s' := by
  unfold gate at h
  by_cases hidx : dev.getD 0 ≥ s.devs.length
  · simp only [hidx, ↓reduceIte] at h; injection h with h; subst h; exact SameNode.refl _
  · simp only [hidx, ↓reduceIte] at h
    cases hd : s.devs[dev.getD 0]? with
    | none => simp only [hd] at h; injection h with h; subst h; exact SameNode.refl _
    | some d0 =>
      simp only [hd] at h
      by_cases h3 : srcOf dev d0 m > Gen.maxCanBusAddress ∧ m.pgn ≠ 60928
      · rw [if_pos h3] at h; injection h with h; subst h; exact SameNode.refl _
      · rw [if_neg h3] at h
        by_cases hc : n2kToCanId m.prio m.pgn (srcOf dev d0 m) (if m.pgn &&& 0xff ≠ 0 then 0xff else m.dst) = 0
        · rw [if_pos hc] at h; injection h with h; subst h; exact SameNode.refl _
        · rw [if_neg hc] at h
          by_cases hl : s.listenOnly = true
          · rw [if_pos hl] at h; injection h with h; subst h; exact SameNode.refl _
          · rw [if_neg hl] at h
            by_cases hp0 : m.pgn = 0
            · rw [if_pos hp0] at h; injection h with h; subst h; exact SameNode.refl _
            · rw [if_neg hp0] at h
              by_cases hcl : (isAddressClaimStarted s.flavor s.now d0).2 = true ∧ m.pgn ≠ 60928
              · rw [if_pos hcl] at h; injection h with h; subst h
                exact ⟨rfl, rfl, rfl, map_source_set _ _ d0 _ hd (claimStarted_source _ _ _)⟩
              · rw [if_neg hcl] at h; cases h

theorem sendMsg_sameNode (s : St) (m : Msg) (dev : Option Nat) : SameNode s (sendMsg s m dev).1 := by
  unfold sendMsg
  cases hg : gate s m dev with
  | refuse s' => exact gate_refuse_same s m dev s' hg
  | pass s1 d1 canId =>
    obtain ⟨d0, hp⟩ := gate_pass s m dev s1 d1 canId hg
    have hs1 : SameNode s s1 := by
      rw [hp.s1eq, hp.d1eq]
      exact ⟨rfl, rfl, rfl, map_source_set _ _ d0 _ hp.dev0 (claimStarted_source _ _ _)⟩
    refine hs1.trans ?_
    simp only []
    unfold produce
    split
    · exact ⟨rfl, rfl, rfl, rfl⟩
    · split
      · exact SameNode.refl _
      · refine ⟨rfl, rfl, rfl, ?_⟩
        have hd1 : s1.devs[dev.getD 0]? = some d1 := by
          rw [hp.s1eq]; simp only [updDev]; rw [List.getElem?_set_self hp.idx]
        exact map_source_set _ _ _ _ hd1 (seqCounter_source _ _ _)

/-! ## events, runs, the decision log -/

/-- what happens to the node: a reassembled PGN 126208 message arrives, `ParseMessages` polls, the clock advances -/
inductive Ev where
  | rx (m : Msg)
  | poll
  | tick (ms : Nat)

def stepEv (g : GSt) : Ev → GSt
  | .rx m => handleGroupFunction g m
  | .poll => pollG g
  | .tick k => { g with s := { g.s with now := g.s.now + k } }

def run (g : GSt) (evs : List Ev) : GSt := evs.foldl stepEv g

/-- decisions taken for one broadcast message, device after device -/
def bcLog (m : Msg) : List Nat → GSt → List (Nat × Act)
  | [], _ => []
  | i :: r, g => (i, decideAct g m i) :: bcLog m r (respond g m i)

/-- the decisions (device, decision) one event makes the node take -/
def evLog (g : GSt) : Ev → List (Nat × Act)
  | .rx m =>
    if ¬ g.s.claimMode then [] else
    if m.pgn ≠ 126208 then [] else
    if m.dst = 255 then bcLog m (List.range g.s.devs.length) g
    else match findDev g.s.devs m.dst with
      | none => []
      | some i => [(i, decideAct g m i)]
  | _ => []

def performAll (g : GSt) (l : List (Nat × Act)) : GSt := l.foldl (fun g p => perform g p.1 p.2) g

theorem foldl_respond (m : Msg) : ∀ (l : List Nat) (g : GSt),
    l.foldl (fun g i => respond g m i) g = performAll g (bcLog m l g)
  | [], _ => rfl
  | i :: r, g => by
    simp only [List.foldl_cons, bcLog, performAll]
    exact foldl_respond m r (respond g m i)

/-- receiving a message = performing the logged decisions in order -/
theorem stepEv_rx (g : GSt) (m : Msg) : stepEv g (.rx m) = performAll g (evLog g (.rx m)) := by
  simp only [stepEv, evLog, handleGroupFunction]
  split
  · rfl
  · split
    · rfl
    · split
      · exact foldl_respond m _ g
      · cases hf : findDev g.s.devs m.dst with
        | none => rfl
        | some i => rfl

/-- the decision log of a whole history, event by event -/
def runLog : GSt → List Ev → List (Nat × Act)
  | _, [] => []
  | g, e :: r => evLog g e ++ runLog (stepEv g e) r

/-! ## the configuration state and what the decisions do to it -/

/-- per device: what commands can change -/
structure DevCfg where
  deviceInstance : Nat
  systemInstance : Nat
  hbPeriod : Nat
  hbOffset : Nat
  deriving DecidableEq, Repr

def Attr.cfg (a : Attr) : DevCfg := ⟨a.deviceInstance, a.systemInstance, a.hbPeriod, a.hbOffset⟩

/-- configuration state: installation descriptions / manufacturer information and the per-device settings -/
structure Cfg where
  conf : Conf
  devs : List DevCfg

def cfgOf (g : GSt) : Cfg := ⟨g.conf, g.attrs.map Attr.cfg⟩

/-- `SetHeartbeatIntervalAndOffset`: the (period, offset) it leaves, given the current ones -/
def hbVals (p off interval offset : Nat) : Nat × Nat :=
  if interval = 0xffffffff ∧ offset = 0xffff then (p, off) else
  if (if interval = 0xffffffff then p else if interval = 0xfffffffe then 60000 else interval) = 0 then (p, off) else
  (if (if (if interval = 0xffffffff then p else if interval = 0xfffffffe then 60000 else interval) > 655320 then 655320
        else (if interval = 0xffffffff then p else if interval = 0xfffffffe then 60000 else interval)) < 1000 then 1000
   else (if (if interval = 0xffffffff then p else if interval = 0xfffffffe then 60000 else interval) > 655320 then 655320
        else (if interval = 0xffffffff then p else if interval = 0xfffffffe then 60000 else interval)),
   if offset = 0xffffffff then off else offset)

def hbUpd (e : DevCfg) (interval offset : Nat) : DevCfg :=
  { e with hbPeriod := (hbVals e.hbPeriod e.hbOffset interval offset).1, hbOffset := (hbVals e.hbPeriod e.hbOffset interval offset).2 }

/-- `SetDeviceInformationInstances` on the settings -/
def instUpd (e : DevCfg) (lower upper si : Nat) : DevCfg :=
  { e with deviceInstance := newDI e.deviceInstance lower upper,
           systemInstance := if decide (si ≠ 0xff ∧ e.systemInstance ≠ si) then si &&& 0x0f else e.systemInstance }

/-- the effect of a decision of device `i` on the configuration state: only the two supported commands and an accepted
heartbeat request have one -/
def applyAct (c : Cfg) (i : Nat) : Act → Cfg
  | .cmd60928 _ _ lo up si => match c.devs[i]? with
    | none => c
    | some e => { c with devs := c.devs.set i (instUpd e lo up si) }
  | .cmd126998 _ _ ws => { c with conf := ws.foldl Conf.write c.conf }
  | .serveHeartbeat iv o => match c.devs[i]? with
    | none => c
    | some e => { c with devs := c.devs.set i (hbUpd e iv o) }
  | _ => c

theorem set_same {α : Type} (l : List α) (i : Nat) (x : α) (h : l[i]? = some x) : l.set i x = l := by
  apply List.ext_getElem?
  intro j
  by_cases hj : i = j
  · subst hj
    have hlt : i < l.length := by
      rcases Nat.lt_or_ge i l.length with h' | h'
      · exact h'
      · rw [List.getElem?_eq_none h'] at h; cases h
    rw [List.getElem?_set_self hlt, h]
  · rw [List.getElem?_set_ne hj]

theorem cfgOf_set (g g' : GSt) (i : Nat) (a a' : Attr) (ha : g.attrs[i]? = some a) (hc : g'.conf = g.conf)
    (hs : g'.attrs = g.attrs.set i a') : cfgOf g' = { cfgOf g with devs := (cfgOf g).devs.set i a'.cfg } := by
  simp only [cfgOf, hc, hs, List.map_set]

theorem cfgOf_set_same (g g' : GSt) (i : Nat) (a a' : Attr) (ha : g.attrs[i]? = some a) (hc : g'.conf = g.conf)
    (hs : g'.attrs = g.attrs.set i a') (hp : a'.cfg = a.cfg) : cfgOf g' = cfgOf g := by
  rw [cfgOf_set g g' i a a' ha hc hs, hp]
  have : (cfgOf g).devs[i]? = some a.cfg := by simp [cfgOf, ha]
  rw [set_same _ _ _ this]

theorem setPendingClaim_cfg (g : GSt) (i k : Nat) : cfgOf (setPendingClaim g i k) = cfgOf g := by
  unfold setPendingClaim
  cases ha : g.attrs[i]? with
  | none => rfl
  | some a => exact cfgOf_set_same g _ i a _ ha rfl rfl rfl

theorem syncName_cfg (g : GSt) (i : Nat) : cfgOf (syncName g i) = cfgOf g := by
  unfold syncName; split <;> rfl

theorem cfgOf_ite (c : Prop) [Decidable c] (x y : GSt) (t : Cfg) (hx : cfgOf x = t) (hy : cfgOf y = t) :
    cfgOf (if c then x else y) = t := by
  split <;> assumption

theorem setInstances_cfg (g : GSt) (i : Nat) (a : Attr) (ha : g.attrs[i]? = some a) (lo up si : Nat) :
    cfgOf (setInstances g i lo up si) = { cfgOf g with devs := (cfgOf g).devs.set i (instUpd a.cfg lo up si) } := by
  unfold setInstances
  rw [ha]
  simp only []
  have hmid : ∀ b : Bool, cfgOf (syncName { (setAttr g i (instAttr a lo up si)) with devInfoChanged := b } i) =
      { cfgOf g with devs := (cfgOf g).devs.set i (instUpd a.cfg lo up si) } := by
    intro b
    rw [syncName_cfg]
    exact cfgOf_set g _ i a (instAttr a lo up si) ha rfl rfl
  apply cfgOf_ite
  · rw [setPendingClaim_cfg]; exact hmid _
  · exact hmid _

theorem setHeartbeat_attrs (g : GSt) (i : Nat) (a : Attr) (ha : g.attrs[i]? = some a) (iv o : Nat) :
    (setHeartbeat g i iv o).conf = g.conf ∧ (setHeartbeat g i iv o).s = g.s ∧ (setHeartbeat g i iv o).chain = g.chain ∧
    (setHeartbeat g i iv o).attrs = g.attrs.set i { a with hbPeriod := (hbVals a.hbPeriod a.hbOffset iv o).1,
                                                           hbOffset := (hbVals a.hbPeriod a.hbOffset iv o).2 } := by
  have hself : g.attrs = g.attrs.set i a := (set_same _ _ _ ha).symm
  have hsame : ∀ p off : Nat, a.hbPeriod = p → a.hbOffset = off → g.attrs = g.attrs.set i { a with hbPeriod := p, hbOffset := off } := by
    intro p off h1 h2; subst h1; subst h2; exact hself
  unfold setHeartbeat hbVals
  by_cases h0 : iv = 0xffffffff ∧ o = 0xffff
  · simp only [if_pos h0]; exact ⟨trivial, trivial, trivial, hself⟩
  · simp only [if_neg h0, ha]
    by_cases hz : (if iv = 0xffffffff then a.hbPeriod else if iv = 0xfffffffe then 60000 else iv) = 0
    · simp only [if_pos hz]; exact ⟨trivial, trivial, trivial, hself⟩
    · simp only [if_neg hz]
      by_cases hc : (a.hbPeriod ≠ (if (if (if iv = 0xffffffff then a.hbPeriod else if iv = 0xfffffffe then 60000 else iv) > 655320 then 655320
            else (if iv = 0xffffffff then a.hbPeriod else if iv = 0xfffffffe then 60000 else iv)) < 1000 then 1000
          else (if (if iv = 0xffffffff then a.hbPeriod else if iv = 0xfffffffe then 60000 else iv) > 655320 then 655320
            else (if iv = 0xffffffff then a.hbPeriod else if iv = 0xfffffffe then 60000 else iv)))
          ∨ a.hbOffset ≠ (if o = 0xffffffff then a.hbOffset else o))
      · rw [if_pos hc]; exact ⟨rfl, rfl, rfl, rfl⟩
      · rw [if_neg hc]
        exact ⟨rfl, rfl, rfl, hsame _ _ (Classical.byContradiction (fun h => hc (Or.inl h))) (Classical.byContradiction (fun h => hc (Or.inr h)))⟩

theorem setHeartbeat_cfg (g : GSt) (i : Nat) (a : Attr) (ha : g.attrs[i]? = some a) (iv o : Nat) :
    cfgOf (setHeartbeat g i iv o) = { cfgOf g with devs := (cfgOf g).devs.set i (hbUpd a.cfg iv o) } := by
  obtain ⟨h1, _, _, h2⟩ := setHeartbeat_attrs g i a ha iv o
  exact cfgOf_set g _ i a _ ha h1 h2

/-- a decision changes the configuration state exactly as `applyAct` says -/
theorem perform_cfg (g : GSt) (i : Nat) (act : Act)
    (h : (g.s.devs[i]? = none ∨ g.attrs[i]? = none) → act = .nothing) :
    cfgOf (perform g i act) = applyAct (cfgOf g) i act := by
  cases hd : g.s.devs[i]? with
  | none => rw [h (Or.inl hd), perform_nothing]; rfl
  | some d =>
    cases ha : g.attrs[i]? with
    | none => rw [h (Or.inr ha), perform_nothing]; rfl
    | some a =>
      have hci : (cfgOf g).devs[i]? = some a.cfg := by simp [cfgOf, ha]
      unfold perform
      rw [hd, ha]
      cases act with
      | nothing => rfl
      | ack dest data => rfl
      | serve60928 => simp only [applyAct]; exact setPendingClaim_cfg g i 2
      | servePgnList dest tx rx tp => simp only [applyAct]; split <;> split <;> rfl
      | serveProduct dest tp => simp only [applyAct]; split <;> rfl
      | serveConfig dest tp => rfl
      | serveHeartbeat iv o =>
        simp only [applyAct, hci]
        rw [← setHeartbeat_cfg g i a ha iv o]
        split <;> rfl
      | cmd60928 dest data lo up si =>
        simp only [applyAct, hci]
        exact setInstances_cfg (sendTo g i (ackMsg dest data)) i a ha lo up si
      | cmd126998 dest data ws =>
        simp only [applyAct]
        obtain ⟨f1, f2, _, _, _, _⟩ := foldl_setDesc ws g
        show cfgOf (sendTo (ws.foldl setDesc g) i (ackMsg dest data)) = _
        simp only [cfgOf, sendTo, f1, f2]

/-! ## runs: the configuration state is the fold of the logged decisions -/

theorem decideAct_missing (g : GSt) (m : Msg) (i : Nat) (h : g.s.devs[i]? = none ∨ g.attrs[i]? = none) :
    decideAct g m i = .nothing := by
  unfold decideAct
  rcases h with h | h
  · rw [h]
  · cases g.s.devs[i]? <;> simp [h]

def applyLog (c : Cfg) (l : List (Nat × Act)) : Cfg := l.foldl (fun c p => applyAct c p.1 p.2) c

theorem applyLog_append (c : Cfg) (l1 l2 : List (Nat × Act)) : applyLog c (l1 ++ l2) = applyLog (applyLog c l1) l2 := by
  simp [applyLog, List.foldl_append]

theorem bcLog_cfg (m : Msg) : ∀ (l : List Nat) (g : GSt), cfgOf (performAll g (bcLog m l g)) = applyLog (cfgOf g) (bcLog m l g)
  | [], _ => rfl
  | i :: r, g => by
    simp only [bcLog, performAll, applyLog, List.foldl_cons]
    have h1 := perform_cfg g i (decideAct g m i) (decideAct_missing g m i)
    have h2 := bcLog_cfg m r (respond g m i)
    simp only [performAll, applyLog, respond] at h2 ⊢
    rw [h2, h1]

theorem pendingStep_cfg (g : GSt) (i : Nat) : cfgOf (pendingStep g i) = cfgOf g := by
  unfold pendingStep
  cases hd : g.s.devs[i]? with
  | none => rfl
  | some d =>
    cases ha : g.attrs[i]? with
    | none => rfl
    | some a =>
      simp only []
      split
      · have hs := syncName_cfg g i
        have hsa : (syncName g i).attrs = g.attrs := syncName_attrs g i
        have hsc : (syncName g i).conf = g.conf := (syncName_flags g i).2.2
        split
        · simp only [hsa, ha]
          exact cfgOf_set_same g _ i a { a with pendingClaim := Sched.disabled g.s.flavor } ha hsc (by simp only [setAttr, hsa]) rfl
        · exact hs
      · rfl

theorem pollG_cfg (g : GSt) : cfgOf (pollG g) = cfgOf g := by
  unfold pollG
  have : ∀ (l : List Nat) (g' : GSt), cfgOf (l.foldl pendingStep g') = cfgOf g' := by
    intro l
    induction l with
    | nil => intro g'; rfl
    | cons i r ih => intro g'; rw [List.foldl_cons, ih, pendingStep_cfg]
  rw [this]; rfl

theorem stepEv_cfg (g : GSt) (e : Ev) : cfgOf (stepEv g e) = applyLog (cfgOf g) (evLog g e) := by
  cases e with
  | poll => exact pollG_cfg g
  | tick k => rfl
  | rx m =>
    rw [stepEv_rx]
    simp only [evLog]
    split
    · rfl
    · split
      · rfl
      · split
        · exact bcLog_cfg m _ g
        · cases hf : findDev g.s.devs m.dst with
          | none => rfl
          | some i =>
            simp only [performAll, applyLog, List.foldl_cons, List.foldl_nil]
            exact perform_cfg g i _ (decideAct_missing g m i)

/-- the configuration state after a history is the fold, in order, of the logged decisions over the initial state -/
theorem run_cfg : ∀ (evs : List Ev) (g : GSt), cfgOf (run g evs) = applyLog (cfgOf g) (runLog g evs)
  | [], _ => rfl
  | e :: r, g => by
    simp only [run, List.foldl_cons, runLog]
    have := run_cfg r (stepEv g e)
    simp only [run] at this
    rw [this, stepEv_cfg, applyLog_append]

/-! ## the invariant of reachable states -/

/-- a step leaves the node's mode, clock build, addresses, handler chain and number of devices alone -/
def Keeps (g g' : GSt) : Prop := SameNode g.s g'.s ∧ g'.chain = g.chain ∧ g'.attrs.length = g.attrs.length

theorem Keeps.refl (g : GSt) : Keeps g g := ⟨SameNode.refl _, rfl, rfl⟩
theorem Keeps.trans {a b c : GSt} (h1 : Keeps a b) (h2 : Keeps b c) : Keeps a c :=
  ⟨h1.1.trans h2.1, h2.2.1.trans h1.2.1, h2.2.2.trans h1.2.2⟩

theorem sendTo_keeps (g : GSt) (i : Nat) (m : Msg) : Keeps g (sendTo g i m) := ⟨sendMsg_sameNode _ _ _, rfl, rfl⟩

theorem setAttr_keeps (g : GSt) (i : Nat) (a : Attr) : Keeps g (setAttr g i a) :=
  ⟨SameNode.refl _, rfl, by simp [setAttr]⟩

theorem setPendingClaim_keeps (g : GSt) (i k : Nat) : Keeps g (setPendingClaim g i k) := by
  unfold setPendingClaim; split
  · exact Keeps.refl g
  · exact setAttr_keeps g i _

theorem syncName_keeps (g : GSt) (i : Nat) : Keeps g (syncName g i) := by
  unfold syncName
  split
  · rename_i a d ha hd
    exact ⟨⟨rfl, rfl, rfl, map_source_set _ _ d _ hd rfl⟩, rfl, rfl⟩
  · exact Keeps.refl g

theorem keeps_flag (g : GSt) (b : Bool) : Keeps g { g with devInfoChanged := b } := ⟨SameNode.refl _, rfl, rfl⟩

theorem keeps_ite (c : Prop) [Decidable c] (g x y : GSt) (hx : Keeps g x) (hy : Keeps g y) : Keeps g (if c then x else y) := by
  split <;> assumption

theorem setInstances_keeps (g : GSt) (i lo up si : Nat) : Keeps g (setInstances g i lo up si) := by
  unfold setInstances
  split
  · exact Keeps.refl g
  · simp only []
    have h1 : ∀ (a' : Attr) (b : Bool), Keeps g (syncName { (setAttr g i a') with devInfoChanged := b } i) :=
      fun a' b => ((setAttr_keeps g i a').trans (keeps_flag _ b)).trans (syncName_keeps _ i)
    apply keeps_ite
    · exact (h1 _ _).trans (setPendingClaim_keeps _ i 2)
    · exact h1 _ _

theorem setHeartbeat_keeps (g : GSt) (i iv o : Nat) : Keeps g (setHeartbeat g i iv o) := by
  cases ha : g.attrs[i]? with
  | none =>
    unfold setHeartbeat; rw [ha]; split <;> exact Keeps.refl g
  | some a =>
    obtain ⟨_, hs, hc, h2⟩ := setHeartbeat_attrs g i a ha iv o
    exact ⟨by rw [hs]; exact SameNode.refl _, hc, by rw [h2]; simp⟩

theorem perform_keeps (g : GSt) (i : Nat) (act : Act) : Keeps g (perform g i act) := by
  unfold perform
  split
  · cases act with
    | nothing => exact Keeps.refl g
    | ack dest data => exact sendTo_keeps g i _
    | serve60928 => exact setPendingClaim_keeps g i 2
    | servePgnList dest tx rx tp =>
      simp only []
      split <;> split
      · exact (sendTo_keeps g i _).trans (sendTo_keeps _ i _)
      · exact sendTo_keeps g i _
      · exact sendTo_keeps g i _
      · exact Keeps.refl g
    | serveProduct dest tp => simp only []; split; exact sendTo_keeps g i _; exact Keeps.refl g
    | serveConfig dest tp => exact sendTo_keeps g i _
    | serveHeartbeat iv o =>
      simp only []
      split
      · exact (setHeartbeat_keeps g i iv o).trans (sendTo_keeps _ i _)
      · exact setHeartbeat_keeps g i iv o
    | cmd60928 dest data lo up si => exact (sendTo_keeps g i _).trans (setInstances_keeps _ i lo up si)
    | cmd126998 dest data ws =>
      obtain ⟨_, f2, f3, _, f5, _⟩ := foldl_setDesc ws g
      have : Keeps g (ws.foldl setDesc g) := ⟨by rw [f3]; exact SameNode.refl _, f5, by rw [f2]⟩
      exact this.trans (sendTo_keeps _ i _)
  · exact Keeps.refl g

theorem performAll_keeps : ∀ (l : List (Nat × Act)) (g : GSt), Keeps g (performAll g l)
  | [], g => Keeps.refl g
  | p :: r, g => by
    simp only [performAll, List.foldl_cons]
    exact (perform_keeps g p.1 p.2).trans (performAll_keeps r _)

theorem pendingStep_keeps (g : GSt) (i : Nat) : Keeps g (pendingStep g i) := by
  unfold pendingStep
  split
  · simp only []
    split
    · split
      · have h1 : Keeps g { syncName g i with s := (sendMsg (syncName g i).s (claimMsg ‹Dev›) (some i)).1 } :=
          (syncName_keeps g i).trans ⟨sendMsg_sameNode _ _ _, rfl, rfl⟩
        split
        · exact h1.trans (setAttr_keeps _ i _)
        · exact h1
      · exact syncName_keeps g i
    · exact Keeps.refl g
  · exact Keeps.refl g

theorem poll_sameNode (s : St) : SameNode s (Send.poll s) := by
  unfold Send.poll
  refine ⟨rfl, rfl, rfl, ?_⟩
  simp only []
  split
  · rw [List.map_map]; congr 1; funext d; exact claimStarted_source _ _ d
  · rfl

theorem pollG_keeps (g : GSt) : Keeps g (pollG g) := by
  unfold pollG
  have h0 : Keeps g { g with s := Send.poll g.s } := ⟨poll_sameNode g.s, rfl, rfl⟩
  have : ∀ (l : List Nat) (g' : GSt), Keeps g' (l.foldl pendingStep g') := by
    intro l
    induction l with
    | nil => intro g'; exact Keeps.refl g'
    | cons i r ih => intro g'; rw [List.foldl_cons]; exact (pendingStep_keeps g' i).trans (ih _)
  exact h0.trans (this _ _)

theorem stepEv_keeps (g : GSt) (e : Ev) : Keeps g (stepEv g e) := by
  cases e with
  | poll => exact pollG_keeps g
  | tick k => exact ⟨⟨rfl, rfl, rfl, rfl⟩, rfl, rfl⟩
  | rx m => rw [stepEv_rx]; exact performAll_keeps _ g

/-- reachable states: a claiming node (NodeOnly / ListenAndNode), a handler chain with a default handler, one attribute
record per device -/
def Inv (g : GSt) : Prop := g.s.claimMode = true ∧ (∃ h ∈ g.chain, h.pgn = 0) ∧ g.attrs.length = g.s.devs.length

theorem Keeps.inv {g g' : GSt} (h : Keeps g g') (hi : Inv g) : Inv g' := by
  obtain ⟨⟨h1, _, _, h4⟩, h5, h6⟩ := h
  obtain ⟨i1, i2, i3⟩ := hi
  refine ⟨h1.trans i1, by rw [h5]; exact i2, ?_⟩
  have := congrArg List.length h4
  simp only [List.length_map] at this
  rw [h6, i3, this]

theorem run_keeps : ∀ (evs : List Ev) (g : GSt), Keeps g (run g evs)
  | [], g => Keeps.refl g
  | e :: r, g => by
    simp only [run, List.foldl_cons]
    exact (stepEv_keeps g e).trans (run_keeps r _)

theorem run_inv (g : GSt) (h : Inv g) (evs : List Ev) : Inv (run g evs) := (run_keeps evs g).inv h

theorem findDev_lt {devs : List Dev} {src i : Nat} (h : findDev devs src = some i) : i < devs.length := by
  unfold findDev at h
  split at h
  · simp only [] at h
    split at h
    · rename_i hl; injection h with h; omega
    · cases h
  · cases h

end N2k.GF
