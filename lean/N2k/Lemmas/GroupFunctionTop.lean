import N2k.Lemmas.GroupFunctionCmd
/-! `HandleGroupFunction` as a whole: no-answer cases, the addressed case, Acknowledge length (C09). -/
set_option linter.unusedSimpArgs false
namespace N2k.GF
open N2k.Send N2k.Time

theorem perform_nothing (g : GSt) (i : Nat) : perform g i .nothing = g := by
  unfold perform; split <;> rfl

theorem foldl_id {α : Type} (f : GSt → α → GSt) (hf : ∀ g x, f g x = g) : ∀ (l : List α) (g : GSt), l.foldl f g = g
  | [], _ => rfl
  | x :: r, g => by rw [List.foldl_cons, hf, foldl_id f hf r]

/-- when no handler produces anything, the whole message changes nothing -/
theorem handleGroupFunction_nothing (g : GSt) (m : Msg)
    (hn : ∀ h d a p c, (handle h d a p c m (parseFc m) (parsePgn m)).1 = .nothing) : handleGroupFunction g m = g := by
  have hr : ∀ g i, respond g m i = g := by
    intro g i
    unfold respond decideAct
    split
    · rw [respondChain_nothing _ _ _ _ _ _ _ (fun h => hn h _ _ _ _), perform_nothing]
    · exact perform_nothing g i
  unfold handleGroupFunction
  by_cases h1 : ¬ g.s.claimMode = true
  · rw [if_pos h1]
  · rw [if_neg h1]
    by_cases h2 : m.pgn ≠ 126208
    · rw [if_pos h2]
    · rw [if_neg h2]
      by_cases h3 : m.dst = 255
      · rw [if_pos h3]; exact foldl_id _ hr _ g
      · rw [if_neg h3]; split
        · rfl
        · exact hr g _

/-- an addressed group function for one of the node's devices is handled by that device alone -/
theorem handleGroupFunction_addressed (g : GSt) (m : Msg) (i : Nat) (hmode : g.s.claimMode = true)
    (hpgn : m.pgn = 126208) (hdst : m.dst ≠ 255) (hdev : findDev g.s.devs m.dst = some i) :
    handleGroupFunction g m = perform g i (decideAct g m i) := by
  unfold handleGroupFunction
  rw [if_neg (by simp [hmode]), if_neg (by simp [hpgn]), if_neg hdst, hdev]
  rfl

/-! ## bounds on the Acknowledge length -/

theorem getD_lt {l : List Nat} (h : ∀ b ∈ l, b < 256) (i : Nat) : l.getD i 0 < 256 := by
  rw [List.getD_eq_getElem?_getD]
  cases hi : l[i]? with
  | none => simp
  | some b => simpa using h b (List.mem_of_getElem? hi)

theorem getByte_lt {m : Msg} (h : ∀ b ∈ m.data, b < 256) (i : Nat) : (getByte m i).1 < 256 := by
  unfold getByte; split
  · exact getD_lt h i
  · show 0xff < 256; decide

theorem pairsOf_lt {m : Msg} (h : ∀ b ∈ m.data, b < 256) : pairsOf m < 256 := by
  unfold pairsOf
  split
  · exact getByte_lt h _
  · exact getByte_lt h _
  · exact getByte_lt h _

theorem IsAckFor.length_le {data : List Nat} {pgn pairs : Nat} (h : IsAckFor data pgn pairs) (hp : pairs < 256) :
    data.length ≤ 134 := by
  have := h.1; omega

theorem Act.answers.ack_len {act : Act} {src pgn pairs fc : Nat} (h : act.answers src pgn pairs fc) (hp : pairs < 256)
    {data : List Nat} (hd : act.ackData = some data) : data.length ≤ 134 := by
  rcases h with ⟨x, rfl, hx⟩ | ⟨_, hs⟩ | ⟨_, _, x, _, _, _, rfl, hx⟩ | ⟨_, _, x, _, rfl, hx⟩
  · simp [Act.ackData] at hd; subst hd; exact hx.length_le hp
  · cases act <;> simp [Act.serves] at hs <;> simp [Act.ackData] at hd
  · simp [Act.ackData] at hd; subst hd; exact hx.length_le hp
  · simp [Act.ackData] at hd; subst hd; exact hx.length_le hp

/-- a broadcast request never yields an Acknowledge -/
theorem handleRequest_broadcast (h : Handler) (d : Dev) (a : Attr) (p : Prod) (c : Conf) (m : Msg) (hdst : m.dst = 255) :
    (handleRequest h d a p c m).ackData = none := by
  cases h with
  | h60928 => simp only [handleRequest, req60928]; split <;> simp [hdst, Act.ackData]
  | h126464 => simp only [handleRequest, req126464]; split <;> simp [hdst, Act.ackData]
  | h126996 => simp only [handleRequest, req126996]; split <;> simp [hdst, Act.ackData]
  | h126998 => simp only [handleRequest, req126998]; split <;> simp [hdst, Act.ackData]
  | base q => simp [handleRequest, baseRequest, hdst, Act.ackData]
  | h126993 =>
    simp only [handleRequest, req126993]
    generalize (if (reqParams m).1 = 0 then 1 else tpErr (reqParams m).1 (reqParams m).2.1 true 60000 1000 true 6000) = pec
    by_cases hp : (reqParams m).2.2 = 0
    · rw [if_pos hp]
      by_cases hn : (reqParams m).1 = 0xffffffff ∧ (reqParams m).2.1 = 0xffff
      · rw [if_pos hn]; simp [baseRequest, hdst, Act.ackData]
      · rw [if_neg hn]
        by_cases hq : pec = 0
        · rw [if_pos hq]; rfl
        · rw [if_neg hq]; simp [hdst, Act.ackData]
    · rw [if_neg hp]; simp [hdst, Act.ackData]

theorem handle_ack_len (h : Handler) (d : Dev) (a : Attr) (p : Prod) (c : Conf) (m : Msg)
    (hr : h.pgn = parsePgn m ∨ h.pgn = 0) (hb : ∀ b ∈ m.data, b < 256) {data : List Nat}
    (hd : (handle h d a p c m (parseFc m) (parsePgn m)).1.ackData = some data) : data.length ≤ 134 := by
  by_cases hdst : m.dst = 255
  · -- broadcast: only a request can produce anything, and never an Acknowledge
    exfalso
    unfold handle at hd
    rw [if_neg (by intro hc; rcases hr with hr | hr; exact hc.1 hr; exact hc.2 hr)] at hd
    simp only [] at hd
    split at hd
    · rw [handleRequest_broadcast h d a p c m hdst] at hd; cases hd
    all_goals simp [hdst, Act.ackData] at hd
  · by_cases hfc : parseFc m = 0 ∨ parseFc m = 1 ∨ parseFc m = 3 ∨ parseFc m = 5
    · exact (handle_answers h d a p c m hr hdst hfc).ack_len (pairsOf_lt hb) hd
    · exfalso
      unfold handle at hd
      rw [if_neg (by intro hc; rcases hr with hr | hr; exact hc.1 hr; exact hc.2 hr)] at hd
      simp only [] at hd
      split at hd <;> first | (simp [Act.ackData] at hd; done) | (exfalso; omega)

theorem respondChain_ack_len (d : Dev) (a : Attr) (p : Prod) (c : Conf) (m : Msg) (hb : ∀ b ∈ m.data, b < 256) :
    ∀ (chain : List Handler) {data : List Nat},
      (respondChain d a p c m (parseFc m) (parsePgn m) chain).ackData = some data → data.length ≤ 134
  | [], _, hd => by simp [respondChain, Act.ackData] at hd
  | h :: t, data, hd => by
    unfold respondChain at hd
    by_cases h1 : h.pgn = parsePgn m
    · rw [if_pos h1] at hd; exact handle_ack_len h d a p c m (Or.inl h1) hb hd
    · rw [if_neg h1] at hd
      by_cases h0 : h.pgn = 0 ∧ (handle h d a p c m (parseFc m) (parsePgn m)).2 = true
      · rw [if_pos h0] at hd; exact handle_ack_len h d a p c m (Or.inr h0.1) hb hd
      · rw [if_neg h0] at hd; exact respondChain_ack_len d a p c m hb t hd

/-- nothing sent to the global address is ever acknowledged -/
theorem handle_broadcast_noack (h : Handler) (d : Dev) (a : Attr) (p : Prod) (c : Conf) (m : Msg) (fc pgn : Nat)
    (hdst : m.dst = 255) : (handle h d a p c m fc pgn).1.ackData = none := by
  unfold handle
  split
  · rfl
  · simp only []
    split
    · exact handleRequest_broadcast h d a p c m hdst
    all_goals simp [hdst, Act.ackData]

theorem respondChain_broadcast_noack (d : Dev) (a : Attr) (p : Prod) (c : Conf) (m : Msg) (fc pgn : Nat) (hdst : m.dst = 255) :
    ∀ chain : List Handler, (respondChain d a p c m fc pgn chain).ackData = none
  | [] => rfl
  | h :: t => by
    unfold respondChain
    split
    · exact handle_broadcast_noack h d a p c m fc pgn hdst
    · split
      · exact handle_broadcast_noack h d a p c m fc pgn hdst
      · exact respondChain_broadcast_noack d a p c m fc pgn hdst t

end N2k.GF
