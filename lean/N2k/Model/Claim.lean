import N2k.Model.Send
/-!
# Address claiming of `tNMEA2000` (`src/NMEA2000.cpp`, `src/NMEA2000.h`)

Transcription map
* `tInternalDevice::UpdateAddressClaimEndSource`       → `updEnd`
* `GetNextAddress(DeviceIndex, RestartAtEnd)`           → `searchBody` (one pass of the `do` body), `search`
  (the `do … while (FoundSame)` loop, fuel-bounded; `Lemmas/ClaimNext.lean` proves the fuel is never used up),
  `getNextAddress`
* `FindSourceDeviceIndex`                               → `findSourceDev`
* `SendIsoAddressClaim(0xff, iDev)` (FromNow = 0)       → `sendClaim`
* `HandleISOAddressClaim`                               → `handleClaim` (incl. the equal-NAME device-instance bump)
* `HandleCommandedAddress` (both overloads)             → `handleCommandedAddress` / `cmdOne`
* `StartAddressClaim()` (all devices, null restart)     → `startAddressClaimAll`;  `Restart()` → `restart`
* `Open()`                                              → `openStep` (= `Send.openStep` + the null restart)
* `ParseMessages()` (claim-relevant part)               → `parse`
* `SetMode`, `SetN2kSource`, `ReadResetAddressChanged`  → `setMode`, `setN2kSource`, `readResetAddressChanged`
* `tNMEA2000::AddressChanged`, `DeviceInformationChanged` → `Inst.addressChanged`, `Inst.devInfoChanged`

`N2kSource`/`AddressClaimEndSource` are `uint8_t`: `N2kSource++` is `(s+1) % 256`.
`handleCommandedAddress` models the tree with the fix for `C03:commanded-onto-sibling` (a commanded address
held by another device of the same instance is not taken).
-/
namespace N2k.Claim
open N2k.Send N2k.Time

/-- `UpdateAddressClaimEndSource`: the address before `src` (0 wraps to 251) -/
def updEnd (src : Nat) : Nat := if src > 0 then src - 1 else Gen.maxCanBusAddress

/-- a library instance: the send-path state plus the two application latches -/
structure Inst where
  s : St
  addressChanged : Bool := false
  devInfoChanged : Bool := false

/-! ## GetNextAddress -/

/-- outcome of one pass of the `do` body up to the sibling check -/
inductive Pass where
  | ret (src e : Nat) (chg : Bool)    -- the function returned
  | cand (src e : Nat)                -- a candidate address was chosen; the sibling check follows
  deriving DecidableEq, Repr

def searchBody (restart : Bool) (src e : Nat) : Pass :=
  if src = Gen.nullCanBusAddress then
    if restart then .cand 14 (updEnd 14) else .ret src e false
  else if src ≠ e then
    let s1 := (src + 1) % 256
    .cand (if s1 > Gen.maxCanBusAddress then 0 else s1) e
  else .ret Gen.nullCanBusAddress e true

structure SearchRes where
  source : Nat
  endSource : Nat
  changed : Bool       -- `AddressChanged=true` was executed
  done : Bool          -- false: the fuel ran out (the C++ loop would still be running)
  deriving DecidableEq, Repr

/-- the `do … while (FoundSame)` loop; `sibs` = addresses of the other devices of this instance -/
def search (restart : Bool) (sibs : List Nat) : Nat → Nat → Nat → SearchRes
  | 0, src, e => ⟨src, e, false, false⟩
  | fuel+1, src, e =>
    match searchBody restart src e with
    | .ret s' e' c => ⟨s', e', c, true⟩
    | .cand s' e' => if sibs.contains s' then search restart sibs fuel s' e' else ⟨s', e', true, true⟩

/-- addresses of the devices `≠ i` -/
def siblings (devs : List Dev) (i : Nat) : List Nat := (devs.eraseIdx i).map (·.source)

/-- more than any terminating run needs: at most 4 passes to get into 0..251, then one cycle of 252 -/
def searchFuel : Nat := 600

/-- `GetNextAddress(i, restart)`. A run that does not terminate has no post-state: the instance is returned
unchanged with nothing latched (`Lemmas/ClaimNext.lean`: cannot happen for well-formed devices). -/
def getNextAddress (x : Inst) (i : Nat) (restart : Bool) : Inst :=
  match x.s.devs[i]? with
  | none => x
  | some d =>
    let r := search restart (siblings x.s.devs i) searchFuel d.source d.endSource
    if r.done then
      { x with s := { x.s with devs := x.s.devs.set i { d with source := r.source, endSource := r.endSource } },
               addressChanged := x.addressChanged || r.changed }
    else x

/-! ## received address claim -/

/-- `FindSourceDeviceIndex`: the first device that has this address (only addresses ≤ 253 are looked up) -/
def findSourceDev (devs : List Dev) (src : Nat) : Option Nat :=
  if src ≤ 253 then devs.findIdx? (fun d => d.source == src) else none

/-- `SetDeviceInstance(GetDeviceInstance()+1)`: byte 4 of the NAME, `unsigned char` arithmetic -/
def bumpInstance (name : Nat) : Nat :=
  let inst := (name >>> 32) % 256
  name - inst * 2^32 + ((inst + 1) % 256) * 2^32

/-- `SendIsoAddressClaim(0xff, i)` with `FromNow = 0` -/
def sendClaim (s : St) (i : Nat) : St :=
  match s.devs[i]? with
  | none => s
  | some d => (sendMsg s (claimMsg d) (some i)).1

/-- the "we have to try another address" branch of `HandleISOAddressClaim`, before `StartAddressClaim(iDev)` -/
def loseAddress (x : Inst) (i : Nat) (d : Dev) (callerName : Nat) : Inst :=
  if d.name = callerName then
    let ic := isAddressClaimStarted x.s.flavor x.s.now d
    if ic.2 then
      { x with s := { x.s with devs := x.s.devs.set i { ic.1 with name := bumpInstance d.name } },
               devInfoChanged := true }
    else getNextAddress { x with s := { x.s with devs := x.s.devs.set i ic.1 } } i false
  else getNextAddress x i false

/-- `HandleISOAddressClaim` for a claim from address `src` carrying NAME `callerName` -/
def handleClaim (x : Inst) (src callerName : Nat) : Inst :=
  if src = Gen.nullCanBusAddress then x else
  match findSourceDev x.s.devs src with
  | none => x
  | some i =>
    match x.s.devs[i]? with
    | none => x
    | some d =>
      if d.name < callerName then { x with s := sendClaim x.s i }
      else
        let x1 := loseAddress x i d callerName
        { x1 with s := startAddressClaim x1.s i }

/-! ## commanded address -/

/-- `HandleCommandedAddress(CommandedName, NewAddress, iDev)` -/
def cmdOne (x : Inst) (name newAddr i : Nat) : Inst :=
  if newAddr = 255 then x else
  match x.s.devs[i]? with
  | none => x
  | some d =>
    if d.name = name ∧ d.source ≠ newAddr then
      if (siblings x.s.devs i).contains newAddr then x else     -- fix C03:commanded-onto-sibling
      let d1 := { d with source := newAddr, endSource := updEnd newAddr }
      { x with s := startAddressClaim { x.s with devs := x.s.devs.set i d1 } i, addressChanged := true }
    else x

/-- `HandleCommandedAddress(N2kMsg)` for a reassembled ISO-TP message PGN 65240 of 9 bytes sent to `dst` -/
def handleCommandedAddress (x : Inst) (dst name newAddr : Nat) : Inst :=
  let iDev := findSourceDev x.s.devs dst
  if dst ≠ 255 ∧ iDev.isNone then x else
  if newAddr ≥ 252 then x else
  match iDev with
  | none => (List.range x.s.devs.length).foldl (fun y i => cmdOne y name newAddr i) x
  | some i => cmdOne x name newAddr i

/-! ## start / restart / open -/

/-- body of the loop of `StartAddressClaim()` for device `i` -/
def startOne (x : Inst) (i : Nat) : Inst :=
  let x1 := match x.s.devs[i]? with
    | some d => if d.source = Gen.nullCanBusAddress then getNextAddress x i true else x
    | none => x
  { x1 with s := startAddressClaim x1.s i }

/-- `StartAddressClaim()` -/
def startAddressClaimAll (x : Inst) : Inst := (List.range x.s.devs.length).foldl startOne x

/-- `Restart()` -/
def restart (x : Inst) : Inst := startAddressClaimAll x

/-- `Open()`: `Send.openStep`, with the final transition using the full `StartAddressClaim()` -/
def openStep (x : Inst) : Inst :=
  let s := if x.s.openState = 0 then { x.s with openState := 1 } else x.s
  if s.openState = 2 ∧ s.openSched.isTime s.flavor s.now then
    startAddressClaimAll { x with s := { s with openState := 3 } }
  else { x with s := Send.openStep x.s }

/-! ## receive path -/

/-- little-endian value of the first 8 data bytes (`GetBuf8ByteUInt`) -/
def leVal : List Nat → Nat
  | [] => 0
  | b :: t => b % 256 + 256 * leVal t

def le64Val (data : List Nat) : Nat := leVal (data.take 8)

/-- `N2kMsg.GetUInt64(Index=0)`: N2kUInt64NA when fewer than 8 bytes were received -/
def claimName (f : Frame) : Nat := if f.len ≥ 8 then le64Val f.data else 2^64 - 1

/-- what the receive path hands to the system-message handlers -/
inductive Rx where
  | frame (f : Frame)                      -- one single-frame CAN message
  | cmd (dst name newAddr : Nat)           -- a completely reassembled ISO-TP message PGN 65240 (9 bytes)

/-- `HandleReceivedSystemMessage` for PGN 60928 (everything else is outside this model) -/
def rxFrame (x : Inst) (f : Frame) : Inst :=
  let h := canIdToN2k f.id
  if h.2.1 = 60928 then handleClaim x h.2.2.1 (claimName f) else x

def rxOne (x : Inst) : Rx → Inst
  | .frame f => rxFrame x f
  | .cmd dst nm a => handleCommandedAddress x dst nm a

/-- `SendHeartbeat()` evaluates `IsAddressClaimStarted` for every device of an active node -/
def heartbeatPass (x : Inst) : Inst :=
  if x.s.claimMode then
    { x with s := { x.s with devs := x.s.devs.map fun d => (isAddressClaimStarted x.s.flavor x.s.now d).1 } }
  else x

/-- `ParseMessages()` with `rx` waiting in the CAN controller. While the node is not open nothing is handled
(`Open()` discards what the controller received). The handlers run in the claimant modes only. -/
def parse (x : Inst) (rx : List Rx) : Inst :=
  let x0 := if x.s.openState = 3 then x else openStep x
  if x0.s.openState ≠ 3 then x0 else
  let fl := sendFrames x0.s.ring x0.s.drv
  let x1 := { x0 with s := { x0.s with ring := fl.1, drv := fl.2.1 } }
  let x2 := if x1.s.claimMode then rx.foldl rxOne x1 else x1
  heartbeatPass x2

/-! ## application side -/

/-- `ReadResetAddressChanged()` -/
def readResetAddressChanged (x : Inst) : Inst × Bool := ({ x with addressChanged := false }, x.addressChanged)

def mkDev (f : Flavor) (src name : Nat) : Dev :=
  { source := src, name := name, claimTimer := Sched.disabled f, endSource := updEnd src }

/-- `SetMode(mode, src)` on a constructed instance: device `i` gets `src+i` (`uint8_t`) -/
def setMode (x : Inst) (mode src : Nat) : Inst :=
  { x with
    s := { x.s with listenOnly := mode == 0, claimMode := mode == 1 || mode == 2,
                    devs := x.s.devs.zipIdx.map fun p =>
                      { p.1 with source := (src + p.2) % 256, endSource := updEnd ((src + p.2) % 256) } },
    addressChanged := false }

/-- `SetN2kSource(addr, i)` (only before the instance is initialised/open) -/
def setN2kSource (x : Inst) (addr i : Nat) : Inst :=
  if x.s.openState ≠ 0 then x else
  match x.s.devs[i]? with
  | none => x
  | some d => { x with s := { x.s with devs := x.s.devs.set i { d with source := addr % 256, endSource := updEnd (addr % 256) } } }

/-- a freshly constructed instance at time `now` (queue of `q` slots, accepting driver) -/
def mkInst (f : Flavor) (now mode q : Nat) (devs : List (Nat × Nat)) : Inst :=
  { s := { flavor := f, now := now, listenOnly := mode == 0, claimMode := mode == 1 || mode == 2,
           openState := 0, openSched := Sched.fromNow f now 0, lists := {},
           devs := devs.map fun p => mkDev f p.1 p.2,
           ring := { n := q, buf := fun _ => ⟨0, 0, []⟩, read := 0, write := 0 },
           drv := { script := [], dflt := true, sent := [] } } }

end N2k.Claim
