/-! Prototype: 32-bit modular time primitives of N2kTimer.h and their origin independence. -/
namespace T32
def M : Nat := 4294967296
def I : Nat := 2147483647          -- INT32_MAX
def sub (a b : Nat) : Nat := (a % M + M - b % M) % M          -- uint32 a - b

/-- tN2kScheduler (32-bit flavour) -/
def fromNow (now d : Nat) : Nat := let t := (now + d) % M; if t = M - 1 then 0 else t
def isTime (next now : Nat) : Bool := next ≠ M - 1 ∧ sub now next < I
def hasElapsed (start el now : Nat) : Bool := sub now ((start + el) % M) < I
def isTimeBefore (t1 t2 : Nat) : Bool := sub t2 t1 < I

/-- shifting the clock origin by k shifts stored deadlines by k (mod 2^32) -/
theorem hasElapsed_shift (s e now k : Nat) :
    hasElapsed ((s + k) % M) e ((now + k) % M) = hasElapsed s e now := by
  unfold hasElapsed sub M I; simp only [decide_eq_decide]; omega

theorem isTimeBefore_shift (a b k : Nat) :
    isTimeBefore ((a + k) % M) ((b + k) % M) = isTimeBefore a b := by
  unfold isTimeBefore sub M I; simp only [decide_eq_decide]; omega

/-- elapsed-only characterisation: a timeout armed at `now` for `d < 2^31-1` ms is due at `now'`
    iff between d and d + 2^31 - 2 ms have elapsed (modulo the one-millisecond sentinel slack) -/
theorem isTime_fromNow (now d now' : Nat) (hd : d < I)
    (hs : (now + d) % M ≠ M - 1) :
    isTime (fromNow now d) now' = decide (d ≤ sub now' now ∧ sub now' now < d + I) := by
  unfold isTime fromNow sub M I at *
  simp only [hs, ↓reduceIte]
  simp only [decide_eq_decide]
  omega

theorem fromNow_shift (now d k : Nat) (hs : (now + d) % M ≠ M - 1) (hs' : (now + k + d) % M ≠ M - 1) :
    fromNow ((now + k) % M) d = (fromNow now d + k) % M := by
  unfold fromNow M at *
  have h1 : ((now + k) % 4294967296 + d) % 4294967296 = (now + k + d) % 4294967296 := by omega
  simp only [h1, hs, hs', ↓reduceIte]; omega

#print axioms isTime_fromNow
end T32
