import N2k.Model.Send
import N2k.Spec.J1939
/-! Helper lemmas for C01: identifier layout, identifier round trip, fast-packet frames and reassembly. -/
namespace N2k.Send
open N2k.Spec

theorem lor_of_mod (a b k : Nat) (ha : a % 2^k = 0) (hb : b < 2^k) : a ||| b = a + b := by
  have h1 : a = (a / 2^k) <<< k := by
    rw [Nat.shiftLeft_eq]; have := Nat.div_add_mod a (2^k); rw [ha] at this; rw [Nat.mul_comm]; omega
  rw [h1, Nat.shiftLeft_add_eq_or_of_lt hb]

theorem and7 (x : Nat) : x &&& 7 = x % 8 := Nat.and_two_pow_sub_one_eq_mod x 3
theorem and255 (x : Nat) : x &&& 0xff = x % 256 := Nat.and_two_pow_sub_one_eq_mod x 8
theorem and1 (x : Nat) : x &&& 1 = x % 2 := Nat.and_two_pow_sub_one_eq_mod x 1

theorem id_layout (prio pgn src dst : Nat) (hp : pgn < 2^18) (hs : src < 256) (hd : dst < 256)
    (hv : isPDU1 pgn = true → pgn % 256 = 0) :
    n2kToCanId prio pgn src dst = canId (prio % 8) pgn src dst := by
  unfold n2kToCanId canId isPDU1 at *
  simp only [and7, and255, Nat.shiftRight_eq_div_pow, Nat.shiftLeft_eq, decide_eq_true_eq] at *
  by_cases h : pgn / 2 ^ 8 % 256 < 240
  · have h0 := hv h
    simp only [h, h0, ↓reduceIte, ne_eq, not_true_eq_false]
    rw [lor_of_mod (prio % 8 * 2^26) (pgn * 2^8) 26 (by omega) (by omega),
        lor_of_mod _ (dst * 2^8) 16 (by omega) (by omega),
        lor_of_mod _ src 8 (by omega) (by omega)]
  · simp only [h, ↓reduceIte]
    rw [lor_of_mod (prio % 8 * 2^26) (pgn * 2^8) 26 (by omega) (by omega),
        lor_of_mod _ src 8 (by omega) (by omega)]

theorem canId_lt (p pgn src dst : Nat) (hp : p < 8) (hpg : pgn < 2^18) (hs : src < 256) (hd : dst < 256)
    (hv : isPDU1 pgn = true → pgn % 256 = 0) : canId p pgn src dst < 2^29 := by
  unfold canId isPDU1 at *
  simp only [decide_eq_true_eq] at *
  split
  · rename_i h; have := hv h; omega
  · omega

theorem canId_pos (p pgn src dst : Nat) (hpg : pgn ≠ 0) : canId p pgn src dst ≠ 0 := by
  unfold canId; split <;> omega

theorem split_id1 (p q dst src : Nat) (hp : p < 8) (hq : q < 1024) (hd : dst < 256) (hs : src < 256) :
    (p * 67108864 + (256 * q + 0) * 256 + dst * 256 + src) / 65536 % 256 = q % 256 ∧
    (p * 67108864 + (256 * q + 0) * 256 + dst * 256 + src) / 256 % 256 = dst ∧
    (p * 67108864 + (256 * q + 0) * 256 + dst * 256 + src) / 16777216 % 256 % 2 = q / 256 % 2 ∧
    (p * 67108864 + (256 * q + 0) * 256 + dst * 256 + src) % 256 = src ∧
    (p * 67108864 + (256 * q + 0) * 256 + dst * 256 + src) / 67108864 % 8 % 256 = p := by
  refine ⟨by omega, by omega, by omega, by omega, by omega⟩

theorem split_id2 (p q r src : Nat) (hp : p < 8) (hq : q < 1024) (hd : r < 256) (hs : src < 256) :
    (p * 67108864 + (256 * q + r) * 256 + src) / 65536 % 256 = q % 256 ∧
    (p * 67108864 + (256 * q + r) * 256 + src) / 256 % 256 = r ∧
    (p * 67108864 + (256 * q + r) * 256 + src) / 16777216 % 256 % 2 = q / 256 % 2 ∧
    (p * 67108864 + (256 * q + r) * 256 + src) % 256 = src ∧
    (p * 67108864 + (256 * q + r) * 256 + src) / 67108864 % 8 % 256 = p := by
  refine ⟨by omega, by omega, by omega, by omega, by omega⟩

theorem rebuild_or1 (q : Nat) (hq : q < 512) : (q / 256 % 2 * 65536) ||| (q % 256 * 256) = 256 * q + 0 := by
  rw [lor_of_mod (q / 256 % 2 * 65536) (q % 256 * 256) 16 (by omega) (by omega)]
  omega

theorem rebuild_or2 (q r : Nat) (hq : q < 512) (hr : r < 256) :
    (q / 256 % 2 * 65536) ||| (q % 256 * 256) ||| r = 256 * q + r := by
  rw [lor_of_mod (q / 256 % 2 * 65536) (q % 256 * 256) 16 (by omega) (by omega),
      lor_of_mod _ r 8 (by omega) (by omega)]
  omega

/-- the receive-side decoder recovers one data-page bit, so the round trip is over the 2^17 PGNs -/
theorem id_roundtrip (p pgn src dst : Nat) (hp : p < 8) (hpg : pgn < 2^17) (hs : src < 256) (hd : dst < 256)
    (hv : isPDU1 pgn = true → pgn % 256 = 0) :
    canIdToN2k (canId p pgn src dst) = (p, pgn, src, if isPDU1 pgn then dst else 0xff) := by
  unfold canIdToN2k canId isPDU1 at *
  simp only [and7, and1, Nat.shiftRight_eq_div_pow, Nat.shiftLeft_eq, decide_eq_true_eq, Nat.reducePow] at *
  have hqr := Nat.div_add_mod pgn 256
  have hr : pgn % 256 < 256 := Nat.mod_lt _ (by omega)
  generalize pgn / 256 = q at *
  generalize pgn % 256 = r at *
  subst hqr
  have hq : q < 512 := by omega
  by_cases h : q % 256 < 240
  · have h0 : r = 0 := hv h
    subst h0
    simp only [h, ↓reduceIte]
    obtain ⟨e1, e2, e3, e4, e5⟩ := split_id1 p q dst src hp (by omega) hd hs
    rw [e1, e2, e3, e4, e5]
    simp only [h, ↓reduceIte]
    rw [rebuild_or1 q hq]
  · simp only [h, ↓reduceIte]
    obtain ⟨e1, e2, e3, e4, e5⟩ := split_id2 p q r src hp (by omega) hr hs
    rw [e1, e2, e3, e4, e5]
    simp only [h, ↓reduceIte]
    rw [rebuild_or2 q r hq hr]

/-! ## fast packet -/

theorem payloadByte_eq (m : Msg) (j : Nat) (hl : m.len ≤ m.data.length) :
    payloadByte m j = fpByte (m.data.take m.len) j := by
  unfold payloadByte fpByte
  have hlen : (m.data.take m.len).length = m.len := by rw [List.length_take]; omega
  rw [hlen]
  split
  · rename_i h
    simp [List.getD_eq_getElem?_getD, List.getElem?_take, h]
  · rfl

theorem hdr_byte (seq i : Nat) (hs : seq < 8) (hi : i < 32) : (i ||| (seq <<< 5)) % 256 = seq * 32 + i := by
  rw [Nat.or_comm, ← Nat.shiftLeft_add_eq_or_of_lt (by omega : i < 2^5), Nat.shiftLeft_eq]
  omega

theorem fpFrame_eq (m : Msg) (seq i : Nat) (hs : seq < 8) (hi : i < 32) (hl : m.len ≤ m.data.length)
    (h256 : m.len < 256) :
    fpFrame m (seq <<< 5) i = fpFrameSpec seq (m.data.take m.len) i := by
  unfold fpFrame fpFrameSpec
  have hlen : (m.data.take m.len).length = m.len := by rw [List.length_take]; omega
  have hb := hdr_byte seq i hs hi
  by_cases h0 : i = 0
  · subst h0
    simp only [↓reduceIte, hlen]
    rw [hb, Nat.mod_eq_of_lt h256]
    congr 1
    apply List.map_congr_left
    intro j _; exact payloadByte_eq m j hl
  · simp only [h0, ↓reduceIte]
    rw [hb]
    congr 1
    apply List.map_congr_left
    intro j _; exact payloadByte_eq m _ hl

theorem fpFrameCount_eq (L : Nat) : fpFrameCount L = 1 + fpCont L := by
  unfold fpFrameCount fpCont
  split <;> split <;> omega

theorem fpCont_le (L : Nat) (h : L ≤ 223) : 1 + fpCont L ≤ 32 := by
  unfold fpCont; split <;> omega

theorem fpCont_cover (L : Nat) : L ≤ 6 + 7 * fpCont L := by
  unfold fpCont; split <;> omega

theorem flatten_blocks (f : Nat → Nat) : ∀ c : Nat,
    ((List.range c).map fun k => (List.range 7).map fun j => f (7 * k + j)).flatten = (List.range (7 * c)).map f
  | 0 => rfl
  | c+1 => by
    rw [show List.range (c + 1) = List.range c ++ [c] from List.range_succ, List.map_append,
      List.flatten_append, flatten_blocks f c]
    have : 7 * (c + 1) = 7 * c + 7 := by omega
    rw [this, List.range_add, List.map_append, List.map_map]
    simp [Function.comp]

theorem fpReassemble_frames (seq : Nat) (pl : List Nat) : fpReassemble (fpFrames seq pl) = pl := by
  unfold fpFrames
  rw [List.range_add, List.map_append]
  simp only [List.range_one, List.map_cons, List.map_nil, List.cons_append, List.nil_append, fpReassemble,
    List.map_map]
  have h0 : (fpFrameSpec seq pl 0).drop 2 = (List.range 6).map (fpByte pl) := by simp [fpFrameSpec]
  have h1 : (fpFrameSpec seq pl 0).getD 1 0 = pl.length := by simp [fpFrameSpec]
  have h2 : (List.map ((fun x => List.drop 1 x) ∘ fpFrameSpec seq pl ∘ fun x => 1 + x) (List.range (fpCont pl.length)))
      = (List.range (fpCont pl.length)).map fun k => (List.range 7).map fun j => (fun t => fpByte pl (6 + t)) (7 * k + j) := by
    apply List.map_congr_left
    intro k _
    simp only [Function.comp, fpFrameSpec]
    have : 1 + k ≠ 0 := by omega
    simp only [this, ↓reduceIte, List.cons_append, List.nil_append, List.drop_succ_cons, List.drop_zero]
    apply List.map_congr_left
    intro j _
    congr 1; omega
  rw [h0, h1, h2, flatten_blocks (fun t => fpByte pl (6 + t))]
  have h3 : (List.range 6).map (fpByte pl) ++ (List.range (7 * fpCont pl.length)).map (fun t => fpByte pl (6 + t))
      = (List.range (6 + 7 * fpCont pl.length)).map (fpByte pl) := by
    rw [List.range_add, List.map_append, List.map_map]; rfl
  rw [h3, ← List.map_take, List.take_range, Nat.min_eq_left (fpCont_cover pl.length)]
  apply List.ext_getElem
  · simp
  · intro i h1 h2
    simp only [List.getElem_map, List.getElem_range, fpByte]
    have : i < pl.length := by simpa using h1
    simp [this, List.getD_eq_getElem?_getD]

end N2k.Send
