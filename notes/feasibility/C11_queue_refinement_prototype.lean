/-! Feasibility prototype: send-queue ring of NMEA2000.cpp (SendFrames / SendFrame / GetNextFreeCANSendFrame) -/
namespace Q

abbrev Frame := Nat

structure Ring where
  n : Nat
  buf : Nat → Frame
  read : Nat
  write : Nat

def Ring.WF (r : Ring) : Prop := 2 ≤ r.n ∧ r.read < r.n ∧ r.write < r.n

def Ring.cnt (r : Ring) : Nat := (r.write + r.n - r.read) % r.n

def Ring.abs (r : Ring) : List Frame :=
  (List.range r.cnt).map fun i => r.buf ((r.read + 1 + i) % r.n)

/-- driver = stream of accept decisions, consumed one per CANSendFrame call -/
structure Drv where
  acc : Nat → Bool
  pos : Nat
  sent : List Frame

def Drv.send (d : Drv) (f : Frame) : Drv × Bool :=
  if d.acc d.pos then ({ d with pos := d.pos + 1, sent := d.sent ++ [f] }, true)
  else ({ d with pos := d.pos + 1 }, false)

/-- SendFrames: flush while driver accepts. fuel = number of queued frames. -/
def sendFramesAux : Nat → Ring → Drv → Ring × Drv × Bool
  | 0, r, d => (r, d, true)
  | fuel+1, r, d =>
    if r.read = r.write then (r, d, true) else
    let temp := (r.read + 1) % r.n
    match d.send (r.buf temp) with
    | (d', true) => sendFramesAux fuel { r with read := temp } d'
    | (d', false) => (r, d', false)

def sendFrames (r : Ring) (d : Drv) : Ring × Drv × Bool := sendFramesAux r.cnt r d

def enqueue (r : Ring) (f : Frame) : Option Ring :=
  let temp := (r.write + 1) % r.n
  if temp ≠ r.read then some { r with write := temp, buf := fun i => if i = temp then f else r.buf i }
  else none

/-- SendFrame -/
def sendFrame (r : Ring) (d : Drv) (f : Frame) : Ring × Drv × Bool :=
  match sendFrames r d with
  | (r1, d1, true) =>
    match d1.send f with
    | (d2, true) => (r1, d2, true)
    | (d2, false) => match enqueue r1 f with
        | some r2 => (r2, d2, true)
        | none => (r1, d2, false)
  | (r1, d1, false) => match enqueue r1 f with
        | some r2 => (r2, d1, true)
        | none => (r1, d1, false)

theorem cnt_lt (r : Ring) (h : r.WF) : r.cnt < r.n := by
  unfold Ring.cnt; exact Nat.mod_lt _ (by have := h.1; omega)

theorem cnt_zero_iff (r : Ring) (h : r.WF) : r.cnt = 0 ↔ r.read = r.write := by
  obtain ⟨h1, h2, h3⟩ := h
  unfold Ring.cnt
  constructor
  · intro hc
    by_cases hle : r.read ≤ r.write
    · have : r.write + r.n - r.read = r.n + (r.write - r.read) := by omega
      rw [this, Nat.add_mod_left, Nat.mod_eq_of_lt (by omega)] at hc; omega
    · rw [Nat.mod_eq_of_lt (by omega)] at hc; omega
  · intro he; rw [he]; have : r.write + r.n - r.write = r.n := by omega
    rw [this, Nat.mod_self]


theorem cnt_eq (r : Ring) (h : r.WF) :
    r.cnt = if r.read ≤ r.write then r.write - r.read else r.write + r.n - r.read := by
  obtain ⟨h1, h2, h3⟩ := h
  unfold Ring.cnt
  split
  · have : r.write + r.n - r.read = r.n + (r.write - r.read) := by omega
    rw [this, Nat.add_mod_left, Nat.mod_eq_of_lt (by omega)]
  · rw [Nat.mod_eq_of_lt (by omega)]

theorem succ_mod (a n : Nat) (h : a < n) : (a + 1) % n = if a + 1 < n then a + 1 else 0 := by
  split
  · exact Nat.mod_eq_of_lt ‹_›
  · have : a + 1 = n := by omega
    rw [this, Nat.mod_self]

theorem abs_dequeue (r : Ring) (h : r.WF) (hne : r.read ≠ r.write) :
    r.abs = r.buf ((r.read + 1) % r.n) :: ({ r with read := (r.read + 1) % r.n } : Ring).abs := by
  obtain ⟨h1, h2, h3⟩ := h
  have hwf' : ({ r with read := (r.read + 1) % r.n } : Ring).WF :=
    ⟨h1, Nat.mod_lt _ (by omega), h3⟩
  have hc : r.cnt = ({ r with read := (r.read + 1) % r.n } : Ring).cnt + 1 := by
    rw [cnt_eq r ⟨h1, h2, h3⟩, cnt_eq _ hwf']
    simp only [succ_mod r.read r.n h2]
    split <;> split <;> split <;> omega
  unfold Ring.abs
  rw [hc, List.range_succ_eq_map, List.map_cons, List.map_map]
  congr 1
  apply List.map_congr_left
  intro i _
  simp only [Function.comp, Nat.succ_eq_add_one]
  congr 1
  rw [Nat.add_mod ((r.read + 1) % r.n + 1) i, Nat.add_mod ((r.read + 1) % r.n) 1, Nat.mod_mod,
      ← Nat.add_mod (r.read + 1) 1, ← Nat.add_mod]
  congr 1; omega


theorem mod_wrap (a n : Nat) (_hn : 0 < n) (h : a < 2 * n) : a % n = if a < n then a else a - n := by
  split
  · exact Nat.mod_eq_of_lt ‹_›
  · have : a = n + (a - n) := by omega
    rw [this, Nat.add_mod_left, Nat.mod_eq_of_lt (by omega)]; omega

def Ring.push (r : Ring) (f : Frame) : Ring :=
  { r with write := (r.write + 1) % r.n, buf := fun i => if i = (r.write + 1) % r.n then f else r.buf i }

theorem enqueue_eq (r : Ring) (f : Frame) :
    enqueue r f = if (r.write + 1) % r.n ≠ r.read then some (r.push f) else none := rfl

theorem cnt_spec (r : Ring) (h : r.WF) :
    (r.read ≤ r.write ∧ r.cnt = r.write - r.read) ∨ (r.write < r.read ∧ r.cnt = r.write + r.n - r.read) := by
  have := cnt_eq r h
  by_cases hle : r.read ≤ r.write
  · left; simp [hle] at this; exact ⟨hle, this⟩
  · right; simp [hle] at this; exact ⟨by omega, this⟩

theorem succ_mod' (a n : Nat) (h : a < n) :
    (a + 1 < n ∧ (a + 1) % n = a + 1) ∨ (a + 1 = n ∧ (a + 1) % n = 0) := by
  have := succ_mod a n h
  by_cases hlt : a + 1 < n
  · left; simp [hlt] at this; exact ⟨hlt, this⟩
  · right; simp [hlt] at this; exact ⟨by omega, this⟩

theorem mod_wrap' (a n : Nat) (hn : 0 < n) (h : a < 2 * n) :
    (a < n ∧ a % n = a) ∨ (n ≤ a ∧ a % n = a - n) := by
  have := mod_wrap a n hn h
  by_cases hlt : a < n
  · left; simp [hlt] at this; exact ⟨hlt, this⟩
  · right; simp [hlt] at this; exact ⟨by omega, this⟩

theorem abs_push (r : Ring) (h : r.WF) (f : Frame) (hne : (r.write + 1) % r.n ≠ r.read) :
    (r.push f).WF ∧ (r.push f).abs = r.abs ++ [f] := by
  have hwf := h
  obtain ⟨h1, h2, h3⟩ := h
  have hwf' : (r.push f).WF := ⟨h1, h2, Nat.mod_lt _ (by omega)⟩
  refine ⟨hwf', ?_⟩
  have hc : (r.push f).cnt = r.cnt + 1 := by
    have a := cnt_spec _ hwf'
    have b := cnt_spec r hwf
    have c := succ_mod' r.write r.n h3
    simp only [Ring.push] at a
    rcases a with ⟨a1, a2⟩ | ⟨a1, a2⟩ <;> rcases b with ⟨b1, b2⟩ | ⟨b1, b2⟩ <;>
      rcases c with ⟨c1, c2⟩ | ⟨c1, c2⟩ <;> rw [c2] at a1 hne <;> simp only [Ring.push] <;> omega
  unfold Ring.abs
  rw [hc, List.range_succ, List.map_append, List.map_cons, List.map_nil]
  have b := cnt_spec r hwf
  have c := succ_mod' r.write r.n h3
  congr 1
  · apply List.map_congr_left
    intro i hi
    have hi' : i < r.cnt := List.mem_range.mp hi
    have hidx : (r.read + 1 + i) % r.n ≠ (r.write + 1) % r.n := by
      have m := mod_wrap' (r.read + 1 + i) r.n (by omega) (by rcases b with ⟨_, b2⟩ | ⟨_, b2⟩ <;> omega)
      rcases b with ⟨b1, b2⟩ | ⟨b1, b2⟩ <;> rcases c with ⟨c1, c2⟩ | ⟨c1, c2⟩ <;>
        rcases m with ⟨m1, m2⟩ | ⟨m1, m2⟩ <;> rw [c2] at hne ⊢ <;> rw [m2] <;> omega
    simp [Ring.push, hidx]
  · have hidx : (r.read + 1 + r.cnt) % r.n = (r.write + 1) % r.n := by
      have m := mod_wrap' (r.read + 1 + r.cnt) r.n (by omega) (by rcases b with ⟨_, b2⟩ | ⟨_, b2⟩ <;> omega)
      rcases b with ⟨b1, b2⟩ | ⟨b1, b2⟩ <;> rcases c with ⟨c1, c2⟩ | ⟨c1, c2⟩ <;>
        rcases m with ⟨m1, m2⟩ | ⟨m1, m2⟩ <;> rw [c2] at hne ⊢ <;> rw [m2] <;> omega
    simp [Ring.push, hidx]


theorem abs_nil_of_eq (r : Ring) (h : r.WF) (he : r.read = r.write) : r.abs = [] := by
  have := (cnt_zero_iff r h).mpr he
  simp [Ring.abs, this]

theorem flush_inv : ∀ (fuel : Nat) (r : Ring) (d : Drv), r.WF → r.cnt ≤ fuel →
    let res := sendFramesAux fuel r d
    res.1.WF ∧ d.sent ++ r.abs = res.2.1.sent ++ res.1.abs ∧ (res.2.2 = true → res.1.abs = []) := by
  intro fuel
  induction fuel with
  | zero =>
    intro r d h hc
    have : r.cnt = 0 := by omega
    have he := (cnt_zero_iff r h).mp this
    simp [sendFramesAux, h, abs_nil_of_eq r h he]
  | succ k ih =>
    intro r d h hc
    unfold sendFramesAux
    by_cases he : r.read = r.write
    · simp [he, h, abs_nil_of_eq r h he]
    · simp only [he, ↓reduceIte]
      have hd := abs_dequeue r h he
      have hwf' : ({ r with read := (r.read + 1) % r.n } : Ring).WF :=
        ⟨h.1, Nat.mod_lt _ (by have := h.1; omega), h.2.2⟩
      unfold Drv.send
      by_cases ha : d.acc d.pos = true
      · simp only [ha, ↓reduceIte]
        have hc' : ({ r with read := (r.read + 1) % r.n } : Ring).cnt ≤ k := by
          have : r.cnt = ({ r with read := (r.read + 1) % r.n } : Ring).cnt + 1 := by
            have := congrArg List.length hd
            simpa [Ring.abs] using this
          omega
        have := ih { r with read := (r.read + 1) % r.n }
          { d with pos := d.pos + 1, sent := d.sent ++ [r.buf ((r.read + 1) % r.n)] } hwf' hc'
        simp only at this ⊢
        refine ⟨this.1, ?_, this.2.2⟩
        rw [← this.2.1, hd]; simp
      · simp only [ha]
        simp [h]

theorem sendFrame_inv (r : Ring) (d : Drv) (f : Frame) (h : r.WF) :
    let res := sendFrame r d f
    res.1.WF ∧ res.2.1.sent ++ res.1.abs = d.sent ++ r.abs ++ (if res.2.2 then [f] else []) := by
  have hf := flush_inv r.cnt r d h (Nat.le_refl _)
  simp only at hf
  unfold sendFrame sendFrames
  generalize sendFramesAux r.cnt r d = res at hf
  obtain ⟨r1, d1, ok⟩ := res
  simp only at hf
  obtain ⟨hw1, hs1, hn1⟩ := hf
  cases ok
  · simp only [enqueue_eq]
    by_cases hne : (r1.write + 1) % r1.n ≠ r1.read
    · have := abs_push r1 hw1 f hne
      simp only [hne, ↓reduceIte, ne_eq, not_false_eq_true]
      simp only [ne_eq] at hne
      simp [hne, this.1, this.2, hs1]
    · simp only [hne, ↓reduceIte]
      simp [hw1, hs1]
  · simp only
    unfold Drv.send
    by_cases ha : d1.acc d1.pos = true
    · simp [ha, hw1, hs1, hn1 rfl]
    · simp only [ha]
      simp only [enqueue_eq]
      by_cases hne : (r1.write + 1) % r1.n ≠ r1.read
      · have := abs_push r1 hw1 f hne
        simp only [ne_eq] at hne
        simp [hne, this.1, this.2, hs1]
      · simp only [hne, ↓reduceIte]
        simp [hw1, hs1]

#print axioms sendFrame_inv
end Q
