import N2k.Lemmas.GroupFunctionServe
/-! Commands that take effect: instances (60928), installation descriptions (126998), heartbeat interval/offset
(request for 126993) (C09). -/
namespace N2k.GF
open N2k.Send N2k.Time N2k.GFSpec

/-! ## command header -/

theorem cmdHeader_length (pgn prio pairs : Nat) : (cmdHeader pgn prio pairs).length = 6 := by
  simp [cmdHeader, GFSpec.le3]

theorem cmdParams_header {m : Msg} {pgn prio pairs : Nat} {body junk : List Nat}
    (hd : m.data = cmdHeader pgn prio pairs ++ body ++ junk) (hl : m.len = 6 + body.length) (hp : prio < 16) :
    cmdParams m = (prio, pairs) := by
  have hat : At m 0 (cmdHeader pgn prio pairs) := at_header hd (by rw [cmdHeader_length]; exact hl)
  simp only [cmdHeader, GFSpec.le3, List.cons_append, List.nil_append] at hat
  have h4 := hat.tail.tail.tail.tail
  have e1 := h4.getByte
  have e2 := h4.tail.getByte
  simp only [Nat.zero_add] at e1 e2
  unfold cmdParams
  simp only [e1, e2, and_mask4]
  refine Prod.ext ?_ rfl
  simp only []; omega

/-! ## PGN 60928 command -/

/-- values the command leaves in (DILower, DIUpper, SI): the last commanded value of each, masked to its width -/
def cmdVals : List Cmd60928 → Nat × Nat × Nat → Nat × Nat × Nat
  | [], v => v
  | .instanceLower b :: r, v => cmdVals r (b % 8, v.2.1, v.2.2)
  | .instanceUpper b :: r, v => cmdVals r (v.1, b % 32, v.2.2)
  | .systemInstance b :: r, v => cmdVals r (v.1, v.2.1, b % 16)

theorem cmd60928Loop_cmds (m : Msg) : ∀ (cmds : List Cmd60928) (i idx lo up si : Nat) (ack : List Nat),
    At m idx (cmds.flatMap Cmd60928.enc) →
    ((cmd60928Loop m cmds.length i idx lo up si ack).1, (cmd60928Loop m cmds.length i idx lo up si ack).2.1,
      (cmd60928Loop m cmds.length i idx lo up si ack).2.2.1) = cmdVals cmds (lo, up, si)
  | [], _, _, _, _, _, _, _ => rfl
  | c :: r, i, idx, lo, up, si, ack, hat => by
    rw [List.flatMap_cons] at hat
    have hr := hat.right
    cases c with
    | instanceLower b =>
      have hf := hat.left.getByte; have hv := hat.left.tail.getByte
      simp only [List.length_cons]; unfold cmd60928Loop; simp only [hf, hv, and_mask3]
      have := cmd60928Loop_cmds m r (i + 1) (idx + 1 + 1) (b % 8) up si (addAckParam ack i 0) (by simpa [Cmd60928.enc, Nat.add_assoc] using hr)
      simpa [cmdVals] using this
    | instanceUpper b =>
      have hf := hat.left.getByte; have hv := hat.left.tail.getByte
      simp only [List.length_cons]; unfold cmd60928Loop; simp only [hf, hv, and_mask5]
      have := cmd60928Loop_cmds m r (i + 1) (idx + 1 + 1) lo (b % 32) si (addAckParam ack i 0) (by simpa [Cmd60928.enc, Nat.add_assoc] using hr)
      simpa [cmdVals] using this
    | systemInstance b =>
      have hf := hat.left.getByte; have hv := hat.left.tail.getByte
      simp only [List.length_cons]; unfold cmd60928Loop; simp only [hf, hv, and_mask4]
      have := cmd60928Loop_cmds m r (i + 1) (idx + 1 + 1) lo up (b % 16) (addAckParam ack i 0) (by simpa [Cmd60928.enc, Nat.add_assoc] using hr)
      simpa [cmdVals] using this

/-- a well-formed Command for PGN 60928 hands the masked values to `SetDeviceInformationInstances` (0xff = not
commanded) together with one Acknowledge -/
theorem cmd60928_wellformed (m : Msg) (prio : Nat) (cmds : List Cmd60928) (junk : List Nat)
    (hd : m.data = cmdHeader 60928 prio cmds.length ++ cmds.flatMap Cmd60928.enc ++ junk)
    (hl : m.len = 6 + (cmds.flatMap Cmd60928.enc).length) (hp : prio < 16) :
    ∃ data, cmd60928 m = .cmd60928 m.src data (cmdVals cmds (0xff, 0xff, 0xff)).1 (cmdVals cmds (0xff, 0xff, 0xff)).2.1
      (cmdVals cmds (0xff, 0xff, 0xff)).2.2 ∧ IsAckFor data 60928 cmds.length := by
  have hcp := cmdParams_header hd hl hp
  have hat : At m 6 (cmds.flatMap Cmd60928.enc) := by
    have := at_body hd (by rw [cmdHeader_length]; exact hl)
    rwa [cmdHeader_length] at this
  have hv := cmd60928Loop_cmds m cmds 0 6 0xff 0xff 0xff (startAck 60928 0 0 cmds.length) hat
  have hs := cmd60928Loop_shape m 60928 cmds.length cmds.length 0 6 0xff 0xff 0xff _ (startAck_shape 60928 0 0 cmds.length)
  rw [Nat.zero_add] at hs
  refine ⟨_, ?_, hs.isAckFor⟩
  unfold cmd60928
  simp only [hcp]
  rw [← hv]

/-- `DeviceInstance` after `SetDeviceInformationInstances` -/
def newDI (di lower upper : Nat) : Nat :=
  let di1 := if lower ≠ 0xff then ((di &&& 0xF8) ||| (lower &&& 0x07)) else di
  if upper ≠ 0xff then ((di1 &&& 0x07) ||| (((upper &&& 0x1f) <<< 3) % 256)) else di1

/-- the device attributes after `SetDeviceInformationInstances` (but for the pending claim timer) -/
def instAttr (a : Attr) (lower upper si : Nat) : Attr :=
  { a with deviceInstance := newDI a.deviceInstance lower upper,
           systemInstance := if decide (si ≠ 0xff ∧ a.systemInstance ≠ si) then si &&& 0x0f else a.systemInstance }

theorem syncName_attrs (g : GSt) (i : Nat) : (syncName g i).attrs = g.attrs := by
  unfold syncName; split <;> rfl

theorem syncName_flags (g : GSt) (i : Nat) : (syncName g i).devInfoChanged = g.devInfoChanged
    ∧ (syncName g i).instDescChanged = g.instDescChanged ∧ (syncName g i).conf = g.conf := by
  unfold syncName; split <;> exact ⟨rfl, rfl, rfl⟩

theorem setPendingClaim_self {g : GSt} {i : Nat} {a : Attr} (ha : g.attrs[i]? = some a) (k : Nat) :
    (setPendingClaim g i k).attrs[i]? = some { a with pendingClaim := Sched.fromNow g.s.flavor g.s.now k } := by
  unfold setPendingClaim
  rw [ha]
  simp only [setAttr]
  have : i < g.attrs.length := by
    rcases Nat.lt_or_ge i g.attrs.length with h | h
    · exact h
    · rw [List.getElem?_eq_none h] at ha; cases ha
  rw [List.getElem?_set_self this]

theorem setPendingClaim_other (g : GSt) (i k : Nat) : (setPendingClaim g i k).devInfoChanged = g.devInfoChanged
    ∧ (setPendingClaim g i k).instDescChanged = g.instDescChanged ∧ (setPendingClaim g i k).conf = g.conf
    ∧ ∀ j, j ≠ i → (setPendingClaim g i k).attrs[j]? = g.attrs[j]? := by
  unfold setPendingClaim
  split
  · exact ⟨rfl, rfl, rfl, fun _ _ => rfl⟩
  · refine ⟨rfl, rfl, rfl, fun j hj => ?_⟩
    simp only [setAttr]
    rw [List.getElem?_set_ne (fun h => hj h.symm)]

/-- `SetDeviceInformationInstances`: the new instance values are stored, the device-information-changed flag is
latched iff the device instance or the system instance changed, nothing else changes -/
theorem setInstances_spec {g : GSt} {i : Nat} {a : Attr} (ha : g.attrs[i]? = some a) (lower upper si : Nat) :
    (∃ pc, (setInstances g i lower upper si).attrs[i]? = some { instAttr a lower upper si with pendingClaim := pc })
    ∧ (setInstances g i lower upper si).devInfoChanged =
        (g.devInfoChanged || decide (a.deviceInstance ≠ newDI a.deviceInstance lower upper)
          || decide (si ≠ 0xff ∧ a.systemInstance ≠ si))
    ∧ (setInstances g i lower upper si).instDescChanged = g.instDescChanged
    ∧ (setInstances g i lower upper si).conf = g.conf
    ∧ ∀ j, j ≠ i → (setInstances g i lower upper si).attrs[j]? = g.attrs[j]? := by
  have hlt : i < g.attrs.length := by
    rcases Nat.lt_or_ge i g.attrs.length with h | h
    · exact h
    · rw [List.getElem?_eq_none h] at ha; cases ha
  unfold setInstances
  rw [ha]
  simp only []
  generalize hg1 : syncName { (setAttr g i { a with deviceInstance := _, systemInstance := _ }) with devInfoChanged := _ } i = g1
  have hattr : g1.attrs[i]? = some (instAttr a lower upper si) := by
    rw [← hg1, syncName_attrs]; simp only [setAttr]; rw [List.getElem?_set_self hlt]; rfl
  have hother : ∀ j, j ≠ i → g1.attrs[j]? = g.attrs[j]? := by
    intro j hj; rw [← hg1, syncName_attrs]; simp only [setAttr]; rw [List.getElem?_set_ne (fun h => hj h.symm)]
  have hfl : g1.devInfoChanged = (g.devInfoChanged || decide (a.deviceInstance ≠ newDI a.deviceInstance lower upper)
          || decide (si ≠ 0xff ∧ a.systemInstance ≠ si)) ∧ g1.instDescChanged = g.instDescChanged ∧ g1.conf = g.conf := by
    rw [← hg1]; obtain ⟨h1, h2, h3⟩ := syncName_flags { (setAttr g i { a with deviceInstance := _, systemInstance := _ }) with devInfoChanged := _ } i
    rw [h1, h2, h3]; exact ⟨rfl, rfl, rfl⟩
  by_cases hr : readyToSend g1.s = true
  · rw [if_pos hr]
    obtain ⟨p1, p2, p3, p4⟩ := setPendingClaim_other g1 i 2
    refine ⟨⟨_, setPendingClaim_self hattr 2⟩, by rw [p1]; exact hfl.1, by rw [p2]; exact hfl.2.1, by rw [p3]; exact hfl.2.2, ?_⟩
    intro j hj; rw [p4 j hj]; exact hother j hj
  · rw [if_neg hr]
    exact ⟨⟨_, by rw [hattr]⟩, hfl.1, hfl.2.1, hfl.2.2, hother⟩

/-- the bits of the stored device instance: lower 3 bits / upper 5 bits are the commanded values (or stay) -/
theorem newDI_bits (di lower upper : Nat) (hdi : di < 256) (hl : lower = 0xff ∨ lower < 8) (hu : upper = 0xff ∨ upper < 32) :
    newDI di lower upper &&& 0x07 = (if lower = 0xff then di &&& 0x07 else lower)
    ∧ (newDI di lower upper >>> 3) &&& 0x1f = (if upper = 0xff then (di >>> 3) &&& 0x1f else upper)
    ∧ newDI di lower upper < 256 := by
  have h1 : ∀ di, di < 256 → ∀ lo, lo < 8 → ∀ up, up < 32 →
      newDI di lo up &&& 0x07 = lo ∧ (newDI di lo up >>> 3) &&& 0x1f = up ∧ newDI di lo up < 256 := by decide +kernel
  have h2 : ∀ di, di < 256 → ∀ lo, lo < 8 →
      newDI di lo 0xff &&& 0x07 = lo ∧ (newDI di lo 0xff >>> 3) &&& 0x1f = (di >>> 3) &&& 0x1f ∧ newDI di lo 0xff < 256 := by decide +kernel
  have h3 : ∀ di, di < 256 → ∀ up, up < 32 →
      newDI di 0xff up &&& 0x07 = di &&& 0x07 ∧ (newDI di 0xff up >>> 3) &&& 0x1f = up ∧ newDI di 0xff up < 256 := by decide +kernel
  rcases hl with rfl | hl <;> rcases hu with rfl | hu
  · simp [newDI, hdi]
  · have := h3 di hdi upper hu
    have hne : upper ≠ 0xff := by omega
    simp only [hne, if_false, if_true]; exact this
  · have := h2 di hdi lower hl
    have hne : lower ≠ 0xff := by omega
    simp only [hne, if_false, if_true]; exact this
  · have := h1 di hdi lower hl upper hu
    have hne : lower ≠ 0xff := by omega
    have hne2 : upper ≠ 0xff := by omega
    simp only [hne, hne2, if_false]; exact this

/-! ## PGN 126998 command -/

def descWrites : List Cmd126998 → List (Nat × List Nat)
  | [] => []
  | .installationDescription1 s :: r => (1, s) :: descWrites r
  | .installationDescription2 s :: r => (2, s) :: descWrites r

theorem cmd126998Loop_cmds (m : Msg) : ∀ (cmds : List Cmd126998) (i idx : Nat) (ws : List (Nat × List Nat)) (ack : List Nat),
    (∀ c ∈ cmds, c.wf) → At m idx (cmds.flatMap Cmd126998.enc) →
    (cmd126998Loop m cmds.length i idx ws ack).1 = ws ++ descWrites cmds
  | [], _, _, _, _, _, _ => by simp [cmd126998Loop, descWrites]
  | c :: r, i, idx, ws, ack, hwf, hat => by
    rw [List.flatMap_cons] at hat
    have hr := hat.right
    have hw := hwf c (by simp)
    cases c with
    | installationDescription1 s =>
      have hf := (At.left (xs := [1]) hat.left).getByte
      have hv := getVarStr_ok (At.right (xs := [1]) hat.left) hw
      simp only [List.length_cons, List.length_nil, Nat.zero_add] at hv
      simp only [List.length_cons]; unfold cmd126998Loop; simp only [hf, hv]
      have := cmd126998Loop_cmds m r (i + 1) (idx + 1 + (2 + s.length)) (ws ++ [(1, s)]) (addAckParam ack i 0)
        (fun x hx => hwf x (by simp [hx])) (by simpa [Cmd126998.enc, varStr, Nat.add_assoc, Nat.add_comm, Nat.add_left_comm] using hr)
      simpa [descWrites] using this
    | installationDescription2 s =>
      have hf := (At.left (xs := [2]) hat.left).getByte
      have hv := getVarStr_ok (At.right (xs := [2]) hat.left) hw
      simp only [List.length_cons, List.length_nil, Nat.zero_add] at hv
      simp only [List.length_cons]; unfold cmd126998Loop; simp only [hf, hv]
      have := cmd126998Loop_cmds m r (i + 1) (idx + 1 + (2 + s.length)) (ws ++ [(2, s)]) (addAckParam ack i 0)
        (fun x hx => hwf x (by simp [hx])) (by simpa [Cmd126998.enc, varStr, Nat.add_assoc, Nat.add_comm, Nat.add_left_comm] using hr)
      simpa [descWrites] using this

theorem cmd126998_wellformed (m : Msg) (prio : Nat) (cmds : List Cmd126998) (junk : List Nat)
    (hd : m.data = cmdHeader 126998 prio cmds.length ++ cmds.flatMap Cmd126998.enc ++ junk)
    (hl : m.len = 6 + (cmds.flatMap Cmd126998.enc).length) (hp : prio < 16) (hwf : ∀ c ∈ cmds, c.wf) :
    ∃ data, cmd126998 m = .cmd126998 m.src data (descWrites cmds) ∧ IsAckFor data 126998 cmds.length := by
  have hcp := cmdParams_header hd hl hp
  have hat : At m 6 (cmds.flatMap Cmd126998.enc) := by
    have := at_body hd (by rw [cmdHeader_length]; exact hl)
    rwa [cmdHeader_length] at this
  have hv := cmd126998Loop_cmds m cmds 0 6 [] (startAck 126998 0 (if prioOk prio then 0 else 1) cmds.length) hwf hat
  have hs := cmd126998Loop_shape m 126998 cmds.length cmds.length 0 6 [] _ (startAck_shape 126998 0 (if prioOk prio then 0 else 1) cmds.length)
  rw [Nat.zero_add] at hs
  refine ⟨_, ?_, hs.isAckFor⟩
  unfold cmd126998
  simp only [hcp]
  rw [hv]; rfl

/-- storing one description -/
def Conf.write (c : Conf) (w : Nat × List Nat) : Conf :=
  if w.1 = 1 then { c with d1 := (cstr w.2).take 70 } else { c with d2 := (cstr w.2).take 70 }

theorem foldl_setDesc (ws : List (Nat × List Nat)) : ∀ (g : GSt),
    (ws.foldl setDesc g).conf = ws.foldl Conf.write g.conf ∧ (ws.foldl setDesc g).attrs = g.attrs
    ∧ (ws.foldl setDesc g).s = g.s ∧ (ws.foldl setDesc g).devInfoChanged = g.devInfoChanged
    ∧ (ws.foldl setDesc g).chain = g.chain
    ∧ (ws.foldl setDesc g).instDescChanged = (g.instDescChanged || !ws.isEmpty) := by
  induction ws with
  | nil => intro g; simp
  | cons w r ih =>
    intro g
    simp only [List.foldl_cons]
    obtain ⟨h1, h2, h3, h4, h5, h6⟩ := ih (setDesc g w)
    rw [h1, h2, h3, h4, h5, h6]
    unfold setDesc Conf.write
    by_cases hw : w.1 = 1 <;> simp [hw]

theorem take_cstr_ok {s : List Nat} (hs : StrOK s 70) : (cstr s).take 70 = s := by
  rw [cstr_of_ok hs.2, List.take_of_length_le hs.1]

/-! ## configuration information with 7-bit descriptions -/

/-- 7-bit characters, no NUL -/
def Ascii (s : List Nat) : Prop := ∀ c ∈ s, c ≠ 0 ∧ c < 128

theorem requireUnicode_ascii : ∀ {s : List Nat}, Ascii s → requireUnicode s = false
  | [], _ => rfl
  | c :: r, h => by
    have hc := (h c (by simp)).2
    have h7 : ∀ b, b < 128 → utf8SeqLen b = some 1 := by decide +kernel
    unfold requireUnicode
    rw [h7 c hc]
    simp only [if_true]
    exact requireUnicode_ascii (fun x hx => h x (by simp [hx]))

theorem cstr_ascii {s : List Nat} (h : Ascii s) : cstr s = s :=
  takeWhile_all (fun c hc => by simpa using (h c hc).1)

/-- `AddVarStr` of a 7-bit string that fits -/
theorem addVarStr_ascii (data s : List Nat) (h : Ascii s) (hl : s.length ≤ 70) (hd : data.length + s.length + 2 ≤ 223) :
    addVarStr data s 71 = data ++ varStr s := by
  unfold addVarStr varStr
  rw [cstr_ascii h]
  have hbf : (if data.length < 223 then 223 - data.length else 0) = 223 - data.length := if_pos (by omega)
  simp only [hbf]
  cases s with
  | nil =>
    simp only [List.length_nil] at hd
    rw [if_pos (Or.inr rfl), if_pos (by omega)]; simp
  | cons c r =>
    simp only [List.length_cons] at hd hl
    rw [if_neg (by simp; omega), requireUnicode_ascii h]
    simp only [Bool.false_eq_true, if_false, List.length_cons]
    have e1 : min (min (r.length + 1) 71) (223 - data.length - 2) = r.length + 1 := by omega
    rw [e1, List.take_of_length_le (by simp)]
    have e2 : (r.length + 1 + 2) % 256 = r.length + 1 + 2 := by omega
    rw [e2]; simp

theorem confData_ascii (c : Conf) (h1 : Ascii c.d1) (h2 : Ascii c.d2) (h3 : Ascii c.man)
    (l1 : c.d1.length ≤ 70) (l2 : c.d2.length ≤ 70) (l3 : c.man.length ≤ 70) :
    confData c = varStr c.d1 ++ varStr c.d2 ++ varStr c.man := by
  unfold confData
  rw [addVarStr_ascii [] c.d1 h1 l1 (by simp; omega)]
  rw [addVarStr_ascii _ c.d2 h2 l2 (by simp [varStr]; omega)]
  rw [addVarStr_ascii _ c.man h3 l3 (by simp [varStr]; omega)]
  simp

/-! ## heartbeat interval / offset (request for PGN 126993) -/

/-- interval and offset of a heartbeat request are within the permitted limits -/
def hbWithin (iv off : Nat) : Prop := 1000 ≤ iv ∧ iv ≤ 60000 ∧ (off = 0xffff ∨ off ≤ 6000)

/-- outside: interval 0, below 1000 ms, above 60000 ms (the two special codes excepted) or offset above 60000 ms -/
def hbOutside (iv off : Nat) : Prop :=
  iv < 1000 ∨ (60000 < iv ∧ iv < 0xFFFFFFFE) ∨ (6000 < off ∧ off ≠ 0xffff)

theorem req126993_within (d : Dev) (m : Msg) (iv off : Nat) (junk : List Nat)
    (hd : m.data = reqHeader 126993 iv off 0 ++ [] ++ junk) (hl : m.len = 11 + ([] : List Nat).length)
    (hoff : off < 65536) (h : hbWithin iv off) :
    req126993 d m = .serveHeartbeat iv (if off = 0xffff ∨ off = 0 then 0xffffffff else off * 10) := by
  obtain ⟨h1, h2, h3⟩ := h
  have hrp := reqParams_header hd hl (by omega) hoff
  unfold req126993
  simp only [hrp]
  rw [if_pos trivial, if_neg (by omega)]
  have hz : iv ≠ 0 := by omega
  simp only [hz, if_false]
  have : tpErr iv off true 60000 1000 true 6000 = 0 := by
    unfold tpErr
    rw [if_pos]
    refine ⟨Or.inr (Or.inr (Or.inr ⟨rfl, h1, h2⟩)), ?_⟩
    rcases h3 with h3 | h3
    · exact Or.inl h3
    · exact Or.inr (Or.inr ⟨rfl, h3⟩)
  rw [this, if_pos rfl]

theorem req126993_outside (d : Dev) (m : Msg) (iv off : Nat) (junk : List Nat)
    (hd : m.data = reqHeader 126993 iv off 0 ++ [] ++ junk) (hl : m.len = 11 + ([] : List Nat).length)
    (hdst : m.dst ≠ 255) (hiv : iv < 4294967296) (hoff : off < 65536) (h : hbOutside iv off) :
    req126993 d m = .ack m.src (sendAckData 126993 0 1 0 0) := by
  have hrp := reqParams_header hd hl hiv hoff
  unfold req126993
  simp only [hrp]
  rw [if_pos trivial, if_neg (by unfold hbOutside at h; omega)]
  have : (if iv = 0 then 1 else tpErr iv off true 60000 1000 true 6000) = 1 := by
    by_cases hz : iv = 0
    · rw [if_pos hz]
    · rw [if_neg hz]
      unfold tpErr
      rw [if_neg]
      unfold hbOutside at h
      intro hc
      obtain ⟨ha, hb⟩ := hc
      rcases h with h | h | h
      · rcases ha with ha | ha | ha | ha <;> omega
      · rcases ha with ha | ha | ha | ha <;> omega
      · rcases hb with hb | hb | hb <;> omega
  rw [this]
  simp [hdst]

/-- `SetHeartbeatIntervalAndOffset` for an interval within the limits: interval and (if given) offset are stored and
the change is latched for the application -/
theorem setHeartbeat_spec {g : GSt} {i : Nat} {a : Attr} (ha : g.attrs[i]? = some a) (iv o : Nat)
    (h1 : 1000 ≤ iv) (h2 : iv ≤ 60000) :
    (setHeartbeat g i iv o).attrs[i]? = some { a with hbPeriod := iv, hbOffset := if o = 0xffffffff then a.hbOffset else o }
    ∧ (setHeartbeat g i iv o).devInfoChanged =
        (g.devInfoChanged || decide (a.hbPeriod ≠ iv ∨ a.hbOffset ≠ (if o = 0xffffffff then a.hbOffset else o)))
    ∧ (setHeartbeat g i iv o).conf = g.conf ∧ (setHeartbeat g i iv o).instDescChanged = g.instDescChanged := by
  have hlt : i < g.attrs.length := by
    rcases Nat.lt_or_ge i g.attrs.length with h | h
    · exact h
    · rw [List.getElem?_eq_none h] at ha; cases ha
  unfold setHeartbeat
  rw [if_neg (by omega), ha]
  simp only []
  have e1 : (if iv = 0xffffffff then a.hbPeriod else if iv = 0xfffffffe then 60000 else iv) = iv := by
    rw [if_neg (by omega), if_neg (by omega)]
  simp only [e1]
  rw [if_neg (show ¬ iv = 0 by omega)]
  have e2 : (if (if iv > 655320 then 655320 else iv) < 1000 then 1000 else (if iv > 655320 then 655320 else iv)) = iv := by
    have e0 : (if iv > 655320 then 655320 else iv) = iv := if_neg (by omega)
    rw [e0, if_neg (by omega)]
  simp only [e2]
  by_cases hc : a.hbPeriod ≠ iv ∨ a.hbOffset ≠ (if o = 0xffffffff then a.hbOffset else o)
  · rw [if_pos hc]
    refine ⟨?_, by rw [decide_eq_true hc]; simp, rfl, rfl⟩
    simp only [setAttr]; rw [List.getElem?_set_self hlt]
  · rw [if_neg hc]
    refine ⟨?_, by rw [decide_eq_false hc]; simp, rfl, rfl⟩
    have hp : a.hbPeriod = iv := by
      rcases Nat.decEq a.hbPeriod iv with h | h
      · exact absurd (Or.inl h) hc
      · exact h
    have ho : a.hbOffset = (if o = 0xffffffff then a.hbOffset else o) := by
      rcases Nat.decEq a.hbOffset (if o = 0xffffffff then a.hbOffset else o) with h | h
      · exact absurd (Or.inr h) hc
      · exact h
    rw [ha, ← hp, ← ho]

end N2k.GF
