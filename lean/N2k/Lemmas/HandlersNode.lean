import N2k.Lemmas.HandlersOps
import N2k.Spec.HandlersNode
/-! C14 behind any receive side: every history causes exactly the expected calls; receive-side invariants are kept. -/
namespace N2k.Handlers

theorem dispatchAllG_ok {μ : Type} (pgn : μ → Nat) {w : World} (hi : Inv w) : ∀ (ms : List (BusId × μ)),
    ∃ cs, dispatchAllG pgn w ms = some cs ∧ Agree (CallOkG pgn) cs (ms.map fun bm => ⟨bm.1, bm.2, view w⟩)
  | [] => ⟨[], rfl, trivial⟩
  | bm :: rest => by
    obtain ⟨l, hd, hn, hm, ho⟩ := dispatch_ok hi bm.1 (pgn bm.2)
    obtain ⟨cs, hcs, ha⟩ := dispatchAllG_ok pgn hi rest
    refine ⟨⟨bm.1, bm.2, if w.cb bm.1 then 1 else 0, l⟩ :: cs, by simp [dispatchAllG, hd, hcs], ?_⟩
    exact ⟨⟨rfl, rfl, rfl, hn, hm, ho⟩, ha⟩

theorem nodeRunG_ok {σ ε μ : Type} (track : σ → ε → σ × List (BusId × μ)) (pgn : μ → Nat) :
    ∀ (evs : List (EvG ε)) (n : NodeG σ), Inv n.w →
    ∃ n' calls, nodeRunG track pgn n evs = some (n', calls) ∧ Inv n'.w ∧
      CallsAgreeG pgn calls (expectedG track (view n.w) n.r evs)
  | [], n, hi => ⟨n, [], rfl, hi, trivial⟩
  | .op o :: evs, n, hi => by
    obtain ⟨w', hst, hi', hv⟩ := step_ok hi o
    obtain ⟨n', calls, hr, hi'', hc⟩ := nodeRunG_ok track pgn evs ⟨w', n.r⟩ hi'
    refine ⟨n', [] :: calls, ?_, hi'', ?_⟩
    · simp [nodeRunG, nodeStepG, hst, hr]
    · show Agree (CallOkG pgn) [] [] ∧ CallsAgreeG pgn calls (expectedG track (specStep (view n.w) o) n.r evs)
      rw [← hv]; exact ⟨trivial, hc⟩
  | .rx e :: evs, n, hi => by
    obtain ⟨cs, hcs, ha⟩ := dispatchAllG_ok pgn hi (track n.r e).2
    obtain ⟨n', calls, hr, hi', hc⟩ := nodeRunG_ok track pgn evs ⟨n.w, (track n.r e).1⟩ hi
    refine ⟨n', cs :: calls, ?_, hi', ?_⟩
    · simp [nodeRunG, nodeStepG, hcs, hr]
    · exact ⟨ha, hc⟩

/-- a property of the receive side that every receive event keeps holds after every history -/
theorem nodeRunG_inv {σ ε μ : Type} (track : σ → ε → σ × List (BusId × μ)) (pgn : μ → Nat) (I : σ → Prop)
    (hI : ∀ r e, I r → I (track r e).1) : ∀ (evs : List (EvG ε)) (n n' : NodeG σ) (calls : List (List (CallG μ))),
    I n.r → nodeRunG track pgn n evs = some (n', calls) → I n'.r
  | [], n, n', calls, h, hr => by
    simp [nodeRunG] at hr; rw [← hr.1]; exact h
  | ev :: evs, n, n', calls, h, hr => by
    unfold nodeRunG at hr
    cases hs : nodeStepG track pgn n ev with
    | none => rw [hs] at hr; cases hr
    | some r =>
      simp only [hs] at hr
      cases hr2 : nodeRunG track pgn r.1 evs with
      | none => simp only [hr2] at hr; cases hr
      | some r2 =>
        simp only [hr2] at hr
        simp at hr
        have h1 : I r.1.r := by
          cases ev with
          | op o =>
            unfold nodeStepG at hs
            cases hst : step n.w o with
            | none => simp only [hst] at hs; cases hs
            | some w' => simp only [hst] at hs; simp at hs; rw [← hs]; exact h
          | rx e =>
            unfold nodeStepG at hs
            cases hd : dispatchAllG pgn n.w (track n.r e).2 with
            | none => simp only [hd] at hs; cases hs
            | some cs => simp only [hd] at hs; simp at hs; rw [← hs]; exact hI n.r e h
        have := nodeRunG_inv track pgn I hI evs r.1 r2.1 r2.2 h1 hr2
        rw [← hr.1]; exact this

end N2k.Handlers
