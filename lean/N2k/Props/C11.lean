import N2k.Lemmas.SendQueue
/-!
# C11 — Frames queued under driver back-pressure leave in order, once, with none lost

Model: `N2k.Send` (`Model/Send.lean`) — `sendFrames`, `sendFrame`, `enqueue`, `sendFpLoop` transcribe
`SendFrames`, `SendFrame`, `GetNextFreeCANSendFrame` and the fast-packet loop of `SendMsg`. The CAN driver
is an arbitrary accept/refuse oracle (`Drv`: any finite script followed by any default).
All theorems hold for every queue size n ≥ 2 (sizes 0 and 1 cannot hold a frame: `C11_degenerate`),
every accept/refuse pattern and every operation sequence.
-/
namespace N2k.C11
open N2k.Send

/-- library-level operations on the send queue -/
inductive QOp where
  | send (f : Frame)     -- `SendFrame(id,len,buf)`
  | poll                 -- `SendFrames()` (start of every `ParseMessages`)

structure QS where
  r : Ring
  d : Drv

def qstep (s : QS) : QOp → QS × Bool
  | .send f => (⟨(sendFrame s.r s.d f).1, (sendFrame s.r s.d f).2.1⟩, (sendFrame s.r s.d f).2.2)
  | .poll => (⟨(sendFrames s.r s.d).1, (sendFrames s.r s.d).2.1⟩, true)

def final (s : QS) : List QOp → QS
  | [] => s
  | o :: t => final (qstep s o).1 t

/-- the frames whose `SendFrame` call reported success, in call order -/
def okFrames (s : QS) : List QOp → List Frame
  | [] => []
  | .send f :: t => (if (qstep s (.send f)).2 then [f] else []) ++ okFrames (qstep s (.send f)).1 t
  | .poll :: t => okFrames (qstep s .poll).1 t

def allWF : List QOp → Prop
  | [] => True
  | .send f :: t => f.WF ∧ allWF t
  | .poll :: t => allWF t

/-- **C11_fifo_refinement.** For every operation sequence, queue size and accept/refuse pattern:
(frames accepted by the driver so far) ++ (frames still queued, in ring order) equals the frames whose
send was reported successful, in the order produced. Hence a successful frame is never dropped,
duplicated or overtaken. -/
theorem C11_fifo_refinement (ops : List QOp) : ∀ (s : QS), s.r.WF → allWF ops →
    (final s ops).r.WF ∧
    (final s ops).d.sent ++ (final s ops).r.abs = s.d.sent ++ s.r.abs ++ okFrames s ops := by
  induction ops with
  | nil => intro s h _; exact ⟨h, by simp [final, okFrames]⟩
  | cons o t ih =>
    intro s h hwf
    cases o with
    | send f =>
      obtain ⟨hf, ht⟩ := hwf
      obtain ⟨a, _, c⟩ := sendFrame_inv s.r s.d f h hf
      obtain ⟨i1, i2⟩ := ih (qstep s (.send f)).1 a ht
      refine ⟨i1, ?_⟩
      simp only [final, okFrames]
      rw [i2]
      simp only [qstep] at c ⊢
      rw [c]
      by_cases hb : (sendFrame s.r s.d f).2.2 = true <;> simp [hb]
    | poll =>
      obtain ⟨a, b, _, _⟩ := flush_inv s.r.cnt s.r s.d h (Nat.le_refl _)
      obtain ⟨i1, i2⟩ := ih (qstep s .poll).1 a hwf
      refine ⟨i1, ?_⟩
      simp only [final, okFrames]
      rw [i2]
      simp only [qstep, sendFrames]
      rw [← b]

/-- starting from an empty queue: what the driver has received is a prefix of the successful frames,
the rest is exactly the queue content -/
theorem C11_prefix (ops : List QOp) (s : QS) (h : s.r.WF) (hw : allWF ops)
    (h0 : s.d.sent = []) (hq : s.r.read = s.r.write) :
    (final s ops).d.sent ++ (final s ops).r.abs = okFrames s ops := by
  have := (C11_fifo_refinement ops s h hw).2
  rw [h0, abs_nil_of_eq s.r h hq] at this
  simpa using this

/-- **C11_full_reports_failure.** A `SendFrame` that reports failure leaves the delivered and the queued
frames exactly as they were after flushing (nothing queued is lost or reordered). -/
theorem C11_full_reports_failure (r : Ring) (d : Drv) (f : Frame) (h : r.WF) (hf : f.WF)
    (hres : (sendFrame r d f).2.2 = false) :
    (sendFrame r d f).2.1.sent ++ (sendFrame r d f).1.abs = d.sent ++ r.abs :=
  sendFrame_fail r d f h hf hres

/-- a poll that the driver fully accepts empties the queue (everything owed is delivered) -/
theorem C11_flush_delivers (r : Ring) (d : Drv) (h : r.WF) (hok : (sendFrames r d).2.2 = true) :
    (sendFrames r d).1.abs = [] ∧ (sendFrames r d).2.1.sent = d.sent ++ r.abs := by
  obtain ⟨_, b, c, _⟩ := flush_inv r.cnt r d h (Nat.le_refl _)
  have hc := c hok
  refine ⟨hc, ?_⟩
  unfold sendFrames at hc ⊢
  rw [hc] at b
  simpa using b.symm

/-- sizes 0 and 1 never store a frame -/
theorem C11_degenerate (r : Ring) (f : Frame) (h : r.n ≤ 1) (h0 : r.read = 0) : enqueue r f = none := by
  unfold enqueue
  by_cases hn : r.n = 0
  · simp [hn]
  · have : r.n = 1 := by omega
    simp [this, h0, Nat.mod_one]

/-- **C11_fast_packet_prefix.** A fast packet interrupted by a refusal / full queue leaves exactly its
successfully produced frame prefix in the stream, and the loop reports success iff all frames were produced. -/
theorem C11_fast_packet_prefix (id : Nat) (m : Msg) (order : Nat) (k i : Nat) (r : Ring) (d : Drv) (h : r.WF) :
    let res := sendFpLoop id m order k i r d
    res.1.WF ∧ ∃ j, j ≤ k ∧ (res.2.2 = true ↔ j = k) ∧
      res.2.1.sent ++ res.1.abs = d.sent ++ r.abs ++
        (List.range j).map fun t => (⟨id, 8, fpFrame m order (i + t)⟩ : Frame) :=
  sendFpLoop_prefix id m order k i r d h

/-! ## non-vacuity: a refusal in the middle of a 3-frame burst on a ring of size 3 -/

def demoRing : Ring := { n := 3, buf := fun _ => ⟨0, 0, []⟩, read := 0, write := 0 }
def demoDrv : Drv := { script := [true, false, false, true], dflt := false, sent := [] }
def fr (k : Nat) : Frame := ⟨k, 1, [k]⟩

def demoOps : List QOp := [.send (fr 1), .send (fr 2), .send (fr 3), .send (fr 4), .send (fr 5), .poll]

example : demoRing.WF := by simp [Ring.WF, demoRing]
example : (fr 7).WF := by simp [Frame.WF, fr]
/-- frames 2,3,4 are queued behind refusals, frame 5 finds the queue full and is reported failed -/
example :
    ((final ⟨demoRing, demoDrv⟩ demoOps).d.sent, okFrames ⟨demoRing, demoDrv⟩ demoOps)
      = ([fr 1, fr 2], [fr 1, fr 2, fr 3, fr 4]) := by decide

end N2k.C11
