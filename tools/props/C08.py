"""C08 - ISO requests (PGN 59904) are always answered: data for the mandatory PGNs, NAK otherwise."""
SPEC = {
    'engine': 'isorq', 'harness': 'isorq.cpp',
    'repo_srcs': ['N2kMsg.cpp', 'N2kStream.cpp', 'N2kMessages.cpp', 'N2kTimer.cpp', 'N2kGroupFunction.cpp', 'N2kGroupFunctionDefaultHandlers.cpp', 'NMEA2000.cpp'],
    'variants': ['', 't32'],
    'lean_modules': ['N2k.Props.C08'], 'props_files': ['N2k/Props/C08.lean'],
    'translators': ['pgn_tables'],
    'case_start': ['new'],
    'trusted_base': [
        "model N2k/Model/IsoRequest.lean transcribes by hand ParseN2kPGN59904, FindSourceDeviceIndex, HandleISORequest, "
        "RespondISORequest (AS FIXED in the worktree), SetN2kPGN59392, SendTx/RxPGNList, SetN2kPGN126996 (RAM and PROGMEM builder), "
        "SetN2kPGN126998, SendProduct/ConfigurationInformation with their pending timers, SendPendingInformation and the 59904 "
        "case of HandleReceivedSystemMessage/ParseMessages; every message goes through the already modelled SendMsg "
        "(N2k/Model/Send.lean: claim-window gate, sequence counters, queue, scripted driver); tied to the compiled code only by "
        "the differential run (emitted frames compared per op, both timer builds)",
        "the broadcast-ignore list and the default transmit/receive PGN lists are REGENERATED from src/NMEA2000.cpp on every run "
        "(tools/translators/pgn_tables.py); the library's default product/configuration strings are constants of the engine",
        "received address claims (op aclaim) run N2k/Model/Claim.lean's handleClaim (C03's model of HandleISOAddressClaim / "
        "GetNextAddress) inside this engine's poll; the oracle starts a device's 250 ms window when it sees the device's NAME "
        "claimed from a new source address, and expects of a device on the null address nothing but its cannot-claim message",
        "the application handler is a parameter (what it accepts, what it hands to SendMsg for the device it was called for); "
        "HasPendingInformation is modelled as the flag it is (set by SetPending..., recomputed from both timers by Clear..., guarding "
        "the device in SendPendingInformation); the PendingIsoAddressClaim / NextDTSendTime terms of the disjunction are false here",
        "harness oracle: independent decoder of the produced frames (identifier fields, reference fast-packet reassembly, "
        "field decoders) against expectations written from the property statement and from what the harness configured; "
        "frames are observed at the driver AND in the send queue, so an answer counts even while the driver refuses; product / "
        "configuration information whose send was refused is OWED: the first poll at which the driver refuses nothing, later than "
        "187+8*src / 187+10*src ms after the last refusal (or claim window) that can have re-armed the timer, must put it on the bus "
        "(key C08:retry:*), and whatever is still owed at the end of a case is demanded after a flush",
    ],
    'assumptions': [
        "node is open and in a claimant mode for the theorems (other modes: correspondence only); devices have claimed real addresses",
        "AddVarStr is modelled for 7-bit configuration strings (N2kRequireUnicode false); the UCS-2 path is C16's",
        "product strings contain no 0xFF byte for the decode theorems (0xFF is the padding); NAME < 2^64, declared PGNs < 2^24",
        "field limit of a PROGMEM configuration string is Max_N2kConfigurationInfoField_len = 71 bytes (RAM copies hold 70)",
        "no heartbeat, ISO-TP transfer or delayed address claim is due during the modelled polls (heartbeat switched off in the harness)",
        "'always answered' is modulo a refusing driver: a NAK, claim or PGN list that SendMsg cannot place is not retried (C11)",
    ],
}
MANIFEST = {
    'text': "Lean theorems over the message-level responder composed with the modelled SendMsg, for ALL 2^24 requested PGNs "
            "(symbolic), any requester, any handler: a request addressed to a device that is not claiming hands to SendMsg exactly "
            "the claim / transmit list then receive list to the requester / product information / configuration information for "
            "the four mandatory PGNs, otherwise exactly the handler's messages and, unless it accepts, exactly one NAK (PGN 59392, "
            "control 1, group function 0xFF, the request's three PGN bytes in bytes 5..7, destination = requester; on the bus the "
            "frame carries the DEVICE's address as source - composition with C01); a broadcast request is answered by every "
            "device independently, in order, with the same positive answers and never a NAK (the ten broadcast-ignore PGNs are not "
            "offered to the handler); a claiming device produces nothing and touches neither queue nor driver; payloads of 60928 / "
            "126464 / 126996 (both builders) / 126998 decode to the configured NAME, default++declared lists cut to 74, product "
            "fields cut to 32 and padded, configuration strings cut to the field limit; refused product/configuration sends arm "
            "187+8*src / 187+10*src ms timers (both timer flavours, wrap-around included) and a due timer re-sends on the next "
            "poll; with BOTH answers pending a poll between the two deadlines keeps the configuration timer and the "
            "HasPendingInformation flag, so one poll after the later deadline sends it; the flag is exact after every attempt; "
            "a refused NAK is not retried. Run level (C08_every_request_answered_partial, C08_owed_product_* / C08_owed_config_*): "
            "over EVERY history of events (requests for any PGN/destination/source, polls, clock advances, driver changes, "
            "claims) from any state, each request's specified answer block is handed to SendMsg at its event (nothing while "
            "claiming, data or exactly one NAK, never a NAK for a broadcast); an armed product/configuration retry survives any "
            "history until the answer is handed over again, which - fairness stated as a hypothesis - happens at the latest at "
            "a poll at which the armed timer is due; a cleared timer is never due; C08_refused_product_arms / C08_refused_config_arms tie the invariant to "
            "the refused hand-over; C08_answer_on_bus_partial: with an accepting driver and an empty queue the single-frame answers "
            "(address claim, NAK) are exactly one more frame at the driver with C01's identifier, and the node stays accepting. Correspondence: the real node behind the mock driver vs the model on generated "
            "requests (special PGNs +-1, ignore list, random and - thorough - all 2^24 PGNs against an independent decoder "
            "oracle plus 2^18 stratified through the model), 1..9 devices, handlers, strings beyond the limits, claim windows, "
            "driver refusals with retry, product AND configuration information refused together (same/different devices, "
            "broadcast) with polls between and after both retry deadlines; "
            "received address claims (defended / lost; a device driven over all 252 addresses to the null address 254) with "
            "requests inside, at the edge of and after the 250 ms window that follows the cannot-claim message.",
    'design_ref': 'DESIGN.md section 4, C08',
    'note': "One defect of the pinned tree is fixed in the worktree (126998 requested with nothing configured was NAKed to "
            "address 255, also for broadcast requests); the model follows the fixed code. Trusted: Lean kernel; hand "
            "transcription validated by differential runs only; AddVarStr for 7-bit strings only; the 'sends not refused' part of "
            "'always answered' is C11's: the run-level theorem is message level (handed to SendMsg) and therefore named _partial; "
            "'driver accepts => on the bus' is composed for the single-frame answers (C08_answer_on_bus_partial); for the "
            "fast-packet answers (126464/126996/126998) and handler messages it remains C01/C11's per-message statement.",
}
