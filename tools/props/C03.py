"""C03 - address claiming converges to unique addresses, the lower NAME wins, own-address changes are reported."""
SPEC = {
    'engine': 'claim', 'harness': 'claim.cpp',
    'repo_srcs': ['N2kMsg.cpp', 'N2kStream.cpp', 'N2kMessages.cpp', 'N2kTimer.cpp', 'N2kGroupFunction.cpp', 'N2kGroupFunctionDefaultHandlers.cpp', 'NMEA2000.cpp'],
    'variants': ['', 't32'],
    'lean_modules': ['N2k.Props.C03'], 'props_files': ['N2k/Props/C03.lean'],
    'translators': ['pgn_tables'],
    'case_start': ['reset', 'bus'],
    'trusted_base': [],
    'assumptions': [],
}
MANIFEST = {'text': "", 'design_ref': 'DESIGN.md section 4, C03', 'note': ""}
