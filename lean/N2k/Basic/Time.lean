/-!
# Millisecond clock primitives (`src/N2kTimer.h`)

The virtual clock is a `Nat` (milliseconds). `millis32 now` is what the 32-bit `N2kMillis()` returns.
Two scheduler flavours exist at compile time: the 32-bit one used on microcontrollers and the 64-bit one
used on Linux/ESP32 (`N2kUse64bitSchedulerTime`). Both are modelled; `Flavor` selects one.
-/
namespace N2k.Time

def M32 : Nat := 4294967296
def INT32_MAX : Nat := 2147483647
def M64 : Nat := 18446744073709551616

def millis32 (now : Nat) : Nat := now % M32

/-- `uint32_t` subtraction `a - b` -/
def sub32 (a b : Nat) : Nat := (a % M32 + M32 - b % M32) % M32

/-- `N2kIsTimeBefore(T1,T2) = (T2-T1) < INT32_MAX` -/
def isTimeBefore (t1 t2 : Nat) : Bool := sub32 t2 t1 < INT32_MAX

/-- `N2kHasElapsed(Start,Elapsed,Now) = Now-(Start+Elapsed) < INT32_MAX` -/
def hasElapsed (start elapsed now : Nat) : Bool := sub32 now ((start + elapsed) % M32) < INT32_MAX

inductive Flavor where
  | t32 | t64
  deriving DecidableEq, Repr

/-- `tN2kScheduler`: `next` is the raw `NextTime` field (sentinel = all ones = disabled) -/
structure Sched where
  next : Nat
  deriving DecidableEq, Repr

def disabledVal : Flavor → Nat
  | .t32 => M32 - 1
  | .t64 => M64 - 1

def Sched.disabled (f : Flavor) : Sched := ⟨disabledVal f⟩
def Sched.isEnabled (f : Flavor) (s : Sched) : Bool := s.next != disabledVal f

/-- `IsTime()`: 64-bit flavour is strict (`now > NextTime`); 32-bit flavour is
`!IsDisabled() && (N2kMillis()-NextTime < INT32_MAX)` -/
def Sched.isTime (f : Flavor) (s : Sched) (now : Nat) : Bool :=
  match f with
  | .t64 => decide (now > s.next)
  | .t32 => s.next != disabledVal .t32 && decide (sub32 (millis32 now) s.next < INT32_MAX)

/-- `FromNow(add)`; the 32-bit flavour maps a result equal to the sentinel to 0 -/
def Sched.fromNow (f : Flavor) (now add : Nat) : Sched :=
  match f with
  | .t64 => ⟨(now + add) % M64⟩
  | .t32 => let n := (millis32 now + add) % M32; ⟨if n = M32 - 1 then 0 else n⟩

end N2k.Time
