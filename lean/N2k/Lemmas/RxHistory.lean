import N2k.Lemmas.RxInv
/-!
# From one frame to whole frame histories (induction over the history)
-/
namespace N2k.Rx

/-- the frames of a timed history that pass the TP / known-message gates, in arrival order -/
def handledFrames (c : Cfg) (evs : List (Nat × Frame)) : List Frame := (evs.map (·.2)).filter (handled c)

theorem isFP_zero (c : Cfg) : isFP c 0 = false := by simp [isFP, classify]

theorem handledFrames_cons (c : Cfg) (e : Nat × Frame) (rest : List (Nat × Frame)) :
    handledFrames c (e :: rest) = (if handled c e.2 then [e.2] else []) ++ handledFrames c rest := by
  unfold handledFrames
  by_cases h : handled c e.2 = true <;> simp [h]

theorem setSlot_N (st : St) (i : Nat) (s : Slot) : (setSlot st i s).N = st.N := rfl

theorem finish_N (st : St) (i : Nat) (s : Slot) : (finish st i s).1.N = st.N := by
  unfold finish; split <;> rfl

theorem rxCore_N (isFP : Nat → Bool) (st : St) (now : Nat) (f : Frame) : (rxCore isFP st now f).1.N = st.N := by
  unfold rxCore
  split
  · split
    · split
      · exact finish_N _ _ _
      · rfl
    · rfl
  · split
    · exact finish_N _ _ _
    · rfl

theorem tpUse_N (ok : Bool) (st : St) (i now pgn src dst n : Nat) : (tpUse ok st i now pgn src dst n).N = st.N := by
  unfold tpUse; split <;> rfl

theorem rxTPOpen_N (c : Cfg) (st : St) (now : Nat) (f : Frame) : (rxTPOpen c st now f).N = st.N := by
  unfold rxTPOpen
  simp only
  split
  · rw [tpUse_N]; rfl
  · split
    · rw [tpUse_N]; rfl
    · split
      · rw [tpUse_N]; rfl
      · rfl

theorem rx_N (c : Cfg) (st : St) (now : Nat) (f : Frame) : (rx c st now f).1.N = st.N := by
  unfold rx; split
  · exact rxCore_N _ _ _ _
  · split
    · exact rxTPOpen_N _ _ _ _
    · rfl

theorem run_N (c : Cfg) : ∀ (evs : List (Nat × Frame)) (st : St), (run c st evs).N = st.N
  | [], _ => rfl
  | e :: rest, st => by
    show (run c (rx c st e.1 e.2).1 rest).N = st.N
    rw [run_N c rest, rx_N]

/-- `rx` = gates + `rxCore` -/
theorem rx_spec (c : Cfg) (st : St) (H : List Frame) (hI : Inv (isFP c) st H) (now : Nat) (f : Frame) (hf : WFrame f) :
    Inv (isFP c) (rx c st now f).1 (H ++ (if handled c f then [f] else [])) ∧
    (∀ m, (rx c st now f).2 = some m → handled c f = true ∧ Delivery (isFP c) (H ++ [f]) f m ∧
      ∀ j, j < st.N → ((rx c st now f).1.slot j).free = false → ((rx c st now f).1.slot j).tp = false →
        ¬ (((rx c st now f).1.slot j).pgn = m.pgn ∧ ((rx c st now f).1.slot j).src = m.src)) := by
  unfold rx
  by_cases h : handled c f = true
  · simp only [h, ↓reduceIte]
    obtain ⟨a, b⟩ := rxCore_spec (isFP c) (isFP_zero c) st H hI now f hf
    exact ⟨a, fun m hm => ⟨trivial, (b m hm).1, (b m hm).2⟩⟩
  · simp only [h, Bool.false_eq_true, ↓reduceIte, List.append_nil]
    split
    · exact ⟨rxTPOpen_inv c hI now f, fun m hm => by cases hm⟩
    · exact ⟨hI, fun m hm => by cases hm⟩

/-- every delivery made while a history is processed has its witness among the handled frames received so far -/
theorem outputs_spec (c : Cfg) : ∀ (evs : List (Nat × Frame)) (st : St) (H : List Frame),
    Inv (isFP c) st H → (∀ e ∈ evs, WFrame e.2) → ∀ i m, (outputs c st evs)[i]? = some (some m) →
    ∃ e, evs[i]? = some e ∧ handled c e.2 = true ∧
      Delivery (isFP c) (H ++ handledFrames c (evs.take (i+1))) e.2 m ∧
      ∀ j, j < st.N → ((run c st (evs.take (i+1))).slot j).free = false →
        ((run c st (evs.take (i+1))).slot j).tp = false →
        ¬ (((run c st (evs.take (i+1))).slot j).pgn = m.pgn ∧ ((run c st (evs.take (i+1))).slot j).src = m.src)
  | [], st, H, _, _, i, m, h => by simp [outputs] at h
  | e :: rest, st, H, hI, hwf, i, m, h => by
    obtain ⟨hI', hd⟩ := rx_spec c st H hI e.1 e.2 (hwf e (by simp))
    cases i with
    | zero =>
      simp only [outputs, List.getElem?_cons_zero, Option.some.injEq] at h
      obtain ⟨hh, hdel, hfree⟩ := hd m h
      refine ⟨e, by simp, hh, ?_, ?_⟩
      · simp only [Nat.zero_add, List.take_succ_cons, List.take_zero, handledFrames_cons, hh, ↓reduceIte]
        simpa [handledFrames] using hdel
      · simpa [run] using hfree
    | succ i =>
      simp only [outputs, List.getElem?_cons_succ] at h
      obtain ⟨e', he', hh, hdel, hfree⟩ :=
        outputs_spec c rest (rx c st e.1 e.2).1 _ hI' (fun x hx => hwf x (by simp [hx])) i m h
      refine ⟨e', by simpa using he', hh, ?_, ?_⟩
      · rw [List.take_succ_cons, handledFrames_cons, ← List.append_assoc]; exact hdel
      · rw [rx_N] at hfree
        simpa [run] using hfree

end N2k.Rx
