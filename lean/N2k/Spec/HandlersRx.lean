import N2k.Spec.Handlers
import N2k.Model.HandlersRx
/-! Specification of the calls a history of client operations and received frames must cause (C14, end to end):
built from the history specification of the handlers (`specStep`) and the receive model's completed messages only. -/
namespace N2k.Handlers

/-- a message completed on `bus` while the handlers were as `s` says -/
structure Expect where
  bus : BusId
  msg : Rx.Msg
  s : SpecSt

/-- for every event of a history: the message it completes (if any) with the handler registrations in force then -/
def expected (c : BusId → Rx.Cfg) : SpecSt → (BusId → Rx.St) → List Ev → List (Option Expect)
  | _, _, [] => []
  | s, rx, .op o :: evs => none :: expected c (specStep s o) rx evs
  | s, rx, e :: evs =>
    ((rxTrack c rx e).2.map fun bm => ⟨bm.1, bm.2, s⟩) :: expected c s (rxTrack c rx e).1 evs

/-- the call made for a completed message is the right one -/
structure CallOk (k : Call) (e : Expect) : Prop where
  bus : k.bus = e.bus
  /-- exactly that message -/
  msg : k.msg = e.msg
  /-- the plain callback once iff one is set -/
  cb : k.cb = if e.s.cb e.bus then 1 else 0
  /-- no handler twice -/
  nodup : k.hs.Nodup
  /-- exactly the handlers attached to that bus and registered for PGN 0 or the message's PGN -/
  mem : ∀ i, i ∈ k.hs ↔ e.s.matching e.bus e.msg.pgn i
  /-- in the order of the list: handlers for all PGNs before the handlers of the PGN -/
  order : k.hs.Pairwise fun i j => specPgn e.s i ≤ specPgn e.s j

/-- event by event: a call is made exactly when a message was completed, and it is the right call -/
def CallsAgree : List (Option Call) → List (Option Expect) → Prop
  | [], [] => True
  | none :: ks, none :: es => CallsAgree ks es
  | some k :: ks, some e :: es => CallOk k e ∧ CallsAgree ks es
  | _, _ => False

end N2k.Handlers
