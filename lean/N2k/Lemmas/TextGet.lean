import N2k.Lemmas.TextBasic
/-! Read side of `N2k.Model.Text` (C16): `GetStr` (both overloads), `N2kUCS2ToUTF8`, `GetVarStr` never fault,
for any payload, index and destination size; exact content of the destination for `GetStr`. Core Lean only. -/
namespace N2k.Text

/-- `k` payload bytes from index `i` -/
def slice (d : D) : Nat → Nat → List Nat
  | _, 0 => []
  | i, k + 1 => d i :: slice d (i + 1) k

@[simp] theorem slice_length (d : D) (i k : Nat) : (slice d i k).length = k := by
  induction k generalizing i with
  | zero => rfl
  | succ k ih => simp [slice, ih]

/-- what the `GetStr` loops store: the bytes up to the first NUL / `nul` character, zeros afterwards -/
def stripGo (nul : Nat) : Bool → List Nat → List Nat
  | _, [] => []
  | true, _ :: t => 0 :: stripGo nul true t
  | false, b :: t => if b = 0 ∨ b = nul then 0 :: stripGo nul true t else b :: stripGo nul false t

@[simp] theorem stripGo_length (nul : Nat) (nr : Bool) (l : List Nat) : (stripGo nul nr l).length = l.length := by
  induction l generalizing nr with
  | nil => cases nr <;> rfl
  | cons b t ih =>
    cases nr with
    | true => simp [stripGo, ih]
    | false => simp only [stripGo]; split <;> simp [ih]

theorem getByte_ok (m : Msg) (idx : Nat) (h : idx < m.len) : getByte m idx = .ok (m.data idx, idx + 1) := by
  simp [getByte, rd, h]

theorem getByte_end (m : Msg) (idx : Nat) (h : ¬ idx < m.len) : getByte m idx = .ok (0xff, idx) := by
  simp [getByte, h]

theorem blit_upd_same (d : D) (i v : Nat) (l : List Nat) (h : 0 < l.length) :
    blit (upd d i v) i l = blit d i l := by
  funext j
  simp only [blit, upd]
  by_cases h1 : i ≤ j ∧ j < i + l.length
  · rw [if_pos h1, if_pos h1]
  · rw [if_neg h1, if_neg h1]
    have : j ≠ i := by omega
    simp [this]

theorem upd_eq_blit (d : D) (i b : Nat) : upd d i b = blit d i [b] := by
  rw [← blit_cons, blit_nil]

theorem gs2Loop_eq (m : Msg) (n nul : Nat) (k i : Nat) (nr : Bool) (idx : Nat) (dst : D)
    (hr : idx + k ≤ m.len) (hw : i + k ≤ n) :
    gs2Loop m n nul k i nr idx dst
      = .ok (i + k, idx + k, blit dst i (stripGo nul nr (slice m.data idx k))) := by
  induction k generalizing i nr idx dst with
  | zero => cases nr <;> simp [gs2Loop, slice, stripGo]
  | succ k ih =>
    have h1 : idx < m.len := by omega
    have h2 : i < n := by omega
    simp only [gs2Loop, getByte_ok m idx h1, bind_ok, slice]
    cases nr with
    | true =>
      simp only [Bool.not_true, Bool.false_eq_true, if_false, wd_ok h2, bind_ok, stripGo]
      rw [ih (i + 1) true (idx + 1) _ (by omega) (by omega), blit_cons]
      simp only [Except.ok.injEq, Prod.mk.injEq]
      exact ⟨by omega, by omega, trivial⟩
    | false =>
      simp only [Bool.not_false, if_true, stripGo]
      by_cases hz : m.data idx = 0 ∨ m.data idx = nul
      · simp only [if_pos hz, wd_ok h2, bind_ok]
        rw [ih (i + 1) true (idx + 1) _ (by omega) (by omega), blit_cons]
        simp only [Except.ok.injEq, Prod.mk.injEq]
        exact ⟨by omega, by omega, trivial⟩
      · simp only [if_neg hz, wd_ok h2, bind_ok]
        rw [ih (i + 1) false (idx + 1) _ (by omega) (by omega), blit_cons]
        simp only [Except.ok.injEq, Prod.mk.injEq]
        exact ⟨by omega, by omega, trivial⟩

theorem skipBytes_eq (m : Msg) (k idx : Nat) (h : idx + k ≤ m.len) : skipBytes m k idx = .ok (idx + k) := by
  induction k generalizing idx with
  | zero => rfl
  | succ k ih =>
    have h1 : idx < m.len := by omega
    simp only [skipBytes, getByte_ok m idx h1, bind_ok]
    rw [ih (idx + 1) (by omega)]
    congr 1; omega

theorem zeroFill_eq (n k i : Nat) (dst : D) (h : i + k ≤ n) :
    zeroFill n k i dst = .ok (blit dst i (List.replicate k 0)) := by
  induction k generalizing i dst with
  | zero => simp [zeroFill]
  | succ k ih =>
    have h2 : i < n := by omega
    simp only [zeroFill, wd_ok h2, bind_ok]
    rw [ih (i + 1) _ (by omega), blit_cons, List.replicate_succ]

/-- content of a destination of `n > 0` bytes after a successful sized `GetStr` -/
def getStr2Out (m : Msg) (n length nul idx : Nat) : List Nat :=
  stripGo nul false (slice m.data idx (min length (n - 1))) ++ List.replicate (n - min length (n - 1)) 0

theorem getStr2Out_length (m : Msg) (n length nul idx : Nat) (hn : 0 < n) :
    (getStr2Out m n length nul idx).length = n := by
  simp [getStr2Out]; omega

/-- successful sized `GetStr`: exact result -/
theorem getStr2_eq (m : Msg) (n : Nat) (dst : D) (length nul idx : Nat) (hn : 0 < n)
    (hfit : idx + length ≤ m.len) :
    getStr2 m n dst length nul idx = .ok (true, idx + length, blit dst 0 (getStr2Out m n length nul idx)) := by
  have hn0 : ¬ n = 0 := by omega
  simp only [getStr2, if_neg hn0, wd_ok hn, bind_ok, if_pos hfit]
  have hcnt : (if length < n - 1 then length else n - 1) = min length (n - 1) := by split <;> omega
  rw [hcnt]
  generalize hc : min length (n - 1) = cnt
  rw [gs2Loop_eq m n nul cnt 0 false idx _ (by omega) (by omega)]
  simp only [bind_ok, Nat.zero_add]
  rw [wd_ok (by omega : cnt < n), bind_ok, skipBytes_eq m (length - cnt) (idx + cnt) (by omega), bind_ok]
  generalize hS : stripGo nul false (slice m.data idx cnt) = S
  have hSl : S.length = cnt := by subst hS; simp
  have key : ∀ R : List Nat, blit (upd (blit (upd dst 0 0) 0 S) cnt 0) cnt (0 :: R) = blit dst 0 (S ++ 0 :: R) := by
    intro R
    rw [blit_upd_same _ _ _ _ (by simp)]
    have := blit_append' (upd dst 0 0) 0 cnt S (0 :: R) hSl
    simp only [Nat.zero_add] at this
    rw [this, blit_upd_same _ _ _ _ (by simp; omega)]
  by_cases hlt : cnt < length
  · -- stopped by the buffer size: cnt = n-1 and length ≥ n, nothing left to zero
    have hz : n - length = 0 := by omega
    have hr : n - cnt = 1 := by omega
    rw [if_pos hlt, hz]
    simp only [zeroFill, bind_ok, pure_eq, getStr2Out, hc, hS, hr]
    have := key []
    rw [← upd_eq_blit] at this
    have e : upd (upd (blit (upd dst 0 0) 0 S) cnt 0) cnt 0 = upd (blit (upd dst 0 0) 0 S) cnt 0 := by
      funext j; simp only [upd]; split <;> rfl
    rw [e] at this
    rw [this]
    simp only [List.replicate_succ, List.replicate_zero, Except.ok.injEq, Prod.mk.injEq, true_and, and_true]
    omega
  · rw [if_neg hlt]
    have hcl : cnt = length := by omega
    obtain ⟨r, hr⟩ : ∃ r, n - cnt = r + 1 := ⟨n - cnt - 1, by omega⟩
    rw [zeroFill_eq n (n - cnt) cnt _ (by omega)]
    simp only [bind_ok, pure_eq, getStr2Out, hc, hS, hr, List.replicate_succ]
    rw [key]
    congr 3; omega

/-- a non-empty destination holds a NUL -/
def Terminated (n : Nat) (dst : D) : Prop := 0 < n → ∃ i, i < n ∧ dst i = 0

theorem blit_append_head (d : D) (i : Nat) (S : List Nat) (b : Nat) (R : List Nat) :
    blit d i (S ++ b :: R) (i + S.length) = b := by
  rw [← blit_append]
  have := blit_in (blit d i S) (i + S.length) (b :: R) 0 (by simp)
  simpa using this

theorem upd_same (d : D) (i v : Nat) : upd d i v i = v := by simp [upd]

/-- sized `GetStr`: never faults, for any payload / index / length / destination size, and terminates -/
theorem getStr2_safe (m : Msg) (n : Nat) (dst : D) (length nul idx : Nat) :
    ∃ r idx' dst', getStr2 m n dst length nul idx = .ok (r, idx', dst') ∧ Terminated n dst' := by
  by_cases hn : n = 0
  · subst hn
    exact ⟨true, idx + length, dst, by simp [getStr2], fun h => absurd h (by omega)⟩
  · have hn' : 0 < n := by omega
    by_cases hfit : idx + length ≤ m.len
    · refine ⟨true, idx + length, _, getStr2_eq m n dst length nul idx hn' hfit, fun _ => ?_⟩
      refine ⟨min length (n - 1), by omega, ?_⟩
      obtain ⟨r, hr⟩ : ∃ r, n - min length (n - 1) = r + 1 := ⟨n - min length (n - 1) - 1, by omega⟩
      simp only [getStr2Out, hr, List.replicate_succ]
      have := blit_append_head dst 0 (stripGo nul false (slice m.data idx (min length (n - 1)))) 0 (List.replicate r 0)
      simpa using this
    · refine ⟨false, idx, upd dst 0 0, by simp [getStr2, hn, wd_ok hn', hfit], fun _ => ⟨0, hn', upd_same _ _ _⟩⟩

/-! ### unsized `GetStr` -/

theorem blit_self1 (d : D) (i b : Nat) (h : d i = b) : blit d i [b] = d := by
  rw [← upd_eq_blit]; funext j; simp only [upd]; split
  · subst_vars; rfl
  · rfl

theorem gs1Loop_eq (m : Msg) (n : Nat) (k i : Nat) (nr : Bool) (idx : Nat) (dst : D)
    (hr : idx + k ≤ m.len) (hw : i + k + 1 ≤ n) (h0 : dst i = 0) :
    gs1Loop m n k i nr idx dst
      = .ok (idx + k, blit dst i (stripGo 0x40 nr (slice m.data idx k) ++ [0])) := by
  induction k generalizing i nr idx dst with
  | zero => cases nr <;> simp [gs1Loop, slice, stripGo, blit_self1 dst i 0 h0]
  | succ k ih =>
    have h1 : idx < m.len := by omega
    have h2 : i < n := by omega
    have h3 : i + 1 < n := by omega
    have step : ∀ (x : Nat) (nr' : Bool),
        gs1Loop m n k (i + 1) nr' (idx + 1) (upd (upd dst i x) (i + 1) 0)
          = .ok (idx + (k + 1), blit dst i (x :: (stripGo 0x40 nr' (slice m.data (idx + 1) k) ++ [0]))) := by
      intro x nr'
      rw [ih (i + 1) nr' (idx + 1) _ (by omega) (by omega) (upd_same _ _ _),
        blit_upd_same _ _ _ _ (by simp), blit_cons]
      congr 2; omega
    simp only [gs1Loop, getByte_ok m idx h1, bind_ok, slice]
    cases nr with
    | true =>
      simp only [Bool.not_true, Bool.false_eq_true, if_false, wd_ok h2, wd_ok h3, bind_ok, stripGo]
      exact step 0 true
    | false =>
      simp only [Bool.not_false, if_true, stripGo]
      by_cases hz : m.data idx = 0 ∨ m.data idx = 0x40
      · simp only [if_pos hz, wd_ok h2, wd_ok h3, bind_ok]
        exact step 0 true
      · simp only [if_neg hz, wd_ok h2, wd_ok h3, bind_ok]
        exact step _ false

/-- unsized `GetStr` on a destination of at least `Length+1` bytes (its contract) -/
theorem getStr1_eq (m : Msg) (n : Nat) (dst : D) (length idx : Nat) (hn : length + 1 ≤ n) :
    getStr1 m n dst length idx =
      if idx + length ≤ m.len then
        .ok (true, idx + length, blit dst 0 (stripGo 0x40 false (slice m.data idx length) ++ [0]))
      else .ok (false, idx, upd dst 0 0) := by
  have h0 : 0 < n := by omega
  simp only [getStr1, wd_ok h0, bind_ok]
  split
  · rename_i hfit
    rw [gs1Loop_eq m n length 0 false idx _ (by omega) (by omega) (upd_same _ _ _)]
    simp only [bind_ok, pure_eq]
    rw [blit_upd_same _ _ _ _ (by simp)]
  · rfl

theorem getStr1_safe (m : Msg) (n : Nat) (dst : D) (length idx : Nat) (hn : length + 1 ≤ n) :
    ∃ r idx' dst', getStr1 m n dst length idx = .ok (r, idx', dst') ∧ Terminated n dst' := by
  rw [getStr1_eq m n dst length idx hn]
  split
  · refine ⟨_, _, _, rfl, fun _ => ⟨length, by omega, ?_⟩⟩
    have := blit_append_head dst 0 (stripGo 0x40 false (slice m.data idx length)) 0 []
    simpa using this
  · exact ⟨_, _, _, rfl, fun h => ⟨0, h, upd_same _ _ _⟩⟩

/-! ### `N2kUCS2ToUTF8` and `GetVarStr` -/

theorem c2uLoop_ok (m : Msg) (base strLen n bufLen nul : Nat) (hb : bufLen < n) (hr : base + strLen ≤ m.len)
    (f i ulen : Nat) (dst : D) (hf : 1 ≤ f) (hfuel : i + 1 < strLen → strLen + 3 ≤ i + 2 * f)
    (hu : ulen ≤ bufLen) :
    ∃ dst' ulen', c2uLoop m base strLen n bufLen nul f i ulen dst = .ok (dst', ulen') ∧ ulen' ≤ bufLen := by
  induction f generalizing i ulen dst with
  | zero => omega
  | succ f ih =>
    by_cases hc : i + 1 < strLen ∧ ulen < bufLen
    · have hf2 : 1 ≤ f := by have := hfuel hc.1; omega
      have hnext : ∀ i', (i' = i + 2 ∨ i' = strLen + 2) → (i' + 1 < strLen → strLen + 3 ≤ i' + 2 * f) := by
        intro i' h h'; have := hfuel hc.1; omega
      have r1 : rd m (base + i) = .ok (m.data (base + i)) := by simp [rd]; omega
      have r2 : rd m (base + i + 1) = .ok (m.data (base + i + 1)) := by simp [rd]; omega
      simp only [c2uLoop, if_pos hc, r1, r2, bind_ok]
      generalize (m.data (base + i) + m.data (base + i + 1) <<< 8) % 65536 = c
      have w0 : ulen < n := by omega
      by_cases c1 : c < 0x80
      · simp only [if_pos c1, wd_ok w0, bind_ok]
        exact ih (i + 2) _ _ hf2 (hnext _ (Or.inl rfl)) (by split <;> omega)
      · simp only [if_neg c1]
        by_cases c2 : c < 0x800
        · simp only [if_pos c2]
          by_cases hroom : ulen + 1 < bufLen
          · have w1 : ulen + 1 < n := by omega
            simp only [if_pos hroom, wd_ok w0, wd_ok w1, bind_ok]
            exact ih (i + 2) _ _ hf2 (hnext _ (Or.inl rfl)) (by omega)
          · simp only [if_neg hroom]
            exact ih (strLen + 2) _ _ hf2 (hnext _ (Or.inr rfl)) hu
        · simp only [if_neg c2]
          by_cases hroom : ulen + 2 < bufLen
          · have w1 : ulen + 1 < n := by omega
            have w2 : ulen + 2 < n := by omega
            simp only [if_pos hroom, wd_ok w0, wd_ok w1, wd_ok w2, bind_ok]
            exact ih (i + 2) _ _ hf2 (hnext _ (Or.inl rfl)) (by omega)
          · simp only [if_neg hroom]
            exact ih (strLen + 2) _ _ hf2 (hnext _ (Or.inr rfl)) hu
    · exact ⟨dst, ulen, by simp [c2uLoop, if_neg hc], hu⟩

theorem ucs2ToUTF8_safe (m : Msg) (base strLen n : Nat) (dst : D) (nul : Nat) (hr : base + strLen ≤ m.len) :
    ∃ dst' ulen, ucs2ToUTF8 m base strLen n dst nul = .ok (dst', ulen) ∧ Terminated n dst' := by
  by_cases hn : n = 0
  · subst hn; exact ⟨dst, 0, by simp [ucs2ToUTF8], fun h => absurd h (by omega)⟩
  · obtain ⟨d1, u1, h1, h2⟩ := c2uLoop_ok m base strLen n (n - 1) nul (by omega) hr (strLen + 1) 0 0 dst
      (by omega) (by omega) (by omega)
    have hw : u1 < n := by omega
    exact ⟨upd d1 u1 0, u1, by simp [ucs2ToUTF8, hn, h1, wd_ok hw], fun _ => ⟨u1, hw, upd_same _ _ _⟩⟩

theorem getByte_total (m : Msg) (idx : Nat) :
    ∃ v idx', getByte m idx = .ok (v, idx') ∧ idx ≤ idx' := by
  by_cases h : idx < m.len
  · exact ⟨_, _, getByte_ok m idx h, by omega⟩
  · exact ⟨_, _, getByte_end m idx h, by omega⟩

/-- `GetVarStr`: never faults, for ANY payload (length byte, type byte, content), index and destination -/
theorem getVarStr_safe (m : Msg) (n : Nat) (dst : D) (nul idx : Nat) :
    ∃ r sz idx' dst', getVarStr m n dst nul idx = .ok (r, sz, idx', dst') ∧ Terminated n dst' := by
  obtain ⟨len, i1, hg1, _⟩ := getByte_total m idx
  obtain ⟨type, i2, hg2, _⟩ := getByte_total m i1
  simp only [getVarStr, hg1, hg2, bind_ok]
  by_cases hinv : len ≤ 2 ∨ len = 0xff ∨ type > 1 ∨ i2 ≥ m.len
  · simp only [if_pos hinv]
    by_cases hn : n > 0
    · simp only [if_pos hn, wd_ok hn, bind_ok]
      split
      · exact ⟨_, _, _, _, rfl, fun _ => ⟨0, hn, upd_same _ _ _⟩⟩
      · exact ⟨_, _, _, _, rfl, fun _ => ⟨0, hn, upd_same _ _ _⟩⟩
    · simp only [if_neg hn, bind_ok, pure_eq]
      split
      · exact ⟨_, _, _, _, rfl, fun h => absurd h hn⟩
      · exact ⟨_, _, _, _, rfl, fun h => absurd h hn⟩
  · simp only [if_neg hinv]
    generalize hl : (if len - 2 + i2 > m.len then m.len - i2 else len - 2) = len'
    have hfit : i2 + len' ≤ m.len := by subst hl; split <;> omega
    by_cases hn : n > 0
    · simp only [if_pos hn]
      by_cases ht : type = 0x01
      · simp only [if_pos ht, getStr2_eq m n dst len' nul i2 hn hfit, bind_ok]
        obtain ⟨_, _, _, h1, h2⟩ := getStr2_safe m n dst len' nul i2
        rw [getStr2_eq m n dst len' nul i2 hn hfit] at h1
        injection h1 with h1
        injection h1 with _ h1
        injection h1 with _ h1
        exact ⟨_, _, _, _, rfl, h1 ▸ h2⟩
      · obtain ⟨d1, u1, h1, h2⟩ := ucs2ToUTF8_safe m i2 len' n dst nul hfit
        simp only [if_neg ht, h1, bind_ok]
        exact ⟨_, _, _, _, rfl, h2⟩
    · simp only [if_neg hn]
      exact ⟨_, _, _, _, rfl, fun h => absurd h hn⟩

end N2k.Text

namespace N2k.Text

/-- `GetVarStr` on a destination of size 0 (the size query) writes nothing at all -/
theorem getVarStr_zero (m : Msg) (dst : D) (nul idx : Nat) :
    ∃ r sz idx', getVarStr m 0 dst nul idx = .ok (r, sz, idx', dst) := by
  obtain ⟨len, i1, hg1, _⟩ := getByte_total m idx
  obtain ⟨type, i2, hg2, _⟩ := getByte_total m i1
  have hn : ¬ (0 > 0) := by omega
  simp only [getVarStr, hg1, hg2, bind_ok, if_neg hn, pure_eq]
  split
  · split
    · exact ⟨_, _, _, rfl⟩
    · exact ⟨_, _, _, rfl⟩
  · exact ⟨_, _, _, rfl⟩

end N2k.Text
