import N2k.Model.IsoRequest
import N2k.Lemmas.HeartbeatShiftSend
import N2k.Lemmas.IsoRequestFrame
/-!
# Clock-origin shift of the ISO-request responder and the pending-information timers (C13)

`Node.shift k n` is the node of `Model/IsoRequest.lean` when the whole scenario is run with the clock `k` ms ahead:
the send-path state is shifted (`St.shift`: clock, `OpenScheduler`, every device's claim timer) and so are the two
pending-information timers of every device. `SendPendingInformation`, the ISO-request responder and one
`ParseMessages` poll (`pollRq`) commute with the shift: the shifted run hands the same messages to `SendMsg`
and ends in the shifted state, provided no deadline lands on the all-ones "disabled" value in either run
(`Node.ShiftOk` for the stored ones, `PendClockOk` for the ones armed in this step).
-/
namespace N2k.IsoRequest
open N2k.Send N2k.Time

/-! ## definitions -/

def DevX.shift (f : Flavor) (k : Nat) (x : DevX) : DevX :=
  { x with pendProd := x.pendProd.shift f k, pendConf := x.pendConf.shift f k }

def Node.shift (k : Nat) (n : Node) : Node :=
  { n with st := n.st.shift k, ext := n.ext.map (DevX.shift n.st.flavor k) }

/-- no stored deadline (send path, pending product / configuration information) collides with the "disabled" value
when shifted -/
def Node.ShiftOk (k : Nat) (n : Node) : Prop :=
  n.st.ShiftOk k ∧ ∀ x ∈ n.ext, x.pendProd.ShiftOk n.st.flavor k ∧ x.pendConf.ShiftOk n.st.flavor k

/-- The clock hypothesis of one step. At the node's clock `n.st.now`, neither in the original nor in the run shifted by
`k`, does a `FromNow(d)` land on the all-ones "disabled" value (32-bit build), and the shifted 64-bit clock plus `d`
stays below 2^64-1 (64-bit build), for every delay `d` the step can arm:
* the library's 200 / 250 / 1000 ms (`ClockOk`, needed by `SendMsg`'s claim-window gate), and
* for every device `d` of the node, `187 + d.source*8` ms (`SetPendingProductInformation`) and
  `187 + d.source*10` ms (`SetPendingConfigurationInformation`).
It depends on the clock, the flavour and the devices' addresses only, none of which a poll changes. -/
def PendClockOk (k : Nat) (n : Node) : Prop :=
  ClockOk n.st.flavor k n.st.now ∧
  ∀ d ∈ n.st.devs, ArmOk n.st.flavor k n.st.now (187 + d.source * 8) ∧
                   ArmOk n.st.flavor k n.st.now (187 + d.source * 10)

/-- the devices' addresses -/
def srcs (s : St) : List Nat := s.devs.map (fun d => d.source)

/-- frame facts: clock, flavour and the devices' addresses are not touched -/
def Frame (n n' : Node) : Prop :=
  n'.st.now = n.st.now ∧ n'.st.flavor = n.st.flavor ∧ srcs n'.st = srcs n.st

/-- `a'` is the outcome in the shifted run of an action whose outcome in the original run, started at `n`, is `a` -/
def Rel (k : Nat) (n : Node) (a a' : Node × List OutMsg) : Prop :=
  a'.1 = a.1.shift k ∧ a'.2 = a.2 ∧ a.1.ShiftOk k ∧ Frame n a.1

theorem Frame.refl (n : Node) : Frame n n := ⟨rfl, rfl, rfl⟩

theorem Frame.trans {a b c : Node} (h1 : Frame a b) (h2 : Frame b c) : Frame a c :=
  ⟨h2.1.trans h1.1, h2.2.1.trans h1.2.1, h2.2.2.trans h1.2.2⟩

theorem PendClockOk.frame {k : Nat} {n n' : Node} (h : PendClockOk k n) (hf : Frame n n') : PendClockOk k n' := by
  obtain ⟨e1, e2, e3⟩ := hf
  unfold PendClockOk
  rw [e1, e2]
  refine ⟨h.1, fun d hd => ?_⟩
  have hm : d.source ∈ srcs n'.st := List.mem_map.mpr ⟨d, hd, rfl⟩
  rw [e3] at hm
  obtain ⟨d0, hd0, e⟩ := List.mem_map.mp hm
  have e' : d0.source = d.source := e
  rw [← e']; exact h.2 d0 hd0

theorem Rel.refl {k : Nat} {n : Node} (ho : n.ShiftOk k) (l : List OutMsg) : Rel k n (n, l) (n.shift k, l) :=
  ⟨rfl, rfl, ho, Frame.refl n⟩

/-! ## frame facts of the send path -/

theorem srcs_of_sameSt {a b : St} (h : SameSt a b) : srcs b = srcs a := by
  have := congrArg (List.map Prod.fst) h.2.2.2
  rw [List.map_map, List.map_map] at this
  exact this

theorem sendMsg_srcs (s : St) (m : Msg) (dev : Option Nat) : srcs (sendMsg s m dev).1 = srcs s :=
  srcs_of_sameSt (N2k.IsoRequest.sendMsg_same s m dev)

theorem srcs_updDev {l : List Dev} {i : Nat} {d0 d : Dev} (h : l[i]? = some d0) (hs : d.source = d0.source) :
    (updDev l i d).map (fun d => d.source) = l.map (fun d => d.source) :=
  map_set_same _ l i d0 d h hs

/-! ## helpers on nodes -/

theorem shift_withSt {k : Nat} {n : Node} {s' : St} (f1 : s'.flavor = n.st.flavor) :
    ({ n.shift k with st := s'.shift k } : Node) = Node.shift k { n with st := s' } := by
  unfold Node.shift
  simp only [f1]

theorem shiftOk_withSt {k : Nat} {n : Node} {s' : St} (ho : n.ShiftOk k) (os : s'.ShiftOk k)
    (f1 : s'.flavor = n.st.flavor) : Node.ShiftOk k { n with st := s' } := by
  refine ⟨os, fun x hx => ?_⟩
  have := ho.2 x hx
  rw [← f1] at this
  exact this

theorem sendPlain_shift {k : Nat} {n : Node} (i : Nat) (m : Msg) (hc : PendClockOk k n) (ho : n.ShiftOk k) :
    Rel k n (sendPlain n i m) (sendPlain (n.shift k) i m) := by
  obtain ⟨es, os, n1, f1, _⟩ := sendMsg_shift m (some i) hc.1 ho.1
  unfold Rel sendPlain
  refine ⟨?_, rfl, shiftOk_withSt ho os f1, n1, f1, sendMsg_srcs _ _ _⟩
  show ({ n.shift k with st := (sendMsg (n.st.shift k) m (some i)).1 } : Node) = _
  rw [es]
  exact shift_withSt f1

theorem sendAll_shift {k : Nat} (i : Nat) : ∀ (ms : List Msg) {n : Node}, PendClockOk k n → n.ShiftOk k →
    Rel k n (sendAll n i ms) (sendAll (n.shift k) i ms)
  | [], n, _, ho => Rel.refl ho []
  | m :: t, n, hc, ho => by
    obtain ⟨e1, _, o1, fr1⟩ := sendPlain_shift i m hc ho
    obtain ⟨e2, e3, o2, fr2⟩ := sendAll_shift i t (hc.frame fr1) o1
    unfold Rel
    dsimp only [sendAll]
    rw [e1]
    exact ⟨e2, by rw [e3], o2, fr1.trans fr2⟩

theorem Rel.andThen {k : Nat} {n : Node} {a a' : Node × List OutMsg} {f f' : Node → Node × List OutMsg}
    (hc : PendClockOk k n) (ha : Rel k n a a')
    (hf : PendClockOk k a.1 → a.1.ShiftOk k → Rel k a.1 (f a.1) (f' (a.1.shift k))) :
    Rel k n (andThen a f) (andThen a' f') := by
  obtain ⟨e1, e2, o1, fr1⟩ := ha
  obtain ⟨e3, e4, o2, fr2⟩ := hf (hc.frame fr1) o1
  unfold Rel IsoRequest.andThen
  dsimp only
  rw [e1, e2]
  exact ⟨e3, by rw [e4], o2, fr1.trans fr2⟩

/-! ## the pending-information timers -/

theorem updExt_shift {k : Nat} {n : Node} {i : Nat} {g g' : DevX → DevX}
    (hg : ∀ x ∈ n.ext, g' (x.shift n.st.flavor k) = (g x).shift n.st.flavor k) :
    updExt (n.shift k) i g' = (updExt n i g).shift k := by
  unfold updExt
  have e : (n.shift k).ext[i]? = (n.ext[i]?).map (DevX.shift n.st.flavor k) := by simp [Node.shift]
  rw [e]
  cases hx : n.ext[i]? with
  | none => rfl
  | some x =>
    simp only [Option.map_some]
    show ({ n.shift k with ext := (n.ext.map (DevX.shift n.st.flavor k)).set i (g' (x.shift _ k)) } : Node) = _
    rw [hg x (List.mem_of_getElem? hx), ← List.map_set]; rfl

theorem updExt_ok {k : Nat} {n : Node} {i : Nat} {g : DevX → DevX} (ho : n.ShiftOk k)
    (hg : ∀ x ∈ n.ext, (g x).pendProd.ShiftOk n.st.flavor k ∧ (g x).pendConf.ShiftOk n.st.flavor k) :
    (updExt n i g).ShiftOk k := by
  unfold updExt
  cases hx : n.ext[i]? with
  | none => exact ho
  | some x =>
    refine ⟨ho.1, fun y hy => ?_⟩
    rcases List.mem_or_eq_of_mem_set hy with h | h
    · exact ho.2 y h
    · subst h; exact hg x (List.mem_of_getElem? hx)

theorem updExt_st (n : Node) (i : Nat) (g : DevX → DevX) : (updExt n i g).st = n.st := by
  unfold updExt; split <;> rfl

theorem afterProd_shift {k : Nat} {s : St} {ok : Bool} {src : Nat} {x : DevX}
    (ha : ArmOk s.flavor k s.now (187 + src * 8))
    (hx : x.pendProd.ShiftOk s.flavor k ∧ x.pendConf.ShiftOk s.flavor k) :
    afterProd (s.shift k) ok src (x.shift s.flavor k) = (afterProd s ok src x).shift s.flavor k ∧
    (afterProd s ok src x).pendProd.ShiftOk s.flavor k ∧ (afterProd s ok src x).pendConf.ShiftOk s.flavor k := by
  have e5 : (s.shift k).flavor = s.flavor := rfl
  have e6 : (s.shift k).now = s.now + k := rfl
  unfold afterProd
  rw [e5, e6]
  cases ok
  · obtain ⟨ef, of⟩ := Sched.fromNow_shift ha
    simp only [Bool.false_eq_true, ↓reduceIte]
    refine ⟨?_, of, hx.2⟩
    simp only [DevX.shift, ef]
  · simp only [↓reduceIte]
    refine ⟨?_, Sched.shiftOk_disabled _ _, hx.2⟩
    simp only [updateHasPending, DevX.shift, Sched.shift_disabled, Sched.isEnabled_shift hx.2]

theorem afterConf_shift {k : Nat} {s : St} {ok : Bool} {src : Nat} {x : DevX}
    (ha : ArmOk s.flavor k s.now (187 + src * 10))
    (hx : x.pendProd.ShiftOk s.flavor k ∧ x.pendConf.ShiftOk s.flavor k) :
    afterConf (s.shift k) ok src (x.shift s.flavor k) = (afterConf s ok src x).shift s.flavor k ∧
    (afterConf s ok src x).pendProd.ShiftOk s.flavor k ∧ (afterConf s ok src x).pendConf.ShiftOk s.flavor k := by
  have e5 : (s.shift k).flavor = s.flavor := rfl
  have e6 : (s.shift k).now = s.now + k := rfl
  unfold afterConf
  rw [e5, e6]
  cases ok
  · obtain ⟨ef, of⟩ := Sched.fromNow_shift ha
    simp only [Bool.false_eq_true, ↓reduceIte]
    refine ⟨?_, hx.1, of⟩
    simp only [DevX.shift, ef]
  · simp only [↓reduceIte]
    refine ⟨?_, hx.1, Sched.shiftOk_disabled _ _⟩
    simp only [updateHasPending, DevX.shift, Sched.shift_disabled, Sched.isEnabled_shift hx.1]

/-- the common shape of `finishProd` / `finishConf` -/
theorem finish_shift {k : Nat} {n : Node} (i : Nat) (m : Msg) (after : St → Bool → DevX → DevX)
    (hc : PendClockOk k n) (ho : n.ShiftOk k)
    (hafter : ∀ (ok : Bool) (x : DevX), x ∈ n.ext →
      after (n.st.shift k) ok (x.shift n.st.flavor k) = (after n.st ok x).shift n.st.flavor k ∧
      (after n.st ok x).pendProd.ShiftOk n.st.flavor k ∧ (after n.st ok x).pendConf.ShiftOk n.st.flavor k) :
    Rel k n (updExt { n with st := (sendMsg n.st m (some i)).1 } i (after n.st (sendMsg n.st m (some i)).2), [⟨i, m⟩])
      (updExt { n.shift k with st := (sendMsg (n.st.shift k) m (some i)).1 } i
        (after (n.st.shift k) (sendMsg (n.st.shift k) m (some i)).2), [⟨i, m⟩]) := by
  obtain ⟨es, os, n1, f1, _⟩ := sendMsg_shift m (some i) hc.1 ho.1
  have hsr := sendMsg_srcs n.st m (some i)
  rw [es]
  dsimp only
  generalize (sendMsg n.st m (some i)).1 = s' at *
  generalize (sendMsg n.st m (some i)).2 = ok at *
  rw [shift_withSt f1]
  have o1 : Node.ShiftOk k { n with st := s' } := shiftOk_withSt ho os f1
  unfold Rel
  dsimp only
  refine ⟨?_, rfl, ?_, ?_⟩
  · apply updExt_shift
    intro x hx
    show after (n.st.shift k) ok (x.shift s'.flavor k) = (after n.st ok x).shift s'.flavor k
    rw [f1]; exact (hafter ok x hx).1
  · apply updExt_ok o1
    intro x hx
    show (after n.st ok x).pendProd.ShiftOk s'.flavor k ∧ (after n.st ok x).pendConf.ShiftOk s'.flavor k
    rw [f1]; exact (hafter ok x hx).2
  · unfold Frame; rw [updExt_st]; exact ⟨n1, f1, hsr⟩

theorem finishProd_shift {k : Nat} {n : Node} (i src : Nat) (m : Msg) (hc : PendClockOk k n) (ho : n.ShiftOk k)
    (ha : ArmOk n.st.flavor k n.st.now (187 + src * 8)) :
    Rel k n (finishProd n i src m, [⟨i, m⟩]) (finishProd (n.shift k) i src m, [⟨i, m⟩]) :=
  finish_shift i m (fun s ok => afterProd s ok src) hc ho (fun _ x hx => afterProd_shift ha (ho.2 x hx))

theorem finishConf_shift {k : Nat} {n : Node} (i src : Nat) (m : Msg) (hc : PendClockOk k n) (ho : n.ShiftOk k)
    (ha : ArmOk n.st.flavor k n.st.now (187 + src * 10)) :
    Rel k n (finishConf n i src m, [⟨i, m⟩]) (finishConf (n.shift k) i src m, [⟨i, m⟩]) :=
  finish_shift i m (fun s ok => afterConf s ok src) hc ho (fun _ x hx => afterConf_shift ha (ho.2 x hx))

theorem resolveProd_shift (f : Flavor) (k : Nat) (ext : List DevX) (i : Nat) :
    resolveProd (ext.map (DevX.shift f k)) i = resolveProd ext i := by
  unfold resolveProd
  have e : ∀ j : Nat, ((ext.map (DevX.shift f k))[j]?).bind (fun x : DevX => x.prod) =
      (ext[j]?).bind (fun x : DevX => x.prod) := by
    intro j; rw [List.getElem?_map]; cases ext[j]? <;> rfl
  rw [e i, e 0]

theorem devs_shift_get (k : Nat) (n : Node) (i : Nat) :
    (n.shift k).st.devs[i]? = (n.st.devs[i]?).map (Dev.shift n.st.flavor k) := by
  simp [Node.shift, St.shift]

theorem ext_shift_get (k : Nat) (n : Node) (i : Nat) :
    (n.shift k).ext[i]? = (n.ext[i]?).map (DevX.shift n.st.flavor k) := by
  simp [Node.shift]

theorem sendProductInformation_shift {k : Nat} {n : Node} (i : Nat) (hc : PendClockOk k n) (ho : n.ShiftOk k) :
    Rel k n (sendProductInformation n i) (sendProductInformation (n.shift k) i) := by
  unfold sendProductInformation
  have er : resolveProd (n.shift k).ext i = resolveProd n.ext i := resolveProd_shift _ _ _ _
  rw [devs_shift_get, er]
  cases hd : n.st.devs[i]? with
  | none => exact Rel.refl ho []
  | some d =>
    simp only [Option.map_some]
    cases hp : resolveProd n.ext i with
    | none => exact Rel.refl ho []
    | some p => exact finishProd_shift i d.source (productMsg d p) hc ho (hc.2 d (List.mem_of_getElem? hd)).1

theorem sendConfigurationInformation_shift {k : Nat} {n : Node} (i : Nat) (hc : PendClockOk k n) (ho : n.ShiftOk k) :
    Rel k n (sendConfigurationInformation n i) (sendConfigurationInformation (n.shift k) i) := by
  unfold sendConfigurationInformation
  rw [devs_shift_get]
  cases hd : n.st.devs[i]? with
  | none => exact Rel.refl ho []
  | some d =>
    simp only [Option.map_some]
    exact finishConf_shift i d.source (confOrNak d n.conf) hc ho (hc.2 d (List.mem_of_getElem? hd)).2

/-! ## the responder -/

theorem Rel.mono {k : Nat} {n n1 : Node} {a a' : Node × List OutMsg} (hf : Frame n n1) (h : Rel k n1 a a') :
    Rel k n a a' := ⟨h.1, h.2.1, h.2.2.1, hf.trans h.2.2.2⟩

theorem dflt_shift {k : Nat} {n : Node} (h : Option Handler) (rq : Nat) (ad : Bool) (pgn i : Nat)
    (hc : PendClockOk k n) (ho : n.ShiftOk k) :
    Rel k n (dflt n h rq ad pgn i) (dflt (n.shift k) h rq ad pgn i) := by
  unfold dflt
  cases h with
  | none =>
    dsimp only
    cases ad
    · simp only [Bool.false_eq_true, ↓reduceIte]; exact Rel.refl ho []
    · simp only [↓reduceIte]; exact sendPlain_shift i _ hc ho
  | some hd =>
    dsimp only
    by_cases h1 : (!ad && Gen.ignoreBroadcastISORequest.contains pgn) = true
    · simp only [if_pos h1]; exact Rel.refl ho []
    · simp only [if_neg h1]
      apply Rel.andThen hc (sendAll_shift i _ hc ho)
      intro hc1 ho1
      generalize (sendAll n i (hd.sends pgn rq i)).1 = n1 at hc1 ho1 ⊢
      by_cases h2 : hd.accept pgn rq i = true
      · simp only [if_pos h2]; exact Rel.refl ho1 []
      · simp only [if_neg h2]
        cases ad
        · simp only [Bool.false_eq_true, ↓reduceIte]; exact Rel.refl ho1 []
        · simp only [↓reduceIte]; exact sendPlain_shift i _ hc1 ho1

theorem answer_shift {k : Nat} {n : Node} (h : Option Handler) (rq : Nat) (ad : Bool) (pgn i : Nat) (d : Dev) (x : DevX)
    (hc : PendClockOk k n) (ho : n.ShiftOk k) :
    Rel k n (answer n h rq ad pgn i d x)
      (answer (n.shift k) h rq ad pgn i (d.shift n.st.flavor k) (x.shift n.st.flavor k)) := by
  unfold answer
  have e1 : claimMsg (d.shift n.st.flavor k) = claimMsg d := rfl
  have e2 : txListMsg (d.shift n.st.flavor k) rq = txListMsg d rq := rfl
  have e3 : rxListMsg (d.shift n.st.flavor k) (x.shift n.st.flavor k) rq = rxListMsg d x rq := rfl
  have e4 : (n.shift k).conf = n.conf := rfl
  rw [e1, e2, e3, e4]
  by_cases h1 : pgn = 60928
  · simp only [if_pos h1]; exact sendPlain_shift i _ hc ho
  · simp only [if_neg h1]
    by_cases h2 : pgn = 126464
    · simp only [if_pos h2]
      apply Rel.andThen hc (sendPlain_shift i _ hc ho)
      intro hc1 ho1
      exact sendPlain_shift i _ hc1 ho1
    · simp only [if_neg h2]
      by_cases h3 : pgn = 126996
      · simp only [if_pos h3]; exact sendProductInformation_shift i hc ho
      · simp only [if_neg h3]
        by_cases h4 : pgn = 126998 ∧ n.conf.any = true
        · simp only [if_pos h4]; exact sendConfigurationInformation_shift i hc ho
        · simp only [if_neg h4]; exact dflt_shift h rq ad pgn i hc ho

/-- the node after `IsAddressClaimStarted()` has been evaluated for device `i` -/
def claimed (n : Node) (i : Nat) (d : Dev) : Node := { n with st := n.st.withDev i d }

theorem respond_eq (n : Node) (h : Option Handler) (rq : Nat) (ad : Bool) (pgn i : Nat) :
    respond n h rq ad pgn i =
      match n.st.devs[i]?, n.ext[i]? with
      | some d0, some x =>
        if (isAddressClaimStarted n.st.flavor n.st.now d0).2 then
          (claimed n i (isAddressClaimStarted n.st.flavor n.st.now d0).1, [])
        else answer (claimed n i (isAddressClaimStarted n.st.flavor n.st.now d0).1) h rq ad pgn i
          (isAddressClaimStarted n.st.flavor n.st.now d0).1 x
      | _, _ => (n, []) := rfl

theorem claimed_shift (k : Nat) (n : Node) (i : Nat) (d : Dev) :
    claimed (n.shift k) i (d.shift n.st.flavor k) = (claimed n i d).shift k := by
  show ({ n.shift k with st := (n.st.shift k).withDev i (d.shift n.st.flavor k) } : Node) =
    Node.shift k { n with st := n.st.withDev i d }
  rw [← St.withDev_shift]; exact shift_withSt rfl

theorem claimed_frame {n : Node} {i : Nat} {d0 d : Dev} (hd : n.st.devs[i]? = some d0) (hs : d.source = d0.source) :
    Frame n (claimed n i d) := ⟨rfl, rfl, srcs_updDev hd hs⟩

theorem claimed_ok {k : Nat} {n : Node} {i : Nat} {d : Dev} (ho : n.ShiftOk k)
    (hd : d.claimTimer.ShiftOk n.st.flavor k) : (claimed n i d).ShiftOk k :=
  ⟨St.withDev_ok ho.1 hd, ho.2⟩

theorem respond_shift {k : Nat} {n : Node} (h : Option Handler) (rq : Nat) (ad : Bool) (pgn i : Nat)
    (hc : PendClockOk k n) (ho : n.ShiftOk k) :
    Rel k n (respond n h rq ad pgn i) (respond (n.shift k) h rq ad pgn i) := by
  rw [respond_eq, respond_eq, devs_shift_get, ext_shift_get]
  cases hd : n.st.devs[i]? with
  | none => exact Rel.refl ho []
  | some d0 =>
    cases hx : n.ext[i]? with
    | none => exact Rel.refl ho []
    | some x =>
      simp only [Option.map_some]
      have e5 : (n.shift k).st.flavor = n.st.flavor := rfl
      have e6 : (n.shift k).st.now = n.st.now + k := rfl
      have hd0 := ho.1.2 d0 (List.mem_of_getElem? hd)
      obtain ⟨ea, eo⟩ := isAddressClaimStarted_shift (now := n.st.now) hc.1 hd0
      rw [e5, e6, ea]
      dsimp only
      rw [claimed_shift]
      have fr := claimed_frame (n := n) (i := i) hd (ics_source n.st.flavor n.st.now d0)
      have o1 := claimed_ok (i := i) ho eo
      by_cases hic : (isAddressClaimStarted n.st.flavor n.st.now d0).2 = true
      · simp only [if_pos hic]; exact ⟨rfl, rfl, o1, fr⟩
      · simp only [if_neg hic]
        exact Rel.mono fr (answer_shift h rq ad pgn i _ x (hc.frame fr) o1)

theorem respondAll_shift {k : Nat} (h : Option Handler) (rq pgn : Nat) : ∀ (l : List Nat) {n : Node},
    PendClockOk k n → n.ShiftOk k → Rel k n (respondAll h rq pgn l n) (respondAll h rq pgn l (n.shift k))
  | [], _, _, ho => Rel.refl ho []
  | i :: t, n, hc, ho => by
    dsimp only [respondAll]
    apply Rel.andThen hc (respond_shift h rq false pgn i hc ho)
    intro hc1 ho1
    exact respondAll_shift h rq pgn t hc1 ho1

theorem findSourceDeviceIndex_shift (f : Flavor) (k : Nat) (devs : List Dev) (src : Nat) :
    findSourceDeviceIndex (devs.map (Dev.shift f k)) src = findSourceDeviceIndex devs src := by
  unfold findSourceDeviceIndex
  rw [List.findIdx?_map]; rfl

theorem handleISORequest_shift {k : Nat} {n : Node} (m : Msg) (h : Option Handler)
    (hc : PendClockOk k n) (ho : n.ShiftOk k) :
    Rel k n (handleISORequest n m h) (handleISORequest (n.shift k) m h) := by
  unfold handleISORequest
  have el : (n.shift k).st.devs.length = n.st.devs.length := by simp [Node.shift, St.shift]
  have ef : findSourceDeviceIndex (n.shift k).st.devs m.dst = findSourceDeviceIndex n.st.devs m.dst :=
    findSourceDeviceIndex_shift _ _ _ _
  rw [el, ef]
  by_cases h1 : m.dst = 255
  · simp only [if_pos h1]; exact respondAll_shift h m.src (requestedPGN m) _ hc ho
  · simp only [if_neg h1]
    cases findSourceDeviceIndex n.st.devs m.dst with
    | none => exact Rel.refl ho []
    | some i => exact respond_shift h m.src true (requestedPGN m) i hc ho

theorem handleReceived_rel {k : Nat} {n : Node} (m : Msg) (h : Option Handler)
    (hc : PendClockOk k n) (ho : n.ShiftOk k) :
    Rel k n (handleReceived n m h) (handleReceived (n.shift k) m h) := by
  unfold handleReceived
  have e : (n.shift k).st.claimMode = n.st.claimMode := rfl
  rw [e]
  by_cases h1 : n.st.claimMode = true
  · simp only [if_pos h1]; exact handleISORequest_shift m h hc ho
  · simp only [if_neg h1]; exact Rel.refl ho []

/-! ## pending information -/

theorem pendingDev_shift {k : Nat} {n : Node} (i : Nat) (hc : PendClockOk k n) (ho : n.ShiftOk k) :
    Rel k n (pendingDev n i) (pendingDev (n.shift k) i) := by
  unfold pendingDev
  rw [ext_shift_get]
  cases hx : n.ext[i]? with
  | none => exact Rel.refl ho []
  | some x =>
    simp only [Option.map_some]
    have eh : (x.shift n.st.flavor k).hasPending = x.hasPending := rfl
    rw [eh]
    by_cases hp : x.hasPending = true
    · simp only [if_pos hp]
      apply Rel.andThen hc
      · have et : (x.shift n.st.flavor k).pendProd.isTime (n.shift k).st.flavor (n.shift k).st.now =
            x.pendProd.isTime n.st.flavor n.st.now :=
          Sched.isTime_shift (ho.2 x (List.mem_of_getElem? hx)).1 (clock64 hc.1)
        rw [et]
        by_cases h1 : x.pendProd.isTime n.st.flavor n.st.now = true
        · simp only [if_pos h1]; exact sendProductInformation_shift i hc ho
        · simp only [if_neg h1]; exact Rel.refl ho []
      · intro hc1 ho1
        generalize (if x.pendProd.isTime n.st.flavor n.st.now = true then sendProductInformation n i else (n, [])).1 = n1
          at hc1 ho1 ⊢
        rw [ext_shift_get]
        cases hx1 : n1.ext[i]? with
        | none => exact Rel.refl ho1 []
        | some x1 =>
          simp only [Option.map_some]
          have et : (x1.shift n1.st.flavor k).pendConf.isTime (n1.shift k).st.flavor (n1.shift k).st.now =
              x1.pendConf.isTime n1.st.flavor n1.st.now :=
            Sched.isTime_shift (ho1.2 x1 (List.mem_of_getElem? hx1)).2 (clock64 hc1.1)
          rw [et]
          by_cases h1 : x1.pendConf.isTime n1.st.flavor n1.st.now = true
          · simp only [if_pos h1]; exact sendConfigurationInformation_shift i hc1 ho1
          · simp only [if_neg h1]; exact Rel.refl ho1 []
    · simp only [if_neg hp]; exact Rel.refl ho []

theorem pendingAll_shift {k : Nat} : ∀ (l : List Nat) {n : Node},
    PendClockOk k n → n.ShiftOk k → Rel k n (pendingAll l n) (pendingAll l (n.shift k))
  | [], _, _, ho => Rel.refl ho []
  | i :: t, n, hc, ho => by
    dsimp only [pendingAll]
    apply Rel.andThen hc (pendingDev_shift i hc ho)
    intro hc1 ho1
    exact pendingAll_shift t hc1 ho1

theorem sendPendingInformation_rel {k : Nat} {n : Node} (hc : PendClockOk k n) (ho : n.ShiftOk k) :
    Rel k n (sendPendingInformation n) (sendPendingInformation (n.shift k)) := by
  unfold sendPendingInformation
  have el : (n.shift k).st.devs.length = n.st.devs.length := by simp [Node.shift, St.shift]
  rw [el]
  exact pendingAll_shift _ hc ho

/-! ## one poll -/

/-- `SendFrames()` at the head of `ParseMessages` -/
def preflush (n : Node) : Node :=
  { n with st := { n.st with ring := (sendFrames n.st.ring n.st.drv).1, drv := (sendFrames n.st.ring n.st.drv).2.1 } }

/-- `SendHeartbeat`'s claim-timer bookkeeping at the tail of `ParseMessages` -/
def finalize (n : Node) : Node :=
  { n with st := { n.st with devs :=
      if n.st.claimMode then n.st.devs.map (fun d => (isAddressClaimStarted n.st.flavor n.st.now d).1) else n.st.devs } }

theorem pollWith_eq (n : Node) (act : Node → Node × List OutMsg) :
    pollWith n act = (finalize (andThen (sendPendingInformation (preflush n)) act).1,
                      (andThen (sendPendingInformation (preflush n)) act).2) := rfl

theorem preflush_shift (k : Nat) (n : Node) : preflush (n.shift k) = (preflush n).shift k := rfl

theorem preflush_frame (n : Node) : Frame n (preflush n) := ⟨rfl, rfl, rfl⟩

theorem preflush_ok {k : Nat} {n : Node} (ho : n.ShiftOk k) : (preflush n).ShiftOk k := ho

theorem finalize_shift {k : Nat} {n : Node} (hc : PendClockOk k n) (ho : n.ShiftOk k) :
    finalize (n.shift k) = (finalize n).shift k ∧ (finalize n).ShiftOk k ∧ Frame n (finalize n) := by
  have hmap : (n.st.devs.map (Dev.shift n.st.flavor k)).map
        (fun d => (isAddressClaimStarted n.st.flavor (n.st.now + k) d).1) =
      (n.st.devs.map (fun d => (isAddressClaimStarted n.st.flavor n.st.now d).1)).map (Dev.shift n.st.flavor k) := by
    rw [List.map_map, List.map_map]
    apply List.map_congr_left
    intro d hd
    simp only [Function.comp]
    rw [(isAddressClaimStarted_shift hc.1 (ho.1.2 d hd)).1]
  have hok : ∀ d ∈ n.st.devs.map (fun d => (isAddressClaimStarted n.st.flavor n.st.now d).1),
      d.claimTimer.ShiftOk n.st.flavor k := by
    intro d hd
    obtain ⟨d0, hd0, rfl⟩ := List.mem_map.mp hd
    exact (isAddressClaimStarted_shift hc.1 (ho.1.2 d0 hd0)).2
  have hsrc : (n.st.devs.map (fun d => (isAddressClaimStarted n.st.flavor n.st.now d).1)).map (fun d => d.source) =
      n.st.devs.map (fun d => d.source) := by
    rw [List.map_map]
    apply List.map_congr_left
    intro d _
    exact ics_source _ _ _
  unfold finalize Frame srcs
  have e3 : (n.shift k).st.claimMode = n.st.claimMode := rfl
  have e4 : (n.shift k).st.devs = n.st.devs.map (Dev.shift n.st.flavor k) := rfl
  have e5 : (n.shift k).st.flavor = n.st.flavor := rfl
  have e6 : (n.shift k).st.now = n.st.now + k := rfl
  simp only [e3, e4, e5, e6]
  by_cases hm : n.st.claimMode = true
  · simp only [if_pos hm, hmap]
    exact ⟨by triv, ⟨⟨ho.1.1, hok⟩, ho.2⟩, by triv, by triv, hsrc⟩
  · simp only [if_neg hm]
    exact ⟨by triv, ho, by triv, by triv, by triv⟩

theorem pollWith_shift {k : Nat} {n : Node} (act act' : Node → Node × List OutMsg)
    (hact : ∀ n2 : Node, PendClockOk k n2 → n2.ShiftOk k → Rel k n2 (act n2) (act' (n2.shift k)))
    (hc : PendClockOk k n) (ho : n.ShiftOk k) :
    Rel k n (pollWith n act) (pollWith (n.shift k) act') := by
  rw [pollWith_eq, pollWith_eq, preflush_shift]
  have hc0 := hc.frame (preflush_frame n)
  have o0 := preflush_ok ho
  have hr : Rel k (preflush n) (andThen (sendPendingInformation (preflush n)) act)
      (andThen (sendPendingInformation ((preflush n).shift k)) act') :=
    Rel.andThen hc0 (sendPendingInformation_rel hc0 o0) (fun hc1 ho1 => hact _ hc1 ho1)
  obtain ⟨e1, e2, o1, fr1⟩ := hr
  obtain ⟨e3, o3, fr3⟩ := finalize_shift (hc0.frame fr1) o1
  unfold Rel
  dsimp only
  rw [e1, e2, e3]
  exact ⟨rfl, rfl, o3, (preflush_frame n).trans (fr1.trans fr3)⟩

theorem pollRq_rel {k : Nat} {n : Node} (rq : Option Msg) (h : Option Handler)
    (hc : PendClockOk k n) (ho : n.ShiftOk k) :
    Rel k n (pollRq n rq h) (pollRq (n.shift k) rq h) := by
  unfold pollRq
  apply pollWith_shift _ _ _ hc ho
  intro n2 hc2 ho2
  cases rq with
  | none => exact Rel.refl ho2 []
  | some m => exact handleReceived_rel m h hc2 ho2

/-! ## the results in equational form -/

theorem Rel.eq {k : Nat} {n : Node} {a a' : Node × List OutMsg} (h : Rel k n a a') : a' = (a.1.shift k, a.2) :=
  Prod.ext h.1 h.2.1

/-- what every step below preserves -/
def Kept (k : Nat) (n n' : Node) : Prop :=
  n'.ShiftOk k ∧ n'.st.now = n.st.now ∧ n'.st.flavor = n.st.flavor ∧
  n'.st.devs.map (fun d => d.source) = n.st.devs.map (fun d => d.source) ∧ PendClockOk k n'

theorem Rel.kept {k : Nat} {n : Node} {a a' : Node × List OutMsg} (hc : PendClockOk k n) (h : Rel k n a a') :
    Kept k n a.1 := ⟨h.2.2.1, h.2.2.2.1, h.2.2.2.2.1, h.2.2.2.2.2, hc.frame h.2.2.2⟩

/-- **`SendPendingInformation()` commutes with a shift of the clock origin**: same messages handed to `SendMsg`,
shifted state; the hypotheses hold again afterwards -/
theorem sendPendingInformation_shift {k : Nat} {n : Node} (hc : PendClockOk k n) (ho : n.ShiftOk k) :
    sendPendingInformation (n.shift k) = ((sendPendingInformation n).1.shift k, (sendPendingInformation n).2) ∧
    (sendPendingInformation n).1.ShiftOk k ∧ Kept k n (sendPendingInformation n).1 :=
  have h := sendPendingInformation_rel hc ho
  ⟨h.eq, h.2.2.1, h.kept hc⟩

/-- **the handling of a received ISO request commutes with the shift**, for every message and request handler -/
theorem handleReceived_shift {k : Nat} {n : Node} (m : Msg) (h : Option Handler)
    (hc : PendClockOk k n) (ho : n.ShiftOk k) :
    handleReceived (n.shift k) m h = ((handleReceived n m h).1.shift k, (handleReceived n m h).2) ∧
    (handleReceived n m h).1.ShiftOk k ∧ Kept k n (handleReceived n m h).1 :=
  have hr := handleReceived_rel m h hc ho
  ⟨hr.eq, hr.2.2.1, hr.kept hc⟩

/-- **one `ParseMessages()` with at most one received ISO request commutes with the shift**: the run with the clock
`k` ms ahead hands the same messages to `SendMsg`, in the same order, and ends in the shifted state -/
theorem pollRq_shift {k : Nat} {n : Node} (rq : Option Msg) (h : Option Handler)
    (hc : PendClockOk k n) (ho : n.ShiftOk k) :
    pollRq (n.shift k) rq h = ((pollRq n rq h).1.shift k, (pollRq n rq h).2) ∧
    (pollRq n rq h).1.ShiftOk k ∧ (pollRq n rq h).1.st.now = n.st.now ∧
    (pollRq n rq h).1.st.flavor = n.st.flavor ∧ Kept k n (pollRq n rq h).1 :=
  have hr := pollRq_rel rq h hc ho
  ⟨hr.eq, hr.2.2.1, hr.2.2.2.1, hr.2.2.2.2.1, hr.kept hc⟩

/-- the same for any action in the place of the received message (e.g. a handler proved elsewhere) -/
theorem pollWith_shift_eq {k : Nat} {n : Node} (act act' : Node → Node × List OutMsg)
    (hact : ∀ n2 : Node, PendClockOk k n2 → n2.ShiftOk k → Rel k n2 (act n2) (act' (n2.shift k)))
    (hc : PendClockOk k n) (ho : n.ShiftOk k) :
    pollWith (n.shift k) act' = ((pollWith n act).1.shift k, (pollWith n act).2) ∧ Kept k n (pollWith n act).1 :=
  have hr := pollWith_shift act act' hact hc ho
  ⟨hr.eq, hr.kept hc⟩

/-- a poll moves the clock by nothing; the next poll happens `dt` ms later in both runs: the shifted node with its
clock advanced is the advanced node shifted -/
theorem shift_advance (k dt : Nat) (n : Node) :
    ({ n.shift k with st := { (n.shift k).st with now := (n.shift k).st.now + dt } } : Node) =
      Node.shift k { n with st := { n.st with now := n.st.now + dt } } := by
  show ({ n.shift k with st := { (n.shift k).st with now := n.st.now + k + dt } } : Node) = _
  unfold Node.shift St.shift
  simp only [Nat.add_right_comm]

/-! ## the hypotheses are decidable and satisfiable (a 32-bit clock that wraps under the shift) -/

instance (k : Nat) (n : Node) : Decidable (PendClockOk k n) := by unfold PendClockOk; exact inferInstance
instance (k : Nat) (s : St) : Decidable (s.ShiftOk k) := by unfold St.ShiftOk; exact inferInstance
instance (k : Nat) (n : Node) : Decidable (n.ShiftOk k) := by unfold Node.ShiftOk; exact inferInstance

/-- one device at address 22 whose product information is pending, 296 ms before the 32-bit clock wraps -/
def exNode (f : Flavor) : Node :=
  { st := { flavor := f, now := 4294967000, listenOnly := false, claimMode := true, lists := {},
            devs := [{ source := 22, name := 5, claimTimer := Sched.disabled f, endSource := 21 }],
            ring := { n := 4, buf := fun _ => ⟨0, 0, []⟩, read := 0, write := 0 },
            drv := { script := [false], dflt := true, sent := [] } },
    ext := [{ pendProd := Sched.fromNow f 4294966000 363, pendConf := Sched.disabled f, hasPending := true }] }

example : PendClockOk 1000 (exNode .t32) ∧ (exNode .t32).ShiftOk 1000 := by decide
example : PendClockOk 1000 (exNode .t64) ∧ (exNode .t64).ShiftOk 1000 := by decide

end N2k.IsoRequest
