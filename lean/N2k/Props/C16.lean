import N2k.Lemmas.TextBuf
/-!
# C16 — Text fields never overrun a buffer and round-trip their content

Property theorems only. The model is `N2k.Text` (`Model/Text.lean`, transcribing `AddStr`/`SetBufStr`,
`AddAISStr`, `AddVarStr`, both `GetStr` overloads, `GetVarStr`, `N2kRequireUnicode`, `N2kUTF8ToUCS2`,
`N2kUTF8ToASCII`, `N2kUCS2ToUTF8` of `N2kMsg.cpp` as fixed in the verification worktree). All memory is checked:
a run that returns `.ok` performed no write at a payload index ≥ 223, no write at a destination index ≥ its
size, no read behind the terminating NUL of the source string and no payload read at an index ≥ `DataLen`.
`blit d i L` is the memory `d` with the list `L` stored from index `i` on; `.at s` is the C string `s ++ [0]`.

Every theorem quantifies over ALL source bytes `s` (any length, invalid / truncated UTF-8 included; if `s`
contains a 0 the string ends there), all stale payload contents `d`, all initial destination contents `dst`.
-/
namespace N2k.C16
open N2k.Text

/-! ## adding never leaves the payload or the source string -/

/-- **C16_add_safe.** For every source string, every fill level 0..223 and every maximum: `AddAISStr` and
`AddVarStr` (both unicode policies, both length units) run without any out-of-bounds access, leave
`DataLen ≤ 223` and do not touch the bytes below the fill level; `AddStr` likewise (any fill character)
whenever the maximum fits the remaining payload. -/
theorem C16_add_safe (s : List Nat) (fill max : Nat) (d : D) (hfill : fill ≤ MaxDataLen) :
    (∃ m', addAISStr ⟨d, fill⟩ (.at s) max = .ok m' ∧ m'.len ≤ MaxDataLen ∧ ∀ j, j < fill → m'.data j = d j) ∧
    (∀ uni chars, ∃ m', addVarStr ⟨d, fill⟩ (.at s) max uni chars = .ok m' ∧ m'.len ≤ MaxDataLen ∧
      ∀ j, j < fill → m'.data j = d j) ∧
    (∀ fc, fill + max ≤ MaxDataLen →
      ∃ m', addStr ⟨d, fill⟩ (.at s) max fc = .ok m' ∧ m'.len ≤ MaxDataLen ∧ ∀ j, j < fill → m'.data j = d j) := by
  refine ⟨⟨_, addAISStr_eq s max fill d hfill, ?_, fun j hj => blit_lt _ _ _ _ hj⟩, ?_, ?_⟩
  · show fill + min max (MaxDataLen - fill) ≤ MaxDataLen
    omega
  · intro uni chars
    obtain ⟨L, hL, _, h⟩ := addVarStr_spec s fill max uni chars hfill
    exact ⟨_, h d, by show fill + L.length ≤ MaxDataLen; omega, fun j hj => blit_lt _ _ _ _ hj⟩
  · intro fc hfit
    exact ⟨_, addStr_eq s max fill fc d hfit, hfit, fun j hj => blit_lt _ _ _ _ hj⟩

example : (220 : Nat) + 3 ≤ MaxDataLen := by decide

/-- Why `AddStr` has the precondition: it does not clamp. Two characters into a payload with one free byte
write at index 223. -/
theorem C16_addStr_overflow_witness :
    addStr ⟨fun _ => 0, 222⟩ (.at [0x41, 0x42]) 2 0xff = .error (.payloadWrite 223) := by
  rfl

/-! ## well-formed fields -/

/-- **C16_wellformed** (variable-length field). The bytes `AddVarStr` appends are one list `L` that does NOT
depend on what the payload held before (no stale byte is counted into the field), `DataLen` advances by
exactly `L.length`, and `L` is a well-formed field: nothing if the payload is full, the single byte 1 if one
byte is free, otherwise `length :: type :: body` with `length = 2 + body.length` (a byte, it fits the free
payload), `type` 0 (UCS-2) exactly when unicode is supported, the text contains a complete multi-byte UTF-8
character (`N2kRequireUnicode`) and more than the header fits, else 1 (ASCII); a UCS-2 body has an even
length within the maximum (bytes, or 2 × characters), an ASCII body is within the maximum, and text that
does not require unicode is stored verbatim, cut to the maximum and the free payload. -/
theorem C16_wellformed (s : List Nat) (fill maxLen : Nat) (uni chars : Bool) (hfill : fill ≤ MaxDataLen) :
    ∃ L : List Nat,
      (∀ d, addVarStr ⟨d, fill⟩ (.at s) maxLen uni chars = .ok ⟨blit d fill L, fill + L.length⟩) ∧
      ((MaxDataLen - fill = 0 ∧ L = []) ∨ (MaxDataLen - fill = 1 ∧ L = [1]) ∨
       (2 ≤ MaxDataLen - fill ∧ ∃ type body, L = (body.length + 2) :: type :: body ∧
          body.length + 2 ≤ MaxDataLen - fill ∧ body.length + 2 < 256 ∧
          (type = 0 ↔ (uni = true ∧ requireUnicode (.at s) = .ok true ∧ 2 < MaxDataLen - fill)) ∧
          (type = 0 ∨ type = 1) ∧
          (type = 0 → body.length % 2 = 0 ∧ body.length ≤ (if chars then maxLen * 2 else maxLen)) ∧
          (type = 1 → body.length ≤ maxLen) ∧
          (requireUnicode (.at s) = .ok false →
            body = s.take (min (min (nz s) maxLen) (MaxDataLen - fill - 2))))) := by
  obtain ⟨L, _, hshape, h⟩ := addVarStr_spec s fill maxLen uni chars hfill
  refine ⟨L, h, ?_⟩
  rcases hshape with h0 | h1 | ⟨h2, type, body, e, hb, rest⟩
  · exact Or.inl h0
  · exact Or.inr (Or.inl h1)
  · refine Or.inr (Or.inr ⟨h2, type, body, e, hb, ?_, rest⟩)
    have : MaxDataLen = 223 := rfl
    omega

/-- **C16_wellformed_fixed.** `AddStr` appends exactly `len` bytes (the text up to its terminator, cut to
`len`, then the fill character) and `AddAISStr` exactly `min len free` bytes (the filtered text, then '@'),
whatever the payload held before. -/
theorem C16_wellformed_fixed (s : List Nat) (fill len : Nat) (d : D) :
    (∀ fc, fill + len ≤ MaxDataLen →
      addStr ⟨d, fill⟩ (.at s) len fc = .ok ⟨blit d fill (strField s len fc), fill + len⟩ ∧
      (strField s len fc).length = len ∧
      strField s len fc = s.take (min len (nz s)) ++ List.replicate (len - min len (nz s)) fc) ∧
    (fill ≤ MaxDataLen →
      addAISStr ⟨d, fill⟩ (.at s) len
        = .ok ⟨blit d fill (aisField s len (MaxDataLen - fill)), fill + min len (MaxDataLen - fill)⟩ ∧
      (aisField s len (MaxDataLen - fill)).length = min len (MaxDataLen - fill) ∧
      ∃ k r, aisField s len (MaxDataLen - fill) = (s.take k).map aisChar ++ List.replicate r 0x40) :=
  ⟨fun fc h => ⟨addStr_eq s len fill fc d h, strField_length s len fc, rfl⟩,
   fun h => ⟨addAISStr_eq s len fill d h, aisField_length s len _, _, _, rfl⟩⟩

example : (0 : Nat) + 20 ≤ MaxDataLen ∧ (0 : Nat) ≤ MaxDataLen := by decide

/-! ## reading never leaves the destination or the payload -/

/-- **C16_get_safe.** For every message (any payload bytes, any `DataLen`, so any length byte 0..255 and any
type byte 0..255), every index, every field length, every null character and every destination size
*including 0*: the sized `GetStr` and `GetVarStr` run without any out-of-bounds access (no write at an index
≥ the destination size, no payload read at an index ≥ `DataLen`) and a non-empty destination holds a NUL
afterwards. The unsized `GetStr(char*,size_t,int&)` has no size parameter; its contract is a destination of
`Length+1` bytes, and with that it is safe as well. -/
theorem C16_get_safe (m : Msg) (n : Nat) (dst : D) (length nul idx : Nat) :
    (∃ r idx' dst', getStr2 m n dst length nul idx = .ok (r, idx', dst') ∧ (0 < n → ∃ i, i < n ∧ dst' i = 0)) ∧
    (∃ r sz idx' dst', getVarStr m n dst nul idx = .ok (r, sz, idx', dst') ∧ (0 < n → ∃ i, i < n ∧ dst' i = 0)) ∧
    (length + 1 ≤ n →
      ∃ r idx' dst', getStr1 m n dst length idx = .ok (r, idx', dst') ∧ ∃ i, i < n ∧ dst' i = 0) := by
  refine ⟨getStr2_safe m n dst length nul idx, getVarStr_safe m n dst nul idx, fun h => ?_⟩
  obtain ⟨r, idx', dst', h1, h2⟩ := getStr1_safe m n dst length idx h
  exact ⟨r, idx', dst', h1, h2 (by omega)⟩

example : (7 : Nat) + 1 ≤ 8 := by decide

/-- **C16_get_size_query.** With a destination of size 0 (`GetVarStr` used as a size query: it then reports the
bytes the string needs in `StrBufSize`) nothing at all is written, for any payload. -/
theorem C16_get_size_query (m : Msg) (dst : D) (nul idx : Nat) :
    ∃ r sz idx', getVarStr m 0 dst nul idx = .ok (r, sz, idx', dst) :=
  getVarStr_zero m dst nul idx

/-- **C16_get_zero_untouched.** A destination of size 0 is never written by the sized `GetStr` either, whatever
the payload, the index and the field length (every exit: field fits, field does not fit). -/
theorem C16_get_zero_untouched (m : Msg) (dst : D) (length nul idx : Nat) :
    getStr2 m 0 dst length nul idx = .ok (true, idx + length, dst) := by
  simp [getStr2]

/-- Why the unsized `GetStr` needs `Length+1` bytes: with exactly `Length` bytes it writes one byte too far. -/
theorem C16_getStr1_contract_witness :
    (getStr1 ⟨fun _ => 0x41, 3⟩ 2 (fun _ => 1) 2 0).toOption.isNone = true ∧
    (match getStr1 ⟨fun _ => 0x41, 3⟩ 2 (fun _ => 1) 2 0 with
      | .error (.destWrite 2 2) => True
      | _ => False) := by
  exact ⟨rfl, trivial⟩

/-! ## round trips

`textOf n dst` is the C string in a destination of `n` bytes (the bytes before its first NUL). -/

/-- **C16_roundtrip_fixed.** Text free of NUL and of the padding character 0xff, added with `AddStr` (default
fill) into a field of `max` bytes that fits the payload and read with `GetStr(size, buf, max, 0xff, Index)`
into any non-empty destination, comes back as the text cut to the field (`max`) and to the destination (`n-1`). -/
theorem C16_roundtrip_fixed (s : List Nat) (hs : ∀ b ∈ s, b ≠ 0 ∧ b ≠ 0xff) (fill max n : Nat) (d dst : D)
    (hfit : fill + max ≤ MaxDataLen) (hn : 0 < n) :
    ∃ m' dst', addStr ⟨d, fill⟩ (.at s) max 0xff = .ok m' ∧ m'.len = fill + max ∧
      getStr2 m' n dst max 0xff fill = .ok (true, fill + max, dst') ∧
      textOf n dst' = (s.take max).take (n - 1) :=
  rt_str s hs fill max n d dst hfit hn

example : (∀ b ∈ [0x41, 0x42], b ≠ 0 ∧ b ≠ 0xff) ∧ (3 : Nat) + 20 ≤ MaxDataLen ∧ 0 < 8 := by decide

/-- **C16_roundtrip_ais.** Text free of NUL and of '@', added with `AddAISStr` at ANY fill level with ANY
maximum and read with `GetStr(size, buf, <bytes added>, '@', Index)`: every character comes back upper-cased,
characters outside 0x20..0x5F replaced by '?', cut to the field (`min max free`) and the destination. -/
theorem C16_roundtrip_ais (s : List Nat) (hs : ∀ b ∈ s, b ≠ 0 ∧ b ≠ 0x40) (fill max n : Nat) (d dst : D)
    (hfill : fill ≤ MaxDataLen) (hn : 0 < n) :
    ∃ m' dst', addAISStr ⟨d, fill⟩ (.at s) max = .ok m' ∧ m'.len = fill + min max (MaxDataLen - fill) ∧
      getStr2 m' n dst (m'.len - fill) 0x40 fill = .ok (true, m'.len, dst') ∧
      textOf n dst' = ((s.take (min max (MaxDataLen - fill))).map aisChar).take (n - 1) :=
  rt_ais s hs fill max n d dst hfill hn

/-- what "upper-cased, out-of-alphabet replaced" means, on every byte -/
theorem C16_aisChar_spec (b : Nat) :
    aisChar b = (if 0x61 ≤ b ∧ b ≤ 0x7A then b - 0x20 else if 0x20 ≤ b ∧ b ≤ 0x5F then b else 0x3F) := by
  simp only [aisChar]
  split <;> split <;> (try split) <;> omega

/-- **C16_roundtrip_var_ascii.** ASCII text (1..0x7F) through `AddVarStr` (any policy, any unit, any maximum,
ANY fill level) and `GetVarStr` comes back unchanged, cut to the maximum, to the free payload behind the
2-byte header, and to the destination. -/
theorem C16_roundtrip_var_ascii (s : List Nat) (hs : ∀ b ∈ s, b ≠ 0 ∧ b < 0x80) (fill maxLen n : Nat)
    (uni chars : Bool) (d dst : D) (hfill : fill ≤ MaxDataLen) (hn : 0 < n) :
    ∃ m' r sz idx' dst', addVarStr ⟨d, fill⟩ (.at s) maxLen uni chars = .ok m' ∧
      getVarStr m' n dst 0xff fill = .ok (r, sz, idx', dst') ∧
      textOf n dst' = (s.take (min maxLen (MaxDataLen - fill - 2))).take (n - 1) := by
  by_cases h : fill + 2 ≤ MaxDataLen
  · obtain ⟨m', r, sz, idx', dst', h1, _, h2, h3⟩ := rt_var_ascii s hs fill maxLen n uni chars d dst h hn
    exact ⟨m', r, sz, idx', dst', h1, h2, h3⟩
  · obtain ⟨m', r, sz, idx', dst', h1, h2, h3⟩ := rt_var_tiny s fill maxLen n uni chars d dst hfill (by omega) hn
    refine ⟨m', r, sz, idx', dst', h1, h2, ?_⟩
    have : MaxDataLen - fill - 2 = 0 := by omega
    rw [h3, this]; simp

/-- **C16_roundtrip_var_unicode.** Well-formed UTF-8 text (`utf8 cs`: non-NUL ASCII, non-overlong 2- and 3-byte
sequences, 4-byte sequences) containing at least one multi-byte character, through `AddVarStr` with unicode
support (any unit, any maximum, ANY fill level) and `GetVarStr`: stored as UCS-2 (type 0) and read back as the
same bytes — 2- and 3-byte sequences preserved, every 4-byte sequence (beyond the BMP) replaced by '?' — cut to
whole characters: as many as fit the maximum / the free payload at two bytes each, then as many as fit `n-1`
destination bytes. -/
theorem C16_roundtrip_var_unicode (cs : List Chr) (hwf : ∀ c ∈ cs, c.WF) (hmb : ∃ c ∈ cs, c.isAscii = false)
    (fill maxLen n : Nat) (chars : Bool) (d dst : D) (hfill : fill ≤ MaxDataLen) (hn : 0 < n) :
    ∃ m' r sz idx' dst', addVarStr ⟨d, fill⟩ (.at (utf8 cs)) maxLen true chars = .ok m' ∧
      getVarStr m' n dst 0xff fill = .ok (r, sz, idx', dst') ∧
      textOf n dst' = (fitPrefix (n - 1) (cs.take (min cs.length
        ((min (MaxDataLen - fill - 2) (if chars then maxLen * 2 else maxLen)) / 2)))).flatMap Chr.back := by
  by_cases h : 2 < MaxDataLen - fill
  · obtain ⟨m', r, sz, idx', dst', h1, _, h2, h3⟩ := rt_var_unicode cs hwf hmb fill maxLen n chars d dst h hn
    exact ⟨m', r, sz, idx', dst', h1, h2, h3⟩
  · obtain ⟨m', r, sz, idx', dst', h1, h2, h3⟩ :=
      rt_var_tiny (utf8 cs) fill maxLen n true chars d dst hfill (by omega) hn
    refine ⟨m', r, sz, idx', dst', h1, h2, ?_⟩
    have : MaxDataLen - fill - 2 = 0 := by omega
    rw [h3, this]; simp [fitPrefix]

/-- **C16_roundtrip_var_forceascii.** The same text into an ASCII-only field (`vss_ForceASCII`): ASCII
characters unchanged, every multi-byte character stored and read back as one '?'. -/
theorem C16_roundtrip_var_forceascii (cs : List Chr) (hwf : ∀ c ∈ cs, c.WF) (hmb : ∃ c ∈ cs, c.isAscii = false)
    (fill maxLen n : Nat) (chars : Bool) (d dst : D) (hfill : fill ≤ MaxDataLen) (hn : 0 < n) :
    ∃ m' r sz idx' dst', addVarStr ⟨d, fill⟩ (.at (utf8 cs)) maxLen false chars = .ok m' ∧
      getVarStr m' n dst 0xff fill = .ok (r, sz, idx', dst') ∧
      textOf n dst' = ((cs.take (min maxLen (MaxDataLen - fill - 2))).map Chr.asc).take (n - 1) := by
  by_cases h : 2 < MaxDataLen - fill
  · obtain ⟨m', r, sz, idx', dst', h1, _, h2, h3⟩ := rt_var_forceascii cs hwf hmb fill maxLen n chars d dst h hn
    exact ⟨m', r, sz, idx', dst', h1, h2, h3⟩
  · obtain ⟨m', r, sz, idx', dst', h1, h2, h3⟩ :=
      rt_var_tiny (utf8 cs) fill maxLen n false chars d dst hfill (by omega) hn
    refine ⟨m', r, sz, idx', dst', h1, h2, ?_⟩
    have : MaxDataLen - fill - 2 = 0 := by omega
    rw [h3, this]; simp

/-- the hypotheses are satisfiable, and the statements compute: "é€A😀" is `C3 A9 · E2 82 AC · 41 · F0 9F 98 80` -/
example :
    let cs := [Chr.two 3 41, Chr.three 2 2 44, Chr.a 0x41, Chr.four 0 31 24 0]
    (∀ c ∈ cs, c.WF) ∧ (∃ c ∈ cs, c.isAscii = false) ∧
    utf8 cs = [0xC3, 0xA9, 0xE2, 0x82, 0xAC, 0x41, 0xF0, 0x9F, 0x98, 0x80] ∧
    cs.flatMap Chr.back = [0xC3, 0xA9, 0xE2, 0x82, 0xAC, 0x41, 0x3F] := by
  simp [Chr.WF, Chr.isAscii, utf8, Chr.bytes, Chr.back]

/-- the model itself, run on that text with a 20-byte destination -/
example :
    (do let m ← addVarStr ⟨fun _ => 0xAA, 5⟩ (.at [0xC3, 0xA9, 0xE2, 0x82, 0xAC, 0x41, 0xF0, 0x9F, 0x98, 0x80]) 255 true false
        let r ← getVarStr m 20 (fun _ => 0xCD) 0xff 5
        pure (m.len, textOf 20 r.2.2.2))
      = .ok (15, [0xC3, 0xA9, 0xE2, 0x82, 0xAC, 0x41, 0x3F]) := by
  rfl

/-! ## `AddVarStr(str)` (the two-argument form) -/

/-- **C16_addVarStr2_safe.** `AddVarStr(str)` (= maximum 5000 bytes, unicode supported) at every fill level, for
every source string — of length 0, 1, 253, 254, more than 254, longer than the free payload, invalid UTF-8 —
never faults, keeps `DataLen ≤ 223`, changes nothing below the fill level, and appends a payload-independent
list `L` (so nothing behind the field changes either) whose first byte, if any, is its own length. -/
theorem C16_addVarStr2_safe (s : List Nat) (fill : Nat) (hfill : fill ≤ MaxDataLen) :
    ∃ L : List Nat, fill + L.length ≤ MaxDataLen ∧ (∀ x, L.head? = some x → x = L.length) ∧
      ∀ d, addVarStr2 ⟨d, fill⟩ (.at s) = .ok ⟨blit d fill L, fill + L.length⟩ := by
  obtain ⟨L, hL, hshape, h⟩ := addVarStr_spec s fill 5000 true false hfill
  refine ⟨L, by omega, ?_, h⟩
  rcases hshape with ⟨_, rfl⟩ | ⟨_, rfl⟩ | ⟨_, type, body, rfl, _⟩
  · simp
  · simp
  · simp

/-- **C16_roundtrip_addVarStr2_ascii.** `GetVarStr(AddVarStr s) = s` for ASCII text that fits the free payload
behind the two header bytes and the destination (with its terminator). -/
theorem C16_roundtrip_addVarStr2_ascii (s : List Nat) (hs : ∀ b ∈ s, b ≠ 0 ∧ b < 0x80) (fill n : Nat) (d dst : D)
    (hfit : fill + 2 + s.length ≤ MaxDataLen) (hn : s.length + 1 ≤ n) :
    ∃ m' r sz idx' dst', addVarStr2 ⟨d, fill⟩ (.at s) = .ok m' ∧ m'.len = fill + 2 + s.length ∧
      (∀ j, j < fill → m'.data j = d j) ∧
      getVarStr3 m' n dst fill = .ok (r, sz, idx', dst') ∧ textOf n dst' = s := by
  have hM : MaxDataLen = 223 := rfl
  obtain ⟨m', r, sz, idx', dst', h1, _, h2, h3⟩ :=
    rt_var_ascii s hs fill 5000 n true false d dst (by omega) (by omega)
  obtain ⟨L, _, hshape, hadd⟩ := addVarStr_spec s fill 5000 true false (by omega)
  have hm := (hadd d).symm.trans h1
  injection hm with hm
  have hbody := requireUnicode_ascii s (fun b hb => (hs b hb).2)
  have hnz := nz_clean s (fun b hb => (hs b hb).1)
  refine ⟨m', r, sz, idx', dst', h1, ?_, ?_, h2, ?_⟩
  · rcases hshape with ⟨h, _⟩ | ⟨h, _⟩ | ⟨_, type, body, rfl, _, _, _, _, _, hb⟩
    · omega
    · omega
    · rw [← hm]; simp only [List.length_cons]
      rw [hb hbody, hnz, List.length_take]; omega
  · intro j hj; rw [← hm]; exact blit_lt _ _ _ _ hj
  · rw [h3, List.take_of_length_le (by rw [List.length_take]; omega), List.take_of_length_le (by omega)]

/-- **C16_roundtrip_addVarStr2_unicode.** `GetVarStr(AddVarStr s) = s` for well-formed UTF-8 text with a
multi-byte character whose UCS-2 form (2 bytes per character) fits the free payload behind the header and
whose UTF-8 form fits the destination; 4-byte sequences come back as '?' (`Chr.back`). -/
theorem C16_roundtrip_addVarStr2_unicode (cs : List Chr) (hwf : ∀ c ∈ cs, c.WF) (hmb : ∃ c ∈ cs, c.isAscii = false)
    (fill n : Nat) (d dst : D) (hfit : fill + 2 + 2 * cs.length ≤ MaxDataLen)
    (hn : (cs.flatMap Chr.back).length + 1 ≤ n) :
    ∃ m' r sz idx' dst', addVarStr2 ⟨d, fill⟩ (.at (utf8 cs)) = .ok m' ∧
      getVarStr3 m' n dst fill = .ok (r, sz, idx', dst') ∧ textOf n dst' = cs.flatMap Chr.back := by
  have hM : MaxDataLen = 223 := rfl
  have hne : cs ≠ [] := by obtain ⟨c, hc, _⟩ := hmb; exact List.ne_nil_of_mem hc
  have hpos : 0 < cs.length := List.length_pos_iff.mpr hne
  obtain ⟨m', r, sz, idx', dst', h1, _, h2, h3⟩ :=
    rt_var_unicode cs hwf hmb fill 5000 n false d dst (by omega) (by omega)
  refine ⟨m', r, sz, idx', dst', h1, h2, ?_⟩
  have hk : min cs.length ((min (MaxDataLen - fill - 2) (if false = true then 5000 * 2 else 5000)) / 2) = cs.length := by
    simp only [Bool.false_eq_true, if_false]; omega
  rw [h3, hk, List.take_of_length_le (Nat.le_refl _), fitPrefix_all _ _ (by omega)]

/-- text without 4-byte sequences is read back byte for byte -/
theorem C16_back_eq_bytes (cs : List Chr) (h : ∀ c ∈ cs, ∀ x y z w, c ≠ Chr.four x y z w) :
    cs.flatMap Chr.back = utf8 cs := by
  induction cs with
  | nil => rfl
  | cons c t ih =>
    rw [utf8_cons, List.flatMap_cons, ih (fun x hx => h x (by simp [hx]))]
    cases c with
    | four x y z w => exact absurd rfl (h _ (by simp) x y z w)
    | a b => rfl
    | two x y => rfl
    | three x y z => rfl

/-! ## byte arrays: `AddBuf` / `GetBuf` -/

/-- **C16_addBuf_safe.** For every byte array (any length, 0 and longer than the free payload included), every
fill level (also a full payload) and every stale payload content: `AddBuf` never faults, appends exactly the
array clipped to the free payload — `DataLen` grows by `min len free` and stays ≤ 223 — and no other payload
byte changes. -/
theorem C16_addBuf_safe (buf : List Nat) (fill : Nat) (d : D) (hfill : fill ≤ MaxDataLen) :
    ∃ m', addBuf ⟨d, fill⟩ buf = .ok m' ∧ m'.len = fill + min buf.length (MaxDataLen - fill) ∧
      m'.len ≤ MaxDataLen ∧ (∀ j, j < fill → m'.data j = d j) ∧ (∀ j, m'.len ≤ j → m'.data j = d j) ∧
      (∀ k, k < min buf.length (MaxDataLen - fill) → m'.data (fill + k) = buf.getD k 0) := by
  have hl : (buf.take (MaxDataLen - fill)).length = min buf.length (MaxDataLen - fill) := by
    rw [List.length_take]; omega
  refine ⟨_, addBuf_eq buf fill d, rfl, by show fill + min buf.length (MaxDataLen - fill) ≤ MaxDataLen; omega,
    fun j hj => blit_lt _ _ _ _ hj, fun j hj => blit_ge _ _ _ _ (by rw [hl]; exact hj), fun k hk => ?_⟩
  show blit d fill (buf.take (MaxDataLen - fill)) (fill + k) = buf.getD k 0
  rw [blit_in _ _ _ _ (by rw [hl]; exact hk)]
  simp only [List.getD_eq_getElem?_getD, List.getElem?_take]
  split
  · rfl
  · omega

/-- **C16_getBuf_safe.** For every message, index (at or behind the end included) and length (0 included),
into a caller buffer of at least `Length` bytes with arbitrary content: `GetBuf` never faults (no payload read
at an index ≥ `DataLen`, no write at an index ≥ the buffer size); if `Index+Length ≤ DataLen` it copies exactly
those `Length` payload bytes, leaves every buffer byte behind them unchanged and advances `Index` by `Length`;
otherwise it refuses, writes nothing (no padding) and sets `Index = DataLen`. Without a buffer only `Index` moves. -/
theorem C16_getBuf_safe (m : Msg) (n : Nat) (dst : D) (length idx : Nat) (hn : length ≤ n) :
    (idx + length ≤ m.len →
      ∃ dst', getBuf m n dst length idx = .ok (true, idx + length, dst') ∧
        (∀ k, k < length → dst' k = m.data (idx + k)) ∧ (∀ j, length ≤ j → dst' j = dst j)) ∧
    (¬ idx + length ≤ m.len → getBuf m n dst length idx = .ok (false, m.len, dst)) ∧
    getBufNull m length idx = (if idx + length ≤ m.len then (true, idx + length) else (false, m.len)) := by
  refine ⟨fun hfit => ?_, fun hfit => ?_, rfl⟩
  · refine ⟨_, by rw [getBuf_eq m n dst length idx hn, if_pos hfit], fun k hk => ?_, fun j hj => ?_⟩
    · have := blit_in dst 0 (slice m.data idx length) k (by simp; exact hk)
      rw [Nat.zero_add] at this
      rw [this, slice_getD m.data idx length k hk]
    · exact blit_ge _ _ _ _ (by simp; omega)
  · rw [getBuf_eq m n dst length idx hn, if_neg hfit]

/-- **C16_roundtrip_buf.** A byte array that fits the free payload, added with `AddBuf` and read with `GetBuf`
from the fill level into a buffer of at least its length, comes back byte for byte. -/
theorem C16_roundtrip_buf (buf : List Nat) (fill n : Nat) (d dst : D) (hfit : fill + buf.length ≤ MaxDataLen)
    (hn : buf.length ≤ n) :
    ∃ m', addBuf ⟨d, fill⟩ buf = .ok m' ∧ m'.len = fill + buf.length ∧
      getBuf m' n dst buf.length fill = .ok (true, fill + buf.length, blit dst 0 buf) :=
  rt_buf buf fill n d dst hfit hn

/-- **C16_roundtrip_buf_seq.** Two arrays added one after the other are read back one after the other with the
same running `Index` (it advances by the length extracted — the behaviour fixed in /repo). -/
theorem C16_roundtrip_buf_seq (a b : List Nat) (fill : Nat) (d x y : D)
    (hfit : fill + a.length + b.length ≤ MaxDataLen) :
    ∃ m1 m2, addBuf ⟨d, fill⟩ a = .ok m1 ∧ addBuf m1 b = .ok m2 ∧
      m2.len = fill + a.length + b.length ∧ (∀ j, j < fill → m2.data j = d j) ∧
      getBuf m2 a.length x a.length fill = .ok (true, fill + a.length, blit x 0 a) ∧
      getBuf m2 b.length y b.length (fill + a.length) = .ok (true, fill + a.length + b.length, blit y 0 b) :=
  rt_buf_seq a b fill d x y hfit

example : (10 : Nat) + [1, 2, 3].length + [4, 5].length ≤ MaxDataLen := by decide

end N2k.C16
