import N2k.Lemmas.DeviceListPgn
/-!
# C18 helper lemmas, part 9: the stored configuration information

`confUpdate_strings`: after a 126998 whose size query succeeds, the three getters return exactly the C strings
`GetVarStr` leaves in three separate buffers of the queried sizes (`confField`) - the block/offset bookkeeping of
`InitConfigurationInformation` and the second parse through the interior pointers add no distortion, whatever
the previous content and size of the block.
-/
namespace N2k.DeviceList
open N2k.Text (getVarStr Terminated getByte_ok getByte_end getStr2_eq ucs2ToUTF8_safe wd_ok bind_ok upd_same)

/-! ## the size query agrees with the copying parse on result and index -/

theorem getVarStr_ret_idx (t : N2k.Text.Msg) (n : Nat) (dst : N2k.Text.D) (idx : Nat) :
    ∃ sz dst', getVarStr t n dst 0xff idx = .ok ((varStrSize t idx).1, sz, (varStrSize t idx).2.2, dst') ∧
      Terminated n dst' := by
  have hb : ∀ i, N2k.Text.getByte t i = .ok (getByteP t i) := by
    intro i
    by_cases h : i < t.len
    · rw [getByte_ok t i h]; simp [getByteP, h]
    · rw [getByte_end t i h]; simp [getByteP, h]
  simp only [getVarStr, hb, bind_ok, varStrSize]
  generalize (getByteP t idx).1 = len
  generalize (getByteP t idx).2 = i1
  generalize (getByteP t i1).1 = type
  generalize (getByteP t i1).2 = i2
  by_cases hinv : len ≤ 2 ∨ len = 0xff ∨ type > 1 ∨ i2 ≥ t.len
  · simp only [if_pos hinv]
    by_cases hn : n > 0
    · simp only [if_pos hn, wd_ok hn, bind_ok]
      split
      · exact ⟨_, _, rfl, fun _ => ⟨0, hn, upd_same _ _ _⟩⟩
      · exact ⟨_, _, rfl, fun _ => ⟨0, hn, upd_same _ _ _⟩⟩
    · simp only [if_neg hn, bind_ok, N2k.Text.pure_eq]
      split
      · exact ⟨_, _, rfl, fun h => absurd h hn⟩
      · exact ⟨_, _, rfl, fun h => absurd h hn⟩
  · simp only [if_neg hinv]
    generalize hl : (if len - 2 + i2 > t.len then t.len - i2 else len - 2) = len'
    have hfit : i2 + len' ≤ t.len := by subst hl; split <;> omega
    by_cases hn : n > 0
    · simp only [if_pos hn]
      by_cases ht : type = 0x01
      · simp only [if_pos ht, getStr2_eq t n dst len' 0xff i2 hn hfit, bind_ok]
        obtain ⟨_, _, _, h1, h2⟩ := N2k.Text.getStr2_safe t n dst len' 0xff i2
        rw [getStr2_eq t n dst len' 0xff i2 hn hfit] at h1
        injection h1 with h1
        injection h1 with _ h1
        injection h1 with _ h1
        exact ⟨_, _, rfl, h1 ▸ h2⟩
      · obtain ⟨d1, u1, h1, h2⟩ := ucs2ToUTF8_safe t i2 len' n dst 0xff hfit
        simp only [if_neg ht, h1, bind_ok]
        exact ⟨_, _, rfl, h2⟩
    · simp only [if_neg hn]
      exact ⟨_, _, rfl, fun h => absurd h hn⟩

/-! ## reading a C string out of a block -/

theorem cstrD_succ (n : Nat) (g : Nat → Nat) :
    cstrD (n + 1) g = if g 0 = 0 then [] else g 0 :: cstrD n (fun i => g (i + 1)) := by
  unfold cstrD
  rw [List.range_succ_eq_map]
  simp only [List.map_cons, List.map_map, List.takeWhile]
  by_cases h : g 0 = 0
  · simp [h]
  · simp only [h, if_false]
    simp only [ne_eq, h, not_false_eq_true, decide_true]
    rfl

theorem readZ_fun (b : Block) : ∀ (n off : Nat) (g : Nat → Nat) (f : Nat),
    (∀ i, i < n → b.mem (off + i) = g i) → (∃ i, i < n ∧ g i = 0) → off + n ≤ b.size → n ≤ f →
    b.readZ f off = .ok (cstrD n g) := by
  intro n
  induction n with
  | zero => intro off g f _ ⟨i, hi, _⟩; omega
  | succ n ih =>
    intro off g f hm ⟨i0, hi0, hz0⟩ hsz hf
    obtain ⟨f', rfl⟩ : ∃ f', f = f' + 1 := ⟨f - 1, by omega⟩
    have hlt : off < b.size := by omega
    have h0 : b.mem off = g 0 := by simpa using hm 0 (by omega)
    rw [cstrD_succ]
    by_cases hz : g 0 = 0
    · simp [Block.readZ, hlt, h0, hz]
    · have hi0' : i0 ≠ 0 := by intro h; subst h; exact hz hz0
      have := ih (off + 1) (fun i => g (i + 1)) f'
        (by intro i hi; rw [show off + 1 + i = off + (i + 1) by omega]; exact hm (i + 1) (by omega))
        ⟨i0 - 1, by omega, by rw [show i0 - 1 + 1 = i0 by omega]; exact hz0⟩ (by omega) (by omega)
      simp [Block.readZ, hlt, h0, hz, this]

/-- a getter whose pointer addresses a region that holds the terminated buffer content `dst` -/
theorem getStrAt_region {b : Block} {off sz : Nat} {dst : N2k.Text.D} (hsz : 0 < sz) (hin : off + sz ≤ b.size)
    (hm : ∀ i, i < sz → b.mem (off + i) = dst i) (ht : Terminated sz dst) :
    getStrAt (some b) (some off) = .ok (some (cstrD sz dst)) := by
  simp only [getStrAt]
  rw [readZ_fun b sz off dst (b.size + 1) hm (ht hsz) hin (by omega)]

/-! ## the second parse -/

/-- one field parsed into its own buffer of exactly `sz` bytes with prior content `junk`:
    a null pointer for size 0, else the C string `GetVarStr` leaves -/
def confField (t : N2k.Text.Msg) (sz idx : Nat) (junk : N2k.Text.D) : Option (List Nat) :=
  if sz = 0 then none
  else match getVarStr t sz junk 0xff idx with
    | .ok r => some (cstrD sz r.2.2.2)
    | .error _ => none

/-- block after a field was stored -/
def Block.blit (b : Block) (off sz : Nat) (dst : N2k.Text.D) : Block :=
  { b with mem := fun j => if off ≤ j ∧ j < off + sz then dst (j - off) else b.mem j }

/-- `varStrInto` for a field of the layout: pointer = `if sz>0 then some off else none` -/
theorem varStrInto_field (t : N2k.Text.Msg) {b : Block} {off sz : Nat} (idx : Nat) (hin : off + sz ≤ b.size) :
    ∃ b' dst, varStrInto t (some b) (if sz > 0 then some off else none) sz idx =
        .ok ((varStrSize t idx).1, (varStrSize t idx).2.2, some b') ∧
      b'.size = b.size ∧ (∀ j, (j < off ∨ off + sz ≤ j) → b'.mem j = b.mem j) ∧
      (sz > 0 → (∀ i, i < sz → b'.mem (off + i) = dst i) ∧ Terminated sz dst ∧
        confField t sz idx (fun i => b.mem (off + i)) = some (cstrD sz dst)) := by
  by_cases hs : sz > 0
  · simp only [hs, if_true, varStrInto]
    obtain ⟨sz', dst, hg, ht⟩ := getVarStr_ret_idx t sz (fun i => b.mem (off + i)) idx
    simp only [hg, hin, if_true]
    refine ⟨_, dst, rfl, rfl, ?_, fun _ => ⟨?_, ht, ?_⟩⟩
    · intro j hj
      have : ¬ (off ≤ j ∧ j < off + sz) := by omega
      simp [this]
    · intro i hi
      have : off ≤ off + i ∧ off + i < off + sz := by omega
      simp [this]
    · have h0 : ¬ sz = 0 := by omega
      simp [confField, h0, hg]
  · simp only [hs, if_false, varStrInto]
    exact ⟨b, fun _ => 0, rfl, rfl, fun _ _ => rfl, fun h => h.elim⟩

/-- the offsets and indices of the three fields of one 126998 (sizes include the terminators) -/
structure ConfPlan where
  A : Nat
  B : Nat
  C : Nat
  idx1 : Nat
  idx2 : Nat
  idx3 : Nat

def confPlan (t : N2k.Text.Msg) : ConfPlan :=
  let a := varStrSize t 0
  let b := varStrSize t a.2.2
  let c := varStrSize t b.2.2
  ⟨plusTerm c.2.1, plusTerm a.2.1, plusTerm b.2.1, 0, a.2.2, b.2.2⟩

theorem parseConfSizes_ok {t : N2k.Text.Msg} (h : (parseConfSizes t).ok = true) :
    (varStrSize t 0).1 = true ∧ (varStrSize t (varStrSize t 0).2.2).1 = true ∧
    (varStrSize t (varStrSize t (varStrSize t 0).2.2).2.2).1 = true ∧
    plusTerm (parseConfSizes t).man = (confPlan t).A ∧ plusTerm (parseConfSizes t).i1 = (confPlan t).B ∧
    plusTerm (parseConfSizes t).i2 = (confPlan t).C := by
  unfold parseConfSizes at h ⊢
  by_cases ha : (varStrSize t 0).1 = true
  · simp only [ha, if_true] at h ⊢
    by_cases hb : (varStrSize t (varStrSize t 0).2.2).1 = true
    · simp only [hb, if_true] at h ⊢
      exact ⟨trivial, trivial, h, rfl, rfl, rfl⟩
    · simp [hb] at h
  · simp [ha] at h

theorem plusTerm_pos (n : Nat) : plusTerm n > 0 ↔ n > 0 := by unfold plusTerm; split <;> omega

/-- the getters after the second parse through a layout -/
theorem storeConf_strings (t : N2k.Text.Msg) {d : Device} {A B C : Nat} (hl : ConfLayout d A B C) (hpos : A + B + C > 0)
    (hok1 : (varStrSize t 0).1 = true) (hok2 : (varStrSize t (varStrSize t 0).2.2).1 = true) :
    ∃ d' j1 j2 j3, storeConf t d A B C = .ok d' ∧
      d'.getInstallationDescription1 = .ok (confField t B 0 j1) ∧
      d'.getInstallationDescription2 = .ok (confField t C (varStrSize t 0).2.2 j2) ∧
      d'.getManufacturerInformation = .ok (confField t A (varStrSize t (varStrSize t 0).2.2).2.2 j3) := by
  obtain ⟨b0, hb0, hsz0⟩ := hl.blk hpos
  unfold storeConf
  rw [hb0, hl.i1]
  obtain ⟨b1, dst1, h1, hs1, hout1, hin1⟩ := varStrInto_field t (b := b0) (off := A) (sz := B) 0 (by omega)
  simp only [h1, hok1, if_true]
  rw [hl.i2]
  obtain ⟨b2, dst2, h2, hs2, hout2, hin2⟩ := varStrInto_field t (b := b1) (off := A + B) (sz := C) (varStrSize t 0).2.2 (by omega)
  simp only [h2, hok2, if_true]
  rw [hl.man]
  obtain ⟨b3, dst3, h3, hs3, hout3, hin3⟩ := varStrInto_field t (b := b2) (off := 0) (sz := A)
    (varStrSize t (varStrSize t 0).2.2).2.2 (by omega)
  simp only [h3]
  refine ⟨_, fun i => b0.mem (A + i), fun i => b1.mem (A + B + i), fun i => b2.mem (0 + i), rfl, ?_, ?_, ?_⟩
  · -- installation description 1: region [A, A+B)
    show getStrAt (some b3) (if B > 0 then some A else none) = _
    by_cases hB : B > 0
    · obtain ⟨hm, ht, hc⟩ := hin1 hB
      simp only [hB, if_true]
      rw [hc]
      refine getStrAt_region hB (by omega) ?_ ht
      intro i hi
      rw [hout3 (A + i) (Or.inr (by omega)), hout2 (A + i) (Or.inl (by omega))]
      exact hm i hi
    · have : B = 0 := by omega
      subst this
      simp [getStrAt, confField]
  · show getStrAt (some b3) (if C > 0 then some (A + B) else none) = _
    by_cases hC : C > 0
    · obtain ⟨hm, ht, hc⟩ := hin2 hC
      simp only [hC, if_true]
      rw [hc]
      refine getStrAt_region hC (by omega) ?_ ht
      intro i hi
      rw [hout3 (A + B + i) (Or.inr (by omega))]
      exact hm i hi
    · have : C = 0 := by omega
      subst this
      simp [getStrAt, confField]
  · show getStrAt (some b3) (if A > 0 then some 0 else none) = _
    by_cases hA : A > 0
    · obtain ⟨hm, ht, hc⟩ := hin3 hA
      simp only [hA, if_true]
      rw [hc]
      exact getStrAt_region hA (by omega) hm ht
    · have : A = 0 := by omega
      subst this
      simp [getStrAt, confField]

/-- **what the getters return after a 126998 whose size query succeeds** -/
theorem confUpdate_strings (e : Env) {d : Device} (hw : DevWF d) (m : Msg) (hq : (parseConfSizes m.text).ok = true) :
    ∃ d' j1 j2 j3, confUpdate e d m = .ok (d', true) ∧
      d'.getInstallationDescription1 = .ok (confField m.text (confPlan m.text).B (confPlan m.text).idx1 j1) ∧
      d'.getInstallationDescription2 = .ok (confField m.text (confPlan m.text).C (confPlan m.text).idx2 j2) ∧
      d'.getManufacturerInformation = .ok (confField m.text (confPlan m.text).A (confPlan m.text).idx3 j3) := by
  obtain ⟨hok1, hok2, _, hA, hB, hC⟩ := parseConfSizes_ok hq
  unfold confUpdate
  simp only [hq, if_true]
  obtain ⟨r, hr, hrA, hrB, hrC, hl, _⟩ := initConf_ok e hw (parseConfSizes m.text).man
    (parseConfSizes m.text).i1 (parseConfSizes m.text).i2
  simp only [hr]
  rw [hrA, hrB, hrC, hA, hB, hC] at hl ⊢
  by_cases ht : (confPlan m.text).A + (confPlan m.text).B + (confPlan m.text).C > 0
  · simp only [ht, if_true]
    obtain ⟨d', j1, j2, j3, hs, g1, g2, g3⟩ := storeConf_strings m.text hl ht hok1 hok2
    simp only [hs]
    exact ⟨d', j1, j2, j3, rfl, g1, g2, g3⟩
  · simp only [ht, if_false]
    have hA0 : (confPlan m.text).A = 0 := by omega
    have hB0 : (confPlan m.text).B = 0 := by omega
    have hC0 : (confPlan m.text).C = 0 := by omega
    refine ⟨r.dev, fun _ => 0, fun _ => 0, fun _ => 0, rfl, ?_, ?_, ?_⟩
    · show getStrAt r.dev.confI r.dev.inst1 = _
      rw [hl.i1, hB0]; simp [getStrAt, confField]
    · show getStrAt r.dev.confI r.dev.inst2 = _
      rw [hl.i2, hC0]; simp [getStrAt, confField]
    · show getStrAt r.dev.confI r.dev.manI = _
      rw [hl.man, hA0]; simp [getStrAt, confField]

/-! ## history level -/

theorem prodUpdate_conf (d : Device) (p : ProdInfo) :
    (prodUpdate d p).1.confI = d.confI ∧ (prodUpdate d p).1.manI = d.manI ∧
    (prodUpdate d p).1.inst1 = d.inst1 ∧ (prodUpdate d p).1.inst2 = d.inst2 := by
  unfold prodUpdate
  split
  · exact ⟨rfl, rfl, rfl, rfl⟩
  · split <;> exact ⟨rfl, rfl, rfl, rfl⟩

/-- the stored configuration information (block and the three interior pointers) -/
def SameConf (d d' : Device) : Prop :=
  d'.confI = d.confI ∧ d'.manI = d.manI ∧ d'.inst1 = d.inst1 ∧ d'.inst2 = d.inst2

theorem SameConf.getters {d d' : Device} (h : SameConf d d') :
    d'.getManufacturerInformation = d.getManufacturerInformation ∧
    d'.getInstallationDescription1 = d.getInstallationDescription1 ∧
    d'.getInstallationDescription2 = d.getInstallationDescription2 := by
  obtain ⟨h1, h2, h3, h4⟩ := h
  simp [Device.getManufacturerInformation, Device.getInstallationDescription1, Device.getInstallationDescription2,
    h1, h2, h3, h4]

theorem SameConf.of_core {d d' : Device} (h : d'.core = d.core) : SameConf d d' :=
  ⟨core_confI h, core_manI h, core_inst1 h, core_inst2 h⟩

theorem SameConf.trans {a b c : Device} (h1 : SameConf a b) (h2 : SameConf b c) : SameConf a c :=
  ⟨h2.1.trans h1.1, h2.2.1.trans h1.2.1, h2.2.2.1.trans h1.2.2.1, h2.2.2.2.trans h1.2.2.2⟩

/-- the stored configuration information changes only by a 126998 from the entry's source -/
theorem step_conf_keep {e : Env} {s s' : State} {m : Msg} (h : StepDesc e s s' m) {src : Nat} {d : Device}
    (hd : devAt s src = some d) (hnt : NoTouch m src d.name) (hown : ¬ (m.source = src ∧ m.pgn = pgnConf)) :
    ∃ d', devAt s' src = some d' ∧ d'.name = d.name ∧ SameConf d d' := by
  by_cases hsrc : m.source = src ∧ m.source < MaxBusDevices
  · obtain ⟨hs, h254⟩ := hsrc
    subst hs
    have hnc : m.pgn ≠ pgnClaim := fun hc => hnt ⟨hc, h254, Or.inl rfl⟩
    obtain ⟨d1, d', heff, h1, h2⟩ := step_own h hd h254 hnc
    refine ⟨d', h1, ?_⟩
    cases heff with
    | prod p hp _ =>
      by_cases hl : d.prodLoaded = true
      · rw [if_pos hl] at h2
        exact ⟨core_name h2, SameConf.of_core h2⟩
      · rw [if_neg hl] at h2
        exact ⟨by rw [core_name h2, prodUpdate_name], SameConf.trans (prodUpdate_conf d p) (SameConf.of_core h2)⟩
    | conf r hc _ _ => exact absurd ⟨rfl, hc⟩ hown
    | pgns d1 _ _ hcc =>
      obtain ⟨tb, ts, rb, rs, he, _⟩ := hcc
      rw [he] at h2
      have h3 := SameConf.of_core h2
      exact ⟨by rw [core_name h2], h3.1, h3.2.1, h3.2.2.1, h3.2.2.2⟩
    | none _ _ _ => exact ⟨core_name h2, SameConf.of_core h2⟩
  · have hne : m.source ≠ src ∨ m.source ≥ MaxBusDevices := by
      by_cases h1 : m.source = src
      · exact Or.inr (by have := fun h2 => hsrc ⟨h1, h2⟩; omega)
      · exact Or.inl h1
    obtain ⟨d', h1, h2⟩ := step_foreign h hd hne hnt
    exact ⟨d', h1, core_name h2, SameConf.of_core h2⟩

theorem run_conf_keep : ∀ (l : List (Env × Msg)) {s : State} {src : Nat} {d : Device},
    Inv s → devAt s src = some d → Quiet l src d.name →
    (∀ em ∈ l, ¬ (em.2.source = src ∧ em.2.pgn = pgnConf)) →
    ∃ s' d', run s l = .ok s' ∧ Inv s' ∧ devAt s' src = some d' ∧ d'.name = d.name ∧ SameConf d d' := by
  intro l
  induction l with
  | nil => intro s src d hi hd _ _; exact ⟨s, d, rfl, hi, hd, rfl, rfl, rfl, rfl, rfl⟩
  | cons em t ih =>
    intro s src d hi hd hq hp
    obtain ⟨s1, h1, hi1, hdesc⟩ := handleMsg_spec em.1 hi em.2
    obtain ⟨d1, hd1, hn1, hb1⟩ := step_conf_keep hdesc hd (hq em (by simp)) (hp em (by simp))
    obtain ⟨s', d', h2, hi2, hd2, hn2, hb2⟩ := ih hi1 hd1
      (by intro em' hem'; rw [hn1]; exact hq em' (by simp [hem']))
      (fun em' hem' => hp em' (by simp [hem']))
    exact ⟨s', d', by simp [run, h1, h2], hi2, hd2, by rw [hn2, hn1], hb1.trans hb2⟩

/-- a 126998 from the entry's source whose size query succeeds stores its three strings -/
theorem step_conf_store {e : Env} {s s' : State} {m : Msg} (h : StepDesc e s s' m) (hi : Inv s) {d : Device}
    (hd : devAt s m.source = some d) (hsrc : m.source < MaxBusDevices) (hp : m.pgn = pgnConf)
    (hq : (parseConfSizes m.text).ok = true) :
    ∃ d' j1 j2 j3, devAt s' m.source = some d' ∧ d'.name = d.name ∧
      d'.getInstallationDescription1 = .ok (confField m.text (confPlan m.text).B (confPlan m.text).idx1 j1) ∧
      d'.getInstallationDescription2 = .ok (confField m.text (confPlan m.text).C (confPlan m.text).idx2 j2) ∧
      d'.getManufacturerInformation = .ok (confField m.text (confPlan m.text).A (confPlan m.text).idx3 j3) := by
  have hnc : m.pgn ≠ pgnClaim := by rw [hp]; decide
  obtain ⟨d1, d', heff, h1, h2⟩ := step_own h hd hsrc hnc
  have hw : DevWF d := hi.good.wf _ d hd
  cases heff with
  | prod p hc _ => rw [hp] at hc; cases hc
  | conf r _ hr hcc =>
    obtain ⟨d0, j1, j2, j3, hu, g1, g2, g3⟩ := confUpdate_strings e hw m hq
    rw [hu] at hr; cases hr
    obtain ⟨k1, k2, k3⟩ := (SameConf.of_core h2).getters
    refine ⟨d', j1, j2, j3, h1, by rw [core_name h2]; exact (hcc.wf hw).2.1, by rw [k2]; exact g1, by rw [k3]; exact g2,
      by rw [k1]; exact g3⟩
  | pgns d1 hc _ _ => rw [hp] at hc; cases hc
  | none _ hc _ => exact absurd hp hc

end N2k.DeviceList
