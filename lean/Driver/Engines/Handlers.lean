import N2k.Model.Handlers
import Driver.Util
-- engine: handlers
/-! Engine `handlers` (C14): executes `N2k.Handlers.step` / `onFrame` of the model on the harness op lines. -/
namespace Driver.Handlers
open N2k.Handlers Driver

def maxH : Nat := 8
def nBus : Nat := 2

def hid? (s : String) : Option Nat := do let n ← nat? s; if n < maxH then some n else none
def bid? (s : String) : Option Nat := do let n ← nat? s; if n < nBus then some n else none

/-- PGNs a CAN identifier can carry to this library: 17 bit, PDU1 has a zero low byte -/
def pgn? (s : String) : Option Nat := do
  let p ← nat? s
  if p < 2 ^ 17 ∧ ¬ ((p / 256) % 256 < 240 ∧ p % 256 ≠ 0) then some p else none

def isTp (p : Nat) : Bool := p = 60416 ∨ p = 60160

/-- the fast-packet PGNs the harness injects multi-frame -/
def isFp (p : Nat) : Bool :=
  p = 129029 ∨ p = 126996 ∨ p = 126208 ∨ p = 129540 ∨ p = 126720 ∨ (130816 ≤ p ∧ p ≤ 131071)

def byte? (s : String) : Option Nat := do
  let n ← nat? s
  if s.length ≤ 3 ∧ n ≤ 255 then some n else none

def showCalls : Option (Nat × List Id) → String
  | none => "fault"
  | some (c, l) =>
    let ids := if l.isEmpty then "-" else ",".intercalate (l.map toString)
    s!"cb={c} h={ids}"

def parseOp : List String → Option Op
  | ["new", h, p] => do some (.new (← hid? h) (← nat? p) none)
  | ["new", h, p, b] => do some (.new (← hid? h) (← nat? p) (some (← bid? b)))
  | ["attach", h, b] => do some (.attach (← hid? h) (← bid? b))
  | ["detach", h] => do some (.detach (← hid? h))
  | ["detach", h, via] => do let _ ← bid? via; some (.detach (← hid? h))
  | ["destroy", h] => do some (.destroy (← hid? h))
  | ["cb", b, "0"] => do some (.cb (← bid? b) false)
  | ["cb", b, "1"] => do some (.cb (← bid? b) true)
  | _ => none

/-- Same world with the three maps stored as tables instead of ever longer chains of function updates
    (extensionally equal for the addresses `< maxH` and buses `< nBus` the protocol can name). -/
def compact (w : World) : World :=
  let objs := ((List.range maxH).map w.obj).toArray
  let heads := ((List.range nBus).map w.head).toArray
  let cbs := ((List.range nBus).map w.cb).toArray
  { obj := fun i => objs.getD i none, head := fun b => heads.getD b none, cb := fun b => cbs.getD b false, bound := w.bound }

/-- `reset` = delete every live handler, clear both callbacks -/
def reset (w : World) : Option World :=
  let ops := (List.range maxH).map Op.destroy ++ (List.range nBus).map (fun b => Op.cb b false)
  (run w ops).map compact

def allSome : List (Option Nat) → Option (List Nat)
  | [] => some []
  | none :: _ => none
  | some a :: t => (allSome t).map (a :: ·)

def step (s : Option World) (w : List String) : Option World × String :=
  match s with
  | none => (none, "fault")
  | some wd =>
    match w with
    | "reset" :: ps => match allSome (ps.map nat?) with
      | some l => if l.length > maxH then (s, "bad-op") else
        -- destroy everything, then `new 0 p0`, `new 1 p1`, ...
        match (reset wd).bind fun w0 => run w0 ((List.range l.length).zip l |>.map fun (h, p) => Op.new h p none) with
        | some w' => (some w', "ok")
        | none => (none, "fault")
      | none => (s, "bad-op")
    | ["msg", b, p] => match bid? b, pgn? p with
      | some b, some p => (s, showCalls (onFrame wd b (loneFrame p)))
      | _, _ => (s, "bad-op")
    | ["tp", b, p] => match bid? b, pgn? p with
      | some b, some p => if isTp p then (s, "bad-op") else
        -- TP.CM(BAM), TP.DT 1: not ready; TP.DT 2 completes the transported message
        match onFrame wd b .notReady, onFrame wd b .notReady, onFrame wd b (.ready p) with
        | some (c1, l1), some (c2, l2), some (c3, l3) => (s, showCalls (some (c1 + c2 + c3, l1 ++ l2 ++ l3)))
        | _, _, _ => (s, "fault")
      | _, _ => (s, "bad-op")
    | ["fp", b, p, src, len, frames, flags] =>
      -- the completion decision of every frame is an INPUT of the model (flags, from the harness's reference receiver)
      match bid? b, pgn? p, nat? src, nat? len, allSome ((frames.splitOn ",").map byte?) with
      | some b, some p, some src, some len, some fr =>
        let fl := flags.toList
        if ¬ isFp p ∨ src > 251 ∨ len > 223 ∨ fr.length > 40 ∨ fl.length ≠ fr.length ∨ fl.any (fun c => c ≠ '0' ∧ c ≠ '1') then (s, "bad-op") else
        let rs := fl.map fun c => onFrame wd b (if c = '1' then .ready p else .notReady)
        if rs.any Option.isNone then (s, "fault") else
        let rs := rs.filterMap id
        (s, showCalls (some ((rs.map (·.1)).foldl (· + ·) 0, rs.flatMap (·.2))))
      | _, _, _, _, _ => (s, "bad-op")
    | "probe" :: ps => match allSome (ps.map pgn?) with
      | some l => if l.isEmpty ∨ l.any isTp then (s, "bad-op") else
        (s, " | ".intercalate (l.flatMap fun p => (List.range nBus).map fun b => showCalls (onFrame wd b (loneFrame p))))
      | none => (s, "bad-op")
    | _ => match parseOp w with
      | none => (s, "bad-op")
      | some op =>
        if op.usable wd then
          match apply wd op with
          | some w' => (some w', "ok")
          | none => (none, "fault")
        else (s, "bad-op")

def main : IO Unit := loop step (some World.init)

end Driver.Handlers
