import N2k.Lemmas.RxRun
/-!
# C02 — received frames are reassembled into exactly the messages that were sent

All theorems are about `N2k.Rx.rx` / `outputs` / `delivered` of `Model/Rx.lean` (the functions the `rx` engine
executes). A history `evs` is any list of (arrival time, frame); arrival times are arbitrary (no monotonicity, any
32-bit wrap), the slot count `N` is arbitrary. `WFrame` (8 byte buffer, DLC ≤ 8) is the contract of the CAN driver.
`handledFrames c evs` are the frames that pass the ISO-TP gate and the only-known-messages gate; `c` carries the
application's PGN lists (`Set/Extend…Messages`). Histories MAY contain TP.CM RTS/BAM frames: they take slots as TP
sessions (`rxTPOpen`), such a slot is never a fast-packet continuation target, and the safety theorems hold with them;
the completeness theorems assume that no TP session is opened (`isTPOpen`) since TP sessions compete for the slots.
-/
namespace N2k.C02
open N2k.Rx

/-- **No corrupted delivery, for EVERY frame history** (no hypothesis on senders, interleaving, loss, duplication,
timing or slot count). If processing `evs` from the initial state delivers `m` at frame number `i`, then that frame
`e` was handled and either (single-frame PGN) `m` is that frame with `len = DLC`, or there is a chain `w` of
received frames with one PGN and source (`IsChain.same`), byte 0 = first byte 0 + k, i.e. one sequence id and frame
counters 0..k (`IsChain.ctr`, `C02_one_sequence_id`), whose first frame announces `L ≤ 223`, ending in `e`, such that
`m` = ⟨priority, PGN, source, destination of the first frame, L, first L bytes of the concatenated payloads⟩ – and
`w` is a CONTIGUOUS TAIL of the handled frames of that PGN and source received so far (no other frame of that sender
and PGN arrived in between: bytes of different messages or senders are never combined). -/
theorem C02_no_corruption (c : Cfg) (N : Nat) (evs : List (Nat × Frame)) (hwf : ∀ e ∈ evs, WFrame e.2)
    (i : Nat) (m : Msg) (h : (outputs c (init N) evs)[i]? = some (some m)) :
    ∃ e, evs[i]? = some e ∧ handled c e.2 = true ∧
      Delivery (isFP c) (handledFrames c (evs.take (i+1))) e.2 m := by
  obtain ⟨e, he, hh, hd, _⟩ := outputs_spec c evs (init N) [] (Inv.init (isFP c) N) hwf i m h
  exact ⟨e, he, hh, by simpa using hd⟩

/-- the same statement with the witness spelled out -/
theorem C02_no_corruption_explicit (c : Cfg) (N : Nat) (evs : List (Nat × Frame)) (hwf : ∀ e ∈ evs, WFrame e.2)
    (i : Nat) (m : Msg) (h : (outputs c (init N) evs)[i]? = some (some m)) :
    ∃ e, evs[i]? = some e ∧
      ((isFP c e.2.pgn = false ∧ m = ⟨e.2.prio % 8, e.2.pgn, e.2.src, e.2.dst, e.2.len, e.2.b.take e.2.len⟩) ∨
       (isFP c e.2.pgn = true ∧ ∃ w f0,
          w <:+ keyHist (handledFrames c (evs.take (i+1))) e.2.pgn e.2.src ∧
          w.head? = some f0 ∧ w.getLast? = some e.2 ∧
          (∀ g ∈ w, g.pgn = f0.pgn ∧ g.src = f0.src) ∧
          (∀ k (hk : k < w.length), (w[k]).byte 0 / 32 = f0.byte 0 / 32 ∧ (w[k]).byte 0 % 32 = k) ∧
          f0.byte 1 ≤ 223 ∧ f0.byte 1 ≤ (fpBytes w).length ∧
          m = ⟨f0.prio % 8, f0.pgn, f0.src, f0.dst, f0.byte 1, (fpBytes w).take (f0.byte 1)⟩)) := by
  obtain ⟨e, he, _, hd⟩ := C02_no_corruption c N evs hwf i m h
  refine ⟨e, he, ?_⟩
  rcases hd with ⟨hfp, hs⟩ | ⟨hfp, w, hsuf, hlast, f0, hch, hL, hlen, hm⟩
  · exact Or.inl ⟨hfp, hs⟩
  · exact Or.inr ⟨hfp, w, f0, hsuf, hch.head, hlast, hch.same, fun k hk => hch.seq k hk, hL, hlen, hm⟩

/-- a fast packet announcing more than 223 bytes is never delivered: every delivered message has `len ≤ 223`
and exactly `len` data bytes -/
theorem C02_oversize_never_delivered (c : Cfg) (N : Nat) (evs : List (Nat × Frame)) (hwf : ∀ e ∈ evs, WFrame e.2)
    (i : Nat) (m : Msg) (h : (outputs c (init N) evs)[i]? = some (some m)) :
    m.len ≤ 223 ∧ m.data.length = m.len := by
  obtain ⟨e, he, _, hd⟩ := C02_no_corruption c N evs hwf i m h
  have hwe : WFrame e.2 := hwf e (List.mem_of_getElem? he)
  rcases hd with ⟨_, hs⟩ | ⟨_, w, _, _, f0, _, hL, hlen, hm⟩
  · rw [hs]; simp only [List.length_take]
    have := hwe.1; have := hwe.2; omega
  · rw [hm]; simp only [chainMsg, List.length_take]; omega

/-- single-frame PGNs are delivered with the frame's DLC as length (and the frame's fields and bytes) -/
theorem C02_single_frame_dlc (c : Cfg) (N : Nat) (evs : List (Nat × Frame)) (hwf : ∀ e ∈ evs, WFrame e.2)
    (i : Nat) (m : Msg) (h : (outputs c (init N) evs)[i]? = some (some m)) (hsf : isFP c m.pgn = false) :
    ∃ e, evs[i]? = some e ∧ m.len = e.2.len ∧ m.data = e.2.b.take e.2.len ∧
      m.pgn = e.2.pgn ∧ m.src = e.2.src ∧ m.dst = e.2.dst ∧ m.prio = e.2.prio % 8 := by
  obtain ⟨e, he, _, hd⟩ := C02_no_corruption c N evs hwf i m h
  refine ⟨e, he, ?_⟩
  rcases hd with ⟨_, hs⟩ | ⟨hfp, w, _, hlast, f0, hch, _, _, hm⟩
  · rw [hs]; exact ⟨rfl, rfl, rfl, rfl, rfl, rfl⟩
  · exfalso
    have hmem : e.2 ∈ w := List.mem_of_getLast? hlast
    have := (hch.same e.2 hmem).1
    rw [hm] at hsf; simp only [chainMsg] at hsf
    rw [← this, hfp] at hsf; cases hsf

/-- each message is delivered exactly once: right after the delivery no reassembly slot holds the message's PGN and
source (the slot has been released; nothing of the delivered message remains to be delivered again); a TP session
slot (C10) of the same PGN and source is a different reassembly and is not concerned -/
theorem C02_slot_free_after_delivery (c : Cfg) (N : Nat) (evs : List (Nat × Frame)) (hwf : ∀ e ∈ evs, WFrame e.2)
    (i : Nat) (m : Msg) (h : (outputs c (init N) evs)[i]? = some (some m)) :
    ∀ j, j < N → ((run c (init N) (evs.take (i+1))).slot j).free = false →
      ((run c (init N) (evs.take (i+1))).slot j).tp = false →
      ¬ (((run c (init N) (evs.take (i+1))).slot j).pgn = m.pgn ∧
         ((run c (init N) (evs.take (i+1))).slot j).src = m.src) := by
  obtain ⟨_, _, _, _, hfree⟩ := outputs_spec c evs (init N) [] (Inv.init (isFP c) N) hwf i m h
  exact hfree

/-- a chain has at most 32 frames, all with the sequence id of the first frame and frame counters 0, 1, 2, … -/
theorem C02_one_sequence_id (f0 : Frame) (w : List Frame) (h : IsChain f0 w) :
    w.length ≤ 32 ∧ ∀ k (hk : k < w.length), (w[k]).byte 0 / 32 = f0.byte 0 / 32 ∧ (w[k]).byte 0 % 32 = k :=
  ⟨h.length_le, fun k hk => h.seq k hk⟩

/-- the 100 ms recycling never indexes outside the slot array: whenever the time-out test of
`FindFreeCANMsgIndex` succeeds, `OldestIndex` is a valid slot (at any clock value, incl. the 2^32 wrap) -/
theorem C02_recycle_index_valid (st : St) (now : Nat)
    (h : N2k.Time.hasElapsed (oldest st now st.N).2 100 (N2k.Time.millis32 now) = true) :
    (oldest st now st.N).1 < st.N := by
  have key : ∀ k, k ≤ st.N → ((oldest st now k).1 < st.N ∨
      ((oldest st now k).1 = st.N ∧ (oldest st now k).2 = N2k.Time.millis32 now)) := by
    intro k
    induction k with
    | zero => intro _; right; exact ⟨rfl, rfl⟩
    | succ k ih =>
      intro hk
      unfold oldest
      split
      · left; show k < st.N; omega
      · exact ih (by omega)
  rcases key st.N (Nat.le_refl _) with hlt | ⟨_, h2⟩
  · exact hlt
  · exfalso
    rw [h2] at h
    unfold N2k.Time.hasElapsed N2k.Time.sub32 N2k.Time.millis32 N2k.Time.M32 N2k.Time.INT32_MAX at h
    simp only [decide_eq_true_eq] at h
    omega

/-- beyond the slot count (more senders than slots, any overload, any timing) the claim is safety: this is
`C02_no_corruption`, which has no hypothesis on the number of senders or slots; restated for the record -/
theorem C02_overload_safe (c : Cfg) (N : Nat) (evs : List (Nat × Frame)) (hwf : ∀ e ∈ evs, WFrame e.2) :
    ∀ i m, (outputs c (init N) evs)[i]? = some (some m) →
      ∃ e, evs[i]? = some e ∧ handled c e.2 = true ∧ Delivery (isFP c) (handledFrames c (evs.take (i+1))) e.2 m :=
  fun i m h => C02_no_corruption c N evs hwf i m h

/-- **Completeness / exact delivery.** `Spec.outputs (isFP c) Spec.empty` is the abstract reassembler of
`Spec/Reassembly.lean` (per PGN and source: a first frame supersedes, an in-sequence continuation frame – same sequence
id, next counter – is appended, any other continuation frame discards the message as a whole, a complete message with
announced length ≤ 223 is delivered once; single frames are delivered with the DLC as length). If at every first or
single frame the unfinished messages of the abstract reassembler together with the new one belong to at most `N`
(PGN, source) pairs (`Spec.Fits`: "up to as many concurrent senders as there are reassembly slots" – a condition on
the frame sequence only), then the messages handed to the application are EXACTLY those of the abstract reassembler,
in the same order: every interleaving, every loss / duplication / reordering pattern (they are just different
`evs`), every arrival time (the 100 ms recycling is never needed), any slot count `N`. -/
theorem C02_refines_spec (c : Cfg) (N : Nat) (evs : List (Nat × Frame)) (hwf : ∀ e ∈ evs, WFrame e.2)
    (hnt : ∀ e ∈ evs, isTPOpen e.2 = false)
    (hfit : Spec.Fits c N Spec.empty (handledFrames c evs)) :
    delivered c (init N) evs = (Spec.outputs (isFP c) Spec.empty (handledFrames c evs)).filterMap id :=
  run_refines c evs (init N) [] Spec.empty (Inv.init (isFP c) N) (Abs.init N) (NoTP.init N) hwf hnt
    (availRun_of_fits c evs (init N) [] Spec.empty (Inv.init (isFP c) N) (Abs.init N) (NoTP.init N) hwf hnt hfit)

/-- the same under the weaker, directly checkable run condition `AvailRun` (the slot search never gives up and never
recycles): this is exactly what the refinement proof needs -/
theorem C02_refines_spec_avail (c : Cfg) (N : Nat) (evs : List (Nat × Frame)) (hwf : ∀ e ∈ evs, WFrame e.2)
    (hnt : ∀ e ∈ evs, isTPOpen e.2 = false) (hav : AvailRun c (init N) evs) :
    delivered c (init N) evs = (Spec.outputs (isFP c) Spec.empty (handledFrames c evs)).filterMap id :=
  run_refines c evs (init N) [] Spec.empty (Inv.init (isFP c) N) (Abs.init N) (NoTP.init N) hwf hnt hav

/-- corollary: if all handled frames of the history come from at most `N` (PGN, source) pairs, delivery is exact -/
theorem C02_exact_up_to_slot_count (c : Cfg) (N : Nat) (evs : List (Nat × Frame)) (hwf : ∀ e ∈ evs, WFrame e.2)
    (hnt : ∀ e ∈ evs, isTPOpen e.2 = false)
    (K : List (Nat × Nat)) (hK : K.length ≤ N) (hkeys : ∀ f ∈ handledFrames c evs, (f.pgn, f.src) ∈ K) :
    delivered c (init N) evs = (Spec.outputs (isFP c) Spec.empty (handledFrames c evs)).filterMap id :=
  C02_refines_spec c N evs hwf hnt
    (fits_of_few_keys c N K hK _ Spec.empty (fun _ _ h => absurd rfl h) hkeys)

/-- non-vacuity of the hypotheses of `C02_exact_up_to_slot_count` / `C02_refines_spec`: two senders, two slots, an
abandoned message superseded by the next first frame, and the resulting exact delivery -/
example :
    let fr (src b0 b1 : Nat) : Frame := ⟨3, 129029, src, 255, 8, [b0, b1, 1, 2, 3, 4, 5, 6]⟩
    let evs : List (Nat × Frame) :=
      [(0, fr 1 0x20 20), (1, fr 2 0x40 9), (2, fr 1 0x40 9), (3, fr 2 0x41 7), (3, fr 1 0x41 0)]
    (∀ e ∈ evs, WFrame e.2) ∧ (∀ e ∈ evs, isTPOpen e.2 = false) ∧
    ([(129029, 1), (129029, 2)] : List (Nat × Nat)).length ≤ 2 ∧
    (∀ f ∈ handledFrames {} evs, (f.pgn, f.src) ∈ [(129029, 1), (129029, 2)]) ∧
    delivered {} (init 2) evs =
      [⟨3, 129029, 2, 255, 9, [1, 2, 3, 4, 5, 6, 7, 1, 2]⟩, ⟨3, 129029, 1, 255, 9, [1, 2, 3, 4, 5, 6, 0, 1, 2]⟩] := by
  decide

/-- non-vacuity: a 3-frame fast packet (PGN 129029) interleaved with a single frame and a frame of another sender
is delivered, by the executable model, on one slot pair -/
example :
    let fr (src b0 b1 : Nat) : Frame := ⟨3, 129029, src, 255, 8, [b0, b1, 1, 2, 3, 4, 5, 6]⟩
    let evs : List (Nat × Frame) :=
      [(0, fr 1 0x20 9), (1, ⟨6, 127250, 7, 255, 8, [9, 9, 9, 9, 9, 9, 9, 9]⟩), (1, fr 2 0x40 30), (2, fr 1 0x21 7)]
    delivered {} (init 2) evs =
      [⟨6, 127250, 7, 255, 8, [9, 9, 9, 9, 9, 9, 9, 9]⟩, ⟨3, 129029, 1, 255, 9, [1, 2, 3, 4, 5, 6, 7, 1, 2]⟩] := by
  decide

/-- a slot opened by a TP.CM RTS for PGN 126996 from source 9 (data packets lost) is not a continuation target: the
fast packet 126996 of the same source (sequence id 0) that follows is delivered intact; and a PGN that is fast packet
only through `ExtendFastPacketMessages` is reassembled when `ExtendSingleFrameMessages` is configured too -/
example :
    let rts : Frame := ⟨7, 60416, 9, 255, 8, [32, 133, 0, 19, 255, 0x14, 0xF0, 0x01]⟩
    let fr (pgn b0 b1 : Nat) : Frame := ⟨6, pgn, 9, 255, 8, [b0, b1, 1, 2, 3, 4, 5, 6]⟩
    delivered {} (init 3) [(0, rts), (5, fr 126996 0 9), (6, fr 126996 1 7)] =
      [⟨6, 126996, 9, 255, 9, [1, 2, 3, 4, 5, 6, 7, 1, 2]⟩] ∧
    delivered { sf1 := some [65280], fp1 := some [130000] } (init 3) [(5, fr 130000 0 9), (6, fr 130000 1 7)] =
      [⟨6, 130000, 9, 255, 9, [1, 2, 3, 4, 5, 6, 7, 1, 2]⟩] := by
  decide

/-- arrival times are unconstrained in every theorem above; in particular the instant at which the 32-bit millisecond
clock reads 0 is not special: a slot whose first frame arrived at clock value 0 (`msgTime = 0`, the value
`FreeMessage` leaves in a free slot) is busy, and the first frame of another sender in the same millisecond takes another
slot. Executable instance (first frames at 2^32, five slots, both messages delivered): -/
example :
    let fr (pgn src b0 b1 : Nat) : Frame := ⟨3, pgn, src, 255, 8, [b0, b1, 1, 2, 3, 4, 5, 6]⟩
    let evs : List (Nat × Frame) :=
      [(4294967296, fr 129029 30 0x20 9), (4294967296, fr 129540 31 0x40 9),
       (4294967297, fr 129029 30 0x21 7), (4294967298, fr 129540 31 0x41 8)]
    ((run {} (init 5) (evs.take 1)).slot 0).msgTime = 0 ∧ ((run {} (init 5) (evs.take 1)).slot 0).free = false ∧
    delivered {} (init 5) evs =
      [⟨3, 129029, 30, 255, 9, [1, 2, 3, 4, 5, 6, 7, 1, 2]⟩, ⟨3, 129540, 31, 255, 9, [1, 2, 3, 4, 5, 6, 8, 1, 2]⟩] := by
  decide

end N2k.C02
