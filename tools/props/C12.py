"""C12 - heartbeats are sent on schedule with a correct interval field and sequence."""
SPEC = {
    'engine': 'hb', 'harness': 'hb.cpp',
    'repo_srcs': ['N2kMsg.cpp', 'N2kStream.cpp', 'N2kMessages.cpp', 'N2kTimer.cpp', 'N2kGroupFunction.cpp', 'N2kGroupFunctionDefaultHandlers.cpp', 'NMEA2000.cpp', 'N2kDeviceList.cpp'],
    'variants': ['', 't32'],
    'lean_modules': ['N2k.Props.Consts.C12', 'N2k.Props.C12'], 'props_files': ['N2k/Props/Consts/C12.lean', 'N2k/Props/C12.lean'],
    'translators': ['constants', 'pgn_tables'],
    'case_start': ['scenario', 'devlist', 'probe'],
    'oracle_prefixes': ['C12:'],
    'trusted_base': ["model N2k/Model/Heartbeat.lean transcribes tN2kSyncScheduler (N2kTimer.h), SetHeartbeatIntervalAndOffset, "
                     "SendHeartbeat(bool), SendHeartbeat(int), SetN2kPGN126993 and the heartbeat defaults of Open() by hand, on top of the "
                     "send-path model N2k/Model/Send.lean; both are tied to the real code by the differential run (both timer builds)",
                     "the 64-bit clock N2kMillis64() is the unbounded model clock; on the 32-bit build it is the roll counter proved exact in "
                     "C13_roll_counter; 64-bit overflow of NextTime (2^64 ms) is not modelled",
                     "published layout of PGN 126993 (interval: 2 bytes little endian, 10 ms; sequence: byte 2; rest reserved 0xFF) is written "
                     "down in Lemmas/HeartbeatSet.lean (decodeInterval10, seqByte) and independently in harness/hb.cpp"],
    'assumptions': ["the heartbeat is configured after the node has opened (OnOpen or later): Open() applies the defaults 60000/10000 "
                    "unconditionally, so a configuration made before Open() is overwritten, and if it equals the defaults its grid stays "
                    "anchored at the stale static SyncOffset (observed, not part of this check)",
                    "nothing is received and no product/configuration information is pending during the modelled polls (those paths are C08-C10)",
                    "offset special values other than 0xffffffff (keep) are ordinary offsets in the code (the header's 'restore default' for the "
                    "offset is not implemented; (0xffffffff,0xffff) is 'do not change')", "dm_None, default build configuration"],
}
MANIFEST = {
    'text': "Theorems over the model (tree with the four recorded fixes): a heartbeat scheduler polled at ANY list of times always holds the "
            "least point of its grid syncOffset+offset+j*period strictly after its last update, sends only at polls, only after the grid "
            "point has passed and at most once per grid point (late polling delays, never shifts); after ANY history of operations on the "
            "node (clock advances, polls, forced heartbeats, interval/offset changes, claims, back-pressure) every device's scheduler is "
            "off or on its grid; one poll hands at most one heartbeat per device to SendMsg; the sequence bytes of a device's scheduled "
            "heartbeats are c,c+1,...,252,0,... over ANY history while forced ones carry 0xFF and do not count; for EVERY interval up to "
            "655320 ms the message has the published layout and its interval bytes decode at 10 ms resolution to the interval within "
            "10 ms; SetHeartbeatIntervalAndOffset is characterised for EVERY argument, device index and device (keep own / default / "
            "disable / clip to 1000..655320, NextTime); for EVERY received PGN 126208 request the 126993 handler (Model/GroupFunction.lean) passes on only keep / default / 1000..60000 ms, never 0, so a request cannot switch the heartbeat off; in inactive modes none of the three heartbeat entry points hands anything to SendMsg. Correspondence and oracle: real node "
            "behind the mock driver under a virtual clock, both timer builds, 1..9 devices, jittered polls, gaps of several periods, "
            "polls landing on grid points, >253 heartbeats, interval changes at arbitrary times, group-function requests for PGN 126993 arriving over the bus (interval 0, 1..999, 1000, 60000, 60001, restore, keep, random; offsets; parameter pairs), origins near 2^31 and 2^32; the oracle "
            "computes the grid from the observed open time and the configured interval/offset alone and decodes the payload.",
    'design_ref': 'DESIGN.md section 4, C12',
    'note': "Trusted: Lean kernel; hand model tied by the differential run; the clock hypothesis above. The node-level grid theorem "
            "assumes the heartbeat is configured after Open() (RunOk). The group-function request path is covered by "
            "C12_clip_group_function_request over C09's handler model (imported, not re-modelled); the acknowledgement frames are C09's and are not compared here.",
}
