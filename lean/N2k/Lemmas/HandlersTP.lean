import N2k.Lemmas.HandlersNode
import N2k.Lemmas.TPSafeRx
/-! C14 with the node model of C10 (`N2k.TP`) as receive side: raw CAN frames, transport-protocol payloads reassembled by the
model itself; every bus object is a `TP.Node` with the ghost history of transport events (`TP.rxStep`). -/
namespace N2k.Handlers
open N2k.Spec

/-- receive side: per bus object the C10 node and the history of transport events of the frames it handled -/
abbrev TpSide := BusId → N2k.TP.Node × List TpEv

/-- the handler calls a step of the C10 node makes: the entries its handler log `out` gained (`TP.deliver`, the only writer of
`out`, appends the delivery of the completed slot) -/
def tpNew (st : N2k.TP.Node × List TpEv) (s : N2k.TP.RxStep) : List N2k.TP.Delivery :=
  (N2k.TP.rxStep st s).1.out.drop st.1.out.length

/-- a step (`frame` = one frame through `SetN2kCANBufMsg` and delivery, `enqueue`, `poll` = `ParseMessages`, `time`, `send`,
`move`) of the node of bus `e.1` -/
def tpTrackSide (r : TpSide) (e : BusId × N2k.TP.RxStep) : TpSide × List (BusId × N2k.TP.Delivery) :=
  ((fun x => if x = e.1 then N2k.TP.rxStep (r e.1) e.2 else r x), (tpNew (r e.1) e.2).map fun d => (e.1, d))

def TpSideInv (r : TpSide) : Prop := ∀ b, N2k.TP.NodeInv (r b).1 (r b).2

theorem tpTrackSide_inv (r : TpSide) (e : BusId × N2k.TP.RxStep) (h : TpSideInv r) : TpSideInv (tpTrackSide r e).1 := by
  intro b
  show N2k.TP.NodeInv (if b = e.1 then N2k.TP.rxStep (r e.1) e.2 else r b).1 (if b = e.1 then N2k.TP.rxStep (r e.1) e.2 else r b).2
  by_cases hb : b = e.1
  · rw [if_pos hb]; exact N2k.TP.rxStep_inv (r e.1) (h e.1) e.2
  · rw [if_neg hb]; exact h b

end N2k.Handlers
