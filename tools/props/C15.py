"""C15 - setter output follows the published NMEA 2000 field layout (frozen table vs regenerated setter layouts)."""
SPEC = {
    'engine': 'layout', 'harness': 'published.cpp',
    'repo_srcs': ['N2kMsg.cpp', 'N2kStream.cpp', 'N2kMessages.cpp', 'N2kMaretron.cpp', 'N2kTimer.cpp', 'N2kGroupFunction.cpp',
                  'N2kGroupFunctionDefaultHandlers.cpp', 'NMEA2000.cpp'],
    'cxxflags': ['-fsanitize-recover=float-cast-overflow'],
    'lean_modules': ['N2k.Props.C15'], 'props_files': ['N2k/Props/C15.lean'],
    'translators': ['layouts', 'published'],
    'case_start': ['set', 'pgnlist'],
    'trusted_base': [], 'assumptions': [],
}
MANIFEST = {'text': 'tbd', 'design_ref': 'DESIGN.md section 4, C15', 'note': 'tbd'}
