// C08 harness: ISO requests (PGN 59904) fed to the REAL tNMEA2000 behind the scripted mock CAN driver.
// ops:  new <t32|t64> <qsize> <mode> <ndev> <origin>          case start: node constructed, not yet opened
//       prod <dev> <ram|pgm> <ver> <code> <hexModelID> <hexSwCode> <hexModelVersion> <hexSerial> <cert> <load>
//       conf <ram|pgm> <hexManuf|null> <hexInst1|null> <hexInst2|null>      ("-" = empty string)
//       txlist <dev> <pgn>... | rxlist <dev> <pgn>...
//       handler none | handler accept <pgn>... (accepts the listed PGNs only) | handler decline <pgn>... (declines only those)
//       open <qsize> <now> <src:namehex>...   (emitted by the harness: state after open + claim settle)
//       rq <requester> <dst> <pgn>            3-byte 59904 frame received, one ParseMessages()
//       rqraw <requester> <dst> <len> <hex8>  same with an arbitrary DLC 0..8
//       aclaim <src> <namehex>                address claim (60928) received from <src> with NAME, one ParseMessages()
//       poll | t <ms> | claim <dev> | acc <bits> | accdef <0|1>
//       sweep <devs> <lo> <hi>                thorough tier: all PGNs lo..hi-1 in-process against the oracle only
// output of rq/rqraw/poll/claim: "- <frames the driver accepted during the op>"
#include "node.h"
#include <memory>
#include <list>
#include <algorithm>
using namespace vh;
static Ctx C;

struct Node : public MockN2k {
  unsigned char src(int i) { return Devices[i].N2kSource; }
  uint64_t name(int i) { return Devices[i].DeviceInformation.GetName(); }
  void claim(int i) { StartAddressClaim(i); }
  uint16_t maxq() { return MaxCANSendFrames; }
  unsigned queued() { return MaxCANSendFrames ? (CANSendFrameBufferWrite + MaxCANSendFrames - CANSendFrameBufferRead) % MaxCANSendFrames : 0; }
  Frame queuedFrame(unsigned k) {
    tCANSendFrame &q = CANSendFrameBuf[(CANSendFrameBufferRead + 1 + k) % MaxCANSendFrames];
    Frame f; f.id = q.id; f.len = q.len; memcpy(f.buf, q.buf, 8); f.t = g_now; return f;
  }
};

static Node *N = nullptr;
static int nDev = 0, mode = 1;
static bool opened = false;
static std::list<std::vector<unsigned long>> keepLists;
static std::list<std::string> keepStr;
static std::list<tNMEA2000::tProductInformation> keepProd;

// ------------------------------------------------------------------ what the harness configured (oracle side)
struct ProdCfg { bool set = false; unsigned version = 0, code = 0; std::string s[4]; unsigned cert = 0, load = 0; };
static ProdCfg prodCfg[16];
struct ConfCfg { bool pgm = true; bool has[3] = {true, true, true}; std::string s[3]; };   // manuf, inst1, inst2
static ConfCfg confCfg;
static std::vector<unsigned long> declTx[16], declRx[16];
static int hmode = 0;                         // 0 none, 1 accept listed, 2 decline listed
static std::set<unsigned long> hset;
static uint64_t claimUntil[16];
static bool owedProd[16], owedConf[16];   // information the bus has not seen since its send failed
static uint64_t armProdAt[16], armConfAt[16];   // time of the last event that can have (re)armed the retry timer
static bool mayProd[16], mayConf[16];     // a retry timer may be armed: one more correct copy is legitimate
static const unsigned long DEF_TX[] = {59392UL, 59904UL, 60160UL, 60416UL, 60928UL, 126208UL, 126464UL, 126993UL, 126996UL, 126998UL};
static const unsigned long DEF_RX[] = {59392UL, 59904UL, 60160UL, 60416UL, 60928UL, 65240UL, 126208UL};
static const unsigned long IGNORE_BC[] = {127500UL, 130060UL, 130061UL, 130330UL, 130561UL, 130562UL, 130563UL, 130564UL, 130565UL, 130566UL};
static const unsigned long MARKER_PGN = 65330UL;
static bool inIgnore(unsigned long p) { for (unsigned long q : IGNORE_BC) if (p == q) return true; return false; }

struct HSend { int dev; std::vector<unsigned char> data; };
static std::vector<HSend> hsends;             // what the handler sent during the current op
static bool handlerAccepts(unsigned long pgn) { return hmode == 1 ? hset.count(pgn) > 0 : hset.count(pgn) == 0; }
static bool isoHandler(unsigned long pgn, unsigned char requester, int dev) {
  bool acc = handlerAccepts(pgn);
  if (acc) {
    tN2kMsg m; m.SetPGN(MARKER_PGN); m.Priority = 6; m.Destination = 255;
    m.AddByte(pgn & 0xff); m.AddByte((pgn >> 8) & 0xff); m.AddByte((pgn >> 16) & 0xff);
    m.AddByte(requester); m.AddByte((unsigned char)dev); m.AddByte(0xA5); m.AddByte(0x5A); m.AddByte(0xC3);
    hsends.push_back({dev, std::vector<unsigned char>(m.Data, m.Data + 8)});
    N->SendMsg(m, dev);
  }
  return acc;
}

// ------------------------------------------------------------------ independent decoder of the produced frames
struct Dm { unsigned prio; unsigned long pgn; unsigned src, dst; std::vector<unsigned char> d; bool complete; };
static bool isFastAnswer(unsigned long pgn) { return pgn == 126464UL || pgn == 126996UL || pgn == 126998UL; }
static std::vector<Dm> decodeFrames(const std::vector<Frame> &fr) {
  std::vector<Dm> out; int open = -1; unsigned expect = 0, total = 0; unsigned long openId = 0; unsigned openSeq = 0;
  for (auto &f : fr) {
    unsigned long id = f.id & 0x1fffffffUL;
    unsigned prio = (id >> 26) & 7, pf = (id >> 16) & 0xff, ps = (id >> 8) & 0xff, dp = (id >> 24) & 1, src = id & 0xff;
    unsigned long pgn = pf < 240 ? ((unsigned long)dp << 16 | (unsigned long)pf << 8) : ((unsigned long)dp << 16 | (unsigned long)pf << 8 | ps);
    unsigned dst = pf < 240 ? ps : 255;
    if (!isFastAnswer(pgn)) { Dm m{prio, pgn, src, dst, std::vector<unsigned char>(f.buf, f.buf + (f.len > 8 ? 8 : f.len)), true}; out.push_back(m); open = -1; continue; }
    unsigned cnt = f.buf[0] & 0x1f, seq = f.buf[0] >> 5;
    if (cnt == 0) {
      total = f.buf[1]; Dm m{prio, pgn, src, dst, {}, false};
      for (unsigned j = 2; j < 8 && m.d.size() < total; j++) m.d.push_back(f.buf[j]);
      m.complete = m.d.size() >= total; out.push_back(m);
      open = m.complete ? -1 : (int)out.size() - 1; expect = 1; openId = id; openSeq = seq;
    } else if (open >= 0 && id == openId && seq == openSeq && cnt == expect) {
      Dm &m = out[open]; for (unsigned j = 1; j < 8 && m.d.size() < total; j++) m.d.push_back(f.buf[j]);
      expect++; if (m.d.size() >= total) { m.complete = true; open = -1; }
    } else { Dm m{prio, pgn, src, dst, {}, false}; out.push_back(m); open = -1; }   // orphan continuation: an incomplete message
  }
  return out;
}

// ------------------------------------------------------------------ expected answers, written from the property statement
struct Exp { std::string kind; unsigned long pgn; unsigned src, dst; std::vector<unsigned char> d; };
static void put3(std::vector<unsigned char> &v, unsigned long p) { v.push_back(p & 0xff); v.push_back((p >> 8) & 0xff); v.push_back((p >> 16) & 0xff); }
static Exp expClaim(int d) { Exp e{"60928", 60928UL, N->src(d), 255, {}}; uint64_t nm = N->name(d); for (int i = 0; i < 8; i++) e.d.push_back((unsigned char)(nm >> (8 * i))); return e; }
static Exp expList(int d, unsigned requester, bool tx) {
  Exp e{tx ? "126464-tx" : "126464-rx", 126464UL, N->src(d), requester, {}}; e.d.push_back(tx ? 0 : 1);
  std::vector<unsigned long> l(tx ? DEF_TX : DEF_RX, tx ? DEF_TX + 10 : DEF_RX + 7);
  for (unsigned long p : (tx ? declTx[d] : declRx[d])) l.push_back(p);
  if (l.size() > 74) l.resize(74);            // a PGN list message holds at most 74 PGNs (223 byte fast packet)
  for (unsigned long p : l) put3(e.d, p); return e;
}
static void putFix(std::vector<unsigned char> &v, const std::string &s, size_t n) { for (size_t i = 0; i < n; i++) v.push_back(i < s.size() ? (unsigned char)s[i] : 0xff); }
static Exp expProduct(int d) {
  const ProdCfg *p = prodCfg[d].set ? &prodCfg[d] : (prodCfg[0].set ? &prodCfg[0] : nullptr);
  ProdCfg def; def.version = 2101; def.code = 666; def.s[0] = "Arduino N2k->PC"; def.s[1] = "1.0.0.0"; def.s[2] = "1.0.0"; def.s[3] = "00000001"; def.cert = 0; def.load = 1;
  if (!p) p = &def;
  Exp e{"126996", 126996UL, N->src(d), 255, {}};
  e.d.push_back(p->version & 0xff); e.d.push_back(p->version >> 8); e.d.push_back(p->code & 0xff); e.d.push_back(p->code >> 8);
  for (int i = 0; i < 4; i++) putFix(e.d, p->s[i], 32);
  e.d.push_back(p->cert); e.d.push_back(p->load); return e;
}
static bool confAny() { return confCfg.has[0] || confCfg.has[1] || confCfg.has[2]; }
static Exp expConfig(int d) {
  Exp e{"126998", 126998UL, N->src(d), 255, {}};
  size_t lim = confCfg.pgm ? 71 : 70;         // RAM copies keep 70 characters, PROGMEM strings are cut at Max_N2kConfigurationInfoField_len
  int order[3] = {1, 2, 0};                   // installation description 1, 2, manufacturer information
  for (int k : order) { std::string s = confCfg.has[k] ? confCfg.s[k] : std::string(); if (s.size() > lim) s.resize(lim);
    e.d.push_back((unsigned char)(s.size() + 2)); e.d.push_back(1); for (char c : s) e.d.push_back((unsigned char)c); }
  return e;
}
static Exp expNak(int d, unsigned requester, unsigned long pgn) { Exp e{"nak", 59392UL, N->src(d), requester, {1, 0xff, 0xff, 0xff, 0xff}}; put3(e.d, pgn); return e; }

static std::string classOf(unsigned long P, bool addressed) {
  if (P == 60928UL) return "claim"; if (P == 126464UL) return "pgnlist"; if (P == 126996UL) return "product";
  if (P == 126998UL && confAny()) return "config";
  std::string pre = P == 126998UL ? "config-unconfigured" : "";
  std::string c = hmode == 0 ? "nohandler" : (!addressed && inIgnore(P)) ? "ignore-list" : handlerAccepts(P) ? "handler-accept" : "handler-decline";
  return pre.empty() ? c : pre;
}

// expected answers of device d to a request (not claiming)
static std::vector<Exp> expectedFor(int d, unsigned requester, bool addressed, unsigned long P) {
  std::vector<Exp> r;
  if (P == 60928UL) { r.push_back(expClaim(d)); return r; }
  if (P == 126464UL) { r.push_back(expList(d, requester, true)); r.push_back(expList(d, requester, false)); return r; }
  if (P == 126996UL) { r.push_back(expProduct(d)); return r; }
  if (P == 126998UL && confAny()) { r.push_back(expConfig(d)); return r; }
  bool asked = hmode != 0 && (addressed || !inIgnore(P));
  if (asked && handlerAccepts(P)) {
    Exp e{"handler", MARKER_PGN, N->src(d), 255, {}}; put3(e.d, P); e.d.push_back(requester); e.d.push_back(d); e.d.push_back(0xA5); e.d.push_back(0x5A); e.d.push_back(0xC3);
    r.push_back(e); return r;
  }
  if (addressed) r.push_back(expNak(d, requester, P));
  return r;
}
// a received address claim can move a device to a new address in the middle of a poll: what the poll sent before
// that (a due retry) still carries the address the device had when the poll began
static unsigned prevSrc[16];
static bool srcMatches(unsigned esrc, unsigned msrc) { if (esrc == msrc) return true; for (int i = 0; i < nDev; i++) if (N->src(i) == esrc && prevSrc[i] == msrc) return true; return false; }
static bool same(const Exp &e, const Dm &m) { return m.complete && e.pgn == m.pgn && srcMatches(e.src, m.src) && e.dst == m.dst && e.d == m.d; }
static int devOfSrc(unsigned s) { for (int i = 0; i < nDev; i++) if (N->src(i) == s) return i; for (int i = 0; i < nDev; i++) if (prevSrc[i] == s) return i; return -1; }
static int devOfName(const unsigned char *p) { uint64_t nm = 0; for (int i = 0; i < 8; i++) nm |= (uint64_t)p[i] << (8 * i); for (int i = 0; i < nDev; i++) if (N->name(i) == nm) return i; return -1; }
// an address claim identifies its sender by the NAME it carries (several devices may sit on the null address 254)
static int devOfMsg(const Dm &m) { if (m.pgn == 60928UL && m.complete && m.d.size() == 8) { int d = devOfName(m.d.data()); if (d >= 0 && N->src(d) == m.src) return d; } return devOfSrc(m.src); }

struct Viol { std::string key, text; };
struct ReqInfo { bool isRq; unsigned requester, dst; unsigned long P; bool wellFormed; };

// the oracle for one ParseMessages(): `fresh` = frames produced during it (accepted by the driver or queued)
static std::vector<Viol> judge(const ReqInfo &q, const std::vector<Frame> &fresh, bool refusals, bool queuedBefore, std::string &cls, bool &nontrivial) {
  std::vector<Viol> v; std::vector<Dm> dec = decodeFrames(fresh); nontrivial = false;
  bool node = (mode == 1 || mode == 2);
  bool addressed = q.isRq && q.dst != 255;
  cls = q.isRq ? classOf(q.P, addressed) : "poll";
  bool anyOwed = false; for (int i = 0; i < nDev; i++) anyOwed |= owedProd[i] || owedConf[i] || mayProd[i] || mayConf[i];
  bool strict = !refusals && !queuedBefore && !anyOwed;
  char tb[256];
  // group the decoded messages by device
  std::vector<std::vector<Dm>> by(nDev);
  for (auto &m : dec) { int d = devOfMsg(m); if (d < 0) { snprintf(tb, sizeof tb, "frame from address %u which is no device of the node", m.src); v.push_back({"C08:foreign-source:" + cls, tb}); continue; } by[d].push_back(m); }
  for (int d = 0; d < nDev; d++) {
    size_t v0 = v.size();        // violations of earlier devices must not stop the bookkeeping of this one
    bool target = q.isRq && node && (q.dst == 255 || q.dst == N->src(d)) && (q.dst == 255 || q.dst <= 253);
    bool claiming = g_now < claimUntil[d];
    bool edge = claimUntil[d] != 0 && g_now == claimUntil[d];          // the two timer builds differ at this one instant
    std::vector<Exp> exp; if (target && !claiming) exp = expectedFor(d, q.requester, addressed, q.P);
    // a device that could not claim any address (null address 254) can say nothing but its cannot-claim message
    if (N->src(d) == 254) { std::vector<Exp> only; for (auto &e : exp) if (e.pgn == 60928UL) only.push_back(e); exp = only; if (target) C.count("requests_to_null_address_device"); }
    // a retry attempted inside the claim window is refused by SendMsg and re-arms its timer
    if (claiming || edge) { if (owedProd[d]) armProdAt[d] = g_now; if (owedConf[d]) armConfAt[d] = g_now; }
    // --- never: NAK to a broadcast request, NAK to somebody else than the requester, anything while claiming
    for (auto &m : by[d]) {
      if (m.pgn == 59392UL && m.complete && m.d.size() >= 1 && m.d[0] == 1) {
        if (q.isRq && !addressed) { snprintf(tb, sizeof tb, "device %d answered a broadcast request for %lu with a NAK", d, q.P); v.push_back({"C08:broadcast-nak:" + cls, tb}); }
        else if (q.isRq && m.dst != q.requester) { snprintf(tb, sizeof tb, "device %d sent the NAK for %lu to %u, requester is %u", d, q.P, m.dst, q.requester); v.push_back({"C08:nak-destination:" + cls, tb}); }
      }
    }
    if (v.size() > v0) continue;
    if (edge && by[d].empty()) {
      // at the last instant of the window either answer is right (the two timer builds differ by 1 ms); a build that
      // already answers may have had its send refused, which arms a retry: one correct copy may follow later
      C.count("request_at_claim_boundary_unanswered");
      for (auto &e : exp) { if (e.pgn == 126996UL) mayProd[d] = true; if (e.pgn == 126998UL) mayConf[d] = true; }
      continue; }
    if (claiming) { if (target) { nontrivial = true; C.count("requests_inside_claim_window"); } if (!by[d].empty()) { snprintf(tb, sizeof tb, "device %d sent %zu message(s) while claiming", d, by[d].size()); v.push_back({"C08:answered-while-claiming:" + cls, tb}); } continue; }
    if (!exp.empty()) nontrivial = true;
    if (strict) {
      if (!exp.empty() && by[d].empty()) { snprintf(tb, sizeof tb, "device %d (address %u) did not answer the request for %lu from %u", d, N->src(d), q.P, q.requester); v.push_back({"C08:unanswered:" + cls, tb}); continue; }
      // the property does not fix the order of the transmit and the receive list
      if (exp.size() == 2 && exp[0].pgn == 126464UL && exp[1].pgn == 126464UL && !by[d].empty() && same(exp[1], by[d][0])) std::swap(exp[0], exp[1]);
      size_t n = std::min(exp.size(), by[d].size());
      for (size_t i = 0; i < n; i++) if (!same(exp[i], by[d][i])) {
        const Dm &m = by[d][i];
        std::string key = exp[i].pgn != m.pgn ? "C08:wrong-answer:" + cls : exp[i].kind == "nak" ? (m.dst != exp[i].dst ? "C08:nak-destination:" + cls : "C08:nak-bytes") : "C08:content:" + exp[i].kind;
        snprintf(tb, sizeof tb, "device %d request %lu: got pgn %lu dst %u %s%s, want pgn %lu dst %u %s", d, q.P, m.pgn, m.dst, hex(m.d.data(), m.d.size()).substr(0, 60).c_str(), m.complete ? "" : " (incomplete)", exp[i].pgn, exp[i].dst, hex(exp[i].d.data(), exp[i].d.size()).substr(0, 60).c_str());
        v.push_back({key, tb}); break;
      }
      if (v.size() == v0 && by[d].size() > exp.size()) { snprintf(tb, sizeof tb, "device %d request %lu: %zu message(s), %zu expected; extra pgn %lu", d, q.P, by[d].size(), exp.size(), by[d][exp.size()].pgn); v.push_back({"C08:extra-answer:" + cls, tb}); }
      if (v.size() == v0 && by[d].size() < exp.size()) { snprintf(tb, sizeof tb, "device %d request %lu: %zu message(s), %zu expected; missing %s", d, q.P, by[d].size(), exp.size(), exp[by[d].size()].kind.c_str()); v.push_back({"C08:unanswered:" + cls, tb}); }
    } else {
      // the driver refused frames (now or earlier): every complete message must be an expected answer or the retry of a
      // product/configuration information whose earlier send failed; missing product/configuration information is owed
      // (checked at the end of the case); other answers lost to a refusal in THIS poll are counted, not retried
      std::vector<bool> seen(exp.size(), false); bool sawProd = false, sawConf = false, usedProd = false, usedConf = false, anyProd = false, anyConf = false;
      for (auto &m : by[d]) {
        if (m.pgn == 126996UL) anyProd = true;
        if (m.pgn == 126998UL) anyConf = true;
        if (!m.complete) continue;
        bool ok = false;
        for (size_t i = 0; i < exp.size(); i++) if (!seen[i] && same(exp[i], m)) { seen[i] = true; ok = true; break; }
        if (!ok && m.pgn == 126996UL && (owedProd[d] || mayProd[d]) && same(expProduct(d), m)) { usedProd = true; ok = true; C.count("retried_product_information"); }
        if (!ok && m.pgn == 126998UL && (owedConf[d] || mayConf[d]) && same(expConfig(d), m)) { usedConf = true; ok = true; C.count("retried_configuration_information"); }
        if (ok && m.pgn == 126996UL) sawProd = true;
        if (ok && m.pgn == 126998UL) sawConf = true;
        if (!ok) { snprintf(tb, sizeof tb, "device %d request %lu: unexpected message pgn %lu dst %u %s", d, q.P, m.pgn, m.dst, hex(m.d.data(), m.d.size()).substr(0, 60).c_str());
          v.push_back({(m.pgn == 126996UL || m.pgn == 126998UL || m.pgn == 126464UL || m.pgn == 60928UL) ? "C08:content:" + std::to_string(m.pgn) : "C08:extra-answer:" + cls, tb}); }
      }
      bool hadProd = owedProd[d], hadConf = owedConf[d];
      if (sawProd) owedProd[d] = false;      // the information is on the bus: nothing is owed any more
      if (sawConf) owedConf[d] = false;
      if (usedProd) mayProd[d] = false;
      if (usedConf) mayConf[d] = false;
      for (size_t i = 0; i < exp.size(); i++) {
        if (exp[i].pgn == 126996UL) anyProd = true;
        if (exp[i].pgn == 126998UL) anyConf = true;
        if (seen[i]) continue;
        if (!refusals) { snprintf(tb, sizeof tb, "device %d request %lu: no %s although the driver refused nothing", d, q.P, exp[i].kind.c_str()); v.push_back({"C08:unanswered:" + cls, tb}); }
        else if (exp[i].pgn == 126996UL) { if (!sawProd) { owedProd[d] = true; armProdAt[d] = g_now; } }
        else if (exp[i].pgn == 126998UL) { if (!sawConf) { owedConf[d] = true; armConfAt[d] = g_now; } }
        else C.count("answer_lost_to_driver_refusal");
      }
      // a send that failed in this poll re-arms the retry timer: one more (correct) copy may follow later
      if (refusals && (anyProd || hadProd)) mayProd[d] = true;
      if (refusals && (anyConf || hadConf)) mayConf[d] = true;
      // "always answered": an answer whose send was refused is owed until it is on the bus. The library retries product
      // and configuration information 187+8*src / 187+10*src ms after the failed attempt: a poll at which the driver
      // refuses nothing, past that time (counted from the last refusal that can have re-armed the timer), must send it
      if (refusals) { if (owedProd[d]) armProdAt[d] = g_now; if (owedConf[d]) armConfAt[d] = g_now; }
      else {
        if (owedProd[d] && g_now >= armProdAt[d] + 187 + 8 * (uint64_t)N->src(d) + 2) {
          snprintf(tb, sizeof tb, "device %d (address %u) owes its product information since t=%llu; this accepting poll at t=%llu did not send it", d, N->src(d), (unsigned long long)armProdAt[d], (unsigned long long)g_now);
          v.push_back({"C08:retry:product", tb}); owedProd[d] = false; }
        if (owedConf[d] && g_now >= armConfAt[d] + 187 + 10 * (uint64_t)N->src(d) + 2) {
          snprintf(tb, sizeof tb, "device %d (address %u) owes its configuration information since t=%llu; this accepting poll at t=%llu did not send it", d, N->src(d), (unsigned long long)armConfAt[d], (unsigned long long)g_now);
          v.push_back({"C08:retry:config", tb}); owedConf[d] = false; }
      }
    }
  }
  return v;
}

// ------------------------------------------------------------------ running one ParseMessages()
static std::string caseDesc;
static std::string framesStr(const std::vector<Frame> &g) { std::string s; for (auto &f : g) { if (!s.empty()) s += ' '; s += frameStr(f); } return s.empty() ? "-" : s; }

// returns true when the oracle is satisfied; `record` = op line already written (violations are reported)
static bool runParse(const ReqInfo &q, bool record, bool claimRx = false, int loser = -1) {
  unsigned q0 = N->queued(); long r0 = N->refused; hsends.clear();
  unsigned srcBefore[16]; for (int i = 0; i < nDev; i++) srcBefore[i] = prevSrc[i] = N->src(i);
  N->ParseMessages();
  std::vector<Frame> got = N->sent; N->sent.clear();
  std::vector<Frame> stream = got; unsigned qn = N->queued(); for (unsigned k = 0; k < qn; k++) stream.push_back(N->queuedFrame(k));
  std::vector<Frame> fresh(stream.begin() + std::min<size_t>(q0, stream.size()), stream.end());
  bool refusals = N->refused != r0;
  std::vector<std::pair<int, bool>> claims;     // (device, claim for a NEW address) seen in this poll
  if (claimRx) {
    // the node's own address claims in answer to a received claim are not answers to a request: take them out, and
    // note which device announced a new address (its 250 ms claim window starts now - applied after judging)
    std::vector<Frame> rest;
    for (auto &f : fresh) { unsigned pf = (f.id >> 16) & 0xff, dp = (f.id >> 24) & 1; if (pf == 0xEE && dp == 0 && f.len == 8) { int d = devOfName(f.buf); if (d >= 0) { claims.push_back({d, (f.id & 0xff) != srcBefore[d]}); continue; } } rest.push_back(f); }
    fresh = rest;
  }
  std::string cls; bool nontriv = false;
  std::vector<Viol> v = judge(q, fresh, refusals, q0 != 0, cls, nontriv);
  if (getenv("C08_DEBUG")) { fprintf(stderr, "op %ld t=%llu refusals=%d q0=%u qn=%u fresh=%zu |", C.opline, (unsigned long long)g_now, (int)refusals, q0, qn, fresh.size());
    for (auto &m : decodeFrames(fresh)) fprintf(stderr, " [%lu src%u %s %zu]", m.pgn, m.src, m.complete ? "ok" : "part", m.d.size());
    for (int i = 0; i < nDev; i++) fprintf(stderr, " d%d:o%d%d m%d%d cu%llu", i, owedProd[i], owedConf[i], mayProd[i], mayConf[i], (unsigned long long)claimUntil[i]); fprintf(stderr, "\n"); }
  // a device that holds the claimed address and has the higher NAME must give the address up and claim another one (or
  // announce that it cannot): its 250 ms window starts now, whether or not the driver took its claim frame
  if (loser >= 0 && (mode == 1 || mode == 2)) { claimUntil[loser] = g_now + 250; C.count(N->src(loser) == 254 ? "device_driven_to_null_address" : "device_moved_to_next_address");
    if (N->src(loser) == srcBefore[loser]) C.count("lost_claim_but_address_kept"); }   // the claim procedure itself is C03's
  if (record) {
    C.outs(std::string("- ") + framesStr(got));
    for (auto &x : v) C.fail(x.key, "%s", x.text.c_str());
    C.count("class_" + cls);
    if (q.isRq) { C.count(q.dst == 255 ? "requests_broadcast" : "requests_addressed"); if (refusals) C.count("requests_with_driver_refusal"); }
    if (nontriv) { char b[128]; snprintf(b, sizeof b, "%s|%d|%lu|%d|%d|%d", cls.c_str(), q.dst == 255, q.P, nDev, hmode, (int)refusals); C.nontrivial(b); }
  }
  return v.empty();
}

static void endCase() {
  if (N && opened) {
    // flush: the driver accepts everything, time passes, owed product/configuration information must arrive
    N->acceptScript.clear(); N->acceptDefault = true;
    bool any = false; for (int i = 0; i < nDev; i++) any |= owedProd[i] || owedConf[i];
    if (any) {
      for (int k = 0; k < 4; k++) {
        g_now += 3000; N->ParseMessages();
        std::vector<Frame> got = N->sent; N->sent.clear();
        for (auto &m : decodeFrames(got)) { int d = devOfSrc(m.src); if (d < 0 || !m.complete) continue;
          if (m.pgn == 126996UL && same(expProduct(d), m)) owedProd[d] = false;
          if (m.pgn == 126998UL && same(expConfig(d), m)) owedConf[d] = false; }
      }
      for (int i = 0; i < nDev; i++) {
        if (owedProd[i]) C.fail("C08:retry:product", "device %d never sent the product information it owes after a refused send", i);
        if (owedConf[i]) C.fail("C08:retry:config", "device %d never sent the configuration information it owes after a refused send", i);
      }
    }
    C.cases++;
  }
  caseDesc.clear();
}

static unsigned long num(const std::string &s) { return strtoul(s.c_str(), 0, 10); }
static std::string bytesOf(const std::string &hx) { std::vector<unsigned char> b = unhex(hx); return std::string(b.begin(), b.end()); }

static void exec(const std::string &line) {
  std::vector<std::string> w = split(line);
  if (w[0] == "new") {
    endCase(); C.op("%s", line.c_str()); C.count("op_new");
    unsigned qsize = num(w[2]); mode = atoi(w[3].c_str()); nDev = atoi(w[4].c_str()); uint64_t origin = strtoull(w[5].c_str(), 0, 10);
    g_now = origin; delete N; N = new Node(); opened = false; keepLists.clear(); keepStr.clear(); keepProd.clear();
    for (int i = 0; i < 16; i++) { prodCfg[i] = ProdCfg(); declTx[i].clear(); declRx[i].clear(); claimUntil[i] = 0; owedProd[i] = owedConf[i] = mayProd[i] = mayConf[i] = false; armProdAt[i] = armConfAt[i] = 0; }
    confCfg = ConfCfg(); confCfg.s[0] = "NMEA2000 library, https://github.com/ttlappalainen/NMEA2000"; hmode = 0; hset.clear();
    N->SetDeviceCount(nDev);
    for (int i = 0; i < nDev; i++) N->SetDeviceInformation(1000 + 7 * i, 130 + i, 25, 2000 + i, 4, i);
    N->SetMode((tNMEA2000::tN2kMode)mode, 20);
    N->EnableForward(false);
    N->SetN2kCANSendFrameBufSize(qsize);
    C.out("ok"); return;
  }
  if (w[0] == "open") {
    if (!N) { C.op("%s", line.c_str()); C.out("bad-op"); return; }
    openAndSettle(*N, 700);
    N->SetHeartbeatInterval(0, false, -1);       // no heartbeat traffic in this harness ("for test purposes" switch of the library)
    N->sent.clear(); opened = true;
    std::string l = "open"; char b[96]; snprintf(b, sizeof b, " %u %llu", (unsigned)N->maxq(), (unsigned long long)g_now); l += b;
    for (int i = 0; i < nDev; i++) { snprintf(b, sizeof b, " %u:%llx", N->src(i), (unsigned long long)N->name(i)); l += b; }
    C.op("%s", l.c_str());
    if (!N->isOpen()) C.fail("harness:not-open", "node did not open");
    if (N->queued() != 0) C.fail("harness:queue-not-empty", "frames queued after settling");
    C.out("ok"); return;
  }
  C.op("%s", line.c_str()); C.count("op_" + w[0]);
  if (!N) { C.out("bad-op"); return; }
  if (w[0] == "prod" && !opened && w.size() == 11) {
    int d = atoi(w[1].c_str()); if (d < 0 || d >= nDev) { C.out("bad-op"); return; }
    bool pgm = w[2] == "pgm"; unsigned ver = num(w[3]), code = num(w[4]), cert = num(w[9]), load = num(w[10]);
    std::string s[4]; for (int i = 0; i < 4; i++) s[i] = bytesOf(w[5 + i]);
    ProdCfg &p = prodCfg[d]; p.set = true; p.code = code;
    for (int i = 0; i < 4; i++) p.s[i] = s[i].substr(0, 32);
    if (pgm) {
      keepProd.emplace_back(); tNMEA2000::tProductInformation &pi = keepProd.back(); memset(&pi, 0, sizeof pi);
      pi.N2kVersion = ver; pi.ProductCode = code; pi.CertificationLevel = cert; pi.LoadEquivalency = load;
      strncpy(pi.N2kModelID, s[0].c_str(), 32); strncpy(pi.N2kSwCode, s[1].c_str(), 32); strncpy(pi.N2kModelVersion, s[2].c_str(), 32); strncpy(pi.N2kModelSerialCode, s[3].c_str(), 32);
      p.version = ver; p.cert = cert; p.load = load;
      N->SetProductInformation(&pi, d);
    } else {
      // documented defaults of SetProductInformation: 0xffff -> version 2101, 0xff -> certification level 0 / load equivalency 1
      p.version = ver == 0xffff ? 2101 : ver; p.cert = cert == 0xff ? 0 : cert; p.load = load == 0xff ? 1 : load;
      N->SetProductInformation(s[3].c_str(), code, s[0].c_str(), s[1].c_str(), s[2].c_str(), load, ver, cert, d);
    }
    C.out("ok"); return;
  }
  if (w[0] == "conf" && !opened && w.size() == 5) {
    bool pgm = w[1] == "pgm"; const char *ptr[3];
    confCfg.pgm = pgm;
    for (int i = 0; i < 3; i++) { confCfg.has[i] = w[2 + i] != "null"; confCfg.s[i] = confCfg.has[i] ? bytesOf(w[2 + i]) : std::string();
      if (confCfg.has[i]) { keepStr.push_back(confCfg.s[i]); ptr[i] = keepStr.back().c_str(); } else ptr[i] = 0; }
    if (pgm) N->SetProgmemConfigurationInformation(ptr[0], ptr[1], ptr[2]); else N->SetConfigurationInformation(ptr[0], ptr[1], ptr[2]);
    C.out("ok"); return;
  }
  if ((w[0] == "txlist" || w[0] == "rxlist") && w.size() >= 2) {
    int d = atoi(w[1].c_str()); if (d < 0 || d >= nDev) { C.out("bad-op"); return; }
    keepLists.emplace_back(); for (size_t i = 2; i < w.size(); i++) keepLists.back().push_back(num(w[i])); keepLists.back().push_back(0);
    std::vector<unsigned long> l(keepLists.back().begin(), keepLists.back().end() - 1);
    if (w[0] == "txlist") { N->ExtendTransmitMessages(keepLists.back().data(), d); declTx[d] = l; } else { N->ExtendReceiveMessages(keepLists.back().data(), d); declRx[d] = l; }
    C.out("ok"); return;
  }
  if (w[0] == "handler" && w.size() >= 2) {
    hset.clear();
    if (w[1] == "none") { hmode = 0; N->SetISORqstHandler(0); }
    else { hmode = w[1] == "accept" ? 1 : 2; for (size_t i = 2; i < w.size(); i++) hset.insert(num(w[i])); N->SetISORqstHandler(isoHandler); }
    C.out("ok"); return;
  }
  if (w[0] == "acc" && w.size() == 2 && opened) { for (char c : w[1]) N->acceptScript.push_back(c == '1'); C.out("ok"); return; }
  if (w[0] == "accdef" && w.size() == 2 && opened) { N->acceptDefault = w[1] == "1"; C.out("ok"); return; }
  if (w[0] == "t" && w.size() == 2) { g_now += strtoull(w[1].c_str(), 0, 10); C.out("ok"); return; }
  if (!opened) { C.out("bad-op"); return; }
  if (w[0] == "poll") { ReqInfo q{false, 0, 0, 0, true}; runParse(q, true); return; }
  if (w[0] == "claim" && w.size() == 2) {
    int d = atoi(w[1].c_str()); if (d < 0 || d >= nDev) { C.out("bad-op"); return; }
    N->claim(d); if (mode == 1 || mode == 2) claimUntil[d] = g_now + 250;
    std::vector<Frame> got = N->sent; N->sent.clear(); C.outs(std::string("- ") + framesStr(got)); return;
  }
  if (w[0] == "aclaim" && w.size() == 3) {
    unsigned src = num(w[1]) & 0xff; uint64_t nm = strtoull(w[2].c_str(), 0, 16); unsigned char b[8]; for (int i = 0; i < 8; i++) b[i] = (unsigned char)(nm >> (8 * i));
    N->rx((6UL << 26) | (0xEEUL << 16) | (0xFFUL << 8) | src, 8, b);
    int loser = -1; if (src != 254) { int d = devOfSrc(src); if (d >= 0 && N->src(d) == src && nm < N->name(d)) loser = d; }
    ReqInfo q{false, 0, 0, 0, true}; runParse(q, true, true, loser); return;
  }
  if (w[0] == "rq" && w.size() == 4) {
    unsigned requester = num(w[1]) & 0xff, dst = num(w[2]) & 0xff; unsigned long P = num(w[3]) & 0xffffffUL;
    unsigned char b[3] = {(unsigned char)(P & 0xff), (unsigned char)((P >> 8) & 0xff), (unsigned char)((P >> 16) & 0xff)};
    N->rx((6UL << 26) | (0xEAUL << 16) | ((unsigned long)dst << 8) | requester, 3, b);
    ReqInfo q{true, requester, dst, P, true}; runParse(q, true); return;
  }
  if (w[0] == "rqraw" && w.size() == 5) {
    unsigned requester = num(w[1]) & 0xff, dst = num(w[2]) & 0xff; unsigned len = num(w[3]); if (len > 8) len = 8;
    std::vector<unsigned char> d = unhex(w[4]); d.resize(8, 0xAA);
    N->rx((6UL << 26) | (0xEAUL << 16) | ((unsigned long)dst << 8) | requester, (unsigned char)len, d.data());
    // a request of fewer than 3 bytes names no PGN: the library reads it as PGN 0 (and NAKs PGN 0 when addressed)
    unsigned long P = len >= 3 ? (d[0] | (unsigned long)d[1] << 8 | (unsigned long)d[2] << 16) : 0;
    ReqInfo q{true, requester, dst, P, len >= 3}; runParse(q, true); return;
  }
  if (w[0] == "sweep" && w.size() == 4) {
    // all PGNs lo..hi-1, alternately addressed to a device and broadcast, against the oracle only; a PGN whose
    // answer the oracle rejects is run again as a recorded `rq` line (so it is reported and replayable)
    unsigned long lo = num(w[2]), hi = num(w[3]); C.out("ok");
    long bad = 0;
    for (unsigned long P = lo; P < hi; P++) {
      unsigned requester = (unsigned)(P * 2654435761UL >> 13) & 0xff; int d = (int)(P % (unsigned)nDev);
      for (int bc = 0; bc < 2; bc++) {
        unsigned dst = bc ? 255 : N->src(d);
        unsigned char b[3] = {(unsigned char)(P & 0xff), (unsigned char)((P >> 8) & 0xff), (unsigned char)((P >> 16) & 0xff)};
        N->rx((6UL << 26) | (0xEAUL << 16) | ((unsigned long)dst << 8) | requester, 3, b);
        ReqInfo q{true, requester, dst, P, true};
        if (!runParse(q, false) && bad < 20) { bad++; char l[96]; snprintf(l, sizeof l, "rq %u %u %lu", requester, dst, P); exec(l); }
      }
    }
    C.count("sweep_requests", 2 * (long)(hi - lo));
    return;
  }
  C.out("bad-op");
}

// ------------------------------------------------------------------------------------------------ generators
static const unsigned long SPECIAL[] = {60928UL, 126464UL, 126996UL, 126998UL};
static const unsigned long OTHER[] = {0UL, 1UL, 59392UL, 59904UL, 60160UL, 60416UL, 65240UL, 65330UL, 126208UL, 126993UL, 127250UL, 129029UL, 130306UL, 131071UL, 131072UL, 0xFFFFFFUL, 0xEE00UL, 0x1EE00UL, 0x80EE00UL};
static unsigned long genPGN(Rng &R) {
  unsigned k = (unsigned)R.below(100);
  if (k < 22) return SPECIAL[R.below(4)];
  if (k < 30) return SPECIAL[R.below(4)] + (R.chance(1, 2) ? 1 : -1);
  if (k < 42) return IGNORE_BC[R.below(10)];
  if (k < 46) return IGNORE_BC[R.below(10)] + (R.chance(1, 2) ? 1 : -1);
  if (k < 60) return OTHER[R.below(sizeof OTHER / sizeof *OTHER)];
  if (k < 80) return (unsigned long)R.below(1UL << 17);
  return (unsigned long)R.below(1UL << 24);
}
static std::string genStr(Rng &R, size_t limit, bool sevenBit) {
  size_t n;
  unsigned k = (unsigned)R.below(10);
  if (k < 2) n = 0; else if (k < 5) n = (size_t)R.range(1, (int64_t)limit - 1); else if (k < 7) n = limit - 1 + (size_t)R.below(3); else if (k < 9) n = limit + (size_t)R.range(1, 30); else n = (size_t)R.range(1, 8);
  std::string s; for (size_t i = 0; i < n; i++) { unsigned c = sevenBit || R.chance(9, 10) ? (unsigned)R.range(32, 126) : (unsigned)R.range(128, 254); s += (char)c; }
  return s;
}
static std::string hx(const std::string &s) { return hex((const unsigned char *)s.data(), s.size()); }

static void genConfig(Rng &R, int devs) {
  for (int d = 0; d < devs; d++) if (R.chance(d == 0 ? 2 : 1, 3)) {
    bool pgm = R.chance(1, 3); size_t lim = 32;
    std::string s[4]; for (auto &x : s) { x = genStr(R, lim, false); if (pgm && x.size() > 32) x.resize(32); }
    char b[64]; snprintf(b, sizeof b, "prod %d %s %u %u ", d, pgm ? "pgm" : "ram", R.chance(1, 6) ? 0xffffu : (unsigned)R.below(65535), (unsigned)R.below(65536));
    char e[32]; snprintf(e, sizeof e, " %u %u", R.chance(1, 6) ? 255u : (unsigned)R.below(255), R.chance(1, 6) ? 255u : (unsigned)R.below(255));
    exec(std::string(b) + hx(s[0]) + " " + hx(s[1]) + " " + hx(s[2]) + " " + hx(s[3]) + e);
  }
  if (R.chance(2, 3)) {
    bool pgm = R.chance(1, 3); std::string l = std::string("conf ") + (pgm ? "pgm" : "ram");
    bool allNull = R.chance(1, 5);
    for (int i = 0; i < 3; i++) l += " " + ((allNull || R.chance(1, 6)) ? std::string("null") : hx(genStr(R, 70, true)));
    exec(l);
  }
  for (int d = 0; d < devs; d++) {
    for (int tx = 0; tx < 2; tx++) if (R.chance(1, 2)) {
      int n = R.chance(1, 6) ? (int)R.range(60, 80) : (int)R.range(1, 8);
      std::string l = std::string(tx ? "txlist " : "rxlist ") + std::to_string(d);
      for (int i = 0; i < n; i++) l += " " + std::to_string(R.chance(1, 2) ? 127250 + R.below(3000) : 1 + R.below((1UL << 24) - 1));
      exec(l);
    }
  }
  if (R.chance(2, 3)) {
    std::string l = std::string("handler ") + (R.chance(1, 2) ? "accept" : "decline"); int n = (int)R.range(0, 6);
    for (int i = 0; i < n; i++) l += " " + std::to_string(genPGN(R));
    exec(l);
  }
}

static void genRq(Rng &R, int devs, long forcePgn = -1) {
  unsigned requester = R.chance(1, 8) ? (unsigned)R.range(252, 255) : (R.chance(1, 10) ? 20 + (unsigned)R.below(devs) : (unsigned)R.below(252));
  unsigned k = (unsigned)R.below(100); unsigned dst;
  if (k < 50) dst = N->src((int)R.below(devs)); else if (k < 88) dst = 255; else if (k < 94) dst = (unsigned)R.below(256); else dst = 254;
  unsigned long P = forcePgn >= 0 ? (unsigned long)forcePgn : genPGN(R);
  char b[96];
  if (forcePgn < 0 && R.chance(1, 25)) {
    unsigned char d[8]; for (auto &x : d) x = (unsigned char)R.below(256); d[0] = P & 0xff; d[1] = (P >> 8) & 0xff; d[2] = (P >> 16) & 0xff;
    snprintf(b, sizeof b, "rqraw %u %u %u ", requester, dst, (unsigned)R.below(9)); exec(std::string(b) + hex(d, 8)); return;
  }
  snprintf(b, sizeof b, "rq %u %u %lu", requester, dst, P); exec(b);
}

static void newCase(Rng &R, const char *flavor, int devs, int md, unsigned qsize, bool cfg) {
  uint64_t origin = R.chance(1, 3) ? 0xFFFFFFFFULL - R.below(3000) : (R.chance(1, 2) ? R.below(100000) : 0x7FFFFFFFULL - R.below(2000));
  char b[160]; snprintf(b, sizeof b, "new %s %u %d %d %llu", flavor, qsize, md, devs, (unsigned long long)origin); exec(b);
  if (cfg) genConfig(R, devs);
  exec("open");
}

static void randomCase(Rng &R, const char *flavor) {
  int devs = R.chance(1, 3) ? 1 : (int)R.range(1, 9);
  int md = R.chance(1, 10) ? (int)R.below(5) : (R.chance(1, 2) ? 1 : 2);
  unsigned qsize = R.chance(2, 3) ? 40 : (unsigned)R.range(2, 30);
  newCase(R, flavor, devs, md, qsize, true);
  int nops = (int)R.range(10, 60); bool backpressure = R.chance(1, 3);
  for (int i = 0; i < nops; i++) {
    unsigned k = (unsigned)R.below(100);
    if (k < 60) genRq(R, devs);
    else if (k < 66) exec("claim " + std::to_string(R.below(devs)));
    else if (k < 68) { char cb[64]; snprintf(cb, sizeof cb, "aclaim %u %s", R.chance(4, 5) ? (unsigned)N->src((int)R.below(devs)) : (unsigned)R.below(256), R.chance(1, 2) ? "0" : "ffffffffffffffff"); exec(cb); }
    else if (k < 82) exec("t " + std::to_string(R.chance(1, 3) ? R.range(0, 5) : (R.chance(1, 2) ? R.range(240, 260) : R.range(0, 2500))));
    else if (k < 90) exec("poll");
    else if (backpressure && k < 96) { std::string bits; int n = (int)R.range(1, 30); for (int j = 0; j < n; j++) bits += R.chance(1, 2) ? '1' : '0'; exec("acc " + bits); }
    else if (backpressure) exec(std::string("accdef ") + (R.chance(1, 2) ? "1" : "0"));
    else exec("poll");
  }
}

// refused product / configuration information is retried by a later poll
static void retryCase(Rng &R, const char *flavor) {
  int devs = (int)R.range(1, 4);
  newCase(R, flavor, devs, 1, R.chance(1, 2) ? 40 : (unsigned)R.range(2, 12), R.chance(1, 2));
  for (int round = 0; round < 3; round++) {
    exec("accdef 0");
    if (R.chance(1, 2)) { std::string bits; int n = (int)R.range(1, 12); for (int j = 0; j < n; j++) bits += R.chance(1, 2) ? '1' : '0'; exec("acc " + bits); }
    genRq(R, devs, R.chance(1, 2) ? 126996 : 126998);
    if (R.chance(1, 2)) genRq(R, devs, R.chance(1, 2) ? 126996 : (R.chance(1, 2) ? 126998 : 4711));
    exec("t " + std::to_string(R.range(0, 400))); exec("poll");
    exec("accdef 1");
    for (int k = 0; k < 4; k++) { exec("t " + std::to_string(R.chance(1, 2) ? R.range(150, 250) : R.range(0, 700))); exec("poll"); }
  }
}

// product AND configuration information refused for the same device(s): both retry timers are armed at the same time
// (187+8*src and 187+10*src ms); polls between the two deadlines and after both, with the driver accepting again
static void bothPendingCase(Rng &R, const char *flavor, int shape) {
  int devs = shape % 3 == 0 ? 1 : (int)R.range(2, 4);
  newCase(R, flavor, devs, R.chance(1, 2) ? 1 : 2, (unsigned)R.range(2, 9), R.chance(1, 3));
  int rounds = (int)R.range(1, 2);
  for (int round = 0; round < rounds; round++) {
    exec("accdef 0");
    int d1 = (int)R.below(devs), d2 = shape % 3 == 1 ? (d1 + 1) % devs : d1; bool bc = shape % 3 == 2;
    unsigned r1 = (unsigned)R.below(250), r2 = (unsigned)R.below(250); char b[96];
    bool confFirst = R.chance(1, 2);
    for (int k = 0; k < 2; k++) {
      bool conf = (k == 0) == confFirst;
      snprintf(b, sizeof b, "rq %u %u %lu", conf ? r2 : r1, bc ? 255u : (unsigned)N->src(conf ? d2 : d1), conf ? 126998UL : 126996UL); exec(b);
    }
    if (R.chance(1, 3)) exec("poll");
    exec("accdef 1");
    unsigned s = N->src(d1);
    // between the deadlines of device d1, then past both, then far past
    uint64_t between = 187 + 8 * s + 1 + R.below(2 * s - 1);
    if (R.chance(1, 4)) { uint64_t e = (uint64_t)R.range(0, 186); exec("t " + std::to_string(e)); exec("poll"); between -= e; }
    exec("t " + std::to_string(between)); exec("poll");
    exec("t " + std::to_string(R.range(2 * s + 2, 300))); exec("poll");
    if (R.chance(1, 2)) { exec("t " + std::to_string(R.range(0, 3000))); exec("poll"); }
  }
}

// a device loses every address (252 contested claims with a lower NAME, inside the claim windows) and ends on the null
// address 254 with its cannot-claim message; requests arrive inside, at the edge of and after the 250 ms window
static void nullAddressCase(Rng &R, const char *flavor) {
  int devs = (int)R.range(1, 3);
  newCase(R, flavor, devs, R.chance(1, 2) ? 1 : 2, 40, R.chance(1, 2));
  int d = (int)R.below(devs); char b[96];
  for (int guard = 0; guard < 400 && N->src(d) != 254; guard++) { snprintf(b, sizeof b, "aclaim %u %llx", N->src(d), (unsigned long long)R.below(1000)); exec(b); }
  if (N->src(d) != 254) { C.fail("harness:null-address-not-reached", "device %d still at %u", d, N->src(d)); return; }
  uint64_t spent = 0;
  auto ask = [&](unsigned long P) { snprintf(b, sizeof b, "rq %u 255 %lu", (unsigned)R.below(250), P); exec(b); };
  ask(60928); if (R.chance(1, 2)) ask(126996);
  uint64_t t1 = (uint64_t)R.range(1, 248); exec("t " + std::to_string(t1)); spent += t1; ask(60928); ask(R.chance(1, 2) ? 126996UL : 126464UL);
  if (R.chance(1, 2)) { uint64_t t2 = (uint64_t)R.range(0, 249 - (int64_t)spent); exec("t " + std::to_string(t2)); spent += t2; ask(60928); }
  exec("t " + std::to_string(250 - spent)); ask(60928);          // the edge instant
  exec("t 1"); ask(60928); ask(126996); ask(4711);
  exec("t " + std::to_string(R.range(0, 600))); exec("poll"); ask(60928);
  if (R.chance(1, 2)) { snprintf(b, sizeof b, "rq %u 254 60928", (unsigned)R.below(250)); exec(b); }
}

// timers armed to land exactly on (or next to) the 32-bit scheduler's "disabled" sentinel 0xFFFFFFFF: a claim started at
// 0xFFFFFFFF-250 and a product / configuration retry armed at 0xFFFFFFFF-(187+8*src) / -(187+10*src)
static void sentinelCase(Rng &R, const char *flavor, int kind) {
  int devs = (int)R.range(1, 3); int d = (int)R.below(devs); unsigned src = 20 + (unsigned)d;
  uint64_t delay = kind == 0 ? 250 : (kind == 1 ? 187 + 8 * src : 187 + 10 * src);
  uint64_t target = 0xFFFFFFFFULL - delay + (uint64_t)R.range(-1, 1) * (R.chance(1, 3) ? 1 : 0);   // mostly exact, sometimes +-1
  char b[160]; snprintf(b, sizeof b, "new %s %u 1 %d %llu", flavor, kind == 0 ? 40u : (unsigned)R.range(2, 8), devs, (unsigned long long)(target - 700 - (uint64_t)R.range(1, 400))); exec(b);
  exec("open");
  if (g_now > target) return;
  exec("t " + std::to_string(target - g_now));
  if (kind == 0) {
    exec("claim " + std::to_string(d));
    for (int k = 0; k < 4; k++) {
      snprintf(b, sizeof b, "rq %u %u %lu", (unsigned)R.below(250), R.chance(1, 2) ? 255u : src, R.chance(1, 2) ? 60928UL : (R.chance(1, 2) ? 126996UL : 4711UL)); exec(b);
      exec("t " + std::to_string(R.range(1, 60)));
    }
    exec("t 260"); snprintf(b, sizeof b, "rq %u %u 4711", (unsigned)R.below(250), src); exec(b);
  } else {
    exec("accdef 0");
    snprintf(b, sizeof b, "rq %u %u %lu", (unsigned)R.below(250), R.chance(1, 4) ? 255u : src, kind == 1 ? 126996UL : 126998UL); exec(b);
    exec("accdef 1");
    exec("t " + std::to_string(delay + 2 + (uint64_t)R.range(0, 50))); exec("poll");
    exec("t " + std::to_string(R.range(100, 600))); exec("poll");
  }
}

int main(int argc, char **argv) {
  C.init(argc, argv);
  C.rule = "case = one node (new..) with its op sequence; non-trivial = a request that must draw an answer or falls into a claim window; distinct = (answer class, addressed/broadcast, requested PGN, device count, handler mode, driver refusal)";
#ifdef N2K_VERIF_T32
  const char *flavor = "t32";
#else
  const char *flavor = "t64";
#endif
  if (!C.replay.empty()) {
    for (auto &l : readLines(C.replay)) {
      std::vector<std::string> w = split(l);
      if (w[0] == "new" && w.size() >= 6) { exec("new " + std::string(flavor) + " " + w[2] + " " + w[3] + " " + w[4] + " " + w[5]); }
      else if (w[0] == "open") exec("open");
      else exec(l);
    }
    endCase(); C.finish(); return 0;
  }
  Rng R(C.seed * 0x9E3779B1ULL + 0xC08);
  // (1) the special PGNs +-1, the ten broadcast-ignore PGNs and other notable values: addressed to every device and broadcast
  for (int variant = 0; variant < 4; variant++) {
    int devs = variant == 0 ? 1 : (variant == 1 ? 3 : (variant == 2 ? 9 : 2));
    char b[160]; snprintf(b, sizeof b, "new %s 40 %d %d %llu", flavor, variant == 3 ? 2 : 1, devs, (unsigned long long)(1000 + 50000ULL * variant)); exec(b);
    if (variant == 1) exec("handler accept 4711 127500 130061 126997 60929 126998");
    if (variant == 2) exec("handler decline 4711 130060 130566 126465");
    if (variant == 3) { exec("conf ram null null null"); exec("handler accept 130562"); }
    exec("open");
    std::vector<unsigned long> pg;
    for (unsigned long s : SPECIAL) { pg.push_back(s - 1); pg.push_back(s); pg.push_back(s + 1); }
    for (unsigned long s : IGNORE_BC) pg.push_back(s);
    for (unsigned long s : OTHER) pg.push_back(s);
    pg.push_back(4711); pg.push_back(126465); pg.push_back(126997);
    for (unsigned long P : pg) {
      for (int d = 0; d < devs; d += (devs > 4 ? 4 : 1)) { snprintf(b, sizeof b, "rq %u %u %lu", (unsigned)R.below(254), N->src(d), P); exec(b); }
      snprintf(b, sizeof b, "rq %u 255 %lu", (unsigned)R.below(254), P); exec(b);
    }
  }
  C.sample("special sweep: every special PGN +-1, the ten broadcast-ignore PGNs and notable values, addressed to each device and broadcast, 1/3/9/2 devices, no handler / accepting / declining handler / nothing configured");
  // (2) random PGNs over the whole 24-bit space through the model
  {
    char b[160]; snprintf(b, sizeof b, "new %s 40 1 2 77000", flavor); exec(b); exec("handler accept 1 2 3 65536 131072"); exec("open");
    int n = C.thorough ? 20000 : 3000;
    for (int i = 0; i < n; i++) { unsigned long P = R.chance(1, 2) ? (unsigned long)R.below(1UL << 24) : (unsigned long)R.below(1UL << 17);
      snprintf(b, sizeof b, "rq %u %u %lu", (unsigned)R.below(256), R.chance(1, 2) ? 255u : (unsigned)N->src((int)R.below(2)), P); exec(b); }
  }
  // (3) random configurations and histories
  int ncases = C.thorough ? 3000 : 400;
  for (int i = 0; i < ncases; i++) { randomCase(R, flavor); if (i % 4 == 0) retryCase(R, flavor); if (i % 4 == 1) bothPendingCase(R, flavor, i / 4); if (i % 40 == 2) nullAddressCase(R, flavor); if (i % 10 == 3) sentinelCase(R, flavor, (i / 10) % 3); }
  // (4) thorough: all 2^24 PGNs against the oracle, and a stratified subset through the model
  if (C.thorough) {
    char b[160]; snprintf(b, sizeof b, "new %s 40 1 3 123456", flavor); exec(b);
    exec("handler accept 4711 127500 130061 8388608 16777215 126997"); exec("open");
    exec("sweep 3 0 16777216");
    C.sample("sweep: every requested PGN 0..2^24-1, addressed and broadcast, 3 devices, accepting handler for 6 PGNs, oracle only");
    snprintf(b, sizeof b, "new %s 40 2 2 99000", flavor); exec(b); exec("handler decline 127500 130061 5"); exec("open");
    unsigned long off = (unsigned long)R.below(64);
    for (unsigned long P = off; P < (1UL << 24); P += 64) { snprintf(b, sizeof b, "rq %u %u %lu", (unsigned)(P >> 6) & 0xff, (P >> 14) & 1 ? 255u : (unsigned)N->src((int)((P >> 15) & 1)), P); exec(b); }
    C.sample("stratified: one PGN of every block of 64 over 0..2^24-1 through the model (2^18 requests)");
  }
  endCase();
  C.finish();
  return 0;
}
