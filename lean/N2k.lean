-- Root of the `N2k` library.
import N2k.Basic.Win
import N2k.Model.RingBuffer
import N2k.Lemmas.PriorityRing
