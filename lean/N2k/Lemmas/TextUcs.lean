import N2k.Lemmas.TextRound
/-! UCS-2 round trip of `N2k.Model.Text` (C16): well-formed UTF-8 text through `AddVarStr` (unicode) and
`GetVarStr`. Core Lean only. -/
namespace N2k.Text

/-- a well-formed UTF-8 character, given by the payload bits of its bytes:
`a b` = the byte `b`; `two x y` = `0xC0+x, 0x80+y`; `three x y z` = `0xE0+x, 0x80+y, 0x80+z`;
`four x y z w` = `0xF0+x, 0x80+y, 0x80+z, 0x80+w` -/
inductive Chr where
  | a (b : Nat)
  | two (x y : Nat)
  | three (x y z : Nat)
  | four (x y z w : Nat)

/-- well-formed: ASCII without NUL; 2- and 3-byte sequences not overlong; 4-byte lead 0xF0..0xF7 -/
def Chr.WF : Chr → Prop
  | .a b => 0 < b ∧ b < 0x80
  | .two x y => 2 ≤ x ∧ x < 32 ∧ y < 64
  | .three x y z => x < 16 ∧ y < 64 ∧ z < 64 ∧ (x = 0 → 32 ≤ y)
  | .four x y z w => x < 8 ∧ y < 64 ∧ z < 64 ∧ w < 64

def Chr.isAscii : Chr → Bool
  | .a _ => true
  | _ => false

/-- the UTF-8 bytes of the character -/
def Chr.bytes : Chr → List Nat
  | .a b => [b]
  | .two x y => [0xC0 + x, 0x80 + y]
  | .three x y z => [0xE0 + x, 0x80 + y, 0x80 + z]
  | .four x y z w => [0xF0 + x, 0x80 + y, 0x80 + z, 0x80 + w]

/-- the UCS-2 code unit stored for it: its code point, or '?' beyond the Basic Multilingual Plane -/
def Chr.unit : Chr → Nat
  | .a b => b
  | .two x y => x * 64 + y
  | .three x y z => x * 4096 + y * 64 + z
  | .four _ _ _ _ => 0x3F

/-- what is read back: the same bytes, or '?' for a 4-byte sequence -/
def Chr.back : Chr → List Nat
  | .four _ _ _ _ => [0x3F]
  | c => c.bytes

def unitBytes (c : Chr) : List Nat := [c.unit % 256, (c.unit >>> 8) % 256]

/-! ### bit facts -/

theorem lor3 (x y z : Nat) (hy : y < 64) (hz : z < 64) :
    (x <<< 12 ||| y <<< 6 ||| z) = x * 4096 + y * 64 + z := by
  have h1 : x <<< 12 ||| y <<< 6 = x <<< 12 + y <<< 6 :=
    (Nat.shiftLeft_add_eq_or_of_lt (by rw [Nat.shiftLeft_eq]; omega : y <<< 6 < 2 ^ 12) x).symm
  have h2 : x <<< 12 + y <<< 6 = (x * 64 + y) <<< 6 := by simp only [Nat.shiftLeft_eq]; omega
  rw [h1, h2, ← Nat.shiftLeft_add_eq_or_of_lt (by omega : z < 2 ^ 6)]
  simp only [Nat.shiftLeft_eq]; omega
theorem lor2 (x y : Nat) (hy : y < 64) : (x <<< 6 ||| y) = x * 64 + y := by
  rw [← Nat.shiftLeft_add_eq_or_of_lt (by omega : y < 2 ^ 6)]
  simp only [Nat.shiftLeft_eq]
theorem and63 (u : Nat) : u &&& 0x3F = u % 64 := Nat.and_two_pow_sub_one_eq_mod u 6
theorem shr6 (u : Nat) : u >>> 6 = u / 64 := Nat.shiftRight_eq_div_pow u 6
theorem or80 : ∀ z, z < 64 → 0x80 ||| z = 0x80 + z := by decide
theorem orC0 : ∀ z, z < 32 → 0xC0 ||| z = 0xC0 + z := by decide
theorem orE0 : ∀ z, z < 16 → 0xE0 ||| z = 0xE0 + z := by decide
theorem and3F : ∀ y, y < 64 → (0x80 + y) &&& 0x3F = y := by decide
theorem and1F : ∀ y, y < 32 → (0xC0 + y) &&& 0x1F = y := by decide
theorem and0F : ∀ y, y < 16 → (0xE0 + y) &&& 0x0F = y := by decide
theorem contC : ∀ y, y < 64 → (0x80 + y) &&& 0xC0 = 0x80 := by decide
theorem seqLen2 : ∀ x, x < 32 → seqLen (0xC0 + x) = 2 := by decide
theorem seqLen3 : ∀ x, x < 16 → seqLen (0xE0 + x) = 3 := by decide
theorem seqLen4 : ∀ x, x < 8 → seqLen (0xF0 + x) = 4 := by decide

theorem recomb (u : Nat) (h : u < 65536) : (u % 256 + ((u >>> 8) % 256) <<< 8) % 65536 = u := by
  simp only [Nat.shiftRight_eq_div_pow, Nat.shiftLeft_eq]; omega

/-! ### one conversion step on a well-formed character -/

theorem Chr.bytes_head_ne (c : Chr) (h : c.WF) : ∃ b t, c.bytes = b :: t ∧ b ≠ 0 := by
  cases c with
  | a b => exact ⟨b, [], rfl, by simp [Chr.WF] at h; omega⟩
  | two x y => exact ⟨_, _, rfl, by omega⟩
  | three x y z => exact ⟨_, _, rfl, by omega⟩
  | four x y z w => exact ⟨_, _, rfl, by omega⟩

theorem ucs2Step_chr (c : Chr) (h : c.WF) (rest : List Nat) :
    ∃ b t, c.bytes = b :: t ∧ b ≠ 0 ∧
      ucs2Step (.at (c.bytes ++ rest)) b = .ok (c.bytes.length, c.unit) ∧
      (Ptr.at (c.bytes ++ rest)).add c.bytes.length = .at rest := by
  cases c with
  | a b =>
    simp only [Chr.WF] at h
    have hb : b ≠ 0 := by omega
    refine ⟨b, [], rfl, hb, ?_, ?_⟩
    · simp [ucs2Step, Chr.bytes, Chr.unit, seqLen_ascii b h.2]
    · simp [Chr.bytes, add_one_at b rest hb]
  | two x y =>
    simp only [Chr.WF] at h
    have hb : 0xC0 + x ≠ 0 := by omega
    have hy : 0x80 + y ≠ 0 := by omega
    refine ⟨_, _, rfl, hb, ?_, ?_⟩
    · simp only [ucs2Step, Chr.bytes, seqLen2 x h.2.1, List.cons_append, List.nil_append, utf8SeqBytes,
        add_one_at _ _ hb, seqBytesLoop, Ptr.deref_at, List.headD_cons, bind_ok, contC y h.2.2, if_true,
        pure_eq, List.length_cons, List.length_nil, and1F x h.2.1, and3F y h.2.2, lor2 x y h.2.2, Chr.unit]
    · simp only [Chr.bytes, List.cons_append, List.nil_append, List.length_cons, List.length_nil]
      rw [Ptr.add_cons _ 1 hb, Ptr.add_cons _ 0 hy, Ptr.add_zero]
  | three x y z =>
    simp only [Chr.WF] at h
    have hb : 0xE0 + x ≠ 0 := by omega
    have hy : 0x80 + y ≠ 0 := by omega
    have hz : 0x80 + z ≠ 0 := by omega
    refine ⟨_, _, rfl, hb, ?_, ?_⟩
    · simp only [ucs2Step, Chr.bytes, seqLen3 x h.1, List.cons_append, List.nil_append, utf8SeqBytes,
        add_one_at _ _ hb, add_one_at _ _ hy, seqBytesLoop, Ptr.deref_at, List.headD_cons, bind_ok, contC y h.2.1,
        contC z h.2.2.1, if_true, pure_eq, List.length_cons, List.length_nil, and0F x h.1, and3F y h.2.1,
        Chr.unit]
      rw [Ptr.add_cons _ 1 hb, add_one_at _ _ hy]
      simp only [Ptr.deref_at, List.headD_cons, bind_ok, and3F z h.2.2.1, lor3 x y z h.2.1 h.2.2.1]
    · simp only [Chr.bytes, List.cons_append, List.nil_append, List.length_cons, List.length_nil]
      rw [Ptr.add_cons _ 2 hb, Ptr.add_cons _ 1 hy, Ptr.add_cons _ 0 hz, Ptr.add_zero]
  | four x y z w =>
    simp only [Chr.WF] at h
    have hb : 0xF0 + x ≠ 0 := by omega
    have hy : 0x80 + y ≠ 0 := by omega
    have hz : 0x80 + z ≠ 0 := by omega
    have hw : 0x80 + w ≠ 0 := by omega
    refine ⟨_, _, rfl, hb, ?_, ?_⟩
    · simp only [ucs2Step, Chr.bytes, seqLen4 x h.1, List.cons_append, List.nil_append, utf8SeqBytes,
        add_one_at _ _ hb, add_one_at _ _ hy, add_one_at _ _ hz, seqBytesLoop, Ptr.deref_at, List.headD_cons,
        bind_ok, contC y h.2.1, contC z h.2.2.1, contC w h.2.2.2, if_true, pure_eq, List.length_cons,
        List.length_nil, Chr.unit]
    · simp only [Chr.bytes, List.cons_append, List.nil_append, List.length_cons, List.length_nil]
      rw [Ptr.add_cons _ 3 hb, Ptr.add_cons _ 2 hy, Ptr.add_cons _ 1 hz, Ptr.add_cons _ 0 hw, Ptr.add_zero]

/-- the UTF-8 text of a character list -/
def utf8 (cs : List Chr) : List Nat := cs.flatMap Chr.bytes

theorem utf8_cons (c : Chr) (t : List Chr) : utf8 (c :: t) = c.bytes ++ utf8 t := by simp [utf8]

theorem bytes_length_pos (c : Chr) : 1 ≤ c.bytes.length := by cases c <;> simp [Chr.bytes]

/-- `N2kUTF8ToUCS2` on well-formed text: the code units of the first `min #chars (room/2)` characters -/
theorem u2uLoop_chars (cs : List Chr) (hwf : ∀ c ∈ cs, c.WF) (f bi len bufLen : Nat) (d : D)
    (hf : (utf8 cs).length < f) (hb : bi + bufLen ≤ MaxDataLen + len) :
    u2uLoop f (.at (utf8 cs)) bi len bufLen d
      = .ok (blit d bi ((cs.take (min cs.length ((bufLen - len) / 2))).flatMap unitBytes),
             len + 2 * min cs.length ((bufLen - len) / 2)) := by
  induction cs generalizing f bi len d with
  | nil =>
    obtain ⟨f, rfl⟩ : ∃ f', f = f' + 1 := ⟨f - 1, by omega⟩
    simp [utf8, u2uLoop]
  | cons c t ih =>
    obtain ⟨f, rfl⟩ : ∃ f', f = f' + 1 := ⟨f - 1, by omega⟩
    obtain ⟨b, tl, hbytes, hb0, hstep, hadd⟩ := ucs2Step_chr c (hwf c (by simp)) (utf8 t)
    rw [utf8_cons]
    have hderef : (Ptr.at (c.bytes ++ utf8 t)).deref = .ok b := by rw [hbytes]; rfl
    by_cases hc : b ≠ 0 ∧ len + 2 ≤ bufLen
    · have hw1 : bi < MaxDataLen := by omega
      have hw2 : bi + 1 < MaxDataLen := by omega
      have hlen := bytes_length_pos c
      simp only [u2uLoop, hderef, bind_ok, if_pos hc, hstep, wr_ok hw1, wr_ok hw2, hadd]
      rw [ih (fun x hx => hwf x (by simp [hx])) f (bi + 2) (len + 2) _
        (by rw [utf8_cons, List.length_append] at hf; omega) (by omega)]
      have hk : min (c :: t).length ((bufLen - len) / 2) = min t.length ((bufLen - (len + 2)) / 2) + 1 := by
        simp only [List.length_cons]; omega
      rw [hk, List.take_succ_cons, List.flatMap_cons]
      simp only [unitBytes, List.cons_append, List.nil_append]
      rw [← blit_cons, ← blit_cons]
      simp only [Except.ok.injEq, Prod.mk.injEq]
      exact ⟨trivial, by omega⟩
    · have hk : min (c :: t).length ((bufLen - len) / 2) = 0 := by
        have : ¬ len + 2 ≤ bufLen := fun h => hc ⟨hb0, h⟩
        omega
      rw [hk]
      simp [u2uLoop, hderef, if_neg hc]

/-! ### `N2kRequireUnicode` on well-formed text with a multi-byte character -/

theorem ruLoop_chars (cs : List Chr) (hwf : ∀ c ∈ cs, c.WF) (hmb : ∃ c ∈ cs, c.isAscii = false) (f : Nat)
    (hf : (utf8 cs).length < f) :
    ruLoop f (.at (utf8 cs)) ((utf8 cs).headD 0) = .ok true := by
  induction cs generalizing f with
  | nil => obtain ⟨c, hc, _⟩ := hmb; simp at hc
  | cons c t ih =>
    obtain ⟨f, rfl⟩ : ∃ f', f = f' + 1 := ⟨f - 1, by omega⟩
    have hc := hwf c (by simp)
    rw [utf8_cons]
    cases c with
    | a b =>
      simp only [Chr.WF] at hc
      have hb : b ≠ 0 := by omega
      have hmb' : ∃ c ∈ t, c.isAscii = false := by
        obtain ⟨x, hx, hx2⟩ := hmb
        simp only [List.mem_cons] at hx
        rcases hx with rfl | hx
        · simp [Chr.isAscii] at hx2
        · exact ⟨x, hx, hx2⟩
      show ruLoop (f + 1) (.at (b :: utf8 t)) b = .ok true
      simp only [ruLoop, if_neg hb, seqLen_ascii b hc.2, add_one_at b _ hb, Ptr.deref_at, bind_ok]
      simp only [Nat.sub_self, ruCont, bind_ok, pure_eq]
      exact ih (fun x hx => hwf x (by simp [hx])) hmb' f
        (by rw [utf8_cons] at hf; simp [Chr.bytes] at hf; omega)
    | two x y =>
      simp only [Chr.WF] at hc
      have hb : 0xC0 + x ≠ 0 := by omega
      have hy : 0x80 + y ≠ 0 := by omega
      have hny : ¬ ((0x80 + y) &&& 0xC0 ≠ 0x80) := by simp [contC y hc.2.2]
      show ruLoop (f + 1) (.at ((0xC0 + x) :: (0x80 + y) :: utf8 t)) (0xC0 + x) = .ok true
      simp only [ruLoop, if_neg hb, seqLen2 x hc.2.1, add_one_at _ _ hb, add_one_at _ _ hy, Ptr.deref_at, bind_ok,
        List.headD_cons, ruCont, if_neg hny]
      rfl
    | three x y z =>
      simp only [Chr.WF] at hc
      have hb : 0xE0 + x ≠ 0 := by omega
      have hy : 0x80 + y ≠ 0 := by omega
      have hz : 0x80 + z ≠ 0 := by omega
      have hny : ¬ ((0x80 + y) &&& 0xC0 ≠ 0x80) := by simp [contC y hc.2.1]
      have hnz : ¬ ((0x80 + z) &&& 0xC0 ≠ 0x80) := by simp [contC z hc.2.2.1]
      show ruLoop (f + 1) (.at ((0xE0 + x) :: (0x80 + y) :: (0x80 + z) :: utf8 t)) (0xE0 + x) = .ok true
      simp only [ruLoop, if_neg hb, seqLen3 x hc.1, add_one_at _ _ hb, add_one_at _ _ hy, add_one_at _ _ hz,
        Ptr.deref_at, bind_ok, List.headD_cons, ruCont, if_neg hny, if_neg hnz]
      rfl
    | four x y z w =>
      simp only [Chr.WF] at hc
      have hb : 0xF0 + x ≠ 0 := by omega
      have hy : 0x80 + y ≠ 0 := by omega
      have hz : 0x80 + z ≠ 0 := by omega
      have hw : 0x80 + w ≠ 0 := by omega
      have hny : ¬ ((0x80 + y) &&& 0xC0 ≠ 0x80) := by simp [contC y hc.2.1]
      have hnz : ¬ ((0x80 + z) &&& 0xC0 ≠ 0x80) := by simp [contC z hc.2.2.1]
      have hnw : ¬ ((0x80 + w) &&& 0xC0 ≠ 0x80) := by simp [contC w hc.2.2.2]
      show ruLoop (f + 1) (.at ((0xF0 + x) :: (0x80 + y) :: (0x80 + z) :: (0x80 + w) :: utf8 t)) (0xF0 + x) = .ok true
      simp only [ruLoop, if_neg hb, seqLen4 x hc.1, add_one_at _ _ hb, add_one_at _ _ hy, add_one_at _ _ hz,
        add_one_at _ _ hw, Ptr.deref_at, bind_ok, List.headD_cons, ruCont, if_neg hny, if_neg hnz, if_neg hnw]
      rfl

theorem requireUnicode_chars (cs : List Chr) (hwf : ∀ c ∈ cs, c.WF) (hmb : ∃ c ∈ cs, c.isAscii = false) :
    requireUnicode (.at (utf8 cs)) = .ok true := by
  simp only [requireUnicode, Ptr.deref_at, bind_ok]
  exact ruLoop_chars cs hwf hmb _ (by simp [Ptr.fuel])

/-- `AddVarStr` (unicode supported) once the conversion result is known -/
theorem addVarStr_unicode_eq (s : List Nat) (fill maxLen : Nat) (chars : Bool) (body : List Nat) (d : D)
    (hfree : 2 < MaxDataLen - fill) (hc0 : s.headD 0 ≠ 0) (hru : requireUnicode (.at s) = .ok true)
    (hconv : utf8ToUCS2 (.at s) (upd (upd d fill 2) (fill + 1) 1) (fill + 1 + 1)
        (if MaxDataLen - fill - 2 > (if chars then maxLen * 2 else maxLen)
          then (if chars then maxLen * 2 else maxLen) else MaxDataLen - fill - 2)
      = .ok (blit (upd (upd d fill 2) (fill + 1) 1) (fill + 1 + 1) body, body.length))
    (hbl : body.length ≤ MaxDataLen - fill - 2) :
    addVarStr ⟨d, fill⟩ (.at s) maxLen true chars
      = .ok ⟨blit d fill ((body.length + 2) :: 0 :: body), fill + (body.length + 2)⟩ := by
  have hlt : fill < MaxDataLen := by omega
  have hn2 : ¬ (MaxDataLen - fill ≤ 2) := by omega
  have h1 : fill + 1 < MaxDataLen := by omega
  have hb : (s.headD 0 == 0) = false := by simpa using hc0
  simp only [addVarStr, if_pos hlt, if_neg hn2, Ptr.deref_at, bind_ok, pure_eq, hb, addByte, wr_ok hlt,
    wr_ok h1, hru, if_true, hconv, Bool.false_eq_true, if_false]
  rw [var_data d fill body 0 (by omega)]
  simp only [Except.ok.injEq, Msg.mk.injEq, true_and]
  omega

end N2k.Text
