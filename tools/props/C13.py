"""C13 - timed behaviour is independent of the clock origin, including the 32-bit wrap."""
SPEC = {
    'engine': 'hb', 'harness': 'hb.cpp',
    'repo_srcs': ['N2kMsg.cpp', 'N2kStream.cpp', 'N2kMessages.cpp', 'N2kTimer.cpp', 'N2kGroupFunction.cpp', 'N2kGroupFunctionDefaultHandlers.cpp', 'NMEA2000.cpp', 'N2kDeviceList.cpp'],
    'variants': ['', 't32'],
    'lean_modules': ['N2k.Props.C13', 'N2k.Gen.TimePrimitives'], 'props_files': ['N2k/Props/C13.lean'],
    'translators': ['pgn_tables', 'time_sites'],
    'case_start': ['scenario', 'devlist', 'probe'],
    'oracle_prefixes': ['C13:'],
    'trusted_base': ["Basic/Time.lean transcribes N2kIsTimeBefore, N2kHasElapsed and tN2kScheduler (32-bit and 64-bit flavour) of N2kTimer.h; "
                     "Model/Heartbeat.lean: tN2kSyncScheduler and the N2kMillis64() roll counter of N2kTimer.cpp",
                     "structural obligation (tools/translators/time_sites.py): outside N2kTimer.h/.cpp every relational / + / - operation on a time value and "
                     "every integer constant assigned to a time stamp is a site keyed by (file, enclosing function, operator class, time classes involved; "
                     "locals inherit the class of what they copy) and must be on the reviewed whitelist tools/translators/time_sites_whitelist.json - "
                     "as of /repo f104fb3 only four never-read constant stamps; clock reads that are merely stored or passed to a primitive are not sites. "
                     "The site finder is a token-level heuristic (no C++ front end)",
                     "behavioural obligation for the primitives: N2kTimer.h/.cpp are compiled in both timer flavours with a controllable clock, "
                     "N2kIsTimeBefore, N2kHasElapsed, tN2kScheduler::FromNow/IsTime (32 and 64 bit), tN2kSyncScheduler::UpdateNextTime/IsTime/"
                     "SetSyncOffset and the N2kMillis64 roll counter are evaluated on ~9300 points (grid around 0, 2^31, 2^32, 2^64, the sentinel; random "
                     "points from a fixed seed) and lean/N2k/Gen/TimePrimitives.lean states that the Lean definitions give exactly these values; the "
                     "agreement is proved by kernel evaluation (`decide`), the table is small enough for the kernel (no external comparison is trusted)",
                     "machines covered by shift theorems: send path, Open(), address-claim timer, heartbeat (run level, C13_shift_invariance_partial); "
                     "reassembly-slot ageing of Model/Rx.lean (C13_shift_invariance_rx, run level, unconditional); ISO-TP sender/receiver timers, BAM pacing "
                     "and the node's pending information of Model/TP.lean (C13_shift_invariance_tp); pending-information retries of Model/IsoRequest.lean "
                     "(C13_shift_invariance_pending_info); address-claim contention, commanded address and restart of Model/Claim.lean + ClaimRx.lean "
                     "(C13_shift_invariance_claim, run level over event histories, and C13_shift_invariance_claim_node); device-list request pacing of Model/DeviceList.lean (C13_shift_invariance_devlist, "
                     "unconditional). These models are other properties' (C02, C10, C08, C03, C18), imported read-only and tied to the code by those "
                     "properties' differential runs; the rest of tN2kDeviceList::HandleMsg and the composed step IsoRequest.pollClaim have no shift theorem"],
    'assumptions': ["32-bit build: the exact commutation excludes the instants at which a FromNow() lands on the scheduler's all-ones "
                    "'disabled' value (documented 1 ms slack, characterised exactly by C13_primitives_elapsed_only); the harness compares such "
                    "runs with a 1 ms tolerance under dense polling; a pair in which a script operation (configuration, forced heartbeat, claim, "
                    "driver behaviour) executes within 2 ms of a heartbeat grid point or of a claim-window end is not compared when a sentinel was "
                    "hit, because the 1 ms later open puts the operation on the other side of that instant (counted, not flagged)", "64-bit build: the shifted clock stays below 2^64 - 2^33",
                    "N2kMillis64() on the 32-bit build is sampled at least once per 2^32 ms (hypothesis of C13_roll_counter; every poll of an "
                    "active node samples it)"],
}
MANIFEST = {
    'text': "Theorems: N2kHasElapsed, N2kIsTimeBefore and IsTime after FromNow are functions of differences modulo 2^32 only, each with "
            "its exact window, including the scheduler's sentinel (a FromNow landing on 0xFFFFFFFF arms one millisecond more, nothing "
            "else), so a timeout armed before the wrap expires on time after it; 64-bit scheduler exact. Open(), SendMsg, ParseMessages "
            "and IsAddressClaimStarted of the send model, and every operation of the heartbeat node (polls, forced heartbeats, "
            "interval changes, claims, back-pressure), commute with a shift of the clock origin by ANY k for both timer builds (up to "
            "that sentinel millisecond / 64-bit overflow), lifted by induction to whole runs: same log, same frames at the driver and "
            "in the queue, shifted final state. The roll counter behind N2kMillis64() on 32-bit builds is exact up to a constant when "
            "sampled at least once per 2^32 ms. The device list's request pacing (ReadyForRequest..., Set...Requested, the three request loops, HandleOther) commutes with the shift for EVERY k and every state without side conditions (code as repaired in f104fb3). So do the reassembly slots with their 100 ms ageing, for whole frame histories; the ISO-TP node (RTS/CTS/EndAck time-outs, BAM pacing, receiver, slots), the pending product/configuration information retries and the address-claim instance (contention, commanded "
            "address, restart; whole event histories) commute up to the sentinel millisecond. Structural obligation: every clock read / raw time comparison in src/ is on a reviewed "
            "whitelist. Metamorphic oracle: each scenario script (open, CAN-open failure, claims, heartbeats with jitter and long gaps, "
            "interval changes, back-pressure, dense 1 ms polling) is run on the real node from origins 0, 2^31+-k, 2^32-k and the "
            "sentinel instants, both timer builds, and the relative-time outputs are compared. Partial: covers the machines modelled so "
            "far. The device-list probe (two silent foreign devices, product information / configuration information / PGN list requests) is run from origins 1000, 2^31+-k, 2^32-k on both builds and the request traces must be identical; likewise an ISO-TP probe (RTS/CTS/EndAck, CTS and EndAck time-outs, BAM sent and received, abort), a reassembly-slot probe (stalled senders, recycling after 100 ms) and a pending-information probe (blocked driver, retries every 187+8a / 187+10a ms), with event counters in the evidence.",
    'design_ref': 'DESIGN.md section 4, C13',
    'note': "partial: each timed machine has its own shift theorem over its own model (C02/C08/C10/C18 models imported read-only); there is no "
            "single composed node model. C13:devlist-zero-sentinel is fixed (f104fb3); its revert is seeded/C13_fixrev_1.",
}
