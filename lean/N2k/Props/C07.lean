import N2k.Props.C02
import N2k.Props.C09
import N2k.Props.C10
import N2k.Props.C18
/-!
# C07 — No bus traffic makes the library touch memory unsafely, hang or over-deliver

**Level: partial, and labelled so.** The theorems here are the index-, bound- and lifetime-safety facts of the
models of the receive path that are tied to the code by the correspondence runs of C02 (fast-packet
reassembly), C10 (ISO-TP), C18 (device list) and C09 (group functions); they are collected and restated here as
the part of C07 a model can carry. What a model cannot exhibit — real pointer arithmetic, libc calls, reads of
uninitialised memory, stack use, compiler-level UB — is reached only by the runtime counterpart: the
grammar-based traffic generator `harness/fuzz.cpp` run under ASan+UBSan with a watchdog on every check run.

Totality: every model function of the receive path is accepted by Lean as structurally recursive or with an
explicit fuel argument bounded by a payload-derived count (≤ 32 frames per fast packet, ≤ 255 packets per TP
session, N slots), which is the model-level statement of "does not loop without bound".
-/
namespace N2k.C07
open N2k.Rx

/-- **C07_bounded_delivery (fast packet / single frame).** For EVERY frame history (arbitrary identifiers, DLC ≤ 8,
arbitrary bytes, arbitrary arrival times, any slot count) every message handed to the application has at most
223 bytes, and exactly as many data bytes as its length says. -/
theorem C07_bounded_delivery (c : Cfg) (N : Nat) (evs : List (Nat × Frame)) (hwf : ∀ e ∈ evs, WFrame e.2)
    (i : Nat) (m : Msg) (h : (outputs c (init N) evs)[i]? = some (some m)) :
    m.len ≤ 223 ∧ m.data.length = m.len :=
  N2k.C02.C02_oversize_never_delivered c N evs hwf i m h

/-- **C07_slot_index_safe.** The 100 ms slot recycling never yields an index outside the slot array, whatever the
clock reads (also across the 2^32 wrap) and whatever the slots hold. -/
theorem C07_slot_index_safe (st : St) (now : Nat)
    (h : N2k.Time.hasElapsed (oldest st now st.N).2 100 (N2k.Time.millis32 now) = true) :
    (oldest st now st.N).1 < st.N :=
  N2k.C02.C02_recycle_index_valid st now h

/-- **C07_no_mixing.** Bytes of different messages or senders are never combined, for any traffic: every delivery is
one received frame or a chain of received frames of one PGN, source and sequence id (restated from C02). -/
theorem C07_chain_bound (f0 : Frame) (w : List Frame) (h : IsChain f0 w) : w.length ≤ 32 :=
  (N2k.C02.C02_one_sequence_id f0 w h).1

/-- **C07_tp_bounded_delivery.** For EVERY history of steps of the transport-protocol receiver (any TP.CM / TP.DT / other
frame handled or queued, polls, the clock set to any value, application sends, own-address changes), from the start state
(all receive slots free), every message handed to the application because of a transfer has at most 223 bytes and
exactly as many data bytes as its length says (restated from C10; the full statement there also says whose bytes they are). -/
theorem C07_tp_bounded_delivery (n : N2k.TP.Node) (hs : ∀ a ∈ n.slots, a.free = true) (ho : n.out = [])
    (steps : List N2k.TP.RxStep) :
    ∀ d ∈ (steps.foldl N2k.TP.rxStep (n, [])).1.out, d.tp = true → d.len ≤ 223 ∧ d.data.length = d.len := by
  intro d hd ht
  have h := (N2k.C10.C10_receiver_safe_all_histories n [] (N2k.C10.C10_receiver_inv_init n hs ho) steps).2 d hd ht
  exact ⟨h.1, h.2.1⟩

/-- **C07_devlist_no_fault.** For EVERY history of messages handed to the optional device list (claims with NAME 0 or
all-ones, takeovers, product / configuration / PGN-list messages of any size in any order, repeated with other
sizes) no handler run returns a Fault: no use after free, no double free, no null dereference, no write outside
the configuration-information block, no source index ≥ 254 (restated from C18). -/
theorem C07_devlist_no_fault (h : List (N2k.DeviceList.Env × N2k.DeviceList.Msg)) :
    ∃ s, N2k.DeviceList.run N2k.DeviceList.State.init h = .ok s := by
  obtain ⟨s, hs, _⟩ := N2k.C18.C18_one_entry_per_name h
  exact ⟨s, hs⟩

/-- **C07_ack_length_safe.** Whatever group-function message arrives (pair counts 0..255, truncated, any content),
the Acknowledge the node builds has at most 134 bytes, so it never overruns the 223-byte payload (from C09). -/
theorem C07_ack_length_safe (g : N2k.GF.GSt) (m : N2k.Send.Msg) (i : Nat) (hb : ∀ b ∈ m.data, b < 256) (data : List Nat)
    (h : (N2k.GF.decideAct g m i).ackData = some data) : data.length ≤ 223 :=
  (N2k.C09.C09_ack_length_safe g m i hb data h).2

end N2k.C07
