import N2k.Model.Bus
import N2k.Model.ClaimRx
import Driver.Util
-- engine: claim
/-! Engine `claim` (C03): executes `N2k.Bus.step` (and through it `N2k.Claim.parse`, `handleClaim`,
`getNextAddress`, `handleCommandedAddress`, `Iso.onClaim` …) on the op lines of `harness/claim.cpp`.

Level 1 ops address node 0 of a one-node bus and hand the frame to `ParseMessages` directly; level 2 ops carry a
node index and move frames through the inboxes. -/
namespace Driver.Claim
open N2k.Send N2k.Time N2k.Claim N2k.Bus Driver

def frameStr (f : Frame) : String :=
  s!"{String.ofList (Nat.toDigits 16 f.id)}:{f.len}:{hexOfBytes (f.data.take (min f.len 8))}"

def framesStr (l : List Frame) : String :=
  if l.isEmpty then "-" else " ".intercalate (l.map frameStr)

def hexNat? (s : String) : Option Nat :=
  s.toList.foldl (fun acc c => do let a ← acc; let d ← hexDigit c; some (a * 16 + d)) (some 0)

def hexStr (n : Nat) : String := String.ofList (Nat.toDigits 16 n)

def parsePair (s : String) : Option (Nat × Nat) :=
  match s.splitOn ":" with
  | [a, n] => do let src ← nat? a; let name ← hexNat? n; some (src, name)
  | _ => none

def dfltNode : BNode := ⟨.foreign ⟨0, 0, false, 255, false⟩, []⟩

/-- re-pack the node function into an array (extensionally the same bus; keeps look-ups O(1)) -/
def pack (b : Bus) : Bus :=
  let arr := ((List.range b.n).map b.node).toArray
  { b with node := fun j => arr.getD j dfltNode }

def parseNode (f : Flavor) (now : Nat) (spec : String) : Option BNode :=
  match spec.toList with
  | 'L' :: m :: ':' :: rest =>
    match nat? (String.ofList [m]), ((String.ofList rest).splitOn ",").mapM parsePair with
    | some mode, some ds => some ⟨.lib (mkInst f now mode 40 ds), []⟩
    | _, _ => none
  | 'F' :: c :: ':' :: rest =>
    match parsePair (String.ofList rest) with
    | some (pref, name) => some ⟨.foreign ⟨name, pref, c == '1', 255, false⟩, []⟩
    | none => none
  | 'G' :: c :: ':' :: rest =>       -- a foreign node that is already on the bus with its address
    match parsePair (String.ofList rest) with
    | some (pref, name) => some ⟨.foreign ⟨name, pref, c == '1', pref, true⟩, []⟩
    | none => none
  | _ => none

def addrsOf : Kind → String
  | .lib x => ",".intercalate (x.s.devs.map fun d => toString d.source)
  | .foreign n => toString n.addr

def namesOf : Kind → String
  | .lib x => ",".intercalate (x.s.devs.map fun d => hexStr d.name)
  | .foreign n => hexStr n.name

def endsOf : Kind → String
  | .lib x => ",".intercalate (x.s.devs.map fun d => toString d.endSource)
  | .foreign _ => "-"

def inboxLens (b : Bus) : String :=
  let lens := (List.range b.n).map fun i => (b.node i).inbox.length
  if b.n > 16 then s!"total={lens.foldl (· + ·) 0}" else ",".intercalate (lens.map toString)

/-- run an op that makes node `i` act; the output shows the frames it sent, its addresses and all inbox lengths -/
def actOut (b : Bus) (i : Nat) (r : Kind × List Frame) (inb : List Frame) : Bus × String :=
  let b' := pack (act b i r inb)
  (b', s!"{framesStr r.2} | {addrsOf r.1} | {inboxLens b'}")

def stepBus (st : Option Bus) (w : List String) : Option Bus × String :=
  match w with
  | "reset" :: fl :: mode :: now :: devs =>
    match nat? mode, nat? now, devs.mapM parsePair with
    | some mode, some now, some ds =>
      let f := if fl = "t32" then Flavor.t32 else Flavor.t64
      let nd : BNode := ⟨.lib (mkInst f now mode 40 ds), []⟩
      (some (pack { n := 1, node := fun _ => nd }), "ok")
    | _, _, _ => (st, "bad-op")
  | "bus" :: fl :: now :: specs =>
    match nat? now with
    | some now =>
      let f := if fl = "t32" then Flavor.t32 else Flavor.t64
      match specs.mapM (parseNode f now) with
      | some nodes =>
        let arr := nodes.toArray
        (some { n := nodes.length, node := fun j => arr.getD j dfltNode }, "ok")
      | none => (st, "bad-op")
    | none => (st, "bad-op")
  | _ =>
  match st with
  | none => (st, "bad-op")
  | some b =>
    let k0 := (b.node 0).kind
    match w with
    | ["t", ms] => match nat? ms with
      | some k => (some (pack (N2k.Bus.step b (.adv k))), "ok")
      | none => (st, "bad-op")
    -- ---------------------------------------------------------------- level 1 (node 0, no inbox)
    | ["poll"] => let r := actOut b 0 (kindPoll k0) []; (some r.1, r.2)
    | ["restart"] => let r := actOut b 0 (kindRestart k0) []; (some r.1, r.2)
    -- ---------------------------------------------------------------- level 2
    | ["d", i] => match nat? i with
      | some i =>
        if i < b.n then
          match (b.node i).inbox with
          | [] => (st, "idle")
          | f :: rest => let r := actOut b i (kindRx b.next (b.node i).kind f) rest; (some r.1, r.2)
        else (st, "bad-op")
      | none => (st, "bad-op")
    | ["p", i] => match nat? i with
      | some i => if i < b.n then
          let r := actOut b i (kindPoll (b.node i).kind) (b.node i).inbox; (some r.1, r.2) else (st, "bad-op")
      | none => (st, "bad-op")
    | ["cmd", i, dst, nm, a] => match nat? i, nat? dst, hexNat? nm, nat? a with
      | some i, some dst, some nm, some a => if i < b.n then
          let r := actOut b i (kindCmd (b.node i).kind dst nm a) (b.node i).inbox; (some r.1, r.2) else (st, "bad-op")
      | _, _, _, _ => (st, "bad-op")
    | ["rs", i] => match nat? i with
      | some i => if i < b.n then
          let r := actOut b i (kindRestart (b.node i).kind) (b.node i).inbox; (some r.1, r.2) else (st, "bad-op")
      | none => (st, "bad-op")
    -- ---------------------------------------------------------------- observation
    | "get" :: rest =>
      let i := (rest.head?.bind nat?).getD 0
      if i < b.n then
        let k := (b.node i).kind
        (st, s!"{addrsOf k} {namesOf k} {endsOf k}")
      else (st, "bad-op")
    | "changed" :: rest =>
      let i := (rest.head?.bind nat?).getD 0
      if i < b.n then
        match (b.node i).kind with
        | .lib x =>
          let r := readResetAddressChanged x
          (some (pack (setNode b i ⟨.lib r.1, (b.node i).inbox⟩)), boolStr r.2)
        | .foreign _ => (st, "-")
      else (st, "bad-op")
    | ["q"] =>
      (st, " ".intercalate ((List.range b.n).map fun i => s!"{addrsOf (b.node i).kind}/{(b.node i).inbox.length}"))
    | _ => (st, "bad-op")

/-- engine state: the bus, and the receive slots of node 0 (level 1) -/
structure ES where
  b : Bus
  rx : N2k.Rx.St

def packRx (r : N2k.Rx.St) : N2k.Rx.St :=
  let arr := ((List.range r.N).map r.slot).toArray
  { r with slot := fun j => arr.getD j N2k.Rx.emptySlot }

/-- level 1: node 0 became `n'` and sent `out` -/
def lib0Out (es : ES) (n' : N2k.ClaimRx.Node) (out : List Frame) (pre : String) : Option ES × String :=
  let b' := pack (setNode es.b 0 ⟨.lib n'.inst, []⟩)
  (some ⟨b', packRx n'.rx⟩, s!"{pre}{framesStr out} | {addrsOf (.lib n'.inst)} | {inboxLens b'}")

def step (st0 : Option ES) (w : List String) : Option ES × String :=
  let lift (r : Option Bus × String) : Option ES × String :=
    match r.1, st0 with
    | some b, some es => (some { es with b := b }, r.2)
    | some b, none => (some ⟨b, N2k.Rx.init 5⟩, r.2)
    | none, _ => (none, r.2)
  -- level 1 ops that go through the receive slots / the application send
  match st0, w with
  | some es, ["claim", src, nm] =>
    match (es.b.node 0).kind, nat? src, hexNat? nm with
    | .lib x, some src, some nm =>
      let r := N2k.ClaimRx.stepFrame ⟨x, es.rx⟩ (frameOfClaim (nm, src)); lib0Out es r.1 r.2 ""
    | _, _, _ => (st0, "bad-op")
  | some es, ["rxc", id, len, hx] =>
    match (es.b.node 0).kind, hexNat? id, nat? len, hexBytes? hx with
    | .lib x, some id, some len, some data =>
      let r := N2k.ClaimRx.stepFrame ⟨x, es.rx⟩ ⟨id, len, data⟩; lib0Out es r.1 r.2 ""
    | _, _, _, _ => (st0, "bad-op")
  | some es, ["cmdaddr", nm, a, dst] =>
    match (es.b.node 0).kind, hexNat? nm, nat? a, nat? dst with
    | .lib x, some nm, some a, some dst =>
      let r := N2k.ClaimRx.stepCmd ⟨x, es.rx⟩ dst nm a; lib0Out es r.1 r.2 ""
    | _, _, _, _ => (st0, "bad-op")
  | some es, ["send", d, prio, pgn, src, dst, len, hx] =>
    match (es.b.node 0).kind, nat? prio, nat? pgn, nat? src, nat? dst, nat? len, hexBytes? hx with
    | .lib x, some prio, some pgn, some src, some dst, some len, some data =>
      let dev : Option Nat := if d.startsWith "-" then none else nat? d
      let r := N2k.ClaimRx.stepSend ⟨x, es.rx⟩ { prio := prio, pgn := pgn, src := src, dst := dst, len := len, data := data } dev
      lib0Out es r.1 r.2.2 s!"{boolStr r.2.1} "
    | _, _, _, _, _, _, _ => (st0, "bad-op")
  | some es, ["slots"] =>
    (st0, " ".intercalate ((List.range es.rx.N).map fun i =>
      let s := es.rx.slot i
      if s.free then "F" else s!"{s.pgn}.{s.src}.{s.msgTime}{if s.tp then ".T" else ""}"))
  | _, "reset" :: _ => match lift (stepBus none w) with
    | (some es, o) => (some { es with rx := N2k.Rx.init 5 }, o)
    | r => (r.1.orElse (fun _ => st0), r.2)
  | _, _ => match lift (stepBus (st0.map (·.b)) w) with
    | (none, o) => (st0, o)
    | r => r

def main : IO Unit := loop step none

end Driver.Claim
