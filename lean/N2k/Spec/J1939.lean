/-!
# J1939 / NMEA 2000 29-bit identifier and fast-packet wire format (specification side of C01)
Written from the public definitions, independent of the library source.
-/
namespace N2k.Spec

/-- PDU1 ("addressable") PGNs have PF < 240 and carry the destination in the PS byte -/
def isPDU1 (pgn : Nat) : Bool := (pgn / 256) % 256 < 240

/-- 29-bit identifier: priority(3) | reserved+DP (via the 18-bit PGN) | PF | PS | source -/
def canId (prio pgn src dst : Nat) : Nat :=
  if isPDU1 pgn then prio * 2^26 + pgn * 2^8 + dst * 2^8 + src
  else prio * 2^26 + pgn * 2^8 + src

/-- a PGN that can be put into an identifier: 18 bits, PDU1 PGNs have a zero low byte -/
def validPGN (pgn : Nat) : Prop := pgn < 2^18 ∧ pgn ≠ 0 ∧ (isPDU1 pgn = true → pgn % 256 = 0)

/-! ## fast packet -/

/-- payload byte `j`, 0xFF beyond the payload -/
def fpByte (pl : List Nat) (j : Nat) : Nat := if j < pl.length then pl.getD j 0 else 0xff

/-- number of continuation frames: ⌈(L-6)/7⌉ -/
def fpCont (L : Nat) : Nat := if L ≤ 6 then 0 else (L - 6 + 6) / 7

/-- frame k of a fast-packet message: byte 0 = 3-bit sequence id, 5-bit frame counter;
frame 0 carries the total length and payload bytes 0..5, frame k ≥ 1 bytes 6+7(k-1) .. +6; padding 0xFF -/
def fpFrameSpec (seq : Nat) (pl : List Nat) (k : Nat) : List Nat :=
  if k = 0 then [seq * 32, pl.length] ++ (List.range 6).map (fpByte pl)
  else [seq * 32 + k] ++ (List.range 7).map fun j => fpByte pl (6 + 7 * (k - 1) + j)

def fpFrames (seq : Nat) (pl : List Nat) : List (List Nat) :=
  (List.range (1 + fpCont pl.length)).map (fpFrameSpec seq pl)

/-- what a receiver does: strip the headers, concatenate, cut at the announced length -/
def fpReassemble : List (List Nat) → List Nat
  | [] => []
  | f0 :: rest => (f0.drop 2 ++ (rest.map (·.drop 1)).flatten).take (f0.getD 1 0)

end N2k.Spec
