import N2k.Lemmas.DeviceListClaim
import N2k.Lemmas.TextGet
/-!
# C18 helper lemmas, part 3: the information handlers (126996 / 126998 / 126464)

Device level: `parseProd`, `confUpdate` (size query, `InitConfigurationInformation`, second parse through the
interior pointers) and `pgnUpdate` never fault on a well-formed device (`DevWF`), keep NAME and source and give a
well-formed device. List level: `handleProd_spec`, `handleConf_spec`, `handlePGNList_spec`.
-/
namespace N2k.DeviceList
open N2k.Text (getStr2_safe getVarStr_safe Terminated)

/-! ## blocks -/

theorem Block.write_ok (b : Block) {i : Nat} (v : Nat) (h : i < b.size) :
    b.write i v = .ok ⟨b.size, fun j => if j = i then v else b.mem j⟩ := by
  simp [Block.write, h]

/-! ## the entry under `src` is replaced by a device with the same NAME and source -/

theorem update_spec {s s' : State} (hi : Inv s) {src : Nat} {id : Id} {d d' : Device}
    (hs : s.sources src = some id) (hd : s.heap id = some d)
    (hw : DevWF d') (hn : d'.name = d.name) (hsrc : d'.source = d.source)
    (hS : ∀ j, s'.sources j = s.sources j)
    (hH : ∀ x, s'.heap x = if x = id then some d' else s.heap x)
    (hM : s'.maxDevices = s.maxDevices) (hN : s'.nextId = s.nextId) :
    Inv s' ∧ ∀ j, devAt s' j = if j = src then some d' else devAt s j := by
  obtain ⟨d0, hd0, hsrc0, hda⟩ := devAt_some hi.st hs
  rw [hd] at hd0; cases hd0
  have h := touch_sem hi.st hs (d' := d') (by omega) hS hH hM hN
  exact ⟨⟨h.1, (hi.good.touch hda hw hn).congr h.2⟩, h.2⟩

/-! ## 126996 -/

theorem getStr33_ok (e : Env) (t : N2k.Text.Msg) (idx : Nat) : ∃ r, getStr33 e t idx = .ok r := by
  obtain ⟨r, i, dst, h, _⟩ := getStr2_safe t 33 e.junkMem 32 0xff idx
  refine ⟨(cstrD 33 dst, i), ?_⟩
  simp [getStr33, h]

theorem parseProd_ok (e : Env) (m : Msg) : ∃ p, parseProd e m = .ok p := by
  unfold parseProd
  obtain ⟨r1, h1⟩ := getStr33_ok e m.text (get2 m.text (get2 m.text 0).2).2
  simp only [h1]
  obtain ⟨r2, h2⟩ := getStr33_ok e m.text r1.2
  simp only [h2]
  obtain ⟨r3, h3⟩ := getStr33_ok e m.text r2.2
  simp only [h3]
  obtain ⟨r4, h4⟩ := getStr33_ok e m.text r3.2
  simp only [h4]
  exact ⟨_, rfl⟩

theorem prodUpdate_wf {d : Device} (hw : DevWF d) (p : ProdInfo) :
    DevWF (prodUpdate d p).1 ∧ (prodUpdate d p).1.name = d.name ∧ (prodUpdate d p).1.source = d.source := by
  unfold prodUpdate
  split
  · exact ⟨hw, rfl, rfl⟩
  · split
    · exact ⟨⟨hw.tx, hw.rx, hw.conf⟩, rfl, rfl⟩
    · exact ⟨⟨hw.tx, hw.rx, hw.conf⟩, rfl, rfl⟩

/-! ## 126998 -/

theorem setField_ok {blk : Option Block} {sz off : Nat}
    (h : sz > 0 → ∃ b, blk = some b ∧ off < b.size) :
    ∃ blk', setField blk sz off = .ok (blk', if sz > 0 then some off else none) ∧
      (∀ n, (∃ b, blk = some b ∧ b.size = n) → ∃ b', blk' = some b' ∧ b'.size = n) ∧ (blk = none → blk' = none) := by
  unfold setField
  by_cases hs : sz > 0
  · obtain ⟨b, hb, ho⟩ := h hs
    subst hb
    simp only [hs, if_true, Block.write_ok b 0 ho]
    refine ⟨_, rfl, ?_, by intro h; cases h⟩
    intro n ⟨b', hb', hn⟩
    cases hb'
    exact ⟨_, rfl, hn⟩
  · simp only [hs, if_false]
    exact ⟨blk, rfl, fun n h => h, fun h => h⟩

/-- the layout `InitConfigurationInformation` leaves behind for the sizes `A B C` (terminators included) -/
structure ConfLayout (d : Device) (A B C : Nat) : Prop where
  man : d.manI = if A > 0 then some 0 else none
  i1 : d.inst1 = if B > 0 then some A else none
  i2 : d.inst2 = if C > 0 then some (A + B) else none
  blk : A + B + C > 0 → ∃ b, d.confI = some b ∧ A + B + C ≤ b.size
  size : ∀ b, d.confI = some b → b.size = d.confISize

theorem initConf_ok (e : Env) {d : Device} (hw : DevWF d) (man i1 i2 : Nat) :
    ∃ r, initConf e d man i1 i2 = .ok r ∧ r.man = plusTerm man ∧ r.i1 = plusTerm i1 ∧ r.i2 = plusTerm i2 ∧
      ConfLayout r.dev r.man r.i1 r.i2 ∧
      ∃ sz blk m a b, r.dev = { d with confISize := sz, confI := blk, manI := m, inst1 := a, inst2 := b,
                                       confLoaded := true } := by
  simp only [initConf]
  generalize plusTerm man = A
  generalize plusTerm i1 = B
  generalize plusTerm i2 = C
  -- the block after the free/malloc decision and the value of `ConfISize`
  generalize hblk : (if d.confI.isSome = true ∧ ¬d.confISize < A + B + C then d.confI
      else if A + B + C > 0 then some ({ size := A + B + C, mem := e.junkMem } : Block) else none) = blk0
  generalize hsz : (if d.confI.isSome = true ∧ ¬d.confISize < A + B + C then d.confISize else A + B + C) = size0
  have hb0 : (A + B + C > 0 → ∃ b, blk0 = some b ∧ b.size = size0 ∧ A + B + C ≤ b.size) ∧
             (∀ b, blk0 = some b → b.size = size0) := by
    by_cases hk : d.confI.isSome = true ∧ ¬d.confISize < A + B + C
    · simp only [hk, and_self, if_true] at hblk hsz
      subst hblk hsz
      obtain ⟨b, hb⟩ := Option.isSome_iff_exists.mp hk.1
      have := hw.conf b hb
      refine ⟨fun _ => ⟨b, hb, this, by omega⟩, ?_⟩
      intro b' hb'; rw [hb] at hb'; cases hb'; exact this
    · simp only [hk, if_false] at hblk hsz
      subst hsz
      by_cases ht : A + B + C > 0
      · simp only [ht, if_true] at hblk
        subst hblk
        refine ⟨fun _ => ⟨_, rfl, rfl, Nat.le_refl _⟩, ?_⟩
        intro b' hb'; cases hb'; rfl
      · simp only [ht, if_false] at hblk
        subst hblk
        exact ⟨fun h => absurd h ht, by intro b' hb'; cases hb'⟩
  obtain ⟨f1, hf1, hk1, hn1⟩ := setField_ok (blk := blk0) (sz := A) (off := 0) (by
    intro hA
    obtain ⟨b, hb, _, hle⟩ := hb0.1 (by omega)
    exact ⟨b, hb, by omega⟩)
  simp only [hf1]
  obtain ⟨f2, hf2, hk2, hn2⟩ := setField_ok (blk := f1) (sz := B) (off := A) (by
    intro hB
    obtain ⟨b, hb, hs0, hle⟩ := hb0.1 (by omega)
    obtain ⟨b', hb', hs'⟩ := hk1 _ ⟨b, hb, rfl⟩
    exact ⟨b', hb', by omega⟩)
  simp only [hf2]
  obtain ⟨f3, hf3, hk3, hn3⟩ := setField_ok (blk := f2) (sz := C) (off := A + B) (by
    intro hC
    obtain ⟨b, hb, hs0, hle⟩ := hb0.1 (by omega)
    obtain ⟨b', hb', hs'⟩ := hk1 _ ⟨b, hb, rfl⟩
    obtain ⟨b'', hb'', hs''⟩ := hk2 _ ⟨b', hb', rfl⟩
    exact ⟨b'', hb'', by omega⟩)
  simp only [hf3]
  refine ⟨_, rfl, rfl, rfl, rfl, ⟨rfl, rfl, rfl, ?_, ?_⟩, _, _, _, _, _, rfl⟩
  · intro ht
    have ht' : A + B + C > 0 := ht
    obtain ⟨b, hb, hs0, hle⟩ := hb0.1 ht'
    obtain ⟨b', hb', hs'⟩ := hk1 _ ⟨b, hb, rfl⟩
    obtain ⟨b'', hb'', hs''⟩ := hk2 _ ⟨b', hb', rfl⟩
    obtain ⟨b3, hb3, hs3⟩ := hk3 _ ⟨b'', hb'', rfl⟩
    refine ⟨b3, hb3, ?_⟩
    show A + B + C ≤ b3.size
    omega
  · intro b3 hb3
    show b3.size = size0
    cases hb : blk0 with
    | none =>
      have := hn3 (hn2 (hn1 hb))
      rw [this] at hb3; cases hb3
    | some b =>
      obtain ⟨b', hb', hs'⟩ := hk1 _ ⟨b, hb, rfl⟩
      obtain ⟨b'', hb'', hs''⟩ := hk2 _ ⟨b', hb', rfl⟩
      obtain ⟨b4, hb4, hs4⟩ := hk3 _ ⟨b'', hb'', rfl⟩
      rw [hb4] at hb3; cases hb3
      have := hb0.2 b hb
      omega

/-- one `GetVarStr` through an interior pointer whose `sz` bytes lie inside the block -/
theorem varStrInto_ok (t : N2k.Text.Msg) {blk : Option Block} {p : Option Nat} {sz : Nat} (idx : Nat)
    (h : ∀ off, p = some off → ∃ b, blk = some b ∧ off + sz ≤ b.size) :
    ∃ r, varStrInto t blk p sz idx = .ok r ∧
      (∀ n, (∃ b, blk = some b ∧ b.size = n) → ∃ b', r.2.2 = some b' ∧ b'.size = n) ∧ (blk = none → r.2.2 = none) := by
  unfold varStrInto
  cases p with
  | none => exact ⟨_, rfl, fun n h => h, fun h => h⟩
  | some off =>
    obtain ⟨b, hb, hle⟩ := h off rfl
    subst hb
    obtain ⟨r, sz', idx', dst', hg, _⟩ := getVarStr_safe t sz (fun i => b.mem (off + i)) 0xff idx
    simp only [hg, hle, if_true]
    refine ⟨_, rfl, ?_, by intro h; cases h⟩
    intro n ⟨b', hb', hn⟩
    cases hb'
    exact ⟨_, rfl, hn⟩

theorem storeConf_ok (t : N2k.Text.Msg) {d : Device} {A B C : Nat} (hl : ConfLayout d A B C) :
    ∃ blk, storeConf t d A B C = .ok { d with confI := blk } ∧ ∀ b, blk = some b → b.size = d.confISize := by
  unfold storeConf
  -- every non-null pointer addresses `size` bytes inside the block
  have hin : ∀ (p : Option Nat) (sz : Nat), (p = if sz > 0 then some (if sz = A then 0 else 0) else none) → True := fun _ _ _ => trivial
  clear hin
  have hsizeOf : ∀ n, (∃ b, d.confI = some b ∧ b.size = n) → n = d.confISize := by
    intro n ⟨b, hb, hn⟩; rw [← hn]; exact hl.size b hb
  obtain ⟨r1, h1, hk1, hn1⟩ := varStrInto_ok t (blk := d.confI) (p := d.inst1) (sz := B) 0 (by
    intro off ho
    rw [hl.i1] at ho
    by_cases hB : B > 0
    · simp only [hB, if_true] at ho; cases ho
      obtain ⟨b, hb, hle⟩ := hl.blk (by omega)
      exact ⟨b, hb, by omega⟩
    · simp [hB] at ho)
  simp only [h1]
  have fin : ∀ (blk : Option Block), ((∀ n, (∃ b, d.confI = some b ∧ b.size = n) → ∃ b', blk = some b' ∧ b'.size = n) ∧
      (d.confI = none → blk = none)) → ∀ b, blk = some b → b.size = d.confISize := by
    intro blk ⟨hk, hn⟩ b hb
    cases hc : d.confI with
    | none => rw [hn hc] at hb; cases hb
    | some b0 =>
      obtain ⟨b', hb', hs'⟩ := hk _ ⟨b0, hc, rfl⟩
      rw [hb] at hb'; cases hb'
      rw [hs']; exact hl.size b0 hc
  by_cases hr1 : r1.1 = true
  · simp only [hr1, if_true]
    obtain ⟨r2, h2, hk2, hn2⟩ := varStrInto_ok t (blk := r1.2.2) (p := d.inst2) (sz := C) r1.2.1 (by
      intro off ho
      rw [hl.i2] at ho
      by_cases hC : C > 0
      · simp only [hC, if_true] at ho; cases ho
        obtain ⟨b, hb, hle⟩ := hl.blk (by omega)
        obtain ⟨b', hb', hs'⟩ := hk1 _ ⟨b, hb, rfl⟩
        exact ⟨b', hb', by omega⟩
      · simp [hC] at ho)
    simp only [h2]
    by_cases hr2 : r2.1 = true
    · simp only [hr2, if_true]
      obtain ⟨r3, h3, hk3, hn3⟩ := varStrInto_ok t (blk := r2.2.2) (p := d.manI) (sz := A) r2.2.1 (by
        intro off ho
        rw [hl.man] at ho
        by_cases hA : A > 0
        · simp only [hA, if_true] at ho; cases ho
          obtain ⟨b, hb, hle⟩ := hl.blk (by omega)
          obtain ⟨b', hb', hs'⟩ := hk1 _ ⟨b, hb, rfl⟩
          obtain ⟨b'', hb'', hs''⟩ := hk2 _ ⟨b', hb', rfl⟩
          exact ⟨b'', hb'', by omega⟩
        · simp [hA] at ho)
      simp only [h3]
      refine ⟨_, rfl, fin _ ⟨?_, fun h => hn3 (hn2 (hn1 h))⟩⟩
      intro n hn
      obtain ⟨b', hb', hs'⟩ := hk1 n hn
      obtain ⟨b'', hb'', hs''⟩ := hk2 n ⟨b', hb', hs'⟩
      exact hk3 n ⟨b'', hb'', hs''⟩
    · simp only [hr2, if_false]
      refine ⟨_, rfl, fin _ ⟨?_, fun h => hn2 (hn1 h)⟩⟩
      intro n hn
      obtain ⟨b', hb', hs'⟩ := hk1 n hn
      exact hk2 n ⟨b', hb', hs'⟩
  · simp only [hr1, if_false]
    exact ⟨_, rfl, fin _ ⟨hk1, hn1⟩⟩

/-- what `HandleConfigurationInformation` may change in a device -/
def ConfChanged (d d' : Device) : Prop :=
  ∃ sz blk m a b cl, d' = { d with confISize := sz, confI := blk, manI := m, inst1 := a, inst2 := b, confLoaded := cl } ∧
    ∀ bb, blk = some bb → bb.size = sz

theorem ConfChanged.refl {d : Device} (hw : DevWF d) : ConfChanged d d :=
  ⟨d.confISize, d.confI, d.manI, d.inst1, d.inst2, d.confLoaded, rfl, hw.conf⟩

theorem ConfChanged.wf {d d' : Device} (hw : DevWF d) (h : ConfChanged d d') :
    DevWF d' ∧ d'.name = d.name ∧ d'.source = d.source := by
  obtain ⟨sz, blk, m, a, b, cl, rfl, hs⟩ := h
  exact ⟨⟨hw.tx, hw.rx, hs⟩, rfl, rfl⟩

theorem confUpdate_ok (e : Env) {d : Device} (hw : DevWF d) (m : Msg) :
    ∃ r, confUpdate e d m = .ok r ∧ ConfChanged d r.1 := by
  unfold confUpdate
  by_cases hq : (parseConfSizes m.text).ok = true
  · simp only [hq, if_true]
    obtain ⟨r, hr, _, _, _, hl, sz, blk, mm, a, b, hdev⟩ := initConf_ok e hw (parseConfSizes m.text).man
      (parseConfSizes m.text).i1 (parseConfSizes m.text).i2
    simp only [hr]
    by_cases ht : r.man + r.i1 + r.i2 > 0
    · simp only [ht, if_true]
      obtain ⟨blk', hst, hsz⟩ := storeConf_ok m.text hl
      simp only [hst]
      refine ⟨_, rfl, r.dev.confISize, blk', r.dev.manI, r.dev.inst1, r.dev.inst2, r.dev.confLoaded, ?_, hsz⟩
      rw [hdev]
    · simp only [ht, if_false]
      refine ⟨_, rfl, sz, blk, mm, a, b, true, hdev, ?_⟩
      intro bb hbb
      have := hl.size bb (by rw [hdev]; exact hbb)
      rw [hdev] at this
      exact this
  · simp only [hq, if_false]
    exact ⟨_, rfl, ConfChanged.refl hw⟩

/-! ## 126464 -/

theorem initPGNs_ok (e : Env) {blk : Option Block} {size : Nat} (count : Nat)
    (hw : ∀ b, blk = some b → b.size = size + 1) :
    ∃ b size', initPGNs e blk size count = .ok (some b, size') ∧ b.size = size' + 1 ∧ count ≤ size' := by
  unfold initPGNs
  by_cases hk : blk.isSome = true ∧ ¬ size < count
  · obtain ⟨b, hb⟩ := Option.isSome_iff_exists.mp hk.1
    subst hb
    have hs := hw b rfl
    simp only [if_pos hk]
    rw [Block.write_ok b 0 (by omega)]
    exact ⟨_, _, rfl, hs, by omega⟩
  · simp only [if_neg hk]
    rw [Block.write_ok _ 0 (by simp)]
    exact ⟨_, _, rfl, rfl, Nat.le_refl _⟩

theorem pgnFill_ok (t : N2k.Text.Msg) : ∀ (k i idx : Nat) (b : Block), i + k ≤ b.size →
    ∃ b', pgnFill t k i idx b = .ok (i + k, b') ∧ b'.size = b.size := by
  intro k
  induction k with
  | zero => intro i idx b _; exact ⟨b, rfl, rfl⟩
  | succ k ih =>
    intro i idx b h
    simp only [pgnFill]
    rw [Block.write_ok b _ (by omega)]
    obtain ⟨b', h1, h2⟩ := ih (i + 1) (get3 t idx).2 ⟨b.size, fun j => if j = i then (get3 t idx).1 else b.mem j⟩
      (by show i + 1 + k ≤ b.size; omega)
    refine ⟨b', ?_, h2⟩
    simp only [h1]
    congr 2
    omega

theorem pgnStore_ok (t : N2k.Text.Msg) (cnt idx : Nat) (b : Block) (h : cnt < b.size) :
    ∃ b', pgnStore t cnt idx b = .ok b' ∧ b'.size = b.size := by
  unfold pgnStore
  obtain ⟨b1, h1, h2⟩ := pgnFill_ok t cnt 0 idx b (by omega)
  simp only [h1]
  rw [Block.write_ok b1 0 (by omega)]
  exact ⟨_, rfl, h2⟩

/-- what `HandleSupportedPGNList` may change in a device -/
def PgnChanged (d d' : Device) : Prop :=
  ∃ tb ts rb rs, d' = { d with tx := tb, txSize := ts, rx := rb, rxSize := rs } ∧
    (∀ b, tb = some b → b.size = ts + 1) ∧ (∀ b, rb = some b → b.size = rs + 1)

theorem PgnChanged.wf {d d' : Device} (hw : DevWF d) (h : PgnChanged d d') :
    DevWF d' ∧ d'.name = d.name ∧ d'.source = d.source := by
  obtain ⟨tb, ts, rb, rs, rfl, h1, h2⟩ := h
  exact ⟨⟨h1, h2, hw.conf⟩, rfl, rfl⟩

theorem pgnUpdate_ok (e : Env) {d : Device} (hw : DevWF d) (m : Msg) :
    ∃ d', pgnUpdate e d m = .ok d' ∧ PgnChanged d d' := by
  unfold pgnUpdate
  by_cases h0 : (getByteP m.text 0).1 = 0
  · simp only [h0, if_true]
    obtain ⟨b, sz, hb, hs, hc⟩ := initPGNs_ok e ((m.text.len - (getByteP m.text 0).2) / 3) hw.tx
    simp only [hb]
    obtain ⟨b', hb', hs'⟩ := pgnStore_ok m.text ((m.text.len - (getByteP m.text 0).2) / 3) (getByteP m.text 0).2 b (by omega)
    simp only [hb']
    exact ⟨_, rfl, some b', sz, d.rx, d.rxSize, rfl, by intro x hx; cases hx; omega, hw.rx⟩
  · simp only [h0, if_false]
    by_cases h1 : (getByteP m.text 0).1 = 1
    · simp only [h1, if_true]
      obtain ⟨b, sz, hb, hs, hc⟩ := initPGNs_ok e ((m.text.len - (getByteP m.text 0).2) / 3) hw.rx
      simp only [hb]
      obtain ⟨b', hb', hs'⟩ := pgnStore_ok m.text ((m.text.len - (getByteP m.text 0).2) / 3) (getByteP m.text 0).2 b (by omega)
      simp only [hb']
      exact ⟨_, rfl, d.tx, d.txSize, some b', sz, rfl, hw.tx, by intro x hx; cases hx; omega⟩
    · simp only [h1, if_false]
      exact ⟨_, rfl, d.tx, d.txSize, d.rx, d.rxSize, rfl, hw.tx, hw.rx⟩

/-! ## list level -/

/-- common shape of the three information handlers: nothing happens without an entry under the source; otherwise
    the entry is replaced by a device with the same NAME and source, every other entry is untouched -/
structure InfoStep (s s' : State) (src : Nat) (R : Device → Device → Prop) : Prop where
  inv : Inv s'
  absent : devAt s src = none → s' = s
  present : ∀ d, devAt s src = some d → ∃ d', devAt s' src = some d' ∧ R d d' ∧ d'.name = d.name
  other : ∀ j, j ≠ src → devAt s' j = devAt s j

theorem handleProd_spec (e : Env) {s : State} (hi : Inv s) (m : Msg) (hsrc : m.source < MaxBusDevices) :
    ∃ s', handleProd e s m = .ok s' ∧
      InfoStep s s' m.source (fun d d' => ∃ p, parseProd e m = .ok p ∧
        d' = (if d.prodLoaded then d else (prodUpdate d p).1) ∧
        s'.listUpdated = (s.listUpdated || (!d.prodLoaded && (prodUpdate d p).2))) := by
  unfold handleProd
  simp only [hsrc, if_true]
  cases hs : s.sources m.source with
  | none =>
    exact ⟨s, rfl, hi, fun _ => rfl, (by intro d hd; rw [devAt_none hs] at hd; cases hd), fun _ _ => rfl⟩
  | some id =>
    obtain ⟨d, hd, hdsrc, hda⟩ := devAt_some hi.st hs
    obtain ⟨p, hp⟩ := parseProd_ok e m
    simp only [State.deref, hd]
    by_cases hl : d.prodLoaded = true
    · simp only [hl, if_true]
      refine ⟨s, rfl, hi, fun _ => rfl, ?_, fun _ _ => rfl⟩
      intro d0 hd0
      rw [hda] at hd0; cases hd0
      exact ⟨d, hda, ⟨p, hp, by simp [hl], by simp [hl]⟩, rfl⟩
    · simp only [hl, hp]
      obtain ⟨hw, hn, hsr⟩ := prodUpdate_wf (hi.good.wf _ d hda) p
      have hu := update_spec (s' := { (s.put id (prodUpdate d p).1) with listUpdated := s.listUpdated || (prodUpdate d p).2 })
        hi hs hd hw hn hsr (by intro j; rfl) (by intro x; rfl) rfl rfl
      refine ⟨_, rfl, hu.1, ?_, ?_, ?_⟩
      · intro h; rw [hda] at h; cases h
      · intro d0 hd0
        rw [hda] at hd0; cases hd0
        exact ⟨_, by rw [hu.2]; simp, ⟨p, rfl, by simp [hl], by simp [hl]⟩, hn⟩
      · intro j hj; rw [hu.2]; simp [hj]

theorem handleConf_spec (e : Env) {s : State} (hi : Inv s) (m : Msg) (hsrc : m.source < MaxBusDevices) :
    ∃ s', handleConf e s m = .ok s' ∧
      InfoStep s s' m.source (fun d d' => ∃ r, confUpdate e d m = .ok r ∧ d' = r.1 ∧ ConfChanged d d' ∧
        s'.listUpdated = (s.listUpdated || r.2)) := by
  unfold handleConf
  simp only [hsrc, if_true]
  cases hs : s.sources m.source with
  | none =>
    exact ⟨s, rfl, hi, fun _ => rfl, (by intro d hd; rw [devAt_none hs] at hd; cases hd), fun _ _ => rfl⟩
  | some id =>
    obtain ⟨d, hd, hdsrc, hda⟩ := devAt_some hi.st hs
    obtain ⟨r, hr, hc⟩ := confUpdate_ok e (hi.good.wf _ d hda) m
    simp only [State.deref, hd, hr]
    obtain ⟨hw, hn, hsr⟩ := hc.wf (hi.good.wf _ d hda)
    have hu := update_spec (s' := { (s.put id r.1) with listUpdated := s.listUpdated || r.2 })
      hi hs hd hw hn hsr (by intro j; rfl) (by intro x; rfl) rfl rfl
    refine ⟨_, rfl, hu.1, ?_, ?_, ?_⟩
    · intro h; rw [hda] at h; cases h
    · intro d0 hd0
      rw [hda] at hd0; cases hd0
      exact ⟨_, by rw [hu.2]; simp, ⟨r, hr, rfl, hc, rfl⟩, hn⟩
    · intro j hj; rw [hu.2]; simp [hj]

theorem handlePGNList_spec (e : Env) {s : State} (hi : Inv s) (m : Msg) (hsrc : m.source < MaxBusDevices) :
    ∃ s', handlePGNList e s m = .ok s' ∧
      InfoStep s s' m.source (fun d d' => pgnUpdate e d m = .ok d' ∧ PgnChanged d d' ∧ s'.listUpdated = true) := by
  unfold handlePGNList
  simp only [hsrc, if_true]
  cases hs : s.sources m.source with
  | none =>
    exact ⟨s, rfl, hi, fun _ => rfl, (by intro d hd; rw [devAt_none hs] at hd; cases hd), fun _ _ => rfl⟩
  | some id =>
    obtain ⟨d, hd, hdsrc, hda⟩ := devAt_some hi.st hs
    obtain ⟨d', hr, hc⟩ := pgnUpdate_ok e (hi.good.wf _ d hda) m
    simp only [State.deref, hd, hr]
    obtain ⟨hw, hn, hsr⟩ := hc.wf (hi.good.wf _ d hda)
    have hu := update_spec (s' := { (s.put id d') with listUpdated := true })
      hi hs hd hw hn hsr (by intro j; rfl) (by intro x; rfl) rfl rfl
    refine ⟨_, rfl, hu.1, ?_, ?_, ?_⟩
    · intro h; rw [hda] at h; cases h
    · intro d0 hd0
      rw [hda] at hd0; cases hd0
      exact ⟨_, by rw [hu.2]; simp, ⟨hr, hc, rfl⟩, hn⟩
    · intro j hj; rw [hu.2]; simp [hj]

end N2k.DeviceList
