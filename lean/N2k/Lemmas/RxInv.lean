import N2k.Spec.Reassembly
/-!
# Slot invariant of the receive path and its preservation by one frame (`rxCore_spec`)

`Inv isFP st H` – `H` is the (ghost) list of handled frames so far:
* a free slot has PGN 0;
* a busy slot holds a fast-packet PGN, is the image of its ghost history (`FPWit`: the history is an in-sequence
  chain, the slot fields are those of the first frame, `data` = concatenated payload truncated to 223), and the
  history is a contiguous tail of the frames of the slot's (PGN, source) in `H`;
* at most one busy slot per (PGN, source).
-/
namespace N2k.Rx

/-! ### findFirst -/

theorem findFirst_spec (st : St) (p : Slot → Bool) : ∀ (fuel i : Nat),
    findFirst st p fuel i < st.N → st.N ≤ i + fuel → p (st.slot (findFirst st p fuel i)) = true
  | 0, i, h, hb => by simp [findFirst] at h; omega
  | fuel+1, i, h, hb => by
    unfold findFirst at h ⊢
    by_cases hi : i < st.N
    · simp only [hi, ↓reduceIte] at h ⊢
      by_cases hp : p (st.slot i) = true
      · simp only [hp, ↓reduceIte]
      · simp only [hp] at h ⊢
        exact findFirst_spec st p fuel (i+1) h (by omega)
    · simp [hi] at h

theorem findFirst_found (st : St) (p : Slot → Bool) (h : findFirst st p st.N 0 < st.N) :
    p (st.slot (findFirst st p st.N 0)) = true :=
  findFirst_spec st p st.N 0 h (by omega)

theorem findFirst_none_aux (st : St) (p : Slot → Bool) : ∀ (fuel i : Nat),
    st.N ≤ i + fuel → ¬ findFirst st p fuel i < st.N → ∀ j, i ≤ j → j < st.N → p (st.slot j) = false
  | 0, i, hb, h, j, hij, hj => by simp [findFirst] at h; omega
  | fuel+1, i, hb, h, j, hij, hj => by
    unfold findFirst at h
    by_cases hi : i < st.N
    · simp only [hi, ↓reduceIte] at h
      by_cases hp : p (st.slot i) = true
      · simp only [hp, ↓reduceIte] at h; exact absurd hi h
      · simp only [hp] at h
        by_cases hji : j = i
        · subst hji; simpa using hp
        · exact findFirst_none_aux st p fuel (i+1) (by omega) h j (by omega) hj
    · omega

theorem findFirst_none (st : St) (p : Slot → Bool) (h : ¬ findFirst st p st.N 0 < st.N) :
    ∀ j, j < st.N → p (st.slot j) = false :=
  fun j hj => findFirst_none_aux st p st.N 0 (by omega) h j (by omega) hj

/-- the first hit is the lowest index that satisfies `p` -/
theorem findFirst_min_aux (st : St) (p : Slot → Bool) : ∀ (fuel i : Nat),
    ∀ j, i ≤ j → j < findFirst st p fuel i → j < st.N → p (st.slot j) = false
  | 0, i, j, hij, hj, _ => by simp [findFirst] at hj; omega
  | fuel+1, i, j, hij, hj, hjn => by
    unfold findFirst at hj
    by_cases hi : i < st.N
    · simp only [hi, ↓reduceIte] at hj
      by_cases hp : p (st.slot i) = true
      · simp only [hp, ↓reduceIte] at hj; omega
      · simp only [hp] at hj
        by_cases hji : j = i
        · subst hji; simpa using hp
        · exact findFirst_min_aux st p fuel (i+1) j (by omega) hj hjn
    · simp only [hi, ↓reduceIte] at hj; omega

/-! ### bytes -/

theorem fpBytes_snoc (hist : List Frame) (hne : hist ≠ []) (f : Frame) :
    fpBytes (hist ++ [f]) = fpBytes hist ++ payloadOf false f := by
  cases hist with
  | nil => exact absurd rfl hne
  | cons f0 rest => simp [fpBytes, List.flatMap_append]

theorem copy_take (A B : List Nat) :
    (A.take 223) ++ (B.take (223 - (A.take 223).length)) = (A ++ B).take 223 := by
  rw [List.take_append]
  by_cases h : A.length ≤ 223
  · rw [List.take_of_length_le h]
  · have h1 : (A.take 223).length = 223 := by simp; omega
    have h2 : 223 - A.length = 0 := by omega
    simp [h1, h2]

theorem copy_single (f : Frame) (hf : WFrame f) : copy [] 0 f = f.b.take f.len := by
  unfold copy
  simp only [List.nil_append, List.length_nil, Nat.sub_zero, List.drop_zero]
  apply List.take_of_length_le
  rw [List.length_take]; have := hf.1; have := hf.2; omega

/-! ### chains -/

theorem IsChain.ne_nil {f0 : Frame} {w : List Frame} (h : IsChain f0 w) : w ≠ [] := by
  intro hw; have := h.head; rw [hw] at this; simp at this

theorem IsChain.single (f : Frame) (h0 : f.byte 0 % 32 = 0) : IsChain f [f] := by
  refine ⟨rfl, h0, ?_, ?_, ?_⟩
  · intro g hg; simp at hg; subst hg; exact ⟨rfl, rfl⟩
  · intro k hk; simp at hk; subst hk; simp
  · intro k hk hpos; simp at hk; omega

theorem IsChain.snoc {f0 : Frame} {w : List Frame} (h : IsChain f0 w) (f : Frame)
    (hp : f.pgn = f0.pgn) (hs : f.src = f0.src) (hb : f.byte 0 = f0.byte 0 + w.length)
    (hc : f.byte 0 % 32 ≠ 0) : IsChain f0 (w ++ [f]) := by
  have ne := h.ne_nil
  have hhead : (w ++ [f]).head? = w.head? := by
    cases hw : w with
    | nil => exact absurd hw ne
    | cons a t => simp
  refine ⟨by rw [hhead]; exact h.head, h.first, ?_, ?_, ?_⟩
  · intro g hg
    simp only [List.mem_append, List.mem_singleton] at hg
    rcases hg with hg | hg
    · exact h.same g hg
    · subst hg; exact ⟨hp, hs⟩
  · intro k hk
    simp only [List.length_append, List.length_singleton] at hk
    by_cases hk' : k < w.length
    · rw [List.getElem_append_left hk']; exact h.ctr k hk'
    · have hke : k = w.length := by omega
      subst hke
      simp only [List.getElem_append_right (Nat.le_refl _), Nat.sub_self, List.getElem_singleton]
      exact hb
  · intro k hk hpos
    simp only [List.length_append, List.length_singleton] at hk
    by_cases hk' : k < w.length
    · rw [List.getElem_append_left hk']; exact h.cont k hk' hpos
    · have hke : k = w.length := by omega
      subst hke
      simp only [List.getElem_append_right (Nat.le_refl _), Nat.sub_self, List.getElem_singleton]
      exact hc

/-- a chain has at most 32 frames (5-bit frame counter), hence one sequence id -/
theorem IsChain.length_le {f0 : Frame} {w : List Frame} (h : IsChain f0 w) : w.length ≤ 32 := by
  apply Decidable.byContradiction
  intro hlt
  have hk : 32 < w.length := by omega
  have h1 := h.ctr 32 hk
  have h2 := h.cont 32 hk (by omega)
  have h3 := h.first
  omega

theorem IsChain.seq {f0 : Frame} {w : List Frame} (h : IsChain f0 w) (k : Nat) (hk : k < w.length) :
    (w[k]).byte 0 / 32 = f0.byte 0 / 32 ∧ (w[k]).byte 0 % 32 = k := by
  have h1 := h.ctr k hk
  have h2 := h.length_le
  have h3 := h.first
  omega

/-- what it means for a busy slot to be the image of its ghost history -/
structure FPWit (s : Slot) (f0 : Frame) : Prop where
  chain : IsChain f0 s.hist
  pgn : s.pgn = f0.pgn
  src : s.src = f0.src
  dst : s.dst = f0.dst
  prio : s.prio = f0.prio % 8
  dataLen : s.dataLen = f0.byte 1
  last : s.lastFrame = f0.byte 0 + (s.hist.length - 1)
  data : s.data = (fpBytes s.hist).take 223

theorem FPWit.snoc {s : Slot} {f0 : Frame} (hw : FPWit s f0) (f : Frame) (hp : f.pgn = s.pgn) (hs : f.src = s.src)
    (hl : s.lastFrame + 1 = f.byte 0) (hc : f.byte 0 % 32 ≠ 0) : FPWit (contSlot s f) f0 := by
  have ne := hw.chain.ne_nil
  have hlen : 0 < s.hist.length := List.length_pos_iff.mpr ne
  have hlast := hw.last
  refine ⟨?_, hw.pgn, hw.src, hw.dst, hw.prio, hw.dataLen, ?_, ?_⟩
  · exact hw.chain.snoc f (by rw [hp, hw.pgn]) (by rw [hs, hw.src]) (by omega) hc
  · show f.byte 0 = f0.byte 0 + ((s.hist ++ [f]).length - 1)
    simp only [List.length_append, List.length_singleton]; omega
  · show copy s.data 1 f = (fpBytes (s.hist ++ [f])).take 223
    unfold copy
    rw [fpBytes_snoc _ ne, hw.data]
    exact copy_take _ _

theorem FPWit.init (old : Slot) (now : Nat) (f : Frame) (h0 : f.byte 0 % 32 = 0) :
    FPWit (initSlot old now f true) f := by
  refine ⟨IsChain.single f h0, rfl, rfl, rfl, rfl, rfl, ?_, ?_⟩
  · simp [initSlot]
  · simp [initSlot, copy, fpBytes, payloadOf]

/-! ### the invariant -/

structure Inv (isFP : Nat → Bool) (st : St) (H : List Frame) : Prop where
  free : ∀ i, i < st.N → (st.slot i).free = true → (st.slot i).pgn = 0
  busy : ∀ i, i < st.N → (st.slot i).free = false → (st.slot i).tp = false →
    isFP (st.slot i).pgn = true ∧ (∃ f0, FPWit (st.slot i) f0) ∧
    (st.slot i).hist <:+ keyHist H (st.slot i).pgn (st.slot i).src
  uniq : ∀ i j, i < st.N → j < st.N → (st.slot i).free = false → (st.slot j).free = false →
    (st.slot i).tp = false → (st.slot j).tp = false → (st.slot i).pgn = (st.slot j).pgn → (st.slot i).src = (st.slot j).src → i = j

theorem Inv.init (isFP : Nat → Bool) (n : Nat) : Inv isFP (init n) [] :=
  ⟨fun _ _ _ => rfl, fun _ _ h => by simp [N2k.Rx.init, emptySlot] at h,
   fun _ _ _ _ h => by simp [N2k.Rx.init, emptySlot] at h⟩

theorem keyHist_snoc_ne (H : List Frame) (f : Frame) (pgn src : Nat) (h : ¬ (pgn = f.pgn ∧ src = f.src)) :
    keyHist (H ++ [f]) pgn src = keyHist H pgn src := by
  unfold keyHist
  rw [List.filter_append]
  have : (f.pgn == pgn && f.src == src) = false := by
    cases hh : (f.pgn == pgn && f.src == src) with
    | false => rfl
    | true =>
      simp only [Bool.and_eq_true, beq_iff_eq] at hh
      exact absurd ⟨hh.1.symm, hh.2.symm⟩ h
  simp [this]

theorem keyHist_snoc_eq (H : List Frame) (f : Frame) :
    keyHist (H ++ [f]) f.pgn f.src = keyHist H f.pgn f.src ++ [f] := by
  unfold keyHist
  rw [List.filter_append]
  simp

/-- the slot at `i` is replaced by `s` while the handled frame `f` is appended to the history -/
theorem Inv.update {isFP : Nat → Bool} {st : St} {H : List Frame} (hI : Inv isFP st H) (f : Frame)
    (i : Nat) (s : Slot)
    (hoth : ∀ j, j < st.N → j ≠ i → (st.slot j).free = false → (st.slot j).tp = false →
      ¬ ((st.slot j).pgn = f.pgn ∧ (st.slot j).src = f.src))
    (h1 : s.free = true → s.pgn = 0)
    (h2 : s.free = false → s.tp = false → isFP s.pgn = true ∧ (∃ f0, FPWit s f0) ∧
      s.hist <:+ keyHist (H ++ [f]) s.pgn s.src ∧ s.pgn = f.pgn ∧ s.src = f.src) :
    Inv isFP (setSlot st i s) (H ++ [f]) := by
  have hsl : ∀ j, (setSlot st i s).slot j = if j = i then s else st.slot j := fun j => rfl
  refine ⟨?_, ?_, ?_⟩
  · intro j hj hfr
    rw [hsl] at hfr ⊢
    by_cases hji : j = i
    · simp only [hji, ↓reduceIte] at hfr ⊢; exact h1 hfr
    · simp only [hji, ↓reduceIte] at hfr ⊢; exact hI.free j hj hfr
  · intro j hj hfr htp
    rw [hsl] at hfr htp ⊢
    by_cases hji : j = i
    · simp only [hji, ↓reduceIte] at hfr htp ⊢
      obtain ⟨a, b, c, _, _⟩ := h2 hfr htp
      exact ⟨a, b, c⟩
    · simp only [hji, ↓reduceIte] at hfr htp ⊢
      obtain ⟨a, b, c⟩ := hI.busy j hj hfr htp
      refine ⟨a, b, ?_⟩
      rw [keyHist_snoc_ne H f _ _ (hoth j hj hji hfr htp)]
      exact c
  · intro j k hj hk hfj hfk htj htk hp hs
    rw [hsl] at hfj htj hp hs
    rw [hsl] at hfk htk hp hs
    by_cases hji : j = i
    · by_cases hki : k = i
      · rw [hji, hki]
      · simp only [hji, hki, ↓reduceIte] at hfj hfk htj htk hp hs
        obtain ⟨_, _, _, d, e⟩ := h2 hfj htj
        exact absurd ⟨by rw [← hp]; exact d, by rw [← hs]; exact e⟩ (hoth k hk hki hfk htk)
    · by_cases hki : k = i
      · simp only [hji, hki, ↓reduceIte] at hfj hfk htj htk hp hs
        obtain ⟨_, _, _, d, e⟩ := h2 hfk htk
        exact absurd ⟨by rw [hp]; exact d, by rw [hs]; exact e⟩ (hoth j hj hji hfj htj)
      · simp only [hji, hki, ↓reduceIte] at hfj hfk htj htk hp hs
        exact hI.uniq j k hj hk hfj hfk htj htk hp hs

/-- the frame `f` is appended to the history and no slot changes -/
theorem Inv.skip {isFP : Nat → Bool} {st : St} {H : List Frame} (hI : Inv isFP st H) (f : Frame)
    (hoth : ∀ j, j < st.N → (st.slot j).free = false → (st.slot j).tp = false →
      ¬ ((st.slot j).pgn = f.pgn ∧ (st.slot j).src = f.src)) :
    Inv isFP st (H ++ [f]) := by
  refine ⟨hI.free, ?_, hI.uniq⟩
  intro j hj hfr htp
  obtain ⟨a, b, c⟩ := hI.busy j hj hfr htp
  refine ⟨a, b, ?_⟩
  rw [keyHist_snoc_ne H f _ _ (hoth j hj hfr htp)]
  exact c

theorem matchP_iff (f : Frame) (s : Slot) :
    matchP f s = true ↔ s.pgn = f.pgn ∧ s.src = f.src ∧ s.tp = false := by
  simp [matchP, and_assoc]

/-- a slot matched by (PGN, source) is the only busy slot of that key -/
theorem Inv.others_of_match {isFP : Nat → Bool} {st : St} {H : List Frame} (hI : Inv isFP st H)
    (h0 : isFP 0 = false) (f : Frame) (i : Nat) (hi : i < st.N) (hm : matchP f (st.slot i) = true) :
    ∀ j, j < st.N → j ≠ i → (st.slot j).free = false → (st.slot j).tp = false →
      ¬ ((st.slot j).pgn = f.pgn ∧ (st.slot j).src = f.src) := by
  intro j hj hji hfj htj hk
  obtain ⟨hp, hs, ht⟩ := (matchP_iff f _).mp hm
  cases hfi : (st.slot i).free with
  | false => exact hji (hI.uniq j i hj hi hfj hfi htj ht (by rw [hk.1, hp]) (by rw [hk.2, hs]))
  | true =>
    have hz := hI.free i hi hfi
    have := (hI.busy j hj hfj htj).1
    rw [hk.1, ← hp, hz, h0] at this
    cases this

theorem Inv.others_of_nomatch {st : St} (f : Frame) (hn : ¬ findSlot st f < st.N) :
    ∀ j, j < st.N → (st.slot j).tp = false → ¬ ((st.slot j).pgn = f.pgn ∧ (st.slot j).src = f.src) := by
  intro j hj htj hk
  have := findFirst_none st (matchP f) hn j hj
  rw [(matchP_iff f _).mpr ⟨hk.1, hk.2, htj⟩] at this
  cases this

/-- whatever slot the first-frame search returns, no other busy slot has the frame's key -/
theorem Inv.others_of_findFree {isFP : Nat → Bool} {st : St} {H : List Frame} (hI : Inv isFP st H)
    (h0 : isFP 0 = false) (now : Nat) (f : Frame) (_hi : findFree st now f < st.N) :
    ∀ j, j < st.N → j ≠ findFree st now f → (st.slot j).free = false → (st.slot j).tp = false →
      ¬ ((st.slot j).pgn = f.pgn ∧ (st.slot j).src = f.src) := by
  by_cases hm : findSlot st f < st.N
  · have he : findFree st now f = findSlot st f := by unfold findFree; rw [if_pos hm]
    rw [he]
    exact hI.others_of_match h0 f _ hm (findFirst_found st (matchP f) hm)
  · intro j hj _ _ htj
    exact Inv.others_of_nomatch f hm j hj htj

theorem freeSlot_pgn (s : Slot) : (freeSlot s).free = true → (freeSlot s).pgn = 0 := fun _ => rfl

theorem suffix_snoc {α : Type} {a b : List α} (h : a <:+ b) (x : α) : a ++ [x] <:+ b ++ [x] := by
  obtain ⟨t, ht⟩ := h
  exact ⟨t, by rw [← ht, List.append_assoc]⟩

theorem suffix_single {α : Type} (b : List α) (x : α) : [x] <:+ b ++ [x] := ⟨b, rfl⟩

/-! ### deliver-or-store -/

/-- the `Ready` test for a fast-packet slot that is the image of its history and has just accepted `f` -/
theorem finish_fp (isFP : Nat → Bool) (st : St) (H : List Frame) (hI : Inv isFP st H) (i : Nat)
    (s' : Slot) (f f0 : Frame)
    (hoth : ∀ j, j < st.N → j ≠ i → (st.slot j).free = false → (st.slot j).tp = false →
      ¬ ((st.slot j).pgn = f.pgn ∧ (st.slot j).src = f.src))
    (hfree : s'.free = false) (hw : FPWit s' f0) (hp : s'.pgn = f.pgn) (hs : s'.src = f.src)
    (hsuf : s'.hist <:+ keyHist (H ++ [f]) f.pgn f.src)
    (hlast : s'.hist.getLast? = some f) (hfp : isFP f.pgn = true) :
    Inv isFP (finish st i s').1 (H ++ [f]) ∧
    (∀ m, (finish st i s').2 = some m → Delivery isFP (H ++ [f]) f m ∧
      ∀ j, j < st.N → ((finish st i s').1.slot j).free = false → ((finish st i s').1.slot j).tp = false →
        ¬ (((finish st i s').1.slot j).pgn = m.pgn ∧ ((finish st i s').1.slot j).src = m.src)) := by
  unfold finish
  by_cases hready : s'.data.length ≥ s'.dataLen
  · rw [if_pos hready]
    refine ⟨hI.update f i _ hoth (freeSlot_pgn _) (fun h => by cases h), ?_⟩
    intro m hm
    simp only [Option.some.injEq] at hm
    subst hm
    have hdl : s'.data.length ≤ 223 := by rw [hw.data, List.length_take]; exact Nat.min_le_left _ _
    have hL : f0.byte 1 ≤ 223 := by rw [← hw.dataLen]; omega
    have hlen2 : f0.byte 1 ≤ (fpBytes s'.hist).length := by
      have : s'.data.length ≤ (fpBytes s'.hist).length := by
        rw [hw.data, List.length_take]; exact Nat.min_le_right _ _
      rw [← hw.dataLen]; omega
    refine ⟨Or.inr ⟨hfp, s'.hist, hsuf, hlast, f0, hw.chain, hL, hlen2, ?_⟩, ?_⟩
    · simp only [msgOf, chainMsg, hw.prio, hw.pgn, hw.src, hw.dst, hw.dataLen, hw.data, List.take_take]
      rw [Nat.min_eq_left hL]
    · intro j hj hfj htj hk
      have hsl : (setSlot st i (freeSlot s')).slot j = if j = i then freeSlot s' else st.slot j := rfl
      rw [hsl] at hfj htj hk
      by_cases hji : j = i
      · simp only [hji, ↓reduceIte] at hfj; cases hfj
      · simp only [hji, ↓reduceIte] at hfj htj hk
        simp only [msgOf] at hk
        exact hoth j hj hji hfj htj ⟨by rw [hk.1, hp], by rw [hk.2, hs]⟩
  · rw [if_neg hready]
    refine ⟨hI.update f i _ hoth (fun h => by rw [hfree] at h; cases h)
      (fun _ _ => ⟨by rw [hp]; exact hfp, ⟨f0, hw⟩, by rw [hp, hs]; exact hsuf, hp, hs⟩), ?_⟩
    intro m hm; cases hm

/-- one handled frame: the invariant is kept, a delivered message is a single frame or a complete in-sequence
chain that is a contiguous tail of the frames of its key, and its key holds no slot afterwards -/
theorem rxCore_spec (isFP : Nat → Bool) (h0 : isFP 0 = false) (st : St) (H : List Frame)
    (hI : Inv isFP st H) (now : Nat) (f : Frame) (hf : WFrame f) :
    Inv isFP (rxCore isFP st now f).1 (H ++ [f]) ∧
    (∀ m, (rxCore isFP st now f).2 = some m → Delivery isFP (H ++ [f]) f m ∧
      ∀ j, j < st.N → ((rxCore isFP st now f).1.slot j).free = false →
        ((rxCore isFP st now f).1.slot j).tp = false →
        ¬ (((rxCore isFP st now f).1.slot j).pgn = m.pgn ∧ ((rxCore isFP st now f).1.slot j).src = m.src)) := by
  unfold rxCore
  by_cases hc : (isFP f.pgn && f.byte 0 % 32 != 0) = true
  · -- continuation frame
    rw [if_pos hc]
    simp only [Bool.and_eq_true, bne_iff_ne, ne_eq] at hc
    obtain ⟨hfp, hb0⟩ := hc
    by_cases hi : findSlot st f < st.N
    · rw [if_pos hi]
      have hfound : matchP f (st.slot (findSlot st f)) = true := findFirst_found st (matchP f) hi
      obtain ⟨hpg, hsr, htp⟩ := (matchP_iff f _).mp hfound
      have hoth := hI.others_of_match h0 f _ hi hfound
      have hnf : (st.slot (findSlot st f)).free = false := by
        cases hfr : (st.slot (findSlot st f)).free with
        | false => rfl
        | true =>
          have := hI.free _ hi hfr
          rw [this] at hpg; rw [← hpg, h0] at hfp; cases hfp
      obtain ⟨_, ⟨f0, hw⟩, hsuf⟩ := hI.busy _ hi hnf htp
      by_cases hl : (st.slot (findSlot st f)).lastFrame + 1 = f.byte 0
      · rw [if_pos hl]
        refine finish_fp isFP st H hI _ _ f f0 hoth hnf (hw.snoc f hpg.symm hsr.symm hl hb0) hpg hsr ?_ ?_ hfp
        · show (st.slot (findSlot st f)).hist ++ [f] <:+ _
          rw [keyHist_snoc_eq]
          rw [hpg, hsr] at hsuf
          exact suffix_snoc hsuf f
        · show ((st.slot (findSlot st f)).hist ++ [f]).getLast? = some f
          simp
      · rw [if_neg hl]
        refine ⟨hI.update f _ _ hoth (freeSlot_pgn _) (fun h => by cases h), ?_⟩
        intro m hm; cases hm
    · rw [if_neg hi]
      exact ⟨hI.skip f (fun j hj _ htj => Inv.others_of_nomatch f hi j hj htj), fun m hm => by cases hm⟩
  · -- first / single frame
    rw [if_neg hc]
    by_cases hi : findFree st now f < st.N
    · rw [if_pos hi]
      have hoth := hI.others_of_findFree h0 now f hi
      cases hfp : isFP f.pgn with
      | false =>
        have hlen : (copy [] 0 f).length = f.len := by
          rw [copy_single f hf, List.length_take]; have := hf.1; have := hf.2; omega
        have hfin : finish st (findFree st now f) (initSlot (st.slot (findFree st now f)) now f false) =
            (setSlot st (findFree st now f) (freeSlot (initSlot (st.slot (findFree st now f)) now f false)),
             some (msgOf (initSlot (st.slot (findFree st now f)) now f false))) := by
          unfold finish
          rw [if_pos (by simp [initSlot, hlen])]
        rw [hfin]
        refine ⟨hI.update f _ _ hoth (freeSlot_pgn _) (fun h => by cases h), ?_⟩
        intro m hm
        simp only [Option.some.injEq] at hm
        subst hm
        refine ⟨Or.inl ⟨hfp, ?_⟩, ?_⟩
        · simp only [SFDelivery, msgOf, initSlot, Bool.false_eq_true, ↓reduceIte, copy_single f hf]
          congr 1
          apply List.take_of_length_le
          rw [List.length_take]; exact Nat.min_le_left _ _
        · intro j hj hfj htj hk
          have hsl : ∀ s, (setSlot st (findFree st now f) s).slot j =
              if j = findFree st now f then s else st.slot j := fun _ => rfl
          rw [hsl] at hfj htj hk
          by_cases hji : j = findFree st now f
          · simp only [hji, ↓reduceIte] at hfj; cases hfj
          · simp only [hji, ↓reduceIte] at hfj htj hk
            exact hoth j hj hji hfj htj (by simpa [msgOf, initSlot] using hk)
      | true =>
        have hb0 : f.byte 0 % 32 = 0 := by
          simp only [hfp, Bool.true_and, bne_iff_ne, ne_eq, Decidable.not_not] at hc
          simpa using hc
        refine finish_fp isFP st H hI _ _ f f hoth ?_ (FPWit.init _ now f hb0) ?_ ?_ ?_ ?_ hfp
        · simp [initSlot]
        · simp [initSlot]
        · simp [initSlot]
        · show (initSlot (st.slot (findFree st now f)) now f true).hist <:+ _
          rw [keyHist_snoc_eq]
          simp only [initSlot, ↓reduceIte]
          exact suffix_single _ f
        · simp [initSlot]
    · rw [if_neg hi]
      -- no slot: the frame is dropped; no busy slot has its key (a matching slot would have been found)
      have hn : ¬ findSlot st f < st.N := by
        intro hm
        apply hi
        unfold findFree; rw [if_pos hm]; exact hm
      exact ⟨hI.skip f (fun j hj _ htj => Inv.others_of_nomatch f hn j hj htj), fun m hm => by cases hm⟩

/-! ### slots taken or released by the TP receiver: the history of handled frames is unchanged -/

/-- slot `i` becomes a free slot with PGN 0 or a TP slot -/
theorem Inv.set_other {isFP : Nat → Bool} {st : St} {H : List Frame} (hI : Inv isFP st H) (i : Nat) (s : Slot)
    (h1 : s.free = true → s.pgn = 0) (h2 : s.free = false → s.tp = true) : Inv isFP (setSlot st i s) H := by
  have hsl : ∀ j, (setSlot st i s).slot j = if j = i then s else st.slot j := fun j => rfl
  refine ⟨?_, ?_, ?_⟩
  · intro j hj hfr
    rw [hsl] at hfr ⊢
    by_cases hji : j = i
    · simp only [hji, ↓reduceIte] at hfr ⊢; exact h1 hfr
    · simp only [hji, ↓reduceIte] at hfr ⊢; exact hI.free j hj hfr
  · intro j hj hfr htp
    rw [hsl] at hfr htp ⊢
    by_cases hji : j = i
    · simp only [hji, ↓reduceIte] at hfr htp; rw [h2 hfr] at htp; cases htp
    · simp only [hji, ↓reduceIte] at hfr htp ⊢; exact hI.busy j hj hfr htp
  · intro j k hj hk hfj hfk htj htk hp hs
    rw [hsl] at hfj htj hp hs
    rw [hsl] at hfk htk hp hs
    by_cases hji : j = i
    · simp only [hji, ↓reduceIte] at hfj htj; rw [h2 hfj] at htj; cases htj
    · by_cases hki : k = i
      · simp only [hki, ↓reduceIte] at hfk htk; rw [h2 hfk] at htk; cases htk
      · simp only [hji, hki, ↓reduceIte] at hfj hfk htj htk hp hs
        exact hI.uniq j k hj hk hfj hfk htj htk hp hs

theorem Inv.tpClear {isFP : Nat → Bool} {st : St} {H : List Frame} (hI : Inv isFP st H) (src dst : Nat) :
    Inv isFP (tpClear st src dst) H := by
  have hsl : ∀ j, (N2k.Rx.tpClear st src dst).slot j =
      if !(st.slot j).free && (st.slot j).tp && (st.slot j).src == src && (st.slot j).dst == dst
      then freeSlot (st.slot j) else st.slot j := fun j => rfl
  have hkeep : ∀ j, ((N2k.Rx.tpClear st src dst).slot j).free = false →
      ((N2k.Rx.tpClear st src dst).slot j).tp = false → (N2k.Rx.tpClear st src dst).slot j = st.slot j := by
    intro j hfr htp
    rw [hsl] at hfr htp ⊢
    split
    · rename_i hc; rw [if_pos hc] at hfr; cases hfr
    · rfl
  refine ⟨?_, ?_, ?_⟩
  · intro j hj hfr
    rw [hsl] at hfr ⊢
    split
    · rfl
    · rename_i hc; rw [if_neg hc] at hfr; exact hI.free j hj hfr
  · intro j hj hfr htp
    have := hkeep j hfr htp
    rw [this] at hfr htp ⊢
    exact hI.busy j hj hfr htp
  · intro j k hj hk hfj hfk htj htk hp hs
    have e1 := hkeep j hfj htj
    have e2 := hkeep k hfk htk
    rw [e1] at hfj htj hp hs
    rw [e2] at hfk htk hp hs
    exact hI.uniq j k hj hk hfj hfk htj htk hp hs

theorem Inv.tpUse {isFP : Nat → Bool} {st : St} {H : List Frame} (hI : Inv isFP st H) (ok : Bool)
    (i now pgn src dst n : Nat) : Inv isFP (tpUse ok st i now pgn src dst n) H := by
  unfold N2k.Rx.tpUse
  split
  · exact hI.set_other i _ (fun h => by simp [tpSlot] at h) (fun _ => rfl)
  · exact hI

/-- a TP.CM RTS/BAM frame keeps the invariant (it only frees slots or turns one into a TP slot) -/
theorem rxTPOpen_inv {isFP : Nat → Bool} (c : Cfg) {st : St} {H : List Frame} (hI : Inv isFP st H) (now : Nat)
    (f : Frame) : Inv isFP (rxTPOpen c st now f) H := by
  unfold rxTPOpen
  simp only
  have h1 := hI.tpClear f.src f.dst
  split
  · exact h1.tpUse _ _ _ _ _ _ _
  · split
    · exact h1.tpUse _ _ _ _ _ _ _
    · split
      · exact (h1.set_other _ _ (freeSlot_pgn _) (fun h => by cases h)).tpUse _ _ _ _ _ _ _
      · exact h1

end N2k.Rx
