/-! Ring window arithmetic shared by ring-buffer models: indices tail, tail+1, …, head-1 (mod n). -/
namespace Win

def cnt (n tail head : Nat) : Nat := (head + n - tail) % n

def idxs (n tail head : Nat) : List Nat := (List.range (cnt n tail head)).map fun i => (tail + i) % n

theorem cnt_spec {n tail head : Nat} (hn : 0 < n) (ht : tail < n) (hh : head < n) :
    (tail ≤ head ∧ cnt n tail head = head - tail) ∨ (head < tail ∧ cnt n tail head = head + n - tail) := by
  unfold cnt
  by_cases hle : tail ≤ head
  · left
    have : head + n - tail = n + (head - tail) := by omega
    rw [this, Nat.add_mod_left, Nat.mod_eq_of_lt (by omega)]; exact ⟨hle, rfl⟩
  · right
    rw [Nat.mod_eq_of_lt (by omega)]; exact ⟨by omega, rfl⟩

theorem succ_mod {a n : Nat} (h : a < n) :
    (a + 1 < n ∧ (a + 1) % n = a + 1) ∨ (a + 1 = n ∧ (a + 1) % n = 0) := by
  by_cases hlt : a + 1 < n
  · left; exact ⟨hlt, Nat.mod_eq_of_lt hlt⟩
  · right; have : a + 1 = n := by omega
    exact ⟨this, by rw [this, Nat.mod_self]⟩

theorem mod_wrap {a n : Nat} (h : a < 2 * n) :
    (a < n ∧ a % n = a) ∨ (n ≤ a ∧ a % n = a - n) := by
  by_cases hlt : a < n
  · left; exact ⟨hlt, Nat.mod_eq_of_lt hlt⟩
  · right; have : a = n + (a - n) := by omega
    refine ⟨by omega, ?_⟩
    rw [this, Nat.add_mod_left, Nat.mod_eq_of_lt (by omega)]; omega

theorem cnt_lt {n tail head : Nat} (hn : 0 < n) : cnt n tail head < n := Nat.mod_lt _ hn

theorem cnt_zero_iff {n tail head : Nat} (hn : 0 < n) (ht : tail < n) (hh : head < n) :
    cnt n tail head = 0 ↔ tail = head := by
  rcases cnt_spec hn ht hh with ⟨a, b⟩ | ⟨a, b⟩ <;> rw [b] <;> omega

/-- element i of the window, in closed form -/
theorem idx_val {n tail head i : Nat} (hn : 0 < n) (ht : tail < n) (hh : head < n)
    (hi : i < cnt n tail head) :
    (tail + i < n ∧ (tail + i) % n = tail + i) ∨ (n ≤ tail + i ∧ (tail + i) % n = tail + i - n) := by
  have := cnt_lt (tail := tail) (head := head) hn
  exact mod_wrap (by omega)

theorem mem_idxs {n tail head j : Nat} :
    j ∈ idxs n tail head ↔ ∃ i, i < cnt n tail head ∧ (tail + i) % n = j := by
  simp [idxs]

theorem idxs_lt {n tail head j : Nat} (hn : 0 < n) (hj : j ∈ idxs n tail head) : j < n := by
  obtain ⟨i, _, rfl⟩ := mem_idxs.mp hj
  exact Nat.mod_lt _ hn

theorem head_not_mem {n tail head : Nat} (hn : 0 < n) (ht : tail < n) (hh : head < n) :
    head ∉ idxs n tail head := by
  intro hm
  obtain ⟨i, hi, he⟩ := mem_idxs.mp hm
  rcases cnt_spec hn ht hh with ⟨a, b⟩ | ⟨a, b⟩ <;>
    rcases idx_val hn ht hh hi with ⟨c, d⟩ | ⟨c, d⟩ <;> rw [d] at he <;> omega

theorem idxs_push {n tail head : Nat} (hn : 0 < n) (ht : tail < n) (hh : head < n)
    (hne : (head + 1) % n ≠ tail) :
    idxs n tail ((head + 1) % n) = idxs n tail head ++ [head] := by
  have hh' : (head + 1) % n < n := Nat.mod_lt _ hn
  have hc : cnt n tail ((head + 1) % n) = cnt n tail head + 1 := by
    have hs := succ_mod hh
    generalize (head + 1) % n = x at hh' hne hs ⊢
    rcases cnt_spec hn ht hh with ⟨a, b⟩ | ⟨a, b⟩ <;>
      rcases cnt_spec hn ht hh' with ⟨c, d⟩ | ⟨c, d⟩ <;>
      rcases hs with ⟨e, f⟩ | ⟨e, f⟩ <;> omega
  unfold idxs
  rw [hc, List.range_succ, List.map_append, List.map_cons, List.map_nil]
  congr 2
  have hlt := cnt_lt (tail := tail) (head := head) hn
  rcases cnt_spec hn ht hh with ⟨a, b⟩ | ⟨a, b⟩ <;>
    rcases @mod_wrap (tail + cnt n tail head) n (by omega) with ⟨c, d⟩ | ⟨c, d⟩ <;> rw [d] <;> omega

theorem idxs_pop {n tail head : Nat} (hn : 0 < n) (ht : tail < n) (hh : head < n) (hne : tail ≠ head) :
    idxs n tail head = tail :: idxs n ((tail + 1) % n) head := by
  have ht' : (tail + 1) % n < n := Nat.mod_lt _ hn
  have hc : cnt n tail head = cnt n ((tail + 1) % n) head + 1 := by
    have hs := succ_mod ht
    generalize (tail + 1) % n = x at ht' hs ⊢
    rcases cnt_spec hn ht hh with ⟨a, b⟩ | ⟨a, b⟩ <;>
      rcases cnt_spec hn ht' hh with ⟨c, d⟩ | ⟨c, d⟩ <;>
      rcases hs with ⟨e, f⟩ | ⟨e, f⟩ <;> omega
  unfold idxs
  rw [hc, List.range_succ_eq_map, List.map_cons, List.map_map]
  congr 1
  · simp [Nat.mod_eq_of_lt ht]
  · apply List.map_congr_left
    intro i _
    simp only [Function.comp, Nat.succ_eq_add_one]
    rw [Nat.add_mod ((tail + 1) % n) i, Nat.mod_mod, ← Nat.add_mod]
    congr 1; omega

theorem idxs_nil {n tail : Nat} (hn : 0 < n) : idxs n tail tail = [] := by
  have : cnt n tail tail = 0 := by
    unfold cnt; have : tail + n - tail = n := by omega
    rw [this, Nat.mod_self]
  simp [idxs, this]

theorem idxs_nodup {n tail head : Nat} (hn : 0 < n) (ht : tail < n) (hh : head < n) :
    (idxs n tail head).Nodup := by
  unfold idxs List.Nodup
  rw [List.pairwise_map]
  refine List.Pairwise.imp_of_mem ?_ (List.pairwise_lt_range (n := cnt n tail head))
  intro i j hi hj hlt he
  have hi' := List.mem_range.mp hi
  have hj' := List.mem_range.mp hj
  rcases idx_val hn ht hh hi' with ⟨a, b⟩ | ⟨a, b⟩ <;>
    rcases idx_val hn ht hh hj' with ⟨c, d⟩ | ⟨c, d⟩ <;>
    rcases cnt_spec hn ht hh with ⟨e, f⟩ | ⟨e, f⟩ <;> rw [b, d] at he <;> omega

end Win
