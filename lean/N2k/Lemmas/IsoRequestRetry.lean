import N2k.Lemmas.IsoRequestOut
/-! The pending product / configuration information timers: when they are armed, when they are due, and that
nothing else of the responder touches them. -/
namespace N2k.IsoRequest
open N2k.Send N2k.Time

/-! ## what leaves the timers alone -/

theorem sendPlain_ext (n : Node) (i : Nat) (m : Msg) : (sendPlain n i m).1.ext = n.ext := rfl

theorem sendAll_ext (i : Nat) : ∀ (ms : List Msg) (n : Node), (sendAll n i ms).1.ext = n.ext
  | [], _ => rfl
  | m :: t, n => by
    show (sendAll (sendPlain n i m).1 i t).1.ext = n.ext
    rw [sendAll_ext i t]; rfl

/-- the `default:` branch (handler and NAK) never arms a retry -/
theorem dflt_ext (n : Node) (h : Option Handler) (r : Nat) (a : Bool) (p i : Nat) : (dflt n h r a p i).1.ext = n.ext := by
  unfold dflt
  cases h with
  | none => by_cases ha : a = true <;> simp [ha, sendPlain]
  | some hd =>
    simp only
    by_cases hig : (!a && Gen.ignoreBroadcastISORequest.contains p) = true
    · rw [if_pos hig]
    · rw [if_neg hig]
      simp only [andThen]
      by_cases hacc : hd.accept p r i = true
      · rw [if_pos hacc]; exact sendAll_ext _ _ _
      · rw [if_neg hacc]
        by_cases ha : a = true
        · rw [if_pos ha, sendPlain_ext]; exact sendAll_ext _ _ _
        · rw [if_neg ha]; exact sendAll_ext _ _ _

/-! ## arming -/

theorem getElem?_set_self' {α : Type} (l : List α) (i : Nat) (a b : α) (h : l[i]? = some a) : (l.set i b)[i]? = some b := by
  have hl : i < l.length := by
    rcases Nat.lt_or_ge i l.length with h1 | h1
    · exact h1
    · rw [List.getElem?_eq_none h1] at h; cases h
  simp [hl]

theorem updExt_get (n : Node) (i : Nat) (g : DevX → DevX) (x : DevX) (hx : n.ext[i]? = some x) :
    (updExt n i g).ext[i]? = some (g x) := by
  unfold updExt
  rw [hx]
  exact getElem?_set_self' _ _ _ _ hx

theorem finishProd_get (n : Node) (i src : Nat) (m : Msg) (x : DevX) (hx : n.ext[i]? = some x) :
    (finishProd n i src m).ext[i]? = some (afterProd n.st (sendMsg n.st m (some i)).2 src x) :=
  updExt_get _ _ _ _ hx

theorem finishConf_get (n : Node) (i src : Nat) (m : Msg) (x : DevX) (hx : n.ext[i]? = some x) :
    (finishConf n i src m).ext[i]? = some (afterConf n.st (sendMsg n.st m (some i)).2 src x) :=
  updExt_get _ _ _ _ hx

/-! ## the `HasPendingInformation` flag -/

/-- the flag says exactly whether a timer is armed -/
def FlagOk (f : Flavor) (x : DevX) : Prop := x.hasPending = (x.pendProd.isEnabled f || x.pendConf.isEnabled f)

/-- an armed timer is enabled (64-bit scheduler: unless the sum is the all-ones sentinel) -/
theorem isEnabled_fromNow (f : Flavor) (now k : Nat) (h : f = .t64 → now + k < M64 - 1) :
    (Sched.fromNow f now k).isEnabled f = true := by
  cases f with
  | t32 =>
    simp only [Sched.fromNow, Sched.isEnabled, disabledVal, M32, millis32]
    by_cases hs : (now % 4294967296 + k) % 4294967296 = 4294967296 - 1
    · simp [hs]
    · simp only [hs, ↓reduceIte]; simpa using hs
  | t64 =>
    have := h rfl
    simp only [Sched.fromNow, Sched.isEnabled, disabledVal, M64] at *
    rw [Nat.mod_eq_of_lt (by omega)]
    simp; omega

/-- the flag stays exact over `SendProductInformation`'s bookkeeping -/
theorem flagOk_afterProd (s : St) (ok : Bool) (src : Nat) (x : DevX)
    (h64 : s.flavor = .t64 → s.now + (187 + src * 8) < M64 - 1) : FlagOk s.flavor (afterProd s ok src x) := by
  unfold afterProd FlagOk
  cases ok with
  | true => simp [updateHasPending]
  | false => simp [isEnabled_fromNow s.flavor s.now _ h64]

theorem flagOk_afterConf (s : St) (ok : Bool) (src : Nat) (x : DevX)
    (h64 : s.flavor = .t64 → s.now + (187 + src * 10) < M64 - 1) : FlagOk s.flavor (afterConf s ok src x) := by
  unfold afterConf FlagOk
  cases ok with
  | true => simp [updateHasPending]
  | false => simp [isEnabled_fromNow s.flavor s.now _ h64]

/-- a timer that is due is enabled (64-bit scheduler: the clock is below 2^64) -/
theorem isEnabled_of_isTime (f : Flavor) (t : Sched) (now : Nat) (h64 : f = .t64 → now < M64)
    (h : t.isTime f now = true) : t.isEnabled f = true := by
  cases f with
  | t32 => simp only [Sched.isTime, Bool.and_eq_true] at h; exact h.1
  | t64 =>
    have := h64 rfl
    simp only [Sched.isTime, decide_eq_true_eq] at h
    simp only [Sched.isEnabled, disabledVal, M64] at *
    simp; omega

/-- **the retry of the product information does not make the node forget the configuration information**: after the
product-information step — whether its send succeeds or not — the flag is still set while the other timer is armed -/
theorem afterProd_keeps_flag (s : St) (ok : Bool) (src : Nat) (x : DevX) (hc : x.pendConf.isEnabled s.flavor = true) :
    (afterProd s ok src x).hasPending = true ∧ (afterProd s ok src x).pendConf = x.pendConf := by
  unfold afterProd
  cases ok with
  | true => simp [updateHasPending, hc]
  | false => simp

/-! ## when an armed timer is due -/

/-- 64-bit scheduler: due strictly after `now + k` -/
theorem isTime_fromNow_t64 (now k now' : Nat) (h : now + k < M64) :
    (Sched.fromNow .t64 now k).isTime .t64 now' = decide (now' > now + k) := by
  simp only [Sched.fromNow, Sched.isTime, Nat.mod_eq_of_lt h]

/-- 32-bit scheduler: not due before `now + k` … -/
theorem isTime_fromNow_t32_before (now k j : Nat) (hk : k < 2147483647) (hj : j < k) :
    (Sched.fromNow .t32 now k).isTime .t32 (now + j) = false := by
  simp only [Sched.fromNow, Sched.isTime, millis32, sub32, M32, INT32_MAX, disabledVal]
  by_cases hs : (now % 4294967296 + k) % 4294967296 = 4294967296 - 1
  · simp only [hs, ↓reduceIte]; simp; omega
  · simp only [hs, ↓reduceIte]; simp; omega

/-- … and due from 1 ms after `now + k` on (for 2^31 ms; at `now + k` itself unless the sum hits the sentinel) -/
theorem isTime_fromNow_t32_after (now k e : Nat) (he1 : 1 ≤ e) (he : e < 2147483647) :
    (Sched.fromNow .t32 now k).isTime .t32 (now + k + e) = true := by
  simp only [Sched.fromNow, Sched.isTime, millis32, sub32, M32, INT32_MAX, disabledVal]
  by_cases hs : (now % 4294967296 + k) % 4294967296 = 4294967296 - 1
  · simp only [hs, ↓reduceIte]; simp; omega
  · simp only [hs, ↓reduceIte]; simp; omega

/-! ## the configuration-information retry comes after the product-information retry of the same poll -/

theorem sendProductInformation_pendConf (n : Node) (i : Nat) (x : DevX) (hx : n.ext[i]? = some x)
    (hc : x.pendConf.isEnabled n.st.flavor = true) (hf : x.hasPending = true) :
    ∃ x', (sendProductInformation n i).1.ext[i]? = some x' ∧ x'.pendConf = x.pendConf ∧ x'.hasPending = true := by
  unfold sendProductInformation
  cases n.st.devs[i]? with
  | none => exact ⟨x, hx, rfl, hf⟩
  | some d =>
    cases resolveProd n.ext i with
    | none => exact ⟨x, hx, rfl, hf⟩
    | some p =>
      have := afterProd_keeps_flag n.st (sendMsg n.st (productMsg d p) (some i)).2 d.source x hc
      exact ⟨_, finishProd_get _ _ _ _ _ hx, this.2, this.1⟩

theorem confOrNak_congr (d d' : Dev) (c : Config) (h : d'.source = d.source) : confOrNak d' c = confOrNak d c := by
  simp [confOrNak, configMsg, confNakMsg, h]

/-- in a later state of the node the device entry still has the same address -/
theorem same_source (n n' : Node) (hs : Same n n') (i : Nat) (d : Dev) (hd : n.st.devs[i]? = some d) :
    ∃ d', n'.st.devs[i]? = some d' ∧ d'.source = d.source := by
  have hk := getElem?_of_map_eq _ _ _ hs.1.2.2.2 i
  rw [hd] at hk
  cases h' : n'.st.devs[i]? with
  | none => rw [h'] at hk; simp at hk
  | some d' =>
    rw [h'] at hk
    simp only [Option.map_some, Option.some.injEq, key, Prod.mk.injEq] at hk
    exact ⟨d', rfl, hk.1⟩

/-- a poll at which the configuration-information timer is due hands the configuration information to `SendMsg`,
whatever happens to the product information in the same poll -/
theorem pendingDev_conf (n : Node) (i : Nat) (d : Dev) (x : DevX) (hd : n.st.devs[i]? = some d) (hx : n.ext[i]? = some x)
    (hf : x.hasPending = true) (h64 : n.st.flavor = .t64 → n.st.now < M64)
    (hdue : x.pendConf.isTime n.st.flavor n.st.now = true) :
    ∃ pre, (pendingDev n i).2 = pre ++ [⟨i, confOrNak d n.conf⟩] := by
  have hen := isEnabled_of_isTime _ _ _ h64 hdue
  unfold pendingDev
  simp only [hx, hf, ↓reduceIte, andThen]
  have key1 : ∀ (a : Node × List OutMsg), Same n a.1 → (∃ x', a.1.ext[i]? = some x' ∧ x'.pendConf = x.pendConf) →
      ∃ pre, (a.2 ++ (match a.1.ext[i]? with
        | some x1 => if x1.pendConf.isTime a.1.st.flavor a.1.st.now then sendConfigurationInformation a.1 i else (a.1, [])
        | none => (a.1, [])).2) = pre ++ [⟨i, confOrNak d n.conf⟩] := by
    intro a hs hx'
    obtain ⟨x', hx1, hx2⟩ := hx'
    obtain ⟨d', hd1, hd2⟩ := same_source n a.1 hs i d hd
    rw [hx1]
    simp only [hx2, hs.1.1, hs.1.2.1, hdue, ↓reduceIte]
    unfold sendConfigurationInformation
    rw [hd1]
    simp only [hs.2.1, confOrNak_congr d d' n.conf hd2]
    exact ⟨a.2, rfl⟩
  by_cases hp : x.pendProd.isTime n.st.flavor n.st.now = true
  · simp only [hp, ↓reduceIte]
    obtain ⟨x', h1, h2, _⟩ := sendProductInformation_pendConf n i x hx hen hf
    exact key1 _ (sendProductInformation_same n i) ⟨x', h1, h2⟩
  · simp only [hp]
    exact key1 (n, []) (Same.refl n) ⟨x, hx, rfl⟩

/-- a poll at which only the product-information timer is due leaves the configuration-information timer armed AND the
flag set, so that the next polls still look at this device -/
theorem pendingDev_keeps_conf (n : Node) (i : Nat) (x : DevX) (hx : n.ext[i]? = some x) (hf : x.hasPending = true)
    (hen : x.pendConf.isEnabled n.st.flavor = true) (hnd : x.pendConf.isTime n.st.flavor n.st.now = false) :
    ∃ x', (pendingDev n i).1.ext[i]? = some x' ∧ x'.pendConf = x.pendConf ∧ x'.hasPending = true := by
  unfold pendingDev
  simp only [hx, hf, ↓reduceIte, andThen]
  by_cases hp : x.pendProd.isTime n.st.flavor n.st.now = true
  · simp only [hp, ↓reduceIte]
    obtain ⟨x', h1, h2, h3⟩ := sendProductInformation_pendConf n i x hx hen hf
    have hs := sendProductInformation_same n i
    rw [h1]
    simp only [h2, hs.1.1, hs.1.2.1, hnd]
    exact ⟨x', h1, h2, h3⟩
  · have hp' : x.pendProd.isTime n.st.flavor n.st.now = false := by simpa using hp
    simp only [hp', Bool.false_eq_true, ↓reduceIte, hx, hnd]
    exact ⟨x, rfl, rfl, hf⟩

end N2k.IsoRequest
