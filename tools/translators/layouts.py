"""C++ -> Lean translator for the PGN setter/parser layouts (properties C05 and C15).

Regenerates on every run, from the clang JSON AST of src/N2kMessages.cpp, src/N2kMaretron.cpp and src/NMEA2000.cpp:
  lean/N2k/Gen/Layouts.lean       one `N2k.Layout.Pair` per SetN2kPGNxxx/ParseN2kPGNxxx pair (setter layout, parser
                                  layout, PGN guard, scaled side records) + setter-only layouts (for C15)
  lean/N2k/Gen/LayoutProofs.lean  one `theorem C05_pgn_<N>_<field> : fieldOK pair_<N> <o> = true := by decide` per
                                  field that is both set and parsed, and the pair-level / table-level theorems
  build/gen/layout_glue.h         C++ call glue for harness/layout.cpp (signatures, field kinds, enumerators and the
                                  resolution literals; NO layout information - the harness oracle stays independent)

The evaluator interprets the straight-line fragment symbolically per bit: every parameter bit (setter) or payload
bit (parser) is an atom; & | << >> casts, ?: on flags, assignments to locals / by-value parameters, inline helper
calls and the tiny methods of the status unions are interpreted. Anything else (loops, conditionals that change
the length, Append... builders, variable-length strings) is REPORTED in the returned stats (`fallbacks`,
`untranslated`) and covered by the harness' direct round-trip oracle only."""
import os, re, json, subprocess, sys
from decimal import Decimal

VERIF = os.path.dirname(os.path.dirname(os.path.dirname(os.path.abspath(__file__))))
CLANG = 'clang++-14'
FILES = ['N2kMessages.cpp', 'N2kMaretron.cpp', 'NMEA2000.cpp']

BUILTIN = {'unsigned char': (8, False), 'char': (8, True), 'signed char': (8, True), 'short': (16, True),
           'unsigned short': (16, False), 'int': (32, True), 'unsigned int': (32, False), 'long': (64, True),
           'unsigned long': (64, False), 'long long': (64, True), 'unsigned long long': (64, False), 'bool': (1, False)}
FP = {'double', 'float', 'long double'}


class Untranslatable(Exception):
    pass


class NeedFork(Exception):
    """a setter conditional on a translatable condition over its parameters: evaluate each path separately"""
    pass


# ------------------------------------------------------------------------------------------------ AST loading

def clang_docs(src_dir, fname, filt='N2k'):
    r = subprocess.run([CLANG, '-std=gnu++11', '-I' + src_dir, '-fsyntax-only', '-Xclang', '-ast-dump=json',
                        '-Xclang', '-ast-dump-filter=' + filt, os.path.join(src_dir, fname)],
                       stdout=subprocess.PIPE, stderr=subprocess.PIPE, text=True)
    if r.returncode != 0:
        raise RuntimeError('clang failed on %s: %s' % (fname, r.stderr[-400:]))
    txt, dec, i, docs = r.stdout, json.JSONDecoder(), 0, []
    n = len(txt)
    while i < n:
        while i < n and txt[i] in ' \n\r\t':
            i += 1
        if i >= n:
            break
        if txt[i] != '{':
            j = txt.find('\n', i)
            i = (j + 1) if j >= 0 else n
            continue
        o, j = dec.raw_decode(txt, i)
        docs.append(o)
        i = j
    return docs


def const_of(n):
    """integer value of a constant-expression subtree printed by clang, or None"""
    if n is None:
        return None
    if 'value' in n and n.get('kind') in ('ConstantExpr', 'IntegerLiteral'):
        try:
            return int(n['value'])
        except ValueError:
            return None
    for c in n.get('inner', []):
        v = const_of(c)
        if v is not None:
            return v
    return None


def comment_text(n):
    out = []
    def walk(x):
        if x.get('kind') == 'TextComment':
            out.append(x.get('text', ''))
        for c in x.get('inner', []):
            if 'Comment' in c.get('kind', ''):
                walk(c)
    walk(n)
    return ' '.join(out).strip()


class World:
    """types, enums, records, global constants and function definitions of one translation unit"""

    def __init__(self, src_dir, fname):
        self.src_dir, self.fname = src_dir, fname
        self.text = {}
        self.enums, self.enumconst, self.records, self.aliases, self.consts = {}, {}, {}, {}, {}
        self.fetched = set()
        self.funcs = []          # definitions in the main file
        self.inline = {}         # name -> [FunctionDecl with body] (headers and main file)
        docs = clang_docs(src_dir, fname)
        for d in docs:
            self.scan(d)
        # parameter types whose declaration the name filter missed (e.g. tBattTempNoSensor): fetch them by name
        missing = set()
        for fn in self.funcs:
            for p in fn.get('inner', []):
                if p.get('kind') == 'ParmVarDecl' and self.ty(p['type'])[0] == 'other':
                    nm = re.sub(r'\bconst\b|[&*]', '', p['type'].get('qualType', '')).strip()
                    if re.fullmatch(r'[A-Za-z_]\w*', nm) and nm not in BUILTIN and nm not in FP and 'N2k' not in nm:
                        missing.add(nm)
        for nm in sorted(missing):
            for d in clang_docs(src_dir, fname, nm):
                if d.get('kind') in ('EnumDecl', 'CXXRecordDecl', 'TypeAliasDecl', 'TypedefDecl'):
                    self.scan(d)

    def scan(self, d):
        k = d.get('kind')
        if k == 'EnumDecl' and d.get('name'):
            vals, nxt = [], 0
            for c in d.get('inner', []):
                if c.get('kind') == 'EnumConstantDecl':
                    v = const_of(c) if c.get('inner') else None
                    v = nxt if v is None else v
                    vals.append((c['name'], v))
                    self.enumconst[c['name']] = v
                    nxt = v + 1
            if vals:
                self.enums[d['name']] = vals
        elif k == 'CXXRecordDecl' and d.get('name') and d.get('completeDefinition'):
            fields, methods, ctors, bits, bitpos = [], {}, [], 0, {}
            for c in d.get('inner', []):
                ck = c.get('kind')
                if ck == 'FieldDecl':
                    fields.append((c['name'], c['type']))
                elif ck == 'CXXMethodDecl' and not c.get('isImplicit'):
                    methods.setdefault(c['name'], []).append(c)
                elif ck == 'CXXConstructorDecl' and not c.get('isImplicit'):
                    ctors.append(c)
                elif ck == 'CXXRecordDecl' and c.get('completeDefinition'):   # anonymous struct of named bits
                    pos = 0
                    for f in c.get('inner', []):
                        if f.get('kind') == 'FieldDecl' and f.get('isBitfield'):
                            bitpos[f['name']] = (pos, const_of(f) or 0)      # LSB first (little-endian ABI of GCC/clang)
                            pos += const_of(f) or 0
                            # bits the type itself documents as "reserved" are outside the documented range
                            if comment_text(f).lower() != 'reserved':
                                bits = pos
            self.records[d['name']] = {'tag': d.get('tagUsed'), 'fields': fields, 'methods': methods, 'ctors': ctors,
                                       'namedBits': bits, 'bitpos': bitpos}
        elif k in ('TypeAliasDecl', 'TypedefDecl') and d.get('name'):
            self.aliases[d['name']] = d['type'].get('desugaredQualType') or d['type']['qualType']
        elif k == 'VarDecl' and d.get('name') and 'const' in d['type'].get('qualType', ''):
            self.consts[d['name']] = d
        elif k == 'FunctionDecl' and d.get('name'):
            if any(c.get('kind') == 'CompoundStmt' for c in d.get('inner', [])):
                self.inline.setdefault(d['name'], []).append(d)
                if 'includedFrom' not in d.get('loc', {}) and 'includedFrom' not in d.get('range', {}).get('begin', {}):
                    self.funcs.append(d)

    def fetch_function(self, name):
        """a function the name filter missed (file-static helper of the same translation unit): read it by name, once"""
        if name in self.fetched or not re.fullmatch(r'[A-Za-z_]\w*', name or ''):
            return
        self.fetched.add(name)
        for d in clang_docs(self.src_dir, self.fname, name):
            if d.get('kind') == 'FunctionDecl' and d.get('name') == name and any(c.get('kind') == 'CompoundStmt' for c in d.get('inner', [])):
                if not any(f.get('id') == d.get('id') for f in self.inline.get(name, [])):
                    self.inline.setdefault(name, []).append(d)

    # ---- types
    def ty(self, q):
        """q: clang type dict -> ('int', width, signed) | ('enum', name) | ('fp',) | ('rec', name) | ('other', text)"""
        t = q.get('desugaredQualType') or q.get('qualType', '')
        t0 = q.get('qualType', '')
        for s in (t0, t):
            s = re.sub(r'\bconst\b', '', s).replace('&', '').strip()
            s = re.sub(r'^(enum|union|struct)\s+', '', s)
            seen = 0
            while s in self.aliases and seen < 5:
                s = re.sub(r'\bconst\b', '', self.aliases[s]).strip()
                seen += 1
            if s in self.enums:
                return ('enum', s)
            if s in self.records:
                return ('rec', s)
            if s in BUILTIN:
                return ('int',) + BUILTIN[s]
            if s in FP:
                return ('fp',)
        return ('other', t or t0)

    def enum_w(self, name):
        m = max(v for _, v in self.enums[name])
        if min(v for _, v in self.enums[name]) < 0:
            raise Untranslatable('enum with negative enumerator ' + name)
        return max(1, m.bit_length())

    def src_text(self, node):
        """source text of a node (first token .. last token), '' if it comes from a macro"""
        b, e = node['range']['begin'], node['range']['end']
        if 'offset' not in b or 'offset' not in e:
            return ''
        f = b.get('includedFrom', None)
        path = os.path.join(self.src_dir, self.fname)
        if path not in self.text:
            self.text[path] = open(path, 'rb').read()
        return self.text[path][b['offset']:e['offset'] + e.get('tokLen', 1)].decode('utf8', 'replace')


# ------------------------------------------------------------------------------------------------ values

class Int:
    """bit vector, LSB first; atoms: 0 | 1 | ('p', field, i) | ('b', k) | ('n', atom) is not supported -> None = unknown"""
    __slots__ = ('bits', 'signed', 'rec', 'remap')

    def __init__(self, bits, signed=False, rec=None, remap=None):
        self.bits, self.signed, self.rec = list(bits), signed, rec   # rec: scaled getter the integer came through
        self.remap = remap      # (n, U): the all-ones pattern of the n-bit field `bits` stands for the value U

    def resize(self, w, signed=None):
        b = self.bits
        if len(b) >= w:
            nb = b[:w]
        else:
            nb = b + [(b[-1] if (self.signed and b) else 0)] * (w - len(b))
        if self.remap and len(nb) < self.remap[0]:
            raise Untranslatable('remapped field truncated')
        return Int(nb, self.signed if signed is None else signed, self.rec, self.remap)

    def const(self):
        if all(x in (0, 1) for x in self.bits):
            v = sum(x << i for i, x in enumerate(self.bits))
            if self.signed and self.bits and self.bits[-1] == 1:
                v -= 1 << len(self.bits)
            return v
        return None


def cint(v, w, signed=False):
    return Int([(v >> i) & 1 for i in range(w)], signed)


class Fp:
    """double-valued thing: ('param', field) | ('get', rec dict) | ('const', Decimal) | ('opaque', why)"""
    __slots__ = ('kind', 'arg')

    def __init__(self, kind, arg=None):
        self.kind, self.arg = kind, arg


class Hdr:
    """a header member of the message being parsed (PGN, DataLen); only comparisons with constants are understood"""
    def __init__(self, name):
        self.name = name


class Unknown:
    """value outside the fragment; poisons whatever it flows into"""
    def __init__(self, why):
        self.why = why


def dec_text(txt):
    t = txt.strip().rstrip('LlFf')
    return Decimal(t)


def res_pair(d):
    """Decimal -> (num, exp) with value = num / 10^exp, canonical (num has no trailing zero unless exp = 0)"""
    if d <= 0:
        raise Untranslatable('non-positive resolution %s' % d)
    sign, digits, exp = d.as_tuple()
    num = int(''.join(map(str, digits)))
    if exp >= 0:
        return (num * 10 ** exp, 0)
    e = -exp
    while e > 0 and num % 10 == 0:
        num //= 10
        e -= 1
    return (num, e)


ADD_INT = {'AddByte': 8, 'Add2ByteInt': 16, 'Add2ByteUInt': 16, 'Add3ByteInt': 24, 'Add4ByteUInt': 32, 'AddUInt64': 64}
GET_INT = {'GetByte': 8, 'Get2ByteInt': 16, 'Get2ByteUInt': 16, 'Get3ByteUInt': 24, 'Get4ByteUInt': 32, 'GetUInt64': 64}
DBL = re.compile(r'(Add|Get)(\d)Byte(U?)Double')
STR_ADD = {'AddStr', 'AddAISStr', 'AddVarStr', 'AddBuf'}
STR_GET = {'GetStr', 'GetVarStr', 'GetBuf'}
IGNORED_MSG_FIELDS = {'Priority', 'Destination', 'Source', 'MsgTime'}


# ------------------------------------------------------------------------------------------------ evaluator

class Frame:
    def __init__(self):
        self.vars = {}      # name -> value | ('ref', frame, name)


class Eval:
    def __init__(self, world, fn, mode, known=None, decisions=None, fork=False):
        self.w, self.fn, self.mode = world, fn, mode
        self.decisions, self.fork, self.path = list(decisions or []), fork, []
        self.payload = []           # setter: atoms
        self.scaled = {}            # field -> rec
        self.pgn = None
        self.guard = None
        self.payload_guard = []     # [(bit k, 0/1)]
        self.index = None           # parser: concrete Index value (bytes)
        self.text_fields = []       # (field, kind, offsetbits, lenbytes|None)
        self.tail = None            # reason why the rest of the function is not translated
        self.notes = []
        self.depth = 0
        self.known = known or {}
        self.fields = []            # ordered field descriptors (dict)
        self.fieldidx = {}
        self.out_assigned = {}      # parser: field -> value
        self.frame = Frame()
        self.msgname = None
        self.accept_cond = None
        self.assumed = []
        self.cond_bit = None
        self.retval = None
        self.len_min, self.len_max = 0, 223
        self.setup_params()

    # ---- fields
    def add_field(self, name, kind, bits, **kw):
        if name in self.fieldidx:
            raise Untranslatable('duplicate field name ' + name)
        d = dict(name=name, kind=kind, bits=bits, **kw)
        self.fieldidx[name] = len(self.fields)
        self.fields.append(d)
        return d

    def field_for_type(self, name, q, cname):
        """declare field `name` of clang type q; returns its initial symbolic value (setter) / None (parser)"""
        t = self.w.ty(q)
        if t[0] == 'int':
            kind = 'bool' if t[1] == 1 else ('sint' if t[2] else 'uint')
            self.add_field(name, kind, t[1], ctype=q.get('qualType', '').replace('&', '').replace('const ', '').strip(), cname=cname)
            return Int([('p', name, i) for i in range(t[1])], t[2])
        if t[0] == 'enum':
            wv = self.w.enum_w(t[1])
            self.add_field(name, 'enum', wv, ctype=t[1], cname=cname, enumerators=[v for _, v in self.w.enums[t[1]]])
            return Int([('p', name, i) for i in range(wv)] + [0] * (32 - wv), False)
        if t[0] == 'fp':
            self.add_field(name, 'scaled', 0, ctype='double', cname=cname)
            return Fp('param', name)
        if t[0] == 'rec' and self.w.records[t[1]]['tag'] == 'union':
            r = self.w.records[t[1]]
            mt = self.w.ty(r['fields'][0][1])
            if mt[0] != 'int':
                raise Untranslatable('union %s without integer first member' % t[1])
            nb = r['namedBits'] or mt[1]
            self.add_field(name, 'union', min(nb, mt[1]), ctype=t[1], cname=cname, member=r['fields'][0][0], mbits=mt[1])
            return Int([('p', name, i) for i in range(mt[1])], False)
        self.add_field(name, 'other', 0, ctype=q.get('qualType', ''), cname=cname)
        return Unknown('parameter %s of type %s' % (name, q.get('qualType')))

    def setup_params(self):
        self.params = []
        bufs = {p.get('name') for p in self.fn.get('inner', []) if p.get('kind') == 'ParmVarDecl' and p['type'].get('qualType', '').strip() == 'char *'}
        for p in self.fn.get('inner', []):
            if p.get('kind') != 'ParmVarDecl':
                continue
            q = p['type']
            qt = q.get('qualType', '')
            name = p.get('name', '_')
            byref = qt.rstrip().endswith('&')
            isconst = qt.startswith('const ')
            t = self.w.ty(q)
            if 'tN2kMsg' in qt:
                self.msgname = name
                self.params.append(dict(name=name, role='msg'))
                continue
            role = 'in' if self.mode == 'set' else ('out' if (byref and not isconst) else 'arg')
            msz = re.fullmatch(r'(\w+?)(BufSize|MaxSize|Size)', name)
            if self.mode == 'parse' and msz and msz.group(1) in bufs:
                role = 'arg'          # size of a text buffer, not a field
            self.params.append(dict(name=name, role=role, qual=qt, type=t))
            if t[0] == 'rec' and self.w.records[t[1]]['tag'] == 'struct':
                # a bag of fields
                self.frame.vars[name] = ('struct', t[1])
                for fname, fq in self.w.records[t[1]]['fields']:
                    v = self.field_for_type(fname, fq, cname=name + '.' + fname)
                    self.fields[-1]['struct'] = name
                    self.frame.vars[name + '.' + fname] = v if self.mode == 'set' else Unknown('unassigned')
                continue
            if role == 'arg':     # by-value argument of a parser (buffer size, index): not a field
                self.frame.vars[name] = Unknown('parser argument ' + name)
                self.params[-1]['argtype'] = qt
                continue
            v = self.field_for_type(name, q, cname=name)
            self.frame.vars[name] = v if self.mode == 'set' else Unknown('unassigned')

    # ---- environment
    def lookup(self, name, frame=None):
        f = frame or self.frame
        v = f.vars.get(name)
        while isinstance(v, tuple) and v and v[0] == 'ref':
            f, name = v[1], v[2]
            v = f.vars.get(name)
        return f, name, v

    def read(self, name):
        f, n, v = self.lookup(name)
        if v is None:
            return Unknown('unbound ' + name)
        return v

    def write(self, name, val):
        f, n, _ = self.lookup(name)
        f.vars[n] = val

    # ---- expressions
    def tyn(self, n):
        return self.w.ty(n.get('type', {}))

    def as_int(self, v, n=None):
        if isinstance(v, Int):
            return v
        raise Untranslatable('integer expected (%s)' % (getattr(v, 'why', None) or type(v).__name__))

    def cast_to(self, v, t):
        """convert value v to clang type descriptor t"""
        if isinstance(v, Unknown):
            return v
        if t[0] == 'int':
            if isinstance(v, Int):
                if t[1] == 1 and len(v.bits) != 1:
                    return self.to_bool(v)
                return v.resize(t[1], t[2])
            if isinstance(v, Fp):
                return self.fp_to_int(v, t[1], t[2])
        if t[0] == 'enum':
            if isinstance(v, Int):
                return v.resize(32, False)
            if isinstance(v, Fp):
                return self.fp_to_int(v, 32, False)
        if t[0] == 'fp':
            if isinstance(v, Fp):
                return v
            if isinstance(v, Int):
                c = v.const()
                return Fp('const', Decimal(c)) if c is not None else Fp('opaque', 'integer converted to double')
        if t[0] == 'rec' and isinstance(v, Int):
            return v
        return Unknown('cast to %s' % (t,))

    def fp_to_int(self, v, w, signed):
        if v.kind == 'get':
            r = v.arg
            bits = [('b', r['off'] + i) for i in range(8 * r['w'])]
            return Int(bits, r['signed'], rec=r).resize(w, signed)
        if v.kind == 'const' and v.arg == v.arg.to_integral_value():
            return cint(int(v.arg), w, signed)
        return Unknown('double converted to integer')

    def to_bool(self, v):
        nz = [b for b in v.bits if b != 0]
        if not nz:
            return Int([0])
        if any(b == 1 for b in nz):
            return Int([1])
        if len(nz) == 1:
            return Int([nz[0]])
        if all(b == nz[0] for b in nz):
            return Int([nz[0]])
        return Unknown('boolean of several bits')

    def ev(self, n):
        k = n['kind']
        if k in ('ParenExpr', 'ConstantExpr', 'ExprWithCleanups', 'MaterializeTemporaryExpr', 'CXXBindTemporaryExpr',
                 'SubstNonTypeTemplateParmExpr'):
            return self.ev(n['inner'][0])
        if k == 'IntegerLiteral':
            t = self.tyn(n)
            return cint(int(n['value']), t[1], t[2])
        if k == 'CXXBoolLiteralExpr':
            return Int([1 if n['value'] else 0])
        if k == 'CharacterLiteral':
            return cint(int(n['value']), 8, True)
        if k == 'FloatingLiteral':
            txt = self.w.src_text(n)
            try:
                return Fp('const', dec_text(txt))
            except Exception:
                try:
                    return Fp('const', Decimal(n['value']))
                except Exception:
                    return Fp('opaque', 'literal')
        if k == 'DeclRefExpr':
            rd = n['referencedDecl']
            if rd['kind'] == 'EnumConstantDecl':
                return cint(self.w.enumconst[rd['name']], 32, False)
            if rd['kind'] in ('ParmVarDecl', 'VarDecl'):
                _, _, v = self.lookup(rd['name'])
                if v is None and rd['name'] in self.w.consts:
                    return self.global_const(rd['name'])
                if v is None:
                    return Unknown('unbound ' + rd['name'])
                return v
            return Unknown('reference to ' + rd['kind'])
        if k == 'MemberExpr':
            return self.member(n)
        if k in ('ImplicitCastExpr', 'CStyleCastExpr', 'CXXStaticCastExpr', 'CXXFunctionalCastExpr', 'CXXReinterpretCastExpr'):
            return self.cast(n)
        if k == 'CXXConstructExpr':
            t = self.tyn(n)
            args = [a for a in n.get('inner', []) if a['kind'] != 'CXXDefaultArgExpr']
            if t[0] == 'rec' and self.w.records[t[1]]['tag'] == 'union' and len(args) == 1 and self.union_ctor_identity(t[1]):
                return self.ev(args[0])
            if t[0] == 'rec' and self.w.records[t[1]]['tag'] == 'union' and len(args) == 0:
                return self.union_default(t[1])
            if t[0] == 'rec' and len(args) == 1:
                return self.ev(args[0])    # copy / move construction
            return Unknown('constructor of ' + str(t))
        if k == 'BinaryOperator':
            return self.binop(n)
        if k == 'CompoundAssignOperator':
            return self.compound_assign(n)
        if k == 'UnaryOperator':
            return self.unop(n)
        if k == 'ConditionalOperator':
            return self.condop(n)
        if k == 'CXXMemberCallExpr':
            return self.member_call(n)
        if k == 'CXXOperatorCallExpr':
            return self.operator_call(n)
        if k == 'CallExpr':
            return self.call(n)
        if k == 'UnaryExprOrTypeTraitExpr':
            return Unknown('sizeof')
        if k == 'CXXDefaultArgExpr':
            return Unknown('default argument')
        return Unknown('expression kind ' + k)

    def global_const(self, name):
        d = self.w.consts[name]
        t = self.w.ty(d['type'])
        init = [c for c in d.get('inner', []) if c.get('kind', '').endswith('Expr') or c.get('kind', '').endswith('Literal') or c.get('kind') == 'UnaryOperator']
        if not init:
            return Unknown('constant without initialiser ' + name)
        if t[0] == 'fp':
            v = self.ev(init[0])
            return v if isinstance(v, Fp) and v.kind == 'const' else Fp('opaque', 'constant ' + name)
        return self.cast_to(self.ev(init[0]), t)

    def union_default(self, rname):
        """value of `T x;` for a status union: the default argument of its value constructor, or the constant its
        default constructor stores in the integer member"""
        r = self.w.records[rname]
        mt = self.w.ty(r['fields'][0][1])
        if mt[0] != 'int':
            return Unknown('union default')
        for c in r['ctors']:
            ps = [p for p in c.get('inner', []) if p.get('kind') == 'ParmVarDecl']
            inits = [p for p in c.get('inner', []) if p.get('kind') == 'CXXCtorInitializer']
            if len(ps) == 1 and self.union_ctor_identity(rname) and ps[0].get('inner'):
                v = const_of(ps[0])
                if v is not None:
                    return cint(v, mt[1], mt[2])
            if len(ps) == 0 and len(inits) == 1 and inits[0].get('inner'):
                v = const_of(inits[0])
                if v is not None:
                    return cint(v, mt[1], mt[2])
        return Unknown('union default constructor')

    def union_ctor_identity(self, rname):
        r = self.w.records[rname]
        for c in r['ctors']:
            ps = [p for p in c.get('inner', []) if p.get('kind') == 'ParmVarDecl']
            inits = [p for p in c.get('inner', []) if p.get('kind') == 'CXXCtorInitializer']
            if len(ps) == 1 and len(inits) == 1:
                def refs(n):
                    if n.get('kind') == 'DeclRefExpr':
                        return n['referencedDecl'].get('name')
                    if n.get('kind') in ('ImplicitCastExpr', 'ParenExpr') and n.get('inner'):
                        return refs(n['inner'][0])
                    return None
                if inits[0].get('inner') and refs(inits[0]['inner'][0]) == ps[0].get('name'):
                    return True
        return False

    def union_bit_access(self, n):
        """X.<bits struct>.<name> of a status union variable X -> (variable name, bit position, width) or None"""
        mid = n['inner'][0]
        while mid['kind'] in ('ImplicitCastExpr', 'ParenExpr'):
            mid = mid['inner'][0]
        if mid['kind'] != 'MemberExpr':
            return None
        base = mid['inner'][0]
        while base['kind'] in ('ImplicitCastExpr', 'ParenExpr'):
            base = base['inner'][0]
        if base['kind'] != 'DeclRefExpr':
            return None
        bt = self.w.ty(base['type'])
        if bt[0] != 'rec' or self.w.records[bt[1]]['tag'] != 'union':
            return None
        bp = self.w.records[bt[1]]['bitpos'].get(n['name'])
        if bp is None:
            return None
        return base['referencedDecl']['name'], bp[0], bp[1]

    def member(self, n):
        ub = self.union_bit_access(n)
        if ub:
            v = self.read(ub[0])
            if isinstance(v, Int):
                t = self.tyn(n)
                return Int(v.bits[ub[1]:ub[1] + ub[2]], False).resize(t[1] if t[0] == 'int' else 32, t[2] if t[0] == 'int' else False)
            return v
        base = n['inner'][0]
        while base['kind'] in ('ImplicitCastExpr', 'ParenExpr') and base.get('castKind', 'NoOp') in ('NoOp', 'LValueToRValue'):
            base = base['inner'][0]
        mname = n['name']
        if base['kind'] == 'DeclRefExpr':
            bname = base['referencedDecl']['name']
            if bname == self.msgname:
                if self.mode == 'parse' and mname in ('PGN', 'DataLen'):
                    return Hdr(mname)
                return Unknown('message member ' + mname)
            bt = self.w.ty(base['type'])
            if bt[0] == 'rec':
                r = self.w.records[bt[1]]
                if r['tag'] == 'union':
                    if mname == r['fields'][0][0]:
                        return self.read(bname)
                    return Unknown('union member ' + mname)
                return self.read(bname + '.' + mname)
        if base['kind'] == 'CXXThisExpr':
            return self.read('this.' + mname)
        return Unknown('member access')

    def cast(self, n):
        ck = n.get('castKind')
        inner = n['inner'][-1]
        v = self.ev(inner)
        if ck in ('LValueToRValue', 'NoOp', 'ConstructorConversion', 'UserDefinedConversion', 'ArrayToPointerDecay',
                  'FunctionToPointerDecay', 'BitCast'):
            return v
        t = self.tyn(n)
        if isinstance(v, Hdr):
            return v if ck == 'IntegralCast' else Unknown('header member cast')
        if ck == 'IntegralCast':
            if isinstance(v, Int):
                if t[0] == 'enum':
                    return v.resize(32, False)
                if t[0] == 'int':
                    return v.resize(t[1], t[2])
            return v if isinstance(v, Unknown) else Unknown('integral cast')
        if ck == 'IntegralToBoolean':
            return self.to_bool(v) if isinstance(v, Int) else Unknown('to bool')
        if ck in ('IntegralToFloating', 'FloatingCast', 'FloatingToIntegral', 'FloatingToBoolean'):
            return self.cast_to(v, t)
        return Unknown('cast kind %s' % ck)

    @staticmethod
    def and_bit(x, y):
        if x == 0 or y == 0:
            return 0
        if x == 1:
            return y
        if y == 1:
            return x
        return x if x == y else None

    @staticmethod
    def or_bit(x, y):
        if x == 1 or y == 1:
            return 1
        if x == 0:
            return y
        if y == 0:
            return x
        return x if x == y else None

    def bitwise(self, op, a, b, t):
        w, s = (32, False) if t[0] == 'enum' else (t[1], t[2])
        a, b = a.resize(w), b.resize(w)
        out = []
        for x, y in zip(a.bits, b.bits):
            if op == '&':
                r = self.and_bit(x, y)
            elif op == '|':
                r = self.or_bit(x, y)
            else:
                r = (x ^ y) if (x in (0, 1) and y in (0, 1)) else (y if x == 0 else (x if y == 0 else None))
            if r is None:
                return Unknown('two symbolic bits combined by ' + op)
            out.append(r)
        return Int(out, s, a.rec or b.rec)

    def shift(self, op, a, b, t):
        kk = b.const()
        if kk is None:
            return Unknown('shift by a variable')
        w, s = (32, False) if t[0] == 'enum' else (t[1], t[2])
        a = a.resize(w)
        if op == '<<':
            return Int(([0] * kk + a.bits)[:w], s, a.rec)
        fill = a.bits[-1] if a.signed else 0
        return Int((a.bits[kk:] + [fill] * kk)[:w], s, a.rec)

    def binop(self, n):
        op = n['opcode']
        if op == '=':
            return self.assign(n['inner'][0], self.ev(n['inner'][1]), n)
        if op == ',':
            self.ev(n['inner'][0])
            return self.ev(n['inner'][1])
        a, b = self.ev(n['inner'][0]), self.ev(n['inner'][1])
        t = self.tyn(n)
        if (isinstance(a, Int) and a.remap) or (isinstance(b, Int) and b.remap):
            return Unknown('value with a not-available remap used in an expression')
        if isinstance(a, Unknown):
            return a
        if isinstance(b, Unknown):
            return b
        if isinstance(a, Hdr) or isinstance(b, Hdr):
            flip = {'<': '>', '>': '<', '<=': '>=', '>=': '<=', '==': '==', '!=': '!='}
            if isinstance(b, Hdr):
                a, b, op = b, a, flip.get(op, '?')
            c = b.const() if isinstance(b, Int) else None
            if c is None or op not in flip:
                return Unknown('header member in an expression')
            return Int([('hc', (a.name, op, c))])
        if isinstance(a, Fp) or isinstance(b, Fp):
            return self.fp_binop(op, a, b)
        if op in ('&', '|', '^'):
            return self.bitwise(op, a, b, t)
        if op in ('<<', '>>'):
            return self.shift(op, a, b, t)
        ca, cb = a.const(), b.const()
        if op == '/' and self.mode == 'set' and ca is None and cb is not None and cb > 1 and t[0] == 'int':
            # (whole unsigned integer parameter) / constant: bit i of the result is bit i of the QUOTIENT; the parameter
            # then enters the layout through its code value/constant (truncating, as C++ unsigned division), with a
            # scaled side record of resolution `constant` - the integer analogue of Add<N>ByteUDouble(v, constant)
            name = self.whole_uint_param(a)
            if name is not None:
                fd = self.fields[self.fieldidx[name]]
                return Int([('q', name, cb, i) for i in range(fd['bits'])], False).resize(t[1], t[2])
        if op in ('+', '-', '*', '/', '%') and ca is not None and cb is not None:
            if op in ('/', '%') and cb == 0:
                return Unknown('division by zero')
            v = {'+': ca + cb, '-': ca - cb, '*': ca * cb, '/': abs(ca) // abs(cb) * (1 if (ca < 0) == (cb < 0) else -1),
                 '%': abs(ca) % abs(cb) * (1 if ca >= 0 else -1)}[op]
            return cint(v, t[1], t[2]) if t[0] == 'int' else Unknown('arithmetic type')
        if op in ('==', '!=', '<', '>', '<=', '>='):
            if ca is not None and cb is not None:
                r = {'==': ca == cb, '!=': ca != cb, '<': ca < cb, '>': ca > cb, '<=': ca <= cb, '>=': ca >= cb}[op]
                return Int([1 if r else 0])
            if op in ('==', '!=') and (ca is not None or cb is not None):
                sym, c = (a, b) if cb is not None else (b, a)
                w = max(len(sym.bits), len(c.bits))
                sb, cb_ = sym.resize(w).bits, c.resize(w).bits
                atoms = []
                for x, y in zip(sb, cb_):
                    if x in (0, 1):
                        if x != y:
                            return Int([0 if op == '==' else 1])
                    else:
                        atoms.append((x, y))
                if len(atoms) == 1 and atoms[0][1] == (1 if op == '==' else 0):
                    return Int([atoms[0][0]])
            if (ca is None) != (cb is None) and t[0] == 'int' and t[1] == 1:
                # symbolic value compared with a constant: keep the comparison as a condition atom
                sym, c, o2 = (a, cb, op) if cb is not None else (b, ca, {'<': '>', '>': '<', '<=': '>=', '>=': '<='}.get(op, op))
                if all(x in (0, 1) or (isinstance(x, tuple) and x[0] in ('p', 'b')) for x in sym.bits):
                    return Int([('c', ('cmp', o2, tuple(sym.bits), bool(sym.signed and sym.bits and sym.bits[-1] != 0), c))])
            return Unknown('comparison of symbolic values')
        if op in ('&&', '||'):
            if len(a.bits) == 1 and len(b.bits) == 1:
                x, y = a.bits[0], b.bits[0]
                if op == '&&' and isinstance(x, tuple) and isinstance(y, tuple) and x[0] == 'hc' and y[0] == 'hc':
                    return Int([('hc', ('and', x[1], y[1]))])
                if isinstance(x, tuple) and isinstance(y, tuple) and x[0] == 'c' and y[0] == 'c':
                    return Int([('c', ('and' if op == '&&' else 'or', x[1], y[1]))])
                r = self.and_bit(x, y) if op == '&&' else self.or_bit(x, y)
                if r is not None:
                    return Int([r])
            return Unknown('logical operator on symbolic values')
        return Unknown('operator ' + op)

    def fp_binop(self, op, a, b):
        def c(v):
            if isinstance(v, Fp) and v.kind == 'const':
                return v.arg
            if isinstance(v, Int) and v.const() is not None:
                return Decimal(v.const())
            return None
        ca, cb = c(a), c(b)
        if ca is not None and cb is not None and op in ('+', '-', '*'):
            return Fp('const', {'+': ca + cb, '-': ca - cb, '*': ca * cb}[op])
        if op in ('==', '!=', '<', '>', '<=', '>=', '&&', '||'):
            return Unknown('floating-point comparison')
        return Fp('opaque', 'floating-point arithmetic')

    def compound_assign(self, n):
        op = n['opcode'][:-1]
        lhs = n['inner'][0]
        a, b = self.ev(lhs), self.ev(n['inner'][1])
        ct = self.w.ty(n.get('computeResultType', n['type']))
        if isinstance(a, Fp) or isinstance(b, Fp):
            r = self.fp_binop(op, a, b) if not (isinstance(a, Unknown) or isinstance(b, Unknown)) else Unknown('fp')
            return self.assign(lhs, r, n)
        if isinstance(a, Unknown) or isinstance(b, Unknown):
            return self.assign(lhs, a if isinstance(a, Unknown) else b, n)
        if ct[0] != 'int':
            return self.assign(lhs, Unknown('compound assignment type'), n)
        al = a.resize(ct[1]) if True else a
        if op in ('&', '|', '^'):
            r = self.bitwise(op, al, b, ct)
        elif op in ('<<', '>>'):
            # the left operand is promoted (keeps its own signedness) before shifting
            r = self.shift(op, Int(al.bits, a.signed if len(a.bits) >= ct[1] else ct[2] and a.signed, a.rec), b, ct)
        else:
            ca, cb = a.const(), b.const()
            if ca is not None and cb is not None and op in ('+', '-', '*'):
                r = cint({'+': ca + cb, '-': ca - cb, '*': ca * cb}[op], ct[1], ct[2])
            else:
                r = Unknown('arithmetic on symbolic value')
        return self.assign(lhs, self.cast_to(r, self.tyn(lhs)), n)

    def unop(self, n):
        op = n['opcode']
        sub = n['inner'][0]
        if op in ('++', '--'):
            v = self.ev(sub)
            c = v.const() if isinstance(v, Int) else None
            if c is None:
                return self.assign(sub, Unknown('increment of symbolic value'), n)
            t = self.tyn(sub)
            nv = cint(c + (1 if op == '++' else -1), t[1], t[2])
            self.assign(sub, nv, n)
            return v if n.get('isPostfix') else nv
        v = self.ev(sub)
        if isinstance(v, Unknown):
            return v
        t = self.tyn(n)
        if isinstance(v, Fp):
            if op == '-' and v.kind == 'const':
                return Fp('const', -v.arg)
            if op == '+':
                return v
            return Fp('opaque', 'unary ' + op)
        if op == '~':
            if all(b in (0, 1) for b in v.bits):
                return Int([1 - b for b in v.resize(t[1]).bits], t[2])
            return Unknown('complement of symbolic bits')
        if op == '-':
            c = v.const()
            return cint(-c, t[1], t[2]) if c is not None else Unknown('negation of symbolic value')
        if op == '+':
            return v
        if op == '!':
            b = self.to_bool(v)
            if isinstance(b, Int) and b.bits[0] in (0, 1):
                return Int([1 - b.bits[0]])
            if isinstance(b, Int) and isinstance(b.bits[0], tuple) and b.bits[0][0] == 'c':
                return Int([('c', ('not', b.bits[0][1]))])
            if isinstance(b, Int) and isinstance(b.bits[0], tuple) and b.bits[0][0] == 'hc':
                return Int([('hc', ('not', b.bits[0][1]))])
            return Unknown('logical not of symbolic value')
        if op in ('&', '*'):
            return Unknown('address/dereference')
        return Unknown('unary ' + op)

    def condop(self, n):
        c = self.ev(n['inner'][0])
        if isinstance(c, Unknown):
            return c
        c = self.to_bool(c) if isinstance(c, Int) and len(c.bits) != 1 else c
        if not isinstance(c, Int):
            return Unknown('condition')
        cb = c.bits[0]
        if cb in (0, 1):
            return self.ev(n['inner'][1] if cb == 1 else n['inner'][2])
        tv, fv = self.ev(n['inner'][1]), self.ev(n['inner'][2])
        t = self.tyn(n)
        if not (isinstance(tv, Int) and isinstance(fv, Int)):
            return Unknown('?: on non-integers')
        w = 32 if t[0] == 'enum' else (t[1] if t[0] == 'int' else None)
        if w is None:
            return Unknown('?: type')
        tv, fv = tv.resize(w), fv.resize(w)
        out = []
        for x, y in zip(tv.bits, fv.bits):
            if x == y:
                out.append(x)
            elif x == 1 and y == 0:
                out.append(cb)
            else:
                return Unknown('?: selecting between non-flag values')
        return Int(out, t[2] if t[0] == 'int' else False)

    # ---- assignment
    def assign(self, lhs, val, n=None):
        while lhs['kind'] in ('ParenExpr',):
            lhs = lhs['inner'][0]
        if lhs['kind'] == 'DeclRefExpr':
            name = lhs['referencedDecl']['name']
            val = self.cast_to(val, self.tyn(lhs)) if not isinstance(val, Unknown) else val
            self.write(name, val)
            return val
        if lhs['kind'] == 'MemberExpr':
            ub = self.union_bit_access(lhs)
            if ub:
                cur = self.read(ub[0])
                if isinstance(cur, Int) and isinstance(val, Int):
                    nb = list(cur.bits)
                    nb[ub[1]:ub[1] + ub[2]] = val.resize(ub[2]).bits
                    self.write(ub[0], Int(nb, cur.signed))
                else:
                    self.write(ub[0], Unknown('write to a named bit of an untranslated value'))
                return val
            base = lhs['inner'][0]
            while base['kind'] in ('ImplicitCastExpr', 'ParenExpr'):
                base = base['inner'][0]
            if base['kind'] == 'DeclRefExpr':
                bname = base['referencedDecl']['name']
                if bname == self.msgname:
                    if lhs['name'] in IGNORED_MSG_FIELDS:
                        return val
                    raise Untranslatable('assignment to message member ' + lhs['name'])
                bt = self.w.ty(base['type'])
                val = self.cast_to(val, self.tyn(lhs)) if not isinstance(val, Unknown) else val
                if bt[0] == 'rec' and self.w.records[bt[1]]['tag'] == 'union':
                    if lhs['name'] == self.w.records[bt[1]]['fields'][0][0]:
                        self.write(bname, val)
                    else:
                        self.write(bname, Unknown('write to union member ' + lhs['name']))
                    return val
                self.write(bname + '.' + lhs['name'], val)
                return val
            if base['kind'] == 'CXXThisExpr':
                val = self.cast_to(val, self.tyn(lhs)) if not isinstance(val, Unknown) else val
                self.write('this.' + lhs['name'], val)
                return val
        raise Untranslatable('assignment to ' + lhs['kind'])

    # ---- calls
    def callee_name(self, n):
        f = n['inner'][0]
        while f['kind'] in ('ImplicitCastExpr', 'ParenExpr'):
            f = f['inner'][0]
        if f['kind'] == 'DeclRefExpr':
            return f['referencedDecl']['name'], f['referencedDecl'].get('type', {}).get('qualType')
        return None, None

    def inline_call(self, fdecl, argnodes, this=None):
        """evaluate a callee body in a fresh frame sharing the message state; returns the returned value"""
        if self.depth > 4:
            raise Untranslatable('call depth')
        ps = [p for p in fdecl.get('inner', []) if p.get('kind') == 'ParmVarDecl']
        if len(ps) < len(argnodes):
            raise Untranslatable('call arity')
        nf = Frame()
        caller = self.frame
        for p, a in zip(ps, argnodes):
            qt = p['type'].get('qualType', '')
            if a['kind'] == 'CXXDefaultArgExpr':
                nf.vars[p['name']] = Unknown('default argument')
                continue
            if 'tN2kMsg' in qt:
                nf.vars[p['name']] = ('msg',)
                continue
            if qt.rstrip().endswith('&') and not qt.startswith('const '):
                b = a
                while b['kind'] in ('ImplicitCastExpr', 'ParenExpr'):
                    b = b['inner'][0]
                if b['kind'] != 'DeclRefExpr':
                    raise Untranslatable('reference argument is not a variable')
                nf.vars[p['name']] = ('ref', caller, b['referencedDecl']['name'])
            else:
                nf.vars[p['name']] = self.cast_to(self.ev(a), self.w.ty(p['type']))
        for p in ps[len(argnodes):]:
            nf.vars[p['name']] = Unknown('default argument')
        if this is not None:
            for k_, v_ in this.items():
                nf.vars[k_] = v_
        body = [c for c in fdecl['inner'] if c.get('kind') == 'CompoundStmt'][0]
        saved_msg = self.msgname
        for p in ps:
            if 'tN2kMsg' in p['type'].get('qualType', ''):
                self.msgname = p['name']
        self.frame = nf
        self.depth += 1
        try:
            ret = self.block(body)
        finally:
            self.frame = caller
            self.depth -= 1
            self.msgname = saved_msg
        return ret[1] if ret else None

    def call(self, n):
        name, sig = self.callee_name(n)
        args = n['inner'][1:]
        if name and name not in self.w.inline:
            self.w.fetch_function(name)
        cands = [f for f in self.w.inline.get(name, []) if f['type'].get('qualType') == sig] if name else []
        if not cands and name:
            # the declaration referred to may print its type differently (typedef spelling): fall back to name + arity
            ar = [f for f in self.w.inline.get(name, []) if sum(1 for p_ in f.get('inner', []) if p_.get('kind') == 'ParmVarDecl') == len(args)]
            cands = ar if len(ar) == 1 else []
        if not cands:
            raise Untranslatable('call to %s' % name)
        r = self.inline_call(cands[0], args)
        return r if r is not None else Unknown('void')

    def operator_call(self, n):
        name, sig = self.callee_name(n)
        args = n['inner'][1:]
        if name == 'operator=' and len(args) == 2:
            lhs = args[0]
            lt = self.w.ty(lhs['type'])
            if lt[0] == 'rec' and self.w.records[lt[1]]['tag'] == 'union':
                r = self.w.records[lt[1]]
                user = [m for m in r['methods'].get('operator=', []) if m['type'].get('qualType') == sig]
                if user:
                    return self.method_inline(user[0], lhs, [args[1]], r)
                return self.assign(lhs, self.ev(args[1]), n)      # implicit copy/move assignment
        raise Untranslatable('operator call ' + str(name))

    def method_inline(self, mdecl, obj, argnodes, r):
        """inline a method of a status union on object `obj` (a variable): members are bound to the object"""
        while obj['kind'] in ('ImplicitCastExpr', 'ParenExpr'):
            obj = obj['inner'][0]
        if obj['kind'] != 'DeclRefExpr':
            raise Untranslatable('method call on a non-variable')
        oname = obj['referencedDecl']['name']
        first = r['fields'][0][0]
        this = {'this.' + first: ('ref', self.frame, oname)}
        for fname, _ in r['fields'][1:]:
            this['this.' + fname] = Unknown('union member ' + fname)
        ret = self.inline_call(mdecl, argnodes, this=this)
        return ret if ret is not None else Unknown('void')

    def member_call(self, n):
        me = n['inner'][0]
        args = n['inner'][1:]
        if me['kind'] != 'MemberExpr':
            raise Untranslatable('member call shape')
        obj = me['inner'][0]
        while obj['kind'] in ('ImplicitCastExpr', 'ParenExpr'):
            obj = obj['inner'][0]
        mname = me['name']
        if obj['kind'] == 'DeclRefExpr' and obj['referencedDecl']['name'] == self.msgname:
            return self.msg_call(mname, args, n)
        ot = self.w.ty(obj.get('type', {}))
        if ot[0] == 'rec' and self.w.records[ot[1]]['tag'] == 'union':
            r = self.w.records[ot[1]]
            ms = r['methods'].get(mname, [])
            if len(ms) == 1:
                return self.method_inline(ms[0], obj, args, r)
        raise Untranslatable('member call ' + mname)

    def explicit(self, args):
        return [a for a in args if a['kind'] != 'CXXDefaultArgExpr']

    def msg_call(self, mname, args, n):
        if mname == 'SetPGN':
            v = self.ev(args[0])
            c = v.const() if isinstance(v, Int) else None
            if c is None:
                raise Untranslatable('SetPGN with a non-constant')
            self.pgn = c
            return Unknown('void')
        if mname in ('SetIsTPMessage',):
            return Unknown('void')
        m = DBL.fullmatch(mname)
        if self.mode == 'set':
            if self.tail:
                return Unknown('void')        # behind a variable-length item: only the prefix is translated
            if mname in ADD_INT:
                v = self.ev(args[0])
                w = ADD_INT[mname]
                if isinstance(v, Int):
                    self.payload += v.resize(w).bits
                else:
                    self.notes.append('%s argument not translated: %s' % (mname, getattr(v, 'why', getattr(v, 'arg', ''))))
                    self.payload += [None] * w
                return Unknown('void')
            if m and m.group(1) == 'Add':
                w, signed = int(m.group(2)), m.group(3) == ''
                ex = self.explicit(args)
                v = self.ev(ex[0])
                p = self.ev(ex[1])
                if isinstance(p, Int) and p.const() is not None:
                    p = Fp('const', Decimal(p.const()))
                if (isinstance(v, Fp) and v.kind == 'param' and isinstance(p, Fp) and p.kind == 'const' and len(ex) == 2
                        and v.arg not in self.scaled):
                    num, e = res_pair(p.arg)
                    self.scaled[v.arg] = dict(off=len(self.payload), w=w, signed=signed, num=num, exp=e, text=str(p.arg))
                    self.payload += [('p', v.arg, i) for i in range(8 * w)]
                elif isinstance(v, Fp) and v.kind == 'const' and v.arg == Decimal('-1E+9') and len(ex) == 2:
                    # the constant N2kDoubleNA with the default UndefVal: the field's "not available" pattern (C06)
                    na = (1 << (8 * w - 1)) - 1 if signed else (1 << (8 * w)) - 1
                    self.payload += [(na >> i) & 1 for i in range(8 * w)]
                else:
                    self.notes.append('%s: value or precision outside the fragment' % mname)
                    self.payload += [None] * (8 * w)
                return Unknown('void')
            if mname in ('AddStr', 'AddAISStr'):
                ln = self.ev(args[1])
                c = ln.const() if isinstance(ln, Int) else None
                src = args[0]
                while src['kind'] in ('ImplicitCastExpr', 'ParenExpr', 'CStyleCastExpr'):
                    src = src['inner'][-1]
                fname = None
                if src['kind'] == 'DeclRefExpr':
                    fname = src['referencedDecl']['name']
                elif src['kind'] == 'MemberExpr':
                    fname = src['name']
                if c is None or c <= 0 or fname is None or fname not in self.fieldidx:
                    raise Untranslatable('string field with unknown length')
                fd = self.fields[self.fieldidx[fname]]
                fd.update(kind='text', bits=8 * c, textkind=('ais' if mname == 'AddAISStr' else 'str'), textoff=len(self.payload))
                self.payload += [('p', fname, i) for i in range(8 * c)]
                return Unknown('void')
            if mname in STR_ADD:
                self.tail = 'variable-length item ' + mname
                return Unknown('void')
            raise Untranslatable('message call ' + mname)
        # parser
        if mname in GET_INT:
            idx = self.get_index(args[0])
            w = GET_INT[mname]
            t = self.tyn(n)
            self.set_index(args[0], idx + w // 8)
            return Int([('b', 8 * idx + i) for i in range(w)], t[2] if t[0] == 'int' else False).resize(t[1], t[2])
        if m and m.group(1) == 'Get':
            w, signed = int(m.group(2)), m.group(3) == ''
            ex = self.explicit(args)
            p = self.ev(ex[0])
            if isinstance(p, Int) and p.const() is not None:
                p = Fp('const', Decimal(p.const()))
            idx = self.get_index(ex[1])
            self.set_index(ex[1], idx + w)
            if not (isinstance(p, Fp) and p.kind == 'const') or len(ex) != 2:
                return Fp('opaque', 'precision/default outside the fragment')
            num, e = res_pair(p.arg)
            return Fp('get', dict(off=8 * idx, w=w, signed=signed, num=num, exp=e, text=str(p.arg)))
        if mname == 'GetStr':
            ex = self.explicit(args)
            # GetStr(size, buf, len, stopchar, Index)  |  GetStr(buf, len, Index)
            idxnode = ex[-1]
            lennode = ex[2] if len(ex) == 5 else ex[1]
            bufnode = ex[1] if len(ex) == 5 else ex[0]
            ln = self.ev(lennode)
            c = ln.const() if isinstance(ln, Int) else None
            idx = self.get_index(idxnode)
            if c is None:
                raise Untranslatable('GetStr with unknown length')
            b = bufnode
            while b['kind'] in ('ImplicitCastExpr', 'ParenExpr', 'CStyleCastExpr'):
                b = b['inner'][-1]
            fname = b['referencedDecl']['name'] if b['kind'] == 'DeclRefExpr' else (b['name'] if b['kind'] == 'MemberExpr' else None)
            self.text_fields.append((fname, 8 * idx, c))
            self.set_index(idxnode, idx + c)
            return Unknown('string')
        if mname in STR_GET:
            self.index = None
            self.tail = 'variable-length item ' + mname
            return Unknown('string')
        raise Untranslatable('message call ' + mname)

    def get_index(self, node):
        v = self.ev(node)
        c = v.const() if isinstance(v, Int) else None
        if c is None:
            raise Untranslatable('payload index is not a known constant' + (' after ' + self.tail if self.tail else ''))
        return c

    def set_index(self, node, val):
        b = node
        while b['kind'] in ('ImplicitCastExpr', 'ParenExpr'):
            b = b['inner'][0]
        if b['kind'] != 'DeclRefExpr':
            raise Untranslatable('index argument is not a variable')
        self.write(b['referencedDecl']['name'], cint(val, 32, True))

    # ---- statements
    def block(self, body):
        """returns None (fell through) or ('return', value)"""
        for st in body.get('inner', []):
            r = self.stmt(st)
            if r is not None:
                return r
        return None

    def stmt(self, st):
        k = st['kind']
        if k == 'CompoundStmt':
            return self.block(st)
        if k == 'NullStmt':
            return None
        if k == 'DeclStmt':
            for d in st.get('inner', []):
                if d['kind'] != 'VarDecl':
                    raise Untranslatable('declaration ' + d['kind'])
                init = [c for c in d.get('inner', []) if 'Comment' not in c.get('kind', '')]
                if init:
                    v = self.ev(init[0])
                    v = self.cast_to(v, self.w.ty(d['type'])) if not isinstance(v, Unknown) else v
                else:
                    v = Unknown('uninitialised ' + d['name'])
                self.frame.vars[d['name']] = v
            return None
        if k == 'ReturnStmt':
            v = self.ev(st['inner'][0]) if st.get('inner') else None
            return ('return', v)
        if k == 'IfStmt':
            return self.if_stmt(st)
        if k in ('ForStmt', 'WhileStmt', 'DoStmt'):
            return self.loop(st)
        if k == 'BreakStmt':
            return ('break', None)
        if k == 'ContinueStmt':
            return ('continue', None)
        if k not in ('BinaryOperator', 'CompoundAssignOperator', 'UnaryOperator', 'CallExpr', 'CXXMemberCallExpr', 'CXXOperatorCallExpr',
                     'ExprWithCleanups', 'ParenExpr', 'ImplicitCastExpr', 'CStyleCastExpr', 'ConditionalOperator'):
            raise Untranslatable('statement kind ' + k)      # never skip something that is not interpreted
        self.ev(st)
        return None

    def loop(self, st):
        """for / while / do with a condition that is a known constant in every iteration (a small constant bound, or
        `while (true)` left by `break`): executed iteration by iteration. A condition on symbolic values (a list of
        unknown length) is outside the fragment."""
        k = st['kind']
        parts = st['inner']
        if k == 'ForStmt':
            init, cond, inc, body = parts[0], parts[2], parts[3], parts[4]
            if init and init.get('kind'):
                r = self.stmt(init)
                if r is not None:
                    raise Untranslatable('loop initialiser')
        elif k == 'WhileStmt':
            cond, inc, body = parts[0], None, parts[-1]
        else:
            body, cond, inc = parts[0], parts[1], None
        first = (k == 'DoStmt')
        for _ in range(600):
            if not first:
                if cond and cond.get('kind'):
                    c = self.ev(cond)
                    c = self.to_bool(c) if isinstance(c, Int) and len(c.bits) != 1 else c
                    if not (isinstance(c, Int) and c.bits[0] in (0, 1)):
                        raise Untranslatable('loop whose condition depends on a value that is not a known constant')
                    if c.bits[0] == 0:
                        return None
            first = False
            r = self.stmt(body)
            if r is not None:
                if r[0] == 'break':
                    return None
                if r[0] != 'continue':
                    return r
            if inc and inc.get('kind'):
                self.ev(inc)
        raise Untranslatable('loop does not end within 600 iterations')

    def if_stmt(self, st):
        parts = st['inner']
        cond, then = parts[0], parts[1]
        els = parts[2] if len(parts) > 2 else None
        # parser guards:  if (N2kMsg.PGN != C) return false;   if (N2kMsg.GetX(Index) != C) return false;
        if self.mode == 'parse' and els is None:
            g = self.guard_form(cond, then)
            if g:
                return None
        c = self.ev(cond)
        if isinstance(c, Int):
            c = self.to_bool(c) if len(c.bits) != 1 else c
        if isinstance(c, Int) and c.bits[0] in (0, 1):
            if c.bits[0] == 1:
                return self.stmt(then)
            return self.stmt(els) if els is not None else None
        if (self.mode == 'parse' and els is None and isinstance(c, Int) and isinstance(c.bits[0], tuple)
                and c.bits[0][0] == 'hc' and self.is_return_false(then)):
            # guard clause `if (header condition) return false;`: the layout describes the messages that pass it
            lits = self.hc_literals(c.bits[0][1], False)
            if lits is None:
                raise Untranslatable('guard clause on a disjunction of header conditions')
            self.assumed += lits
            return None
        if (self.mode == 'parse' and self.depth == 0 and els is None and isinstance(c, Int) and isinstance(c.bits[0], tuple)
                and c.bits[0][0] == 'hc' and self.accept_cond is None):
            # `if (header condition) { read the fields }` : the layout describes the accepted messages; the function
            # must return exactly this condition (checked at the end)
            self.accept_cond = c.bits[0]
            return self.stmt(then)
        if isinstance(c, Int) and isinstance(c.bits[0], tuple) and c.bits[0][0] == 'c' and (self.depth == 0 or self.mode == 'set'):
            cond = c.bits[0][1]
            if self.mode == 'set' and self.fork and self.param_cond(cond) is not None:
                if len(self.path) < len(self.decisions):
                    d = self.decisions[len(self.path)]
                    self.path.append((self.param_cond(cond), d))
                    if d:
                        return self.stmt(then)
                    return self.stmt(els) if els is not None else None
                raise NeedFork()
            if self.mode == 'parse' and els is None:
                rm = self.na_remap_form(cond, then)
                if rm:
                    return None
            if self.mode == 'parse' and self.known:
                used = set()
                d = self.decide(cond, used)
                if d is not None:
                    for k in sorted(used):
                        if (k, self.known[k]) not in self.payload_guard:
                            self.payload_guard.append((k, self.known[k]))
                    self.notes.append('conditional decided by constants the setter writes (recorded as payload guard)')
                    if d:
                        return self.stmt(then)
                    return self.stmt(els) if els is not None else None
        self.cond_bit = c.bits[0] if (isinstance(c, Int) and isinstance(c.bits[0], tuple) and c.bits[0][0] == 'p') else None
        try:
            return self.symbolic_if(st, then, els)
        finally:
            self.cond_bit = None

    def na_remap_form(self, cond, then):
        """`if (x == 2^n-1) x = U;` where x holds exactly an n-bit payload field (zero-extended) and U is a constant whose
        low n bits are ones: the field's all-ones "not available" pattern is handed back as the enumeration's own NA value.
        Recognised from the source form; recorded on the value as remap=(n, U)."""
        if cond[0] != 'cmp' or cond[1] != '==' or cond[3]:
            return False
        bits, c = cond[2], cond[4]
        n = 0
        while n < len(bits) and isinstance(bits[n], tuple) and bits[n][0] == 'b':
            n += 1
        if n == 0 or any(b != 0 for b in bits[n:]) or c != (1 << n) - 1:
            return False
        saved = dict(self.frame.vars)
        try:
            r = self.stmt(then)
        except Untranslatable:
            self.frame.vars = saved
            return False
        changed = [k for k in self.frame.vars if self.frame.vars[k] is not saved.get(k)]
        ok = False
        if r is None and len(changed) == 1:
            old, new = saved.get(changed[0]), self.frame.vars[changed[0]]
            u = new.const() if isinstance(new, Int) else None
            if (isinstance(old, Int) and not old.remap and list(old.bits[:n]) == list(bits[:n]) and all(b == 0 for b in old.bits[n:])
                    and u is not None and u >= (1 << n) - 1 and u % (1 << n) == (1 << n) - 1 and u < (1 << len(old.bits))):
                self.frame.vars = saved
                self.write(changed[0], Int(old.bits, old.signed, old.rec, (n, u)))
                self.notes.append('%s: all-ones of the %d-bit field is returned as %d (not-available remap)' % (changed[0], n, u))
                ok = True
        if not ok:
            self.frame.vars = saved
        return ok

    @staticmethod
    def hc_literals(c, positive):
        """header condition `c` assumed true (positive) or false: list of literals (name, op, const) or None (disjunction)"""
        neg = {'==': '!=', '!=': '==', '<': '>=', '>=': '<', '>': '<=', '<=': '>'}
        if c[0] == 'not':
            return Eval.hc_literals(c[1], not positive)
        if c[0] == 'and':
            if not positive:
                return None
            a, b = Eval.hc_literals(c[1], True), Eval.hc_literals(c[2], True)
            return None if a is None or b is None else a + b
        name, op, cv = c
        return [(name, op if positive else neg[op], cv)]

    def whole_uint_param(self, v):
        """name of the unsigned integer parameter whose unmodified value `v` is (zero-extended), else None"""
        bits = v.bits
        if not bits or not (isinstance(bits[0], tuple) and bits[0][0] == 'p'):
            return None
        name = bits[0][1]
        fd = self.fields[self.fieldidx[name]] if name in self.fieldidx else None
        if fd is None or fd['kind'] != 'uint':
            return None
        for i, b in enumerate(bits):
            if i < fd['bits']:
                if b != ('p', name, i):
                    return None
            elif b != 0:
                return None
        return name if len(bits) >= fd['bits'] else None

    def param_cond(self, cond):
        """condition over whole unsigned integer parameters -> ('cmp', op, field, const) tree, else None"""
        if cond[0] in ('and', 'or'):
            a, b = self.param_cond(cond[1]), self.param_cond(cond[2])
            return (cond[0], a, b) if a is not None and b is not None else None
        if cond[0] == 'not':
            a = self.param_cond(cond[1])
            return ('not', a) if a is not None else None
        _, op, bits, signed, c = cond
        if signed or not bits or not (isinstance(bits[0], tuple) and bits[0][0] == 'p'):
            return None
        name = bits[0][1]
        fd = self.fields[self.fieldidx[name]] if name in self.fieldidx else None
        if fd is None or fd['kind'] != 'uint':
            return None
        for i, b in enumerate(bits):
            if i < fd['bits']:
                if b != ('p', name, i):
                    return None
            elif b != 0:
                return None
        return ('cmp', op, name, c) if c >= 0 else None

    def decide(self, cond, used):
        """truth value of a payload condition under the payload constants the paired setter path writes, or None"""
        if cond[0] == 'not':
            d = self.decide(cond[1], used)
            return None if d is None else (not d)
        if cond[0] in ('and', 'or'):
            a, b = self.decide(cond[1], used), self.decide(cond[2], used)
            if a is None or b is None:
                return None
            return (a and b) if cond[0] == 'and' else (a or b)
        _, op, bits, signed, c = cond
        v, mine = 0, set()
        for i, b in enumerate(bits):
            if b in (0, 1):
                bit = b
            elif isinstance(b, tuple) and b[0] == 'b' and b[1] in self.known:
                bit = self.known[b[1]]
                mine.add(b[1])
            else:
                return None
            v |= bit << i
        if signed and bits and (v >> (len(bits) - 1)) & 1:
            v -= 1 << len(bits)
        used |= mine
        return {'==': v == c, '!=': v != c, '<': v < c, '>': v > c, '<=': v <= c, '>=': v >= c}[op]

    def is_return_false(self, st):
        if st['kind'] == 'CompoundStmt' and len(st.get('inner', [])) == 1:
            st = st['inner'][0]
        if st['kind'] != 'ReturnStmt' or not st.get('inner'):
            return False
        e = st['inner'][0]
        while e['kind'] in ('ImplicitCastExpr', 'ParenExpr'):
            e = e['inner'][0]
        return e['kind'] == 'CXXBoolLiteralExpr' and not e['value']

    def guard_form(self, cond, then):
        if not self.is_return_false(then):
            return False
        c = cond
        while c['kind'] in ('ParenExpr',):
            c = c['inner'][0]
        if c['kind'] != 'BinaryOperator' or c['opcode'] != '!=':
            return False
        l, r = c['inner']
        def strip(x):
            while x['kind'] in ('ImplicitCastExpr', 'ParenExpr'):
                x = x['inner'][0]
            return x
        ls = strip(l)
        if ls['kind'] == 'MemberExpr' and ls['name'] == 'PGN':
            b = strip(ls['inner'][0])
            if b['kind'] == 'DeclRefExpr' and b['referencedDecl']['name'] == self.msgname:
                v = self.ev(r)
                cv = v.const() if isinstance(v, Int) else None
                if cv is None or self.guard is not None:
                    return False
                self.guard = cv
                return True
        if ls['kind'] == 'CXXMemberCallExpr':
            lv, rv = self.ev(l), self.ev(r)
            cv = rv.const() if isinstance(rv, Int) else None
            if isinstance(lv, Int) and cv is not None:
                for i, b in enumerate(lv.bits):
                    want = (cv >> i) & 1
                    if isinstance(b, tuple) and b[0] == 'b':
                        self.payload_guard.append((b[1], want))
                    elif b in (0, 1) and b != want:
                        raise Untranslatable('payload guard can never pass')
                    elif b not in (0, 1):
                        raise Untranslatable('payload guard on a computed value')
                return True
            raise Untranslatable('guard on a non-integer')
        return False

    def symbolic_if(self, st, then, els):
        """conditional on a value the translator cannot decide. Setter: both branches must append the same number of
        bits; differing bits become `unk`. Parser: everything assigned in either branch becomes opaque."""
        if self.mode == 'set':
            base = len(self.payload)
            saved = dict(self.frame.vars)
            sc = dict(self.scaled)
            r1 = self.stmt(then)
            p1, v1, s1 = self.payload[base:], self.frame.vars, self.scaled
            self.payload, self.frame.vars, self.scaled = self.payload[:base], dict(saved), dict(sc)
            r2 = self.stmt(els) if els is not None else None
            p2, v2 = self.payload[base:], self.frame.vars
            if (r1 is not None and r1[0] != 'return') or (r2 is not None and r2[0] != 'return'):
                raise Untranslatable('break/continue under a condition that is not a known constant')
            if r1 is not None or r2 is not None or len(p1) != len(p2) or self.tail:
                self.payload = self.payload[:base]
                self.frame.vars = saved
                self.scaled = sc
                self.tail = 'conditional whose paths differ in length or return early'
                return ('tail', None)
            self.payload = self.payload[:base] + [a if a == b else None for a, b in zip(p1, p2)]
            self.scaled = sc         # a scaled item added in only one branch is not a layout fact
            cbit = self.cond_bit
            for name in set(v1) | set(v2):
                a, b = v1.get(name), v2.get(name)
                if a is not b and not self.same(a, b):
                    sel = None
                    if cbit is not None and isinstance(a, Int) and isinstance(b, Int) and len(a.bits) == len(b.bits) and a.signed == b.signed:
                        # value = cond ? a : b, bit by bit: equal bits stay, (1,0) is the condition itself
                        sel = []
                        for x, y in zip(a.bits, b.bits):
                            if x == y:
                                sel.append(x)
                            elif x == 1 and y == 0:
                                sel.append(cbit)
                            else:
                                sel = None
                                break
                    self.frame.vars[name] = Int(sel, a.signed) if sel is not None else Unknown('assigned in a conditional')
            self.notes.append('conditional merged: differing bits are unk')
            return None
        # parser
        saved = dict(self.frame.vars)
        idx0 = self.index
        r1 = self.try_branch(then)
        v1 = self.frame.vars
        self.frame.vars = dict(saved)
        r2 = self.try_branch(els) if els is not None else None
        v2 = self.frame.vars
        merged = dict(saved)
        for name in set(v1) | set(v2):
            a, b = v1.get(name), v2.get(name)
            if a is b or self.same(a, b):
                merged[name] = a
            else:
                merged[name] = Unknown('assigned in a conditional')
        self.frame.vars = merged
        self.notes.append('conditional: values assigned inside are opaque')
        if r1 == 'abort' or r2 == 'abort' or (r1 is not None) or (r2 is not None):
            # a branch returns or could not be read: everything still unassigned afterwards is unknown
            raise Untranslatable('conditional with a return / untranslatable branch')
        return None

    def try_branch(self, st):
        try:
            return self.stmt(st)
        except Untranslatable as e:
            self.notes.append('branch not translated: %s' % e)
            return 'abort'

    @staticmethod
    def same(a, b):
        if isinstance(a, Int) and isinstance(b, Int):
            return a.bits == b.bits and a.signed == b.signed
        if isinstance(a, Fp) and isinstance(b, Fp):
            return a.kind == b.kind and a.arg == b.arg
        return False

    # ---- drivers
    def run(self):
        body = [c for c in self.fn['inner'] if c.get('kind') == 'CompoundStmt'][0]
        for st in body.get('inner', []):
            if self.tail and self.mode == 'set':
                self.notes.append('statement after the translated prefix skipped')
                break
            try:
                r = self.stmt(st)
            except Untranslatable as e:
                if self.mode == 'parse' and self.depth == 0 and (self.guard is not None or any(l[0] == 'PGN' and l[1] == '==' for l in self.assumed)):
                    # the PGN guard is established and everything read so far is exact; the rest is not translated. An output
                    # that the untranslated rest still mentions may be changed there: it is not kept.
                    self.tail = str(e)
                    rest = body.get('inner', [])[body.get('inner', []).index(st):]
                    mentioned = set()

                    def walk(n_):
                        if n_.get('kind') == 'DeclRefExpr':
                            mentioned.add(n_['referencedDecl'].get('name'))
                        if n_.get('kind') == 'MemberExpr':
                            mentioned.add(n_.get('name'))
                        for c_ in n_.get('inner', []):
                            walk(c_)
                    for r_ in rest:
                        walk(r_)
                    for k_ in list(self.frame.vars):
                        nm_ = k_.split('.')[-1]
                        if (k_ in mentioned or nm_ in mentioned) and isinstance(self.frame.vars[k_], (Int, Fp)):
                            self.frame.vars[k_] = Unknown('may be changed by the untranslated rest of the function')
                    break
                raise
            if r is not None:
                if r[0] == 'return':
                    self.retval = r[1]
                break
        if self.mode == 'parse' and (self.accept_cond is not None or self.assumed):
            lits = list(self.assumed)
            if self.accept_cond is not None:
                rv = self.retval
                rv = self.to_bool(rv) if isinstance(rv, Int) and len(rv.bits) != 1 else rv
                if not (isinstance(rv, Int) and rv.bits[0] == self.accept_cond):
                    raise Untranslatable('fields are read under a header condition that is not the return value')
                more = self.hc_literals(self.accept_cond[1], True)
                if more is None:
                    raise Untranslatable('header condition with a disjunction')
                lits += more
            elif not self.tail:
                rv = self.retval
                rv = self.to_bool(rv) if isinstance(rv, Int) and len(rv.bits) != 1 else rv
                if not (isinstance(rv, Int) and rv.bits[0] == 1):
                    raise Untranslatable('guard clauses passed but the function does not return true')
            for name, op, cv in lits:
                if name == 'PGN' and op == '==' and self.guard in (None, cv):
                    self.guard = cv
                elif name == 'DataLen' and op == '>=':
                    self.len_min = max(self.len_min, cv)
                elif name == 'DataLen' and op == '>':
                    self.len_min = max(self.len_min, cv + 1)
                elif name == 'DataLen' and op == '<=':
                    self.len_max = min(self.len_max, cv)
                elif name == 'DataLen' and op == '<':
                    self.len_max = min(self.len_max, cv - 1)
                else:
                    raise Untranslatable('header condition %s %s %s' % (name, op, cv))
        return self

    def out_any(self):
        return any(isinstance(v, (Int, Fp)) for k_, v in self.frame.vars.items())


# ------------------------------------------------------------------------------------------------ pairing

def pgn_of_name(name):
    m = re.search(r'(?i)pgn(\d+)', name)
    return int(m.group(1)) if m else None


def setter_paths(world, fn, limit=3):
    """every path of a setter through conditionals on its integer parameters: [Eval]; [] when there is none or one"""
    out = []

    def go(dec):
        try:
            ev = Eval(world, fn, 'set', decisions=dec, fork=True)
            ev.run()
            out.append(ev)
        except NeedFork:
            if len(dec) >= limit:
                raise Untranslatable('more than %d nested parameter conditionals' % limit)
            go(dec + [True])
            go(dec + [False])
    try:
        go([])
    except (Untranslatable, KeyError, IndexError, TypeError, ValueError):
        return []
    return out if len(out) > 1 else []


def translate_function(world, fn, mode, known=None):
    """-> (Eval, error text or None). On failure the Eval is still returned when its parameter table could be built
    (marked `.failed`): the harness glue needs the signature of a function whose body is not translated."""
    ev = None
    try:
        ev = Eval(world, fn, mode, known=known)
        ev.failed = None
        ev.run()
        return ev, None
    except Untranslatable as e:
        err = str(e)
    except (KeyError, IndexError, TypeError, ValueError) as e:      # unexpected AST shape: report, never guess
        err = 'unexpected AST shape: %r' % (e,)
    if ev is not None and hasattr(ev, 'params'):
        ev.failed = err
        return ev, err
    return None, err


def lean_bits(bits):
    """compress a setter bit list into `pbits p lo n ++ ones n ++ zeros n ++ unks n`"""
    out, i = [], 0
    while i < len(bits):
        b = bits[i]
        j = i + 1
        if b in (0, 1, None):
            while j < len(bits) and bits[j] == b and type(bits[j]) == type(b):
                j += 1
            out.append('.%s %d' % ({0: 'zeros', 1: 'ones', None: 'unks'}[b], j - i))
        else:
            while j < len(bits) and isinstance(bits[j], tuple) and bits[j][0] == b[0] and bits[j][1] == b[1] + (j - i):
                j += 1
            out.append('.pbits %d %d %d' % (b[0], b[1], j - i))
        i = j
    return '[' + ', '.join(out) + ']'


def lean_out(bits):
    out, i = [], 0
    while i < len(bits):
        b = bits[i]
        j = i + 1
        if b is None:
            while j < len(bits) and bits[j] is None:
                j += 1
            out.append('nz %d' % (j - i))
        else:
            while j < len(bits) and bits[j] is not None and bits[j] == b + (j - i):
                j += 1
            out.append('rd %d %d' % (b, j - i))
        i = j
    return ' ++ '.join(out) if out else '[]'


class PairResult:
    pass


def cond_and(conds):
    out = None
    for c, d in conds:
        c = c if d else ('not', c)
        out = c if out is None else ('and', out, c)
    return out


def build_pairs(world, pid, sfn, pfn, stats):
    """the pair itself, followed by one variant per path when the setter branches on its integer parameters"""
    base = build_pair(world, pid, sfn, pfn, stats)
    out = [base]
    paths = setter_paths(world, sfn) if sfn else []
    # named by content (longest payload first, then most parameter bits), so that rewriting a condition as its negation
    # does not rename the variants
    paths.sort(key=lambda e_: (-len(e_.payload), -sum(1 for b_ in e_.payload if isinstance(b_, tuple))))
    for k, Sv in enumerate(paths):
        suffix = 'abcdefgh'[k] if k < 8 else str(k)
        known = {i: b for i, b in enumerate(Sv.payload) if b in (0, 1) and not isinstance(b, bool)}
        R = build_pair(world, '%s_%s' % (pid, suffix), sfn, pfn, stats, S=Sv, known=known)
        R['variant_of'] = pid
        R['set_cond'] = cond_and(Sv.path)
        R['notes'].insert(0, 'variant of %s: the setter path taken when %s' % (pid, cond_text(R['set_cond'])))
        out.append(R)
    if paths:
        base['notes'].append('%d path variants follow (%s)' % (len(paths), ', '.join(r['id'] for r in out[1:])))
    return out


def lean_cond(c, idx):
    if c is None:
        return '.tt'
    if c[0] == 'cmp':
        return '(.%s %d %d)' % ({'==': 'eq', '!=': 'ne', '<': 'lt', '<=': 'le', '>': 'gt', '>=': 'ge'}[c[1]], idx[c[2]], c[3])
    if c[0] == 'not':
        return '(.not %s)' % lean_cond(c[1], idx)
    return '(.%s %s %s)' % (c[0], lean_cond(c[1], idx), lean_cond(c[2], idx))


def cpp_cond(c, idx):
    if c is None:
        return 'true'
    if c[0] == 'cmp':
        return '((unsigned long long)v[%d].i %s %dULL)' % (idx[c[2]], c[1], c[3])
    if c[0] == 'not':
        return '(!%s)' % cpp_cond(c[1], idx)
    return '(%s %s %s)' % (cpp_cond(c[1], idx), '&&' if c[0] == 'and' else '||', cpp_cond(c[2], idx))


def cond_text(c):
    if c is None:
        return 'true'
    if c[0] == 'cmp':
        return '%s %s %d' % (c[2], c[1], c[3])
    if c[0] == 'not':
        return '!(%s)' % cond_text(c[1])
    return '(%s %s %s)' % (cond_text(c[1]), '&&' if c[0] == 'and' else '||', cond_text(c[2]))


def build_pair(world, pid, sfn, pfn, stats, S=None, known=None):
    """-> dict describing the pair (layouts, obligations) ; records fallbacks in stats"""
    R = dict(id=pid, file=world.fname, setter_name=sfn['name'] if sfn else None, parser_name=pfn['name'] if pfn else None,
             setter_ok=False, parser_ok=False, notes=[])
    P = None
    if sfn and S is None:
        S, err = translate_function(world, sfn, 'set')
        if err:
            R['notes'].append('setter not translated: ' + err)
    if pfn:
        P, err = translate_function(world, pfn, 'parse', known=known)
        if err:
            R['notes'].append('parser not translated: ' + err)
    R['S'], R['P'] = S, P            # kept for the harness glue (signatures) even when the body is not translated
    Sfull, Pfull = S, P
    # field table: setter parameters first, then parser-only outputs
    names, info = [], {}
    for ev_ in (Sfull, Pfull):
        if ev_ is None:
            continue
        for f in ev_.fields:
            key = f['name']
            if key not in info:
                # tolerate a different capitalisation of the same parameter
                alt = [k for k in info if k.lower() == key.lower()]
                if alt:
                    f['alias_of'] = alt[0]
                    continue
                names.append(key)
                info[key] = dict(f)
                info[key]['in_setter'] = ev_ is Sfull
                info[key]['in_parser'] = False
            if ev_ is Pfull:
                info[key]['in_parser'] = info[key].get('in_parser') or True
                info[key]['pfield'] = f
            else:
                info[key]['sfield'] = f
    R['names'], R['info'] = names, info
    idx = {n: i for i, n in enumerate(names)}
    # from here on only TRANSLATED functions contribute layouts
    S = S if (S is not None and not getattr(S, 'failed', None)) else None
    P = P if (P is not None and not getattr(P, 'failed', None)) else None

    def canon(name):
        if name in idx:
            return name
        alt = [k for k in idx if k.lower() == name.lower()]
        return alt[0] if alt else None
    R['pgn'] = S.pgn if S and S.pgn is not None else pgn_of_name((sfn or pfn)['name'])
    # setter layout
    sbits = []
    if S:
        R['setter_ok'] = True
        R['setter_tail'] = S.tail
        # parameters that enter the payload as a quotient (value / constant): only if that is their ONLY use, as one
        # contiguous whole-byte field starting at bit 0 of the quotient
        quot = {}
        raw_used = {b[1] for b in S.payload if isinstance(b, tuple) and b[0] == 'p'}
        for k_, b in enumerate(S.payload):
            if isinstance(b, tuple) and b[0] == 'q':
                quot.setdefault((b[1], b[2]), []).append((k_, b[3]))
        qok = {}
        for (nm_, c_), occ in quot.items():
            off_ = occ[0][0]
            good = (nm_ not in raw_used and sum(1 for (n2, _c) in quot if n2 == nm_) == 1 and len(occ) % 8 == 0
                    and all(pos == off_ + j and bit == j for j, (pos, bit) in enumerate(occ)))
            if good:
                qok[nm_] = dict(off=off_, w=len(occ) // 8, signed=False, num=c_, exp=0, text=str(c_))
            else:
                R['notes'].append('setter: quotient %s/%d is not a single whole-byte field: bits not translated' % (nm_, c_))
        R['quot_scaled'] = qok
        for b in S.payload:
            if isinstance(b, tuple) and b[0] == 'p':
                sbits.append((idx[canon(b[1])], b[2]))
            elif isinstance(b, tuple) and b[0] == 'q' and b[1] in qok:
                sbits.append((idx[canon(b[1])], b[3]))
            elif b in (0, 1):
                sbits.append(b)
            else:
                sbits.append(None)
        R['notes'] += ['setter: ' + x for x in S.notes]
        if S.tail:
            R['notes'].append('setter translated up to: ' + S.tail)
    R['sbits'] = sbits
    # widths
    widths = []
    for nme in names:
        f = info[nme]
        sf = f.get('sfield')
        if sf and sf['kind'] in ('enum', 'bool', 'union', 'text'):
            wv = sf['bits']
        elif S and nme in S.scaled:
            wv = 8 * S.scaled[nme]['w']
        else:
            stored = [b[1] for b in sbits if isinstance(b, tuple) and b[0] == idx[nme]]
            wv = (max(stored) + 1) if stored else 0
        widths.append(wv)
    R['widths'] = widths
    # parser layout
    pouts, opaque, pscaled, remaps = {}, [], {}, {}
    R['remaps'] = remaps
    if P:
        R['parser_ok'] = True
        R['guard'] = P.guard
        R['payload_guard'] = P.payload_guard
        R['len_min'], R['len_max'] = P.len_min, P.len_max
        R['parser_tail'] = P.tail
        for f in P.fields:
            nme = canon(f['name'])
            if nme is None:
                continue
            key = f.get('cname', f['name'])
            v = P.frame.vars.get(key if '.' in key else f['name'])
            if isinstance(v, tuple):
                v = None
            if isinstance(v, Fp) and v.kind == 'get':
                r = v.arg
                pouts[nme] = [r['off'] + i for i in range(8 * r['w'])]
                pscaled[nme] = r
            elif isinstance(v, Int):
                if v.remap:
                    remaps[nme] = v.remap
                    widths[idx[nme]] = v.remap[0]      # the field as such is n bits wide (the setter stores n bits of the NA value)
                bits = []
                bad = False
                for b in v.bits:
                    if b == 0:
                        bits.append(None)
                    elif isinstance(b, tuple) and b[0] == 'b':
                        bits.append(b[1])
                    else:
                        bad = True
                if bad:
                    opaque.append(nme)
                    R['notes'].append('parser output %s contains a constant 1 or a computed bit' % nme)
                    continue
                wmin = widths[idx[nme]]
                while len(bits) > max(wmin, 1) and bits[-1] is None:
                    bits.pop()
                pouts[nme] = bits
                if v.rec:
                    pscaled[nme] = v.rec
            else:
                if f['kind'] == 'text' or (f['kind'] == 'other'):
                    continue
                opaque.append(nme)
                why = getattr(v, 'why', None) or getattr(v, 'arg', None) or 'not assigned'
                R['notes'].append('parser output %s not translated: %s' % (nme, why))
        R['notes'] += ['parser: ' + x for x in P.notes]
        if P.tail:
            R['notes'].append('parser translated up to: ' + P.tail)
    R['pouts'], R['opaque'], R['pscaled'] = pouts, opaque, pscaled
    R['sscaled'] = {canon(k): v for k, v in (S.scaled.items() if S else [])}
    for k, v in R.get('quot_scaled', {}).items():
        R['sscaled'][canon(k)] = v
        R['notes'].append('setter: %s enters the payload as the integer quotient %s/%d (side record with resolution %d)' % (k, k, v['num'], v['num']))
    if S and S.tail:
        # the setter layout is a prefix: a field the parser reads from beyond it cannot be judged
        for n_ in list(pouts):
            if any(b is not None and b >= len(sbits) for b in pouts[n_]):
                del pouts[n_]
                pscaled.pop(n_, None)
                opaque.append(n_)
                R['notes'].append('parser output %s lies beyond the translated setter prefix' % n_)
    # an integer parameter none of whose bits reaches the payload (a constant is written instead on this path)
    for n_ in list(pouts):
        sf_ = info[n_].get('sfield')
        if S and sf_ and sf_['kind'] in ('uint', 'sint') and widths[idx[n_]] == 0:
            del pouts[n_]
            pscaled.pop(n_, None)
            opaque.append(n_)
            R['notes'].append('parameter %s is not stored by the setter on this path: no obligation' % n_)
    R['checked'] = [idx[n] for n in names if n in pouts and info[n]['in_setter'] and info[n].get('sfield', {}).get('kind') not in ('text', 'other')
                    and S is not None]
    return R


def field_ok(R, o):
    """Python copy of N2k.Layout.fieldOK (used only to PREDICT which generated obligations fail; Lean decides)"""
    name = R['names'][o]
    W = R['widths'][o]
    bits = R['pouts'].get(name, [])
    S = R['sbits']
    if W > len(bits):
        return False
    for i, b in enumerate(bits):
        if b is None:
            if not W <= i:
                return False
        else:
            s = S[b] if b < len(S) else 'none'
            if i < W:
                if s != (o, i):
                    return False
            else:
                if not (s == 0 and s is not None and not isinstance(s, tuple) or (isinstance(s, tuple) and s[0] == o and s[1] >= W)):
                    return False
    a, b = R['sscaled'].get(name), R['pscaled'].get(name)
    key = lambda r: None if r is None else (r['off'], r['w'], r['signed'], r['num'], r['exp'])
    rm = R.get('remaps', {}).get(name)
    if rm and not (rm[0] > 0 and W == rm[0] and len(bits) == rm[0] and rm[1] % (1 << rm[0]) == (1 << rm[0]) - 1):
        return False
    return key(a) == key(b)


def lean_rec(o, r):
    return '(%d, ⟨%d, %d, %s, %d, %d⟩)' % (o, r['off'], r['w'], 'true' if r['signed'] else 'false', r['num'], r['exp'])


def ident(s):
    return re.sub(r'[^A-Za-z0-9_]', '_', s)


def load_open_findings():
    keys = set()
    p = os.path.join(VERIF, 'known_findings.d', 'C05.json')
    if os.path.exists(p):
        try:
            for e in json.load(open(p)).get('findings', []):
                if e.get('status') == 'open' and e.get('key', '').startswith('C05:'):
                    parts = e['key'].split(':')
                    if len(parts) >= 3:
                        keys.add((parts[1], parts[2]))
        except Exception:
            pass
    return keys


def write_if_changed(path, text):
    os.makedirs(os.path.dirname(path), exist_ok=True)
    if not os.path.exists(path) or open(path).read() != text:
        open(path, 'w').write(text)


def collect(src_dir):
    """-> (pairs [R], stats)"""
    stats = dict(functions=0, pairs=0, setter_only=0, unpaired_parsers=0)
    results = []
    worlds = stats.setdefault('_worlds', {})
    nonpure_by_world = []
    for fname in FILES:
        w = World(src_dir, fname)
        worlds[fname] = w
        nonpure_by_world.append((w, check_aliases(w, stats)))
        setters, parsers, others = {}, {}, []
        for fn in w.funcs:
            nm = fn['name']
            if re.match(r'SetN2k(Maretron)?PGN\d+$', nm):
                setters.setdefault(pgn_of_name(nm), []).append(fn)
            elif re.match(r'(?i)ParseN2k(Maretron)?PGN\d+$', nm):
                parsers.setdefault(pgn_of_name(nm), []).append(fn)
            elif re.match(r'AppendN2kPGN\d+$', nm):
                others.append(fn)
        stats['functions'] += sum(map(len, setters.values())) + sum(map(len, parsers.values())) + len(others)
        stats.setdefault('append_builders_not_translated', []).extend(f['name'] for f in others)

        def pnames(fn):
            return [p.get('name', '').lower() for p in fn.get('inner', []) if p.get('kind') == 'ParmVarDecl' and 'tN2kMsg' not in p['type'].get('qualType', '')]
        for pgn in sorted(set(setters) | set(parsers)):
            ss, ps = list(setters.get(pgn, [])), list(parsers.get(pgn, []))
            used = set()
            k = 0
            for s in ss:
                best, bestn = None, 0
                for j, p in enumerate(ps):
                    if j in used:
                        continue
                    ov = len(set(pnames(s)) & set(pnames(p)))
                    if ov > bestn:
                        best, bestn = j, ov
                pid = str(pgn) if k == 0 else '%d_%d' % (pgn, k)
                k += 1
                if best is not None:
                    used.add(best)
                    results.extend(build_pairs(w, pid, s, ps[best], stats))
                    stats['pairs'] += 1
                else:
                    results.extend(build_pairs(w, pid, s, None, stats))
                    stats['setter_only'] += 1
            for j, p in enumerate(ps):
                if j not in used:
                    stats['unpaired_parsers'] += 1
                    stats.setdefault('unpaired_parser_names', []).append(p['name'])
    seen = set()
    for w, nonpure in nonpure_by_world:
        pair_wrappers(w, nonpure, results, stats, seen)
    # every remaining public setter overload / alias of the headers (pure forwarders included) gets a setter layout of
    # its own, so that C15 can compare EVERY way of producing a listed PGN with the published layout
    used = {id(R['S'].fn) for R in results if R.get('S') is not None}
    seen_s = set()
    for w, _np in nonpure_by_world:
        main_ids = {id(f) for f in w.funcs}
        for name in sorted(w.inline):
            if not re.match(r'SetN2k', name):
                continue
            for fn in w.inline[name]:
                sig = (name, fn['type'].get('qualType'))
                if id(fn) in main_ids or id(fn) in used or sig in seen_s:
                    continue
                seen_s.add(sig)
                if any(R.get('S') is not None and (R['S'].fn['name'], R['S'].fn['type'].get('qualType')) == sig for R in results):
                    continue
                probe, err = translate_function(w, fn, 'set')
                pgn = probe.pgn if probe is not None and probe.pgn is not None else pgn_of_name(name)
                if pgn is None:
                    stats.setdefault('wrappers_not_translated', []).append('%s: %s' % (name, err or 'no PGN'))
                    continue
                counter = stats.setdefault('_wcounter', {})
                counter[pgn] = counter.get(pgn, 0) + 1
                rs = build_pairs(w, '%dw%d' % (pgn, counter[pgn]), fn, None, stats)
                for r_ in rs:
                    r_['notes'].insert(0, 'public setter overload / alias wrapper %s (setter layout for C15)' % name)
                    r_['wrapper'] = True
                results.extend(rs)
                stats['wrapper_setters'] = stats.get('wrapper_setters', 0) + 1
    stats.pop('_wcounter', None)
    return results, stats


def check_aliases(world, stats):
    """inline wrappers of the headers (SetN2kSystemTime, ParseN2kRudder, ...): a wrapper is `pure` when its body is one
    call of a SetN2kPGN/ParseN2kPGN function that forwards exactly its own parameters in order - then it is the same
    function under another name and inherits the pair's theorems. Anything else is listed."""
    def strip(x):
        while x.get('kind') in ('ImplicitCastExpr', 'ParenExpr', 'ExprWithCleanups'):
            x = x['inner'][0]
        return x
    pure, other = stats.setdefault('alias_wrappers_pure', []), stats.setdefault('alias_wrappers_not_pure_forwarders', [])
    nonpure = []
    main_ids = {id(f) for f in world.funcs}
    for name, decls in world.inline.items():
        for fn in decls:
            if id(fn) in main_ids or not re.match(r'(Set|Parse)N2k', name):
                continue
            body = [c for c in fn['inner'] if c.get('kind') == 'CompoundStmt'][0]
            sts = [c for c in body.get('inner', []) if c.get('kind') != 'NullStmt']
            ok = False
            if len(sts) == 1:
                st = sts[0]
                if st['kind'] == 'ReturnStmt' and st.get('inner'):
                    st = st['inner'][0]
                st = strip(st)
                if st.get('kind') == 'CallExpr':
                    cal = strip(st['inner'][0])
                    cname = cal.get('referencedDecl', {}).get('name', '')
                    ps = [p_.get('name') for p_ in fn.get('inner', []) if p_.get('kind') == 'ParmVarDecl']
                    args = [strip(a) for a in st['inner'][1:]]
                    fw = [a.get('referencedDecl', {}).get('name') if a.get('kind') == 'DeclRefExpr' else None for a in args]
                    if re.match(r'(?i)(Set|Parse)N2k(Maretron)?PGN\d+$', cname) and fw == ps:
                        ok = True
            key = '%s %s' % (name, fn['type'].get('qualType', ''))
            if ok:
                if key not in pure:
                    pure.append(key)
            elif key not in other:
                other.append(key)
                nonpure.append(fn)
    return nonpure


def pair_wrappers(world, nonpure, results, stats, seen):
    """inline wrappers that are NOT pure forwarders (flag-style overloads, overloads that drop or default fields) get layouts
    of their own: the evaluator inlines the function they call. Each is paired with the best-matching function of the
    opposite role and the same base name (another wrapper, or the main function)."""
    def base(n):
        return re.sub(r'^(Set|Parse)', '', n)

    def pnames(fn):
        return {p.get('name', '').lower() for p in fn.get('inner', []) if p.get('kind') == 'ParmVarDecl' and 'tN2kMsg' not in p['type'].get('qualType', '')}
    done = set()
    counter = stats.setdefault('_wcounter', {})
    for wf in nonpure:
        sig = (wf['name'], wf['type'].get('qualType'))
        if sig in seen:
            continue
        seen.add(sig)
        role = 'set' if wf['name'].startswith('Set') else 'parse'
        cands = []
        for name, decls in world.inline.items():
            if base(name) != base(wf['name']) or name.startswith('Set') == (role == 'set'):
                continue
            for fn in decls:
                ov = len(pnames(fn) & pnames(wf))
                if ov:
                    cands.append((ov, -len(pnames(fn) ^ pnames(wf)), id(fn) in {id(x) for x in nonpure}, fn))
        if not cands:
            stats.setdefault('wrappers_without_counterpart', []).append(wf['name'])
            continue
        other = max(cands, key=lambda c: c[:3])[3]
        sfn, pfn = (wf, other) if role == 'set' else (other, wf)
        k = (id(sfn), id(pfn))
        if k in done:
            continue
        done.add(k)
        probe, err = translate_function(world, sfn, 'set')
        pgn = probe.pgn if probe is not None and probe.pgn is not None else pgn_of_name(sfn['name'])
        if pgn is None:
            stats.setdefault('wrappers_not_translated', []).append('%s: %s' % (sfn['name'], err or 'no PGN'))
            continue
        counter[pgn] = counter.get(pgn, 0) + 1
        rs = build_pairs(world, '%dw%d' % (pgn, counter[pgn]), sfn, pfn, stats)
        for r_ in rs:
            r_['notes'].insert(0, 'alias wrapper pair (not pure forwarders): %s / %s' % (sfn['type'].get('qualType', '')[:0] + sfn['name'], pfn['name']))
            r_['wrapper'] = True
        results.extend(rs)
        stats['wrapper_pairs'] = stats.get('wrapper_pairs', 0) + 1


def emit_lean(results, gen_dir, stats, enum_worlds=None):
    openk = load_open_findings()
    L = ['import N2k.Model.Layout',
         '/-! GENERATED by tools/translators/layouts.py from src/N2kMessages.cpp, src/N2kMaretron.cpp, src/NMEA2000.cpp',
         'on every run. Do not edit. One `Pair` per setter/parser pair: the setter layout is read off the setter, the',
         'parser layout off the parser, independently. -/',
         'namespace N2k.Gen.Layouts', 'open N2k.Layout', '',
         'def rd (k n : Nat) : OutBits := (List.range n).map fun i => some (k + i)',
         'def nz (n : Nat) : OutBits := List.replicate n none', '']
    Pf = ['import N2k.Gen.Layouts', 'import N2k.Lemmas.Layout',
          '/-! GENERATED by tools/translators/layouts.py on every run. Do not edit. One obligation per field that is both',
          'set and parsed: the parser reads the field from exactly the bits the setter wrote it to, with the same scaled',
          'side record. A failing `decide` here IS a setter/parser mismatch in the C++ source. -/',
          'set_option Elab.async false   -- hundreds of tiny kernel evaluations: thread hand-over costs more than the proofs',
          'set_option linter.unusedSimpArgs false',
          'namespace N2k.Gen.LayoutProofs', 'open N2k.Layout N2k.Gen.Layouts', '']
    pair_names, n_obl, failing, negated = [], 0, [], []
    ok_pairs, open_pairs = [], []
    translated_pairs = 0
    for R in results:
        nm = 'pair_' + ident(R['id'])
        has_parser = R.get('parser_ok')
        names = R['names']
        parser_rows = []
        for n_ in names:
            parser_rows.append(lean_out(R['pouts'][n_]) if n_ in R['pouts'] else '[]')
        guard = R.get('guard')
        L.append('/-- %s%s%s -/' % (R['setter_name'] or '(no setter)', ' / ' + R['parser_name'] if R['parser_name'] else '',
                                    ''.join('\n  ' + x.replace('-/', '- /') for x in R['notes'])))
        L.append('def %s : Pair where' % nm)
        L.append('  id := "%s"' % R['id'])
        L.append('  pgn := %d' % (R['pgn'] or 0))
        L.append('  guard := %s' % ('some %d' % guard if guard is not None else 'none'))
        L.append('  names := [%s]' % ', '.join('"%s"' % x for x in names))
        L.append('  widths := [%s]' % ', '.join(map(str, R['widths'])))
        L.append('  setter := %s' % lean_bits(R['sbits']))
        L.append('  parser := [%s]' % ',\n    '.join(parser_rows))
        L.append('  checked := [%s]' % ', '.join(map(str, R['checked'])))
        idx = {n_: i for i, n_ in enumerate(names)}
        L.append('  setScaled := [%s]' % ', '.join(lean_rec(idx[k], v) for k, v in R['sscaled'].items()))
        L.append('  parseScaled := [%s]' % ', '.join(lean_rec(idx[k], v) for k, v in R['pscaled'].items()))
        L.append('  payloadGuard := [%s]' % ', '.join('(%d, %s)' % (k, 'true' if b else 'false') for k, b in R.get('payload_guard', [])))
        L.append('  opaqueOut := [%s]' % ', '.join(str(idx[n_]) for n_ in R['opaque']))
        L.append('  lenMin := %d' % R.get('len_min', 0))
        L.append('  lenMax := %d' % R.get('len_max', 223))
        L.append('  setterOK := %s' % ('true' if R['setter_ok'] else 'false'))
        L.append('  setterPrefixOnly := %s' % ('true' if R.get('setter_tail') else 'false'))
        L.append('  parserOK := %s' % ('true' if R['parser_ok'] else 'false'))
        L.append('  signedInts := [%s]' % ', '.join(str(i) for i, n_ in enumerate(names) if R['info'][n_].get('sfield', {}).get('kind') == 'sint'))
        if R.get('remaps'):
            L.append('  naRemap := [%s]' % ', '.join('(%d, %d, %d)' % (idx[k], v[0], v[1]) for k, v in R['remaps'].items()))
        if R.get('variant_of'):
            L.append('  variantOf := "%s"' % R['variant_of'])
            L.append('  setCond := %s' % lean_cond(R.get('set_cond'), idx))
        if R.get('S') is not None:
            L.append('  setterKey := "%s/%d"' % (R['setter_name'], sum(1 for p_ in R['S'].params if p_['role'] != 'msg')))
        if R.get('wrapper'):
            L.append('  isWrapper := true')
        L.append('  intBits := [%s]' % ', '.join(str(R['info'][n_]['sfield']['bits'] if R['info'][n_].get('sfield', {}).get('kind') in ('sint', 'uint') else 0) for n_ in names))
        L.append('')
        pair_names.append(nm)
        if not (R['setter_ok'] and has_parser):
            continue
        translated_pairs += 1
        fld_thms = []
        pgn_txt = ident(R['id'])
        for o in R['checked']:
            fname = names[o]
            tn = 'C05_pgn_%s_%s' % (pgn_txt, ident(fname))
            ok = field_ok(R, o)
            rs = R['sscaled'].get(fname) or R['pscaled'].get(fname)
            doc = 'W = %d%s' % (R['widths'][o], (', scaled %s byte(s), resolution %s' % (rs['w'], rs['text'])) if rs else '')
            if (str(R['pgn']), fname) in openk or (R['id'], fname) in openk:
                Pf.append('/-- KNOWN FINDING (open): %s does not round-trip %s (%s) -/' % (R['id'], fname, doc))
                Pf.append('theorem %s_mismatch : fieldOK %s %d = false := by decide +kernel' % (tn, nm, o))
                negated.append('C05:%s:%s' % (R['id'], fname))
                if ok:
                    failing.append('C05:%s:%s (stale known finding: field mirrors now)' % (R['id'], fname))
            else:
                Pf.append('/-- %s (%s) -/' % (fname, doc))
                Pf.append('theorem %s : fieldOK %s %d = true := by decide +kernel' % (tn, nm, o))
                fld_thms.append((o, tn))
                if not ok:
                    failing.append('C05:%s:%s' % (R['id'], fname))
            n_obl += 1
        gtn = 'C05_pgn_%s_guards' % pgn_txt
        gk = ('%s' % R['pgn'], 'guard')
        if gk in openk:
            Pf.append('theorem %s_mismatch : guardsOK %s = false := by decide +kernel' % (gtn, nm))
            negated.append('C05:%s:guard' % R['id'])
        else:
            Pf.append('theorem %s : guardsOK %s = true := by decide +kernel' % (gtn, nm))
            if R.get('guard') != R['pgn']:
                failing.append('C05:%s:guard' % R['id'])
        n_obl += 1
        R['field_theorems'] = fld_thms
        R['guard_theorem'] = None if gk in openk else gtn
        if len(fld_thms) == len(R['checked']) and gk not in openk:
            Pf.append('theorem C05_pair_%s : pairOK %s = true :=' % (pgn_txt, nm))
            Pf.append('  pairOK_of %s [%s] rfl' % (nm, ', '.join(str(o) for o, _ in fld_thms)))
            Pf.append('    (by simp only [List.all_cons, List.all_nil, Bool.and_true, Bool.and_self%s])' % ''.join(', ' + t for _, t in fld_thms))
            Pf.append('    %s' % gtn)
            ok_pairs.append((nm, 'C05_pair_%s' % pgn_txt))
        else:
            open_pairs.append(nm)
        Pf.append('')
    L.append('/-! enumerations as declared in the headers on this run: (enumerator, code point) -/')
    done_en = set()
    for w_ in (enum_worlds or []):
        names_ = dict((k, k) for k in w_.enums)
        for al, tgt in w_.aliases.items():
            tgt = re.sub(r'^enum\s+', '', tgt)
            if tgt in w_.enums and re.fullmatch(r'\w+', al):
                names_[al] = tgt
        for nm_ in sorted(names_):
            if nm_ in done_en or not re.fullmatch(r'[A-Za-z_]\w*', nm_):
                continue
            done_en.add(nm_)
            L.append('def enum_%s : List (String × Nat) := [%s]' % (nm_, ', '.join('("%s", %d)' % (a, b) for a, b in w_.enums[names_[nm_]] if b >= 0)))
    L.append('')
    L.append('/-- every function pair / setter the translator looked at -/')
    L.append('def all : List Pair := [%s]' % ', '.join(pair_names))
    L.append('/-- pairs with both sides translated and every obligation stated positively -/')
    L.append('def okPairs : List Pair := [%s]' % ', '.join(n for n, _ in ok_pairs))
    L.append('/-- pairs with a field listed as an open known finding (obligation stated as a mismatch) -/')
    L.append('def pairsWithOpenFindings : List Pair := [%s]' % ', '.join(open_pairs))
    L += ['', 'end N2k.Gen.Layouts', '']
    Pf.append('/-- every translated pair satisfies all its obligations -/')
    Pf.append('theorem C05_all_pairs : okPairs.all pairOK = true := by')
    Pf.append('  simp only [okPairs, List.all_cons, List.all_nil, Bool.and_true, Bool.and_self%s]' % ''.join(', ' + t for _, t in ok_pairs))
    Pf += ['', 'end N2k.Gen.LayoutProofs', '']
    write_if_changed(os.path.join(gen_dir, 'Layouts.lean'), '\n'.join(L))
    write_if_changed(os.path.join(gen_dir, 'LayoutProofs.lean'), '\n'.join(Pf))
    stats.update(obligations=n_obl, predicted_failing_obligations=failing, negated_for_open_findings=negated,
                 pairs_translated=translated_pairs)



# ------------------------------------------------------------------------------------------------ harness glue

def shallow_scaled(world, fn):
    """every Add/Get<N>Byte[U]Double call in the body, wherever it is (also inside conditionals):
    field name -> (w, signed, literal text, Decimal). Used for the harness only (documented resolutions)."""
    out = {}

    def strip(x):
        while x.get('kind') in ('ImplicitCastExpr', 'ParenExpr', 'CStyleCastExpr', 'MaterializeTemporaryExpr', 'ExprWithCleanups'):
            x = x['inner'][-1]
        return x

    def lit(x):
        x = strip(x)
        if x.get('kind') == 'FloatingLiteral':
            t = world.src_text(x)
            try:
                return dec_text(t)
            except Exception:
                return Decimal(x['value'])
        if x.get('kind') == 'IntegerLiteral':
            return Decimal(int(x['value']))
        return None

    def nameof(x):
        x = strip(x)
        if x.get('kind') == 'DeclRefExpr':
            return x['referencedDecl']['name']
        if x.get('kind') == 'MemberExpr':
            return x['name']
        return None

    def call_info(c):
        c = strip(c)
        if c.get('kind') != 'CXXMemberCallExpr':
            return None
        me = c['inner'][0]
        m = DBL.fullmatch(me.get('name', '')) if me.get('kind') == 'MemberExpr' else None
        if not m:
            return None
        return m, [a for a in c['inner'][1:] if a['kind'] != 'CXXDefaultArgExpr']

    def walk(n):
        k = n.get('kind')
        if k == 'CXXMemberCallExpr':
            ci = call_info(n)
            if ci and ci[0].group(1) == 'Add' and len(ci[1]) >= 2:
                nm, d = nameof(ci[1][0]), lit(ci[1][1])
                if nm and d is not None and nm not in out:
                    out[nm] = (int(ci[0].group(2)), ci[0].group(3) == '', d)
        if k == 'BinaryOperator' and n.get('opcode') == '=':
            ci = call_info(n['inner'][1])
            if ci and ci[0].group(1) == 'Get' and len(ci[1]) >= 2:
                nm, d = nameof(n['inner'][0]), lit(ci[1][0])
                if nm and d is not None and nm not in out:
                    out[nm] = (int(ci[0].group(2)), ci[0].group(3) == '', d)
        for c in n.get('inner', []):
            walk(c)
    walk(fn)
    return out


def shallow_text(world, fn):
    """AddStr/AddAISStr/AddVarStr calls: field -> (kind, max length)"""
    out = {}

    def strip(x):
        while x.get('kind') in ('ImplicitCastExpr', 'ParenExpr', 'CStyleCastExpr'):
            x = x['inner'][-1]
        return x

    def walk(n):
        if n.get('kind') == 'CXXMemberCallExpr' and n['inner'][0].get('kind') == 'MemberExpr' and n['inner'][0].get('name') in ('AddStr', 'AddAISStr', 'AddVarStr'):
            a = strip(n['inner'][1])
            nm = a['referencedDecl']['name'] if a.get('kind') == 'DeclRefExpr' else (a.get('name') if a.get('kind') == 'MemberExpr' else None)
            ln = const_of(n['inner'][2])
            if nm:
                kd = {'AddStr': 'str', 'AddAISStr': 'ais', 'AddVarStr': 'var'}[n['inner'][0]['name']]
                if kd == 'var' and 'vss_SupportUnicode' in json.dumps(n['inner'][3] if len(n['inner']) > 3 else {}):
                    kd = 'varu'          # variable string that may carry UCS-2 text
                out[nm] = (kd, ln)
        for c in n.get('inner', []):
            walk(c)
    walk(fn)
    return out


def cdec(d):
    """Decimal -> C++ double literal text"""
    t = format(d, 'f') if -8 < d.adjusted() < 12 else '%E' % d
    if '.' not in t and 'E' not in t and 'e' not in t:
        t += '.0'
    return t


def emit_glue(results, path, worlds):
    H = ['// GENERATED by tools/translators/layouts.py on every run - call glue for harness/layout.cpp.',
         '// Signatures, C types, enumerators and the resolution literals of the Add/Get...Double calls only. The fields',
         '// model*/unk* describe what the Lean driver prints (formatting of the correspondence lines), nothing else.',
         '#pragma once', '#include <string>', '#include <cstring>', '#include "N2kMessages.h"', '#include "N2kMaretron.h"', '#include "NMEA2000.h"',
         'namespace lg {',
         '// cap: size the caller passes for a text buffer (input of the parser); overrun / unterminated: what the glue saw behind it',
         'struct Val { long long i; double d; std::string s; int cap; bool overrun, unterminated; Val() : i(0), d(0), cap(300), overrun(false), unterminated(false) {} };',
         'enum Kind { K_UINT, K_SINT, K_ENUM, K_BOOL, K_SCALED, K_UNION, K_TEXT };',
         'struct Field { const char *name; Kind kind; int typeBits; int pTypeBits; int W; bool inSetter, inParser;',
         '  int sW; bool sSigned; double sRes; int pW; bool pSigned; double pRes;',
         '  const long long *enumerators; int nEnum; int textKind; int textLen; long long naAlias; bool sizedBuf; };',
         '// how the Lean driver prints a `set` / `parse` line for the setter path `cond` / the messages matching `guard`',
         'struct Variant { const char *id; bool (*cond)(const Val *); const int *guard; const int *modelOut;',
         '  bool modelSetter, modelParser; int modelPrefixBytes; const int *unkBytes; int nUnk; };',
         'struct Pair { const char *id; unsigned long pgn; const Field *f; int nf;',
         '  void (*set)(tN2kMsg &, const Val *); bool (*parse)(const tN2kMsg &, Val *); const Variant *v; int nv;',
         '  const char *setterKey; bool isWrapper; };', '']
    table, skipped = [], []
    for R in results:
        S, P = R.get('S'), R.get('P')
        if not (S and R['setter_name']) or R.get('variant_of'):
            continue
        cid = ident(R['id'])
        names = R['names']
        idx = {n: i for i, n in enumerate(names)}
        w = worlds[R['file']]
        sfn = S.fn
        pfn = P.fn if P else None
        ssc, psc = shallow_scaled(w, sfn), (shallow_scaled(w, pfn) if pfn else {})
        stx = shallow_text(w, sfn)
        problems = []

        def canon(n):
            if n in idx:
                return n
            a = [k for k in idx if k.lower() == n.lower()]
            return a[0] if a else None

        def ctype(q):
            return re.sub(r'\s*&\s*$', '', re.sub(r'^const\s+', '', q)).strip()

        # ---- setter call
        set_lines, set_args = [], []
        for prm in S.params:
            if prm['role'] == 'msg':
                set_args.append('m')
                continue
            t, q, nm = prm['type'], prm['qual'], prm['name']
            if t[0] == 'rec' and w.records[t[1]]['tag'] == 'struct':
                set_lines.append('  %s %s;' % (t[1], nm))
                for fname, fq in w.records[t[1]]['fields']:
                    ft = w.ty(fq)
                    i = idx[canon(fname)]
                    fqt = fq.get('qualType', '')
                    if ft[0] in ('int', 'enum'):
                        set_lines.append('  %s.%s = (%s)v[%d].i;' % (nm, fname, fqt, i))
                    elif ft[0] == 'fp':
                        set_lines.append('  %s.%s = v[%d].d;' % (nm, fname, i))
                    elif re.match(r'char\s*\[\d+\]', fqt):
                        set_lines.append('  strncpy(%s.%s, v[%d].s.c_str(), sizeof(%s.%s)); %s.%s[sizeof(%s.%s)-1]=0;' % (nm, fname, i, nm, fname, nm, fname, nm, fname))
                    else:
                        problems.append('struct member %s of type %s' % (fname, fqt))
                set_args.append(nm)
                continue
            i = idx[canon(nm)]
            if t[0] in ('int', 'enum'):
                set_args.append('(%s)v[%d].i' % (ctype(q), i))
            elif t[0] == 'fp':
                set_args.append('v[%d].d' % i)
            elif t[0] == 'rec' and w.records[t[1]]['tag'] == 'union':
                fd = S.fields[S.fieldidx[nm]]
                set_lines.append('  %s u%d; u%d.%s = (%s)v[%d].i;' % (t[1], i, i, fd['member'], w.records[t[1]]['fields'][0][1]['qualType'], i))
                set_args.append('u%d' % i)
            elif re.match(r'(const )?char \*$', q.strip()):
                set_args.append('(%s)v[%d].s.c_str()' % (q.strip(), i))
            else:
                problems.append('setter parameter %s of type %s' % (nm, q))
        # ---- parser call
        par_decl, par_args, par_back, sized, cap_decl = [], [], [], set(), []
        for prm in (P.params if P else []):
            if prm['role'] == 'msg':
                par_args.append('m')
                continue
            t, q, nm = prm['type'], prm['qual'], prm['name']
            if t[0] == 'rec' and w.records[t[1]]['tag'] == 'struct':
                par_decl.append('  %s %s;' % (t[1], nm))
                for fname, fq in w.records[t[1]]['fields']:
                    ft = w.ty(fq)
                    c = canon(fname)
                    if c is None:
                        continue
                    i = idx[c]
                    if ft[0] == 'enum':
                        par_back.append('  { unsigned int t_ = 0; memcpy(&t_, &%s.%s, sizeof t_ < sizeof %s.%s ? sizeof t_ : sizeof %s.%s); v[%d].i = (long long)t_; }' % (nm, fname, nm, fname, nm, fname, i))
                    elif ft[0] == 'int':
                        par_back.append('  v[%d].i = (long long)%s.%s;' % (i, nm, fname))
                    elif ft[0] == 'fp':
                        par_back.append('  v[%d].d = %s.%s;' % (i, nm, fname))
                    elif re.match(r'char\s*\[\d+\]', fq.get('qualType', '')):
                        par_back.append('  v[%d].s = std::string(%s.%s, strnlen(%s.%s, sizeof(%s.%s)));' % (i, nm, fname, nm, fname, nm, fname))
                par_args.append(nm)
                continue
            if prm['role'] == 'out':
                i = idx[canon(nm)]
                if t[0] == 'enum':
                    # read back through memcpy: a parser may store a bit pattern that is no value of the enumeration
                    # (NA filling of a truncated message); loading it as the enum would trip the sanitizer in the GLUE
                    par_decl.append('  %s o%d = (%s)0;' % (ctype(q), i, ctype(q)))
                    par_args.append('o%d' % i)
                    par_back.append('  { unsigned int t_ = 0; memcpy(&t_, &o%d, sizeof t_ < sizeof o%d ? sizeof t_ : sizeof o%d); v[%d].i = (long long)t_; }' % (i, i, i, i))
                elif t[0] == 'int':
                    par_decl.append('  %s o%d = (%s)0;' % (ctype(q), i, ctype(q)))
                    par_args.append('o%d' % i)
                    par_back.append('  v[%d].i = (long long)o%d;' % (i, i))
                elif t[0] == 'fp':
                    par_decl.append('  double o%d = 0;' % i)
                    par_args.append('o%d' % i)
                    par_back.append('  v[%d].d = o%d;' % (i, i))
                elif t[0] == 'rec' and w.records[t[1]]['tag'] == 'union':
                    fd = P.fields[P.fieldidx[nm]]
                    par_decl.append('  %s o%d;' % (t[1], i))
                    par_args.append('o%d' % i)
                    par_back.append('  v[%d].i = (long long)o%d.%s;' % (i, i, fd['member']))
                else:
                    problems.append('parser output %s of type %s' % (nm, q))
                continue
            # by-value / pointer arguments: text buffers and their sizes
            q0 = q.strip()
            if q0 == 'char *':
                c = canon(nm)
                if c is None:
                    problems.append('text buffer %s has no setter counterpart' % nm)
                    continue
                i = idx[c]
                # the caller's buffer has v[i].cap bytes; everything behind it is a guard that must stay untouched
                cap_decl.append('  size_t cap%d = (v[%d].cap < 0 || v[%d].cap > 600) ? 300 : (size_t)v[%d].cap;' % (i, i, i, i))
                par_decl.append('  char b%d[640]; memset(b%d, 0x5a, sizeof b%d);' % (i, i, i))
                par_args.append('b%d' % i)
                par_back.append('  v[%d].s = cap%d ? std::string(b%d, strnlen(b%d, cap%d)) : std::string(); v[%d].unterminated = cap%d && strnlen(b%d, cap%d) == cap%d; '
                                'v[%d].overrun = false; for (size_t k_ = cap%d; k_ < sizeof b%d; k_++) if (b%d[k_] != 0x5a) v[%d].overrun = true;' % (i, i, i, i, i, i, i, i, i, i, i, i, i, i, i))
                sized.add(nm)
                continue
            msz = re.fullmatch(r'(\w+?)(BufSize|MaxSize|Size)', nm)
            if msz and canon(msz.group(1)) is not None and ('char *' in [pp.get('qual', '').strip() for pp in P.params if pp.get('name') == msz.group(1)]):
                i = idx[canon(msz.group(1))]
                if q0.endswith('&'):
                    par_decl.append('  %s z%d = (%s)cap%d;' % (ctype(q0), i, ctype(q0), i))
                    par_args.append('z%d' % i)
                else:
                    par_args.append('(%s)cap%d' % (q0, i))
                continue
            problems.append('parser argument %s of type %s' % (nm, q))
        if problems:
            skipped.append((R['id'], problems))
            continue
        # ---- fields
        flines = []
        for i, nm in enumerate(names):
            f = R['info'][nm]
            kind = {'uint': 'K_UINT', 'sint': 'K_SINT', 'enum': 'K_ENUM', 'bool': 'K_BOOL', 'scaled': 'K_SCALED', 'union': 'K_UNION',
                    'text': 'K_TEXT', 'other': 'K_TEXT'}[f['kind']]
            sf, pf = f.get('sfield'), f.get('pfield')
            anyf = sf or pf
            if anyf['kind'] == 'other' and not (re.search(r'char', anyf.get('ctype', ''))):
                kind = 'K_UINT'
            def tbits(fd):
                if fd is None:
                    return 0
                return {'bool': 1, 'enum': 32, 'scaled': 64}.get(fd['kind'], fd.get('mbits', fd['bits']) if fd['kind'] == 'union' else (fd['bits'] if fd['kind'] in ('uint', 'sint') else 0))
            tb, ptb = tbits(sf) or tbits(pf), tbits(pf) or tbits(sf)
            ptext = any(pp.get('name') == nm and pp.get('qual', '').strip() == 'char *' for pp in (P.params if P else []))
            en = anyf.get('enumerators')
            if en:
                H.append('static const long long en_%s_%d[] = {%s};' % (cid, i, ', '.join('%dLL' % x for x in en)))
            s_ = ssc.get(nm) or next((v for k, v in ssc.items() if k.lower() == nm.lower()), None)
            p_ = psc.get(nm) or next((v for k, v in psc.items() if k.lower() == nm.lower()), None)
            tx = stx.get(nm)
            if R.get('wrapper'):
                # a wrapper has no Add/Get...Double call of its own: the literals are the ones of the function it forwards to
                allsc = dict(R['sscaled'])
                for V_ in results:
                    if V_.get('variant_of') == R['id']:
                        for k_, v_ in V_['sscaled'].items():
                            allsc.setdefault(k_, v_)           # a field written on one path only (behind a conditional)
                if s_ is None and nm in allsc and 'text' in allsc[nm] and R['info'][nm].get('sfield', {}).get('kind') == 'scaled':
                    r_ = allsc[nm]
                    s_ = (r_['w'], r_['signed'], Decimal(r_['text']))
                if p_ is None and nm in R['pscaled'] and R['info'][nm].get('pfield', {}).get('kind') == 'scaled':
                    r_ = R['pscaled'][nm]
                    p_ = (r_['w'], r_['signed'], Decimal(r_['text']))
                if tx is None and sf and sf.get('kind') == 'text':
                    tx = (sf.get('textkind', 'str'), sf['bits'] // 8)
            flines.append('  {"%s", %s, %d, %d, %d, %s, %s, %d, %s, %s, %d, %s, %s, %s, %d, %d, %d, %dLL, %s}' % (
                nm, kind, tb, ptb, R['widths'][i], 'true' if f.get('in_setter') and sf else 'false', 'true' if (pf or ptext) else 'false',
                s_[0] if s_ else 0, 'true' if (s_ and s_[1]) else 'false', cdec(s_[2]) if s_ else '0.0',
                p_[0] if p_ else 0, 'true' if (p_ and p_[1]) else 'false', cdec(p_[2]) if p_ else '0.0',
                ('en_%s_%d' % (cid, i)) if en else 'nullptr', len(en) if en else 0,
                {'str': 1, 'ais': 2, 'var': 3, 'varu': 4}.get(tx[0], 0) if tx else 0, (tx[1] or 0) if tx else 0,
                R.get('remaps', {}).get(nm, (0, -1))[1], 'true' if any(x.lower() == nm.lower() for x in sized) else 'false'))
        H.append('static const Field f_%s[] = {\n%s\n};' % (cid, ',\n'.join(flines)))
        H.append('static void set_%s(tN2kMsg &m, const Val *v) {\n%s\n  %s(%s);\n}' % (cid, '\n'.join(set_lines), R['setter_name'], ', '.join(set_args)))
        if P:
            H.append('static bool parse_%s(const tN2kMsg &m, Val *v) {\n%s\n  bool r = %s(%s);\n%s\n  return r;\n}' % (
                cid, '\n'.join(cap_decl + par_decl), R['parser_name'], ', '.join(par_args), '\n'.join(par_back)))
        vrows = []
        variants = [V for V in results if V.get('variant_of') == R['id']] + [R]     # the pair itself is the fallback
        for V in variants:
            vid = ident(V['id'])
            vidx = {n: i for i, n in enumerate(V['names'])}
            if V['names'] != names:
                raise RuntimeError('variant %s has a different field table' % V['id'])
            unk = sorted({k // 8 for k, b in enumerate(V['sbits']) if b is None})
            H.append('static const int unk_%s[] = {%s};' % (vid, ', '.join(map(str, unk + [-1]))))
            H.append('static const int mo_%s[] = {%s};' % (vid, ', '.join('2' if n in V['opaque'] else ('1' if n in V['pouts'] else '0') for n in names)))
            H.append('static const int gd_%s[] = {%s-1};' % (vid, ''.join('%d, %d, ' % (k, b) for k, b in V.get('payload_guard', []) or [])))
            if V.get('variant_of'):
                H.append('static bool cond_%s(const Val *v) { return %s; }' % (vid, cpp_cond(V.get('set_cond'), vidx)))
            vrows.append('  {"%s", %s, gd_%s, mo_%s, %s, %s, %d, unk_%s, %d}' % (
                V['id'], ('cond_' + vid) if V.get('variant_of') else 'nullptr', vid, vid, 'true' if V['setter_ok'] else 'false',
                'true' if V['parser_ok'] else 'false', (len(V['sbits']) // 8) if V.get('setter_tail') else -1, vid, len(unk)))
        H.append('static const Variant v_%s[] = {\n%s\n};' % (cid, ',\n'.join(vrows)))
        table.append('  {"%s", %dUL, f_%s, %d, set_%s, %s, v_%s, %d, "%s/%d", %s}' % (
            R['id'], R['pgn'] or 0, cid, len(names), cid, ('parse_' + cid) if P else 'nullptr', cid, len(vrows),
            R['setter_name'], sum(1 for p_ in S.params if p_['role'] != 'msg'), 'true' if R.get('wrapper') else 'false'))
        H.append('')
    # enumerators by NAME, valued by the compiler from the real headers (for the C15 code-point oracle)
    used_enums, rows = set(), []
    for R in results:
        for n_ in R['names']:
            f_ = R['info'][n_].get('sfield') or R['info'][n_].get('pfield')
            if f_ and f_.get('kind') == 'enum':
                used_enums.add((R['file'], f_['ctype']))
    seen_en = set()
    for fl, en in sorted(used_enums):
        if en in seen_en:
            continue
        seen_en.add(en)
        for a, _b in worlds[fl].enums.get(en, []):
            rows.append('  {"%s", "%s", (long long)%s}' % (en, a, a))
    H.append('struct EnumVal { const char *type, *name; long long value; };')
    H.append('static const EnumVal enumVals[] = {\n%s\n};' % ',\n'.join(rows))
    H.append('static const int nEnumVals = %d;' % len(rows))
    H.append('static const Pair pairs[] = {\n%s\n};' % ',\n'.join(table))
    H.append('static const int nPairs = %d;' % len(table))
    H.append('}  // namespace lg')
    write_if_changed(path, '\n'.join(H) + '\n')
    return skipped


def run(src_dir, gen_dir):
    results, stats = collect(src_dir)
    worlds = stats.pop('_worlds')
    emit_lean(results, gen_dir, stats, [worlds[f] for f in FILES if f in worlds])
    fallbacks = []
    fields_t = fields_o = 0
    for R in results:
        if R['setter_name'] and not R['setter_ok']:
            fallbacks.append(R['setter_name'])
        if R['parser_name'] and not R['parser_ok']:
            fallbacks.append(R['parser_name'])
        fields_t += len(R['checked'])
        fields_o += len(R['opaque'])
    stats.update(fallbacks=len(fallbacks), fallback_functions=fallbacks, fields_with_obligation=fields_t,
                 parser_outputs_not_translated=fields_o,
                 items_translated=sum(1 for R in results if R['setter_ok']) + sum(1 for R in results if R['parser_ok']))
    skipped = emit_glue(results, os.path.join(VERIF, 'build', 'gen', 'layout_glue.h'), worlds)
    stats['harness_glue_skipped'] = ['%s: %s' % (i, '; '.join(p)) for i, p in skipped]
    stats['alias_wrappers_not_pure_forwarders'] = sorted({x.split(' ')[0] for x in stats.get('alias_wrappers_not_pure_forwarders', [])})
    stats['alias_wrappers_pure'] = len(stats.get('alias_wrappers_pure', []))
    return stats


if __name__ == '__main__':
    sys.path.insert(0, os.path.join(VERIF, 'tools'))
    src = sys.argv[1] if len(sys.argv) > 1 else '/repo/src'
    st = run(src, os.path.join(VERIF, 'lean', 'N2k', 'Gen'))
    print(json.dumps(st, indent=1))
