#!/usr/bin/env python3
"""Print the per-property status table for DESIGN.md section 0 (from the registry, the Props files and the findings files)."""
import os, sys, re, json, glob
VERIF = os.path.dirname(os.path.dirname(os.path.abspath(__file__)))
sys.path.insert(0, os.path.join(VERIF, 'tools'))
import registry, check
fixed, openf = {}, {}
for p in [os.path.join(VERIF, 'known_findings.json')] + glob.glob(os.path.join(VERIF, 'known_findings.d', '*.json')):
    for e in json.load(open(p)).get('findings', []):
        (fixed if e.get('status') == 'fixed' else openf).setdefault(e['property'], []).append(e['key'])
print('| id | model / engine | theorems (partial ones named) | tie | fixed / open findings |')
print('|---|---|---|---|---|')
for pid in sorted(registry.PROPS):
    sp = registry.PROPS[pid]
    names = []
    for pf in sp['props_files']:
        names += check.theorems_in(pf)[1]
    part = [n for n in names if 'partial' in n]
    gen = ' + generated per-field obligations' if 'layouts' in sp.get('translators', []) or 'published' in sp.get('translators', []) else ''
    tie = ('translator ' + '+'.join(sp.get('translators', [])) + '; ' if sp.get('translators') else '') + \
          ('fuzz under sanitizers (no model run)' if sp.get('no_model') else 'correspondence `%s`' % sp['harness']) + \
          (' (64- and 32-bit timer builds)' if len(sp.get('variants', [''])) > 1 else '')
    print('| %s | `%s` | %d%s%s | %s | %d / %s |' % (pid, sp['engine'], len(names), gen,
          (' — partial: ' + ', '.join('`%s`' % n for n in part)) if part else '', tie,
          len(fixed.get(pid, [])), ', '.join('`%s`' % k for k in openf.get(pid, [])) or '0'))
