import N2k.Model.DeviceList
import Driver.Util
-- engine: devlist
/-! Engine `devlist` (C18): runs `N2k.DeviceList.handleMsg` and the find functions / getters of the model.

After every operation the two maps of the state are re-tabulated (`compact`): `sources` on 0..253 and `heap` on
`0..nextId-1` are copied into arrays and read back. This is the identity on every index the model ever looks at
and only keeps the chains of function updates short. -/
namespace Driver.DeviceList
open N2k.DeviceList Driver

structure St where
  s : State
  now : Nat
  canSend : Bool
  fault : Option String

/-- what uninitialised memory contains in the harness build (ASan fills fresh heap blocks with 0xbe) -/
def junkByte : Nat := 0xbe

def St.env (st : St) : Env := ⟨st.now, st.canSend, fun _ => junkByte⟩

def compact (s : State) : State :=
  let src := Array.ofFn (n := 254) fun i => s.sources i.val
  let hp := Array.ofFn (n := s.nextId) fun i => s.heap i.val
  { s with sources := fun i => src.getD i none, heap := fun i => hp.getD i none }

def faultStr : Fault → String
  | .useAfterFree _ => "FAULT use-after-free"
  | .doubleFree _ => "FAULT double-free"
  | .nullDeref => "FAULT null-deref"
  | .heapOverflow _ _ => "FAULT heap-overflow"
  | .parser _ => "FAULT parser"

def hex16 (n : Nat) : String :=
  String.ofList ((List.range 16).reverse.map fun k => hexNib ((n / 16 ^ k) % 16))

def beValue (l : List Nat) : Nat := l.foldl (fun a b => a * 256 + b) 0

def leBytes (n : Nat) (k : Nat) : List Nat := (List.range k).map fun i => (n / 256 ^ i) % 256

def strOut : Except Fault (Option (List Nat)) → String
  | .ok none => "null"
  | .ok (some l) => hexOfBytes l
  | .error f => faultStr f

def listOut : Except Fault (Option (List Nat)) → String
  | .ok none => "null"
  | .ok (some []) => "-"
  | .ok (some l) => ",".intercalate (l.map toString)
  | .error f => faultStr f

def dump (d : Device) : String :=
  s!"s={d.source} n={hex16 d.name} mc={manufacturerCode d.name} un={uniqueNumber d.name} ct={d.createTime} " ++
  s!"pl={boolStr d.prodLoaded} v={d.prod.n2kVersion} " ++
  s!"c={d.prod.productCode} id={hexOfBytes d.prod.modelID} sw={hexOfBytes d.prod.swCode} " ++
  s!"mv={hexOfBytes d.prod.modelVersion} sn={hexOfBytes d.prod.serialCode} cl={d.prod.certLevel} " ++
  s!"le={d.prod.loadEq} cf={boolStr d.confLoaded} man={strOut d.getManufacturerInformation} " ++
  s!"i1={strOut d.getInstallationDescription1} i2={strOut d.getInstallationDescription2} " ++
  s!"tx={listOut (getPGNs d.tx)} rx={listOut (getPGNs d.rx)}"

def dumpId (s : State) : Option Id → String
  | none => "-"
  | some id => match s.deref id with
    | .ok d => dump d
    | .error f => faultStr f

def reqStr (l : List (Nat × Nat)) : String :=
  if l.isEmpty then "-" else ",".intercalate (l.map fun p => s!"{p.1}:{p.2}")

def doMsg (st : St) (m : Msg) : St × String :=
  match handleMsg st.env { st.s with out := [] } m with
  | .error f => ({ st with fault := some (faultStr f) }, faultStr f)
  | .ok s1 =>
    let s2 := compact s1
    ({ st with s := s2 },
     s!"n={count s2} p={boolStr s2.hasPending} u={boolStr s2.listUpdated} req={reqStr s2.out}")

def findOut (s : State) : Except Fault (Option Id) → String
  | .ok r => dumpId s r
  | .error f => faultStr f

def step (st : St) (w : List String) : St × String :=
  match w with
  | ["reset", c, t] => match nat? c, nat? t with
    | some c, some t => (⟨State.init, t, c != 0, none⟩, "ok")
    | _, _ => (st, "bad-op")
  | _ =>
  match st.fault with
  | some f => (st, f)
  | none =>
  match w with
  | ["t", ms] => match nat? ms with
    | some ms => ({ st with now := st.now + ms }, "ok")
    | none => (st, "bad-op")
  | ["msg", pgn, src, hx] => match nat? pgn, nat? src, hexBytes? hx with
    | some pgn, some src, some data => doMsg st ⟨pgn, src, data⟩
    | _, _, _ => (st, "bad-op")
  | ["claim", src, name] => match nat? src, hexBytes? name with
    | some src, some nb => doMsg st ⟨pgnClaim, src, leBytes (beValue nb) 8⟩
    | _, _ => (st, "bad-op")
  | ["data", src, pgn] => match nat? src, nat? pgn with
    | some src, some pgn => doMsg st ⟨pgn, src, []⟩
    | _, _ => (st, "bad-op")
  | ["bysrc", a] => match nat? a with
    | some a => (st, dumpId st.s (findBySource st.s a))
    | none => (st, "bad-op")
  | ["byname", name] => match hexBytes? name with
    | some nb => (st, findOut st.s (findByName st.s (beValue nb)))
    | none => (st, "bad-op")
  | ["byids", m, u] => match nat? m, nat? u with
    | some m, some u => (st, findOut st.s (findByIDs st.s m u))
    | _, _ => (st, "bad-op")
  | ["byprod", m, p, a] => match nat? m, nat? p, nat? a with
    | some m, some p, some a => (st, findOut st.s (findByProduct st.s m p a))
    | _, _, _ => (st, "bad-op")
  | ["last", a] => match nat? a with
    | some a => match findBySource st.s a with
      | none => (st, "0")
      | some id => match st.s.deref id with
        | .ok d => (st, toString d.lastMessageTime)
        | .error f => (st, faultStr f)
    | none => (st, "bad-op")
  | ["count"] => (st, toString (count st.s))
  | ["upd"] =>
    let r := readResetIsListUpdated st.s
    ({ st with s := r.1 }, boolStr r.2)
  | _ => (st, "bad-op")

def main : IO Unit := loop step ⟨State.init, 0, true, none⟩

end Driver.DeviceList
