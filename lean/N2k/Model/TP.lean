import N2k.Model.Send
/-!
# ISO 11783-3 / J1939-21 transport protocol of `tNMEA2000` (`src/NMEA2000.cpp`), both roles

Transcription map (the tree with the four `fix:` commits of known_findings.d/C10.json, C07_tp.json)
* `StartSendTPMessage` / `EndSendTPMessage` / `SendPendingTPMessage`  → `startSendTP` / `endSendTP` / `pendingTP`
* `SendTPCM_BAM` `SendTPCM_RTS` `SendTPCM_CTS` `SendTPCM_EndAck` `SendTPCM_Abort` → `sendBAM` `sendRTS` `sendCTS` `sendEndAck` `sendAbort`
* `SendTPDT` / `HasAllTPDTSent` / `TPCtsPackets`                       → `sendTPDT` / `hasAllSent` / `tpCtsPackets`
* `TestHandleTPMessage`                                               → `handleCM` (`handleStart`, `handleCTS`) and `handleData`
* `FindFreeCANMsgIndex` / `CopyBufToCANMsg` / `tN2kCANMsg::FreeMessage` → `findFree` / `copyBuf` / `freeMessage`
* `SetN2kCANBufMsg` + the loop body of `ParseMessages`                → `rxFrame` (non-TP frames: `handleOther`)
* `ParseMessages` (open node, heartbeat disabled)                     → `poll`
* `SendMsg` with the ISO-TP branch                                    → `sendMsgTP` (wraps `Send.gate` / `Send.produce`)
* `CheckKnownMessage` (no application-declared lists)                 → `checkKnown`
* `UpdateHasPendingInformation` / `SendProductInformation` / `SendConfigurationInformation` / the per-device body of
  `SendPendingInformation` → `updateHasPending` / `sendProductInformation` / `sendConfigurationInformation` / `pendingDev`
  (the content of the two messages is a parameter of the node: `prod`, `conf`)
* `HandleReceivedSystemMessage` (ISO request only) / `HandleISORequest` / `RespondISORequest` → `systemMessage` /
  `handleIsoRequest` / `respondIsoRequest` (requests for 60928, 126996, 126998, NAK for the rest; no `ISORqstHandler`;
  a request for the PGN lists 126464 is NOT modelled)

Every frame leaves through `Send.sendMsg` (`emit`). `unsigned char` arithmetic is `% 256`.
The receive buffer handed to the library is 8 bytes whatever the frame length says (`buf8`).
Not modelled: the library's own handling of received 60928 / 65240 / 126208 and of anything that arrives by the transport
protocol (transported PGNs are not 59392/59904/60928/65240/126208), `PendingIsoAddressClaim`, application-declared PGN lists,
message forwarding.
-/
namespace N2k.TP
open N2k.Send N2k.Time

/-! ## state -/

/-- per device: `PendingTPMsg`, `NextDTSequence`, `NextDTSendTime`, `HasPendingInformation` -/
structure TpDev where
  pend : Msg
  nextSeq : Nat
  timer : Sched
  hasPending : Bool

/-- one `tN2kCANMsg` receive slot (fields the transport protocol and the reassembly use) -/
structure Slot where
  free : Bool := true
  tp : Bool := false
  pgn : Nat := 0
  src : Nat := 0
  dst : Nat := 255
  prio : Nat := 6
  msgTime : Nat := 0
  dataLen : Nat := 0
  data : List Nat := []        -- the `CopiedLen` bytes copied so far
  lastFrame : Nat := 0
  reqCTS : Nat := 0            -- TPRequireCTS
  maxPackets : Nat := 0        -- TPMaxPackets
  deriving Repr

/-- a call of the application's message handler -/
structure Delivery where
  pgn : Nat
  src : Nat
  dst : Nat
  prio : Nat
  len : Nat
  tp : Bool
  data : List Nat
  deriving DecidableEq, Repr

/-- the other pending-information timers of a device: `PendingProductInformation`, `PendingConfigurationInformation`
(`none` = `Disable()`d; `PendingIsoAddressClaim` is never armed in the modelled scenarios) -/
structure InfoDev where
  pendProd : Option Sched := none
  pendConf : Option Sched := none

def noMsg : Msg := { prio := 6, pgn := 0, src := 15, dst := 255, len := 0, data := [] }

structure Node where
  s : St
  tp : Nat → TpDev
  slots : List Slot
  onlyKnown : Bool             -- HandleOnlyKnownMessages()
  rxq : List Frame             -- frames waiting in the CAN driver
  out : List Delivery          -- handler calls so far
  info : Nat → InfoDev := fun _ => {}
  prod : Msg := noMsg          -- the product information message (PGN 126996) the node answers with
  conf : Option Msg := none    -- the configuration information message (PGN 126998), if any was set
  bamGap : Nat := 50           -- interval the BAM data-packet timer is re-armed with (the statement only says: at least 50 ms)

def TpDev.init (f : Flavor) : TpDev := { pend := noMsg, nextSeq := 0, timer := Sched.disabled f, hasPending := false }

def Node.setTp (n : Node) (i : Nat) (t : TpDev) : Node := { n with tp := fun j => if j = i then t else n.tp j }
def Node.setInfo (n : Node) (i : Nat) (x : InfoDev) : Node := { n with info := fun j => if j = i then x else n.info j }
def Node.setSlot (n : Node) (j : Nat) (a : Slot) : Node := { n with slots := n.slots.set j a }

/-- `FreeMessage()`: `Clear()` resets PGN, DataLen, MsgTime; destination, TP flag, LastFrame, CopiedLen stay -/
def freeMessage (a : Slot) : Slot :=
  { a with free := true, maxPackets := 0, reqCTS := 0, pgn := 0, dataLen := 0, msgTime := 0, src := 0 }

/-! ## frames of the protocol -/

def TP_CM : Nat := 60416
def TP_DT : Nat := 60160

def le3 (v : Nat) : List Nat := [v % 256, (v / 256) % 256, (v / 65536) % 256]

/-- `nBytes/7+(nBytes%7!=0?1:0)` -/
def packetCount (len : Nat) : Nat := len / 7 + (if len % 7 ≠ 0 then 1 else 0)

def cmMsg (src dst : Nat) (bytes : List Nat) : Msg :=
  { prio := 6, pgn := TP_CM, src := src, dst := dst, len := 8, data := bytes }

def announceBytes (ctrl : Nat) (m : Msg) : List Nat :=
  [ctrl, m.len % 256, (m.len / 256) % 256, packetCount m.len % 256, 0xff] ++ le3 m.pgn

def tpCtsPackets (n : Nat) : Nat := max 1 (min n 5)

def ctsBytes (pgn nPackets next : Nat) : List Nat := [17, tpCtsPackets nPackets, next % 256, 0xff, 0xff] ++ le3 pgn
def endAckBytes (pgn nBytes nPackets : Nat) : List Nat := [19, nBytes % 256, (nBytes / 256) % 256, nPackets % 256, 0xff] ++ le3 pgn
def abortBytes (pgn code : Nat) : List Nat := [255, code, 0xff, 0xff, 0xff] ++ le3 pgn

/-- payload of the data packet with 0-based index `seq` -/
def dtBytes (m : Msg) (seq : Nat) : List Nat :=
  [(seq + 1) % 256] ++ (List.range 7).map fun j => payloadByte m (seq * 7 + j)

def dtMsg (src : Nat) (m : Msg) (seq : Nat) : Msg :=
  { prio := 6, pgn := TP_DT, src := src, dst := m.dst, len := 8, data := dtBytes m seq }

/-! ## sending side -/

def srcAddr (n : Node) (i : Nat) : Nat := ((n.s.devs[i]?).map (·.source)).getD 0

/-- `SendMsg(N2kMsg, iDev)` for a protocol frame -/
def emit (n : Node) (m : Msg) (i : Nat) : Node × Bool :=
  let r := sendMsg n.s m (some i)
  ({ n with s := r.1 }, r.2)

/-- `EndSendTPMessage`: `Clear()`, `Disable()`, `UpdateHasPendingInformation()` -/
def endSendTP (n : Node) (i : Nat) : Node :=
  let t := n.tp i
  n.setTp i { t with pend := { t.pend with pgn := 0, len := 0 }, timer := Sched.disabled n.s.flavor,
                     hasPending := (n.info i).pendProd.isSome || (n.info i).pendConf.isSome }

def setTimer (n : Node) (i : Nat) (ms : Nat) : Node :=
  n.setTp i { n.tp i with timer := Sched.fromNow n.s.flavor n.s.now ms }

def sendBAM (n : Node) (i : Nat) : Node × Bool :=
  if ¬ n.s.claimMode then (n, false) else emit n (cmMsg (srcAddr n i) 0xff (announceBytes 32 (n.tp i).pend)) i

def sendRTS (n : Node) (i : Nat) : Node × Bool :=
  if ¬ n.s.claimMode then (n, false) else emit n (cmMsg (srcAddr n i) (n.tp i).pend.dst (announceBytes 16 (n.tp i).pend)) i

def sendCTS (n : Node) (pgn dest i nPackets next : Nat) : Node :=
  if ¬ n.s.claimMode then n else (emit n (cmMsg (srcAddr n i) dest (ctsBytes pgn nPackets next)) i).1

def sendEndAck (n : Node) (pgn dest i nBytes nPackets : Nat) : Node :=
  if ¬ n.s.claimMode then n else (emit n (cmMsg (srcAddr n i) dest (endAckBytes pgn nBytes nPackets)) i).1

def sendAbort (n : Node) (pgn dest i code : Nat) : Node :=
  if ¬ n.s.claimMode then n else (emit n (cmMsg (srcAddr n i) dest (abortBytes pgn code)) i).1

/-- `SendTPDT`: the sequence number advances whether or not the frame could be sent -/
def sendTPDT (n : Node) (i : Nat) : Node × Bool :=
  let t := n.tp i
  emit (n.setTp i { t with nextSeq := (t.nextSeq + 1) % 256 }) (dtMsg (srcAddr n i) t.pend t.nextSeq) i

def hasAllSent (n : Node) (i : Nat) : Bool := decide ((n.tp i).nextSeq * 7 ≥ (n.tp i).pend.len)

/-- `StartSendTPMessage(msg, iDev)` -/
def startSendTP (n : Node) (m : Msg) (i : Nat) : Node × Bool :=
  if i ≥ n.s.devs.length then (n, false) else
  if (n.tp i).pend.pgn ≠ 0 then (n, false) else
  let n1 := n.setTp i { pend := m, nextSeq := 0, timer := Sched.fromNow n.s.flavor n.s.now 50, hasPending := true }
  let r := if m.dst = 0xff then sendBAM n1 i else sendRTS n1 i
  if r.2 then (r.1, true) else (endSendTP r.1 i, false)

/-- `SendPendingTPMessage(iDev)` -/
def pendingTP (n : Node) (i : Nat) : Node :=
  let t := n.tp i
  if t.pend.pgn ≠ 0 ∧ t.timer.isTime n.s.flavor n.s.now then
    if t.pend.dst = 0xff then
      let n1 := (sendTPDT n i).1
      let n2 := setTimer n1 i n.bamGap
      if hasAllSent n2 i then endSendTP n2 i else n2
    else endSendTP n i
  else n

/-- the loop `for (iSeq=0; TPDTResult && iSeq<MaxTPSequences && !HasAllTPDTSent(iDev); iSeq++)` -/
def ctsLoop : Nat → Node → Nat → Node × Bool
  | 0, n, _ => (n, true)
  | k+1, n, i =>
    if hasAllSent n i then (n, true) else
    let r := sendTPDT n i
    if r.2 then ctsLoop k r.1 i else (r.1, false)

/-- `case TP_CM_CTS` for a valid device `i`; `b1` packets from packet number `b2` -/
def handleCTS (n : Node) (i src tpgn b1 b2 : Nat) : Node :=
  let t := n.tp i
  if t.pend.dst = 0xff then n
  else if t.pend.pgn ≠ tpgn ∨ t.pend.dst ≠ src then n         -- not of the transfer in progress
  else if b1 > 0 then
    if b2 ≠ t.nextSeq + 1 then endSendTP n i                      -- `buf[2]-1 != NextDTSequence`
    else
      let r := ctsLoop b1 n i
      let n2 := if r.2 then r.1 else endSendTP r.1 i
      setTimer n2 i 100
  else setTimer n i 100

/-- `case TP_CM_ACK` / `case TP_CM_Abort` -/
def handleEnd (n : Node) (i src tpgn : Nat) : Node :=
  let t := n.tp i
  if t.pend.dst = 0xff then n
  else if t.pend.pgn ≠ tpgn ∨ t.pend.dst ≠ src then n
  else endSendTP n i

/-! ## receive slots -/

def findIdx {α : Type} (p : α → Bool) : List α → Option Nat
  | [] => none
  | a :: t => if p a then some 0 else (findIdx p t).map (· + 1)

/-- `FindSourceDeviceIndex` -/
def findDev (devs : List Dev) (a : Nat) : Option Nat :=
  if a ≤ 253 then findIdx (fun d => d.source == a) devs else none

/-- the search loop of `FindFreeCANMsgIndex`: (index found, oldest index, oldest time) -/
def scanFree (hit : Slot → Bool) : List Slot → Nat → Option Nat → Nat → Option Nat × Option Nat × Nat
  | [], _, oi, ot => (none, oi, ot)
  | a :: t, i, oi, ot =>
    if hit a then (some i, oi, ot)
    else if isTimeBefore a.msgTime ot then scanFree hit t (i + 1) (some i) a.msgTime
    else scanFree hit t (i + 1) oi ot

def slotHit (pgn src dst : Nat) (tp : Bool) (a : Slot) : Bool :=
  a.free || (a.pgn == pgn && a.src == src && a.dst == dst && a.tp == tp)

def modifyAt (l : List Slot) (j : Nat) (f : Slot → Slot) : List Slot :=
  match l[j]? with
  | some a => l.set j (f a)
  | none => l

/-- `FindFreeCANMsgIndex`: slots afterwards (the recycled one is freed) and the index -/
def findFree (slots : List Slot) (now32 pgn src dst : Nat) (tp : Bool) : List Slot × Option Nat :=
  let r := scanFree (slotHit pgn src dst tp) slots 0 none now32
  match r.1 with
  | some i => (slots, some i)
  | none =>
    match r.2.1 with
    | some oi => if hasElapsed r.2.2 100 now32 then (modifyAt slots oi freeMessage, some oi) else (slots, none)
    | none => (slots, none)

/-- `CopyBufToCANMsg(msg, start, len, buf)` -/
def copyBuf (data : List Nat) (start len : Nat) (buf : List Nat) : List Nat :=
  data ++ (((buf.take len).drop start).take (223 - data.length))

/-- `CheckKnownMessage` without application lists: (known, fast packet) -/
def checkKnown (pgn : Nat) : Bool × Bool :=
  if pgn = 0 then (false, false)
  else if Gen.isDefaultSingleFrameMessage.contains pgn then (true, false)
  else if Gen.isMandatoryFastPacketMessage.contains pgn then (true, true)
  else if Gen.isDefaultFastPacketMessage.contains pgn then (true, true)
  else if Gen.isSingleFrameSystemMessage.contains pgn then (true, false)
  else if Gen.isFastPacketSystemMessage.contains pgn then (true, true)
  else (false, Gen.isProprietaryFastPacketMessage pgn)

def sessOf (src dst : Nat) (a : Slot) : Bool := !a.free && a.tp && a.dst == dst && a.src == src

/-- an unfinished transfer of the pair `src → dst` is dropped -/
def freeSess (src dst : Nat) (a : Slot) : Slot := if sessOf src dst a then freeMessage a else a

/-- the slot as `case TP_CM_RTS` initialises it (`TPRequireCTS` is left as it was) -/
def startSlot (old : Slot) (tpgn src dst now32 nBytes maxPk : Nat) : Slot :=
  { old with free := false, tp := true, pgn := tpgn, src := src, dst := dst, prio := 7, msgTime := now32,
             dataLen := nBytes, data := [], lastFrame := 0, maxPackets := maxPk }

/-- `case TP_CM_BAM / TP_CM_RTS` -/
def handleStart (n : Node) (src dst : Nat) (isRts : Bool) (iDev : Option Nat) (tpgn nBytes maxPk : Nat) : Node :=
  let slots1 := n.slots.map (freeSess src dst)              -- a new announce replaces the old transfer of this pair
  let ff := findFree slots1 (millis32 n.s.now) tpgn src dst true
  let n1 := { n with slots := ff.1 }
  let respond := isRts && iDev.isSome
  let i := iDev.getD 0
  match ff.2 with
  | none => if respond then sendAbort n1 tpgn src i 1 else n1
  | some j =>
    if nBytes ≤ 223 ∧ ((checkKnown tpgn).1 ∨ ¬ n.onlyKnown) then
      let a : Slot := startSlot ((n1.slots[j]?).getD {}) tpgn src dst (millis32 n.s.now) nBytes maxPk
      if respond then
        let n2 := sendCTS (n1.setSlot j a) tpgn src i maxPk 1
        n2.setSlot j { a with reqCTS := tpCtsPackets maxPk }
      else n1.setSlot j { a with maxPackets := 0xff }
    else if respond then sendAbort n1 tpgn src i 1 else n1

/-- `PGN==TP_CM` branch of `TestHandleTPMessage` -/
def handleCM (n : Node) (src dst : Nat) (buf : List Nat) : Node :=
  let iDev := findDev n.s.devs dst
  let ctrl := buf.getD 0 0
  let tpgn := buf.getD 5 0 + buf.getD 6 0 * 256 + buf.getD 7 0 * 65536
  if ctrl = 32 ∨ ctrl = 16 then
    handleStart n src dst (ctrl == 16) iDev tpgn (buf.getD 1 0 + buf.getD 2 0 * 256) (buf.getD 3 0)
  else match iDev with
    | none => n
    | some i =>
      if ctrl = 17 then handleCTS n i src tpgn (buf.getD 1 0) (buf.getD 2 0)
      else if ctrl = 19 ∨ ctrl = 255 then handleEnd n i src tpgn
      else n

/-- `PGN==TP_DT` branch: the node afterwards and the index of a completed message -/
def handleData (n : Node) (src dst len : Nat) (buf : List Nat) : Node × Option Nat :=
  let iDev := findDev n.s.devs dst
  let i := iDev.getD 0
  let b0 := buf.getD 0 0
  match findIdx (sessOf src dst) n.slots with
  | none => (n, none)
  | some j =>
    match n.slots[j]? with
    | none => (n, none)
    | some a =>
      if a.lastFrame + 1 = b0 then
        let a1 := { a with data := copyBuf a.data 1 len buf, lastFrame := b0, msgTime := millis32 n.s.now }
        let n1 := n.setSlot j a1
        if a1.data.length ≥ a.dataLen then
          (if a.reqCTS > 0 ∧ iDev.isSome then sendEndAck n1 a.pgn src i a.dataLen b0 else n1, some j)
        else
          (if a.reqCTS > 0 ∧ iDev.isSome ∧ b0 % a.reqCTS = 0 then sendCTS n1 a.pgn src i a.maxPackets (b0 + 1) else n1, none)
      else
        let n1 := if a.reqCTS > 0 ∧ iDev.isSome then sendAbort n a.pgn src i 3 else n
        (n1.setSlot j (freeMessage a), none)

/-- the slot as the first (or only) frame of a message that does not come by the transport protocol initialises it
(`TPRequireCTS` / `TPMaxPackets` are left as they were) -/
def firstSlot (old : Option Slot) (fast : Bool) (prio pgn src dst now32 len : Nat) (buf : List Nat) : Slot :=
  { free := false, tp := false, pgn := pgn, src := src, dst := dst, prio := prio &&& 7, msgTime := now32,
    dataLen := if fast then buf.getD 1 0 else len,
    data := if fast then copyBuf [] 2 len buf else copyBuf [] 0 len buf,
    lastFrame := if fast then buf.getD 0 0 else 0,
    reqCTS := (old.map (·.reqCTS)).getD 0, maxPackets := (old.map (·.maxPackets)).getD 0 }

/-- the rest of `SetN2kCANBufMsg`: single frames and fast packets (C02's subject; here for the slot interplay) -/
def handleOther (n : Node) (prio pgn src dst len : Nat) (buf : List Nat) : Node × Option Nat :=
  let ck := checkKnown pgn
  if ¬ (ck.1 ∨ ¬ n.onlyKnown) then (n, none) else
  let b0 := buf.getD 0 0
  if ck.2 ∧ b0 &&& 0x1f ≠ 0 then
    match findIdx (fun a => a.pgn == pgn && a.src == src && !a.tp) n.slots with
    | none => (n, none)
    | some j =>
      match n.slots[j]? with
      | none => (n, none)
      | some a =>
        if a.lastFrame + 1 = b0 then
          let a1 := { a with lastFrame := b0, data := copyBuf a.data 1 len buf }
          (n.setSlot j a1, if a1.data.length ≥ a1.dataLen then some j else none)
        else (n.setSlot j (freeMessage a), none)
  else
    let ff := findFree n.slots (millis32 n.s.now) pgn src dst false
    let n1 := { n with slots := ff.1 }
    match ff.2 with
    | none => (n1, none)
    | some j =>
      let a := firstSlot (n1.slots[j]?) ck.2 prio pgn src dst (millis32 n.s.now) len buf
      (n1.setSlot j a, if a.data.length ≥ a.dataLen then some j else none)

def buf8 (f : Frame) : List Nat := (f.data ++ List.replicate 8 0xAA).take 8

/-! ## the other pending information of a device (product / configuration information answers and their retries) -/

/-- `UpdateHasPendingInformation()` -/
def updateHasPending (n : Node) (i : Nat) : Node :=
  n.setTp i { n.tp i with hasPending := (n.info i).pendProd.isSome || (n.info i).pendConf.isSome ||
                                          (n.tp i).timer.isEnabled n.s.flavor }

/-- `SendProductInformation(iDev)`: fast packet to everybody; sent ⇒ `ClearPendingProductInformation()`, else
`SetPendingProductInformation()` (retry after 187 + 8·address ms) -/
def sendProductInformation (n : Node) (i : Nat) : Node :=
  let r := emit n { n.prod with src := srcAddr n i, dst := 0xff, tp := false } i
  if r.2 then updateHasPending (r.1.setInfo i { r.1.info i with pendProd := none }) i
  else (r.1.setInfo i { r.1.info i with pendProd := some (Sched.fromNow n.s.flavor n.s.now (187 + srcAddr n i * 8)) }).setTp i
         { r.1.tp i with hasPending := true }

/-- `SendConfigurationInformation(iDev)` when configuration information was set -/
def sendConfigurationInformation (n : Node) (i : Nat) (c : Msg) : Node :=
  let r := emit n { c with src := srcAddr n i, dst := 0xff, tp := false } i
  if r.2 then updateHasPending (r.1.setInfo i { r.1.info i with pendConf := none }) i
  else (r.1.setInfo i { r.1.info i with pendConf := some (Sched.fromNow n.s.flavor n.s.now (187 + srcAddr n i * 10)) }).setTp i
         { r.1.tp i with hasPending := true }

/-- `QueryPending…()` = `IsTime()` of the timer (a disabled timer is never due: its value is the largest one) -/
def due (n : Node) (o : Option Sched) : Bool :=
  match o with
  | none => false
  | some t => t.isTime n.s.flavor n.s.now

/-- the body of the loop of `SendPendingInformation` for a device with `HasPendingInformation` -/
def pendingDev (n : Node) (i : Nat) : Node :=
  let n1 := pendingTP n i
  let n2 := if due n1 (n1.info i).pendProd then sendProductInformation n1 i else n1
  match n2.conf with
  | some c => if due n2 (n2.info i).pendConf then sendConfigurationInformation n2 i c else n2
  | none => n2

/-- the answer of device `i` to an ISO request (`RespondISORequest`; no `ISORqstHandler`; PGN 126464 is not modelled) -/
def respondIsoRequest (n : Node) (addressed : Bool) (requester rp i : Nat) : Node :=
  match n.s.devs[i]? with
  | none => n
  | some d =>
    let ic := isAddressClaimStarted n.s.flavor n.s.now d
    let n1 := { n with s := { n.s with devs := updDev n.s.devs i ic.1 } }
    if ic.2 then n1
    else if rp = 60928 then (emit n1 (claimMsg ic.1) i).1
    else if rp = 126464 then n1
    else if rp = 126996 then sendProductInformation n1 i
    else if rp = 126998 ∧ n1.conf.isSome then
      match n1.conf with
      | some c => sendConfigurationInformation n1 i c
      | none => n1
    else if addressed then
      (emit n1 { prio := 6, pgn := 59392, src := srcAddr n1 i, dst := requester, len := 8,
                 data := [1, 0xff, 0xff, 0xff, 0xff] ++ le3 rp } i).1
    else n1

/-- `HandleISORequest` for a received PGN 59904 -/
def handleIsoRequest (n : Node) (d : Delivery) : Node :=
  let iDev := findDev n.s.devs d.dst
  if d.dst ≠ 0xff ∧ iDev.isNone then n else
  let rp := if 3 ≤ d.len ∧ d.len ≤ 8 then d.data.getD 0 0 + d.data.getD 1 0 * 256 + d.data.getD 2 0 * 65536 else 0
  if d.dst = 0xff then (List.range n.s.devs.length).foldl (fun n i => respondIsoRequest n false d.src rp i) n
  else respondIsoRequest n true d.src rp (iDev.getD 0)

def deliveryOf (a : Slot) : Delivery :=
  { pgn := a.pgn, src := a.src, dst := a.dst, prio := a.prio, len := a.dataLen, tp := a.tp, data := a.data.take a.dataLen }

/-- `HandleReceivedSystemMessage`: of the messages the library consumes itself only the ISO request (single frame) is
modelled; it is acted on by a node in a claimant mode -/
def systemMessage (n : Node) (a : Slot) : Node :=
  if !a.tp && a.pgn == 59904 && n.s.claimMode then handleIsoRequest n (deliveryOf a) else n

/-- library's own handling, handler call for slot `j`, then `FreeMessage()` -/
def deliver (n : Node) (j : Nat) : Node :=
  match n.slots[j]? with
  | none => n
  | some a =>
    let n1 := systemMessage n a
    { n1 with out := n1.out ++ [deliveryOf a], slots := n1.slots.set j (freeMessage a) }

/-- `if (MsgIndex<MaxN2kCANMsgs) { handlers; FreeMessage }` -/
def finish (r : Node × Option Nat) : Node :=
  match r.2 with
  | none => r.1
  | some j => deliver r.1 j

/-- one received frame: `SetN2kCANBufMsg` and the handling of a completed message -/
def rxFrame (n : Node) (f : Frame) : Node :=
  let h := canIdToN2k f.id
  let buf := buf8 f
  finish (if h.2.1 = TP_CM then (handleCM n h.2.2.1 h.2.2.2 buf, none)
          else if h.2.1 = TP_DT then handleData n h.2.2.1 h.2.2.2 f.len buf
          else handleOther n h.1 h.2.1 h.2.2.1 h.2.2.2 f.len buf)

/-- the frames one `ParseMessages` reads: at most 20, in order (handling a frame never touches the driver's queue) -/
def rxList (fs : List Frame) (n : Node) : Node := fs.foldl rxFrame n

/-- `SendPendingInformation` -/
def pendingAll (n : Node) : Node :=
  (List.range n.s.devs.length).foldl (fun n i => if (n.tp i).hasPending then pendingDev n i else n) n

/-- `SendFrames()` at the start of `ParseMessages` -/
def flush (n : Node) : Node :=
  let fl := sendFrames n.s.ring n.s.drv
  { n with s := { n.s with ring := fl.1, drv := fl.2.1 } }

/-- `SendHeartbeat()` with the heartbeat disabled: only `IsAddressClaimStarted` is evaluated for every device -/
def claimTick (n : Node) : Node :=
  { n with s := { n.s with devs := if n.s.claimMode then n.s.devs.map (fun d => (isAddressClaimStarted n.s.flavor n.s.now d).1)
                                   else n.s.devs } }

/-- `ParseMessages()` on an open node with the heartbeat disabled: at most 20 frames are read -/
def poll (n : Node) : Node :=
  claimTick { (rxList (n.rxq.take 20) (pendingAll (flush n))) with rxq := n.rxq.drop 20 }

/-- `SendMsg(N2kMsg, DeviceIndex)` including the ISO-TP branch -/
def sendMsgTP (n : Node) (m : Msg) (dev : Option Nat) : Node × Bool :=
  match gate n.s m dev with
  | .refuse s' => ({ n with s := s' }, false)
  | .pass s1 d1 canId =>
    if m.tp ∧ ¬ (m.len ≤ 8 ∧ ¬ (m.prio < 0x80 ∧ isFastPacketPGN s1.lists m.pgn)) then
      startSendTP { n with s := s1 }
        { m with dst := (if m.pgn &&& 0xff ≠ 0 then 0xff else m.dst), src := srcOf dev d1 m } (dev.getD 0)
    else
      let r := produce s1 (dev.getD 0) d1 canId m
      ({ n with s := r.1 }, r.2)

/-- the device moves to address `a` and claims it again (body of `HandleCommandedAddress`) -/
def moveTo (n : Node) (d a : Nat) : Node :=
  match n.s.devs[d]? with
  | none => n
  | some dv =>
    let dv1 := { dv with source := a, endSource := if a > 0 then a - 1 else Gen.maxCanBusAddress }
    { n with s := startAddressClaim { n.s with devs := n.s.devs.set d dv1 } d }

end N2k.TP
