/-! Prototype: abstract address-claim bus for arbitrary n nodes; uniqueness at quiescence via the
    "a contested pair always has a claim in flight" invariant. -/
namespace Claim

structure Node where
  name : Nat
  addr : Nat                      -- 0..251 valid, 254 null, 255 = not on the bus yet
  inbox : List (Nat × Nat)        -- pending claims (sender NAME, claimed address), oldest first

structure Sys where
  n : Nat
  node : Nat → Node

def setNode (s : Sys) (i : Nat) (x : Node) : Sys := { s with node := fun j => if j = i then x else s.node j }

/-- atomic broadcast of a claim by node i to every other node's inbox -/
def bcast (s : Sys) (i : Nat) (m : Nat × Nat) : Sys :=
  { s with node := fun j => if j = i then s.node j else { s.node j with inbox := (s.node j).inbox ++ [m] } }

/-- node i takes address a (open/restart, lost arbitration, commanded address) and claims it -/
def move (s : Sys) (i a : Nat) : Sys :=
  bcast (setNode s i { s.node i with addr := a }) i ((s.node i).name, a)

/-- node i processes the oldest pending claim; `next` is the (arbitrary) next-address choice -/
def deliver (next : Node → Nat) (s : Sys) (i : Nat) : Sys :=
  match (s.node i).inbox with
  | [] => s
  | (nm, a) :: rest =>
    let s1 := setNode s i { s.node i with inbox := rest }
    if a = (s.node i).addr ∧ a < 252 then
      if (s.node i).name < nm then bcast s1 i ((s.node i).name, a)          -- keep address, re-claim
      else move s1 i (next (s.node i))                                       -- lose: move on and claim
    else s1

def Inv (s : Sys) : Prop :=
  ∀ i j, i < s.n → j < s.n → i ≠ j → (s.node i).addr = (s.node j).addr → (s.node i).addr < 252 →
    ((s.node i).name, (s.node i).addr) ∈ (s.node j).inbox ∨
    ((s.node j).name, (s.node j).addr) ∈ (s.node i).inbox

theorem unique_at_quiescence (s : Sys) (hI : Inv s) (hq : ∀ i, i < s.n → (s.node i).inbox = [])
    (i j : Nat) (hi : i < s.n) (hj : j < s.n) (hij : i ≠ j) (ha : (s.node i).addr < 252) :
    (s.node i).addr ≠ (s.node j).addr := by
  intro he
  rcases hI i j hi hj hij he ha with h | h
  · rw [hq j hj] at h; cases h
  · rw [hq i hi] at h; cases h

/-- the invariant restricted to pairs that do not involve node i -/
def InvEx (s : Sys) (i : Nat) : Prop :=
  ∀ x y, x < s.n → y < s.n → x ≠ y → x ≠ i → y ≠ i → (s.node x).addr = (s.node y).addr →
    (s.node x).addr < 252 →
    ((s.node x).name, (s.node x).addr) ∈ (s.node y).inbox ∨
    ((s.node y).name, (s.node y).addr) ∈ (s.node x).inbox

theorem Inv.toEx {s : Sys} (hI : Inv s) (i : Nat) : InvEx s i :=
  fun x y hx hy hxy _ _ he ha => hI x y hx hy hxy he ha

theorem InvEx.setNode {s : Sys} {i : Nat} (h : InvEx s i) (x : Node) : InvEx (Claim.setNode s i x) i := by
  intro a b ha hb hab hai hbi he hlt
  simp only [Claim.setNode, hai, hbi, ↓reduceIte] at he hlt ⊢
  exact h a b ha hb hab hai hbi he hlt

/-- if node i (re)broadcasts a claim for its current address, the full invariant holds -/
theorem inv_bcast_self (s : Sys) (i : Nat) (h : InvEx s i) :
    Inv (bcast s i ((s.node i).name, (s.node i).addr)) := by
  intro x y hx hy hxy he ha
  have hx' : x < s.n := hx
  have hy' : y < s.n := hy
  simp only [bcast] at he ha ⊢
  by_cases hxi : x = i
  · subst hxi
    have hyx : y ≠ x := fun h => hxy h.symm
    simp only [hyx, ↓reduceIte] at he ha ⊢
    left; simp
  · by_cases hyi : y = i
    · subst hyi
      simp only [hxi, ↓reduceIte] at he ha ⊢
      right; simp
    · simp only [hxi, hyi, ↓reduceIte] at he ha ⊢
      rcases h x y hx' hy' hxy hxi hyi he ha with h | h
      · left; simp [h]
      · right; simp [h]

theorem inv_move (s : Sys) (i a : Nat) (h : InvEx s i) : Inv (move s i a) := by
  have := inv_bcast_self (setNode s i { s.node i with addr := a }) i (h.setNode _)
  simpa [move, setNode] using this

theorem inv_deliver (next : Node → Nat) (s : Sys) (hI : Inv s) (i : Nat) (hi : i < s.n) :
    Inv (deliver next s i) := by
  unfold deliver
  cases hin : (s.node i).inbox with
  | nil => exact hI
  | cons m rest =>
    obtain ⟨nm, a⟩ := m
    simp only
    have hex : InvEx (setNode s i { s.node i with inbox := rest }) i := (hI.toEx i).setNode _
    by_cases hc : a = (s.node i).addr ∧ a < 252
    · rw [if_pos hc]
      by_cases hlt : (s.node i).name < nm
      · rw [if_pos hlt]
        have := inv_bcast_self _ i hex
        simpa [setNode, hc.1] using this
      · rw [if_neg hlt]
        have := inv_move (setNode s i { s.node i with inbox := rest }) i (next (s.node i)) hex
        simpa [move, setNode] using this
    · rw [if_neg hc]
      -- the removed message was not a claim for node i's current (valid) address, so it was no witness
      intro x y hx hy hxy he ha
      have hx' : x < s.n := hx
      have hy' : y < s.n := hy
      simp only [setNode] at he ha ⊢
      by_cases hxi : x = i
      · subst hxi
        have hyx : y ≠ x := fun h => hxy h.symm
        simp only [hyx, ↓reduceIte] at he ha ⊢
        rcases hI x y hx' hy' hxy he ha with h | h
        · left; exact h
        · rw [hin] at h
          rcases List.mem_cons.mp h with h | h
          · exfalso; apply hc
            have h1 := congrArg Prod.snd h
            simp only at h1
            exact ⟨by rw [← h1, he], by rw [← h1, ← he]; exact ha⟩
          · right; exact h
      · by_cases hyi : y = i
        · subst hyi
          simp only [hxi, ↓reduceIte] at he ha ⊢
          rcases hI x y hx' hy' hxy he ha with h | h
          · rw [hin] at h
            rcases List.mem_cons.mp h with h | h
            · exfalso; apply hc
              have h1 := congrArg Prod.snd h
              simp only at h1
              exact ⟨by rw [← h1]; exact he, by rw [← h1]; exact ha⟩
            · left; exact h
          · right; exact h
        · simp only [hxi, hyi, ↓reduceIte] at he ha ⊢
          exact hI x y hx' hy' hxy he ha

#print axioms inv_deliver
#print axioms unique_at_quiescence
end Claim
