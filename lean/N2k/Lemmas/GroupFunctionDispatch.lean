import N2k.Lemmas.GroupFunctionAck
/-! Function-code dispatch, broadcast rules, chain search: what kind of answer each handler gives (C09). -/
namespace N2k.GF
open N2k.Send

/-- the number of parameter pairs the receiver reads from a group function message -/
def pairsOf (m : Msg) : Nat :=
  match parseFc m with
  | 0 => (reqParams m).2.2
  | 1 => (cmdParams m).2
  | _ => rwPairs m (isProprietary (parsePgn m))

/-- the decision is a positive answer carrying PGN `pgn` -/
def Act.serves : Act → Nat → Prop
  | .serve60928, pgn => pgn = 60928
  | .servePgnList _ tx rx _, pgn => pgn = 126464 ∧ (tx = true ∨ rx = true)
  | .serveProduct _ _, pgn => pgn = 126996
  | .serveConfig _ _, pgn => pgn = 126998
  | .serveHeartbeat _ _, pgn => pgn = 126993
  | _, _ => False

/-- the decision answers a group function with code `fc` from `src` for `pgn` announcing `pairs` pairs: exactly one
Acknowledge echoing PGN and pair count (possibly together with a supported command's effect), or the requested PGN -/
def Act.answers (act : Act) (src pgn pairs fc : Nat) : Prop :=
  (∃ data, act = .ack src data ∧ IsAckFor data pgn pairs)
  ∨ (fc = 0 ∧ act.serves pgn)
  ∨ (fc = 1 ∧ pgn = 60928 ∧ ∃ data lo up si, act = .cmd60928 src data lo up si ∧ IsAckFor data pgn pairs)
  ∨ (fc = 1 ∧ pgn = 126998 ∧ ∃ data ws, act = .cmd126998 src data ws ∧ IsAckFor data pgn pairs)

/-- the Acknowledge payload a decision contains, if any -/
def Act.ackData : Act → Option (List Nat)
  | .ack _ data => some data
  | .cmd60928 _ data _ _ _ => some data
  | .cmd126998 _ data _ => some data
  | _ => none

/-! ## the request loop -/

theorem reqLoop_inv (step : Step) (m : Msg) (bc : Bool) (P : Bool → Nat → Prop)
    (hstep : ∀ idx mf aux, P mf aux → P (step m idx mf aux).mf (step m idx mf aux).aux) :
    ∀ (n i idx : Nat) (mf inv : Bool) (aux : Nat) (ack : List Nat), P mf aux →
      P (reqLoop step m bc n i idx mf inv aux ack).1 (reqLoop step m bc n i idx mf inv aux ack).2.1
  | 0, _, _, _, _, _, _, h => by simpa [reqLoop] using h
  | n + 1, i, idx, mf, inv, aux, ack, h => by
    unfold reqLoop
    by_cases hc : ¬ (mf = true ∨ bc = false)
    · rw [if_pos hc]; exact h
    · rw [if_neg hc]
      by_cases hi : inv = false
      · rw [if_pos hi]; exact reqLoop_inv step m bc P hstep n _ _ _ _ _ _ (hstep idx mf aux h)
      · rw [if_neg hi]; exact reqLoop_inv step m bc P hstep n _ _ _ _ _ _ h

theorem reqRun_shape (step : Step) (pgnH : Nat) (m : Msg) (hdst : m.dst ≠ 255) :
    AckShape (reqRun step pgnH m).2.2 pgnH (reqParams m).2.2 (reqParams m).2.2 := by
  unfold reqRun
  have hbc : (m.dst == 255) = false := by simpa using hdst
  simp only [hbc]
  by_cases hp : (reqParams m).2.2 > 0
  · rw [if_pos hp]
    have := reqLoop_shape step m pgnH (reqParams m).2.2 (reqParams m).2.2 0 11 true false 0xff _ (startAck_shape pgnH 0 (tpErrDefault (reqParams m).1 (reqParams m).2.1) (reqParams m).2.2)
    simpa using this
  · rw [if_neg hp]
    have h0 : (reqParams m).2.2 = 0 := by omega
    have := startAck_shape pgnH 0 (tpErrDefault (reqParams m).1 (reqParams m).2.1) (reqParams m).2.2
    rw [h0] at this ⊢
    exact this

/-! ## what each handler function answers to an addressed message -/

theorem baseRequest_answers (d : Dev) (m : Msg) (hdst : m.dst ≠ 255) :
    (baseRequest d m).answers m.src (parsePgn m) (reqParams m).2.2 0 := by
  unfold baseRequest
  simp only [if_pos hdst]
  exact Or.inl ⟨_, rfl, sendAckData_isAckFor _ _ _ _ _⟩

theorem baseCommand_answers (d : Dev) (m : Msg) : (baseCommand d m).answers m.src (parsePgn m) (cmdParams m).2 1 :=
  Or.inl ⟨_, rfl, sendAckData_isAckFor _ _ _ _ _⟩

theorem baseReadWrite_answers (d : Dev) (m : Msg) (propr : Bool) (fc : Nat) :
    (baseReadWrite d m propr).answers m.src (parsePgn m) (rwPairs m propr) fc :=
  Or.inl ⟨_, rfl, sendAckData_isAckFor _ _ _ _ _⟩

theorem req60928_answers (a : Attr) (m : Msg) (hdst : m.dst ≠ 255) :
    (req60928 a m).answers m.src 60928 (reqParams m).2.2 0 := by
  unfold req60928
  by_cases h : (reqRun (step60928 a) 60928 m).1 = true
  · simp only [h, if_true]; exact Or.inr (Or.inl ⟨rfl, rfl⟩)
  · simp only [h, if_neg hdst]
    exact Or.inl ⟨_, rfl, (reqRun_shape _ _ m hdst).isAckFor⟩

theorem req126996_answers (p : Prod) (m : Msg) (hdst : m.dst ≠ 255) :
    (req126996 p m).answers m.src 126996 (reqParams m).2.2 0 := by
  unfold req126996
  by_cases h : (reqRun (step126996 p) 126996 m).1 = true
  · simp only [h, if_true]; exact Or.inr (Or.inl ⟨rfl, rfl⟩)
  · simp only [h, if_neg hdst]
    exact Or.inl ⟨_, rfl, (reqRun_shape _ _ m hdst).isAckFor⟩

theorem req126998_answers (c : Conf) (m : Msg) (hdst : m.dst ≠ 255) :
    (req126998 c m).answers m.src 126998 (reqParams m).2.2 0 := by
  unfold req126998
  by_cases h : (reqRun (step126998 c) 126998 m).1 = true
  · simp only [h, if_true]; exact Or.inr (Or.inl ⟨rfl, rfl⟩)
  · simp only [h, if_neg hdst]
    exact Or.inl ⟨_, rfl, (reqRun_shape _ _ m hdst).isAckFor⟩

/-- while the filter still matches, the Tx/Rx selector of the 126464 request is transmit, receive or "both" -/
theorem step126464_inv (m : Msg) (idx : Nat) (mf : Bool) (aux : Nat)
    (_h : mf = true → aux = 0 ∨ aux = 1 ∨ aux = 0xff) :
    (step126464 m idx mf aux).mf = true → (step126464 m idx mf aux).aux = 0 ∨ (step126464 m idx mf aux).aux = 1 ∨ (step126464 m idx mf aux).aux = 0xff := by
  unfold step126464
  simp only []
  split
  · by_cases hv : (getByte m (getByte m idx).2).1 = 0 ∨ (getByte m (getByte m idx).2).1 = 1
    · rw [if_pos hv]; intro _; rcases hv with hv | hv <;> simp [hv]
    · rw [if_neg hv]; intro hc; simp at hc
  · intro hc; simp [invalidField] at hc

theorem req126464_answers (m : Msg) (hdst : m.dst ≠ 255) :
    (req126464 m).answers m.src 126464 (reqParams m).2.2 0 := by
  unfold req126464
  by_cases h : (reqRun step126464 126464 m).1 = true
  · simp only [h, if_true]
    refine Or.inr (Or.inl ⟨rfl, rfl, ?_⟩)
    -- the selector is 0, 1 or 0xff when the request is served
    have hinv : (reqRun step126464 126464 m).1 = true →
        (reqRun step126464 126464 m).2.1 = 0 ∨ (reqRun step126464 126464 m).2.1 = 1 ∨ (reqRun step126464 126464 m).2.1 = 0xff := by
      unfold reqRun
      simp only []
      by_cases hp : (reqParams m).2.2 > 0
      · simp only [if_pos hp]
        intro hs
        have hmf : (reqLoop step126464 m (m.dst == 255) (reqParams m).2.2 0 11 true false 0xff
            (startAck 126464 0 (tpErrDefault (reqParams m).1 (reqParams m).2.1) (reqParams m).2.2)).1 = true := by
          simp only [Bool.and_eq_true] at hs; exact hs.1
        exact reqLoop_inv step126464 m (m.dst == 255) (fun mf aux => mf = true → aux = 0 ∨ aux = 1 ∨ aux = 0xff)
          (fun idx mf aux hh => step126464_inv m idx mf aux hh) _ _ _ _ _ _ _ (fun _ => Or.inr (Or.inr rfl)) hmf
      · simp only [if_neg hp]; intro _; simp
    rcases hinv h with h0 | h1 | hf
    · left; simp [h0]
    · right; simp [h1]
    · left; simp [hf]
  · simp only [h, if_neg hdst]
    exact Or.inl ⟨_, rfl, (reqRun_shape _ _ m hdst).isAckFor⟩

theorem req126993_answers (d : Dev) (m : Msg) (hdst : m.dst ≠ 255) (hpgn : parsePgn m = 126993) :
    (req126993 d m).answers m.src 126993 (reqParams m).2.2 0 := by
  unfold req126993
  simp only []
  by_cases hp : (reqParams m).2.2 = 0
  · rw [if_pos hp]
    by_cases hn : (reqParams m).1 = 0xffffffff ∧ (reqParams m).2.1 = 0xffff
    · rw [if_pos hn]; rw [← hpgn]; exact baseRequest_answers d m hdst
    · rw [if_neg hn]
      generalize (if (reqParams m).1 = 0 then 1 else tpErr (reqParams m).1 (reqParams m).2.1 true 60000 1000 true 6000) = pec
      by_cases hq : pec = 0
      · rw [if_pos hq]; exact Or.inr (Or.inl ⟨rfl, rfl⟩)
      · rw [if_neg hq, if_pos hdst]
        refine Or.inl ⟨_, rfl, ?_⟩
        rw [hp]; exact sendAckData_isAckFor _ _ _ _ _
  · rw [if_neg hp, if_pos hdst]
    exact Or.inl ⟨_, rfl, sendAckData_isAckFor _ _ _ _ _⟩

theorem cmd60928_answers (m : Msg) : (cmd60928 m).answers m.src 60928 (cmdParams m).2 1 := by
  refine Or.inr (Or.inr (Or.inl ⟨rfl, rfl, _, _, _, _, rfl, ?_⟩))
  have := cmd60928Loop_shape m 60928 (cmdParams m).2 (cmdParams m).2 0 6 0xff 0xff 0xff _ (startAck_shape 60928 0 0 (cmdParams m).2)
  rw [Nat.zero_add] at this
  exact this.isAckFor

theorem cmd126998_answers (m : Msg) : (cmd126998 m).answers m.src 126998 (cmdParams m).2 1 := by
  refine Or.inr (Or.inr (Or.inr ⟨rfl, rfl, _, _, rfl, ?_⟩))
  have := cmd126998Loop_shape m 126998 (cmdParams m).2 (cmdParams m).2 0 6 [] _
    (startAck_shape 126998 0 (if prioOk (cmdParams m).1 then 0 else 1) (cmdParams m).2)
  rw [Nat.zero_add] at this
  exact this.isAckFor

theorem cmd126993_answers (m : Msg) : (cmd126993 m).answers m.src (parsePgn m) (cmdParams m).2 1 :=
  Or.inl ⟨_, rfl, sendAckData_isAckFor _ _ _ _ _⟩

/-! ## `Handle` -/

theorem handle_reply (h : Handler) (d : Dev) (a : Attr) (p : Prod) (c : Conf) (m : Msg) (fc pgn : Nat)
    (hfc : fc = 2 ∨ fc = 4 ∨ fc = 6) : (handle h d a p c m fc pgn).1 = .nothing := by
  unfold handle
  by_cases hr : h.pgn ≠ pgn ∧ h.pgn ≠ 0
  · rw [if_pos hr]
  · rw [if_neg hr]; rcases hfc with rfl | rfl | rfl <;> rfl

theorem handle_broadcast (h : Handler) (d : Dev) (a : Attr) (p : Prod) (c : Conf) (m : Msg) (fc pgn : Nat)
    (hfc : fc = 1 ∨ fc = 3 ∨ fc = 5) (hdst : m.dst = 255) : (handle h d a p c m fc pgn).1 = .nothing := by
  unfold handle
  by_cases hr : h.pgn ≠ pgn ∧ h.pgn ≠ 0
  · rw [if_pos hr]
  · rw [if_neg hr]; rcases hfc with rfl | rfl | rfl <;> simp [hdst]

theorem respondChain_nothing (d : Dev) (a : Attr) (p : Prod) (c : Conf) (m : Msg) (fc pgn : Nat)
    (hn : ∀ h, (handle h d a p c m fc pgn).1 = .nothing) : ∀ chain, respondChain d a p c m fc pgn chain = .nothing
  | [] => rfl
  | h :: t => by
    unfold respondChain
    split
    · exact hn h
    · split
      · exact hn h
      · exact respondChain_nothing d a p c m fc pgn hn t

theorem handle_handled (h : Handler) (d : Dev) (a : Attr) (p : Prod) (c : Conf) (m : Msg) (fc pgn : Nat)
    (hr : h.pgn = pgn ∨ h.pgn = 0) (hfc : fc ≤ 6) : (handle h d a p c m fc pgn).2 = true := by
  unfold handle
  rw [if_neg (by intro hc; rcases hr with hr | hr; exact hc.1 hr; exact hc.2 hr)]
  have : fc = 0 ∨ fc = 1 ∨ fc = 2 ∨ fc = 3 ∨ fc = 4 ∨ fc = 5 ∨ fc = 6 := by omega
  rcases this with rfl | rfl | rfl | rfl | rfl | rfl | rfl <;> simp only [] <;> (try split) <;> rfl

/-- a responsible handler answers an addressed request / command / read / write -/
theorem handle_answers (h : Handler) (d : Dev) (a : Attr) (p : Prod) (c : Conf) (m : Msg)
    (hr : h.pgn = parsePgn m ∨ h.pgn = 0) (hdst : m.dst ≠ 255)
    (hfc : parseFc m = 0 ∨ parseFc m = 1 ∨ parseFc m = 3 ∨ parseFc m = 5) :
    (handle h d a p c m (parseFc m) (parsePgn m)).1.answers m.src (parsePgn m) (pairsOf m) (parseFc m) := by
  have hprop : (if h.pgn ≠ 0 then isProprietary h.pgn else isProprietary (parsePgn m)) = isProprietary (parsePgn m) := by
    by_cases h0 : h.pgn = 0
    · simp [h0]
    · rcases hr with hr | hr
      · simp [hr]
      · exact absurd hr h0
  unfold handle
  rw [if_neg (by intro hc; rcases hr with hr | hr; exact hc.1 hr; exact hc.2 hr)]
  simp only [hprop]
  rcases hfc with hf | hf | hf | hf
  · -- request
    have hp : pairsOf m = (reqParams m).2.2 := by simp [pairsOf, hf]
    rw [hf, hp]
    simp only []
    cases h with
    | h60928 => have : parsePgn m = 60928 := by rcases hr with hr | hr <;> simp [Handler.pgn] at hr; exact hr.symm
                rw [this]; exact req60928_answers a m hdst
    | h126464 => have : parsePgn m = 126464 := by rcases hr with hr | hr <;> simp [Handler.pgn] at hr; exact hr.symm
                 rw [this]; exact req126464_answers m hdst
    | h126993 => have : parsePgn m = 126993 := by rcases hr with hr | hr <;> simp [Handler.pgn] at hr; exact hr.symm
                 rw [this]; exact req126993_answers d m hdst this
    | h126996 => have : parsePgn m = 126996 := by rcases hr with hr | hr <;> simp [Handler.pgn] at hr; exact hr.symm
                 rw [this]; exact req126996_answers p m hdst
    | h126998 => have : parsePgn m = 126998 := by rcases hr with hr | hr <;> simp [Handler.pgn] at hr; exact hr.symm
                 rw [this]; exact req126998_answers c m hdst
    | base q => exact baseRequest_answers d m hdst
  · -- command
    have hp : pairsOf m = (cmdParams m).2 := by simp [pairsOf, hf]
    rw [hf, hp]
    simp only [if_neg hdst]
    cases h with
    | h60928 => have : parsePgn m = 60928 := by rcases hr with hr | hr <;> simp [Handler.pgn] at hr; exact hr.symm
                rw [this]; exact cmd60928_answers m
    | h126998 => have : parsePgn m = 126998 := by rcases hr with hr | hr <;> simp [Handler.pgn] at hr; exact hr.symm
                 rw [this]; exact cmd126998_answers m
    | h126993 => exact cmd126993_answers m
    | h126464 => exact baseCommand_answers d m
    | h126996 => exact baseCommand_answers d m
    | base q => exact baseCommand_answers d m
  · have hp : pairsOf m = rwPairs m (isProprietary (parsePgn m)) := by simp [pairsOf, hf]
    rw [hf, hp]
    simp only [if_neg hdst]
    exact baseReadWrite_answers d m _ 3
  · have hp : pairsOf m = rwPairs m (isProprietary (parsePgn m)) := by simp [pairsOf, hf]
    rw [hf, hp]
    simp only [if_neg hdst]
    exact baseReadWrite_answers d m _ 5

/-- with a default handler in the chain, the chain search ends at a responsible handler -/
theorem respondChain_answers (d : Dev) (a : Attr) (p : Prod) (c : Conf) (m : Msg) (hdst : m.dst ≠ 255)
    (hfc : parseFc m = 0 ∨ parseFc m = 1 ∨ parseFc m = 3 ∨ parseFc m = 5) :
    ∀ chain : List Handler, (∃ h ∈ chain, h.pgn = 0) →
      (respondChain d a p c m (parseFc m) (parsePgn m) chain).answers m.src (parsePgn m) (pairsOf m) (parseFc m)
  | [], hex => by obtain ⟨h, hm, _⟩ := hex; cases hm
  | h :: t, hex => by
    unfold respondChain
    by_cases h1 : h.pgn = parsePgn m
    · rw [if_pos h1]; exact handle_answers h d a p c m (Or.inl h1) hdst hfc
    · rw [if_neg h1]
      by_cases h0 : h.pgn = 0
      · have hh := handle_handled h d a p c m (parseFc m) (parsePgn m) (Or.inr h0) (by rcases hfc with hf | hf | hf | hf <;> omega)
        rw [if_pos ⟨h0, hh⟩]
        exact handle_answers h d a p c m (Or.inr h0) hdst hfc
      · rw [if_neg (fun hc => h0 hc.1)]
        apply respondChain_answers d a p c m hdst hfc t
        obtain ⟨x, hx, hx0⟩ := hex
        rcases List.mem_cons.mp hx with rfl | hx
        · exact absurd hx0 h0
        · exact ⟨x, hx, hx0⟩

end N2k.GF
