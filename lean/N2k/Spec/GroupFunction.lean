/-!
# PGN 126208 request / command group functions as transmitted (independent statement, C09)

Layout of the messages a requester puts on the bus: header, then parameter pairs (field number, value in the
width the field has in the target PGN). Used to state what a *well-formed* request says; does not depend on
the model of the library.
-/
namespace N2k.GFSpec

def le2 (v : Nat) : List Nat := [v % 256, v / 256 % 256]
def le3 (v : Nat) : List Nat := [v % 256, v / 256 % 256, v / 65536 % 256]
def le4 (v : Nat) : List Nat := [v % 256, v / 256 % 256, v / 65536 % 256, v / 16777216 % 256]

/-- Request group function: function code 0, PGN, transmission interval, offset, number of pairs (11 bytes) -/
def reqHeader (pgn interval offset pairs : Nat) : List Nat := [0] ++ le3 pgn ++ le4 interval ++ le2 offset ++ [pairs]

/-- Command group function: function code 1, PGN, priority setting (low nibble) + reserved, number of pairs (6 bytes) -/
def cmdHeader (pgn prio pairs : Nat) : List Nat := [1] ++ le3 pgn ++ [0xf0 + prio, pairs]

/-- a character string without terminator characters that fits `n` bytes -/
def StrOK (s : List Nat) (n : Nat) : Prop := s.length ≤ n ∧ ∀ c ∈ s, c ≠ 0 ∧ c ≠ 0xff

/-- fixed-length string field: characters, padded with 0xff -/
def fixStr (s : List Nat) (n : Nat) : List Nat := s ++ List.replicate (n - s.length) 0xff

/-- variable-length string field (ASCII): length+2, type 1, characters -/
def varStr (s : List Nat) : List Nat := [s.length + 2, 1] ++ s

/-- selection fields of PGN 60928 (ISO address claim), value bytes as transmitted -/
inductive Sel60928 where
  | uniqueNumber (b0 b1 b2 : Nat)
  | manufacturerCode (b0 b1 : Nat)
  | instanceLower (b : Nat)
  | instanceUpper (b : Nat)
  | deviceFunction (b : Nat)
  | reserved (b : Nat)
  | deviceClass (b : Nat)
  | systemInstance (b : Nat)
  | industryGroup (b : Nat)
  | selfConfigurable (b : Nat)

def Sel60928.enc : Sel60928 → List Nat
  | .uniqueNumber b0 b1 b2 => [1, b0, b1, b2]
  | .manufacturerCode b0 b1 => [2, b0, b1]
  | .instanceLower b => [3, b]
  | .instanceUpper b => [4, b]
  | .deviceFunction b => [5, b]
  | .reserved b => [6, b]
  | .deviceClass b => [7, b]
  | .systemInstance b => [8, b]
  | .industryGroup b => [9, b]
  | .selfConfigurable b => [10, b]

/-- selection field of PGN 126464 (PGN list): 0 = transmit list, 1 = receive list -/
inductive Sel126464 where
  | list (b : Nat)

def Sel126464.enc : Sel126464 → List Nat
  | .list b => [1, b]

/-- selection fields of PGN 126996 (product information) -/
inductive Sel126996 where
  | n2kVersion (b0 b1 : Nat)
  | productCode (b0 b1 : Nat)
  | modelId (s : List Nat)
  | softwareCode (s : List Nat)
  | modelVersion (s : List Nat)
  | serialCode (s : List Nat)
  | certificationLevel (b : Nat)
  | loadEquivalency (b : Nat)

def Sel126996.enc : Sel126996 → List Nat
  | .n2kVersion b0 b1 => [1, b0, b1]
  | .productCode b0 b1 => [2, b0, b1]
  | .modelId s => [3] ++ fixStr s 32
  | .softwareCode s => [4] ++ fixStr s 32
  | .modelVersion s => [5] ++ fixStr s 32
  | .serialCode s => [6] ++ fixStr s 32
  | .certificationLevel b => [7, b]
  | .loadEquivalency b => [8, b]

def Sel126996.wf : Sel126996 → Prop
  | .modelId s | .softwareCode s | .modelVersion s | .serialCode s => StrOK s 32
  | _ => True

/-- selection fields of PGN 126998 (configuration information) -/
inductive Sel126998 where
  | installationDescription1 (s : List Nat)
  | installationDescription2 (s : List Nat)
  | manufacturerInformation (s : List Nat)

def Sel126998.enc : Sel126998 → List Nat
  | .installationDescription1 s => [1] ++ varStr s
  | .installationDescription2 s => [2] ++ varStr s
  | .manufacturerInformation s => [3] ++ varStr s

def Sel126998.wf : Sel126998 → Prop
  | .installationDescription1 s | .installationDescription2 s | .manufacturerInformation s => StrOK s 70

/-- parameters of the Command group function for PGN 60928: the three instance fields that may be commanded -/
inductive Cmd60928 where
  | instanceLower (b : Nat)
  | instanceUpper (b : Nat)
  | systemInstance (b : Nat)

def Cmd60928.enc : Cmd60928 → List Nat
  | .instanceLower b => [3, b]
  | .instanceUpper b => [4, b]
  | .systemInstance b => [8, b]

/-- parameters of the Command group function for PGN 126998: installation description 1 / 2 -/
inductive Cmd126998 where
  | installationDescription1 (s : List Nat)
  | installationDescription2 (s : List Nat)

def Cmd126998.enc : Cmd126998 → List Nat
  | .installationDescription1 s => [1] ++ varStr s
  | .installationDescription2 s => [2] ++ varStr s

def Cmd126998.wf : Cmd126998 → Prop
  | .installationDescription1 s | .installationDescription2 s => StrOK s 70

end N2k.GFSpec
