import N2k.Model.Send
/-! Fast-packet sequence counter slots (`GetSequenceCounter`): ownership lookup and its preservation. -/
namespace N2k.Send

/-- the counter a PGN owns: the scan of `GetSequenceCounter` finds it before any empty slot -/
def lookup (pgn : Nat) : List Nat → Option Nat
  | [] => none
  | e :: t => if e = 0 then none else if e &&& 0x00ffffff = pgn then some (e >>> 24) else lookup pgn t

def nextSc (c : Nat) : Nat := if c + 1 > 7 then 0 else c + 1

theorem and24 (x : Nat) : x &&& 0x00ffffff = x % 2^24 := Nat.and_two_pow_sub_one_eq_mod x 24

theorem slot_fields (pgn sc : Nat) (hp : pgn < 2^24) :
    (pgn ||| (sc <<< 24)) &&& 0x00ffffff = pgn ∧ (pgn ||| (sc <<< 24)) >>> 24 = sc := by
  have h : pgn ||| (sc <<< 24) = sc <<< 24 + pgn := by
    rw [Nat.or_comm]; exact (Nat.shiftLeft_add_eq_or_of_lt hp sc).symm
  rw [h, and24, Nat.shiftRight_eq_div_pow, Nat.shiftLeft_eq]
  constructor <;> omega

theorem slot_ne_zero (pgn sc : Nat) (hp : pgn < 2^24) (h0 : pgn ≠ 0) : pgn ||| (sc <<< 24) ≠ 0 := by
  have h : pgn ||| (sc <<< 24) = sc <<< 24 + pgn := by
    rw [Nat.or_comm]; exact (Nat.shiftLeft_add_eq_or_of_lt hp sc).symm
  rw [h]; omega

/-- a PGN that owns a slot gets the next counter value and keeps the slot -/
theorem seqScan_owned (pgn : Nat) (declared : Bool) (hp : pgn < 2^24) (h0 : pgn ≠ 0) :
    ∀ (front : List Nat) (c : Nat), lookup pgn front = some c →
      ∃ front', seqScan pgn declared front = some (front', nextSc c) ∧
        lookup pgn front' = some (nextSc c) ∧ front'.length = front.length
  | [], _, h => by simp [lookup] at h
  | e :: t, c, h => by
    simp only [lookup] at h
    by_cases he : e = 0
    · simp [he] at h
    · simp only [he, ↓reduceIte] at h
      by_cases hm : e &&& 0x00ffffff = pgn
      · simp only [hm, ↓reduceIte, Option.some.injEq] at h
        subst h
        have hf := slot_fields pgn (nextSc (e >>> 24)) hp
        have hz := slot_ne_zero pgn (nextSc (e >>> 24)) hp h0
        refine ⟨(pgn ||| (nextSc (e >>> 24) <<< 24)) :: t, ?_, ?_, rfl⟩
        · simp only [seqScan, he, ↓reduceIte, hm, nextSc]
        · simp only [lookup, hz, ↓reduceIte, hf.1, hf.2]
      · simp only [hm, ↓reduceIte] at h
        obtain ⟨t', h1, h2, h3⟩ := seqScan_owned pgn declared hp h0 t c h
        refine ⟨e :: t', ?_, ?_, by simp [h3]⟩
        · simp only [seqScan, he, ↓reduceIte, hm, h1]
        · simp only [lookup, he, ↓reduceIte, hm, h2]

/-- a call for another PGN leaves an owned counter untouched -/
theorem seqScan_other (pgn pgn' : Nat) (declared : Bool) (hne : pgn' ≠ pgn) (hp' : pgn' < 2^24) (h0' : pgn' ≠ 0) :
    ∀ (front : List Nat) (c : Nat), lookup pgn front = some c →
      match seqScan pgn' declared front with
      | some (front', _) => lookup pgn front' = some c ∧ front'.length = front.length
      | none => True
  | [], _, h => by simp [lookup] at h
  | e :: t, c, h => by
    simp only [lookup] at h
    by_cases he : e = 0
    · simp [he] at h
    · simp only [he, ↓reduceIte] at h
      simp only [seqScan, he, ↓reduceIte]
      by_cases hm' : e &&& 0x00ffffff = pgn'
      · -- the slot of pgn' : rewritten in place, still not pgn's
        have hm : ¬ (e &&& 0x00ffffff = pgn) := fun hh => hne (hm'.symm.trans hh)
        simp only [hm, ↓reduceIte] at h
        simp only [hm', ↓reduceIte]
        have hf := slot_fields pgn' (if e >>> 24 + 1 > 7 then 0 else e >>> 24 + 1) hp'
        have hz := slot_ne_zero pgn' (if e >>> 24 + 1 > 7 then 0 else e >>> 24 + 1) hp' h0'
        refine ⟨?_, rfl⟩
        simp only [lookup, hz, ↓reduceIte, hf.1, hne, h]
      · simp only [hm', ↓reduceIte]
        by_cases hm : e &&& 0x00ffffff = pgn
        · simp only [hm, ↓reduceIte, Option.some.injEq] at h
          cases hs : seqScan pgn' declared t with
          | none => trivial
          | some r =>
            obtain ⟨t', sc⟩ := r
            simp only
            exact ⟨by simp only [lookup, he, ↓reduceIte, hm, h], by
              -- length is preserved by seqScan
              have : ∀ (l : List Nat) (l' : List Nat) (s : Nat), seqScan pgn' declared l = some (l', s) → l'.length = l.length := by
                intro l
                induction l with
                | nil => intro l' s h; simp [seqScan] at h
                | cons a u ih =>
                  intro l' s h
                  simp only [seqScan] at h
                  split at h
                  · split at h
                    · injection h with h; injection h with h1 _; subst h1; rfl
                    · cases h
                  · split at h
                    · injection h with h; injection h with h1 _; subst h1; rfl
                    · split at h
                      · rename_i r hr
                        injection h with h; injection h with h1 _; subst h1
                        simp [ih _ _ hr]
                      · cases h
              simp [this t t' sc hs]⟩
        · simp only [hm, ↓reduceIte] at h
          have ih := seqScan_other pgn pgn' declared hne hp' h0' t c h
          cases hs : seqScan pgn' declared t with
          | none => trivial
          | some r =>
            obtain ⟨t', sc⟩ := r
            rw [hs] at ih
            simp only at ih ⊢
            exact ⟨by simp only [lookup, he, ↓reduceIte, hm, ih.1], by simp [ih.2]⟩

/-- first use by a declared fast-packet transmit PGN while a free slot is left: counter 0 and ownership -/
theorem seqScan_first (pgn : Nat) (hp : pgn < 2^24) (h0 : pgn ≠ 0) :
    ∀ (front : List Nat), lookup pgn front = none → 0 ∈ front →
      (∀ e ∈ front, e ≠ 0 → e &&& 0x00ffffff ≠ pgn) →
      ∃ front', seqScan pgn true front = some (front', 0) ∧ lookup pgn front' = some 0
  | [], _, hz, _ => by cases hz
  | e :: t, h, hz, hno => by
    by_cases he : e = 0
    · subst he
      refine ⟨pgn :: t, by simp [seqScan], ?_⟩
      have : pgn &&& 0x00ffffff = pgn := by rw [and24]; omega
      have h24 : pgn >>> 24 = 0 := by rw [Nat.shiftRight_eq_div_pow]; omega
      simp only [lookup, h0, ↓reduceIte, this, h24]
    · have hm : ¬ (e &&& 0x00ffffff = pgn) := hno e (by simp) he
      simp only [lookup, he, ↓reduceIte, hm] at h
      have hz' : 0 ∈ t := by
        rcases List.mem_cons.mp hz with h1 | h1
        · exact absurd h1.symm he
        · exact h1
      obtain ⟨t', h1, h2⟩ := seqScan_first pgn hp h0 t h hz' (fun x hx => hno x (by simp [hx]))
      exact ⟨e :: t', by simp only [seqScan, he, ↓reduceIte, hm, h1], by simp only [lookup, he, ↓reduceIte, hm, h2]⟩

end N2k.Send
