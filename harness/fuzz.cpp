// C07 harness: grammar-based bus traffic against a REAL full node (receive path, both transport protocols, address
// claiming, group functions, ISO requests, optional device list) under ASan+UBSan.  No Lean driver: the models that
// carry C07's theorems are tied to the code by the C02/C03/C08/C09/C10/C18 correspondence runs; this harness is the
// runtime counterpart (memory safety below the index level, hangs, over-long deliveries).
// ops:  reset <flavor> <mode> <devs> <slots> <devlist> <origin> | t <ms> | rx <idhex> <len> <hex> | poll | send <dev> <tp> <pgn> <dst> <len>
#include "node.h"
#include "N2kDeviceList.h"
#include <signal.h>
#include <unistd.h>
using namespace vh;
static Ctx C;

struct Node : public MockN2k {
  uint64_t name(int i) { return Devices[i].DeviceInformation.GetName(); }
  unsigned char src(int i) { return Devices[i].N2kSource; }
};
static std::set<unsigned> ownedBefore;   // addresses of our devices before the current op
static uint64_t claimUntil[16];          // C04 monitor: a device that changed its address (or just opened) is inside its claim window for 250 ms
static unsigned char addrOf[16];
struct Sink : public N2kStream { int read() { return -1; } int peek() { return -1; } size_t write(const uint8_t *, size_t n) { return n; } };
static Sink g_sink;
static Node *N = nullptr; static tN2kDeviceList *DL = nullptr;
static int nDev = 1, mode = 2;
static long delivered = 0; static std::string caseDesc; static bool caseTP = false, caseMoved = false;
static unsigned char addr0 = 0;

static void onMsg(const tN2kMsg &m) {
  delivered++;
  if (m.DataLen > 223 || m.DataLen < 0) C.fail("C07:over-long-delivery", "pgn %lu DataLen %d", m.PGN, m.DataLen);
  // touch every delivered byte so that ASan sees a bad pointer
  volatile unsigned s = 0; for (int i = 0; i < m.DataLen && i < 223; i++) s += m.Data[i]; (void)s;
}
static void watchdog(int) { const char m[] = "TIMEOUT: watchdog fired (loop without bound?)\n"; if (write(2, m, sizeof m - 1)) {} _exit(97); }

static void endCase() { if (N) { C.cases++; if (caseTP && caseMoved) C.nontrivial(caseDesc); } caseDesc.clear(); caseTP = caseMoved = false; }

static void exec(const std::string &line) {
  std::vector<std::string> w = split(line);
  if (w[0] == "reset") endCase();
  C.op("%s", line.c_str()); C.count("op_" + w[0]); caseDesc += line.substr(0, 40); caseDesc += ';';
  alarm(20);
  if (w[0] == "reset") {
    mode = atoi(w[2].c_str()); nDev = atoi(w[3].c_str()); int slots = atoi(w[4].c_str()); bool dl = w[5] == "1";
    g_now = strtoull(w[6].c_str(), 0, 10);
    // the previous node is leaked on purpose: tNMEA2000 has no destructor for its buffers and the device list must not outlive it
    N = new Node(); DL = nullptr;
    N->SetDeviceCount(nDev);
    for (int i = 0; i < nDev; i++) N->SetDeviceInformation(50000 + i, 130 + i, 25, 2046, 4, i);
    N->SetProductInformation("SN0001", 1234, "Model X", "1.2.3.4 (2020-01-01)", "1.0.0", 0xff, 2101, 1, 0);
    N->SetConfigurationInformation("Manufacturer info", "Install 1", "Install 2");
    N->SetMode((tNMEA2000::tN2kMode)mode, 20);
    N->EnableForward(false);
    N->SetN2kCANMsgBufSize((uint8_t)slots);
    if (w.size() > 7) N->SetN2kCANSendFrameBufSize((uint16_t)atoi(w[7].c_str()));
    if (w.size() > 8 && w[8] == "fwd") {   // received and own messages are also written to a forward stream in Actisense format
      N->SetForwardStream(&g_sink); N->SetForwardType(tNMEA2000::fwdt_Actisense); N->EnableForward(true); N->SetForwardOwnMessages(true); N->SetForwardSystemMessages(true);
    }
    N->SetMsgHandler(onMsg);
    if (dl) DL = new tN2kDeviceList(N);
    openAndSettle(*N, 700);
    N->sent.clear(); addr0 = N->src(0);
    for (int i = 0; i < nDev; i++) { claimUntil[i] = 0; addrOf[i] = N->src(i); }
    C.out("ok"); return;
  }
  if (!N) { C.out("bad-op"); return; }
  ownedBefore.clear(); for (int i = 0; i < nDev; i++) ownedBefore.insert(N->src(i));
  if (w[0] == "acc") { N->acceptDefault = w[1] == "1"; if (w[1] == "1") N->refused = 0; C.out("ok"); alarm(0); return; }
  if (w[0] == "t") { g_now += strtoull(w[1].c_str(), 0, 10); N->ParseMessages(); C.out("ok"); }
  else if (w[0] == "poll") { N->ParseMessages(); C.out("ok"); }
  else if (w[0] == "rx") {
    unsigned long id = strtoul(w[1].c_str(), 0, 16); int len = atoi(w[2].c_str()); std::vector<unsigned char> b = unhex(w[3]); b.resize(8, 0xEE);
    N->rx(id, (unsigned char)len, b.data()); N->ParseMessages(); C.out("ok");
  }
  else if (w[0] == "send") {
    int d = atoi(w[1].c_str()); bool tp = w[2] == "1"; unsigned long pgn = strtoul(w[3].c_str(), 0, 10); int dst = atoi(w[4].c_str()); int len = atoi(w[5].c_str());
    tN2kMsg m; m.SetPGN(pgn); m.Priority = 6; m.Destination = (unsigned char)dst; for (int i = 0; i < len; i++) m.AddByte((unsigned char)(i * 7 + 1));
    if (tp) m.SetIsTPMessage();
    N->SendMsg(m, d); C.out("ok");
  }
  else C.out("bad-op");
  // C04 monitor (model independent; knows only the mode, the addresses it reads back and its own clock):
  //  - listen-only nodes put nothing on the bus; a device at the null address sends nothing but address claims;
  //  - a device that has just changed its address sends nothing but address claims for the next 250 ms.
  // Frames that were queued under back-pressure are outside the gate, so the monitor pauses while the queue is not empty.
  for (int i = 0; i < nDev; i++) if (N->src(i) != addrOf[i]) { addrOf[i] = N->src(i); claimUntil[i] = g_now + 250; }
  bool quiet = N->acceptDefault && N->qRead() == N->qWrite() && N->refused == 0;
  if (mode == 0 && !N->sent.empty()) C.fail("C04:listen-only-sends", "%zu frame(s), first %s", N->sent.size(), frameStr(N->sent[0]).c_str());
  if (quiet) for (auto &f : N->sent) {
    unsigned sa = (unsigned)(f.id & 0xff); bool isClaim = ((f.id >> 8) & 0x1ff00) == 60928UL;
    if (isClaim) continue;
    if (sa == 254) { C.fail("C04:null-address-sends", "%s", frameStr(f).c_str()); break; }
    for (int i = 0; i < nDev; i++) if (N->src(i) == sa && g_now + 1 < claimUntil[i]) {
      // another device of the node may legitimately hold the same address only by a defect; attribute to the claiming one
      C.fail("C04:frame-in-claim-window", "device %d changed to address %u %llu ms ago and sent %s", i, sa, (unsigned long long)(g_now + 250 - claimUntil[i]), frameStr(f).c_str()); break; }
  }
  // every frame the node puts on the bus carries an address one of its devices held before or after this op (or the null address)
  for (auto &f : N->sent) {
    unsigned sa = (unsigned)(f.id & 0xff); bool ok = sa == 254 || ownedBefore.count(sa);
    for (int i = 0; i < nDev && !ok; i++) if (N->src(i) == sa) ok = true;
    // a device may pass through intermediate addresses within one op (several lost arbitrations): allow claims from any address
    if (!ok && ((f.id >> 8) & 0x1ff00) == 60928UL) ok = true;
    if (!ok) { C.fail("C07:frame-from-foreign-address", "frame %s sent from address %u which no device of the node holds", frameStr(f).c_str(), sa); break; }
  }
  N->sent.clear();
  if (N->src(0) != addr0) { caseMoved = true; addr0 = N->src(0); }
  alarm(0);
}

// ------------------------------------------------------------------------------------------------ grammar
static Rng *R;
static unsigned long mkId(unsigned prio, unsigned long pgn, unsigned src, unsigned dst) {
  unsigned long pf = (pgn >> 8) & 0xff; unsigned long id = ((unsigned long)(prio & 7) << 26) | (pgn << 8) | src;
  if (pf < 240) id |= (unsigned long)dst << 8; return id;
}
static void frame(unsigned long id, int len, const std::vector<unsigned char> &b) {
  char hd[64]; snprintf(hd, sizeof hd, "rx %lx %d ", id, len); std::vector<unsigned char> x = b; x.resize(8, 0xff); exec(std::string(hd) + hex(x.data(), 8));
}
static unsigned ourAddr() { return R->chance(1, 8) ? (unsigned)R->below(256) : (R->chance(1, 6) ? 255 : N->src((int)R->below(nDev))); }
static unsigned pool[4] = {31, 32, 40, 57};
static unsigned peer() { return R->chance(1, 10) ? (unsigned)R->range(250, 255) : (R->chance(2, 3) ? pool[R->below(4)] : (unsigned)R->range(30, 60)); }
static int dlc() { return R->chance(1, 5) ? (int)R->below(9) : 8; }
static std::vector<unsigned char> rnd(int n) { std::vector<unsigned char> v(n); for (auto &x : v) x = (unsigned char)R->below(256); return v; }
static std::vector<unsigned char> le(uint64_t v, int n) { std::vector<unsigned char> r(n); for (int i = 0; i < n; i++) r[i] = (unsigned char)(v >> (8 * i)); return r; }
static uint64_t name() { unsigned k = (unsigned)R->below(6); return k == 0 ? 0 : k == 1 ? ~0ULL : k == 2 ? 1 : R->next(); }

// fast packet with possible damage
static void fastPacket(unsigned long pgn, unsigned prio, unsigned src, unsigned dst, std::vector<unsigned char> pl, int announce = -1) {
  unsigned long id = mkId(prio, pgn, src, dst); int seq = (int)R->below(8); int L = announce >= 0 ? announce : (int)pl.size();
  size_t nfr = pl.size() <= 6 ? 1 : 1 + (pl.size() - 6 + 6) / 7;
  for (size_t k = 0; k < nfr; k++) {
    if (R->chance(1, 25)) continue;                       // lost frame
    std::vector<unsigned char> f(8, 0xff); f[0] = (unsigned char)(seq << 5 | (k & 31));
    if (k == 0) { f[1] = (unsigned char)L; for (size_t j = 0; j < 6 && j < pl.size(); j++) f[2 + j] = pl[j]; }
    else { size_t off = 6 + 7 * (k - 1); for (size_t j = 0; j < 7 && off + j < pl.size(); j++) f[1 + j] = pl[off + j]; }
    frame(id, R->chance(1, 20) ? dlc() : 8, f);
    if (R->chance(1, 30)) frame(id, 8, f);                // duplicate
  }
}

static void tpSession(bool toUs) {
  caseTP = true;
  unsigned src = peer(), dst = toUs ? ourAddr() : 255; unsigned long pgn = R->chance(1, 2) ? 126208UL : (R->chance(1, 2) ? 126996UL : 130816UL + R->below(20));
  int bytes = R->chance(1, 8) ? (int)R->range(0, 1785) : (R->chance(1, 10) ? (int)R->range(220, 230) : (int)R->range(9, 223)); int pk = (bytes + 6) / 7; if (R->chance(1, 8)) pk = R->chance(1, 3) ? 0 : (int)R->below(256);
  std::vector<unsigned char> cm = {(unsigned char)(dst == 255 ? 32 : 16), (unsigned char)bytes, (unsigned char)(bytes >> 8), (unsigned char)pk, (unsigned char)(R->chance(1, 3) ? 0xff : R->below(8)), (unsigned char)pgn, (unsigned char)(pgn >> 8), (unsigned char)(pgn >> 16)};
  frame(mkId(7, 60416UL, src, dst), dlc(), cm);
  int n = R->chance(1, 5) ? (int)R->below(40) : (pk == 0 ? (int)R->range(1, 3) : pk);
  for (int k = 1; k <= n; k++) {
    if (R->chance(1, 15)) { exec("t " + std::to_string(R->range(0, 1300))); }
    if (R->chance(1, 12) || (k == n && R->chance(1, 3))) {   // lose our address in the middle (or just before the last packet) of the session: a competing claim with a tiny NAME
      frame(mkId(6, 60928UL, N->src(0), 255), 8, le(R->chance(1, 2) ? 1 : name(), 8));
    }
    std::vector<unsigned char> dt = rnd(8); dt[0] = (unsigned char)(R->chance(1, 12) ? R->below(256) : k);
    frame(mkId(7, 60160UL, src, dst), dlc(), dt);
  }
}
static void tpControl() {   // CTS / EndAck / Abort / nonsense towards us, possibly for a transfer we started
  unsigned src = peer(); unsigned dst = ourAddr(); unsigned long pgn = R->chance(1, 2) ? 126996UL : (unsigned long)R->below(1 << 18);
  unsigned char ctl[] = {17, 19, 255, 16, 32, (unsigned char)R->below(256)};
  std::vector<unsigned char> cm = rnd(8); cm[0] = ctl[R->below(6)]; if (R->chance(2, 3)) { cm[5] = (unsigned char)pgn; cm[6] = (unsigned char)(pgn >> 8); cm[7] = (unsigned char)(pgn >> 16); }
  if (cm[0] == 17 && R->chance(1, 2)) { cm[1] = (unsigned char)R->below(8); cm[2] = (unsigned char)R->range(0, 40); }
  frame(mkId(7, 60416UL, src, dst), dlc(), cm);
}
static void groupFunction() {
  unsigned long tgt[] = {60928, 126464, 126993, 126996, 126998, 127250, 65280, 130816, 0, 0xFFFFFF};
  unsigned long p = tgt[R->below(10)]; int pairs = R->chance(1, 6) ? (int)R->below(256) : (int)R->below(6);
  std::vector<unsigned char> pl = {(unsigned char)(R->chance(1, 10) ? R->below(256) : R->below(7)), (unsigned char)p, (unsigned char)(p >> 8), (unsigned char)(p >> 16)};
  int fc = pl[0];
  if (fc == 0) { auto a = le(R->chance(1, 3) ? 0xFFFFFFFF : R->next(), 4); pl.insert(pl.end(), a.begin(), a.end()); auto b = le(R->next(), 2); pl.insert(pl.end(), b.begin(), b.end()); pl.push_back((unsigned char)pairs); }
  else if (fc == 1) { pl.push_back((unsigned char)(R->chance(1, 2) ? 0xF8 : R->below(256))); pl.push_back((unsigned char)pairs); }
  else { auto a = rnd((int)R->below(5)); pl.insert(pl.end(), a.begin(), a.end()); pl.push_back((unsigned char)pairs); }
  int body = R->chance(1, 4) ? (int)R->below(40) : pairs * 2 + (int)R->below(8);
  for (int i = 0; i < body && pl.size() < 223; i++) pl.push_back((unsigned char)(R->chance(1, 2) ? R->range(1, 12) : R->below(256)));
  if (R->chance(1, 5) && pl.size() > 2) pl.resize(R->range(1, (int)pl.size()));      // truncated
  fastPacket(126208UL, 3, peer(), ourAddr(), pl, R->chance(1, 15) ? (int)R->below(256) : -1);
}
// group-function Command for PGN 126998 carrying installation descriptions as UCS-2 var-strings whose UTF-8 form ends
// near the handler's 71-byte buffer (mixes of 1-, 2- and 3-byte characters)
static void gfConfCommand() {
  std::vector<unsigned char> pl = {1, (unsigned char)(126998UL & 0xff), (unsigned char)((126998UL >> 8) & 0xff), (unsigned char)(126998UL >> 16), (unsigned char)(R->chance(1, 2) ? 0xF8 : 0xF9)};
  int pairs = (int)R->range(1, 2); pl.push_back((unsigned char)pairs);
  for (int q = 0; q < pairs; q++) {
    pl.push_back((unsigned char)(R->chance(1, 8) ? R->below(5) : q + 1));
    int target = R->chance(1, 3) ? (int)R->range(1, 20) : (R->chance(1, 3) ? (int)R->range(79, 110) : (int)R->range(60, 78)), utf8 = 0; std::vector<unsigned> cs;
    bool plain = R->chance(1, 3);   // 7-bit text only
    while (utf8 < target && cs.size() < 100) { unsigned k = plain ? 0 : (unsigned)R->below(10); unsigned c = k < 3 ? (unsigned)R->range(0x20, 0x7e) : (k < 5 ? (unsigned)R->range(0x80, 0x7ff) : (unsigned)R->range(0x800, 0xffff)); cs.push_back(c); utf8 += c < 0x80 ? 1 : c < 0x800 ? 2 : 3; }
    bool ucs = R->chance(1, 2);
    if (ucs) { pl.push_back((unsigned char)(2 + 2 * cs.size())); pl.push_back(0); for (unsigned c : cs) { pl.push_back((unsigned char)c); pl.push_back((unsigned char)(c >> 8)); } }
    else { pl.push_back((unsigned char)(2 + cs.size())); pl.push_back(1); for (unsigned c : cs) pl.push_back((unsigned char)(c & 0x7f ? c & 0x7f : 'x')); }
  }
  if (pl.size() > 223) pl.resize(223);
  fastPacket(126208UL, 3, peer(), N->src((int)R->below(nDev)), pl);
}

// group-function Request for PGN 126998 whose parameter pairs carry var-strings to be matched against the node's configuration
// information (field 1..3, string lengths up to and beyond the 70-character fields)
static void gfConfRequest() {
  std::vector<unsigned char> pl = {0, (unsigned char)(126998UL & 0xff), (unsigned char)((126998UL >> 8) & 0xff), (unsigned char)(126998UL >> 16), 0xff, 0xff, 0xff, 0xff, 0xff, 0xff};
  int pairs = (int)R->range(1, 3); pl.push_back((unsigned char)pairs);
  for (int q = 0; q < pairs; q++) {
    pl.push_back((unsigned char)(R->chance(1, 8) ? R->below(6) : q + 1));
    int n = R->chance(1, 3) ? (int)R->range(0, 20) : (R->chance(1, 2) ? (int)R->range(28, 40) : (int)R->range(55, 90));
    bool match = R->chance(1, 3); const char *own[] = {"Manufacturer info", "Install 1", "Install 2"};
    std::string txt = match ? own[q % 3] : std::string(); while (!match && (int)txt.size() < n) txt.push_back((char)R->range(32, 126));
    pl.push_back((unsigned char)(2 + txt.size())); pl.push_back(1); for (char c : txt) pl.push_back((unsigned char)c);
  }
  if (pl.size() > 223) pl.resize(223);
  fastPacket(126208UL, 3, peer(), N->src((int)R->below(nDev)), pl);
}
static void deviceInfoTraffic() {
  unsigned src = R->chance(2, 3) ? pool[R->below(4)] : (R->chance(1, 2) ? peer() : (unsigned)R->below(254));
  unsigned k = (unsigned)R->below(5);
  if (k == 0) frame(mkId(6, 60928UL, src, 255), dlc(), le(name(), 8));
  else if (k == 1) { std::vector<unsigned char> pl = rnd(R->chance(1, 3) ? (int)R->range(0, 140) : 134); fastPacket(126996UL, 6, src, 255, pl); }
  else if (k == 2) {   // configuration information: three var-strings with arbitrary length/type bytes
    std::vector<unsigned char> pl; for (int s = 0; s < 3; s++) { int n = R->chance(1, 4) ? (int)R->below(256) : (int)R->range(2, 40); pl.push_back((unsigned char)n); pl.push_back((unsigned char)(R->chance(1, 8) ? R->below(256) : 1)); for (int i = 2; i < n && pl.size() < 223 && i < 72; i++) pl.push_back((unsigned char)R->range(32, 126)); }
    if (pl.size() > 223) pl.resize(223); fastPacket(126998UL, 6, src, 255, pl);
  }
  else if (k == 3) { std::vector<unsigned char> pl = {(unsigned char)R->below(3)}; int n = R->chance(1, 6) ? 74 : (int)R->below(45); for (int i = 0; i < n && pl.size() + 3 <= 223; i++) { auto a = le(R->below(1 << 17), 3); pl.insert(pl.end(), a.begin(), a.end()); } fastPacket(126464UL, 6, src, 255, pl); }
  else { frame(mkId(2, 127250UL, src, 255), 8, rnd(8)); }
}
// a peer with a stable NAME announces itself and then sends its information several times with changing sizes
static void deviceListScenario() {
  unsigned idx = (unsigned)R->below(4), src = pool[idx];
  frame(mkId(6, 60928UL, src, 255), 8, le(0xC0FFEE0000A000ULL + idx, 8));
  int m = (int)R->range(3, 10);
  for (int i = 0; i < m; i++) {
    unsigned k = (unsigned)R->below(4);
    if (k <= 1) { std::vector<unsigned char> pl = {(unsigned char)R->below(2)}; int n = R->chance(1, 6) ? 74 : (int)R->below(50); for (int j = 0; j < n && pl.size() + 3 <= 223; j++) { auto a = le(59392 + R->below(70000), 3); pl.insert(pl.end(), a.begin(), a.end()); } fastPacket(126464UL, 6, src, 255, pl); }
    else if (k == 2) { std::vector<unsigned char> pl; for (int q = 0; q < 3; q++) { int n = (int)R->range(2, R->chance(1, 3) ? 72 : 20); pl.push_back((unsigned char)n); pl.push_back(1); for (int j = 2; j < n; j++) pl.push_back((unsigned char)R->range(48, 122)); } if (pl.size() > 223) pl.resize(223); fastPacket(126998UL, 6, src, 255, pl); }
    else { std::vector<unsigned char> pl = rnd(134); fastPacket(126996UL, 6, src, 255, pl); }
    if (R->chance(1, 4)) exec("t " + std::to_string(R->range(0, 1200)));
  }
}
static void isoStuff() {
  unsigned k = (unsigned)R->below(4);
  if (k == 0) { unsigned long p[] = {60928, 126464, 126996, 126998, 126993, 127250, 0, 0xFFFFFF}; unsigned long q = R->chance(3, 4) ? p[R->below(8)] : (unsigned long)R->below(1 << 24); frame(mkId(6, 59904UL, peer(), ourAddr()), R->chance(1, 4) ? dlc() : 3, le(q, 3)); }
  else if (k == 1) frame(mkId(6, 59392UL, peer(), ourAddr()), dlc(), rnd(8));
  else if (k == 2) { auto nm = le(R->chance(1, 2) ? 0 : name(), 8); std::vector<unsigned char> pl = nm; pl.push_back((unsigned char)(R->chance(1, 3) ? R->range(250, 255) : R->below(252))); fastPacket(65240UL, 2, peer(), 255, pl); }
  else frame(mkId(6, 60928UL, R->chance(1, 2) ? N->src((int)R->below(nDev)) : (unsigned)R->below(256), 255), dlc(), le(name(), 8));
}

// transport-protocol broadcast (BAM) of a short message, well formed
static void bamTo(unsigned src, unsigned long pgn, const std::vector<unsigned char> &pl) {
  int pk = ((int)pl.size() + 6) / 7;
  std::vector<unsigned char> cm = {32, (unsigned char)pl.size(), (unsigned char)(pl.size() >> 8), (unsigned char)pk, 0xff, (unsigned char)pgn, (unsigned char)(pgn >> 8), (unsigned char)(pgn >> 16)};
  frame(mkId(7, 60416UL, src, 255), 8, cm);
  for (int k = 1; k <= pk; k++) { std::vector<unsigned char> dt(8, 0xff); dt[0] = (unsigned char)k; for (int j = 0; j < 7 && (size_t)((k - 1) * 7 + j) < pl.size(); j++) dt[1 + j] = pl[(k - 1) * 7 + j]; frame(mkId(7, 60160UL, src, 255), 8, dt); }
}
// C04, directed: one device of the node changes its address (lost arbitration, or a commanded address carrying its own NAME),
// then every kind of request is addressed to its NEW address inside the 250 ms claim window - nothing but address claims may leave
static void claimWindowProbe() {
  int d = (int)R->below(nDev); unsigned old = N->src(d);
  if (old > 251) return;
  C.count("claim_window_probes");
  if (R->chance(1, 2)) frame(mkId(6, 60928UL, old, 255), 8, le(1 + R->below(1000), 8));
  else { std::vector<unsigned char> pl = le(N->name(d), 8); pl.push_back((unsigned char)(R->chance(1, 8) ? R->range(252, 255) : R->range(60, 200))); bamTo(peer(), 65240UL, pl); }
  if (N->src(d) != old) C.count("claim_window_probes_moved");
  int m = (int)R->range(3, 12);
  for (int j = 0; j < m; j++) {
    unsigned na = R->chance(1, 5) ? 255u : (unsigned)N->src(d); unsigned k = (unsigned)R->below(8);
    unsigned long want[] = {126464UL, 126996UL, 126998UL, 126993UL, 60928UL, 127250UL};
    if (k <= 1) frame(mkId(6, 59904UL, peer(), na), 3, le(want[R->below(6)], 3));
    else if (k <= 3) {   // group-function request; for 126464 with the selector pair (field 1 = transmit/receive list)
      unsigned long p = R->chance(1, 2) ? 126464UL : want[R->below(4)];
      std::vector<unsigned char> pl = {0, (unsigned char)p, (unsigned char)(p >> 8), (unsigned char)(p >> 16), 0xff, 0xff, 0xff, 0xff, 0xff, 0xff};
      if (p == 126464UL && R->chance(3, 4)) { pl.push_back(1); pl.push_back(1); pl.push_back((unsigned char)R->below(2)); } else pl.push_back(0);
      fastPacket(126208UL, 3, peer(), na, pl);
    }
    else if (k == 4) { char s[96]; snprintf(s, sizeof s, "send %d %d %lu %u %d", d, (int)R->below(2), R->chance(1, 2) ? 126996UL : 130900UL, R->chance(1, 2) ? peer() : 255u, (int)R->range(0, 60)); exec(s); }
    else if (k == 5) { std::vector<unsigned char> cm = {16, 20, 0, 3, 0xff, 0x00, 0xef, 0x01}; frame(mkId(7, 60416UL, peer(), N->src(d)), 8, cm); }   // RTS to the moving device
    else exec("t " + std::to_string(R->range(1, 60)));
  }
}

// a complete, undamaged fast packet whose first frame announces any length 0..255 and which carries `frames` frames
// (0..32, all 8 bytes, counters in order): the application must never see more than 223 bytes
static void exactFastPacket() {
  unsigned long pgn = R->chance(1, 2) ? 129029UL : (R->chance(1, 2) ? 126996UL : 130816UL + R->below(20));
  unsigned src = peer(); unsigned dst = R->chance(1, 2) ? 255u : ourAddr(); int seq = (int)R->below(8);
  int L = R->chance(2, 3) ? (int)R->range(217, 255) : (int)R->below(256);
  int frames = R->chance(2, 3) ? 32 : (int)R->range(1, 32);
  C.count("exact_fast_packets");
  for (int k = 0; k < frames; k++) {
    std::vector<unsigned char> f = rnd(8); f[0] = (unsigned char)(seq << 5 | (k & 31)); if (k == 0) f[1] = (unsigned char)L;
    frame(mkId(6, pgn, src, dst), 8, f);
  }
}
static void garbage() { frame((unsigned long)R->next() & (R->chance(1, 4) ? 0xFFFFFFFFUL : 0x1FFFFFFFUL), (int)R->below(9), rnd(8)); }


// undamaged fast packet with exactly the given payload (no random loss, DLC 8)
static void cleanFastPacket(unsigned long pgn, unsigned prio, unsigned src, unsigned dst, const std::vector<unsigned char> &pl, int seq) {
  size_t nfr = pl.size() <= 6 ? 1 : 1 + (pl.size() - 6 + 6) / 7;
  for (size_t k = 0; k < nfr; k++) {
    std::vector<unsigned char> f(8, 0xff); f[0] = (unsigned char)(seq << 5 | (k & 31));
    if (k == 0) { f[1] = (unsigned char)pl.size(); for (size_t j = 0; j < 6 && j < pl.size(); j++) f[2 + j] = pl[j]; }
    else { size_t off = 6 + 7 * (k - 1); for (size_t j = 0; j < 7 && off + j < pl.size(); j++) f[1 + j] = pl[off + j]; }
    frame(mkId(prio, pgn, src, dst), 8, f);
  }
}
// Directed histories that are part of EVERY run, whatever the seed: the shapes that earlier seeded changes needed and that the
// random grammar reaches only with some luck.
static void directedCases() {
  for (int devs = 1; devs <= 2; devs++) {
    char b[160]; snprintf(b, sizeof b, "reset x 2 %d 5 1 %d 40", devs, 100000 * devs); exec(b);
    unsigned me = N->src(devs - 1);
    // group-function Command for 126998: one or two installation descriptions, ASCII and UCS-2, each of length 1, 35, 69, 70, 71, 100
    int lens[] = {1, 35, 69, 70, 71, 100};
    for (int a = 0; a < 6; a++) for (int kind = 0; kind < 4; kind++) {
      std::vector<unsigned char> pl = {1, (unsigned char)(126998UL & 0xff), (unsigned char)((126998UL >> 8) & 0xff), (unsigned char)(126998UL >> 16), 0xF8, 2};
      for (int q = 0; q < 2; q++) {
        int n = q == 0 ? lens[a] : 5; bool ucs = (kind >> q) & 1;
        pl.push_back((unsigned char)(q + 1));
        if (ucs) { if (n > 50) n = 50; pl.push_back((unsigned char)(2 + 2 * n)); pl.push_back(0); for (int i = 0; i < n; i++) { pl.push_back((unsigned char)('A' + q)); pl.push_back(0); } }
        else { pl.push_back((unsigned char)(2 + n)); pl.push_back(1); for (int i = 0; i < n; i++) pl.push_back((unsigned char)('A' + q)); }
      }
      if (pl.size() > 223) pl.resize(223);
      cleanFastPacket(126208UL, 3, 40, me, pl, (a + kind) & 7);
    }
    // group-function Request for 126998 with match strings of the same lengths
    for (int a = 0; a < 6; a++) {
      std::vector<unsigned char> pl = {0, (unsigned char)(126998UL & 0xff), (unsigned char)((126998UL >> 8) & 0xff), (unsigned char)(126998UL >> 16), 0xff, 0xff, 0xff, 0xff, 0xff, 0xff, 1, 1};
      pl.push_back((unsigned char)(2 + lens[a])); pl.push_back(1); for (int i = 0; i < lens[a]; i++) pl.push_back('Q');
      cleanFastPacket(126208UL, 3, 41, me, pl, a);
    }
    // complete fast packets announcing 223..255 bytes with all 32 frames
    for (int L = 223; L <= 255; L += 8) { std::vector<unsigned char> pl(223, 0x5a); int seq = L & 7;
      for (int k = 0; k < 32; k++) { std::vector<unsigned char> f(8, 0x5a); f[0] = (unsigned char)(seq << 5 | k); if (k == 0) f[1] = (unsigned char)L; frame(mkId(6, 129029UL, 42, 255), 8, f); } }
    // transport-protocol RTS with packet-count byte 0, 1 and 255 followed by data packets; BAM with the node's own NAME as commanded address
    for (int pk : {0, 1, 255}) { std::vector<unsigned char> cm = {16, 20, 0, (unsigned char)pk, 0xff, 0x00, 0xef, 0x01}; frame(mkId(7, 60416UL, 43, me), 8, cm);
      for (int k = 1; k <= 3; k++) { std::vector<unsigned char> dt(8, 0x11); dt[0] = (unsigned char)k; frame(mkId(7, 60160UL, 43, me), 8, dt); } }
    { std::vector<unsigned char> pl = le(N->name(devs - 1), 8); pl.push_back(77); bamTo(44, 65240UL, pl);
      frame(mkId(6, 59904UL, 45, N->src(devs - 1)), 3, le(126996UL, 3)); exec("t 30"); frame(mkId(6, 59904UL, 45, 255), 3, le(126464UL, 3)); exec("t 300"); }
    // a first message from an unknown source, then silence, then again (device list name-request pacing)
    frame(mkId(2, 127250UL, 90, 255), 8, rnd(8)); exec("t 61000"); frame(mkId(2, 127250UL, 90, 255), 8, rnd(8)); exec("t 1500");
  }
  // forwarding in Actisense format: messages whose every byte - payload, source, PGN low byte, reception time - is the escape character
  for (unsigned long long origin : {0x1010100FULL - 700, 5000ULL}) {
    char b[160]; snprintf(b, sizeof b, "reset x 2 1 5 0 %llu 40 fwd", origin); exec(b);
    for (int rep = 0; rep < 3; rep++) for (int L : {223, 222, 120, 8, 1}) {
      std::vector<unsigned char> pl((size_t)L, 0x10);
      if (L > 8) cleanFastPacket(130832UL, 2, 0x10, 255, pl, rep); else frame(mkId(2, 130832UL - 0x10 * 0 , 0x10, 255), L, pl);
      exec("t 1");
    }
    exec("send 0 0 130832 255 223"); exec("poll");
  }
}

static void oneCase() {
  int md = R->chance(1, 5) ? (int)R->below(5) : 2; int devs = R->chance(1, 2) ? 1 : (int)R->range(1, 9);
  uint64_t origin = R->chance(1, 3) ? 0xFFFFFFFFULL - R->below(5000) : R->below(1000000);
  char b[160]; snprintf(b, sizeof b, "reset x %d %d %d %d %llu %d", md, devs, (int)R->range(1, 8), (int)R->below(2), (unsigned long long)origin, R->chance(1, 2) ? 40 : (int)R->range(2, 12)); exec(b);
  int n = (int)R->range(20, 120);
  for (int i = 0; i < n; i++) {
    unsigned k = (unsigned)R->below(100);
    if (R->chance(1, 40)) {   // driver back-pressure: the send queue fills with answers and wraps
      exec("acc 0");
      int m = (int)R->range(10, 130);
      for (int j = 0; j < m; j++) { unsigned long q = R->chance(1, 2) ? 60928UL : (R->chance(1, 2) ? 126996UL : 126464UL); frame(mkId(6, 59904UL, peer(), R->chance(1, 3) ? 255 : N->src((int)R->below(nDev))), 3, le(q, 3)); if (R->chance(1, 10)) exec("t " + std::to_string(R->range(100, 500))); }
      exec("acc 1"); exec("poll"); exec("poll");
      continue;
    }
    if (R->chance(1, 25)) { claimWindowProbe(); continue; }
    if (R->chance(1, 30)) { exactFastPacket(); continue; }
    if (k < 18) tpSession(R->chance(3, 4));
    else if (k < 26) tpControl();
    else if (k < 38) groupFunction();
    else if (k < 41) gfConfCommand();
    else if (k < 43) gfConfRequest();
    else if (k < 52) deviceInfoTraffic();
    else if (k < 60) deviceListScenario();
    else if (k < 74) isoStuff();
    else if (k < 82) garbage();
    else if (k < 88) { char s[96]; snprintf(s, sizeof s, "send %d %d %lu %u %d", (int)R->below(devs), (int)R->below(2), R->chance(1, 2) ? 126996UL : 130900UL, R->chance(1, 2) ? peer() : 255u, (int)R->range(0, 223)); exec(s); }
    else if (k < 96) exec("t " + std::to_string(R->chance(1, 4) ? R->range(0, 70000) : R->range(0, 300)));
    else exec("poll");
  }
}

int main(int argc, char **argv) {
  C.init(argc, argv);
  signal(SIGALRM, watchdog);
  C.rule = "case = one node with a grammar-generated frame history; non-trivial = contains a transport-protocol session and an own-address change; distinct = hash of the (abbreviated) op sequence";
  if (!C.replay.empty()) { for (auto &l : readLines(C.replay)) exec(l); endCase(); C.finish(); return 0; }
  Rng rr(C.seed * 7919 + 13); R = &rr;
  int ncases = C.thorough ? 1500 : 150;
  if (getenv("N2K_FUZZ_CASES")) ncases = atoi(getenv("N2K_FUZZ_CASES"));   // reduced budget for the run under valgrind memcheck
  directedCases();
  for (int i = 0; i < ncases; i++) oneCase();
  endCase();
  C.sample("grammar: TP sessions (RTS/BAM/DT/CTS/EndAck/Abort, wrong counts and sequence numbers, address loss in the middle), group functions (all codes, pair counts 0..255, truncated), ISO request/ack/commanded address/claims (NAME 0, all-ones), 126996/126998/126464 of all sizes, damaged fast packets, random identifiers and DLC 0..8, clock jumps");
  C.count("delivered_messages", delivered);
  C.finish();
  return 0;
}
