import N2k.Lemmas.HandlersOps
import N2k.Spec.HandlersRx
/-! C14 end to end: every history of client operations and received frames causes exactly the expected calls. -/
namespace N2k.Handlers

theorem nodeRun_ok (c : BusId → Rx.Cfg) : ∀ (evs : List Ev) (n : Node), Inv n.w →
    ∃ n' calls, nodeRun c n evs = some (n', calls) ∧ Inv n'.w ∧
      CallsAgree calls (expected c (view n.w) n.rx evs)
  | [], n, hi => ⟨n, [], rfl, hi, trivial⟩
  | e :: evs, n, hi => by
    have recv : ∀ e : Ev, (∀ o, e ≠ .op o) →
        (nodeStep c n e = match (rxTrack c n.rx e).2 with
          | none => some (⟨n.w, (rxTrack c n.rx e).1⟩, none)
          | some bm => match dispatch n.w bm.1 bm.2.pgn with
            | none => none
            | some r => some (⟨n.w, (rxTrack c n.rx e).1⟩, some ⟨bm.1, bm.2, r.1, r.2⟩)) ∧
        expected c (view n.w) n.rx (e :: evs) =
          ((rxTrack c n.rx e).2.map fun bm => ⟨bm.1, bm.2, view n.w⟩) :: expected c (view n.w) (rxTrack c n.rx e).1 evs := by
      intro e he
      cases e with
      | op o => exact absurd rfl (he o)
      | frame b now f => exact ⟨rfl, rfl⟩
      | tpDone b m => exact ⟨rfl, rfl⟩
    have fin : (∀ o, e ≠ .op o) → ∃ n' calls, nodeRun c n (e :: evs) = some (n', calls) ∧ Inv n'.w ∧
        CallsAgree calls (expected c (view n.w) n.rx (e :: evs)) := by
      intro he
      obtain ⟨hs, hx⟩ := recv e he
      rw [hx]
      cases hbm : (rxTrack c n.rx e).2 with
      | none =>
        simp only [hbm] at hs
        obtain ⟨n', calls, hr, hi', hc⟩ := nodeRun_ok c evs ⟨n.w, (rxTrack c n.rx e).1⟩ hi
        refine ⟨n', none :: calls, ?_, hi', ?_⟩
        · simp [nodeRun, hs, hr]
        · exact hc
      | some bm =>
        obtain ⟨l, hd, hn, hm, ho⟩ := dispatch_ok hi bm.1 bm.2.pgn
        simp only [hbm, hd] at hs
        obtain ⟨n', calls, hr, hi', hc⟩ := nodeRun_ok c evs ⟨n.w, (rxTrack c n.rx e).1⟩ hi
        refine ⟨n', some ⟨bm.1, bm.2, if n.w.cb bm.1 then 1 else 0, l⟩ :: calls, ?_, hi', ?_⟩
        · simp [nodeRun, hs, hr]
        · exact ⟨⟨rfl, rfl, rfl, hn, hm, ho⟩, hc⟩
    cases e with
    | op o =>
      obtain ⟨w', hst, hi', hv⟩ := step_ok hi o
      obtain ⟨n', calls, hr, hi'', hc⟩ := nodeRun_ok c evs ⟨w', n.rx⟩ hi'
      refine ⟨n', none :: calls, ?_, hi'', ?_⟩
      · simp [nodeRun, nodeStep, hst, hr]
      · show CallsAgree calls (expected c (specStep (view n.w) o) n.rx evs)
        rw [← hv]; exact hc
    | frame b now f => exact fin (fun o h => by cases h)
    | tpDone b m => exact fin (fun o h => by cases h)

end N2k.Handlers
