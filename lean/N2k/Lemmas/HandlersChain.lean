import N2k.Spec.Handlers
/-! Pointer-chain lemmas for C14: segments, fuel, and the loops of Attach/Detach/RunMessageHandlers on a chain. -/
namespace N2k.Handlers

/-! ### elementary facts about the heap updates -/

@[simp] theorem setObj_obj (w : World) (i j : Id) (o : Option Obj) :
    (setObj w i o).obj j = if j = i then o else w.obj j := rfl
@[simp] theorem setObj_head (w : World) (i : Id) (o : Option Obj) : (setObj w i o).head = w.head := rfl
@[simp] theorem setObj_cb (w : World) (i : Id) (o : Option Obj) : (setObj w i o).cb = w.cb := rfl
@[simp] theorem setObj_bound (w : World) (i : Id) (o : Option Obj) : (setObj w i o).bound = w.bound := rfl
@[simp] theorem setHead_obj (w : World) (b : BusId) (p : Option Id) : (setHead w b p).obj = w.obj := rfl
@[simp] theorem setHead_head (w : World) (b c : BusId) (p : Option Id) :
    (setHead w b p).head c = if c = b then p else w.head c := rfl
@[simp] theorem setHead_cb (w : World) (b : BusId) (p : Option Id) : (setHead w b p).cb = w.cb := rfl
@[simp] theorem setHead_bound (w : World) (b : BusId) (p : Option Id) : (setHead w b p).bound = w.bound := rfl

theorem wrNext_eq {w : World} {i : Id} {o : Obj} (h : w.obj i = some o) (n : Option Id) :
    wrNext w i n = some (setObj w i (some ⟨o.pgn, o.owner, n⟩)) := by
  simp [wrNext, h]

theorem wrOwner_eq {w : World} {i : Id} {o : Obj} (h : w.obj i = some o) (b : Option BusId) :
    wrOwner w i b = some (setObj w i (some ⟨o.pgn, b, o.next⟩)) := by
  simp [wrOwner, h]

theorem pgnOf_eq {w : World} {i : Id} {o : Obj} (h : w.obj i = some o) : pgnOf w i = o.pgn := by
  simp [pgnOf, h]

theorem ownerOf_eq {w : World} {i : Id} {o : Obj} (h : w.obj i = some o) : ownerOf w i = o.owner := by
  simp [ownerOf, h]

theorem ownerOf_some {w : World} {i : Id} {b : BusId} (h : ownerOf w i = some b) :
    ∃ o, w.obj i = some o ∧ o.owner = some b := by
  unfold ownerOf at h
  cases ho : w.obj i with
  | none => rw [ho] at h; cases h
  | some o => rw [ho] at h; exact ⟨o, rfl, h⟩

theorem ownerOf_congr {w w' : World} {i : Id} (h : w'.obj i = w.obj i) : ownerOf w' i = ownerOf w i := by
  simp [ownerOf, h]

theorem pgnOf_congr {w w' : World} {i : Id} (h : w'.obj i = w.obj i) : pgnOf w' i = pgnOf w i := by
  simp [pgnOf, h]

/-! ### segments -/

theorem seg_congr {w w' : World} : ∀ {l : List Id} {p q : Option Id},
    (∀ i, i ∈ l → w'.obj i = w.obj i) → Seg w p l q → Seg w' p l q
  | [], _, _, _, h => h
  | i :: l, _, _, hc, h => by
    obtain ⟨hp, o, ho, hs⟩ := h
    refine ⟨hp, o, ?_, seg_congr (fun j hj => hc j (List.mem_cons_of_mem _ hj)) hs⟩
    rw [hc i (List.mem_cons_self)]; exact ho

theorem seg_append {w : World} : ∀ {l1 l2 : List Id} {p q : Option Id},
    Seg w p (l1 ++ l2) q ↔ ∃ r, Seg w p l1 r ∧ Seg w r l2 q
  | [], l2, p, q => by
    constructor
    · intro h; exact ⟨p, rfl, h⟩
    · rintro ⟨r, hr, h⟩
      have : p = r := hr
      subst this; exact h
  | i :: l1, l2, p, q => by
    constructor
    · rintro ⟨hp, o, ho, hs⟩
      obtain ⟨r, h1, h2⟩ := (seg_append (l1 := l1)).1 hs
      exact ⟨r, ⟨hp, o, ho, h1⟩, h2⟩
    · rintro ⟨r, ⟨hp, o, ho, h1⟩, h2⟩
      exact ⟨hp, o, ho, (seg_append (l1 := l1)).2 ⟨r, h1, h2⟩⟩

theorem seg_head {w : World} {p q : Option Id} {i : Id} {l : List Id} (h : Seg w p (i :: l) q) : p = some i := h.1

/-- a segment is determined by its start: the first element of a non-empty continuation -/
theorem seg_next {w : World} {i : Id} {o : Obj} {l : List Id} {q : Option Id} (ho : w.obj i = some o)
    (h : Seg w (some i) (i :: l) q) : Seg w o.next l q := by
  obtain ⟨_, o', ho', hs⟩ := h
  rw [ho] at ho'; cases ho'; exact hs

/-! ### fuel: a duplicate-free list of addresses below `n` has at most `n` elements -/

theorem length_le_of_nodup_lt : ∀ (n : Nat) (l : List Nat), l.Nodup → (∀ x, x ∈ l → x < n) → l.length ≤ n
  | 0, l, _, hlt => by
    cases l with
    | nil => simp
    | cons a t => exact absurd (hlt a List.mem_cons_self) (Nat.not_lt_zero _)
  | n + 1, l, hnd, hlt => by
    have h1 : (l.erase n).length ≤ n := by
      apply length_le_of_nodup_lt n _ (hnd.erase n)
      intro x hx
      have hx' := (List.Nodup.mem_erase_iff hnd).1 hx
      have := hlt x hx'.2
      omega
    have h2 := List.length_erase (a := n) (l := l)
    by_cases hm : n ∈ l
    · rw [if_pos hm] at h2; omega
    · rw [if_neg hm] at h2; omega

theorem chain_fuel {w : World} (hi : Inv w) {b : BusId} {l : List Id} (hb : BusInv w b l) : l.length ≤ w.bound := by
  apply length_le_of_nodup_lt _ _ hb.nodup
  intro x hx
  obtain ⟨o, ho, _⟩ := ownerOf_some ((hb.mem x).1 hx)
  exact hi.bnd x o ho

/-! ### the predecessor search of `DetachMsgHandler` -/

theorem findPred_spec {w : World} {h m : Id} : ∀ (l1 : List Id) (p : Option Id) (f : Nat),
    (∀ x, x ∈ l1 → x ≠ h) → m ≠ h → Seg w p (l1 ++ [m]) (some h) → l1.length + 1 ≤ f →
    findPred w h f p = some (some m)
  | [], p, f, _, _, hs, hf => by
    obtain ⟨hp, o, ho, hq⟩ := hs
    have hq' : o.next = some h := hq
    cases f with
    | zero => omega
    | succ f => subst hp; simp [findPred, ho, hq']
  | a :: t, p, f, hne, hm, hs, hf => by
    obtain ⟨hp, o, ho, hq⟩ := hs
    cases f with
    | zero => simp at hf
    | succ f =>
      subst hp
      have hnx : o.next ≠ some h := by
        cases t with
        | nil =>
          have := seg_head hq
          rw [this]; intro e; cases e; exact hm rfl
        | cons b t' =>
          have := seg_head hq
          rw [this]; intro e
          exact hne b (List.mem_cons_of_mem _ List.mem_cons_self) (Option.some.inj e)
      have ih := findPred_spec t o.next f (fun x hx => hne x (List.mem_cons_of_mem _ hx)) hm hq
        (by simp at hf; omega)
      simp [findPred, ho, hnx, ih]

/-! ### the insertion-point search of `AttachMsgHandler` -/

theorem findIns_spec {w : World} {p : Nat} : ∀ (t : List Id) (m : Id) (f : Nat),
    Seg w (some m) (m :: t) none → t.length + 1 ≤ f →
    ∃ l1 k l2, m :: t = l1 ++ k :: l2 ∧ findIns w p f m = some k ∧
      (∀ x, x ∈ l1 ++ [k] → x = m ∨ pgnOf w x < p) ∧ (∀ x, l2.head? = some x → p ≤ pgnOf w x)
  | [], m, f, hs, hf => by
    obtain ⟨_, o, ho, hq⟩ := hs
    have hq' : o.next = none := hq
    cases f with
    | zero => omega
    | succ f =>
      refine ⟨[], m, [], rfl, ?_, ?_, ?_⟩
      · simp [findIns, ho, hq']
      · intro x hx; simp at hx; exact Or.inl hx
      · intro x hx; simp at hx
  | n :: t, m, f, hs, hf => by
    obtain ⟨_, o, ho, hq⟩ := hs
    have hn : o.next = some n := seg_head hq
    rw [hn] at hq
    obtain ⟨_, on, hon, _⟩ := id hq
    cases f with
    | zero => simp at hf
    | succ f =>
      by_cases hlt : on.pgn < p
      · obtain ⟨l1, k, l2, hl, hfi, h1, h2⟩ := findIns_spec (p := p) t n f hq (by simp at hf; omega)
        refine ⟨m :: l1, k, l2, by rw [hl]; rfl, ?_, ?_, h2⟩
        · simp [findIns, ho, hn, hon, hlt, hfi]
        · intro x hx
          rcases List.mem_cons.1 hx with hx | hx
          · exact Or.inl hx
          · rcases h1 x hx with hx | hx
            · right; rw [hx, pgnOf_eq hon]; exact hlt
            · exact Or.inr hx
      · refine ⟨[], m, n :: t, rfl, ?_, ?_, ?_⟩
        · simp [findIns, ho, hn, hon, hlt]
        · intro x hx; simp at hx; exact Or.inl hx
        · intro x hx
          simp at hx; subst hx
          rw [pgnOf_eq hon]; omega

/-! ### the two loops of `RunMessageHandlers` on a sorted chain -/

theorem loopP_spec {w : World} {P : Nat} : ∀ (l : List Id) (p : Option Id) (f : Nat),
    Seg w p l none → l.length + 1 ≤ f → l.Pairwise (fun i j => pgnOf w i ≤ pgnOf w j) →
    loopP w P f p = some (l.filter fun i => pgnOf w i == P)
  | [], p, f, hs, hf, _ => by
    have hp : p = none := hs
    cases f with
    | zero => omega
    | succ f => subst hp; simp [loopP]
  | i :: l, p, f, hs, hf, hsrt => by
    obtain ⟨hp, o, ho, hq⟩ := hs
    cases f with
    | zero => simp at hf
    | succ f =>
      subst hp
      have hpg : pgnOf w i = o.pgn := pgnOf_eq ho
      rw [List.pairwise_cons] at hsrt
      by_cases hle : o.pgn ≤ P
      · have ih := loopP_spec (P := P) l o.next f hq (by simp at hf; omega) hsrt.2
        by_cases he : o.pgn = P
        · simp [loopP, ho, ih, he, hpg]
        · simp [loopP, ho, hle, ih, he, hpg]
      · have hnil : (i :: l).filter (fun j => pgnOf w j == P) = [] := by
          rw [List.filter_eq_nil_iff]
          intro x hx
          rcases List.mem_cons.1 hx with hx | hx
          · subst hx; simp [hpg]; omega
          · have := hsrt.1 x hx
            simp; omega
        rw [hnil]
        simp [loopP, ho, hle]

theorem loops_spec {w : World} {P : Nat} : ∀ (l : List Id) (p : Option Id) (f0 f1 : Nat),
    Seg w p l none → l.length + 1 ≤ f0 → l.length + 1 ≤ f1 → l.Pairwise (fun i j => pgnOf w i ≤ pgnOf w j) →
    ∃ r l', loop0 w f0 p = some r ∧ loopP w P f1 r.2 = some l' ∧
      r.1 ++ l' = l.filter fun i => pgnOf w i == 0 || pgnOf w i == P
  | [], p, f0, f1, hs, h0, h1, _ => by
    have hp : p = none := hs
    cases f0 with
    | zero => omega
    | succ f0 =>
      cases f1 with
      | zero => omega
      | succ f1 => subst hp; exact ⟨([], none), [], by simp [loop0], by simp [loopP], by simp⟩
  | i :: l, p, f0, f1, hs, h0, h1, hsrt => by
    have hs' := hs
    obtain ⟨hp, o, ho, hq⟩ := hs
    cases f0 with
    | zero => simp at h0
    | succ f0 =>
      subst hp
      have hpg : pgnOf w i = o.pgn := pgnOf_eq ho
      by_cases hz : o.pgn = 0
      · obtain ⟨r, l', hr, hl', he⟩ := loops_spec (P := P) l o.next f0 f1 hq (by simp at h0; omega)
          (by simp at h1; omega) (List.pairwise_cons.1 hsrt).2
        refine ⟨(i :: r.1, r.2), l', by simp [loop0, ho, hz, hr], hl', ?_⟩
        simp [hpg, hz, he]
      · refine ⟨([], some i), _, by simp [loop0, ho, hz], loopP_spec (P := P) (i :: l) (some i) f1 hs' h1 hsrt, ?_⟩
        simp only [List.nil_append]
        apply List.filter_congr
        intro x hx
        have hx0 : pgnOf w x ≠ 0 := by
          rcases List.mem_cons.1 hx with hx | hx
          · subst hx; rw [hpg]; exact hz
          · have := (List.pairwise_cons.1 hsrt).1 x hx
            omega
        simp [hx0]

end N2k.Handlers
