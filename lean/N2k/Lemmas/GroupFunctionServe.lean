import N2k.Lemmas.GroupFunctionFields
/-! A well-formed request is served iff every selection field matches (C09). -/
namespace N2k.GF
open N2k.Send N2k.GFSpec

theorem reqHeader_length (pgn iv off pairs : Nat) : (reqHeader pgn iv off pairs).length = 11 := by
  simp [reqHeader, GFSpec.le3, GFSpec.le4, GFSpec.le2]

/-- the common skeleton on a well-formed addressed request: request OK iff timing acceptable and all fields match -/
theorem reqRun_wellformed {σ : Type} (step : Step) (pgnH : Nat) (m : Msg) (enc : σ → List Nat) (ok : σ → Bool) (wf : σ → Prop)
    (hstep : ∀ idx s, wf s → At m idx (enc s) → ∀ mf aux, (step m idx mf aux).idx = idx + (enc s).length
      ∧ (step m idx mf aux).mf = (mf && ok s) ∧ (step m idx mf aux).invalid = false)
    (pgn iv off : Nat) (sels : List σ) (junk : List Nat)
    (hd : m.data = reqHeader pgn iv off sels.length ++ sels.flatMap enc ++ junk)
    (hl : m.len = 11 + (sels.flatMap enc).length) (hdst : m.dst ≠ 255)
    (hiv : iv < 4294967296) (hoff : off < 65536) (hwf : ∀ s ∈ sels, wf s) :
    (reqRun step pgnH m).1 = (sels.all ok && (tpErrDefault iv off == 0)) := by
  have hrp := reqParams_header hd hl hiv hoff
  have hat : At m 11 (sels.flatMap enc) := by
    have := at_body hd (by rw [reqHeader_length]; exact hl)
    rwa [reqHeader_length] at this
  have hbc : (m.dst == 255) = false := by simpa using hdst
  unfold reqRun
  simp only [hrp, hbc]
  by_cases hp : sels.length > 0
  · rw [if_pos hp]
    have hpairs := pairs_of_sels step m enc ok wf hstep sels 11 hwf hat
    have := reqLoop_pairs hpairs 0 true 0xff (startAck pgnH 0 (tpErrDefault iv off) sels.length)
    simp only [List.length_map] at this
    rw [this]
    simp [List.all_map, Function.comp_def]
  · rw [if_neg hp]
    have : sels = [] := by cases sels with | nil => rfl | cons _ _ => simp at hp
    subst this; simp

theorem serve_iff {b : Bool} {s n k : Act} {c : Prop} [Decidable c] (hn : n ≠ s) (hk : k ≠ s) :
    ((if b = true then s else if c then n else k) = s) ↔ b = true := by
  cases b
  · simp only [Bool.false_eq_true, if_false]
    by_cases hc : c
    · rw [if_pos hc]; exact ⟨fun h => absurd h hn, fun h => nomatch h⟩
    · rw [if_neg hc]; exact ⟨fun h => absurd h hk, fun h => nomatch h⟩
  · simp

theorem req60928_served_iff (a : Attr) (m : Msg) (iv off : Nat) (sels : List Sel60928) (junk : List Nat)
    (hd : m.data = reqHeader 60928 iv off sels.length ++ sels.flatMap Sel60928.enc ++ junk)
    (hl : m.len = 11 + (sels.flatMap Sel60928.enc).length) (hdst : m.dst ≠ 255)
    (hiv : iv < 4294967296) (hoff : off < 65536) :
    req60928 a m = .serve60928 ↔ (tpErrDefault iv off = 0 ∧ ∀ s ∈ sels, ok60928 a s = true) := by
  have hr := reqRun_wellformed (step60928 a) 60928 m Sel60928.enc (ok60928 a) (fun _ => True)
    (fun idx s _ hat mf aux => step60928_sel a m idx s hat mf aux) 60928 iv off sels junk hd hl hdst hiv hoff (fun _ _ => trivial)
  unfold req60928
  simp only []
  rw [serve_iff (by simp) (by simp), hr]
  simp [List.all_eq_true, and_comm]

theorem req126464_served_iff (m : Msg) (iv off : Nat) (sels : List Sel126464) (junk : List Nat)
    (hd : m.data = reqHeader 126464 iv off sels.length ++ sels.flatMap Sel126464.enc ++ junk)
    (hl : m.len = 11 + (sels.flatMap Sel126464.enc).length) (hdst : m.dst ≠ 255)
    (hiv : iv < 4294967296) (hoff : off < 65536) :
    (∃ tx rx, req126464 m = .servePgnList m.src tx rx m.tp) ↔ (tpErrDefault iv off = 0 ∧ ∀ s ∈ sels, ok126464 s = true) := by
  have hr := reqRun_wellformed step126464 126464 m Sel126464.enc ok126464 (fun _ => True)
    (fun idx s _ hat mf aux => step126464_sel m idx s hat mf aux) 126464 iv off sels junk hd hl hdst hiv hoff (fun _ _ => trivial)
  have hdest : answerDest m = m.src := by simp [answerDest, hdst]
  unfold req126464
  simp only [hdest]
  by_cases hb : (reqRun step126464 126464 m).1 = true
  · rw [if_pos hb]
    rw [hr] at hb
    refine ⟨fun _ => ?_, fun _ => ⟨_, _, rfl⟩⟩
    simpa [List.all_eq_true, and_comm] using hb
  · rw [if_neg hb, if_neg hdst]
    rw [hr] at hb
    constructor
    · rintro ⟨_, _, h⟩; cases h
    · intro h; exact absurd (by simpa [List.all_eq_true, and_comm] using h) hb

theorem req126996_served_iff (p : Prod) (m : Msg) (iv off : Nat) (sels : List Sel126996) (junk : List Nat)
    (hd : m.data = reqHeader 126996 iv off sels.length ++ sels.flatMap Sel126996.enc ++ junk)
    (hl : m.len = 11 + (sels.flatMap Sel126996.enc).length) (hdst : m.dst ≠ 255)
    (hiv : iv < 4294967296) (hoff : off < 65536) (hwf : ∀ s ∈ sels, s.wf) :
    req126996 p m = .serveProduct m.src m.tp ↔ (tpErrDefault iv off = 0 ∧ ∀ s ∈ sels, ok126996 p s = true) := by
  have hr := reqRun_wellformed (step126996 p) 126996 m Sel126996.enc (ok126996 p) Sel126996.wf
    (fun idx s hw hat mf aux => step126996_sel p m idx s hw hat mf aux) 126996 iv off sels junk hd hl hdst hiv hoff hwf
  have hdest : answerDest m = m.src := by simp [answerDest, hdst]
  unfold req126996
  simp only [hdest]
  rw [serve_iff (by simp) (by simp), hr]
  simp [List.all_eq_true, and_comm]

theorem req126998_served_iff (c : Conf) (m : Msg) (iv off : Nat) (sels : List Sel126998) (junk : List Nat)
    (hd : m.data = reqHeader 126998 iv off sels.length ++ sels.flatMap Sel126998.enc ++ junk)
    (hl : m.len = 11 + (sels.flatMap Sel126998.enc).length) (hdst : m.dst ≠ 255)
    (hiv : iv < 4294967296) (hoff : off < 65536) (hwf : ∀ s ∈ sels, s.wf) :
    req126998 c m = .serveConfig m.src m.tp ↔ (tpErrDefault iv off = 0 ∧ ∀ s ∈ sels, ok126998 c s = true) := by
  have hr := reqRun_wellformed (step126998 c) 126998 m Sel126998.enc (ok126998 c) Sel126998.wf
    (fun idx s hw hat mf aux => step126998_sel c m idx s hw hat mf aux) 126998 iv off sels junk hd hl hdst hiv hoff hwf
  have hdest : answerDest m = m.src := by simp [answerDest, hdst]
  unfold req126998
  simp only [hdest]
  rw [serve_iff (by simp) (by simp), hr]
  simp [List.all_eq_true, and_comm]

/-! ## unknown field numbers -/

/-- after an invalid field every further pair is answered "temporarily unable to comply" (2) -/
theorem reqLoop_invalid (step : Step) (m : Msg) : ∀ (n i idx : Nat) (mf : Bool) (aux : Nat) (ack : List Nat),
    reqLoop step m false n i idx mf true aux ack = (mf, aux, ackParams 2 n i ack)
  | 0, _, _, _, _, _ => rfl
  | n + 1, i, idx, mf, aux, ack => by
    unfold reqLoop
    rw [if_neg (by simp), if_neg (by simp)]
    rw [reqLoop_invalid step m n]; rfl

/-- a request whose first `sels` pairs are well formed, followed by a field number the handler does not know and
`k` further announced pairs: not served; the unknown field gets error code 1 (invalid parameter field) and each
of the remaining pairs 2 (temporarily unable to comply) -/
theorem reqRun_unknown {σ : Type} (step : Step) (pgnH : Nat) (m : Msg) (enc : σ → List Nat) (ok : σ → Bool) (wf : σ → Prop)
    (hstep : ∀ idx s, wf s → At m idx (enc s) → ∀ mf aux, (step m idx mf aux).idx = idx + (enc s).length
      ∧ (step m idx mf aux).mf = (mf && ok s) ∧ (step m idx mf aux).invalid = false)
    (pgn iv off u k : Nat) (sels : List σ) (rest junk : List Nat)
    (hunk : ∀ idx mf aux, At m idx [u] → step m idx mf aux = invalidField (idx + 1) aux)
    (hd : m.data = reqHeader pgn iv off (sels.length + (1 + k)) ++ (sels.flatMap enc ++ u :: rest) ++ junk)
    (hl : m.len = 11 + (sels.flatMap enc ++ u :: rest).length) (hdst : m.dst ≠ 255)
    (hiv : iv < 4294967296) (hoff : off < 65536) (hwf : ∀ s ∈ sels, wf s) :
    (reqRun step pgnH m).1 = false ∧
    (reqRun step pgnH m).2.2 = ackParams 2 k (sels.length + 1)
      (addAckParam (reqLoop step m false sels.length 0 11 true false 0xff
        (startAck pgnH 0 (tpErrDefault iv off) (sels.length + (1 + k)))).2.2 sels.length 1) := by
  have hrp := reqParams_header hd hl hiv hoff
  have hat : At m 11 (sels.flatMap enc ++ u :: rest) := by
    have := at_body hd (by rw [reqHeader_length]; exact hl)
    rwa [reqHeader_length] at this
  have hbc : (m.dst == 255) = false := by simpa using hdst
  have hpairs := pairs_of_sels step m enc ok wf hstep sels 11 hwf hat.left
  have hu : At m (11 + (sels.flatMap enc).length) [u] := At.left (xs := [u]) (ys := rest) hat.right
  unfold reqRun
  simp only [hrp, hbc]
  rw [if_pos (by omega)]
  have hadd := reqLoop_pairs_add hpairs (1 + k) 0 true 0xff (startAck pgnH 0 (tpErrDefault iv off) (sels.length + (1 + k)))
  simp only [List.length_map, endIdx_sels] at hadd
  rw [hadd, Nat.add_comm 1 k, reqLoop_step, hunk _ _ _ hu]
  simp only [invalidField, reqLoop_invalid, Nat.zero_add]
  simp

theorem step60928_unknown (a : Attr) (m : Msg) (u : Nat) (hu : u = 0 ∨ 10 < u) (idx : Nat) (mf : Bool) (aux : Nat)
    (h : At m idx [u]) : step60928 a m idx mf aux = invalidField (idx + 1) aux := by
  have hf := h.getByte
  unfold step60928; simp only [hf]
  split <;> first | rfl | (exfalso; omega)

theorem step126464_unknown (m : Msg) (u : Nat) (hu : u ≠ 1) (idx : Nat) (mf : Bool) (aux : Nat)
    (h : At m idx [u]) : step126464 m idx mf aux = invalidField (idx + 1) aux := by
  have hf := h.getByte
  unfold step126464; simp only [hf]
  all_goals (split <;> first | rfl | (exfalso; omega))

theorem step126996_unknown (p : Prod) (m : Msg) (u : Nat) (hu : u = 0 ∨ 8 < u) (idx : Nat) (mf : Bool) (aux : Nat)
    (h : At m idx [u]) : step126996 p m idx mf aux = invalidField (idx + 1) aux := by
  have hf := h.getByte
  unfold step126996; simp only [hf]
  split <;> first | rfl | (exfalso; omega)

theorem step126998_unknown (c : Conf) (m : Msg) (u : Nat) (hu : u = 0 ∨ 3 < u) (idx : Nat) (mf : Bool) (aux : Nat)
    (h : At m idx [u]) : step126998 c m idx mf aux = invalidField (idx + 1) aux := by
  have hf := h.getByte
  unfold step126998; simp only [hf]
  split <;> first | rfl | (exfalso; omega)

end N2k.GF
