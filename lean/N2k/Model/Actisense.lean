/-!
# Model of the Actisense encoder and reader (C17)

Hand transcription of

* `AddByteEscapedToBuf`, `tN2kMsg::SendInActisenseFormat` (`N2kMsg.cpp`) — `encode`,
* `tActisenseReader::{ClearBuffer, AddByteToBuffer, CheckMessage, GetMessageFromStream,
  ParseMessages}` (`ActisenseReader.cpp`) — `clearBuffer`, `addByteToBuffer`, `checkMessage`,
  `readerStep` (one iteration of the `while` loop), `getMessage`, `parseAll`.

Conventions: bytes are `Nat`s `< 256`; C arrays are `List Byte` of the declared size with *checked*
indices (an out-of-range index is a `Fault`, never a silent default); uninitialised memory is a
universally quantified initial content. `int byteSum` of the reader is an `Int` and the `char`
parameter of `AddByteToBuffer` is converted with the signedness given in `Cfg` (x86: signed), so the
theorems cover both ABIs. Core Lean only.
-/
namespace N2k.Acti

/-- bytes are naturals (`< 256` wherever it matters is a hypothesis) -/
scoped notation "Byte" => Nat

inductive Fault where
  /-- `ActisenseMsgBuf[msgIdx]` with `msgIdx ≥ MaxActisenseMsgBuf` -/
  | encIndex
  /-- `Data[i]` with `i ≥ MaxDataLen` read by the encoder -/
  | encData
  /-- `MsgBuf[i]` with `i ∉ [0,300)` -/
  | bufIndex
  /-- `N2kMsg.Data[j]` with `j ≥ 223` written by the reader's copy-out loop -/
  | dataIndex
  /-- the `while` loop of `GetMessageFromStream` would peek the same byte again in the same state -/
  | livelock
  deriving Repr, DecidableEq, Inhabited

/-- The fields of a `tN2kMsg` the Actisense format carries. `len` is `DataLen`, `data` is
`Data[0 .. DataLen)`. -/
structure Msg where
  prio : Nat
  pgn : Nat
  dst : Nat
  src : Nat
  time : Nat
  len : Nat
  data : List Byte
  deriving Repr, DecidableEq, Inhabited

def maxDataLen : Nat := 223

/-! ## Encoder -/

/-- What the encoder's declarations say: the modulus of `msgIdx`'s type and `MaxActisenseMsgBuf`. -/
structure EncParams where
  idxMod : Nat
  bufSize : Nat

/-- `uint16_t msgIdx`, `MaxActisenseMsgBuf = 2+2*(13+223)+2+2` (the tree with the `fix:` commit) -/
def fixedParams : EncParams := ⟨65536, 478⟩
/-- `uint8_t msgIdx`, `MaxActisenseMsgBuf = 400` (the pinned tree) -/
def pinnedParams : EncParams := ⟨256, 400⟩

structure Enc where
  buf : List Byte
  idx : Nat
  sum : Nat

/-- `buf[idx++]=b` with a checked index; the increment wraps at the width of the index type -/
def Enc.put (p : EncParams) (e : Enc) (b : Byte) : Except Fault Enc :=
  if e.idx < e.buf.length then
    .ok { e with buf := e.buf.set e.idx b, idx := (e.idx + 1) % p.idxMod }
  else .error .encIndex

/-- `AddByteEscapedToBuf` -/
def Enc.addEscaped (p : EncParams) (e : Enc) (b : Byte) : Except Fault Enc :=
  match e.put p b with
  | .error f => .error f
  | .ok e1 =>
    let e2 := { e1 with sum := e1.sum + b }
    if b = 0x10 then e2.put p 0x10 else .ok e2

def Enc.addAll (p : EncParams) : Enc → List Byte → Except Fault Enc
  | e, [] => .ok e
  | e, b :: t => match e.addEscaped p b with
    | .error f => .error f
    | .ok e1 => Enc.addAll p e1 t

/-- `Data[0 .. DataLen)` as the `for` loop reads it -/
def dataBytes (m : Msg) : List Byte := (List.range m.len).map fun i => m.data.getD i 0

/-- the 13 bytes between the start sequence and the payload, as passed to `AddByteEscapedToBuf`
(every argument is converted to `unsigned char`) -/
def header (m : Msg) : List Byte :=
  [0x93, (m.len + 11) % 256, m.prio % 256,
   m.pgn % 256, m.pgn / 256 % 256, m.pgn / 65536 % 256,
   m.dst % 256, m.src % 256,
   m.time % 256, m.time / 256 % 256, m.time / 65536 % 256, m.time / 16777216 % 256,
   m.len % 256]

/-- `CheckSum = (uint8_t)((byteSum == 0) ? 0 : (256 - byteSum))` after `byteSum %= 256` -/
def encChecksum (sum : Nat) : Byte := if sum % 256 = 0 then 0 else 256 - sum % 256

/-- a run of plain `ActisenseMsgBuf[msgIdx++]=b;` statements -/
def Enc.putAll (p : EncParams) : Enc → List Byte → Except Fault Enc
  | e, [] => .ok e
  | e, b :: t => match e.put p b with
    | .error f => .error f
    | .ok e1 => Enc.putAll p e1 t

/-- `tN2kMsg::SendInActisenseFormat`: the bytes handed to `port->write` (one call), `[]` when the
message is not `IsValid()` (nothing is written). -/
def encode (p : EncParams) (m : Msg) : Except Fault (List Byte) :=
  if m.pgn = 0 ∨ m.len = 0 then .ok [] else
  if maxDataLen < m.len then .error .encData else
  let e0 : Enc := ⟨List.replicate p.bufSize 0, 0, 0⟩
  match Enc.putAll p e0 [0x10, 0x02] with
  | .error f => .error f
  | .ok e2 =>
  match Enc.addAll p e2 (header m ++ dataBytes m) with
  | .error f => .error f
  | .ok e3 =>
  let cs := encChecksum e3.sum
  -- `buf[idx++]=CheckSum; if (CheckSum==Escape) buf[idx++]=CheckSum; buf[idx++]=Escape; buf[idx++]=EndOfText;`
  match Enc.putAll p e3 ((if cs = 0x10 then [cs, cs] else [cs]) ++ [0x10, 0x03]) with
  | .error f => .error f
  | .ok e7 => .ok (e7.buf.take e7.idx)

/-- the encoder of the tree under test -/
def sendInActisense (m : Msg) : Except Fault (List Byte) := encode fixedParams m

/-! ## Forwarding policy (`NMEA2000.cpp`: which messages reach `SendInActisenseFormat(ForwardStream)`) -/

/-- `N2kMode` (0 `N2km_ListenOnly`, 1 `N2km_NodeOnly`, 2 `N2km_ListenAndNode`, 3 `N2km_SendOnly`,
4 `N2km_ListenAndSend`) and the bits of `ForwardMode` -/
structure FwdCfg where
  mode : Nat
  enable : Bool      -- EnableForward
  own : Bool         -- SetForwardOwnMessages
  knownOnly : Bool   -- SetForwardOnlyKnownMessages
  system : Bool      -- SetForwardSystemMessages

/-- `ForwardEnabled()` -/
def forwardEnabled (f : FwdCfg) : Bool := f.enable && f.mode != 3

/-- `ForwardMessage(const tN2kMsg&)` with `fwdt_Actisense`: is the message written
(`isMySource` = `IsMySource(N2kMsg.Source)`) -/
def forwardMsg (f : FwdCfg) (isMySource : Bool) : Bool :=
  !(!forwardEnabled f || (!(f.own && isMySource) && f.mode == 1))

/-- end of `SendMsg` (`dm_None`): `if ( ForwardOwnMessages() ) ForwardMessage(N2kMsg);` (source = own) -/
def forwardOwn (f : FwdCfg) : Bool := f.own && forwardMsg f true

/-- receive path of `ParseMessages`: `HandleReceivedSystemMessage` (`if ( ForwardSystemMessages() )
ForwardMessage(msg)`, not in the send-only modes) else `ForwardMessage(const tN2kCANMsg&)`
(`KnownMessage || !ForwardOnlyKnownMessages()`) -/
def forwardRx (f : FwdCfg) (known system isMySource : Bool) : Bool :=
  if system && !(f.mode == 3 || f.mode == 4) then f.system && forwardMsg f isMySource
  else (known || !f.knownOnly) && forwardMsg f isMySource

/-- what a forwarding decision puts on the forward stream -/
def forwarded (decision : Bool) (m : Msg) : Except Fault (List Byte) :=
  if decision then sendInActisense m else .ok []

/-- `SendMsg` on an open node whose driver accepts every frame: refused only in listen-only mode -/
def sendAccepted (f : FwdCfg) : Bool := f.mode != 0

/-! ## Reader -/

def maxBuf : Nat := 300

structure Cfg where
  /-- is plain `char` signed (`AddByteToBuffer(char NewByte)`; `byteSum+=NewByte`) -/
  signedChar : Bool
  defaultSource : Nat
  /-- `N2kMillis()` at the time of the call -/
  now : Nat
  /-- which time stamp a decoded data frame (0x93) carries is left open by the property: `false` = the four
  embedded time bytes (the library as it is), `true` = the local receive time `now` (as for 0x94 frames).
  The harness learns the value from the code under test and passes it with every `rnew`. -/
  stampLocal : Bool

structure RState where
  sot : Bool       -- StartOfTextReceived
  coming : Bool    -- MsgIsComing
  esc : Bool       -- EscapeReceived
  sum : Int        -- byteSum
  buf : List Byte  -- MsgBuf[300]; never cleared
  pos : Nat        -- MsgWritePos
  deriving Repr

/-- the constructor: `ClearBuffer()`, `MsgBuf` uninitialised (`buf0`) -/
def RState.init (buf0 : List Byte) : RState := ⟨false, false, false, 0, buf0, 0⟩

def clearBuffer (s : RState) : RState :=
  { s with pos := 0, sum := 0, sot := false, coming := false, esc := false }

def handling (s : RState) : Bool := s.coming || s.esc || s.sot

/-- conversion `int → char → int` of a byte value -/
def charVal (c : Cfg) (b : Byte) : Int := if c.signedChar = true ∧ 128 ≤ b then (b : Int) - 256 else b

/-- checked `MsgBuf[i]` -/
def bufGet (l : List Byte) (i : Nat) : Except Fault Byte :=
  if i < l.length then .ok (l.getD i 0) else .error .bufIndex

/-- `AddByteToBuffer` -/
def addByteToBuffer (c : Cfg) (s : RState) (b : Byte) : Except Fault (RState × Bool) :=
  if maxBuf ≤ s.pos then .ok (s, false) else
  if s.pos < s.buf.length then
    let buf' := s.buf.set s.pos b
    let pos' := s.pos + 1
    match bufGet buf' 1 with
    | .error f => .error f
    | .ok b1 =>
      let sum' := if b1 + 3 ≠ pos' then s.sum + charVal c b else s.sum
      .ok ({ s with buf := buf', pos := pos', sum := sum' }, true)
  else .error .bufIndex

/-- `(uint8_t)((byteSum == 0) ? 0 : (256 - byteSum))` -/
def rdChecksum (sum : Int) : Byte := ((256 - sum) % 256).toNat

/-- the copy-out loop `for (int j=0; i<MsgWritePos-1; i++, j++) N2kMsg.Data[j]=MsgBuf[i];`
(`n` = remaining iterations), returning the bytes written to `Data[0 ..]` -/
def copyOut (buf : List Byte) : Nat → Nat → Nat → List Byte → Except Fault (List Byte)
  | 0, _, _, acc => .ok acc
  | n + 1, i, j, acc =>
    if j < maxDataLen then
      match bufGet buf i with
      | .error f => .error f
      | .ok v => copyOut buf n (i + 1) (j + 1) (acc ++ [v])
    else .error .dataIndex

/-- the header fields read by `CheckMessage` before `DataLen`: (source, time, index of `DataLen`) -/
def readSrcTime (c : Cfg) (buf : List Byte) : Except Fault (Nat × Nat × Nat) :=
  match bufGet buf 0 with
  | .error f => .error f
  | .ok t =>
    if t = 0x93 then
      match bufGet buf 7, bufGet buf 8, bufGet buf 9, bufGet buf 10, bufGet buf 11 with
      | .ok s, .ok t0, .ok t1, .ok t2, .ok t3 =>
        .ok (s, if c.stampLocal = false then t0 + 256 * t1 + 65536 * t2 + 16777216 * t3 else c.now, 12)
      | _, _, _, _, _ => .error .bufIndex
    else .ok (c.defaultSource, c.now, 7)

/-- `CheckMessage` (with the data-length/frame-length test of the `fix:` commit): the message
reported, or `none` for `return false`. -/
def checkMessage (c : Cfg) (s : RState) : Except Fault (Option Msg) :=
  match bufGet s.buf 1 with
  | .error f => .error f
  | .ok len =>
  if s.pos ≠ len + 3 then .ok none else
  if s.pos = 0 then .error .bufIndex else          -- MsgBuf[MsgWritePos-1]
  match bufGet s.buf (s.pos - 1) with
  | .error f => .error f
  | .ok last =>
  if rdChecksum s.sum ≠ last then .ok none else
  match bufGet s.buf 2, bufGet s.buf 3, bufGet s.buf 4, bufGet s.buf 5, bufGet s.buf 6 with
  | .ok prio, .ok p0, .ok p1, .ok p2, .ok dst =>
    match readSrcTime c s.buf with
    | .error f => .error f
    | .ok (src, time, i) =>
    match bufGet s.buf i with
    | .error f => .error f
    | .ok dlen =>
    let i := i + 1
    if maxDataLen < dlen then .ok none else
    if i + dlen ≠ s.pos - 1 then .ok none else
    match copyOut s.buf (s.pos - 1 - i) i 0 [] with
    | .error f => .error f
    | .ok data => .ok (some ⟨prio, p0 + 256 * p1 + 65536 * p2, dst, src, time, dlen, data⟩)
  | _, _, _, _, _ => .error .bufIndex

/-- the result of `AddByteToBuffer` used as `if (!AddByteToBuffer(b)) ClearBuffer();` -/
def addOrClear (c : Cfg) (s : RState) (b : Byte) : Except Fault RState :=
  match addByteToBuffer c s b with
  | .error f => .error f
  | .ok (s', ok) => .ok (if ok then s' else clearBuffer s')

/-- One iteration of the `while` loop of `GetMessageFromStream` on the peeked byte `b`:
new state, whether `ReadStream->read()` was called, and `result` (with the message). -/
def readerStep (c : Cfg) (readOut : Bool) (s : RState) (b : Byte) :
    Except Fault (RState × Bool × Option Msg) :=
  if s.coming then
    if s.esc then
      if b = 0x10 then
        match addOrClear c { s with esc := false } b with
        | .error f => .error f
        | .ok s' => .ok (s', true, none)
      else if b = 0x03 then
        match bufGet s.buf 0 with
        | .error f => .error f
        | .ok t =>
          if t = 0x93 ∨ t = 0x94 then
            match checkMessage c s with
            | .error f => .error f
            | .ok r => .ok (clearBuffer s, true, r)
          else .ok (clearBuffer s, true, none)
      else if b = 0x02 then .ok ({ clearBuffer s with sot := true }, true, none)
      else .ok (clearBuffer s, true, none)
    else if b = 0x10 then .ok ({ s with esc := true }, true, none)
    else
      match addOrClear c s b with
      | .error f => .error f
      | .ok s' => .ok (s', true, none)
  else if b = 0x02 then
    if s.esc then .ok ({ clearBuffer s with sot := true }, true, none)
    else .ok ({ s with sot := false }, readOut, none)
  else if s.sot then        -- `EscapeReceived=(NewByte==Escape)` first in both branches
    match addByteToBuffer c { s with esc := decide (b = 0x10), sot := false, coming := true } b with
    | .error f => .error f
    | .ok (s', _) => .ok (s', true, none)
  else .ok ({ s with esc := decide (b = 0x10) }, decide (b = 0x10) || readOut, none)

/-- `GetMessageFromStream(N2kMsg, readOut)` on a stream holding `bytes` (then `peek()` returns -1):
new state, unread bytes, result. -/
def getMessage (c : Cfg) (readOut : Bool) : RState → List Byte → Except Fault (RState × List Byte × Option Msg)
  | s, [] => .ok (s, [], none)
  | s, b :: rest =>
    match readerStep c readOut s b with
    | .error f => .error f
    | .ok (s', consumed, r) =>
      if r.isSome then .ok (s', if consumed then rest else b :: rest, r)
      else if !(readOut || handling s') then .ok (s', if consumed then rest else b :: rest, none)
      else if consumed then getMessage c readOut s' rest
      else .error .livelock

/-- `ParseMessages`: `while (GetMessageFromStream(N2kMsg)) handler(N2kMsg)`; `fuel` bounds the number
of messages (every message consumes at least one byte, `bytes.length + 1` is always enough). -/
def parseAll (c : Cfg) : Nat → RState → List Byte → Except Fault (RState × List Byte × List Msg)
  | 0, s, bytes => .ok (s, bytes, [])
  | fuel + 1, s, bytes =>
    match getMessage c true s bytes with
    | .error f => .error f
    | .ok (s', rest, none) => .ok (s', rest, [])
    | .ok (s', rest, some m) =>
      match parseAll c fuel s' rest with
      | .error f => .error f
      | .ok (s'', rest', ms) => .ok (s'', rest', m :: ms)

/-- every byte of `bytes` through the state machine (`readOut = true`), collecting the messages: what
any sequence of `GetMessageFromStream` / `ParseMessages` calls computes, however the bytes arrive -/
def feed (c : Cfg) : RState → List Byte → Except Fault (RState × List Msg)
  | s, [] => .ok (s, [])
  | s, b :: rest =>
    match readerStep c true s b with
    | .error f => .error f
    | .ok (s', _, r) =>
      match feed c s' rest with
      | .error f => .error f
      | .ok (s'', ms) => .ok (s'', r.toList ++ ms)

end N2k.Acti
