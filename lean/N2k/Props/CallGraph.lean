import N2k.Gen.CallGraph
/-! C04 (and the send path of C01/C11) — the only ways a CAN frame can reach the driver.

`N2k.Gen.CallGraph.*` is regenerated from the clang AST of every src/*.cpp on every run
(tools/translators/callgraph.py). The model `N2k.Send` has exactly this shape: `sendMsg` (gate, then `sendFrame`),
`sendFrame` (flush the queue with `sendFrames`, then driver or queue), `poll` = ParseMessages (flush with `sendFrames`).
The theorems of C04 speak about `sendMsg`/`poll`; the obligations below are what makes that sufficient for the code:
no other function hands a frame to `CANSendFrame` or puts one into the send queue, so a responder (ISO request,
group function, TP, heartbeat, address claim) can transmit only by calling `SendMsg`. -/
namespace N2k.C04.CallGraph
open N2k.Gen.CallGraph

/-- the driver's transmit function is called from the queueing layer only -/
theorem C04_driver_called_only_by_queue_layer :
    ∀ f ∈ callersOfCANSendFrame, f ∈ ["SendFrame", "SendFrames"] := by decide

/-- a new frame enters the queueing layer only from `SendMsg` (behind its gate) -/
theorem C04_frames_enter_only_through_SendMsg :
    ∀ f ∈ callersOfSendFrame, f ∈ ["SendMsg"] := by decide

/-- already queued frames are flushed only by `SendFrame` (before a new frame) and by `ParseMessages` -/
theorem C04_queue_flushed_only_by :
    ∀ f ∈ callersOfSendFrames, f ∈ ["SendFrame", "ParseMessages"] := by decide

/-- the driver is opened and read only by `Open` and `ParseMessages` -/
theorem C04_driver_opened_and_read_only_by :
    (∀ f ∈ callersOfCANOpen, f ∈ ["Open"]) ∧ (∀ f ∈ callersOfCANGetFrame, f ∈ ["Open", "ParseMessages"]) := by decide

/-- non-vacuity: the translator did find the call sites -/
example : callersOfCANSendFrame ≠ [] ∧ callersOfSendFrame ≠ [] := by decide

end N2k.C04.CallGraph
