"""C04 - nothing is transmitted when the node is not entitled to transmit (gate, claim window, open/settle)."""
SPEC = {
    'engine': 'send', 'harness': 'send.cpp',
    'repo_srcs': ['N2kMsg.cpp', 'N2kStream.cpp', 'N2kMessages.cpp', 'N2kTimer.cpp', 'N2kGroupFunction.cpp', 'N2kGroupFunctionDefaultHandlers.cpp', 'NMEA2000.cpp'],
    'variants': ['', 't32'],
    'lean_modules': ['N2k.Props.Consts.C04', 'N2k.Props.CallGraph', 'N2k.Props.C04'], 'props_files': ['N2k/Props/Consts/C04.lean', 'N2k/Props/CallGraph.lean', 'N2k/Props/C04.lean'],
    'translators': ['constants', 'pgn_tables', 'callgraph'],
    'case_start': ['reset', 'reset0', 'tpseq'],
    # the whole-node traffic generator (requests, group functions, TP, claims, heartbeat) carries a C04 monitor as well
    'extra': [{'engine': 'fuzz', 'harness': 'fuzz.cpp', 'no_model': True, 'variants': ['', 't32'], 'asan_options': ':redzone=1024',
               'repo_srcs': ['N2kMsg.cpp', 'N2kStream.cpp', 'N2kMessages.cpp', 'N2kTimer.cpp', 'N2kGroupFunction.cpp',
                             'N2kGroupFunctionDefaultHandlers.cpp', 'NMEA2000.cpp', 'N2kDeviceList.cpp']}],
    'trusted_base': ["model N2k/Model/Send.lean: Open() state machine (openStep), SendMsg gate (gate), IsAddressClaimStarted, "
                     "StartAddressClaim, tN2kScheduler in both the 32-bit and the 64-bit flavour (Basic/Time.lean), transcribed by hand",
                     "'transmitted' = the stream (driver-accepted ++ send queue) grows; frames queued before a claim window and "
                     "flushed inside it are outside the gate (counted, not flagged)"],
    'assumptions': ["dm_None (debug modes print to the forward stream and put nothing on the bus)",
                    "received requests / group functions / TP frames that trigger sends go through the same SendMsg gate "
                    "(checked on every run: N2k/Props/CallGraph.lean over the call sites extracted from the clang AST - CANSendFrame is called only by SendFrame/SendFrames, SendFrame only by SendMsg); their handlers are modelled "
                    "with C08-C10, not here", "devices start with a real address (null-address restart is C03)"],
}
MANIFEST = {
    'text': "Theorems for every state, message and device: listen-only nodes never add a frame to the stream (send, poll, while "
            "opening); before os_Open (CAN not opened or < 200 ms settle) sends return false and nothing is produced; while a "
            "device's claim is pending or it holds an address above 251 every send but PGN 60928 returns false and produces nothing, "
            "and whatever is produced carries the claim identifier; the claim window is characterised exactly for both timer "
            "builds, for every clock origin including the 32-bit wrap. Handlers triggered by received traffic are covered "
            "by the gate theorem through the call-structure obligations (every frame reaches the driver through SendMsg or the queue flush). Correspondence: real node behind "
            "a mock driver, un-opened and opened, both timer builds, origins near 2^31/2^32, CANOpen failures, sends inside and at "
            "the edge of claim windows; oracle knows only open time, mode and the claim ops it issued.",
    'design_ref': 'DESIGN.md section 4, C04',
    'note': "gate + open machine + claim window are proved for the model; that the responders (request / group-function / TP / heartbeat / "
            "address claim) can transmit only through that gate is a kernel-checked obligation over the call sites extracted from the "
            "clang AST on every run (N2k/Props/CallGraph.lean: CANSendFrame is called only by SendFrame/SendFrames, SendFrame only by "
            "SendMsg, SendFrames only by SendFrame and ParseMessages), and the whole-node harness monitors it dynamically (listen-only, "
            "null address, claim window incl. commanded addresses and multi-device nodes).",
}
