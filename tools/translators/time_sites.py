"""Structural obligation of C13: every clock read and every raw comparison on a time-typed value in src/ is a known,
reviewed site.

Lists (a) every call of N2kMillis() / N2kMillis64() / millis() and (b) every assignment of an integer literal to a time-typed identifier (an absolute stamp) and (c) every line that compares or subtracts a time-typed
identifier (fields/locals declared with an integer type and a time-like name, or a clock read) with a relational operator
or a binary minus, in src/*.cpp and src/*.h (comments stripped). The list must equal the committed whitelist
time_sites_whitelist.json (each entry carries its review class). A site that is not on the whitelist - e.g. a new raw
`<` on a time field - raises, which check.py reports as a broken proof obligation; a whitelisted site that disappeared is
reported in the statistics only (harmless)."""
import os, re, json, glob

HERE = os.path.dirname(os.path.abspath(__file__))
WHITELIST = os.path.join(HERE, 'time_sites_whitelist.json')

CLOCK = re.compile(r'\b(N2kMillis64|N2kMillis|millis)\s*\(\s*\)')
DECL = re.compile(r'\b(?:unsigned\s+long|uint32_t|uint64_t|tN2kSchedulerTime)\s+((?:\w+\s*(?:=[^,;]*)?,\s*)*\w+)\s*(?:=[^;]*)?;')
TIMEY = re.compile(r'(Time|Millis|Requested$|LastRead|SyncOffset|Timeout|^Now$|^now$|Elapsed|^Start$|^T1$|^T2$)')
NOT_TIMEY = re.compile(r'^n[A-Z]')     # counters such as nProdIRequested


def strip_comments(text):
    def repl(m):
        s = m.group(0)
        return re.sub(r'[^\n]', ' ', s) if s.startswith('/') else s
    return re.sub(r'//[^\n]*|/\*.*?\*/|"(?:\\.|[^"\\])*"', repl, text, flags=re.S)


def time_identifiers(texts):
    ids = set()
    for t in texts.values():
        for m in DECL.finditer(t):
            for part in m.group(1).split(','):
                name = part.split('=')[0].strip()
                if name and TIMEY.search(name) and not NOT_TIMEY.search(name):
                    ids.add(name)
        # function parameters of the primitives
        for m in re.finditer(r'\b(?:uint32_t|uint64_t|unsigned\s+long)\s+(\w+)\s*(?:=[^,)]*)?[,)]', t):
            if TIMEY.search(m.group(1)) and not NOT_TIMEY.search(m.group(1)):
                ids.add(m.group(1))
    return ids


def norm(line):
    return re.sub(r'\s+', ' ', line).strip()


def scan(src):
    files = sorted(glob.glob(os.path.join(src, '*.cpp')) + glob.glob(os.path.join(src, '*.h')))
    texts = {os.path.basename(f): strip_comments(open(f, errors='replace').read()) for f in files}
    ids = time_identifiers(texts)
    idre = re.compile(r'\b(' + '|'.join(sorted(map(re.escape, ids))) + r')\b') if ids else None
    sites = []
    for fn, t in texts.items():
        for line in t.split('\n'):
            if not line.strip() or line.lstrip().startswith('#include'):
                continue
            reads = CLOCK.findall(line)
            code = norm(line)
            for _ in reads:
                sites.append((fn, 'read', code))
            mention = bool(reads) or (idre is not None and idre.search(line))
            if idre is not None:
                for m in re.finditer(r'\b(' + '|'.join(sorted(map(re.escape, ids))) + r')\s*=\s*(0[xX][0-9a-fA-F]+|\d+)\b(?!\s*[-+*/])', line):
                    sites.append((fn, 'const', code))
            if mention:
                l2 = re.sub(r'->|<<|>>|<\s*\w+\s*>|\+\+|--|-=|\+=', ' ', line)
                if re.search(r'<=|>=|==|!=|<|>', l2) or re.search(r'[\w)\]]\s*-\s*[\w(]', l2):
                    sites.append((fn, 'compare', code))
    return sites, sorted(ids)


def key(s):
    return '%s|%s|%s' % s


def run(src, gen_dir=None):
    sites, ids = scan(src)
    have = {}
    for s in sites:
        have[key(s)] = have.get(key(s), 0) + 1
    wl = json.load(open(WHITELIST))
    want = {}
    classes = {}
    for e in wl['sites']:
        k = key((e['file'], e['kind'], e['code']))
        want[k] = e.get('count', 1)
        classes[e['class']] = classes.get(e['class'], 0) + e.get('count', 1)
    new = sorted(k for k in have if have[k] > want.get(k, 0))
    gone = sorted(k for k in want if want[k] > have.get(k, 0))
    if new:
        raise RuntimeError('clock reads / raw time comparisons not on the reviewed whitelist: ' + ' ;; '.join(new[:6]))
    return {'sites': len(sites), 'clock_reads': sum(1 for s in sites if s[1] == 'read'),
            'comparisons': sum(1 for s in sites if s[1] == 'compare'), 'constant_stamps': sum(1 for s in sites if s[1] == 'const'), 'time_identifiers': ids,
            'whitelist_classes': classes, 'whitelisted_sites_not_found': gone, 'obligations': 1}


if __name__ == '__main__':
    import sys
    src = sys.argv[1] if len(sys.argv) > 1 else '/repo/src'
    if len(sys.argv) > 2 and sys.argv[2] == '--dump':
        sites, ids = scan(src)
        print(json.dumps({'ids': ids, 'sites': sites}, indent=1))
    else:
        print(json.dumps(run(src), indent=1))
