#include "NMEA2000.h"
#include "N2kMessages.h"
#include "N2kDeviceList.h"
#include <stdio.h>
#include <string.h>
#include <vector>
#include <deque>
#include <stdlib.h>
static uint32_t now=1000;
extern "C" uint32_t millis(){ return now; }
unsigned long N2ktoCanID(unsigned char priority, unsigned long PGN, unsigned long Source, unsigned char Destination);
struct Fr{unsigned long id; unsigned char len; unsigned char b[8];};
static std::vector<tN2kMsg> delivered;
static void onMsg(const tN2kMsg&m){ delivered.push_back(m); }
struct Bus: public tNMEA2000 { std::vector<Fr> out; std::deque<Fr> in; bool verbose=false;
 bool CANSendFrame(unsigned long id, unsigned char len, const unsigned char *buf, bool) override { Fr f; f.id=id; f.len=len; memcpy(f.b,buf,8); out.push_back(f); if(verbose){printf("  tx t=%u id=%08lx:",now,id); for(int i=0;i<len;i++)printf(" %02x",buf[i]); printf("\n");} return true;}
 bool CANOpen() override {return true;}
 bool CANGetFrame(unsigned long&id,unsigned char&len,unsigned char*buf) override { if(in.empty())return false; Fr f=in.front(); in.pop_front(); id=f.id;len=f.len;memcpy(buf,f.b,8); return true;}
 void rx(unsigned long id, std::vector<int> d){ Fr f; f.id=id; f.len=d.size(); memset(f.b,0xff,8); for(size_t i=0;i<d.size();i++)f.b[i]=d[i]; in.push_back(f); ParseMessages(); }
 void run(int ms){ for(int i=0;i<ms;i++){ ParseMessages(); now++; } }
 tInternalDevice* dev(int i){ return &Devices[i]; }
};
int main(int argc,char**argv){ int t=atoi(argv[1]); Bus b; b.EnableForward(false); b.SetMsgHandler(onMsg);
 if(t==1){ // C02 stale addressed slot : PGN 126208 fast packet PDU1
   b.SetMode(tNMEA2000::N2km_ListenAndNode,22); b.run(600);
   unsigned long idA=N2ktoCanID(3,126208,50,22), idB=N2ktoCanID(3,126208,50,255);
   b.rx(idA,{0x00,20,2,0,0,0,0,0}); // msg1 first frame seq0 len 20 to us, then lost
   delivered.clear();
   b.rx(idB,{0x20,10,2,0xAA,0xBB,0xCC,0xDD,0xEE}); // msg2 seq1 to broadcast, complete in 2 frames
   b.rx(idB,{0x21,1,2,3,4,0xff,0xff,0xff});
   printf("delivered=%zu (expect 1)\n",delivered.size()); }
 if(t==2){ // C07 TP_DT with iDev=-1
   b.SetMode(tNMEA2000::N2km_ListenAndNode,22); b.run(600);
   unsigned long cm=N2ktoCanID(7,60416,50,22), dt=N2ktoCanID(7,60160,50,22);
   b.rx(cm,{16,60,0,9,0xff,0x00,0xEF,0x01});
   // now we lose address: claim from lower name at 22
   b.rx(N2ktoCanID(6,60928,22,255),{0,0,0,0,0,0,0,0});
   printf("src now %d\n", b.GetN2kSource());
   for(int k=1;k<=9;k++) b.rx(dt,{k,1,2,3,4,5,6,7});
   printf("survived\n"); }
 if(t==3){ // C18 config info stored?
   b.SetMode(tNMEA2000::N2km_ListenAndNode,22); tN2kDeviceList dl(&b); b.run(600);
   b.rx(N2ktoCanID(6,60928,50,255),{1,2,3,4,5,6,7,0x80});
   tN2kMsg m; SetN2kPGN126998(m,"Manuf","Inst1","Inst2"); // send as fast packet frames manually
   unsigned long id=N2ktoCanID(6,126998,50,255); int frames=(m.DataLen-6-1)/7+2; int cur=0;
   for(int i=0;i<frames;i++){ std::vector<int> d; d.push_back(i); if(i==0){d.push_back(m.DataLen); for(int j=0;j<6;j++)d.push_back(m.Data[cur++]);} else {for(int j=0;j<7;j++) d.push_back(cur<m.DataLen?m.Data[cur++]:0xff);} b.rx(id,d);} 
   const tNMEA2000::tDevice*d=dl.FindDeviceBySource(50); printf("dev=%p man=%s\n",(void*)d, d&&d->GetManufacturerInformation()?d->GetManufacturerInformation():"(null)"); }
 if(t==4){ // C18 NAME 0 on placeholder
   b.SetMode(tNMEA2000::N2km_ListenAndNode,22); tN2kDeviceList dl(&b); b.run(600);
   b.rx(N2ktoCanID(2,127250,60,255),{1,2,3,4,5,6,7,8}); // unknown source -> placeholder
   b.rx(N2ktoCanID(6,60928,60,255),{0,0,0,0,0,0,0,0}); // NAME 0 claim
   printf("survived count=%d\n",dl.Count()); }
 if(t==5){ // C03 commanded address onto sibling
   b.SetDeviceCount(2); b.SetMode(tNMEA2000::N2km_ListenAndNode,22); b.run(600);
   uint64_t name0=b.GetDeviceInformation(0).GetName(); printf("addr %d %d\n",b.GetN2kSource(0),b.GetN2kSource(1));
   // commanded address must be TP message PGN 65240 len 9: use BAM
   unsigned long cm=N2ktoCanID(7,60416,50,255), dt=N2ktoCanID(7,60160,50,255);
   b.rx(cm,{32,9,0,2,0xff,0xD8,0xFE,0x00});
   std::vector<int> p1={1}; for(int i=0;i<7;i++)p1.push_back((name0>>(8*i))&0xff); b.rx(dt,p1);
   b.rx(dt,{2,(int)((name0>>56)&0xff),23,0xff,0xff,0xff,0xff,0xff});
   b.run(600); printf("addr %d %d changed=%d\n",b.GetN2kSource(0),b.GetN2kSource(1),b.ReadResetAddressChanged()); }
 if(t==6){ // C01 seq counter theft + short FP
   b.SetMode(tNMEA2000::N2km_NodeOnly,22); static const unsigned long tx[]={129029,0}; b.ExtendTransmitMessages(tx); b.run(600); b.out.clear();
   unsigned long steal[]={126720,130816,130817,130818,130819,130820,130821,130822};
   for(unsigned long p: steal){ tN2kMsg m; m.SetPGN(p); m.Priority=6; for(int i=0;i<10;i++)m.AddByte(i); b.SendMsg(m);} 
   b.out.clear();
   for(int k=0;k<3;k++){ tN2kMsg m; m.SetPGN(129029); m.Priority=3; for(int i=0;i<10;i++)m.AddByte(i); b.SendMsg(m); tN2kMsg m2; m2.SetPGN(130900); m2.Priority=3; for(int i=0;i<10;i++)m2.AddByte(i); b.SendMsg(m2);} 
   for(auto&f:b.out) if(((f.id>>8)&0x1ffff)==129029 && (f.b[0]&0x1f)==0) printf("129029 seq=%d\n",f.b[0]>>5);
   b.out.clear(); tN2kMsg s; memset(s.Data,0x55,223); s.SetPGN(126208); s.Priority=3; s.Destination=50; s.AddByte(1); s.AddByte(2); b.SendMsg(s); for(auto&f:b.out){ printf("short fp:"); for(int i=0;i<8;i++)printf(" %02x",f.b[i]); printf("\n"); } }
 if(t==7){ // C10 223 byte TP RTS
   b.SetMode(tNMEA2000::N2km_ListenAndNode,22); b.run(600); b.out.clear(); b.verbose=true;
   b.rx(N2ktoCanID(7,60416,50,22),{16,223,0,32,0xff,0x00,0xEF,0x01});
   b.rx(N2ktoCanID(7,60416,50,22),{16,222,0,32,0xff,0x00,0xEF,0x01}); }
 if(t==8){ // C12 multi device keep interval
   b.SetDeviceCount(2); b.SetMode(tNMEA2000::N2km_NodeOnly,22); b.run(600);
   b.SetHeartbeatIntervalAndOffset(5000,0,1); printf("before %u %u\n",b.GetHeartbeatInterval(0),b.GetHeartbeatInterval(1));
   b.SetHeartbeatIntervalAndOffset(0xffffffff,100,-1); printf("after %u %u\n",b.GetHeartbeatInterval(0),b.GetHeartbeatInterval(1)); }
 return 0; }
