import N2k.Basic.Time
/-! C10 helper lemmas: when a `tN2kScheduler` armed with `FromNow(ms)` fires, for both scheduler flavours. -/
namespace N2k.Time

/-- not before `ms` milliseconds have passed (both flavours) -/
theorem isTime_fromNow_early (f : Flavor) (t1 t2 ms : Nat) (h1 : t1 ≤ t2) (h2 : t2 < t1 + ms) (hms : ms ≤ 100000)
    (h64 : t1 + ms < M64) : (Sched.fromNow f t1 ms).isTime f t2 = false := by
  cases f
  · -- 32 bit
    simp only [Sched.fromNow, Sched.isTime, disabledVal, millis32, sub32, M32, INT32_MAX] at *
    by_cases hn : (t1 % 4294967296 + ms) % 4294967296 = 4294967296 - 1
    · simp only [hn, ↓reduceIte]
      simp only [Bool.and_eq_false_iff, bne_eq_false_iff_eq, decide_eq_false_iff_not]
      right; omega
    · simp only [hn, ↓reduceIte]
      simp only [Bool.and_eq_false_iff, bne_eq_false_iff_eq, decide_eq_false_iff_not]
      right; omega
  · simp only [Sched.fromNow, Sched.isTime, M64] at *
    simp only [Nat.mod_eq_of_lt h64, decide_eq_false_iff_not]; omega

/-- one millisecond after the interval at the latest (both flavours; 32 bit: within the 2^31 ms horizon of the comparison) -/
theorem isTime_fromNow_late (f : Flavor) (t1 t2 ms : Nat) (h1 : t1 + ms + 1 ≤ t2) (h2 : t2 < t1 + ms + INT32_MAX)
    (h64 : t1 + ms < M64) : (Sched.fromNow f t1 ms).isTime f t2 = true := by
  cases f
  · simp only [Sched.fromNow, Sched.isTime, disabledVal, millis32, sub32, M32, INT32_MAX] at *
    by_cases hn : (t1 % 4294967296 + ms) % 4294967296 = 4294967296 - 1
    · simp only [hn, ↓reduceIte]
      simp only [Bool.and_eq_true, bne_iff_ne, ne_eq, decide_eq_true_eq]
      refine ⟨by omega, by omega⟩
    · simp only [hn, ↓reduceIte]
      simp only [Bool.and_eq_true, bne_iff_ne, ne_eq, decide_eq_true_eq]
      refine ⟨by omega, by omega⟩
  · simp only [Sched.fromNow, Sched.isTime, M64] at *
    simp only [Nat.mod_eq_of_lt h64, decide_eq_true_eq]; omega

/-- 64-bit flavour: strict comparison, so exactly from `ms + 1` on -/
theorem isTime_fromNow_t64 (t1 t2 ms : Nat) (h64 : t1 + ms < M64) :
    (Sched.fromNow .t64 t1 ms).isTime .t64 t2 = decide (t1 + ms < t2) := by
  simp only [Sched.fromNow, Sched.isTime, Nat.mod_eq_of_lt h64]

/-- 32-bit flavour: from `ms` on, except when the deadline equals the "disabled" sentinel (moved by one) -/
theorem isTime_fromNow_t32_at (t1 ms : Nat) (hs : (t1 + ms) % M32 ≠ M32 - 1) :
    (Sched.fromNow .t32 t1 ms).isTime .t32 (t1 + ms) = true := by
  simp only [Sched.fromNow, Sched.isTime, disabledVal, millis32, sub32, M32, INT32_MAX] at *
  have hn : ¬ (t1 % 4294967296 + ms) % 4294967296 = 4294967296 - 1 := by omega
  simp only [hn, ↓reduceIte]
  simp only [Bool.and_eq_true, bne_iff_ne, ne_eq, decide_eq_true_eq]
  refine ⟨by omega, by omega⟩

/-- a message time less than 100 ms in the past has not "elapsed" for the 100 ms slot timeout -/
theorem fresh_not_elapsed (t d : Nat) (hd : d < 100) : hasElapsed (millis32 t) 100 (millis32 (t + d)) = false := by
  unfold hasElapsed millis32 sub32 M32 INT32_MAX
  exact decide_eq_false (by omega)

theorem disabled_not_time (f : Flavor) (t : Nat) (h : t < M64 - 1) : (Sched.disabled f).isTime f t = false := by
  cases f
  · simp [Sched.disabled, Sched.isTime, disabledVal]
  · show decide (t > M64 - 1) = false
    exact decide_eq_false (by omega)

end N2k.Time
